"""py2lean, dictionary / file-entry part (C14): which validation tests are present in the source.

The Lean model `Pacti/Model/Dict.lean` mirrors `_check_clause`, `validate_contract_dict`,
`PolyhedralIoContract.from_dict`, `read_contracts_from_file` and the `try/except` of
`polyhedral_termlist_from_string`; the places the pinned source gets wrong are Boolean parameters of the
model (`Dict.Cfg`).  This module decides their values from the AST: each function is compared (after
dropping docstrings and the message arguments of raised errors) with a *template* instantiated by the
flags; the flags are the instantiation that matches.  Both the pinned and the repaired forms are
recognised; any other form is a translator error (the tie to the source is broken).

Facts emitted into Gen/Consts.lean:
  checkClauseDictTest, checkClauseRaises, checkClauseNumTest  (serializer._check_clause)
  fileChecked, compoundChecked                               (fileio.read_contracts_from_file)
  fromDictValidates                                          (PolyhedralIoContract.from_dict)
  catchZeroDiv                                               (serializer.polyhedral_termlist_from_string)
`checkClauseRaises` is literally "is the statement under `if kw not in clause:` an `ast.Raise` or a bare
`ast.Expr` call".
"""
from __future__ import annotations

import ast
import itertools
import os
import textwrap

ERRS = ("ContractFormatError", "ValueError")


class _Norm(ast.NodeTransformer):
    """drop docstrings, error messages and annotations; keep everything that decides behaviour"""

    def visit_Call(self, node):
        self.generic_visit(node)
        if isinstance(node.func, ast.Name) and node.func.id in ERRS:
            return ast.Call(func=node.func, args=[], keywords=[])
        return node

    def visit_FunctionDef(self, node):
        self.generic_visit(node)
        body = [s for s in node.body if not (isinstance(s, ast.Expr) and isinstance(s.value, ast.Constant) and isinstance(s.value.value, str))]
        return ast.FunctionDef(name=node.name, args=ast.arguments(posonlyargs=[], args=[ast.arg(arg=a.arg) for a in node.args.args],
                                                                   kwonlyargs=[], kw_defaults=[], defaults=node.args.defaults),
                               body=body, decorator_list=[], returns=None, type_params=[])

    def visit_AnnAssign(self, node):
        self.generic_visit(node)
        if node.value is None:
            return None
        return ast.Assign(targets=[node.target], value=node.value)

    def visit_Raise(self, node):
        self.generic_visit(node)
        return ast.Raise(exc=node.exc, cause=None)

    def visit_ExceptHandler(self, node):
        self.generic_visit(node)
        return ast.ExceptHandler(type=node.type, name=None, body=node.body)


def norm(node) -> str:
    return ast.dump(_Norm().visit(ast.parse(ast.unparse(node))), annotate_fields=False)


def norm_src(src: str) -> str:
    return ast.dump(_Norm().visit(ast.parse(textwrap.dedent(src))), annotate_fields=False)


def find_func(tree, name, cls=None):
    for node in ast.walk(tree):
        if cls is not None and isinstance(node, ast.ClassDef) and node.name == cls:
            for f in node.body:
                if isinstance(f, ast.FunctionDef) and f.name == name:
                    return f
    if cls is None:
        for node in tree.body:
            if isinstance(node, ast.FunctionDef) and node.name == name:
                return node
    return None


# ----------------------------------------------------------------------------------------------
# templates


def t_check_clause(d: bool, r: bool, n: bool) -> str:
    s = "def _check_clause(clause, clause_id):\n"
    if d:
        s += "    if not isinstance(clause, dict):\n        raise ContractFormatError()\n"
    s += '    keywords = ["constant", "coefficients"]\n    for kw in keywords:\n        if kw not in clause:\n'
    s += "            raise ContractFormatError()\n" if r else "            ContractFormatError()\n"
    s += "        value = clause[kw]\n"
    s += '        if kw == "coefficients":\n            if not isinstance(value, dict):\n                raise ContractFormatError()\n'
    if n:
        s += "            for coeff in value.values():\n                if not _is_number(coeff):\n                    raise ContractFormatError()\n"
        s += "        elif not _is_number(value):\n            raise ContractFormatError()\n"
    return s


T_IS_NUMBER = [
    "def _is_number(value):\n    return isinstance(value, numbers.Real) and not isinstance(value, bool)\n",
    "def _is_number(value):\n    return isinstance(value, (int, float)) and not isinstance(value, bool)\n",
]

T_VALIDATE = '''
def validate_contract_dict(contract, contract_name, machine_representation):
    if not isinstance(contract, dict):
        PRINT
        raise ContractFormatError()
    keywords = ["assumptions", "guarantees", "input_vars", "output_vars"]
    str_list_kw = ["input_vars", "output_vars"]
    if not machine_representation:
        str_list_kw += ["assumptions", "guarantees"]
    for kw in keywords:
        if kw not in contract:
            raise ContractFormatError()
        value = contract[kw]
        if not isinstance(value, list):
            raise ContractFormatError()
        if kw in str_list_kw:
            for str_item in value:
                if not isinstance(str_item, str):
                    raise ContractFormatError()
        elif machine_representation:
            for index, clause in enumerate(value):
                _check_clause(clause, f"{contract_name}:{kw}{index}")
'''

T_VALIDATE_COMPOUND = '''
def validate_compound_contract_dict(contract, contract_name):
    if not isinstance(contract, dict):
        raise ContractFormatError()
    for kw in ("assumptions", "guarantees", "input_vars", "output_vars"):
        if kw not in contract:
            raise ContractFormatError()
        value = contract[kw]
        if not isinstance(value, list):
            raise ContractFormatError()
        str_lists = [value] if kw in ("input_vars", "output_vars") else value
        for str_list in str_lists:
            if not isinstance(str_list, list):
                raise ContractFormatError()
            for str_item in str_list:
                if not isinstance(str_item, str):
                    raise ContractFormatError()
'''

T_READ_HEAD = '''
def read_contracts_from_file(file_name):
    if not os.path.isfile(file_name):
        raise ValueError()
    with open(file_name) as f:
        file_data = json.load(f)
'''

T_READ_PINNED = T_READ_HEAD + '''
    assert isinstance(file_data, list)
    for entry in file_data:
        assert isinstance(entry, dict)
        assert "type" in entry
    contracts = []
    names = []
    for entry in file_data:
        if entry["type"] == "PolyhedralIoContract_machine":
            polyhedra.serializer.validate_contract_dict(entry["data"], entry["name"], machine_representation=True)
            contracts.append(PolyhedralIoContract.from_dict(entry["data"]))
            names.append(entry["name"])
        elif entry["type"] == "PolyhedralIoContract":
            polyhedra.serializer.validate_contract_dict(entry["data"], entry["name"], machine_representation=False)
            contracts.append(PolyhedralIoContract.from_strings(**entry["data"]))
            names.append(entry["name"])
        elif entry["type"] == "PolyhedralIoContractCompound":
            contracts.append(PolyhedralIoContractCompound.from_strings(**entry["data"]))
            names.append(entry["name"])
        else:
            raise ValueError()
    return contracts, names
'''

T_READ_REPAIRED = T_READ_HEAD + '''
    if not isinstance(file_data, list):
        raise ContractFormatError()
    for entry in file_data:
        if not isinstance(entry, dict):
            raise ContractFormatError()
        for kw in ("type", "name", "data"):
            if kw not in entry:
                raise ContractFormatError()
        if not isinstance(entry["name"], str):
            raise ContractFormatError()
    contracts = []
    names = []
    for entry in file_data:
        data = entry["data"]
        if entry["type"] == "PolyhedralIoContract_machine":
            polyhedra.serializer.validate_contract_dict(data, entry["name"], machine_representation=True)
            contracts.append(PolyhedralIoContract.from_dict(data))
            names.append(entry["name"])
        elif entry["type"] == "PolyhedralIoContract":
            polyhedra.serializer.validate_contract_dict(data, entry["name"], machine_representation=False)
            contracts.append(PolyhedralIoContract.from_strings(data["assumptions"], data["guarantees"], data["input_vars"], data["output_vars"]))
            names.append(entry["name"])
        elif entry["type"] == "PolyhedralIoContractCompound":
            polyhedra.serializer.validate_compound_contract_dict(data, entry["name"])
            contracts.append(PolyhedralIoContractCompound.from_strings(data["assumptions"], data["guarantees"], data["input_vars"], data["output_vars"]))
            names.append(entry["name"])
        else:
            raise ValueError()
    return contracts, names
'''


def t_from_dict(v: bool) -> str:
    s = '''
def from_dict(contract, simplify=True):
    if not isinstance(contract, dict):
        raise ValueError()
    for kw in ("assumptions", "guarantees", "input_vars", "output_vars"):
        if kw not in contract:
            raise ValueError()
'''
    if v:
        s += '''    try:
        serializer.validate_contract_dict(contract, "", machine_representation=True)
    except ContractFormatError as e:
        raise ValueError()
'''
    for kw, var in (("assumptions", "a"), ("guarantees", "g")):
        s += f'''    if all(isinstance(x, dict) for x in contract["{kw}"]):
        {var} = PolyhedralTermList([PolyhedralTerm({{Var(k): v for k, v in x["coefficients"].items()}}, float(x["constant"])) for x in contract["{kw}"]])
    else:
        raise ValueError()
'''
    s += '''    return PolyhedralIoContract(input_vars=[Var(x) for x in contract["input_vars"]], output_vars=[Var(x) for x in contract["output_vars"]], assumptions=a, guarantees=g, simplify=simplify)
'''
    return s


def t_from_string(z: bool) -> str:
    s = '''
def polyhedral_termlist_from_string(str_rep):
    try:
        tokens = expression.parse_string(str_rep, parse_all=True)
    except pp.ParseBaseException as pe:
        raise PolyhedralSyntaxException(pe, str_rep)
'''
    if z:
        s += "    except ZeroDivisionError:\n        raise ValueError()\n"
    s += '''    if len(tokens) == 1:
        e = tokens[0]
        if isinstance(e, PolyhedralSyntaxExpression):
            return _expression_to_polyhedral_terms(str_rep, e)
    raise ValueError()
'''
    return s


T_FROM_STRINGS = '''
def from_strings(assumptions, guarantees, input_vars, output_vars, simplify=True):
    a = []
    if assumptions:
        a = [item for x in assumptions for item in serializer.polyhedral_termlist_from_string(x)]
    g = []
    if guarantees:
        g = [item for x in guarantees for item in serializer.polyhedral_termlist_from_string(x)]
    return PolyhedralIoContract(input_vars=[Var(x) for x in input_vars], output_vars=[Var(x) for x in output_vars], assumptions=PolyhedralTermList(a), guarantees=PolyhedralTermList(g), simplify=simplify)
'''

T_FROM_STRINGS_COMPOUND = '''
def from_strings(assumptions, guarantees, input_vars, output_vars):
    a = []
    if assumptions:
        for termlist_str in assumptions:
            a_termlist = [item for x in termlist_str for item in serializer.polyhedral_termlist_from_string(x)]
            a.append(PolyhedralTermList(a_termlist))
    g = []
    if guarantees:
        for termlist_str in guarantees:
            g_termlist = [item for x in termlist_str for item in serializer.polyhedral_termlist_from_string(x)]
            g.append(PolyhedralTermList(g_termlist))
    return PolyhedralIoContractCompound(input_vars=[Var(x) for x in input_vars], output_vars=[Var(x) for x in output_vars], assumptions=NestedPolyhedra(a, force_empty_intersection=True), guarantees=NestedPolyhedra(g, force_empty_intersection=False))
'''

T_POLYTERM_INIT = '''
def __init__(self, variables, constant):
    variable_dict = {}
    for key, value in variables.items():
        if value != 0:
            if isinstance(key, str):
                raise ValueError()
            else:
                variable_dict[key] = float(value)
    self.variables = variable_dict
    self.constant = float(constant)
'''


def _same(actual, template_src: str, drop_decorators=True) -> bool:
    return norm(actual) == norm_src(template_src)


def _fix_from_dict_name(f):
    """the contract name passed to validate_contract_dict inside from_dict is a message detail"""
    for n in ast.walk(f):
        if (isinstance(n, ast.Call) and isinstance(n.func, ast.Attribute) and n.func.attr == "validate_contract_dict"
                and len(n.args) >= 2 and isinstance(n.args[1], ast.Constant)):
            n.args[1] = ast.Constant(value="")
    return f


def _strip_print(f):
    """`print(contract)` in validate_contract_dict has no effect on the outcome"""

    class P(ast.NodeTransformer):
        def visit_Expr(self, node):
            if isinstance(node.value, ast.Call) and isinstance(node.value.func, ast.Name) and node.value.func.id == "print":
                return None
            return node

    return P().visit(f)


def gen_dict_consts(src: str, TranslateError) -> str:
    ser = ast.parse(open(os.path.join(src, "pacti/terms/polyhedra/serializer.py")).read())
    fio = ast.parse(open(os.path.join(src, "pacti/utils/fileio.py")).read())
    con = ast.parse(open(os.path.join(src, "pacti/contracts/polyhedral_iocontract.py")).read())
    pol = ast.parse(open(os.path.join(src, "pacti/terms/polyhedra/polyhedra.py")).read())

    def need(tree, name, cls=None):
        f = find_func(tree, name, cls)
        if f is None:
            raise TranslateError(f"{cls + '.' if cls else ''}{name} not found")
        return f

    # _check_clause ---------------------------------------------------------------------------
    f = need(ser, "_check_clause")
    flags = None
    for d, r, n in itertools.product((False, True), repeat=3):
        if _same(f, t_check_clause(d, r, n)):
            flags = (d, r, n)
    if flags is None:
        raise TranslateError("_check_clause: unrecognised body (neither the pinned form nor a known repair)")
    d, r, n = flags
    # the fact itself, read directly: is the statement under `if kw not in clause:` a Raise or a bare Expr?
    loop = [s for s in f.body if isinstance(s, ast.For)][0]
    first_if = loop.body[0]
    stmt = first_if.body[0]
    if isinstance(stmt, ast.Raise) != r or (not r and not isinstance(stmt, ast.Expr)):
        raise TranslateError("_check_clause: inconsistent reading of the missing-keyword statement")
    if n:
        g = need(ser, "_is_number")
        if not any(_same(g, t) for t in T_IS_NUMBER):
            raise TranslateError("_is_number: unrecognised body")

    # validate_contract_dict (unchanged in both forms; checked so that the model cannot drift) -------
    f = _strip_print(need(ser, "validate_contract_dict"))
    if not _same(f, T_VALIDATE.replace("        PRINT\n", "")):
        raise TranslateError("validate_contract_dict: unrecognised body")

    # read_contracts_from_file -------------------------------------------------------------------
    f = need(fio, "read_contracts_from_file")
    if _same(f, T_READ_PINNED):
        file_checked, compound_checked = False, False
    elif _same(f, T_READ_REPAIRED):
        file_checked, compound_checked = True, True
        g = need(ser, "validate_compound_contract_dict")
        if not _same(g, T_VALIDATE_COMPOUND):
            raise TranslateError("validate_compound_contract_dict: unrecognised body")
    else:
        raise TranslateError("read_contracts_from_file: unrecognised body (neither the pinned form nor the known repair)")

    # from_dict, from_strings, PolyhedralTerm.__init__ --------------------------------------------
    f = _fix_from_dict_name(need(con, "from_dict", "PolyhedralIoContract"))
    fdv = None
    for v in (False, True):
        if _same(f, t_from_dict(v)):
            fdv = v
    if fdv is None:
        raise TranslateError("PolyhedralIoContract.from_dict: unrecognised body")
    if not _same(need(con, "from_strings", "PolyhedralIoContract"), T_FROM_STRINGS):
        raise TranslateError("PolyhedralIoContract.from_strings: unrecognised body")
    if not _same(need(con, "from_strings", "PolyhedralIoContractCompound"), T_FROM_STRINGS_COMPOUND):
        raise TranslateError("PolyhedralIoContractCompound.from_strings: unrecognised body")
    if not _same(need(pol, "__init__", "PolyhedralTerm"), T_POLYTERM_INIT):
        raise TranslateError("PolyhedralTerm.__init__: unrecognised body")

    # polyhedral_termlist_from_string ---------------------------------------------------------------
    f = need(ser, "polyhedral_termlist_from_string")
    czd = None
    for z in (False, True):
        if _same(f, t_from_string(z)):
            czd = z
    if czd is None:
        raise TranslateError("polyhedral_termlist_from_string: unrecognised body")

    def b(x):
        return "true" if x else "false"

    out = [
        "/-- C14: `_check_clause` rejects a clause that is not a dictionary (`if not isinstance(clause, dict): raise …`) -/",
        f"def checkClauseDictTest : Bool := {b(d)}\n",
        "/-- C14: the statement under `if kw not in clause:` of `_check_clause` is an `ast.Raise` (pinned: a bare `ast.Expr` call — the error is built and dropped) -/",
        f"def checkClauseRaises : Bool := {b(r)}\n",
        "/-- C14: `_check_clause` tests that the constant and the coefficients are numbers (not booleans) -/",
        f"def checkClauseNumTest : Bool := {b(n)}\n",
        "/-- C14: `read_contracts_from_file` raises `ContractFormatError` instead of `assert` / unchecked `entry[\"data\"]`, `entry[\"name\"]`, and passes the four fields explicitly -/",
        f"def fileChecked : Bool := {b(file_checked)}\n",
        "/-- C14: the compound branch of `read_contracts_from_file` validates `entry[\"data\"]` -/",
        f"def compoundChecked : Bool := {b(compound_checked)}\n",
        "/-- C14: `PolyhedralIoContract.from_dict` runs `validate_contract_dict` (as `ValueError`) before reading the fields -/",
        f"def fromDictValidates : Bool := {b(fdv)}\n",
        "/-- C14: `polyhedral_termlist_from_string` has `except ZeroDivisionError: raise ValueError` -/",
        f"def catchZeroDiv : Bool := {b(czd)}\n",
    ]
    return "\n".join(out)
