#!/usr/bin/env python3
"""Write MANIFEST.json from the table below (keeps it schema-valid at all times)."""
import json, os, sys
VERIF = os.path.dirname(os.path.dirname(os.path.abspath(__file__)))
sys.path.insert(0, VERIF)

import importlib, glob
CLAIMED = {}
for f in sorted(glob.glob(os.path.join(VERIF, "harness", "props", "c*.py"))):
    pid = os.path.basename(f)[:-3].upper()
    mod = importlib.import_module("harness.props." + pid.lower())
    ck = mod.CHECK
    if getattr(ck, "claimed", True):
        CLAIMED[pid] = (ck.level, ck.level_text or ck.title, "Trusted: " + "; ".join(ck.trusted_base) + ". Assumes: " + "; ".join(ck.assumptions),
                        ck.technique, f"DESIGN.md 5/{pid}")
PENDING_REASON = "check not built yet in this round (work in progress; see DESIGN.md section 7 build order)"

def main():
    props = [json.loads(l) for l in open(os.path.join(VERIF, "properties.jsonl"))]
    checks = []
    na = []
    for p in props:
        pid = p["id"]
        if pid in CLAIMED:
            cat, text, note, tech, ref = CLAIMED[pid]
            checks.append({
                "property_id": pid,
                "quick_cmd": f"./check {pid} --tier quick",
                "thorough_cmd": f"./check {pid} --tier thorough",
                "evidence_file": f"evidence/{pid}.json",
                "replay_cmd_template": f"./check {pid} --replay {{path}}",
                "engine": "lean-model+correspondence",
                "level_claimed": {"category": cat, "text": text, "design_ref": ref},
                "level_note": note,
                "technique": tech,
            })
        else:
            na.append({"property_id": pid, "reason": NA.get(pid, PENDING_REASON)})
    man = {
        "version": 1,
        "setup_cmd": "cd lean && lake build pdriver Pacti",
        "hooks": {
            "guard": "PACTI_VERIF_HOOKS",
            "enable": "no source hooks are needed: the harness wraps pacti functions in-process (monkeypatches), the guard is declared and unused",
            "baseline_off_cmd": "cd /repo && /venv/bin/python -m pytest -ra -q -p no:cacheprovider --timeout=900 --continue-on-collection-errors",
            "source_commits": [],
            "add_only": True,
        },
        "engines": [{"name": "lean-model+correspondence", "path": "check", "serves_properties": sorted(CLAIMED),
                     "kind_free_text": "Lean 4 model + theorems (lean/), regenerated Gen/*.lean, JSON-lines driver, Python correspondence harness and exact judge (harness/)"}],
        "checks": checks,
        "not_applicable": na,
        "notes": "Exit 0 held / 1 VIOLATION / 2 infrastructure. VERIF_SEED selects the random stream. See DESIGN.md.",
    }
    with open(os.path.join(VERIF, "MANIFEST.json"), "w") as f:
        json.dump(man, f, indent=1)

NA = {}
if __name__ == "__main__":
    main()
