#!/usr/bin/env python3
"""Write MANIFEST.json from the table below (keeps it schema-valid at all times)."""
import json, os, sys
VERIF = os.path.dirname(os.path.dirname(os.path.abspath(__file__)))
sys.path.insert(0, VERIF)

CLAIMED = {
    # pid: (level category, text, note, technique, design_ref)
    "C11": ("proof",
            "Lean theorems contains_iff / contains_false_iff / contains_err_iff / isEmpty_iff / contains_mono about the executable model of evaluate, contains_behavior and is_empty (all lists, all behaviours, any certified LP oracle), tied to polyhedra.py by an exact Boolean/error-kind correspondence run on boundary, inside and outside points and on feasible/infeasible/thin systems; failing-input search by exact rational evaluation and certified LP.",
            "Trusted: Lean kernel + {propext, Classical.choice, Quot.sound}; hand-written model Model/Poly.lean + correspondence harness; Gen/Lists.lean translator; HiGHS treated as an oracle whose agreement with the certified exact answer is measured, not proved.",
            "Lean 4 theorems on an executable model + differential correspondence with the implementation",
            "DESIGN.md 5/C11"),
}
PENDING_REASON = "check not built yet in this round (work in progress; see DESIGN.md section 7 build order)"

def main():
    props = [json.loads(l) for l in open(os.path.join(VERIF, "properties.jsonl"))]
    checks = []
    na = []
    for p in props:
        pid = p["id"]
        if pid in CLAIMED:
            cat, text, note, tech, ref = CLAIMED[pid]
            checks.append({
                "property_id": pid,
                "quick_cmd": f"./check {pid} --tier quick",
                "thorough_cmd": f"./check {pid} --tier thorough",
                "evidence_file": f"evidence/{pid}.json",
                "replay_cmd_template": f"./check {pid} --replay {{path}}",
                "engine": "lean-model+correspondence",
                "level_claimed": {"category": cat, "text": text, "design_ref": ref},
                "level_note": note,
                "technique": tech,
            })
        else:
            na.append({"property_id": pid, "reason": NA.get(pid, PENDING_REASON)})
    man = {
        "version": 1,
        "setup_cmd": "cd lean && lake build pdriver Pacti",
        "hooks": {
            "guard": "PACTI_VERIF_HOOKS",
            "enable": "no source hooks are needed: the harness wraps pacti functions in-process (monkeypatches), the guard is declared and unused",
            "baseline_off_cmd": "cd /repo && /venv/bin/python -m pytest -ra -q -p no:cacheprovider --timeout=900 --continue-on-collection-errors",
            "source_commits": [],
            "add_only": True,
        },
        "engines": [{"name": "lean-model+correspondence", "path": "check", "serves_properties": sorted(CLAIMED),
                     "kind_free_text": "Lean 4 model + theorems (lean/), regenerated Gen/*.lean, JSON-lines driver, Python correspondence harness and exact judge (harness/)"}],
        "checks": checks,
        "not_applicable": na,
        "notes": "Exit 0 held / 1 VIOLATION / 2 infrastructure. VERIF_SEED selects the random stream. See DESIGN.md.",
    }
    with open(os.path.join(VERIF, "MANIFEST.json"), "w") as f:
        json.dump(man, f, indent=1)

NA = {}
if __name__ == "__main__":
    main()
