#!/usr/bin/env python3
"""Validate and evaluate seeded changes.

usage: tools/seeded.py import <worktree> <Cxx> [b]  copy <worktree>/mutants/m*/ into seeded/<Cxx>-m*/ after confirming
                                                    (patch applies, suite still passes, demo fails with / passes without)
       tools/seeded.py run [<id> ...] [--tier quick|thorough] [--all-checks]
                                                    run the check(s) against each seeded change (through a scratch copy of
                                                    /repo/src with the patch applied, PACTI_SRC) and record what catches it
       tools/seeded.py table                        markdown table for DESIGN.md
Nothing is ever applied to /repo itself.
"""
from __future__ import annotations

import json
import os
import shutil
import subprocess
import sys
import tempfile

VERIF = os.path.dirname(os.path.dirname(os.path.abspath(__file__)))
SEEDED = os.path.join(VERIF, "seeded")
PY = "/venv/bin/python"


def sh(cmd, cwd=None, env=None, timeout=3600):
    p = subprocess.run(cmd, cwd=cwd, env=env, capture_output=True, text=True, timeout=timeout)
    return p.returncode, p.stdout + p.stderr


def scratch_with_patch(patch):
    d = tempfile.mkdtemp(prefix="seed_", dir="/tmp")
    rc, out = sh(["git", "-C", "/repo", "worktree", "add", "-q", "--detach", os.path.join(d, "wt"), "HEAD"])
    if rc != 0:
        raise SystemExit("worktree: " + out)
    wt = os.path.join(d, "wt")
    rc, out = sh(["git", "apply", patch], cwd=wt)
    return d, wt, rc, out


def drop(d):
    sh(["git", "-C", "/repo", "worktree", "remove", "--force", os.path.join(d, "wt")])
    shutil.rmtree(d, ignore_errors=True)


def cmd_import(worktree, pid, batch="m"):
    mdir = os.path.join(worktree, "mutants")
    for m in sorted(os.listdir(mdir)):
        src = os.path.join(mdir, m)
        if not os.path.isfile(os.path.join(src, "patch.diff")):
            continue
        sid = f"{pid}-{batch}{m.lstrip('m')}"
        dst = os.path.join(SEEDED, sid)
        patch = os.path.join(src, "patch.diff")
        d, wt, rc, out = scratch_with_patch(patch)
        try:
            rec = {"id": sid, "applies": rc == 0}
            if rc != 0:
                print(sid, "patch does not apply:", out[:300])
                continue
            env = dict(os.environ, PYTHONPATH=os.path.join(wt, "src"))
            rc, out = sh([PY, "-m", "pytest", "-q", "-p", "no:cacheprovider", "--no-cov", "-W", "ignore"], cwd=wt, env=env)
            tail = out.strip().splitlines()[-1] if out.strip() else ""
            rec["suite_with_change"] = tail
            rec["suite_ok"] = ("144 passed" in tail and "failed" not in tail)
            rc1, o1 = sh([PY, os.path.join(src, "demo.py"), os.path.join(wt, "src")], cwd=src)
            rc0, o0 = sh([PY, os.path.join(src, "demo.py"), "/repo/src"], cwd=src)
            rec["demo_exit_with_change"] = rc1
            rec["demo_exit_without"] = rc0
            rec["demo_output_with_change"] = o1[-600:]
            ok = rec["suite_ok"] and rc1 != 0 and rc0 == 0
            print(f"{sid}: suite='{tail}' demo with={rc1} without={rc0} -> {'KEEP' if ok else 'REJECT'}")
            if not ok:
                continue
            os.makedirs(dst, exist_ok=True)
            for f in ("patch.diff", "demo.py"):
                shutil.copy(os.path.join(src, f), os.path.join(dst, f))
            meta = json.load(open(os.path.join(src, "meta.json"))) if os.path.exists(os.path.join(src, "meta.json")) else {}
            meta.update({"property": pid, "confirmed": rec,
                         "what_was_run": ["git worktree of /repo HEAD + git apply patch.diff", "unedited test suite with PYTHONPATH=<worktree>/src",
                                          "demo.py <worktree>/src (must fail) and demo.py /repo/src (must pass)"]})
            json.dump(meta, open(os.path.join(dst, "meta.json"), "w"), indent=1)
        finally:
            drop(d)


def run_one(sid, tier, all_checks):
    dst = os.path.join(SEEDED, sid)
    meta = json.load(open(os.path.join(dst, "meta.json")))
    pid = meta["property"]
    d, wt, rc, out = scratch_with_patch(os.path.join(dst, "patch.diff"))
    try:
        if rc != 0:
            print(sid, "patch no longer applies", out[:200])
            meta.setdefault("runs", {})["apply"] = "FAILED: " + out[:200]
            json.dump(meta, open(os.path.join(dst, "meta.json"), "w"), indent=1)
            return
        env = dict(os.environ, PACTI_SRC=os.path.join(wt, "src"), VERIF_SEED=os.environ.get("VERIF_SEED", "0"))
        pids = [pid]
        extra = [x.split("=")[1].split(",") for x in sys.argv if x.startswith("--checks=")]
        if extra:
            pids = extra[0]
        if all_checks:
            man = json.load(open(os.path.join(VERIF, "MANIFEST.json")))
            pids = [pid] + [c["property_id"] for c in man["checks"] if c["property_id"] != pid]
        res = meta.setdefault("runs", {})
        for p in pids:
            rc, out = sh([os.path.join(VERIF, "check"), p, "--tier", tier], cwd=VERIF, env=env, timeout=7200)
            lines = [l for l in out.splitlines() if l.startswith("VIOLATION") or l.startswith("  ") or l.startswith("[") or l.startswith("INFRA")]
            vio = next((l for l in out.splitlines() if l.startswith("VIOLATION")), None)
            what = next((l.strip() for l in out.splitlines() if l.startswith("  ") and "correspondence" not in l), "")
            res[f"{p}:{tier}"] = {"exit": rc, "violation_line": vio, "first_detail": what[:300],
                                  "kind": ("failing-input" if vio and "no-failing-input-found" not in vio else ("no-failing-input-found" if vio else "none"))}
            print(f"{sid} vs {p} ({tier}): exit={rc} {res[f'{p}:{tier}']['kind']} {what[:140]}")
        json.dump(meta, open(os.path.join(dst, "meta.json"), "w"), indent=1)
    finally:
        drop(d)
        # evidence and Gen files were rewritten against the changed source: restore them from the clean tree
        sh(["git", "checkout", "--", "evidence", "lean/Pacti/Gen"], cwd=VERIF)


def cmd_table():
    rows = []
    for sid in sorted(os.listdir(SEEDED)):
        mp = os.path.join(SEEDED, sid, "meta.json")
        if not os.path.exists(mp):
            continue
        m = json.load(open(mp))
        runs = m.get("runs", {})
        caught = [k for k, v in runs.items() if isinstance(v, dict) and v.get("exit") == 1]
        kinds = {k: v["kind"] for k, v in runs.items() if isinstance(v, dict) and v.get("exit") == 1}
        rows.append(f"| {sid} | {m.get('summary', '')[:150]} | {m.get('needs', '')[:120]} | " +
                    (", ".join(f"{k} ({kinds[k]})" for k in caught) if caught else "**missed** (" + ", ".join(runs) + ")") + " |")
    print("| seeded change | what it does | needs | caught by |\n|---|---|---|---|")
    print("\n".join(rows))


def main():
    a = sys.argv[1:]
    if not a:
        raise SystemExit(__doc__)
    if a[0] == "import":
        cmd_import(a[1], a[2], a[3] if len(a) > 3 else "m")
    elif a[0] == "run":
        tier = "quick"
        allc = "--all-checks" in a
        if "--tier" in a:
            tier = a[a.index("--tier") + 1]
        ids = [x for x in a[1:] if not x.startswith("--") and x not in ("quick", "thorough")]
        if not ids:
            ids = sorted(os.listdir(SEEDED))
        for sid in ids:
            run_one(sid, tier, allc)
    elif a[0] == "table":
        cmd_table()


if __name__ == "__main__":
    main()
