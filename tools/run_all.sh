#!/bin/bash
# run every registered quick (or thorough) check; usage: tools/run_all.sh [tier] [seed]
cd "$(dirname "$0")/.."
tier=${1:-quick}; seed=${2:-0}
for p in $(python3 -c "import json; print(' '.join(c['property_id'] for c in json.load(open('MANIFEST.json'))['checks']))"); do
  out=$(VERIF_SEED=$seed ./check $p --tier $tier 2>&1); rc=$?
  echo "$out" | grep -E "VIOLATION|INFRA" | head -3
  echo "$out" | tail -1 | sed "s/^/rc=$rc /"
done
