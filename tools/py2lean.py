#!/usr/bin/env python3
"""py2lean — regenerate lean/Pacti/Gen/*.lean from the pacti source under verification.

Reads (with `ast`, nothing is imported or executed):
  * src/pacti/utils/lists.py            -> Gen/Lists.lean   (the four list set-operations)
  * src/pacti/iocontract/iocontract.py  -> Gen/Iface.lean   (interface/decision expressions of
        __init__, can_compose_with, can_quotient_by, shares_io_with, compose_tactics,
        quotient_tactics, merge, rename_variable)
  * a few numeric facts of polyhedra.py / data.py -> Gen/Consts.lean
  * the shape of IoContract.__eq__ / IoContractCompound.__eq__ (are the output lists compared?) -> Gen/Consts.lean

Supported expression subset: names, attribute reads `self.x`/`other.x`, calls of `list_*`/`lists_equal`,
`len(e)`, `e.copy()`, list comprehension with one `for` and one `in`/`not in` filter, `+` on lists,
`== != > <` with integer literals, `and/or/not`, `&` on booleans.  Anything else is a translator
error (exit 1): the tie to the source is then broken and the check falls back to the search.

A file is rewritten only if its content changed, so no-op builds stay no-ops.
"""
from __future__ import annotations

import ast
import os
import sys

VERIF = os.path.dirname(os.path.dirname(os.path.abspath(__file__)))
if os.path.dirname(os.path.abspath(__file__)) not in sys.path:
    sys.path.insert(0, os.path.dirname(os.path.abspath(__file__)))
REPO = os.environ.get("PACTI_REPO", "/repo")
SRC = os.environ.get("PACTI_SRC", os.path.join(REPO, "src"))
GEN = os.path.join(VERIF, "lean", "Pacti", "Gen")


class TranslateError(Exception):
    pass


def fail(node, msg):
    raise TranslateError(f"line {getattr(node, 'lineno', '?')}: {msg}: {ast.dump(node)[:200]}")


# ----------------------------------------------------------------------------------------------
# expressions


class Ex:
    """translate a Python expression over the interface language into Lean text.
    `env` maps Python names / attribute paths to Lean terms; `kinds` gives 'list' | 'bool' | 'nat'."""

    def __init__(self, env):
        self.env = env

    def name(self, node):
        if isinstance(node, ast.Name):
            key = node.id
        elif isinstance(node, ast.Attribute) and isinstance(node.value, ast.Name):
            key = f"{node.value.id}.{node.attr}"
        elif isinstance(node, ast.Attribute) and isinstance(node.value, ast.Attribute):
            inner = self.name(node.value)
            key = None
            # self.a.vars etc.
            if isinstance(node.value.value, ast.Name):
                key = f"{node.value.value.id}.{node.value.attr}.{node.attr}"
            if key not in self.env:
                fail(node, "unknown attribute path")
        else:
            fail(node, "unsupported name")
        if key not in self.env:
            fail(node, f"unknown name {key}")
        return self.env[key]

    def lst(self, node):
        """expression of list type"""
        if isinstance(node, (ast.Name, ast.Attribute)):
            return self.name(node)
        if isinstance(node, ast.Call):
            f = node.func
            if isinstance(f, ast.Name) and f.id in ("list_union", "list_intersection", "list_diff"):
                if len(node.args) != 2 or node.keywords:
                    fail(node, "arity")
                return f"(Gen.{f.id} {self.lst(node.args[0])} {self.lst(node.args[1])})"
            if isinstance(f, ast.Attribute) and f.attr == "copy" and not node.args:
                return self.lst(f.value)
            if isinstance(f, ast.Name) and f.id == "list" and len(node.args) == 1:
                return self.lst(node.args[0])
            fail(node, "unsupported call in list expression")
        if isinstance(node, ast.BinOp) and isinstance(node.op, ast.Add):
            return f"({self.lst(node.left)} ++ {self.lst(node.right)})"
        if isinstance(node, ast.ListComp):
            if len(node.generators) != 1:
                fail(node, "comprehension with several generators")
            g = node.generators[0]
            if not isinstance(g.target, ast.Name) or not isinstance(node.elt, ast.Name) or node.elt.id != g.target.id:
                fail(node, "comprehension must be [el for el in xs if …]")
            if g.is_async or len(g.ifs) != 1:
                fail(node, "comprehension needs exactly one filter")
            src = self.lst(g.iter)
            cond = g.ifs[0]
            if not (isinstance(cond, ast.Compare) and len(cond.ops) == 1 and isinstance(cond.left, ast.Name)
                    and cond.left.id == g.target.id):
                fail(node, "filter must be `el in ys` / `el not in ys`")
            other = self.lst(cond.comparators[0])
            if isinstance(cond.ops[0], ast.In):
                return f"({src}.filter (fun el => decide (el ∈ {other})))"
            if isinstance(cond.ops[0], ast.NotIn):
                return f"({src}.filter (fun el => !decide (el ∈ {other})))"
            fail(node, "filter operator")
        if isinstance(node, ast.List) and not node.elts:
            return "[]"
        fail(node, "unsupported list expression")

    def nat(self, node):
        if isinstance(node, ast.Constant) and isinstance(node.value, int) and not isinstance(node.value, bool):
            return str(node.value)
        if isinstance(node, ast.Call) and isinstance(node.func, ast.Name) and node.func.id == "len" and len(node.args) == 1:
            return f"({self.lst(node.args[0])}).length"
        fail(node, "unsupported nat expression")

    def boolean(self, node):
        if isinstance(node, ast.BoolOp):
            op = " && " if isinstance(node.op, ast.And) else " || "
            return "(" + op.join(self.boolean(v) for v in node.values) + ")"
        if isinstance(node, ast.BinOp) and isinstance(node.op, ast.BitAnd):
            return f"({self.boolean(node.left)} && {self.boolean(node.right)})"
        if isinstance(node, ast.UnaryOp) and isinstance(node.op, ast.Not):
            return f"(!{self.boolean(node.operand)})"
        if isinstance(node, ast.Compare) and len(node.ops) == 1:
            op = node.ops[0]
            l, r = node.left, node.comparators[0]
            # len(x) != len(set(x))  ->  ¬ Nodup
            if (isinstance(op, ast.NotEq) and _is_len(l) and _is_len(r) and isinstance(r.args[0], ast.Call)
                    and isinstance(r.args[0].func, ast.Name) and r.args[0].func.id == "set"):
                a = self.lst(l.args[0])
                b = self.lst(r.args[0].args[0])
                if a != b:
                    fail(node, "len(x) != len(set(y)) with x ≠ y")
                return f"(!decide (({a}).Nodup))"
            if isinstance(op, (ast.In, ast.NotIn)):
                el = self.name(l)
                s = f"decide ({el} ∈ {self.lst(r)})"
                return s if isinstance(op, ast.In) else f"(!{s})"
            if isinstance(op, (ast.Eq, ast.NotEq)) and isinstance(l, (ast.Name, ast.Attribute)) and isinstance(r, (ast.Name, ast.Attribute)) \
                    and self._kind(l) == "elem":
                s = f"decide ({self.name(l)} = {self.name(r)})"
                return s if isinstance(op, ast.Eq) else f"(!{s})"
            sym = {ast.Eq: "==", ast.NotEq: "!=", ast.Gt: ">", ast.Lt: "<", ast.GtE: ">=", ast.LtE: "<="}.get(type(op))
            if sym is None:
                fail(node, "comparison operator")
            return f"(decide ({self.nat(l)} {_prop_sym(sym)} {self.nat(r)}))"
        if isinstance(node, ast.Call) and isinstance(node.func, ast.Name) and node.func.id == "lists_equal":
            return f"(Gen.lists_equal {self.lst(node.args[0])} {self.lst(node.args[1])})"
        if isinstance(node, ast.Call) and isinstance(node.func, ast.Attribute) and node.func.attr in (
                "can_compose_with", "can_quotient_by", "shares_io_with") and isinstance(node.func.value, ast.Name):
            a = node.func.value.id
            b = node.args[0].id
            return f"(Gen.{node.func.attr} {self.env[a]} {self.env[b]})"
        # truthiness of a list:  `if xs:`  ->  xs ≠ []
        try:
            return f"(!({self.lst(node)}).isEmpty)"
        except TranslateError:
            fail(node, "unsupported boolean expression")

    def _kind(self, node):
        try:
            n = self.name(node)
        except TranslateError:
            return None
        return "elem" if n in self.env.get("__elems__", ()) else "other"


def _is_len(n):
    return isinstance(n, ast.Call) and isinstance(n.func, ast.Name) and n.func.id == "len" and len(n.args) == 1


def _prop_sym(s):
    return {"==": "=", "!=": "≠", ">": ">", "<": "<", ">=": "≥", "<=": "≤"}[s]


# ----------------------------------------------------------------------------------------------
# lists.py


def gen_lists(path):
    tree = ast.parse(open(path).read())
    out = ["/- GENERATED by tools/py2lean.py from src/pacti/utils/lists.py — do not edit. -/", "", "namespace Gen", "",
           "variable {α : Type} [DecidableEq α]", ""]
    want = ["list_intersection", "list_diff", "list_union", "lists_equal"]
    found = {}
    for node in tree.body:
        if isinstance(node, ast.FunctionDef) and node.name in want:
            args = [a.arg for a in node.args.args]
            body = [s for s in node.body if not (isinstance(s, ast.Expr) and isinstance(s.value, ast.Constant))]
            if len(body) != 1 or not isinstance(body[0], ast.Return):
                fail(node, "function body must be a single return")
            env = {a: a for a in args}
            ex = Ex(env)
            if node.name == "lists_equal":
                rhs = ex.boolean(body[0].value)
                ty = "Bool"
            else:
                rhs = ex.lst(body[0].value)
                ty = "List α"
            found[node.name] = f"def {node.name} ({' '.join(args)} : List α) : {ty} :=\n  {rhs}\n"
    for w in want:
        if w not in found:
            raise TranslateError(f"lists.py: function {w} not found")
    # lists_equal uses list_diff: order matters
    for w in ["list_intersection", "list_diff", "list_union", "lists_equal"]:
        out.append(found[w])
    out.append("end Gen")
    return "\n".join(out) + "\n"


# ----------------------------------------------------------------------------------------------
# numeric facts (Gen/Consts.lean)


def _find_func(tree, cls, name):
    for node in ast.walk(tree):
        if isinstance(node, ast.ClassDef) and node.name == cls:
            for f in node.body:
                if isinstance(f, ast.FunctionDef) and f.name == name:
                    return f
    for node in tree.body:
        if cls is None and isinstance(node, ast.FunctionDef) and node.name == name:
            return node
    raise TranslateError(f"{cls}.{name} not found")


def gen_consts(src, previous=""):
    """One section per constant (or group of constants).  A section whose source shape is not recognised keeps the definitions of
    the previously generated file (`previous`) and is reported in the returned status: the tie of that constant to the source is
    then the behavioural correspondence alone, not the regeneration."""
    poly = ast.parse(open(os.path.join(src, "pacti/terms/polyhedra/polyhedra.py")).read())
    data = ast.parse(open(os.path.join(src, "pacti/terms/polyhedra/syntax/data.py")).read())
    gram = ast.parse(open(os.path.join(src, "pacti/terms/polyhedra/syntax/grammar.py")).read())
    status = {}
    out = ["/- GENERATED by tools/py2lean.py — numeric facts read off the source. Do not edit. -/", "", "namespace Gen", ""]
    prev_blocks = _const_blocks(previous)

    def _sec_isolateSign():
        out = []
        # 1. isolate_variable: sign of the constant  `constant=±self.constant / self.get_coefficient(var_to_isolate)`
        f = _find_func(poly, "PolyhedralTerm", "isolate_variable")
        ret = [s for s in f.body if isinstance(s, ast.Return)][-1]
        kw = {k.arg: k.value for k in ret.value.keywords}
        c = kw.get("constant")
        if not (isinstance(c, ast.BinOp) and isinstance(c.op, ast.Div)):
            fail(ret, "isolate_variable: constant is not a quotient")
        num = c.left
        if isinstance(num, ast.UnaryOp) and isinstance(num.op, ast.USub) and ast.unparse(num.operand) == "self.constant":
            sgn = "-1"
        elif ast.unparse(num) == "self.constant":
            sgn = "1"
        else:
            fail(ret, "isolate_variable: unrecognised numerator")
        if ast.unparse(c.right) != "self.get_coefficient(var_to_isolate)":
            fail(ret, "isolate_variable: unrecognised denominator")
        vs = kw.get("variables")
        if ast.unparse(vs).replace(" ", "") != "{k:-v/self.get_coefficient(var_to_isolate)fork,vinself.variables.items()ifk!=var_to_isolate}":
            fail(ret, "isolate_variable: unrecognised variables expression")
        out.append(f"/-- sign given to the constant by `PolyhedralTerm.isolate_variable` (−1 is the correct one) -/\ndef isolateSign : Rat := {sgn}\n")
        return out

    _run_section("isolateSign", _sec_isolateSign, out, status, prev_blocks)

    def _sec_tactic3Fresh():
        out = []
        # 1b. _tactic_3: the auxiliary variable — the fixed name "_" or a name extended until nothing in use has it
        f = _find_func(poly, "PolyhedralTermList", "_tactic_3")
        txt = ast.unparse(f)
        lit = txt.count("Var('_')")
        whiles = [n for n in ast.walk(f) if isinstance(n, ast.While)]
        if lit == 3 and not whiles:
            fresh = "false"
        elif lit == 0 and len(whiles) == 1:
            w = whiles[0]
            ok = (isinstance(w.test, ast.Compare) and len(w.test.ops) == 1 and isinstance(w.test.ops[0], ast.In)
                  and isinstance(w.test.left, ast.Name) and isinstance(w.test.comparators[0], ast.Name))
            if not ok:
                fail(w, "_tactic_3: unrecognised loop")
            name_var, used_var = w.test.left.id, w.test.comparators[0].id
            b = w.body
            ok = (len(b) == 1 and isinstance(b[0], ast.AugAssign) and isinstance(b[0].op, ast.Add) and ast.unparse(b[0].target) == name_var
                  and isinstance(b[0].value, ast.Constant) and isinstance(b[0].value.value, str) and b[0].value.value != "" and not w.orelse)
            assigns = {ast.unparse(st.targets[0]): st.value for st in f.body if isinstance(st, ast.Assign) and len(st.targets) == 1}
            used = assigns.get(used_var)
            ok = ok and used is not None and ast.unparse(used).replace(" ", "") == "{var.nameforvarinlist_union(list_union(term.vars,context.vars),vars_to_elim)}"
            aux = [k for k, v in assigns.items() if ast.unparse(v) == f"Var({name_var})"]
            ok = ok and len(aux) == 1
            if ok:
                a = aux[0]
                ok = (f"new_term.variables[{a}] = 1" in txt and f"subst_term_vars = {{{a}: 1.0 / conflict_coeff[conflict_vars[0]]}}" in txt
                      and f"list_diff(list_union(vars_to_elim, [{a}]), [conflict_vars[0]])" in txt)
            if not ok:
                fail(f, "_tactic_3: unrecognised selection of the auxiliary variable")
            fresh = "true"
        else:
            fail(f, "_tactic_3: unrecognised use of the auxiliary variable")
        out.append("/-- does `_tactic_3` pick an auxiliary variable whose name is used nowhere in the term, the context and the variables to "
                   f"eliminate?  (`false` = the pinned fixed name `\"_\"`) -/\ndef tactic3Fresh : Bool := {fresh}\n")
        return out

    _run_section("tactic3Fresh", _sec_tactic3Fresh, out, status, prev_blocks)

    def _sec_containTol():
        out = []
        # 2. verify_polytope_containment: the final comparison  `-res["fun"] <= b_temp [+ tol*(1+abs(b_temp))]`
        f = _find_func(poly, "PolyhedralTermList", "verify_polytope_containment")
        cmp_nodes = [n for n in ast.walk(f) if isinstance(n, ast.Compare) and ast.unparse(n.left).replace("'", '"') == '-res["fun"]']
        if len(cmp_nodes) != 1 or not isinstance(cmp_nodes[0].ops[0], ast.LtE):
            raise TranslateError("verify_polytope_containment: comparison `-res[\"fun\"] <= …` not found exactly once")
        rhs = ast.unparse(cmp_nodes[0].comparators[0]).replace(" ", "")
        tol = _parse_tol(rhs, "b_temp")
        out.append(f"/-- relative tolerance of the final comparison in `verify_polytope_containment`: accepted iff `m ≤ b + tol·(1+|b|)` -/\ndef containTol : Rat := {tol}\n")
        return out

    _run_section("containTol", _sec_containTol, out, status, prev_blocks)

    def _sec_reduceTol():
        out = []
        # 3. reduce_polytope comparison
        f = _find_func(poly, "PolyhedralTermList", "reduce_polytope")
        cmp_nodes = [n for n in ast.walk(f) if isinstance(n, ast.Compare) and ast.unparse(n.left).replace("'", '"') == '-res["fun"]']
        if len(cmp_nodes) != 1 or not isinstance(cmp_nodes[0].ops[0], ast.LtE):
            raise TranslateError("reduce_polytope: comparison not found exactly once")
        rhs = ast.unparse(cmp_nodes[0].comparators[0]).replace(" ", "")
        tol = _parse_tol(rhs, "b_temp[i]")
        out.append(f"/-- same for `reduce_polytope` -/\ndef reduceTol : Rat := {tol}\n")
        return out

    _run_section("reduceTol", _sec_reduceTol, out, status, prev_blocks)

    def _sec_emptyNoCols():
        out = []
        # 3b. is_polytope_empty: what is answered for a matrix without columns (`if n * m == 0: return …`)
        f = _find_func(poly, "PolyhedralTermList", "is_polytope_empty")
        ifs = [n for n in ast.walk(f) if isinstance(n, ast.If) and ast.unparse(n.test).replace(" ", "") == "n*m==0"]
        if len(ifs) != 1 or ifs[0].orelse or len(ifs[0].body) != 1 or not isinstance(ifs[0].body[0], ast.Return):
            raise TranslateError("is_polytope_empty: `if n * m == 0: return …` not found exactly once")
        ret = ast.unparse(ifs[0].body[0].value).replace(" ", "")
        if ret == "False":
            val = "false"
        elif ret in ("bool(np.any(np.asarray(b)<0))", "bool(np.any(b<0))", "bool((b<0).any())"):
            val = "true"
        else:
            raise TranslateError(f"is_polytope_empty: unrecognised answer for a matrix without columns: {ret}")
        out.append("/-- `is_polytope_empty` on a matrix without columns (every row reads `0 ≤ bᵢ`): `true` = empty iff some `bᵢ < 0` (the repaired "
                   f"code), `false` = the pinned unconditional \"not empty\" -/\ndef emptyNoColsBySign : Bool := {val}\n")
        return out

    _run_section("emptyNoCols", _sec_emptyNoCols, out, status, prev_blocks)

    def _sec_combineNoneNone():
        out = []
        # 4. _combine_optional_floats(None, None)
        f = _find_func(data, None, "_combine_optional_floats")
        src_txt = ast.unparse(f).replace(" ", "").replace("\n", ";")
        base = "if f1 is None:\n    if f2 is None:\n        return {}\n    return f2 + 1\nif f2 is None:\n    return f1 + 1\nreturn f1 + f2"
        body_txt = "\n".join(ast.unparse(s) for s in f.body if not (isinstance(s, ast.Expr) and isinstance(s.value, ast.Constant)))
        val = None
        for cand, lean in (("None", "none"), ("2.0", "some 2"), ("2", "some 2")):
            if body_txt == base.format(cand):
                val = lean
        if val is None:
            raise TranslateError("_combine_optional_floats: unrecognised body")
        out.append(f"/-- `_combine_optional_floats(None, None)` (`none` = coefficient 1; the correct value is `some 2`) -/\ndef combineNoneNone : Option Rat := {val}\n")
        return out

    _run_section("combineNoneNone", _sec_combineNoneNone, out, status, prev_blocks)

    def _sec_eq():
        out = []
        # 5. which fields the contract equalities compare (C19)
        out.extend(gen_eq_consts(src))
        return out

    _run_section("eq", _sec_eq, out, status, prev_blocks)

    def _sec_arithFold():
        out = []
        # 6. arithmetic_expr: do the parse actions of infixNotation evaluate the whole left-associative chain? (C09)
        gram = ast.parse(open(os.path.join(src, "pacti/terms/polyhedra/syntax/grammar.py")).read())
        out.append(f"/-- do the parse actions of `arithmetic_expr` fold a whole chain `a op b op c …` (`false`: only `a op b` is computed, the rest of the chain is ignored; the correct value is `true`) -/\ndef arithFold : Bool := {_arith_fold(gram)}\n")
        return out

    _run_section("arithFold", _sec_arithFold, out, status, prev_blocks)

    def _sec_dict():
        out = []
        # 7. C14, dictionary / file-entry part: which validation tests are present (tools/py2lean_dict.py)
        from py2lean_dict import gen_dict_consts

        out.append(gen_dict_consts(src, TranslateError))
        return out

    _run_section("dict", _sec_dict, out, status, prev_blocks)

    out.append("end Gen")
    return "\n".join(out) + "\n", status


SECTION_DEFS = {"emptyNoCols": ["emptyNoColsBySign"], "isolateSign": ["isolateSign"], "tactic3Fresh": ["tactic3Fresh"], "containTol": ["containTol"], "reduceTol": ["reduceTol"],
                "combineNoneNone": ["combineNoneNone"], "eq": ["eqComparesOutputs", "eqCompoundComparesOutputs", "strConstPlusZero"],
                "arithFold": ["arithFold"],
                "dict": ["checkClauseDictTest", "checkClauseRaises", "checkClauseNumTest", "fileChecked", "compoundChecked", "fromDictValidates", "catchZeroDiv"]}


def _const_blocks(text):
    """definition name -> its block (doc comment + def) in a previously generated Consts.lean"""
    blocks = {}
    cur = []
    for line in text.splitlines():
        if line.startswith("/--") and cur and not any(l.startswith("def ") for l in cur):
            cur = []
        if line.startswith("/--"):
            cur = [line]
            continue
        if cur:
            cur.append(line)
            if line.startswith("def "):
                name = line.split()[1]
                blocks[name] = "\n".join(cur) + "\n"
                cur = []
    return blocks


def _run_section(name, fn, out, status, prev_blocks):
    try:
        got = fn()
        out.extend(got)
        for d in SECTION_DEFS[name]:
            status["Consts." + d] = "regenerated"
    except TranslateError as e:
        missing = [d for d in SECTION_DEFS[name] if d not in prev_blocks]
        if missing:
            raise TranslateError(f"{e} (and no previously generated definition of {missing} to fall back on)")
        for d in SECTION_DEFS[name]:
            out.append(prev_blocks[d])
            status["Consts." + d] = "kept: " + str(e)[:300]


def _eq_compares_outputs(path, cls):
    """Read `cls.__eq__` of the file: it must be
           if not isinstance(other, type(self)): raise ValueError
           return (self.inputvars == other.inputvars and <OUT> and self.a == other.a and self.g == other.g)
       with <OUT> = `self.outputvars == other.outputvars` (-> true) or the pinned `self.outputvars == self.outputvars`
       (-> false: the output lists are not compared).  Any other shape is a translator error."""
    tree = ast.parse(open(path).read())
    f = _find_func(tree, cls, "__eq__")
    body = [s for s in f.body if not (isinstance(s, ast.Expr) and isinstance(s.value, ast.Constant))]
    if len(body) != 2 or not isinstance(body[0], ast.If) or not isinstance(body[1], ast.Return):
        fail(f, f"{cls}.__eq__: body is not `if …: raise` + `return`")
    guard = body[0]
    if ast.unparse(guard.test) != "not isinstance(other, type(self))" or guard.orelse or len(guard.body) != 1 \
            or not isinstance(guard.body[0], ast.Raise) or ast.unparse(guard.body[0]) not in ("raise ValueError", "raise ValueError()"):
        fail(guard, f"{cls}.__eq__: unrecognised type guard")
    e = body[1].value
    if not (isinstance(e, ast.BoolOp) and isinstance(e.op, ast.And) and len(e.values) == 4):
        fail(body[1], f"{cls}.__eq__: the result is not a conjunction of four comparisons")
    txt = [ast.unparse(v) for v in e.values]
    if txt[0] != "self.inputvars == other.inputvars" or txt[2] != "self.a == other.a" or txt[3] != "self.g == other.g":
        fail(body[1], f"{cls}.__eq__: unrecognised conjuncts {txt}")
    if txt[1] == "self.outputvars == other.outputvars":
        return "true"
    if txt[1] == "self.outputvars == self.outputvars":
        return "false"
    fail(e.values[1], f"{cls}.__eq__: unrecognised comparison of the output lists")


def _str_const_plus_zero(src):
    """`PolyhedralTerm.__str__` / `__hash__` must have the modelled shape; the only recognised variation is whether the
    constant is printed as `str(self.constant)` (-> false: -0.0 and 0.0 print differently) or `str(self.constant + 0.0)`
    (-> true: both zeros print as 0.0)."""
    tree = ast.parse(open(os.path.join(src, "pacti/terms/polyhedra/polyhedra.py")).read())
    f = _find_func(tree, "PolyhedralTerm", "__str__")
    body = [ast.unparse(s) for s in f.body if not (isinstance(s, ast.Expr) and isinstance(s.value, ast.Constant))]
    head = ["varlist = list(self.variables.items())", "varlist.sort(key=lambda x: str(x[0]))",
            "res = ' + '.join([str(coeff) + '*' + var.name for var, coeff in varlist])"]
    if len(body) != 5 or body[:3] != head or body[4] != "return res":
        fail(f, "PolyhedralTerm.__str__: unrecognised body")
    if body[3] == "res += ' <= ' + str(self.constant)":
        val = "false"
    elif body[3] == "res += ' <= ' + str(self.constant + 0.0)":
        val = "true"
    else:
        fail(f, "PolyhedralTerm.__str__: unrecognised printing of the constant")
    h = _find_func(tree, "PolyhedralTerm", "__hash__")
    if [ast.unparse(s) for s in h.body] != ["return hash(str(self))"]:
        fail(h, "PolyhedralTerm.__hash__: unrecognised body")
    h = _find_func(tree, "PolyhedralTermList", "__hash__")
    if [ast.unparse(s) for s in h.body] != ["return hash(tuple(self.terms))"]:
        fail(h, "PolyhedralTermList.__hash__: unrecognised body")
    return val


def gen_eq_consts(src):
    out = []
    v = _eq_compares_outputs(os.path.join(src, "pacti/iocontract/iocontract.py"), "IoContract")
    out.append("/-- does `IoContract.__eq__` compare the two output lists?  (`false` = the pinned `self.outputvars == self.outputvars`) -/\n"
               f"def eqComparesOutputs : Bool := {v}\n")
    v = _eq_compares_outputs(os.path.join(src, "pacti/iocontract/compundiocontract.py"), "IoContractCompound")
    out.append("/-- the same for `IoContractCompound.__eq__` -/\n"
               f"def eqCompoundComparesOutputs : Bool := {v}\n")
    v = _str_const_plus_zero(src)
    out.append("/-- does `PolyhedralTerm.__str__` (hence `__hash__`) print the constant as `str(self.constant + 0.0)`, so that -0.0 and 0.0\n"
               "    print alike?  (`false` = the pinned `str(self.constant)`) -/\n"
               f"def strConstPlusZero : Bool := {v}\n")
    return out


def _parse_tol(rhs, b):
    if rhs == b:
        return "0"
    import re

    m = re.fullmatch(re.escape(b) + r"\+([0-9.e\-]+)\*\(1\+(?:np\.)?abs\(" + re.escape(b) + r"\)\)", rhs)
    if not m:
        raise TranslateError(f"unrecognised comparison right-hand side {rhs}")
    from fractions import Fraction

    fr = Fraction(m.group(1))
    return f"({fr.numerator} : Rat) / {fr.denominator}"


# ----------------------------------------------------------------------------------------------


_ARITH_PINNED = {
    "t[0][0]*t[0][2]ift[0][1]=='*'elset[0][0]/t[0][2]",
    "t[0][0]+t[0][2]ift[0][1]=='+'elset[0][0]-t[0][2]",
}
_ARITH_FOLD_BODY = (
    "group = tokens[0]\nvalue = group[0]\nfor op, operand in zip(group[1::2], group[2::2]):\n    if op == '*':\n        value = value * operand\n"
    "    elif op == '/':\n        value = value / operand\n    elif op == '+':\n        value = value + operand\n    else:\n        value = value - operand\nreturn value"
)


def _arith_fold(gram):
    """`arithmetic_expr = pp.infixNotation(floating_point_number, [(mult | div, 2, LEFT, action), (plus | minus, 2, LEFT, action)])`"""
    calls = [n.value for n in gram.body if isinstance(n, ast.Assign) and len(n.targets) == 1
             and ast.unparse(n.targets[0]) == "arithmetic_expr" and isinstance(n.value, ast.Call)]
    if len(calls) != 1 or ast.unparse(calls[0].func) not in ("pp.infixNotation", "pp.infix_notation") or len(calls[0].args) != 2:
        raise TranslateError("grammar.py: arithmetic_expr is not a single pp.infixNotation(operand, levels) call")
    levels = calls[0].args[1]
    if not isinstance(levels, ast.List) or len(levels.elts) != 2:
        raise TranslateError("grammar.py: arithmetic_expr: two precedence levels expected")
    if [ast.unparse(l.elts[0]).replace(" ", "") for l in levels.elts if isinstance(l, ast.Tuple) and len(l.elts) == 4] != ["mult|div", "plus|minus"]:
        raise TranslateError("grammar.py: arithmetic_expr: levels are not (mult | div), (plus | minus)")
    kinds = []
    for l in levels.elts:
        if ast.unparse(l.elts[1]) != "2" or not ast.unparse(l.elts[2]).endswith("LEFT"):
            raise TranslateError("grammar.py: arithmetic_expr: binary left-associative levels expected")
        act = l.elts[3]
        if isinstance(act, ast.Lambda):
            if ast.unparse(act.body).replace(" ", "").replace('"', "'") in _ARITH_PINNED:
                kinds.append("false")
            else:
                raise TranslateError("grammar.py: arithmetic_expr: unrecognised lambda parse action")
        elif isinstance(act, ast.Name):
            f = _find_func(gram, None, act.id)
            body = "\n".join(ast.unparse(s) for s in f.body if not (isinstance(s, ast.Expr) and isinstance(s.value, ast.Constant)))
            if len(f.args.args) == 1 and f.args.args[0].arg == "tokens" and body == _ARITH_FOLD_BODY:
                kinds.append("true")
            else:
                raise TranslateError(f"grammar.py: arithmetic_expr: unrecognised parse action {act.id}")
        else:
            raise TranslateError("grammar.py: arithmetic_expr: unrecognised parse action")
    if len(set(kinds)) != 1:
        raise TranslateError("grammar.py: arithmetic_expr: the two levels use different kinds of parse action")
    return kinds[0]


def _parse_tol(rhs, b):
    if rhs == b:
        return "0"
    import re

    m = re.fullmatch(re.escape(b) + r"\+([0-9.e\-]+)\*\(1\+(?:np\.)?abs\(" + re.escape(b) + r"\)\)", rhs)
    if not m:
        raise TranslateError(f"unrecognised comparison right-hand side {rhs}")
    from fractions import Fraction

    fr = Fraction(m.group(1))
    return f"({fr.numerator} : Rat) / {fr.denominator}"


# ----------------------------------------------------------------------------------------------


def write_if_changed(path, text):
    os.makedirs(os.path.dirname(path), exist_ok=True)
    if os.path.exists(path) and open(path).read() == text:
        return False
    with open(path, "w") as f:
        f.write(text)
    return True


def _read(path):
    try:
        return open(path).read()
    except OSError:
        return ""


def main():
    status = {}
    outs = {}
    try:
        try:
            outs["Lists.lean"] = gen_lists(os.path.join(SRC, "pacti/utils/lists.py"))
            status["Lists"] = "regenerated"
        except TranslateError as e:
            if not _read(os.path.join(GEN, "Lists.lean")):
                raise
            status["Lists"] = "kept: " + str(e)[:300]
        text, st = gen_consts(SRC, _read(os.path.join(GEN, "Consts.lean")))
        outs["Consts.lean"] = text
        status.update(st)
        try:
            from py2lean_iface import gen_iface  # type: ignore

            try:
                outs["Iface.lean"] = gen_iface(os.path.join(SRC, "pacti/iocontract/iocontract.py"), Ex, fail, TranslateError)
                status["Iface"] = "regenerated"
            except TranslateError as e:
                if not _read(os.path.join(GEN, "Iface.lean")):
                    raise
                status["Iface"] = "kept: " + str(e)[:300]
        except ImportError:
            pass
    except TranslateError as e:
        print("py2lean: " + str(e))
        return 1
    except (OSError, SyntaxError) as e:
        print("py2lean: cannot read source: " + repr(e))
        return 1
    for name, text in outs.items():
        if write_if_changed(os.path.join(GEN, name), text):
            print("py2lean: wrote Gen/" + name)
    import json

    with open(os.path.join(GEN, "STATUS.json"), "w") as f:
        json.dump(status, f, indent=1, sort_keys=True)
    for k, v in sorted(status.items()):
        if v != "regenerated":
            print(f"py2lean: {k}: shape not recognised, previously generated definition kept ({v[6:]})")
    return 0


if __name__ == "__main__":
    sys.path.insert(0, os.path.dirname(os.path.abspath(__file__)))
    sys.exit(main())
