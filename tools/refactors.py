#!/usr/bin/env python3
"""Behaviour-preserving refactorings: the checks must stay silent on them (unless the translator no longer recognises a
shape it reads a constant off, which is a broken tie = `no-failing-input-found` by the rules of the task).

usage: tools/refactors.py import <worktree> <prefix>   copy <worktree>/refactors/r*/ into refactors/<prefix>-r*/ after
                                                       confirming that the patch applies and the suite still passes
       tools/refactors.py run [<id> ...]               every quick check against each refactoring (scratch worktree + PACTI_SRC)
       tools/refactors.py table
Nothing is ever applied to /repo itself.
"""
from __future__ import annotations

import json
import os
import shutil
import sys

sys.path.insert(0, os.path.dirname(os.path.abspath(__file__)))
from seeded import PY, VERIF, drop, scratch_with_patch, sh  # noqa: E402

REF = os.path.join(VERIF, "refactors")


def cmd_import(worktree, prefix):
    rdir = os.path.join(worktree, "refactors")
    for r in sorted(os.listdir(rdir)):
        src = os.path.join(rdir, r)
        patch = os.path.join(src, "patch.diff")
        if not os.path.isfile(patch):
            continue
        rid = f"{prefix}-{r}"
        d, wt, rc, out = scratch_with_patch(patch)
        try:
            if rc != 0:
                print(rid, "patch does not apply:", out[:200])
                continue
            env = dict(os.environ, PYTHONPATH=os.path.join(wt, "src"))
            rc, out = sh([PY, "-m", "pytest", "-q", "-p", "no:cacheprovider", "--no-cov", "-W", "ignore"], cwd=wt, env=env)
            tail = out.strip().splitlines()[-1] if out.strip() else ""
            ok = "144 passed" in tail and "failed" not in tail
            print(f"{rid}: suite='{tail}' -> {'KEEP' if ok else 'REJECT'}")
            if not ok:
                continue
            dst = os.path.join(REF, rid)
            os.makedirs(dst, exist_ok=True)
            shutil.copy(patch, os.path.join(dst, "patch.diff"))
            meta = json.load(open(os.path.join(src, "meta.json"))) if os.path.exists(os.path.join(src, "meta.json")) else {}
            meta["suite_with_change"] = tail
            json.dump(meta, open(os.path.join(dst, "meta.json"), "w"), indent=1)
        finally:
            drop(d)


def run_one(rid):
    dst = os.path.join(REF, rid)
    meta = json.load(open(os.path.join(dst, "meta.json")))
    d, wt, rc, out = scratch_with_patch(os.path.join(dst, "patch.diff"))
    try:
        if rc != 0:
            meta["runs"] = {"apply": "FAILED " + out[:200]}
            print(rid, "patch no longer applies")
            return
        env = dict(os.environ, PACTI_SRC=os.path.join(wt, "src"), VERIF_SEED=os.environ.get("VERIF_SEED", "0"))
        man = json.load(open(os.path.join(VERIF, "MANIFEST.json")))
        runs = {}
        for c in man["checks"]:
            p = c["property_id"]
            rc, out = sh([os.path.join(VERIF, "check"), p, "--tier", "quick"], cwd=VERIF, env=env, timeout=7200)
            vio = next((l for l in out.splitlines() if l.startswith("VIOLATION")), None)
            det = next((l.strip() for l in out.splitlines() if l.startswith("  ")), "")
            runs[p] = {"exit": rc, "violation_line": vio, "detail": det[:300]}
            if rc != 0:
                print(f"{rid} vs {p}: exit={rc} {vio} {det[:160]}")
        meta["runs"] = runs
        bad = [p for p, r in runs.items() if r["exit"] != 0]
        print(f"{rid}: {'silent on all ' + str(len(runs)) + ' checks' if not bad else 'ALARMS: ' + ', '.join(bad)}")
    finally:
        json.dump(meta, open(os.path.join(dst, "meta.json"), "w"), indent=1)
        drop(d)
        sh(["git", "checkout", "--", "evidence", "lean/Pacti/Gen"], cwd=VERIF)


def cmd_table():
    print("| refactoring | what it changes | outcome of the 19 quick checks |\n|---|---|---|")
    for rid in sorted(os.listdir(REF)):
        mp = os.path.join(REF, rid, "meta.json")
        if not os.path.exists(mp):
            continue
        m = json.load(open(mp))
        runs = m.get("runs", {})
        bad = {p: r for p, r in runs.items() if isinstance(r, dict) and r.get("exit") != 0}
        res = "silent (all exit 0)" if runs and not bad else "; ".join(f"{p}: exit {r['exit']} {('no-failing-input-found' if r.get('violation_line') and 'no-failing-input-found' in r['violation_line'] else '')} {r.get('detail', '')[:90]}" for p, r in bad.items())
        print(f"| {rid} | {m.get('summary', '')[:160]} | {res} |")


def main():
    a = sys.argv[1:]
    if not a:
        raise SystemExit(__doc__)
    if a[0] == "import":
        cmd_import(a[1], a[2])
    elif a[0] == "run":
        ids = a[1:] or sorted(os.listdir(REF))
        for rid in ids:
            run_one(rid)
    elif a[0] == "table":
        cmd_table()


if __name__ == "__main__":
    main()
