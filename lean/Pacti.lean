import Pacti.Model.Sem
import Pacti.Model.LP
import Pacti.Model.Simplex
import Pacti.Proofs.Sem
import Pacti.Proofs.LP
