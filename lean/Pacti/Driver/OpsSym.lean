import Pacti.Driver.Wire
import Pacti.Model.Sym
open Lean Wire

namespace OpsSym

def getAtom (j : Json) : Except String Atom := do
  let n ← (← j.getObjVal? "n").getStr?
  let vs ← getVars (← j.getObjVal? "v")
  pure ⟨n, vs⟩

def getAtoms (j : Json) : Except String (List Atom) := do
  (← j.getArr?).toList.mapM getAtom

def jAtoms (l : List Atom) : Json := Json.arr (l.map fun a => Json.mkObj [("n", a.name), ("v", jVars a.vars)]).toArray

def getSymContract (j : Json) : Except String (Contract Atom) := do
  pure ⟨← getAtoms (← j.getObjVal? "a"), ← getAtoms (← j.getObjVal? "g"), ← getVars (← j.getObjVal? "ins"), ← getVars (← j.getObjVal? "outs")⟩

def jSymContract (c : Contract Atom) : Json :=
  Json.mkObj [("a", jAtoms c.a), ("g", jAtoms c.g), ("ins", jVars c.ins), ("outs", jVars c.outs)]

def siteOf : String → Option Site
  | "refA" => some .refA | "simpA" => some .simpA | "relG1" => some .relG1 | "relG2" => some .relG2 | "relAll" => some .relAll
  | "ctor" => some .ctor | "qRef" => some .qRef | "qRelA" => some .qRelA | "qRefG1" => some .qRefG1 | "qRefG2" => some .qRefG2
  | "user" => some .user | _ => none

def getAct (j : Json) : Except String Sym.Act := do
  match j with
  | .str "id" => pure .id | .str "filter" => pure .filter | .str "drop1" => pure .drop1 | .str "err" => pure .err
  | .str "yes" => pure .yes | .str "no" => pure .no
  | _ => do
    let vs ← getVars (← j.getObjVal? "fresh")
    pure (.fresh vs)

def getScript (j : Json) : Except String (Site → Sym.Act) := do
  let obj ← j.getObj?
  let mut tbl : List (Site × Sym.Act) := []
  for (k, v) in obj.toList do
    match siteOf k with
    | some s => tbl := (s, ← getAct v) :: tbl
    | none => throw s!"unknown site {k}"
  pure fun s => match tbl.find? (fun p => p.1 == s) with
    | some p => p.2
    | none => .id

def jRes (r : Except Err (Contract Atom)) : Json :=
  match r with
  | .ok c => Json.mkObj [("ok", jSymContract c)]
  | .error e => Json.mkObj [("err", jErr e)]

def handleSym (op : String) (j : Json) : Option (Except String Json) :=
  let run (f : Except String Json) : Option (Except String Json) := some f
  match op with
  | "sym_compose" => run do
    let c1 ← getSymContract (← j.getObjVal? "c1")
    let c2 ← getSymContract (← j.getObjVal? "c2")
    let keep ← getVars (← j.getObjVal? "keep")
    let simp ← getBool (← j.getObjVal? "simplify")
    let ord ← getNats (← j.getObjVal? "order")
    let script ← getScript (← j.getObjVal? "script")
    pure (jRes (Alg.compose (·.vars) (Sym.prims script) c1 c2 keep simp ord))
  | "sym_quotient" => run do
    let c ← getSymContract (← j.getObjVal? "c1")
    let c1 ← getSymContract (← j.getObjVal? "c2")
    let addl ← getVars (← j.getObjVal? "addl")
    let simp ← getBool (← j.getObjVal? "simplify")
    let ord ← getNats (← j.getObjVal? "order")
    let script ← getScript (← j.getObjVal? "script")
    pure (jRes (Alg.quotient (·.vars) (Sym.prims script) c c1 addl simp ord))
  | "sym_merge" => run do
    let c1 ← getSymContract (← j.getObjVal? "c1")
    let c2 ← getSymContract (← j.getObjVal? "c2")
    let script ← getScript (← j.getObjVal? "script")
    pure (jRes (Alg.merge (·.vars) (Sym.prims script) c1 c2))
  | "sym_ctor" => run do
    let c ← getSymContract (← j.getObjVal? "c1")
    let simp ← getBool (← j.getObjVal? "simplify")
    let script ← getScript (← j.getObjVal? "script")
    pure (jRes (Alg.mkContract (·.vars) (Sym.prims script) c.a c.g c.ins c.outs simp))
  | "sym_rename" => run do
    let c ← getSymContract (← j.getObjVal? "c1")
    let s ← (← j.getObjVal? "src").getNat?
    let t ← (← j.getObjVal? "dst").getNat?
    let script ← getScript (← j.getObjVal? "script")
    let ren (a : Atom) (s t : Var) : Atom :=
      ⟨a.name ++ "[" ++ toString s ++ ">" ++ toString t ++ "]", a.vars.map fun v => if v = s then t else v⟩
    pure (jRes (Alg.rename (·.vars) (Sym.prims script) ren c s t))
  | "sym_refines" => run do
    let c ← getSymContract (← j.getObjVal? "c1")
    let d ← getSymContract (← j.getObjVal? "c2")
    let script ← getScript (← j.getObjVal? "script")
    pure (match Alg.refinesC (Sym.prims script) c d with
      | .ok b => Json.mkObj [("ok", Json.bool b)]
      | .error e => Json.mkObj [("err", jErr e)])
  | _ => none

end OpsSym
