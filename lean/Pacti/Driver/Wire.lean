import Lean.Data.Json
import Pacti.Model.Sem
/-
  Wire format of the line protocol (driver side).  Rationals cross as strings "n" or "n/d" — the driver
  never sees a float.  Terms are `{"c":[[var,"n/d"],…],"k":"n/d"}`.
-/
open Lean

namespace Wire

def parseInt? (s : String) : Option Int :=
  if s.startsWith "-" then (s.drop 1).toNat?.map (fun n => - (n : Int))
  else if s.startsWith "+" then (s.drop 1).toNat?.map (fun n => (n : Int))
  else s.toNat?.map (fun n => (n : Int))

def parseRat? (s : String) : Option Rat :=
  match s.splitOn "/" with
  | [n] => (parseInt? n).map fun i => (i : Rat)
  | [n, d] => do
    let i ← parseInt? n
    let k ← d.toNat?
    if k == 0 then none else some ((i : Rat) / (k : Rat))
  | _ => none

def ratToStr (q : Rat) : String :=
  if q.den == 1 then toString q.num else s!"{q.num}/{q.den}"

def jRat (q : Rat) : Json := Json.str (ratToStr q)

def getRat (j : Json) : Except String Rat := do
  match j with
  | .str s => match parseRat? s with
    | some q => pure q
    | none => throw s!"bad rational {s}"
  | .num n => -- integers only
    if n.exponent == 0 then pure (n.mantissa : Rat) else throw "non-integer JSON number"
  | _ => throw "rational expected"

def getLin (j : Json) : Except String Lin := do
  let arr ← j.getArr?
  arr.toList.mapM fun p => do
    let pr ← p.getArr?
    if pr.size != 2 then throw "pair expected"
    let x ← pr[0]!.getNat?
    let c ← getRat pr[1]!
    pure (x, c)

def jLin (l : Lin) : Json := Json.arr (l.map fun p => Json.arr #[Json.num ((p.1 : Nat) : Int), jRat p.2]).toArray

def getTerm (j : Json) : Except String PTerm := do
  let c ← getLin (← j.getObjVal? "c")
  let k ← getRat (← j.getObjVal? "k")
  pure (PTerm.mk' c k)

def jTerm (t : PTerm) : Json := Json.mkObj [("c", jLin t.coeffs), ("k", jRat t.const)]

def getTL (j : Json) : Except String TL := do
  let arr ← j.getArr?
  arr.toList.mapM getTerm

def jTL (l : TL) : Json := Json.arr (l.map jTerm).toArray

def getVars (j : Json) : Except String (List Var) := do
  let arr ← j.getArr?
  arr.toList.mapM fun x => x.getNat?

def jVars (l : List Var) : Json := Json.arr (l.map fun x => Json.num ((x : Nat) : Int)).toArray

def getBool (j : Json) : Except String Bool := j.getBool?

def getNats (j : Json) : Except String (List Nat) := getVars j

def jErr : Err → Json
  | .incompatibleArgs => "IncompatibleArgsError"
  | .valueError => "ValueError"
  | .syntax => "SyntaxError"
  | .convex => "ConvexError"
  | .contractFormat => "ContractFormatError"
  | .oracleStuck => "oracle-stuck"
  | .py k => Json.str ("py:" ++ k)

end Wire
