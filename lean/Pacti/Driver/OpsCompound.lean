import Pacti.Driver.Wire
import Pacti.Driver.OpsPoly
import Pacti.Model.Compound
open Lean Wire

/-- nested term lists cross the wire as arrays of term lists -/
def getNested (j : Json) : Except String Nested := do
  let arr ← j.getArr?
  arr.toList.mapM getTL

def jNested (n : Nested) : Json := Json.arr (n.map jTL).toArray

structure RawCC where
  a : List TL
  g : List TL
  ins : List Var
  outs : List Var

def getRawCC (j : Json) : Except String RawCC := do
  let a ← getNested (← j.getObjVal? "a")
  let g ← getNested (← j.getObjVal? "g")
  let ins ← getVars (← j.getObjVal? "ins")
  let outs ← getVars (← j.getObjVal? "outs")
  pure ⟨a, g, ins, outs⟩

def jCContract (c : CContract) : Json :=
  Json.mkObj [("a", jNested c.a), ("g", jNested c.g), ("ins", jVars c.ins), ("outs", jVars c.outs)]

def jStage (stage : String) (e : Err) : Json := Json.mkObj [("err", jErr e), ("stage", Json.str stage)]

/-- ops of compound (disjunctive) contracts; `none` = not one of mine -/
def handleCompound (op : String) (j : Json) : Option (Except String Json) :=
  let run (f : Except String Json) : Option (Except String Json) := some f
  match op with
  | "c17_nested" => run do
    let l ← getNested (← j.getObjVal? "alts")
    let f ← getBool (← j.getObjVal? "force")
    pure (jExcept (Compound.mkNested theOracle l f) jNested)
  | "c17_contains" => run do
    let l ← getNested (← j.getObjVal? "alts")
    let b ← getLin (← j.getObjVal? "beh")
    let r : Except Err Bool := do
      let n ← Compound.mkNested theOracle l false
      Compound.containsB n b
    pure (jExcept r Json.bool)
  | "c17_intersect" => run do
    let l₁ ← getNested (← j.getObjVal? "n1")
    let l₂ ← getNested (← j.getObjVal? "n2")
    let f ← getBool (← j.getObjVal? "force")
    let r : Except Err Nested := do
      let n₁ ← Compound.mkNested theOracle l₁ false
      let n₂ ← Compound.mkNested theOracle l₂ false
      Compound.intersect theOracle n₁ n₂ f
    pure (jExcept r jNested)
  | "c17_le" => run do
    let l₁ ← getNested (← j.getObjVal? "lhs")
    let l₂ ← getNested (← j.getObjVal? "rhs")
    let r : Except Err Poly.Verdict := do
      let n₁ ← Compound.mkNested theOracle l₁ false
      let n₂ ← Compound.mkNested theOracle l₂ false
      Compound.le theOracle n₁ n₂
    pure (jExcept r jVerdict)
  | "c17_from" => run do
    let c ← getRawCC (← j.getObjVal? "c")
    pure (jExcept (Compound.fromLists theOracle c.a c.g c.ins c.outs) jCContract)
  | "c17_merge" => run do
    let c ← getRawCC (← j.getObjVal? "c")
    let d ← getRawCC (← j.getObjVal? "d")
    match Compound.fromLists theOracle c.a c.g c.ins c.outs with
    | .error e => pure (jStage "c" e)
    | .ok cc =>
      match Compound.fromLists theOracle d.a d.g d.ins d.outs with
      | .error e => pure (jStage "d" e)
      | .ok dd =>
        match Compound.mergeCompound theOracle cc dd with
        | .error e => pure (jStage "merge" e)
        | .ok r => pure (Json.mkObj [("ok", jCContract r), ("c", jCContract cc), ("d", jCContract dd)])
  | _ => none
