import Pacti.Driver.OpsPoly
import Pacti.Model.Elim
open Lean Wire

namespace OpsElim

structure Hint where
  t : PTerm
  H : TL
  refine : Bool
  idx : List Nat
  xs : List Var

def getHints (j : Json) : Except String (List Hint) := do
  match j.getObjVal? "hints" with
  | .error _ => pure []
  | .ok h =>
    (← h.getArr?).toList.mapM fun e => do
      pure ⟨← getTerm (← e.getObjVal? "t"), ← getTL (← e.getObjVal? "H"), ← getBool (← e.getObjVal? "refine"),
            ← getNats (← e.getObjVal? "idx"), ← getVars (← e.getObjVal? "xs")⟩

def closeQ (a b : Rat) : Bool :=
  let d := Poly.rabs (a - b)
  let m := max 1 (max (Poly.rabs a) (Poly.rabs b))
  decide (d ≤ m / 1000000000)

/-- same variables, numbers within 1e-9 relative (the implementation's helper terms carry float round-off) -/
def closeTerm (a b : PTerm) : Bool :=
  a.coeffs.length == b.coeffs.length &&
  (List.zip a.coeffs b.coeffs).all (fun p => p.1.1 == p.2.1 && closeQ p.1.2 p.2.2) && closeQ a.const b.const

def closeTL (a b : TL) : Bool := a.length == b.length && (List.zip a b).all fun p => closeTerm p.1 p.2

def matchHint (h : Hint) (t : PTerm) (H : TL) (refine : Bool) : Bool :=
  h.refine == refine && closeTerm h.t t && closeTL h.H H

/-- hint lookup by exact content, INCLUDING the variables to eliminate the implementation's call had (the same term and
    context are met with different variable lists inside one history); a hint is used only if the driver verifies it is
    admissible.  `_dflt` is unused (kept for the call sites that know the list up front). -/
def hintFn (hs : List Hint) (_dflt : List Var) (t : PTerm) (H : TL) (xs : List Var) (refine : Bool) : Option (List Nat) :=
  match hs.find? (fun h => matchHint h t H refine && h.xs == xs) with
  | some h => if Elim.hintAdmissible theOracle t H xs refine h.idx then some h.idx else none
  | none => none

def jTacticRes (r : Elim.TacticRes) : Json :=
  match r with
  | .ok (some t) => Json.mkObj [("ok", jTerm t)]
  | .ok none => Json.mkObj [("ok", Json.null)]
  | .error e => Json.mkObj [("err", jErr e)]

def jInts (l : List Int) : Json := Json.arr (l.map fun (i : Int) => Json.num (JsonNumber.fromInt i)).toArray

def handleElim (op : String) (j : Json) : Option (Except String Json) :=
  let run (f : Except String Json) : Option (Except String Json) := some f
  match op with
  | "tactic" => run do
    let t ← getTerm (← j.getObjVal? "t")
    let H ← getTL (← j.getObjVal? "H")
    let xs ← getVars (← j.getObjVal? "xs")
    let refine ← getBool (← j.getObjVal? "refine")
    let k ← (← j.getObjVal? "k").getNat?
    let hs ← getHints j
    let r := Elim.tactic theOracle true (hintFn hs xs) k t H xs refine
    let r2 := Elim.tactic theOracle false (hintFn hs xs) k t H xs refine
    let used := match hs.find? (fun h => matchHint h t H refine && h.xs == xs) with
      | some h => Elim.hintAdmissible theOracle t H xs refine h.idx
      | none => true
    pure (((jTacticRes r).setObjVal! "hint_ok" (Json.bool used)).setObjVal! "alt" (jTacticRes r2))
  | "elim" => run do
    let l ← getTL (← j.getObjVal? "terms")
    let ctx ← getTL (← j.getObjVal? "ctx")
    let xs ← getVars (← j.getObjVal? "xs")
    let refine ← getBool (← j.getObjVal? "refine")
    let simp ← getBool (← j.getObjVal? "simplify")
    let ord ← getNats (← j.getObjVal? "order")
    let hs ← getHints j
    let g (O : Oracle) (tie : Bool) :=
      let tac := Elim.tactic O tie (hintFn hs xs)
      if refine then Elim.elimRefine O (fun _ => tie) tac l ctx xs simp ord
      else Elim.elimRelax O (fun _ => tie) tac l ctx xs simp ord
    let f (tie : Bool) := g theOracle tie
    let js (r : Except Err (TL × List Int)) : Json := match r with
      | .ok (ts, used) => Json.mkObj [("ok", jTL ts), ("tactics", jInts used)]
      | .error e => Json.mkObj [("err", jErr e)]
    pure (((js (f true)).setObjVal! "alt" (js (f false))).setObjVal! "near"
      (Json.arr #[js (g (oracleShift (-nearD)) true), js (g (oracleShift nearD) false), js (g oracleBox true), js (g oracleBox false)]))
  | _ => none

end OpsElim
