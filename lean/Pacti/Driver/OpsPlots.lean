import Pacti.Driver.Wire
import Pacti.Driver.OpsPoly
import Pacti.Model.Plots
open Lean Wire

/-
  Ops of C18.  Terms cross in *dict insertion order* and are NOT normalised here (only zero coefficients are
  dropped, as `PolyhedralTerm.__init__` does): the order decides `termlist_to_polytope`'s column order.
  Half-planes cross as `["a","b","c"]`, points as `["x","y"]`.
-/

def getRawTerm (j : Json) : Except String PTerm := do
  let c ← getLin (← j.getObjVal? "c")
  let k ← getRat (← j.getObjVal? "k")
  pure ⟨c.filter (fun p => p.2 != 0), k⟩

def getRawTL (j : Json) : Except String TL := do
  let arr ← j.getArr?
  arr.toList.mapM getRawTerm

def getPair (j : Json) : Except String (Rat × Rat) := do
  let a ← j.getArr?
  if a.size != 2 then throw "pair expected"
  pure (← getRat a[0]!, ← getRat a[1]!)

def jPair (p : Rat × Rat) : Json := Json.arr #[jRat p.1, jRat p.2]

def getHalfPlane (j : Json) : Except String HalfPlane := do
  let a ← j.getArr?
  if a.size != 3 then throw "half-plane [a,b,c] expected"
  pure ⟨← getRat a[0]!, ← getRat a[1]!, ← getRat a[2]!⟩

def jHalfPlane (h : HalfPlane) : Json := Json.arr #[jRat h.a, jRat h.b, jRat h.c]

def getList {α} (f : Json → Except String α) (j : Json) : Except String (List α) := do
  let arr ← j.getArr?
  arr.toList.mapM f

def jCheck (H : List HalfPlane) (pts : List (Rat × Rat)) : Json :=
  Json.mkObj [("ok", Json.bool (Plots.checkVertices H pts)),
              ("corners", Json.arr ((Plots.corners H).map jPair).toArray),
              ("centroid", jPair (Plots.centroid pts)),
              ("why", match Plots.checkVerticesWhy H pts with | some s => Json.str s | none => Json.null)]

def getPlotArgs (j : Json) : Except String (TL × Var × Var × List (Var × Rat) × (Rat × Rat) × (Rat × Rat)) := do
  let l ← getRawTL (← j.getObjVal? "terms")
  let x ← (← j.getObjVal? "x").getNat?
  let y ← (← j.getObjVal? "y").getNat?
  let vals ← getLin (← j.getObjVal? "vals")
  let xl ← getPair (← j.getObjVal? "xl")
  let yl ← getPair (← j.getObjVal? "yl")
  pure (l, x, y, vals, xl, yl)

def handlePlots (op : String) (j : Json) : Option (Except String Json) :=
  let run (f : Except String Json) : Option (Except String Json) := some f
  match op with
  | "plot_check" => run do
    -- the glue, then (when the implementation answered with points) the checker on the MODEL's system
    let (l, x, y, vals, xl, yl) ← getPlotArgs j
    match Plots.plotSystem' l x y vals xl yl with
    | .error e => pure (Json.mkObj [("err", jErr e)])
    | .ok (H, sw) =>
      let base := Json.mkObj [("ok", Json.arr (H.map jHalfPlane).toArray), ("swapped", Json.bool sw),
                              ("corners", Json.arr ((Plots.corners H).map jPair).toArray)]
      match j.getObjVal? "pts" with
      | .ok .null => pure base
      | .ok p => do
        let pts ← getList getPair p
        pure (base.setObjVal! "check" (jCheck H pts))
      | .error _ => pure base
  | "plot_system" => run do
    let (l, x, y, vals, xl, yl) ← getPlotArgs j
    match Plots.plotSystem' l x y vals xl yl with
    | .error e => pure (Json.mkObj [("err", jErr e)])
    | .ok (H, sw) =>
      pure (Json.mkObj [("ok", Json.arr (H.map jHalfPlane).toArray), ("swapped", Json.bool sw),
                        ("corners", Json.arr ((Plots.corners H).map jPair).toArray)])
  | "check_vertices" => run do
    let H ← getList getHalfPlane (← j.getObjVal? "H")
    let pts ← getList getPair (← j.getObjVal? "pts")
    pure (jCheck H pts)
  | _ => none
