import Pacti.Driver.Wire
import Pacti.Model.Simplex
import Pacti.Model.Poly
import Pacti.Model.Contract
open Lean Wire

def theOracle : Oracle := checkedOracle Simplex.solve

/-- NOT a certified oracle: every reported optimum is shifted by `d·(1+|m|)`.  Used only to CLASSIFY a disagreement: if the
    implementation's result is reproduced with all optima nudged down (or up) by 1e-10, the disagreement is a float
    near-tie (an LP optimum within rounding distance of the bound it is compared with), not a model/code difference. -/
def oracleShift (d : Rat) : Oracle :=
  ⟨fun obj cs => match theOracle.lp obj cs with
    | .optimal m x => .optimal (m + d * (1 + Poly.rabs m)) x
    | r => r⟩

def nearD : Rat := 1 / 10000000000

/-- NOT a certified oracle either: every LP is solved inside the box `|v| ≤ 10⁹` over the variables it mentions.  Used only to
    CLASSIFY a disagreement: a float solver cannot see a slope of 1e-11 (a coefficient that survives an exact cancellation such
    as `1 - 0.999994·1.000006`), so it calls "bounded" what exact arithmetic calls unbounded far outside any sensible range.
    If the implementation's result is reproduced with every LP boxed, the disagreement is that artefact. -/
def bigBox : Rat := 1000000000
def oracleBox : Oracle :=
  ⟨fun obj cs =>
    let vs := Gen.list_union (TL.vars cs) (varsL obj)
    let box : TL := vs.flatMap fun v => [⟨[(v, 1)], bigBox⟩, ⟨[(v, -1)], bigBox⟩]
    theOracle.lp obj (cs ++ box)⟩

def jLPRes : LPRes → Json
  | .optimal m x => Json.mkObj [("status", "optimal"), ("m", jRat m), ("x", jLin x)]
  | .infeasible => Json.mkObj [("status", "infeasible")]
  | .unbounded => Json.mkObj [("status", "unbounded")]
  | .stuck => Json.mkObj [("status", "stuck")]

def jExcept {α} (r : Except Err α) (f : α → Json) : Json :=
  match r with
  | .ok a => Json.mkObj [("ok", f a)]
  | .error e => Json.mkObj [("err", jErr e)]

def jVerdict : Poly.Verdict → Json
  | .yes => "yes" | .no => "no" | .gray => "gray"

def getContract (j : Json) : Except String PContract := do
  let a ← getTL (← j.getObjVal? "a")
  let g ← getTL (← j.getObjVal? "g")
  let ins ← getVars (← j.getObjVal? "ins")
  let outs ← getVars (← j.getObjVal? "outs")
  pure ⟨a, g, ins, outs⟩

def jContract (c : PContract) : Json :=
  Json.mkObj [("a", jTL c.a), ("g", jTL c.g), ("ins", jVars c.ins), ("outs", jVars c.outs)]

/-- ops of the LP-based primitives; `none` = not one of mine -/
def handlePoly (op : String) (j : Json) : Option (Except String Json) :=
  let run (f : Except String Json) : Option (Except String Json) := some f
  match op with
  | "lp" => run do
    let obj ← getLin (← j.getObjVal? "obj")
    let cs ← getTL (← j.getObjVal? "cs")
    pure (jLPRes (theOracle.lp obj cs))
  | "contains" => run do
    let l ← getTL (← j.getObjVal? "terms")
    let b ← getLin (← j.getObjVal? "beh")
    pure (jExcept (Poly.containsBehavior l b) Json.bool)
  | "is_empty" => run do
    let l ← getTL (← j.getObjVal? "terms")
    pure (jExcept (Poly.isEmpty theOracle l) Json.bool)
  | "refines" => run do
    let l ← getTL (← j.getObjVal? "lhs")
    let r ← getTL (← j.getObjVal? "rhs")
    pure (jExcept (Poly.refinesTL theOracle l r) jVerdict)
  | "mono" => run do
    let l ← getTL (← j.getObjVal? "lhs")
    let r ← getTL (← j.getObjVal? "rhs")
    let b ← getLin (← j.getObjVal? "beh")
    let res : Except Err Json := do
      let a ← Poly.containsBehavior l b
      let f ← Poly.refinesTL theOracle l r
      let c ← Poly.containsBehavior r b
      pure (Json.arr #[Json.bool a, jVerdict f, Json.bool c])
    pure (jExcept res id)
  | "refinesC" => run do
    let c ← getContract (← j.getObjVal? "c")
    let d ← getContract (← j.getObjVal? "d")
    pure (jExcept (Poly.refinesC theOracle c d) jVerdict)
  | "contains_env" => run do
    let c ← getContract (← j.getObjVal? "c")
    let l ← getTL (← j.getObjVal? "terms")
    pure (jExcept (Poly.containsEnvironment theOracle c l) jVerdict)
  | "contains_impl" => run do
    let c ← getContract (← j.getObjVal? "c")
    let l ← getTL (← j.getObjVal? "terms")
    pure (jExcept (Poly.containsImplementation theOracle c l) jVerdict)
  | "simplify" => run do
    let l ← getTL (← j.getObjVal? "terms")
    let ctx ← match j.getObjVal? "ctx" with
      | .ok .null => pure none
      | .ok c => (getTL c).map some
      | .error _ => pure none
    let a := Poly.simplify theOracle (fun _ => true) l ctx
    let b := Poly.simplify theOracle (fun _ => false) l ctx
    let n1 := Poly.simplify (oracleShift (-nearD)) (fun _ => true) l ctx
    let n2 := Poly.simplify (oracleShift nearD) (fun _ => false) l ctx
    let n3 := Poly.simplify oracleBox (fun _ => true) l ctx
    let n4 := Poly.simplify oracleBox (fun _ => false) l ctx
    pure (((jExcept a jTL).setObjVal! "alt" (jExcept b jTL)).setObjVal! "near" (Json.arr #[jExcept n1 jTL, jExcept n2 jTL, jExcept n3 jTL, jExcept n4 jTL]))
  | "optimize" => run do
    let l ← getTL (← j.getObjVal? "terms")
    let obj ← getLin (← j.getObjVal? "obj")
    let mx ← getBool (← j.getObjVal? "max")
    pure (jExcept (Poly.optimize theOracle l obj mx) (fun o => match o with | some q => jRat q | none => Json.null))
  | "bounds" => run do
    let l ← getTL (← j.getObjVal? "terms")
    let x ← (← j.getObjVal? "var").getNat?
    let jo (o : Option Rat) : Json := match o with | some q => jRat q | none => Json.null
    pure (jExcept (Poly.variableBounds theOracle l x) (fun p => Json.arr #[jo p.1, jo p.2]))
  | _ => none

