import Pacti.Driver.Wire
import Pacti.Model.Dict
/-
  Driver ops of the dictionary / file-entry model (C14).

  Wire format of a JSON *value under test* (`J`): `null`, booleans, strings and arrays cross as themselves;
  a number crosses as `{"$num": "n/d"}` (exact rational — the driver never sees a float); a dictionary crosses as
  `{"$obj": [[key, value], …]}` so that Python's insertion order survives (a plain JSON object is accepted too and
  read in key order).

  Environment (`Dict.tableExt`): `{"grammar": [[string, {"ok": [term…]} | {"err": kind}], …], "ctor": null | kind,
  "floats": [[string, "n/d"], …]}` — what the grammar, the contract constructor and `float(str)` answered in the
  implementation run; the model decides everything else.
-/
open Lean Wire Dict

namespace DictWire

partial def getJ (j : Json) : Except String J := do
  match j with
  | .null => pure .null
  | .bool b => pure (.bool b)
  | .str s => pure (.str s)
  | .num n => if n.exponent == 0 then pure (.num (n.mantissa : Rat)) else throw "bare non-integer number in a value under test"
  | .arr a => do
    let l ← a.toList.mapM getJ
    pure (.arr l)
  | .obj _ =>
    match j.getObjVal? "$num" with
    | .ok q => do pure (.num (← getRat q))
    | .error _ =>
      match j.getObjVal? "$obj" with
      | .ok ps => do
        let arr ← ps.getArr?
        let kv ← arr.toList.mapM fun p => do
          let pr ← p.getArr?
          if pr.size != 2 then throw "pair expected in $obj"
          let k ← pr[0]!.getStr?
          let v ← getJ pr[1]!
          pure (k, v)
        pure (.obj kv)
      | .error _ => do
        let o ← j.getObj?
        let kv ← o.toList.mapM fun (k, v) => do
          let v' ← getJ v
          pure (k, v')
        pure (.obj kv)

partial def jOfJ : J → Json
  | .null => .null
  | .bool b => .bool b
  | .num q => Json.mkObj [("$num", jRat q)]
  | .str s => .str s
  | .arr l => Json.arr (l.map jOfJ).toArray
  | .obj kv => Json.mkObj [("$obj", Json.arr (kv.map fun p => Json.arr #[Json.str p.1, jOfJ p.2]).toArray)]

def getErr (s : String) : Err :=
  if s == "IncompatibleArgsError" then .incompatibleArgs
  else if s == "ValueError" then .valueError
  else if s == "SyntaxError" then .syntax
  else if s == "ConvexError" then .convex
  else if s == "ContractFormatError" then .contractFormat
  else if s.startsWith "py:" then .py (s.drop 3).toString
  else .py s

def getRawTerm (j : Json) : Except String RawTerm := do
  let cs ← (← j.getObjVal? "c").getArr?
  let c ← cs.toList.mapM fun p => do
    let pr ← p.getArr?
    if pr.size != 2 then throw "pair expected"
    pure ((← pr[0]!.getStr?), (← getRat pr[1]!))
  let k ← getRat (← j.getObjVal? "k")
  pure (c, k)

def jRawTerm (t : RawTerm) : Json :=
  Json.mkObj [("c", Json.arr (t.1.map fun p => Json.arr #[Json.str p.1, jRat p.2]).toArray), ("k", jRat t.2)]

def jStrs (l : List String) : Json := Json.arr (l.map Json.str).toArray

def getEnv (j : Json) : Except String (Ext RawTerm RawContract RawCompound) := do
  let g ← match j.getObjVal? "grammar" with
    | .ok a => do
      let arr ← a.getArr?
      arr.toList.mapM fun p => do
        let pr ← p.getArr?
        if pr.size != 2 then throw "pair expected in grammar"
        let s ← pr[0]!.getStr?
        let r : Except Err (List RawTerm) ← match pr[1]!.getObjVal? "err" with
          | .ok e => do pure (.error (getErr (← e.getStr?)))
          | .error _ => do
            let ts ← (← pr[1]!.getObjVal? "ok").getArr?
            pure (.ok (← ts.toList.mapM getRawTerm))
        pure (s, r)
    | .error _ => pure []
  let ctor : Option Err ← match j.getObjVal? "ctor" with
    | .ok (.str s) => pure (some (getErr s))
    | _ => pure none
  let fl ← match j.getObjVal? "floats" with
    | .ok a => do
      let arr ← a.getArr?
      arr.toList.mapM fun p => do
        let pr ← p.getArr?
        if pr.size != 2 then throw "pair expected in floats"
        pure ((← pr[0]!.getStr?), (← getRat pr[1]!))
    | .error _ => pure []
  pure (tableExt g ctor fl)

def getCfg (j : Json) : Cfg :=
  match j.getObjVal? "cfg" with
  | .ok (.str "pinned") => Cfg.pinned
  | .ok (.str "repaired") => Cfg.repaired
  | _ => Cfg.current

def jCfg (c : Cfg) : Json :=
  Json.mkObj [("clauseDictTest", c.clauseDictTest), ("clauseRaises", c.clauseRaises), ("clauseNumTest", c.clauseNumTest),
    ("fileChecked", c.fileChecked), ("compoundChecked", c.compoundChecked), ("fromDictValidates", c.fromDictValidates),
    ("catchZeroDiv", c.catchZeroDiv), ("allRepaired", c.allRepaired)]

def jContract (c : RawContract) : Json :=
  Json.mkObj [("kind", "simple"), ("a", Json.arr (c.a.map jRawTerm).toArray), ("g", Json.arr (c.g.map jRawTerm).toArray),
    ("ins", jStrs c.ins), ("outs", jStrs c.outs), ("simplify", c.simplify)]

def jCompound (c : RawCompound) : Json :=
  Json.mkObj [("kind", "compound"),
    ("a", Json.arr (c.a.map fun l => Json.arr (l.map jRawTerm).toArray).toArray),
    ("g", Json.arr (c.g.map fun l => Json.arr (l.map jRawTerm).toArray).toArray),
    ("ins", jStrs c.ins), ("outs", jStrs c.outs)]

def jLoaded (p : Loaded RawContract RawCompound × J) : Json :=
  let base := match p.1 with
    | .simple c => jContract c
    | .compound c => jCompound c
  base.setObjVal! "name" (jOfJ p.2)

def jRes {α} (r : Except Err α) (f : α → Json) : Json :=
  match r with
  | .ok a => Json.mkObj [("ok", f a)]
  | .error e => Json.mkObj [("err", jErr e)]

partial def getAExp (j : Json) : Except String Arith.AExp := do
  match j with
  | .arr a =>
    -- [first, [op, e], [op, e], …]
    if a.size == 0 then throw "empty chain"
    let first ← getAExp a[0]!
    let rest ← (a.toList.drop 1).mapM fun p => do
      let pr ← p.getArr?
      if pr.size != 2 then throw "[op, expr] expected"
      let op ← match (← pr[0]!.getStr?) with
        | "+" => pure Arith.Op.add
        | "-" => pure Arith.Op.sub
        | "*" => pure Arith.Op.mul
        | "/" => pure Arith.Op.div
        | o => throw s!"unknown operator {o}"
      pure (op, (← getAExp pr[1]!))
    pure (.chain first rest)
  | _ => do pure (.num (← getRat j))

end DictWire

open DictWire in
/-- ops of the dictionary / file-entry model; `none` = not one of mine -/
def handleDict (op : String) (j : Json) : Option (Except String Json) :=
  let run (f : Except String Json) : Option (Except String Json) := some f
  let withCfg (cfg : Cfg) (r : Json) : Json := r.setObjVal! "cfg" (jCfg cfg)
  match op with
  | "dict_cfg" => run (pure (Json.mkObj [("ok", jCfg Cfg.current)]))
  | "dict_read_file" => run do
    let cfg := getCfg j
    let E ← getEnv (← j.getObjVal? "env")
    let v ← getJ (← j.getObjVal? "file")
    pure (withCfg cfg (jRes (readFile cfg E v) (fun l => Json.arr (l.map jLoaded).toArray)))
  | "dict_read_entry" => run do
    let cfg := getCfg j
    let E ← getEnv (← j.getObjVal? "env")
    let v ← getJ (← j.getObjVal? "entry")
    pure (withCfg cfg (jRes (readEntry cfg E v) jLoaded))
  | "dict_validate" => run do
    let cfg := getCfg j
    let v ← getJ (← j.getObjVal? "dict")
    let m ← (← j.getObjVal? "machine").getBool?
    pure (withCfg cfg (jRes (validateContractDict cfg v (.str "n") m) (fun _ => Json.null)))
  | "dict_validate_from_dict" => run do
    -- validate_contract_dict(d, name, True); PolyhedralIoContract.from_dict(d, simplify)
    let cfg := getCfg j
    let E ← getEnv (← j.getObjVal? "env")
    let v ← getJ (← j.getObjVal? "dict")
    let s ← (← j.getObjVal? "simplify").getBool?
    let r : Except Err RawContract := do
      validateContractDict cfg v (.str "n") true
      fromDict cfg E v s
    pure (withCfg cfg (jRes r jContract))
  | "dict_validate_from_strings" => run do
    -- validate_contract_dict(d, name, False); PolyhedralIoContract.from_strings(**d, simplify=s)
    let cfg := getCfg j
    let E ← getEnv (← j.getObjVal? "env")
    let v ← getJ (← j.getObjVal? "dict")
    let s ← (← j.getObjVal? "simplify").getBool?
    let r : Except Err RawContract := do
      validateContractDict cfg v (.str "n") false
      let (a, g, i, o, _) ← bindKw v false
      fromStrings cfg E a g i o s
    pure (withCfg cfg (jRes r jContract))
  | "dict_from_dict" => run do
    let cfg := getCfg j
    let E ← getEnv (← j.getObjVal? "env")
    let v ← getJ (← j.getObjVal? "dict")
    let s ← (← j.getObjVal? "simplify").getBool?
    pure (withCfg cfg (jRes (fromDict cfg E v s) jContract))
  | "dict_from_strings" => run do
    -- PolyhedralIoContract.from_strings(assumptions=a, guarantees=g, input_vars=i, output_vars=o, simplify=s)
    let cfg := getCfg j
    let E ← getEnv (← j.getObjVal? "env")
    let a ← getJ (← j.getObjVal? "a")
    let g ← getJ (← j.getObjVal? "g")
    let i ← getJ (← j.getObjVal? "ins")
    let o ← getJ (← j.getObjVal? "outs")
    let s ← (← j.getObjVal? "simplify").getBool?
    pure (withCfg cfg (jRes (fromStrings cfg E a g i o s) jContract))
  | "dict_decode_entry" => run do
    -- the specification's view: does the entry have all fields of the right kind?
    let v ← getJ (← j.getObjVal? "entry")
    pure (Json.mkObj [("ok", Json.bool (decodeEntry v).isSome)])
  | "arith" => run do
    let cfg := getCfg j
    let e ← getAExp (← j.getObjVal? "expr")
    pure (withCfg cfg (jRes (Arith.evalCaught cfg e) jRat))
  | _ => none
