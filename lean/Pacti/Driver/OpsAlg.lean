import Pacti.Driver.OpsElim
import Pacti.Model.PolyAlg
open Lean Wire

namespace OpsAlg

def getC (j : Json) : Except String (Contract PTerm) := do
  let c ← getContract j
  pure ⟨c.a, c.g, c.ins, c.outs⟩

def jC (c : Contract PTerm) : Json :=
  Json.mkObj [("a", jTL c.a), ("g", jTL c.g), ("ins", jVars c.ins), ("outs", jVars c.outs)]

def jRes (r : Except Err (Contract PTerm)) : Json :=
  match r with
  | .ok c => Json.mkObj [("ok", jC c)]
  | .error e => Json.mkObj [("err", jErr e)]

/-- primitives for one resolution of all ties / gray verdicts; tactic-5 hints are looked up by content.
    The variable list of the elimination is not known here, so admissibility of a hint is checked inside with the
    variables the hint was recorded with. -/
def primsO (O : Oracle) (hs : List OpsElim.Hint) (hxs : List Var) (b : Bool) : Prims PTerm :=
  PolyAlg.polyPrims O (fun _ => b) b (PolyAlg.realTac O b (OpsElim.hintFn hs hxs))

def prims (hs : List OpsElim.Hint) (hxs : List Var) (b : Bool) : Prims PTerm := primsO theOracle hs hxs b

def both (f : Prims PTerm → Except Err (Contract PTerm)) (hs : List OpsElim.Hint) (hxs : List Var) : Json :=
  ((jRes (f (prims hs hxs true))).setObjVal! "alt" (jRes (f (prims hs hxs false)))).setObjVal! "near"
    (Json.arr #[jRes (f (primsO (oracleShift (-nearD)) hs hxs true)), jRes (f (primsO (oracleShift nearD) hs hxs false)),
                jRes (f (primsO oracleBox hs hxs true)), jRes (f (primsO oracleBox hs hxs false))])

def handleAlg (op : String) (j : Json) : Option (Except String Json) :=
  let run (f : Except String Json) : Option (Except String Json) := some f
  match op with
  | "compose" => run do
    let c1 ← getC (← j.getObjVal? "c1")
    let c2 ← getC (← j.getObjVal? "c2")
    let keep ← getVars (← j.getObjVal? "keep")
    let simp ← getBool (← j.getObjVal? "simplify")
    let ord ← getNats (← j.getObjVal? "order")
    let hs ← OpsElim.getHints j
    let hxs ← getVars (← j.getObjVal? "hint_xs")
    pure (both (fun P => PolyAlg.compose P c1 c2 keep simp ord) hs hxs)
  | "quotient" => run do
    let c ← getC (← j.getObjVal? "c1")
    let c1 ← getC (← j.getObjVal? "c2")
    let addl ← getVars (← j.getObjVal? "addl")
    let simp ← getBool (← j.getObjVal? "simplify")
    let ord ← getNats (← j.getObjVal? "order")
    let hs ← OpsElim.getHints j
    let hxs ← getVars (← j.getObjVal? "hint_xs")
    pure (both (fun P => PolyAlg.quotient P c c1 addl simp ord) hs hxs)
  | "merge" => run do
    let c1 ← getC (← j.getObjVal? "c1")
    let c2 ← getC (← j.getObjVal? "c2")
    pure (both (fun P => PolyAlg.merge P c1 c2) [] [])
  | "ctor" => run do
    let c ← getC (← j.getObjVal? "c1")
    let simp ← getBool (← j.getObjVal? "simplify")
    pure (both (fun P => PolyAlg.mk P c.a c.g c.ins c.outs simp) [] [])
  | "optimize_c" => run do
    let c ← getC (← j.getObjVal? "c1")
    let obj ← getLin (← j.getObjVal? "obj")
    let mx ← getBool (← j.getObjVal? "max")
    pure (jExcept (PolyAlg.optimizeC theOracle c obj mx) (fun o => match o with | some q => jRat q | none => Json.null))
  | "bounds_c" => run do
    let c ← getC (← j.getObjVal? "c1")
    let x ← (← j.getObjVal? "var").getNat?
    let jo (o : Option Rat) : Json := match o with | some q => jRat q | none => Json.null
    pure (jExcept (PolyAlg.boundsC theOracle c x) (fun p => Json.arr #[jo p.1, jo p.2]))
  | "rename" => run do
    let c ← getC (← j.getObjVal? "c1")
    let s ← (← j.getObjVal? "src").getNat?
    let d ← (← j.getObjVal? "dst").getNat?
    pure (both (fun P => PolyAlg.rename P c s d) [] [])
  | "rename_all" => run do
    let c ← getC (← j.getObjVal? "c1")
    let ms ← (← (← j.getObjVal? "maps").getArr?).toList.mapM fun m => do
      let a ← m.getArr?
      pure ((← a[0]!.getNat?), (← a[1]!.getNat?))
    pure (both (fun P => PolyAlg.renameAll P c ms) [] [])
  | _ => none

end OpsAlg
