import Pacti.Driver.Wire
import Pacti.Driver.OpsPoly
import Pacti.Model.Serial
open Lean Wire

/-- the model's JSON-like value as real JSON (variable names through the table; numbers as exact-rational strings) -/
partial def jOfJ (names : List String) : Serial.J → Json
  | .null => Json.null
  | .num q => jRat q
  | .str s => Json.str s
  | .name x => Json.str (Serial.nameOf names x)
  | .arr l => Json.arr (l.map (jOfJ names)).toArray
  | .obj kv => Json.mkObj (kv.map fun p => (p.1, jOfJ names p.2))
  | .dict kv => Json.mkObj (kv.map fun p => (Serial.nameOf names p.1, jOfJ names p.2))

def getNames (j : Json) : Except String (List String) := do
  let arr ← j.getArr?
  arr.toList.mapM fun x => x.getStr?

/-- a machine dictionary on the wire: like a contract, but every field may be dropped / replaced (malformed stream).
    `{"a":[term|"bad"…],"g":…,"ins":[…],"outs":[…],"drop":["assumptions",…],"nodict":bool,"nocoeff":bool}` -/
def getMachine (j : Json) : Except String Serial.J := do
  let c ← getContract j
  let base := Serial.toMachine c
  let drop : List String := match j.getObjVal? "drop" with
    | .ok (.arr a) => a.toList.filterMap fun x => x.getStr?.toOption
    | _ => []
  let nodict := (j.getObjVal? "nodict").toOption.bind (·.getBool?.toOption) |>.getD false
  let nocoeff := (j.getObjVal? "nocoeff").toOption.bind (·.getBool?.toOption) |>.getD false
  let badelem := (j.getObjVal? "badelem").toOption.bind (·.getBool?.toOption) |>.getD false
  if nodict then return Serial.J.arr []
  match base with
  | .obj kv =>
    let kv := kv.filter fun p => !drop.contains p.1
    let kv := kv.map fun p =>
      if p.1 == "assumptions" && badelem then
        match p.2 with
        | .arr l => (p.1, Serial.J.arr (l ++ [Serial.J.str "x <= 1"]))
        | o => (p.1, o)
      else if p.1 == "guarantees" && nocoeff then
        match p.2 with
        | .arr l => (p.1, Serial.J.arr (l ++ [Serial.J.obj [("constant", .num 1)]]))
        | o => (p.1, o)
      else p
    return Serial.J.obj kv
  | o => return o

/-- ops of the serialisation model (C10); `none` = not one of mine -/
def handleSerial (op : String) (j : Json) : Option (Except String Json) :=
  let run (f : Except String Json) : Option (Except String Json) := some f
  match op with
  | "fmt4g" => run do
    let arr ← (← j.getObjVal? "xs").getArr?
    let qs ← arr.toList.mapM getRat
    pure (Json.mkObj [("ok", Json.arr (qs.map fun q => Json.str (Serial.fmt4g q)).toArray),
                      ("r4", Json.arr (qs.map fun q => jRat (Serial.round4 q)).toArray)])
  | "readnum" => run do
    let arr ← (← j.getObjVal? "ss").getArr?
    let ss ← arr.toList.mapM fun x => x.getStr?
    pure (Json.mkObj [("ok", Json.arr (ss.map fun s => match Serial.readNum s with | some q => jRat q | none => Json.null).toArray)])
  | "to_strs" => run do
    let names ← getNames (← j.getObjVal? "names")
    let lists ← (← j.getObjVal? "lists").getArr?
    let tls ← lists.toList.mapM getTL
    pure (Json.mkObj [("ok", Json.arr (tls.map fun l =>
      Json.arr ((Serial.termListToStrs names l).map Json.str).toArray).toArray)])
  | "machine_rt" => run do
    let names ← getNames (← j.getObjVal? "names")
    let m ← getMachine j
    pure ((jExcept (Serial.fromDictTop m) jContract).setObjVal! "dict" (jOfJ names m))
  | "serial_case" => run do   -- one contract: both string lists, the machine dictionary and its round trip
    let names ← getNames (← j.getObjVal? "names")
    let c ← getContract j
    let m ← getMachine j
    let strs (l : TL) : Json := Json.arr ((Serial.termListToStrs names l).map Json.str).toArray
    let folds (l : TL) : Json := Json.arr ((Serial.folds l).map fun p => Json.str (match p.2 with
      | .le => "le" | .eq _ => "eq" | .abs0 _ => "abs0" | .absle _ => "absle")).toArray
    pure (Json.mkObj [("a_strs", strs c.a), ("g_strs", strs c.g), ("a_folds", folds c.a), ("g_folds", folds c.g),
      ("dict", jOfJ names m), ("rt", jExcept (Serial.fromDictTop m) jContract)])
  | _ => none
