import Pacti.Driver.Wire
import Pacti.Driver.OpsPoly
import Pacti.Model.Syntax
import Pacti.Model.Parse
open Lean Wire Syntax
/-
  Driver ops of the constraint-syntax model (C09).

  Trees cross as JSON:
    Arith  {"n":"p/q"} | {"op":"+"|"-"|"*"|"/","a":Arith,"b":Arith}
    Tm     {"t":"var","x":i} | {"t":"kvar","k":Arith,"x":i} | {"t":"kparen","k":Arith,"ts":Tms}
           | {"t":"paren","ts":Tms} | {"t":"const","k":Arith}
    Tms    [{"neg":bool,"tm":Tm}, …]
    Item   {"t":"abs","neg":bool,"k":Arith|null,"body":Tms} | {"t":"tm","neg":bool,"tm":Tm}
    SItem  Item | {"t":"group","neg":bool,"k":Arith|null,"items":[Item,…]}
    Expr   {"t":"eq","l":Tms,"r":Tms} | {"t":"leq"|"geq","sides":[[SItem,…],[SItem,…],…]}   (≥ 2 sides)
-/
namespace SyntaxWire

partial def getArith (j : Json) : Except String Arith := do
  match j.getObjVal? "n" with
  | .ok n => pure (.num (← getRat n))
  | .error _ =>
    let op ← (← j.getObjVal? "op").getStr?
    let a ← getArith (← j.getObjVal? "a")
    let b ← getArith (← j.getObjVal? "b")
    match op with
    | "+" => pure (.add a b)
    | "-" => pure (.sub a b)
    | "*" => pure (.mul a b)
    | "/" => pure (.div a b)
    | _ => throw s!"bad arithmetic operator {op}"

def getOptArith (j : Json) : Except String (Option Arith) :=
  match j with
  | .null => pure none
  | _ => (getArith j).map some

mutual
partial def getTm (j : Json) : Except String Tm := do
  let t ← (← j.getObjVal? "t").getStr?
  match t with
  | "var" => pure (.var (← (← j.getObjVal? "x").getNat?))
  | "kvar" => pure (.kvar (← getArith (← j.getObjVal? "k")) (← (← j.getObjVal? "x").getNat?))
  | "kparen" => pure (.kparen (← getArith (← j.getObjVal? "k")) (← getTms (← j.getObjVal? "ts")))
  | "paren" => pure (.paren (← getTms (← j.getObjVal? "ts")))
  | "const" => pure (.const (← getArith (← j.getObjVal? "k")))
  | _ => throw s!"bad term kind {t}"
partial def getTms (j : Json) : Except String Tms := do
  let arr ← j.getArr?
  if arr.size == 0 then throw "empty terms"
  arr.toList.foldrM (fun e acc => do
    let neg ← (← e.getObjVal? "neg").getBool?
    let tm ← getTm (← e.getObjVal? "tm")
    pure (Tms.cons neg tm acc)) Tms.nil
end

def getItem (j : Json) : Except String Item := do
  let t ← (← j.getObjVal? "t").getStr?
  let neg ← (← j.getObjVal? "neg").getBool?
  match t with
  | "abs" => pure (.abs neg (← getOptArith ((j.getObjVal? "k").toOption.getD Json.null)) (← getTms (← j.getObjVal? "body")))
  | "tm" => pure (.tm neg (← getTm (← j.getObjVal? "tm")))
  | _ => throw s!"bad item kind {t}"

def getSItem (j : Json) : Except String SItem := do
  let t ← (← j.getObjVal? "t").getStr?
  if t == "group" then
    let neg ← (← j.getObjVal? "neg").getBool?
    let k ← getOptArith ((j.getObjVal? "k").toOption.getD Json.null)
    let items ← (← (← j.getObjVal? "items").getArr?).toList.mapM getItem
    if items.isEmpty then throw "empty group"
    pure (.group neg k items)
  else pure (.item (← getItem j))

def getSide (j : Json) : Except String Side := do
  let l ← (← j.getArr?).toList.mapM getSItem
  if l.isEmpty then throw "empty side"
  pure l

def getExpr (j : Json) : Except String Expr := do
  let t ← (← j.getObjVal? "t").getStr?
  match t with
  | "eq" => pure (.eq (← getTms (← j.getObjVal? "l")) (← getTms (← j.getObjVal? "r")))
  | "leq" | "geq" =>
    let sides ← (← (← j.getObjVal? "sides").getArr?).toList.mapM getSide
    match sides with
    | s1 :: s2 :: rest => pure (if t == "leq" then .leq s1 s2 rest else .geq s1 s2 rest)
    | _ => throw "an inequality needs at least two sides"
  | _ => throw s!"bad expression kind {t}"

end SyntaxWire

/-- op "translate": tree in, term list or error kind out, for the source as it is now (`translateG`: the value of
    `_combine_optional_floats(None, None)` and the kind of arithmetic parse action are read off the source);
    op "translate_with": the same with both facts given explicitly (`"nn": null | "p/q"`, `"fold": bool`), used by
    the harness self-test;
    op "parse_strs": strings in (with the variable table), per string the term list or error kind of `Parse.fromChars` -/
def handleSyntax (op : String) (j : Json) : Option (Except String Json) :=
  let run (f : Except String Json) : Option (Except String Json) := some f
  match op with
  | "translate" => run do
    let e ← SyntaxWire.getExpr (← j.getObjVal? "expr")
    pure (jExcept (fromStringG e) jTL)
  | "translate_with" => run do
    let e ← SyntaxWire.getExpr (← j.getObjVal? "expr")
    let nn ← match j.getObjVal? "nn" with
      | .ok .null => pure none
      | .ok q => (getRat q).map some
      | .error _ => pure none
    let fold ← (← j.getObjVal? "fold").getBool?
    pure (jExcept (translate nn fold e) jTL)
  | "parse_strs" => run do
    -- the strings themselves through the model of the lexical level and of the ordered choice (`Model/Parse.lean`);
    -- with "expr": also the tree the harness meant (as op "translate")
    let names ← (← (← j.getObjVal? "names").getArr?).toList.mapM (·.getStr?)
    let strs ← (← (← j.getObjVal? "strings").getArr?).toList.mapM (·.getStr?)
    let parsed := strs.map fun s => jExcept (Parse.fromChars names s.toList) jTL
    let base ← match j.getObjVal? "expr" with
      | .ok ej => do
        let e ← SyntaxWire.getExpr ej
        pure (jExcept (fromStringG e) jTL)
      | .error _ => pure (Json.mkObj [])
    pure (base.setObjVal! "parsed" (Json.arr parsed.toArray))
  | _ => none
