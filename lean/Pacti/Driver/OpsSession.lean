import Pacti.Driver.OpsAlg
import Pacti.Model.Session
open Lean Wire

namespace OpsSession

def getOp (j : Json) : Except String Session.Op := do
  let k ← (← j.getObjVal? "k").getStr?
  let nat (f : String) : Except String Nat := do (← j.getObjVal? f).getNat?
  let vars (f : String) : Except String (List Var) := do getVars (← j.getObjVal? f)
  let bool (f : String) : Except String Bool := do getBool (← j.getObjVal? f)
  match k with
  | "compose" => pure (.compose (← nat "i") (← nat "j") (← vars "keep") (← bool "simplify") (← vars "order"))
  | "quotient" => pure (.quotient (← nat "i") (← nat "j") (← vars "addl") (← bool "simplify") (← vars "order"))
  | "merge" => pure (.merge (← nat "i") (← nat "j"))
  | "rename" => pure (.rename (← nat "i") (← nat "src") (← nat "dst"))
  | "copy" => pure (.copy (← nat "i"))
  | "refines" => pure (.refines (← nat "i") (← nat "j"))
  | "simplify" => pure (.simplifyG (← nat "i"))
  | "elim" => pure (.elim (← nat "i") (← bool "refine") (← vars "xs") (← bool "simplify") (← vars "order"))
  | "optimize" => pure (.optimize (← nat "i") (← getLin (← j.getObjVal? "obj")) (← bool "max"))
  | "is_empty" => pure (.isEmpty (← nat "i"))
  | "scribble" => pure (.scribble (← nat "i"))
  | _ => throw s!"unknown session op {k}"

def jOut : Session.Out → Json
  | .contract c => Json.mkObj [("contract", OpsAlg.jC c)]
  | .terms l => Json.mkObj [("terms", jTL l)]
  | .bool b => Json.mkObj [("bool", Json.bool b)]
  | .verdict v => Json.mkObj [("verdict", jVerdict v)]
  | .num q => Json.mkObj [("num", match q with | some x => jRat x | none => Json.null)]
  | .err e => Json.mkObj [("err", jErr e)]
  | .unit => Json.mkObj [("unit", Json.null)]

def envO (O : Oracle) (hs : List OpsElim.Hint) (b : Bool) : Session.Env :=
  { P := OpsAlg.primsO O hs [] b, O := O, tie := fun _ => b, tac := PolyAlg.realTac O b (OpsElim.hintFn hs []) }

def env (hs : List OpsElim.Hint) (b : Bool) : Session.Env := envO theOracle hs b

def handleSession (op : String) (j : Json) : Option (Except String Json) :=
  match op with
  | "session" => some do
    let pool ← (← (← j.getObjVal? "pool").getArr?).toList.mapM OpsAlg.getC
    let ops ← (← (← j.getObjVal? "ops").getArr?).toList.mapM getOp
    let hs ← OpsElim.getHints j
    let r1 := Session.run (env hs true) pool ops
    let r2 := Session.run (env hs false) pool ops
    let n1 := Session.run (envO (oracleShift (-nearD)) hs true) pool ops
    let n2 := Session.run (envO (oracleShift nearD) hs false) pool ops
    let n3 := Session.run (envO oracleBox hs true) pool ops
    let n4 := Session.run (envO oracleBox hs false) pool ops
    pure (Json.mkObj [("outs", Json.arr (r1.2.map jOut).toArray), ("alt", Json.arr (r2.2.map jOut).toArray),
                      ("near", Json.arr #[Json.arr (n1.2.map jOut).toArray, Json.arr (n2.2.map jOut).toArray,
                                          Json.arr (n3.2.map jOut).toArray, Json.arr (n4.2.map jOut).toArray])])
  | _ => none

end OpsSession
