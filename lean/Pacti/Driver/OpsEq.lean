import Pacti.Driver.Wire
import Pacti.Driver.OpsPoly
import Pacti.Model.Eq
/-
  Driver ops of C19 (equality / hashing / copying).

  Wire: a number is an exact rational string plus a sign-of-zero flag:
    term      {"c":[[var,"n/d"] | [var,"n/d",true]…], "k":"n/d", "kz":bool?}      (flag true = the double is -0.0)
    tl        [term…]
    contract  {"ins":[var…],"outs":[var…],"a":tl,"g":tl}
    compound  {"ins":[var…],"outs":[var…],"a":[tl…],"g":[tl…]}
  Coefficient lists arrive in dict insertion order and go through the model's constructor `Term.mk'`.

  op "eq_matrix" {"kind":"term"|"tl"|"contract"|"compound","objs":[o₁…oₙ]} answers, for all ordered pairs,
    "eq"[i][j]  = model `oᵢ == oⱼ`   (compound: null when the answer depends on a refinement inside the tolerance band)
    "heq"[i][j] = model "hash(oᵢ) = hash(oⱼ)" for collision-free hash functions (absent for compound: unhashable)
    "copy"[i]   = [o == o.copy(), o.copy() == o, hashes equal]   (term, tl)
-/
open Lean Wire

namespace OpsEq
open EqModel

def getFNum (q : Json) (flag : Option Json) : Except String FNum := do
  let r ← getRat q
  let z ← match flag with
    | some (.bool b) => pure b
    | some .null => pure false
    | none => pure false
    | some _ => throw "sign-of-zero flag must be a Boolean"
  if z && r != 0 then throw "sign-of-zero flag on a non-zero number"
  pure ⟨r, z⟩

def getETerm (j : Json) : Except String (Term FNum) := do
  let arr ← (← j.getObjVal? "c").getArr?
  let cs ← arr.toList.mapM fun p => do
    let pr ← p.getArr?
    if pr.size != 2 && pr.size != 3 then throw "coefficient entry must be [var, num] or [var, num, negzero]"
    let x ← pr[0]!.getNat?
    let c ← getFNum pr[1]! (if pr.size == 3 then some pr[2]! else none)
    pure (x, c)
  if !(cs.map (·.1)).Nodup then throw "repeated key in a coefficient dict"
  let k ← getFNum (← j.getObjVal? "k") ((j.getObjVal? "kz").toOption)
  pure (Term.mk' cs k)

def getETL (j : Json) : Except String (TList FNum) := do
  (← j.getArr?).toList.mapM getETerm

def getEContract (j : Json) : Except String (Contract FNum) := do
  pure ⟨← getVars (← j.getObjVal? "ins"), ← getVars (← j.getObjVal? "outs"), ← getETL (← j.getObjVal? "a"), ← getETL (← j.getObjVal? "g")⟩

def getECompound (j : Json) : Except String (Compound (TList FNum)) := do
  let nested (k : String) : Except String (List (TList FNum)) := do
    (← (← j.getObjVal? k).getArr?).toList.mapM getETL
  pure ⟨← getVars (← j.getObjVal? "ins"), ← getVars (← j.getObjVal? "outs"), ← nested "a", ← nested "g"⟩

/-- the polyhedron a term list denotes (sign of zero forgotten), for the refinement inside compound equality -/
def toPTL (l : TList FNum) : TL := l.map fun t => PTerm.mk' (t.coeffs.map fun p => (p.1, p.2.q)) t.const.q

def matrix {α} (xs : List α) (f : α → α → Json) : Json :=
  Json.arr (xs.map fun x => Json.arr (xs.map fun y => f x y).toArray).toArray

def termHashEq (s t : Term FNum) : Bool := Term.hash drvName drvHashers s == Term.hash drvName drvHashers t
def tlHashEq (s t : TList FNum) : Bool := TList.hash drvName drvHashers s == TList.hash drvName drvHashers t
def contractHashEq (s t : Contract FNum) : Bool := Contract.hash drvName drvHashers s == Contract.hash drvName drvHashers t

/-- all refinement verdicts needed by a family of compound contracts, computed once -/
def refTable (ls : List (TList FNum)) : Except Err (List ((TList FNum × TList FNum) × Poly.Verdict)) :=
  (ls.flatMap fun x => ls.map fun y => (x, y)).mapM fun p => do
    let v ← Poly.refinesTL theOracle (toPTL p.1) (toPTL p.2)
    pure (p, v)

def tlSame (x y : TList FNum) : Bool :=
  x.length == y.length && (x.zip y).all fun p => p.1.coeffs == p.2.coeffs && p.1.const == p.2.const

def lookupV (tab : List ((TList FNum × TList FNum) × Poly.Verdict)) (x y : TList FNum) : Poly.Verdict :=
  match tab.find? (fun e => tlSame e.1.1 x && tlSame e.1.2 y) with
  | some e => e.2
  | none => .gray

end OpsEq

open OpsEq EqModel in
/-- ops of C19; `none` = not one of mine -/
def handleEq (op : String) (j : Json) : Option (Except String Json) :=
  match op with
  | "eq_matrix" => some do
    let kind ← (← j.getObjVal? "kind").getStr?
    let objs ← (← j.getObjVal? "objs").getArr?
    match kind with
    | "term" =>
      let xs ← objs.toList.mapM getETerm
      pure (Json.mkObj [("ok", Json.mkObj [
        ("eq", matrix xs fun x y => Json.bool (Term.eq x y)),
        ("heq", matrix xs fun x y => Json.bool (termHashEq x y)),
        ("copy", Json.arr (xs.map fun x => Json.arr #[Json.bool (Term.eq x x.copy), Json.bool (Term.eq x.copy x),
            Json.bool (termHashEq x x.copy)]).toArray)])])
    | "tl" =>
      let xs ← objs.toList.mapM getETL
      pure (Json.mkObj [("ok", Json.mkObj [
        ("eq", matrix xs fun x y => Json.bool (TList.eq x y)),
        ("heq", matrix xs fun x y => Json.bool (tlHashEq x y)),
        ("copy", Json.arr (xs.map fun x => Json.arr #[Json.bool (TList.eq x x.copy), Json.bool (TList.eq x.copy x),
            Json.bool (tlHashEq x x.copy)]).toArray)])])
    | "contract" =>
      let xs ← objs.toList.mapM getEContract
      pure (Json.mkObj [("ok", Json.mkObj [
        ("eq", matrix xs fun x y => Json.bool (Contract.eq x y)),
        ("heq", matrix xs fun x y => Json.bool (contractHashEq x y))])])
    | "compound" =>
      let xs ← objs.toList.mapM getECompound
      let lists := xs.flatMap fun c => c.a ++ c.g
      match refTable lists with
      | .error e => pure (Json.mkObj [("err", jErr e)])
      | .ok tab =>
        let opt : TList FNum → TList FNum → Bool := fun x y => lookupV tab x y != .no
        let pes : TList FNum → TList FNum → Bool := fun x y => lookupV tab x y == .yes
        pure (Json.mkObj [("ok", Json.mkObj [
          ("eq", matrix xs fun x y =>
            let a := Compound.eq opt x y
            let b := Compound.eq pes x y
            if a == b then Json.bool a else Json.null)])])
    | k => throw s!"eq_matrix: unknown kind {k}"
  | _ => none
