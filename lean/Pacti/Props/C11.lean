import Pacti.Proofs.Eval
import Pacti.Proofs.Refine
/-!
# C11 — behaviour membership and emptiness agree with exact arithmetic

Property theorems only (helper lemmas live in `Pacti/Proofs`).  `valOf b` is the valuation given by the
behaviour `b`; `O` is any LP oracle whose answers carry certificates accepted by the proved checkers
(`checkedOracle_certified` shows the driver's oracle is one, for every underlying solver).
-/
namespace Pacti.C11
open Poly

/-- A behaviour assigning every constrained variable is contained exactly when it satisfies every
    inequality (boundary points included: `holds` is `≤`). -/
theorem contains_iff (l : TL) (b : List (Var × Rat)) (hcov : ∀ x ∈ l.vars, x ∈ b.map (·.1)) :
    containsBehavior l b = .ok true ↔ TL.holds l (valOf b) := by
  have hd : (Gen.list_diff l.vars (b.map (·.1))).isEmpty = true := (Gen.list_diff_isEmpty_iff _ _).mpr hcov
  unfold containsBehavior
  simp only [hd, Bool.not_true, Bool.false_eq_true, ↓reduceIte]
  rw [← evaluate_ok_iff l b hcov]
  cases h : evaluate l b with
  | ok r => simp
  | error e => simp

/-- …and is reported not contained (not an error) when it violates one. -/
theorem contains_false_iff (l : TL) (b : List (Var × Rat)) (hcov : ∀ x ∈ l.vars, x ∈ b.map (·.1)) :
    containsBehavior l b = .ok false ↔ ¬ TL.holds l (valOf b) := by
  have hd : (Gen.list_diff l.vars (b.map (·.1))).isEmpty = true := (Gen.list_diff_isEmpty_iff _ _).mpr hcov
  unfold containsBehavior
  simp only [hd, Bool.not_true, Bool.false_eq_true, ↓reduceIte]
  rw [← evaluate_ok_iff l b hcov]
  cases h : evaluate l b with
  | ok r => simp
  | error e => simp

/-- `ValueError` exactly when a constrained variable is left unassigned. -/
theorem contains_err_iff (l : TL) (b : List (Var × Rat)) :
    (∃ x ∈ l.vars, x ∉ b.map (·.1)) ↔ containsBehavior l b = .error .valueError := by
  unfold containsBehavior
  by_cases hd : (Gen.list_diff l.vars (b.map (·.1))).isEmpty = true
  · have hcov := (Gen.list_diff_isEmpty_iff _ _).mp hd
    simp only [hd, Bool.not_true, Bool.false_eq_true, ↓reduceIte]
    constructor
    · rintro ⟨x, hx, hn⟩; exact absurd (hcov x hx) hn
    · intro h; split at h <;> cases h
  · simp only [hd, Bool.not_false, ↓reduceIte, iff_true]
    by_contra hn
    apply hd
    apply (Gen.list_diff_isEmpty_iff _ _).mpr
    intro x hx
    by_contra hx'
    exact hn ⟨x, hx, hx'⟩

/-- A list is reported empty exactly when no behaviour satisfies it — also when some or all of its rows are
    variable-free (`0 ≤ k`): since the repair of `is_polytope_empty` for matrices without columns the hypothesis
    `Proper` of earlier versions of this theorem is gone.  Checks only against a source whose `is_polytope_empty`
    answers a matrix without columns by the signs of the constants (`Gen.emptyNoColsBySign`, read off the source on
    every run: `rfl` below). -/
theorem isEmpty_iff (O : Oracle) (hO : O.Certified) (l : TL) (e : Bool)
    (h : isEmpty O l = .ok e) : e = true ↔ ¬ ∃ v, TL.holds l v := by
  unfold isEmpty at h
  cases e with
  | true =>
    simp only [true_iff]
    exact polyEmpty_true O hO _ _ (fun hn => TL.varfree_of_vars_nil l (List.length_eq_zero_iff.mp hn)) h
  | false =>
    simp only [Bool.false_eq_true, false_iff, not_not]
    by_cases hl : l = []
    · subst hl; exact ⟨fun _ => 0, TL.holds_nil _⟩
    · by_cases hn : l.vars.length = 0
      · rw [hn] at h
        exact ⟨fun _ => 0, polyEmpty_false_nocols rfl O l hl (TL.varfree_of_vars_nil l (List.length_eq_zero_iff.mp hn)) h _⟩
      · exact polyEmpty_false O hO l _ hl hn h

/-- Consistency with refinement: a behaviour contained in a list is contained in everything that list refines. -/
theorem contains_mono (O : Oracle) (hO : O.Certified) (l r : TL) (b : List (Var × Rat))
    (hr : ∀ x ∈ r.vars, x ∈ b.map (·.1))
    (hc : containsBehavior l b = .ok true) (href : refinesTL O l r = .ok .yes) :
    containsBehavior r b = .ok true := by
  have hl : ∀ x ∈ l.vars, x ∈ b.map (·.1) := by
    intro x hx
    by_contra hn
    have := (contains_err_iff l b).mp ⟨x, hx, hn⟩
    rw [this] at hc; cases hc
  rw [contains_iff r b hr]
  exact refinesTL_yes O hO l r href _ ((contains_iff l b hl).mp hc)

/-- non-vacuity: the hypotheses are met by a concrete list, behaviour and the driver's oracle class -/
example : containsBehavior [⟨[(1, 2)], 4⟩] [(1, 2)] = .ok true := by decide +kernel
example : containsBehavior [⟨[(1, 2)], 4⟩] [(1, (2 : Rat) + 1 / 1048576)] = .ok false := by decide +kernel

end Pacti.C11
