import Pacti.Proofs.Dict
/-!
# C14 — failures are reported only through the documented exceptions (dictionary / file-entry part)

Property theorems only (helper lemmas: `Pacti/Proofs/Dict.lean`; model: `Pacti/Model/Dict.lean`).

* `J` is the type of *all* JSON values; `readFile cfg E j` is `read_contracts_from_file` after `json.load`,
  `readEntry cfg E j` its two loop bodies for one element, `fromDict`, `validateContractDict` the public
  functions of the same names.  Every way the Python code can fail on a JSON value is an explicit
  `.error (.py "KeyError" | "TypeError" | "AssertionError" | "AttributeError" | "ZeroDivisionError")`.
* `cfg : Cfg` says which tests / raises are present in the source (`Cfg.current` is read off the source by
  `tools/py2lean.py` on every run; `Cfg.pinned` is the pinned tree: none of them).
* `E : Ext` is what other properties cover: the term and contract constructors and the grammar.  `E.Documented`
  is the assumption that they raise only documented errors (the grammar may let the `ZeroDivisionError` of its
  constant-folding parse actions through — `Arith` below shows that is the only fault constant arithmetic has).
* `decodeEntry`, `decodeMachine`, … are the *specification*: plain pattern matching that says which JSON values
  have all required fields of the right kind, and `build…` is the constructor call on exactly those fields.

The full-strength statements hold for the repaired validation (`cfg.allRepaired`) and are **false for the pinned
code**: `…_counterexample_pinned` below are `decide`d (resp. `rfl`, for every environment) witnesses, one per
escaping class.
-/
namespace Pacti.C14
open Dict

variable {T C CC : Type}

/-- **Only documented errors, for every JSON value.**  Whatever `json.load` returned — not only single-field
    faults of valid files — the repaired `read_contracts_from_file` either returns or raises one of
    ContractFormatError, ValueError, IncompatibleArgsError, the syntax error, the convexity error. -/
theorem documented_errors_dict (cfg : Cfg) (hc : cfg.allRepaired = true) (E : Ext T C CC) (hE : E.Documented)
    (j : J) (e : Err) (h : readFile cfg E j = .error e) :
    e ∈ [Err.contractFormat, .valueError, .incompatibleArgs, .syntax, .convex] := by
  have hdoc : documented e = true := by
    rw [Cfg.eq_repaired cfg hc] at h
    cases j with
    | arr l =>
      simp only [readFile] at h
      cases hp : precheckAll Cfg.repaired l with
      | error x =>
        simp only [hp] at h; cases h
        rw [precheckAll_error Cfg.repaired rfl l _ hp]; rfl
      | ok u =>
        simp only [hp] at h
        obtain ⟨x, _, hx⟩ := loadAll_error Cfg.repaired E l e hp h
        rcases readEntry_spec E x with ⟨d, _, hd⟩ | ⟨_, hd | hd⟩
        · rw [hd] at hx; exact buildEntry_doc E hE d e hx
        · rw [hd] at hx; cases hx; rfl
        · rw [hd] at hx; cases hx; rfl
    | _ => simp [readFile] at h <;> (subst h; rfl)
  cases e <;> simp_all [documented]

/-- The same for one file entry (the two loop bodies of `read_contracts_from_file` on one element). -/
theorem documented_errors_entry (cfg : Cfg) (hc : cfg.allRepaired = true) (E : Ext T C CC) (hE : E.Documented)
    (j : J) (e : Err) (h : readEntry cfg E j = .error e) :
    e ∈ [Err.contractFormat, .valueError, .incompatibleArgs, .syntax, .convex] := by
  have hdoc : documented e = true := by
    rw [Cfg.eq_repaired cfg hc] at h
    rcases readEntry_spec E j with ⟨d, _, hd⟩ | ⟨_, hd | hd⟩
    · rw [hd] at h; exact buildEntry_doc E hE d e h
    · rw [hd] at h; cases h; rfl
    · rw [hd] at h; cases h; rfl
  cases e <;> simp_all [documented]

/-- `validate_contract_dict` (both representations) rejects with `ContractFormatError` and nothing else,
    for every JSON value and every name. -/
theorem documented_errors_validate (cfg : Cfg) (hc : cfg.allRepaired = true) (j nm : J) (machine : Bool) (e : Err)
    (h : validateContractDict cfg j nm machine = .error e) : e = .contractFormat := by
  rw [Cfg.eq_repaired cfg hc] at h
  cases machine with
  | true =>
    rw [validate_machine_spec] at h
    cases hd : decodeMachine j <;> simp [hd] at h; exact h.symm
  | false =>
    rw [validate_strings_spec] at h
    cases hd : decodeStrings j <;> simp [hd] at h; exact h.symm

/-- `validate_contract_dict` accepts exactly the dictionaries with all four fields of the right kind. -/
theorem validate_accepts_iff (cfg : Cfg) (hc : cfg.allRepaired = true) (j nm : J) :
    (validateContractDict cfg j nm true = .ok () ↔ (decodeMachine j).isSome = true)
    ∧ (validateContractDict cfg j nm false = .ok () ↔ (decodeStrings j).isSome = true) := by
  rw [Cfg.eq_repaired cfg hc, validate_machine_spec, validate_strings_spec]
  constructor
  · cases decodeMachine j <;> simp
  · cases decodeStrings j <;> simp

/-- `PolyhedralIoContract.from_dict` called directly (no `validate_contract_dict` before it): every JSON value is
    either read as the machine dictionary it is, or rejected with `ValueError`. -/
theorem from_dict_spec (cfg : Cfg) (hc : cfg.allRepaired = true) (E : Ext T C CC) (j : J) (s : Bool) :
    fromDict cfg E j s = match decodeMachine j with
      | some r => buildMachine E r s
      | none => .error .valueError := by
  rw [Cfg.eq_repaired cfg hc]
  cases h : decodeMachine j with
  | some r => exact fromDict_of_decode E s h
  | none => exact fromDict_reject E j s h

/-- …hence only documented errors from `from_dict`. -/
theorem documented_errors_from_dict (cfg : Cfg) (hc : cfg.allRepaired = true) (E : Ext T C CC) (hE : E.Documented)
    (j : J) (s : Bool) (e : Err) (h : fromDict cfg E j s = .error e) :
    e ∈ [Err.contractFormat, .valueError, .incompatibleArgs, .syntax, .convex] := by
  rw [from_dict_spec cfg hc] at h
  have hdoc : documented e = true := by
    cases hd : decodeMachine j with
    | none => simp [hd] at h; subst h; rfl
    | some r => simp only [hd] at h; exact hE.mk_doc _ _ _ _ _ _ h
  cases e <;> simp_all [documented]

/-- **Nothing is read as something else.**  If an entry is accepted then it has "type", a string "name" and a
    "data" dictionary with all four fields of the right kind for that type (`decodeEntry j = some d`), and the
    result is the constructor's answer on exactly those fields, with that name. -/
theorem no_misread (cfg : Cfg) (hc : cfg.allRepaired = true) (E : Ext T C CC) (j : J) (c : Loaded C CC × J)
    (h : readEntry cfg E j = .ok c) : ∃ d, decodeEntry j = some d ∧ buildEntry cfg E d = .ok c := by
  rw [Cfg.eq_repaired cfg hc] at h ⊢
  rcases readEntry_spec E j with ⟨d, hd, hr⟩ | ⟨_, hr | hr⟩
  · exact ⟨d, hd, by rw [← hr]; exact h⟩
  · rw [hr] at h; cases h
  · rw [hr] at h; cases h

/-- …and conversely a well-kinded entry is never rejected by the reader itself: the outcome *is* the
    constructor's (resp. the parser's) outcome on the fields. -/
theorem valid_entry_read (cfg : Cfg) (hc : cfg.allRepaired = true) (E : Ext T C CC) (j : J) (d : Decoded)
    (h : decodeEntry j = some d) : readEntry cfg E j = buildEntry cfg E d := by
  rw [Cfg.eq_repaired cfg hc]
  rcases readEntry_spec E j with ⟨d', hd, hr⟩ | ⟨hd, _⟩
  · rw [h] at hd; cases hd; exact hr
  · rw [h] at hd; cases hd

/-- A rejected entry is rejected with `ContractFormatError` or `ValueError` (the two classes the property names
    for malformed dictionaries). -/
theorem wrong_kind_rejected (cfg : Cfg) (hc : cfg.allRepaired = true) (E : Ext T C CC) (j : J)
    (h : decodeEntry j = none) :
    readEntry cfg E j = .error .contractFormat ∨ readEntry cfg E j = .error .valueError := by
  rw [Cfg.eq_repaired cfg hc]
  rcases readEntry_spec E j with ⟨d', hd, _⟩ | ⟨_, hr⟩
  · rw [h] at hd; cases hd
  · exact hr

/-- The file level of `no_misread`: an accepted file is a list, and its entries and the returned (contract, name)
    pairs correspond one to one. -/
theorem no_misread_file (cfg : Cfg) (hc : cfg.allRepaired = true) (E : Ext T C CC) (j : J)
    (cs : List (Loaded C CC × J)) (h : readFile cfg E j = .ok cs) :
    ∃ l, j = .arr l ∧ Rel2 (fun x c => ∃ d, decodeEntry x = some d ∧ buildEntry cfg E d = .ok c) l cs := by
  cases j with
  | arr l =>
    refine ⟨l, rfl, ?_⟩
    simp only [readFile] at h
    cases hp : precheckAll cfg l with
    | error x => simp [hp] at h
    | ok u =>
      simp only [hp] at h
      have := loadAll_ok cfg E l cs hp h
      clear h hp
      induction this with
      | nil => exact .nil
      | cons hab _ ih => exact .cons (no_misread cfg hc E _ _ hab) ih
  | _ => simp [readFile] at h

/-- From `from_dict`: an accepted value is a well-kinded machine dictionary and the result is the constructor's
    answer on its fields (zero coefficients dropped). -/
theorem no_misread_from_dict (cfg : Cfg) (hc : cfg.allRepaired = true) (E : Ext T C CC) (j : J) (s : Bool) (c : C)
    (h : fromDict cfg E j s = .ok c) : ∃ r, decodeMachine j = some r ∧ buildMachine E r s = .ok c := by
  rw [from_dict_spec cfg hc] at h
  cases hd : decodeMachine j with
  | none => simp [hd] at h
  | some r => exact ⟨r, rfl, by simpa [hd] using h⟩

/-! ## Constant arithmetic of the grammar -/

theorem applyAll_errors : ∀ (l : List (Arith.Op × Rat)) (a : Rat) (x : Err), Arith.applyAll a l = .error x → x = eZeroDiv
  | [], a, x, h => by simp [Arith.applyAll] at h
  | (op, b) :: r, a, x, h => by
    simp only [Arith.applyAll] at h
    cases h1 : Arith.apply op a b with
    | error y =>
      simp only [h1] at h; cases h
      cases op <;> simp [Arith.apply] at h1
      split at h1
      · cases h1; rfl
      · cases h1
    | ok c => simp only [h1] at h; exact applyAll_errors r c x h

mutual
/-- The only fault of the grammar's constant folding is a division by zero. -/
theorem arith_errors : ∀ (a : Arith.AExp) (x : Err), Arith.eval a = .error x → x = eZeroDiv
  | .num q, x, h => by simp [Arith.eval] at h
  | .chain first rest, x, h => by
    simp only [Arith.eval] at h
    cases h1 : Arith.eval first with
    | error y => simp only [h1] at h; cases h; exact arith_errors first _ h1
    | ok a =>
      simp only [h1] at h
      cases h2 : Arith.evalRest rest with
      | error y => simp only [h2] at h; cases h; exact arith_errors_rest rest _ h2
      | ok bs =>
        simp only [h2] at h
        cases bs with
        | nil => simp at h
        | cons p r =>
          obtain ⟨op, b⟩ := p
          simp only at h
          split at h
          · exact applyAll_errors _ _ _ h
          · cases op <;> simp [Arith.apply] at h
            split at h
            · cases h; rfl
            · cases h
theorem arith_errors_rest : ∀ (l : List (Arith.Op × Arith.AExp)) (x : Err), Arith.evalRest l = .error x → x = eZeroDiv
  | [], x, h => by simp [Arith.evalRest] at h
  | (op, a) :: r, x, h => by
    simp only [Arith.evalRest] at h
    cases h1 : Arith.eval a with
    | error y => simp only [h1] at h; cases h; exact arith_errors a _ h1
    | ok b =>
      simp only [h1] at h
      cases h2 : Arith.evalRest r with
      | error y => simp only [h2] at h; cases h; exact arith_errors_rest r _ h2
      | ok bs => simp [h2] at h
end

/-- With the handler in `polyhedral_termlist_from_string`, a faulty constant expression is a `ValueError`. -/
theorem documented_errors_arith (cfg : Cfg) (hc : cfg.catchZeroDiv = true) (a : Arith.AExp) (x : Err)
    (h : Arith.evalCaught cfg a = .error x) : x = .valueError := by
  simp only [Arith.evalCaught] at h
  cases h1 : Arith.eval a with
  | ok q => simp [h1] at h
  | error y =>
    have := arith_errors a y h1
    subst this
    simp [h1, hc] at h
    exact h.symm

/-! ## The pinned code: the full statements are false

Each witness is stated twice where possible: for **every** environment `E` (by `rfl`: the escape happens before
the constructors or the grammar are consulted) and `decide`d on the concrete environment `E0`. -/

/-- well-formed pieces used by the witnesses -/
def okData : List (String × J) :=
  [("input_vars", .arr [.str "i"]), ("output_vars", .arr [.str "o"]),
   ("assumptions", .arr [.obj [("constant", .num 2), ("coefficients", .obj [("i", .num 1)])]]),
   ("guarantees", .arr [.obj [("constant", .num 3), ("coefficients", .obj [("o", .num 1)])]])]

def withAssumption (clause : J) : J :=
  .obj [("input_vars", .arr [.str "i"]), ("output_vars", .arr [.str "o"]), ("assumptions", .arr [clause]),
        ("guarantees", .arr [])]

def machineEntry (data : J) : J :=
  .obj [("type", .str "PolyhedralIoContract_machine"), ("name", .str "c"), ("data", data)]

/-- missing "constant": the `ContractFormatError` is built but not raised, `clause["constant"]` is a `KeyError` -/
theorem documented_errors_dict_counterexample_pinned_missing_constant :
    errOf (readFile Cfg.pinned E0 (.arr [machineEntry (withAssumption (.obj [("coefficients", .obj [("i", .num 1)])]))]))
      = some (.py "KeyError") := by decide

theorem documented_errors_dict_counterexample_pinned_missing_constant_all (E : Ext T C CC) :
    readFile Cfg.pinned E (.arr [machineEntry (withAssumption (.obj [("coefficients", .obj [("i", .num 1)])]))])
      = .error (.py "KeyError") := rfl

/-- `"coefficients": 3` given to `from_dict`: `(3).items()` is an `AttributeError` -/
theorem documented_errors_dict_counterexample_pinned_coefficients_3 :
    errOf (fromDict Cfg.pinned E0 (withAssumption (.obj [("constant", .num 1), ("coefficients", .num 3)])) true)
      = some (.py "AttributeError") := by decide

theorem documented_errors_dict_counterexample_pinned_coefficients_3_all (E : Ext T C CC) (s : Bool) :
    fromDict Cfg.pinned E (withAssumption (.obj [("constant", .num 1), ("coefficients", .num 3)])) s
      = .error (.py "AttributeError") := rfl

/-- clause = "abc": `"abc"["constant"]` is a `TypeError` -/
theorem documented_errors_dict_counterexample_pinned_clause_string :
    errOf (readFile Cfg.pinned E0 (.arr [machineEntry (withAssumption (.str "abc"))])) = some (.py "TypeError") := by
  decide

theorem documented_errors_dict_counterexample_pinned_clause_string_all (E : Ext T C CC) :
    validateContractDict Cfg.pinned (withAssumption (.str "abc")) (.str "c") true = .error (.py "TypeError")
    ∧ readFile Cfg.pinned E (.arr [machineEntry (withAssumption (.str "abc"))]) = .error (.py "TypeError") :=
  ⟨rfl, rfl⟩

/-- constant `null` passes validation; `float(None)` is a `TypeError` -/
theorem documented_errors_dict_counterexample_pinned_constant_null :
    validateContractDict Cfg.pinned (withAssumption (.obj [("constant", .null), ("coefficients", .obj [])])) (.str "c") true
      = .ok ()
    ∧ errOf (readFile Cfg.pinned E0
        (.arr [machineEntry (withAssumption (.obj [("constant", .null), ("coefficients", .obj [])]))]))
      = some (.py "TypeError") := by decide

theorem documented_errors_dict_counterexample_pinned_constant_null_all (E : Ext T C CC) :
    readFile Cfg.pinned E (.arr [machineEntry (withAssumption (.obj [("constant", .null), ("coefficients", .obj [])]))])
      = .error (.py "TypeError") := rfl

/-- entry without "type": `assert "type" in entry` -/
theorem documented_errors_dict_counterexample_pinned_no_type :
    errOf (readFile Cfg.pinned E0 (.arr [.obj [("name", .str "c"), ("data", .obj okData)]])) = some (.py "AssertionError") := by
  decide

theorem documented_errors_dict_counterexample_pinned_no_type_all (E : Ext T C CC) :
    readFile Cfg.pinned E (.arr [.obj [("name", .str "c"), ("data", .obj okData)]]) = .error (.py "AssertionError") := rfl

/-- entry that is not a dictionary: `assert isinstance(entry, dict)` -/
theorem documented_errors_dict_counterexample_pinned_entry_not_dict :
    errOf (readFile Cfg.pinned E0 (.arr [.num 3])) = some (.py "AssertionError") := by decide

theorem documented_errors_dict_counterexample_pinned_entry_not_dict_all (E : Ext T C CC) :
    readFile Cfg.pinned E (.arr [.num 3]) = .error (.py "AssertionError") := rfl

/-- file data that is not a list: `assert isinstance(file_data, list)` -/
theorem documented_errors_dict_counterexample_pinned_not_list :
    errOf (readFile Cfg.pinned E0 (.obj [])) = some (.py "AssertionError") := by decide

theorem documented_errors_dict_counterexample_pinned_not_list_all (E : Ext T C CC) :
    readFile Cfg.pinned E (.obj []) = .error (.py "AssertionError") := rfl

/-- entry without "data": `entry["data"]` is a `KeyError` -/
theorem documented_errors_dict_counterexample_pinned_no_data (E : Ext T C CC) :
    readFile Cfg.pinned E (.arr [.obj [("type", .str "PolyhedralIoContract"), ("name", .str "c")]])
      = .error (.py "KeyError") := rfl

/-- compound entry whose data lacks "assumptions": `from_strings(**data)` is a `TypeError` -/
theorem documented_errors_dict_counterexample_pinned_compound (E : Ext T C CC) :
    readFile Cfg.pinned E (.arr [.obj [("type", .str "PolyhedralIoContractCompound"), ("name", .str "c"),
      ("data", .obj [("guarantees", .arr []), ("input_vars", .arr []), ("output_vars", .arr [])])]])
      = .error (.py "TypeError") := rfl

/-- `"(1/0)x <= 1"`: the `ZeroDivisionError` of the parse action escapes (environment: the grammar answers that
    string with the fault `arith_errors` allows) -/
theorem documented_errors_dict_counterexample_pinned_zero_division :
    errOf (readFile Cfg.pinned (tableExt [("(1/0)x <= 1", .error eZeroDiv)] none [])
      (.arr [.obj [("type", .str "PolyhedralIoContract"), ("name", .str "c"),
        ("data", .obj [("assumptions", .arr []), ("guarantees", .arr [.str "(1/0)x <= 1"]), ("input_vars", .arr []),
          ("output_vars", .arr [.str "x"])])]]))
      = some (.py "ZeroDivisionError")
    ∧ Arith.evalCaught Cfg.pinned (.chain (.num 1) [(.div, .num 0)]) = .error (.py "ZeroDivisionError")
    ∧ Arith.evalCaught Cfg.pinned (.chain (.num 1) [(.div, .chain (.num 2) [(.sub, .num 2)])])
        = .error (.py "ZeroDivisionError") := by decide +kernel

/-- `no_misread` is false for the pinned code: a constant `true` is accepted and read as the number 1, a clause
    list `""` given to `from_dict` is read as "no assumptions", and a compound entry with `"assumptions": null`
    is read as the contract without assumptions. -/
theorem no_misread_counterexample_pinned :
    (decodeEntry (machineEntry (withAssumption (.obj [("constant", .bool true), ("coefficients", .obj [("i", .num 1)])]))) = none
      ∧ readEntry Cfg.pinned E0 (machineEntry (withAssumption (.obj [("constant", .bool true), ("coefficients", .obj [("i", .num 1)])])))
        = .ok (.simple ⟨[([("i", 1)], 1)], [], ["i"], ["o"], true⟩, .str "c"))
    ∧ (decodeMachine (.obj [("input_vars", .arr []), ("output_vars", .arr []), ("assumptions", .str ""), ("guarantees", .arr [])]) = none
      ∧ fromDict Cfg.pinned E0 (.obj [("input_vars", .arr []), ("output_vars", .arr []), ("assumptions", .str ""), ("guarantees", .arr [])]) false
        = .ok ⟨[], [], [], [], false⟩)
    ∧ (decodeEntry (.obj [("type", .str "PolyhedralIoContractCompound"), ("name", .str "c"),
          ("data", .obj [("assumptions", .null), ("guarantees", .arr []), ("input_vars", .arr []), ("output_vars", .arr [])])]) = none
      ∧ readEntry Cfg.pinned E0 (.obj [("type", .str "PolyhedralIoContractCompound"), ("name", .str "c"),
          ("data", .obj [("assumptions", .null), ("guarantees", .arr []), ("input_vars", .arr []), ("output_vars", .arr [])])])
        = .ok (.compound ⟨[], [], [], []⟩, .str "c")) :=
  ⟨⟨rfl, rfl⟩, ⟨rfl, rfl⟩, ⟨rfl, rfl⟩⟩

/-! ## Each repair is necessary -/

/-- environment in which the grammar answers `"(1/0)x <= 1"` with the division fault (and nothing else parses) -/
def Ez : Ext RawTerm RawContract RawCompound := tableExt [("(1/0)x <= 1", .error eZeroDiv)] none []

theorem Ez_documented : Ez.Documented :=
  ⟨fun s e h => by
      simp only [Ez, tableExt, List.find?] at h
      cases hs : ("(1/0)x <= 1" == s) with
      | true => simp [hs] at h; subst h; exact .inr rfl
      | false => simp [hs] at h; subst h; exact .inl rfl,
   fun a g i o s e h => by simp [Ez, tableExt] at h,
   fun a g i o e h => by simp [Ez, tableExt] at h⟩

def wDictTest : J := .arr [.obj [("type", .str "PolyhedralIoContract_machine"), ("name", .str "c"), ("data",
  .obj [("input_vars", .arr []), ("output_vars", .arr []), ("assumptions", .arr [.arr [.str "constant"]]), ("guarantees", .arr [])])]]
def wRaises : J := .arr [.obj [("type", .str "PolyhedralIoContract_machine"), ("name", .str "c"), ("data",
  .obj [("input_vars", .arr []), ("output_vars", .arr []), ("assumptions", .arr [.obj [("coefficients", .obj [])]]), ("guarantees", .arr [])])]]
def wNum : J := .arr [.obj [("type", .str "PolyhedralIoContract_machine"), ("name", .str "c"), ("data",
  .obj [("input_vars", .arr []), ("output_vars", .arr []), ("assumptions", .arr [.obj [("constant", .null), ("coefficients", .obj [])]]), ("guarantees", .arr [])])]]
def wFile : J := .num 3
def wCompound : J := .arr [.obj [("type", .str "PolyhedralIoContractCompound"), ("name", .str "c"), ("data",
  .obj [("guarantees", .arr []), ("input_vars", .arr []), ("output_vars", .arr [])])]]
def wFromDict : J := .obj [("input_vars", .arr []), ("output_vars", .arr []), ("assumptions", .arr [.obj [("constant", .num 1), ("coefficients", .num 3)]]), ("guarantees", .arr [])]
def wZero : J := .arr [.obj [("type", .str "PolyhedralIoContract"), ("name", .str "c"), ("data",
  .obj [("assumptions", .arr []), ("guarantees", .arr [.str "(1/0)x <= 1"]), ("input_vars", .arr []), ("output_vars", .arr [.str "x"])])]]

/-- an undocumented exception escapes from `read_contracts_from_file` or from `from_dict` -/
def Escapes (cfg : Cfg) : Prop :=
  ∃ j k, errOf (readFile cfg Ez j) = some (.py k) ∨ errOf (fromDict cfg Ez j true) = some (.py k)

/-- **Every repair is needed.**  For each of the seven spots, as long as it is unrepaired an undocumented
    exception escapes on a concrete JSON value — whatever the state of the other six. -/
theorem repairs_necessary (cfg : Cfg) (h : cfg.allRepaired = false) : Escapes cfg := by
  obtain ⟨a, b, c, d, e, f, g⟩ := cfg
  cases a
  · exact ⟨wDictTest, "TypeError", .inl (by cases b <;> cases c <;> cases d <;> cases e <;> cases f <;> cases g <;> decide)⟩
  cases b
  · exact ⟨wRaises, "KeyError", .inl (by cases c <;> cases d <;> cases e <;> cases f <;> cases g <;> decide)⟩
  cases c
  · exact ⟨wNum, "TypeError", .inl (by cases d <;> cases e <;> cases f <;> cases g <;> decide)⟩
  cases d
  · exact ⟨wFile, "AssertionError", .inl (by cases e <;> cases f <;> cases g <;> decide)⟩
  cases e
  · exact ⟨wCompound, "TypeError", .inl (by cases f <;> cases g <;> decide)⟩
  cases f
  · exact ⟨wFromDict, "AttributeError", .inr (by cases g <;> decide)⟩
  cases g
  · exact ⟨wZero, "ZeroDivisionError", .inl (by decide)⟩
  · simp [Cfg.allRepaired] at h


theorem errOf_some {α : Type} {x : Except Err α} {e : Err} (h : errOf x = some e) : x = .error e := by
  cases x <;> simp [errOf] at h; subst h; rfl

/-- **The property holds of a source configuration exactly when every repair is present**: only documented errors
    from `read_contracts_from_file` and `from_dict`, for all JSON values and all environments whose constructors and
    grammar behave, iff `allRepaired`.  (`Cfg.current`, read off the source on every run, is one such `cfg`.) -/
theorem documented_errors_iff (cfg : Cfg) :
    (∀ E : Ext RawTerm RawContract RawCompound, E.Documented → ∀ (j : J) (e : Err),
        (readFile cfg E j = .error e ∨ fromDict cfg E j true = .error e) → documented e = true)
    ↔ cfg.allRepaired = true := by
  constructor
  · intro H
    cases hc : cfg.allRepaired with
    | true => rfl
    | false =>
      obtain ⟨j, k, hk | hk⟩ := repairs_necessary cfg hc
      · have := H Ez Ez_documented j _ (.inl (errOf_some hk)); simp [documented] at this
      · have := H Ez Ez_documented j _ (.inr (errOf_some hk)); simp [documented] at this
  · intro hc E hE j e h
    have hm : e ∈ [Err.contractFormat, .valueError, .incompatibleArgs, .syntax, .convex] := by
      rcases h with h | h
      · exact documented_errors_dict cfg hc E hE j e h
      · exact documented_errors_from_dict cfg hc E hE j true e h
    cases e <;> simp_all [documented]

/-! ## Non-vacuity -/

/-- the assumption on the environment is satisfiable (by the driver's table environments with documented answers) -/
example : (E0).Documented :=
  ⟨fun s e h => by simp [E0, tableExt] at h; subst h; exact .inl rfl,
   fun a g i o s e h => by simp [E0, tableExt] at h,
   fun a g i o e h => by simp [E0, tableExt] at h⟩

/-- a valid machine entry is read as what it denotes, on the repaired configuration -/
example : readEntry Cfg.repaired E0 (machineEntry (.obj okData))
    = .ok (.simple ⟨[([("i", 1)], 2)], [([("o", 1)], 3)], ["i"], ["o"], true⟩, .str "c") := by rfl

/-- the witnesses above are all rejected with documented errors once repaired -/
example : errOf (readFile Cfg.repaired E0 (.arr [machineEntry (withAssumption (.str "abc"))])) = some .contractFormat := by
  decide
example : errOf (readFile Cfg.repaired E0 (.arr [.num 3])) = some .contractFormat := by decide
example : errOf (fromDict Cfg.repaired E0 (withAssumption (.obj [("constant", .num 1), ("coefficients", .num 3)])) true)
    = some .valueError := by decide
example : Arith.evalCaught Cfg.repaired (.chain (.num 1) [(.div, .num 0)]) = .error .valueError := by decide
example : Arith.eval (.chain (.num 8) [(.div, .num 2), (.div, .num 2)]) = .ok (if Gen.arithFold then 2 else 4) := by decide +kernel

end Pacti.C14
