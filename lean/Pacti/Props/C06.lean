import Pacti.Proofs.Algebra
/-!
# C06 — results are well formed with the prescribed interface; bad interfaces are rejected

All statements are about the interface computations GENERATED from `iocontract.py` (`Gen.compose_iface`,
`Gen.quotient_iface`, `Gen.merge_iface`, `Gen.init_rejects`, `Gen.shares_io_with`) as used by the algebra model;
they are re-proved on every run against what the source says now.  `P` is arbitrary; the only thing asked of it
is that `simplify` returns a selection of its operand (`SimpSelects`, which the polyhedral `simplify` is proved to
do in C07).
-/
namespace Pacti.C06
open Alg
variable {T : Type} [DecidableEq T] (vars : T → List Var) (P : Prims T)

def WF (c : Contract T) : Prop :=
  c.ins.Nodup ∧ c.outs.Nodup ∧ (∀ x ∈ c.ins, x ∉ c.outs) ∧
  (∀ x ∈ varsOf vars c.a, x ∈ c.ins) ∧ (∀ x ∈ varsOf vars c.g, x ∈ c.ins ∨ x ∈ c.outs)

/-- well-formedness of constructor ARGUMENTS, as the property states it -/
def ArgsWF (a g : List T) (ins outs : List Var) : Prop :=
  ins.Nodup ∧ outs.Nodup ∧ (∀ x ∈ ins, x ∉ outs) ∧ (∀ x ∈ varsOf vars a, x ∈ ins) ∧ (∀ x ∈ varsOf vars g, x ∈ ins ∨ x ∈ outs)

def SimpSelects (P : Prims T) : Prop := ∀ s l Γ r, P.simplify s l Γ = .ok r → ∀ t ∈ r, t ∈ l

theorem mem_varsOf_aux (l : List T) (acc : List Var) (x : Var) :
    x ∈ l.foldl (fun acc t => Gen.list_union acc (vars t)) acc ↔ x ∈ acc ∨ ∃ t ∈ l, x ∈ vars t := by
  induction l generalizing acc with
  | nil => simp
  | cons t l ih =>
    simp only [List.foldl_cons, ih, Gen.mem_list_union, List.mem_cons, exists_eq_or_imp]
    tauto

theorem mem_varsOf (l : List T) (x : Var) : x ∈ varsOf vars l ↔ ∃ t ∈ l, x ∈ vars t := by
  unfold varsOf; rw [mem_varsOf_aux]; simp

theorem init_rejects_iff (a g : List T) (ins outs : List Var) :
    (Gen.init_rejects (varsOf vars a) (varsOf vars g) ins outs).any id = false ↔ ArgsWF vars a g ins outs := by
  unfold Gen.init_rejects ArgsWF
  simp only [List.any_cons, List.any_nil, id, Bool.or_false, Bool.or_eq_false_iff, Bool.not_eq_eq_eq_not, Bool.not_false,
    decide_eq_true_eq, Gen.list_intersection_isEmpty_iff, Gen.list_diff_isEmpty_iff, Gen.mem_list_union]

/-- the constructor accepts exactly the well-formed arguments (when it does not accept, and the arguments are
    ill formed, the error is `IncompatibleArgsError`) -/
theorem mkContract_rejects (a g : List T) (ins outs : List Var) (s : Bool) (h : ¬ ArgsWF vars a g ins outs) :
    mkContract vars P a g ins outs s = .error .incompatibleArgs := by
  unfold mkContract
  have : (Gen.init_rejects (varsOf vars a) (varsOf vars g) ins outs).any id = true := by
    cases hh : (Gen.init_rejects (varsOf vars a) (varsOf vars g) ins outs).any id with
    | true => rfl
    | false => exact absurd ((init_rejects_iff vars a g ins outs).mp hh) h
  simp [this]

/-- every contract the constructor returns is well formed -/
theorem mkContract_ok_wf (hS : SimpSelects P) (a g : List T) (ins outs : List Var) (s : Bool) (c : Contract T)
    (h : mkContract vars P a g ins outs s = .ok c) : WF vars c ∧ c.ins = ins ∧ c.outs = outs ∧ c.a = a := by
  unfold mkContract at h
  split at h; · cases h
  rename_i hr
  have hwf := (init_rejects_iff vars a g ins outs).mp (by simpa using hr)
  obtain ⟨h1, h2, h3, h4, h5⟩ := hwf
  split at h
  · split at h
    · rename_i g' hs
      injection h with h; subst h
      refine ⟨⟨h1, h2, h3, h4, ?_⟩, rfl, rfl, rfl⟩
      intro x hx
      obtain ⟨t, ht, hxt⟩ := (mem_varsOf vars _ x).mp hx
      exact h5 x ((mem_varsOf vars _ x).mpr ⟨t, hS _ _ _ _ hs t ht, hxt⟩)
    · cases h
  · injection h with h; subst h
    exact ⟨⟨h1, h2, h3, h4, h5⟩, rfl, rfl, rfl⟩

/-! ### compose -/

/-- interface prescribed for a composition: inputs are all inputs not produced by the other contract; outputs are
    all outputs except those the other contract consumes, plus the kept ones; and the result is well formed -/
theorem compose_iface (hS : SimpSelects P) (c1 c2 c : Contract T) (keep : List Var) (simp : Bool) (ord : List Nat)
    (h : compose vars P c1 c2 keep simp ord = .ok c) :
    WF vars c ∧
    (∀ x, x ∈ c.ins ↔ (x ∈ c1.ins ∨ x ∈ c2.ins) ∧ ¬ (x ∈ c1.outs ∧ x ∈ c2.ins) ∧ ¬ (x ∈ c1.ins ∧ x ∈ c2.outs)) ∧
    (∀ x, x ∈ c.outs ↔ ((x ∈ c1.outs ∨ x ∈ c2.outs) ∧ ¬ (x ∈ c1.outs ∧ x ∈ c2.ins) ∧ ¬ (x ∈ c1.ins ∧ x ∈ c2.outs)) ∨ x ∈ keep) := by
  unfold compose at h
  simp only at h
  split at h; · cases h
  split at h; · cases h
  split at h; · cases h
  split at h; · cases h
  split at h; · cases h
  split at h; · cases h
  split at h; · cases h
  obtain ⟨hwf, hi, ho, _⟩ := mkContract_ok_wf vars P hS _ _ _ _ _ _ h
  refine ⟨hwf, ?_, ?_⟩
  · intro x; rw [hi]; simp only [Gen.compose_iface, Gen.mem_list_diff, Gen.mem_list_union, Gen.mem_list_intersection]; tauto
  · intro x; rw [ho]; simp only [Gen.compose_iface, Gen.mem_list_diff, Gen.mem_list_union, Gen.mem_list_intersection]; tauto

/-- requests without meaning are refused: a shared output, keeping a non-output, feedback onto an input that an
    assumption constrains -/
theorem compose_rejects (c1 c2 : Contract T) (keep : List Var) (simp : Bool) (ord : List Nat)
    (h : (∃ x, x ∈ c1.outs ∧ x ∈ c2.outs) ∨ (∃ x ∈ keep, x ∉ c1.outs ∧ x ∉ c2.outs) ∨
         ((∃ x, x ∈ c1.ins ∧ x ∈ c2.outs) ∧ (∃ x, x ∈ c2.ins ∧ x ∈ c1.outs) ∧
            ((∃ x, x ∈ c2.outs ∧ x ∈ varsOf vars c1.a) ∨ (∃ x, x ∈ c1.outs ∧ x ∈ varsOf vars c2.a)))) :
    compose vars P c1 c2 keep simp ord = .error .incompatibleArgs := by
  unfold compose
  simp only
  by_cases hk : (Gen.compose_iface c1.ins c1.outs c2.ins c2.outs (varsOf vars c1.a) (varsOf vars c2.a) keep).reject_keep = true
  · simp [hk]
  by_cases hio : (Gen.compose_iface c1.ins c1.outs c2.ins c2.outs (varsOf vars c1.a) (varsOf vars c2.a) keep).reject_io = true
  · simp [hk, hio]
  simp only [hk, hio, Bool.false_eq_true, ↓reduceIte]
  have hk' : ∀ x ∈ keep, x ∈ c1.outs ∨ x ∈ c2.outs := by
    have := hk
    simp only [Gen.compose_iface, Bool.not_eq_eq_eq_not, Bool.not_true, Bool.not_eq_false] at this
    intro x hx
    have := (Gen.list_diff_isEmpty_iff _ _).mp this x hx
    simpa using this
  have hio' : ∀ x ∈ c1.outs, x ∉ c2.outs := by
    have := hio
    simp only [Gen.compose_iface, Gen.can_compose_with, Bool.not_eq_eq_eq_not, Bool.not_true, Bool.not_eq_false,
      decide_eq_true_eq, List.length_eq_zero_iff] at this
    intro x hx hx2
    have hm : x ∈ Gen.list_intersection c1.outs c2.outs := (Gen.mem_list_intersection _ _ _).mpr ⟨hx, hx2⟩
    rw [this] at hm; cases hm
  rcases h with ⟨x, h1, h2⟩ | ⟨x, hx, h1, h2⟩ | ⟨⟨x, hx1, hx2⟩, ⟨y, hy1, hy2⟩, hz⟩
  · exact absurd h2 (hio' x h1)
  · rcases hk' x hx with h | h
    · exact absurd h h1
    · exact absurd h h2
  · have hfb : (Gen.compose_iface c1.ins c1.outs c2.ins c2.outs (varsOf vars c1.a) (varsOf vars c2.a) keep).branch_feedback = true := by
      simp only [Gen.compose_iface, Bool.and_eq_true, decide_eq_true_eq, Bool.or_eq_true, gt_iff_lt]
      refine ⟨⟨List.length_pos_of_mem ((Gen.mem_list_intersection _ _ x).mpr ⟨hx1, hx2⟩),
               List.length_pos_of_mem ((Gen.mem_list_intersection _ _ y).mpr ⟨hy1, hy2⟩)⟩, ?_⟩
      rcases hz with ⟨z, hz1, hz2⟩ | ⟨z, hz1, hz2⟩
      · exact Or.inl (List.length_pos_of_mem ((Gen.mem_list_intersection _ _ z).mpr ⟨hz1, hz2⟩))
      · exact Or.inr (List.length_pos_of_mem ((Gen.mem_list_intersection _ _ z).mpr ⟨hz1, hz2⟩))
    simp [composeAssumptions, hfb]

/-! ### quotient -/

theorem quotient_iface (hS : SimpSelects P) (c c1 q : Contract T) (addl : List Var) (simp : Bool) (ord : List Nat)
    (h : quotient vars P c c1 addl simp ord = .ok q) :
    WF vars q ∧
    (∀ x, x ∈ q.ins ↔ (x ∈ c.ins ∧ x ∉ c1.ins) ∨ (x ∈ c1.outs ∧ x ∉ c.outs) ∨ x ∈ addl) ∧
    (∀ x, x ∈ q.outs ↔ (x ∈ c.outs ∧ x ∉ c1.outs) ∨ (x ∈ c1.ins ∧ x ∉ c.ins)) := by
  unfold quotient at h
  simp only at h
  split at h; · cases h
  split at h; · cases h
  split at h; · cases h
  split at h; · cases h
  split at h; · cases h
  split at h; · cases h
  split at h; · cases h
  obtain ⟨hwf, hi, ho, _⟩ := mkContract_ok_wf vars P hS _ _ _ _ _ _ h
  refine ⟨hwf, ?_, ?_⟩
  · intro x; rw [hi]; simp only [Gen.quotient_iface, Gen.mem_list_diff, Gen.mem_list_union]; tauto
  · intro x; rw [ho]; simp only [Gen.quotient_iface, Gen.mem_list_diff, Gen.mem_list_union]

/-- a quotient output that the divisor reads, or additional inputs that are neither dividend inputs nor divisor
    outputs, are refused -/
theorem quotient_rejects (c c1 : Contract T) (addl : List Var) (simp : Bool) (ord : List Nat)
    (h : (∃ x, x ∈ c.outs ∧ x ∉ c1.outs ∧ x ∈ c1.ins) ∨ (∃ x ∈ addl, x ∉ c1.outs ∧ x ∉ c.ins)) :
    quotient vars P c c1 addl simp ord = .error .incompatibleArgs := by
  unfold quotient
  simp only
  by_cases hio : (Gen.quotient_iface c.ins c.outs c1.ins c1.outs addl).reject_io = true
  · simp [hio]
  by_cases ha : (Gen.quotient_iface c.ins c.outs c1.ins c1.outs addl).reject_additional = true
  · simp [hio, ha]
  exfalso
  rcases h with ⟨x, h1, h2, h3⟩ | ⟨x, hx, h1, h2⟩
  · apply hio
    simp only [Gen.quotient_iface, Gen.can_quotient_by, Bool.not_eq_eq_eq_not, Bool.not_true, decide_eq_false_iff_not,
      List.length_eq_zero_iff]
    intro hn
    have hm : x ∈ Gen.list_intersection (Gen.list_diff c.outs c1.outs) c1.ins := by simp [h1, h2, h3]
    rw [hn] at hm; cases hm
  · apply ha
    simp only [Gen.quotient_iface, Bool.not_eq_eq_eq_not, Bool.not_true]
    cases hh : (Gen.list_diff addl (Gen.list_union c1.outs c.ins)).isEmpty with
    | false => rfl
    | true =>
      have := (Gen.list_diff_isEmpty_iff _ _).mp hh x hx
      simp only [Gen.mem_list_union] at this
      rcases this with h | h
      · exact absurd h h1
      · exact absurd h h2

/-! ### merge, refines -/

theorem merge_iface (hS : SimpSelects P) (c1 c2 m : Contract T) (h : merge vars P c1 c2 = .ok m) :
    WF vars m ∧ (∀ x, x ∈ m.ins ↔ x ∈ c1.ins ∨ x ∈ c2.ins) ∧ (∀ x, x ∈ m.outs ↔ x ∈ c1.outs ∨ x ∈ c2.outs) := by
  unfold merge at h
  obtain ⟨hwf, hi, ho, _⟩ := mkContract_ok_wf vars P hS _ _ _ _ _ _ h
  refine ⟨hwf, ?_, ?_⟩
  · intro x; rw [hi]; simp [Gen.merge_iface]
  · intro x; rw [ho]; simp [Gen.merge_iface]

/-- refinement across different interfaces raises `IncompatibleArgsError` -/
theorem refines_rejects (c d : Contract T) (h : ¬ ((∀ x, x ∈ c.ins ↔ x ∈ d.ins) ∧ (∀ x, x ∈ c.outs ↔ x ∈ d.outs))) :
    refinesC P c d = .error .incompatibleArgs := by
  unfold refinesC
  have : Gen.shares_io_with c.ins c.outs d.ins d.outs = false := by
    cases hh : Gen.shares_io_with c.ins c.outs d.ins d.outs with
    | false => rfl
    | true =>
      simp only [Gen.shares_io_with, Bool.and_eq_true] at hh
      exact absurd ⟨(Gen.lists_equal_iff _ _).mp hh.1, (Gen.lists_equal_iff _ _).mp hh.2⟩ h
  simp [this]

/-! ### rename, copy -/

theorem copy_iface (hS : SimpSelects P) (c c' : Contract T) (h : copy vars P c = .ok c') :
    WF vars c' ∧ c'.ins = c.ins ∧ c'.outs = c.outs := by
  obtain ⟨hwf, hi, ho, _⟩ := mkContract_ok_wf vars P hS _ _ _ _ _ _ h
  exact ⟨hwf, hi, ho⟩

/-- a renaming that would make a variable both input and output is refused -/
theorem rename_rejects (ren : T → Var → Var → T) (c : Contract T) (s t : Var) (hne : s ≠ t)
    (h : (s ∈ c.ins ∧ t ∈ c.outs) ∨ (s ∈ c.outs ∧ t ∈ c.ins ∧ s ∉ c.ins)) :
    rename vars P ren c s t = .error .incompatibleArgs := by
  unfold rename
  rcases h with ⟨h1, h2⟩ | ⟨h1, h2, h3⟩
  · simp [hne, h1, h2]
  · simp [hne, h1, h2, h3]

theorem mem_replaceFirst (xs : List Var) (s t x : Var) (hn : xs.Nodup) (hs : s ∈ xs) :
    x ∈ replaceFirst xs s t ↔ (x ∈ xs ∧ x ≠ s) ∨ x = t := by
  induction xs with
  | nil => cases hs
  | cons y r ih =>
    have hnd := List.nodup_cons.mp hn
    unfold replaceFirst
    by_cases hy : y = s
    · subst hy
      simp only [↓reduceIte, List.mem_cons]
      constructor
      · rintro (h | h)
        · exact Or.inr h
        · exact Or.inl ⟨Or.inr h, fun e => hnd.1 (e ▸ h)⟩
      · rintro (⟨h | h, hne⟩ | h)
        · exact absurd h hne
        · exact Or.inr h
        · exact Or.inl h
    · simp only [hy, ↓reduceIte, List.mem_cons]
      have hs' : s ∈ r := by
        rcases List.mem_cons.mp hs with h | h
        · exact absurd h.symm hy
        · exact h
      rw [ih hnd.2 hs']
      constructor
      · rintro (h | ⟨h1, h2⟩ | h)
        · exact Or.inl ⟨Or.inl h, fun e => hy (h ▸ e)⟩
        · exact Or.inl ⟨Or.inr h1, h2⟩
        · exact Or.inr h
      · rintro (⟨h1 | h1, h2⟩ | h)
        · exact Or.inl h1
        · exact Or.inr (Or.inl ⟨h1, h2⟩)
        · exact Or.inr (Or.inr h)

/-- renaming an input: the old name is replaced by the new one (or just removed if the new one is already an
    input); outputs untouched; result well formed.  (The output case is symmetric, `rename_iface_out`.) -/
theorem rename_iface_in (hS : SimpSelects P) (ren : T → Var → Var → T) (c c' : Contract T) (s t : Var) (hne : s ≠ t)
    (hwf : WF vars c) (hs : s ∈ c.ins) (h : rename vars P ren c s t = .ok c') :
    WF vars c' ∧ c'.outs = c.outs ∧ (∀ x, x ∈ c'.ins ↔ (x ∈ c.ins ∧ x ≠ s) ∨ x = t) := by
  unfold rename at h
  simp only [hne, ↓reduceIte, hs] at h
  split at h; · cases h
  obtain ⟨hwf', hi, ho, _⟩ := mkContract_ok_wf vars P hS _ _ _ _ _ _ h
  refine ⟨hwf', ho, ?_⟩
  intro x; rw [hi]
  split
  · exact mem_replaceFirst c.ins s t x hwf.1 hs
  · rename_i ht
    simp only [Decidable.not_not] at ht
    rw [List.Nodup.mem_erase_iff hwf.1]
    constructor
    · rintro ⟨h1, h2⟩; exact Or.inl ⟨h2, h1⟩
    · rintro (⟨h1, h2⟩ | h1)
      · exact ⟨h2, h1⟩
      · subst h1; exact ⟨fun e => hne e.symm, ht⟩

theorem rename_iface_out (hS : SimpSelects P) (ren : T → Var → Var → T) (c c' : Contract T) (s t : Var) (hne : s ≠ t)
    (hwf : WF vars c) (hs : s ∈ c.outs) (h : rename vars P ren c s t = .ok c') :
    WF vars c' ∧ c'.ins = c.ins ∧ (∀ x, x ∈ c'.outs ↔ (x ∈ c.outs ∧ x ≠ s) ∨ x = t) := by
  have hsi : s ∉ c.ins := fun hi => hwf.2.2.1 s hi hs
  unfold rename at h
  simp only [hne, ↓reduceIte, hsi, hs] at h
  split at h; · cases h
  obtain ⟨hwf', hi, ho, _⟩ := mkContract_ok_wf vars P hS _ _ _ _ _ _ h
  refine ⟨hwf', hi, ?_⟩
  intro x; rw [ho]
  split
  · exact mem_replaceFirst c.outs s t x hwf.2.1 hs
  · rename_i ht
    simp only [Decidable.not_not] at ht
    rw [List.Nodup.mem_erase_iff hwf.2.1]
    constructor
    · rintro ⟨h1, h2⟩; exact Or.inl ⟨h2, h1⟩
    · rintro (⟨h1, h2⟩ | h1)
      · exact ⟨h2, h1⟩
      · subst h1; exact ⟨fun e => hne e.symm, ht⟩

/-- renaming an absent variable changes nothing of the interface -/
theorem rename_absent (hS : SimpSelects P) (ren : T → Var → Var → T) (c c' : Contract T) (s t : Var)
    (hs : s ∉ c.ins ∧ s ∉ c.outs) (h : rename vars P ren c s t = .ok c') :
    c'.ins = c.ins ∧ c'.outs = c.outs ∧ c'.a = c.a := by
  unfold rename at h
  by_cases hne : s = t
  · simp only [hne, ↓reduceIte] at h
    obtain ⟨_, hi, ho, ha⟩ := mkContract_ok_wf vars P hS _ _ _ _ _ _ h
    exact ⟨hi, ho, ha⟩
  · simp only [hne, ↓reduceIte, hs.1, hs.2] at h
    obtain ⟨_, hi, ho, ha⟩ := mkContract_ok_wf vars P hS _ _ _ _ _ _ h
    exact ⟨hi, ho, ha⟩

end Pacti.C06
