import Pacti.Proofs.Plots
/-!
# C18 — plot vertices are exactly the corners of the plotted slice

`constraints_to_vertices` = glue (`Plots.plotSystem`, transcribed from the code down to the two-column system `H`
handed to `_get_bounding_vertices`) + a geometric engine (Chebyshev LP, Qhull, 4-LP fallback, `atan2` sort) that
is an *oracle*: its answer is accepted only by `Plots.checkVertices H pts`.

* `glue_sem`, `glue_errors`: the system `H` is exactly the slice of the constraint list at the given values cut
  by the axis limits (the column swap included), and the glue raises exactly the documented `ValueError`s.
* `mem_corners_iff`, `corner_is_extreme`: what "corner" means.
* `checkVertices_sound_complete`: an accepted answer lists exactly the corners.
* `corners_ne_nil_of_feasible`, `slice_empty_iff_no_corner`: "no corner" (when the check demands `ValueError`) is
  exactly "empty slice".
* `angLe_total`, `angLe_trans`, `sortedFrom_sorted`: the exact angular comparator is a total preorder.

In this module the coefficient list of a term is the Python dict in insertion order (see `Model/Plots.lean`);
`hdict` below is the dict invariant "keys are distinct".  `override v vals` is the valuation that reads the given
values first (first binding wins) and `v` elsewhere.
-/
namespace Pacti.C18
open Plots

/-- **The glue hands the engine exactly the plotted slice.**  If `plotSystem` succeeds with `H`, then a point
    `(v x, v y)` satisfies every row of `H` iff the constraint list holds at the given values with `x ↦ v x`,
    `y ↦ v y`, and the point lies within the axis limits.  (Every variable of `l` is `x`, `y` or has a value, and
    `x`, `y` have none — see `glue_errors` — so `override v vals` *is* "`vals` with `x ↦ v x`, `y ↦ v y`".)
    Both column orders of `termlist_to_polytope` are covered: the proof goes through the column swap. -/
theorem glue_sem (l : TL) (x y : Var) (vals : List (Var × Rat)) (xl yl : Rat × Rat) (H : List HalfPlane)
    (hdict : ∀ t ∈ l, t.vars.Nodup) (h : plotSystem l x y vals xl yl = .ok H) (v : Val) :
    (∀ hp ∈ H, hp.holds (v x, v y)) ↔
      TL.holds l (override v vals) ∧ xl.1 ≤ v x ∧ v x ≤ xl.2 ∧ yl.1 ≤ v y ∧ v y ≤ yl.2 :=
  glue_sem_aux l x y vals xl yl H hdict h v

/-- the same, spelled with explicit coordinates -/
theorem glue_sem_point (l : TL) (x y : Var) (vals : List (Var × Rat)) (xl yl : Rat × Rat) (H : List HalfPlane)
    (hdict : ∀ t ∈ l, t.vars.Nodup) (h : plotSystem l x y vals xl yl = .ok H) (v : Val) (px py : Rat) :
    (∀ hp ∈ H, hp.holds (px, py)) ↔
      TL.holds l (override (Function.update (Function.update v x px) y py) vals) ∧
        xl.1 ≤ px ∧ px ≤ xl.2 ∧ yl.1 ≤ py ∧ py ≤ yl.2 := by
  obtain ⟨sw, h'⟩ := (plotSystem_ok_iff _ _ _ _ _ _ _).mp h
  have hxy : x ≠ y := (plotSystem'_ok l x y vals xl yl H sw hdict h').1
  have := glue_sem l x y vals xl yl H hdict h (Function.update (Function.update v x px) y py)
  simpa [Function.update_of_ne hxy] using this

/-- **The glue raises exactly the documented `ValueError`s** (for two distinct plot variables): the only error
    is `ValueError`, and it is raised iff `x` or `y` is given a value, or a constrained variable other than `x`,
    `y` has no value, or some constraint becomes a constant row that is violated. -/
theorem glue_errors (l : TL) (x y : Var) (vals : List (Var × Rat)) (xl yl : Rat × Rat) (hxy : x ≠ y) (e : Err) :
    plotSystem l x y vals xl yl = .error e ↔
      e = .valueError ∧
        (x ∈ vals.map (·.1) ∨ y ∈ vals.map (·.1) ∨
         (∃ z ∈ l.vars, z ≠ x ∧ z ≠ y ∧ z ∉ vals.map (·.1)) ∨
         (∃ t ∈ l, (substAll t vals).vars = [] ∧ (substAll t vals).const < 0)) :=
  glue_errors_aux l x y vals xl yl hxy e

/-- a row that became constant and negative is violated by *every* completion of the given values: the
    `ValueError` of `_substitute_in_termlist` is raised only for an empty slice -/
theorem violated_row_unsat (t : PTerm) (vals : List (Var × Rat))
    (hv : (substAll t vals).vars = []) (hc : (substAll t vals).const < 0) (v : Val) :
    ¬ t.holds (override v vals) := by
  rw [← substAll_holds, holds_of_vars_nil _ hv]; exact fun h => h hc

/-- …and a constant row that is dropped is satisfied by every completion -/
theorem dropped_row_valid (t : PTerm) (vals : List (Var × Rat))
    (hv : (substAll t vals).vars = []) (hc : ¬ (substAll t vals).const < 0) (v : Val) :
    t.holds (override v vals) := by
  rw [← substAll_holds, holds_of_vars_nil _ hv]; exact hc

/-- the same two plot variables given twice are rejected with the undocumented `IndexError` of the column swap
    (recorded, not part of the property: the property speaks of two plot variables) -/
example : plotSystem [⟨[(1, 1)], 4⟩] 1 1 [] (-5, 5) (-5, 5) = .error (.py "IndexError") := by decide +kernel

/-- **What a corner is**: a point of the polygon at which two non-parallel rows are tight. -/
theorem mem_corners_iff (H : List HalfPlane) (p : Rat × Rat) :
    p ∈ corners H ↔ (∀ h ∈ H, h.holds p) ∧
      ∃ h₁ ∈ H, ∃ h₂ ∈ H, ¬ HalfPlane.parallel h₁ h₂ ∧ h₁.tight p ∧ h₂.tight p := by
  unfold corners
  rw [mem_dedupP]
  simp only [List.mem_filter, List.mem_map, decide_eq_true_eq, feasible_iff]
  constructor
  · rintro ⟨⟨⟨h1, h2⟩, ⟨hm, hnp⟩, rfl⟩, hf⟩
    obtain ⟨m1, m2⟩ := mem_pairs_left _ _ _ hm
    have := HalfPlane.inter_tight h1 h2 hnp
    exact ⟨hf, h1, m1, h2, m2, hnp, this.1, this.2⟩
  · rintro ⟨hf, h1, m1, h2, m2, hnp, t1, t2⟩
    refine ⟨?_, hf⟩
    have hne : h1 ≠ h2 := by
      rintro rfl; apply hnp; unfold HalfPlane.parallel HalfPlane.det; ring
    rcases mem_pairs_of_ne H h1 h2 m1 m2 hne with hm | hm
    · exact ⟨(h1, h2), ⟨hm, hnp⟩, (HalfPlane.tight_unique h1 h2 hnp p t1 t2).symm⟩
    · have hnp' : ¬ HalfPlane.parallel h2 h1 := by
        unfold HalfPlane.parallel at hnp ⊢; rw [HalfPlane.det_swap]; simpa using hnp
      exact ⟨(h2, h1), ⟨hm, hnp'⟩, (HalfPlane.tight_unique h2 h1 hnp' p t2 t1).symm⟩

/-- each corner is listed once -/
theorem corners_nodup (H : List HalfPlane) : (corners H).Nodup := dedupP_nodup _

/-- **A corner is an extreme point**: it is not a proper convex combination of two points of the polygon
    (other than itself). -/
theorem corner_is_extreme (H : List HalfPlane) (p : Rat × Rat) (hp : p ∈ corners H)
    (u w : Rat × Rat) (hu : ∀ h ∈ H, h.holds u) (hw : ∀ h ∈ H, h.holds w)
    (t : Rat) (ht0 : 0 < t) (ht1 : t < 1)
    (hmix : p = (t * u.1 + (1 - t) * w.1, t * u.2 + (1 - t) * w.2)) : u = p ∧ w = p := by
  obtain ⟨_, h1, m1, h2, m2, hnp, t1, t2⟩ := (mem_corners_iff H p).mp hp
  have key : ∀ h ∈ H, h.tight p → h.tight u ∧ h.tight w := by
    intro h hm htp
    have a := hu h hm; have b := hw h hm
    unfold HalfPlane.tight HalfPlane.holds HalfPlane.lhs at *
    rw [hmix] at htp; simp only at htp
    have e : t * (h.a * u.1 + h.b * u.2) + (1 - t) * (h.a * w.1 + h.b * w.2) = h.c := by linarith
    have ht1' : 0 < 1 - t := by linarith
    constructor
    · by_contra hlt
      have hlt' : h.a * u.1 + h.b * u.2 < h.c := lt_of_le_of_ne a hlt
      nlinarith [mul_lt_mul_of_pos_left hlt' ht0, mul_le_mul_of_nonneg_left b ht1'.le]
    · by_contra hlt
      have hlt' : h.a * w.1 + h.b * w.2 < h.c := lt_of_le_of_ne b hlt
      nlinarith [mul_lt_mul_of_pos_left hlt' ht1', mul_le_mul_of_nonneg_left a ht0.le]
  obtain ⟨u1, w1⟩ := key h1 m1 t1
  obtain ⟨u2, w2⟩ := key h2 m2 t2
  have ep := HalfPlane.tight_unique h1 h2 hnp p t1 t2
  exact ⟨(HalfPlane.tight_unique h1 h2 hnp u u1 u2).trans ep.symm,
    (HalfPlane.tight_unique h1 h2 hnp w w1 w2).trans ep.symm⟩

/-- **The checker of the engine's answer is sound and complete**: it accepts `pts` iff the points are exactly
    the corners (none extra, none missing) and are listed in (cyclic) angular order about their centroid. -/
theorem checkVertices_sound_complete (H : List HalfPlane) (pts : List (Rat × Rat)) :
    checkVertices H pts = true ↔
      (∀ p, p ∈ pts ↔ p ∈ corners H) ∧ angularOrder (centroid pts) pts = true := by
  unfold checkVertices
  simp only [Bool.and_eq_true, List.all_eq_true, decide_eq_true_eq]
  constructor
  · rintro ⟨⟨a, b⟩, c⟩; exact ⟨fun p => ⟨a p, b p⟩, c⟩
  · rintro ⟨a, c⟩; exact ⟨⟨fun p hp => (a p).mp hp, fun p hp => (a p).mpr hp⟩, c⟩

/-- the reported failing clause is consistent with the verdict -/
theorem checkVerticesWhy_none_iff (H : List HalfPlane) (pts : List (Rat × Rat)) :
    checkVerticesWhy H pts = none ↔ checkVertices H pts = true := by
  unfold checkVerticesWhy checkVertices
  by_cases a : (pts.all fun p => decide (p ∈ corners H)) = true <;>
  by_cases b : ((corners H).all fun c => decide (c ∈ pts)) = true <;>
  by_cases c : angularOrder (centroid pts) pts = true <;> simp [a, b, c]

/-- **End to end**: an answer accepted for the system produced by the glue consists exactly of the points of
    the slice (constraints at the given values, within the limits) at which two non-parallel rows are tight;
    in particular every returned point satisfies all constraints and no corner is missing. -/
theorem accepted_answer_is_slice_corners (l : TL) (x y : Var) (vals : List (Var × Rat)) (xl yl : Rat × Rat)
    (H : List HalfPlane) (hdict : ∀ t ∈ l, t.vars.Nodup) (h : plotSystem l x y vals xl yl = .ok H)
    (pts : List (Rat × Rat)) (hc : checkVertices H pts = true) (v : Val) (p : Rat × Rat) (hp : p ∈ pts) :
    TL.holds l (override (Function.update (Function.update v x p.1) y p.2) vals) ∧
      xl.1 ≤ p.1 ∧ p.1 ≤ xl.2 ∧ yl.1 ≤ p.2 ∧ p.2 ≤ yl.2 := by
  have hcor := ((checkVertices_sound_complete H pts).mp hc).1 p |>.mp hp
  have hf := ((mem_corners_iff H p).mp hcor).1
  exact (glue_sem_point l x y vals xl yl H hdict h v p.1 p.2).mp hf

/-- **No corner means no point** (converse of "a corner is a point of the polygon"): a polygon that is bounded
    in every direction and has a point has a corner.  Slide the point along `(1,0)` until a row stops it, then
    along that row's line until a second, necessarily non-parallel, row stops it. -/
theorem corners_ne_nil_of_feasible (H : List HalfPlane) (hb : Bounded H) (p : Rat × Rat)
    (hp : ∀ h ∈ H, h.holds p) : corners H ≠ [] := by
  obtain ⟨q, hq, hex⟩ := exists_corner H hb p hp
  have : q ∈ corners H := (mem_corners_iff H q).mpr ⟨hq, hex⟩
  intro e; rw [e] at this; cases this

/-- **`ValueError` for an empty slice, and only then**: for the system produced by the glue (it always contains
    the four limit rows, hence is bounded), "no corner" — the condition under which the check demands
    `ValueError` from the engine — holds iff no point satisfies the constraints at the given values within the
    limits. -/
theorem slice_empty_iff_no_corner (l : TL) (x y : Var) (vals : List (Var × Rat)) (xl yl : Rat × Rat)
    (H : List HalfPlane) (hdict : ∀ t ∈ l, t.vars.Nodup) (h : plotSystem l x y vals xl yl = .ok H) :
    corners H = [] ↔
      ¬ ∃ v : Val, TL.holds l (override v vals) ∧ xl.1 ≤ v x ∧ v x ≤ xl.2 ∧ yl.1 ≤ v y ∧ v y ≤ yl.2 := by
  obtain ⟨b1, b2, b3, b4⟩ := plotSystem_has_box l x y vals xl yl H hdict h
  have hb : Bounded H := bounded_of_box H _ _ _ _ b1 b2 b3 b4
  constructor
  · rintro hc ⟨v, hv⟩
    exact corners_ne_nil_of_feasible H hb (v x, v y) ((glue_sem l x y vals xl yl H hdict h v).mpr hv) hc
  · intro hn
    by_contra hc
    obtain ⟨p, hp⟩ := List.exists_mem_of_ne_nil _ hc
    have hf := ((mem_corners_iff H p).mp hp).1
    exact hn ⟨Function.update (Function.update (fun _ => 0) x p.1) y p.2,
      (glue_sem_point l x y vals xl yl H hdict h (fun _ => 0) p.1 p.2).mp hf |>.1,
      by
        obtain ⟨sw, h'⟩ := (plotSystem_ok_iff _ _ _ _ _ _ _).mp h
        have hxy : x ≠ y := (plotSystem'_ok l x y vals xl yl H sw hdict h').1
        have := ((glue_sem_point l x y vals xl yl H hdict h (fun _ => 0) p.1 p.2).mp hf).2
        simpa [Function.update_of_ne hxy] using this⟩

/-! The angular comparator (class of the direction, then cross product) is a total preorder, so the
    consecutive test `sortedFrom` means "sorted".  Its identification with the order of the float `atan2` keys
    is validated by the correspondence run, not proved. -/

theorem angLe_total (d e : Rat × Rat) : angLe d e = true ∨ angLe e d = true := angLe_total_aux d e

theorem angLe_trans (d e f : Rat × Rat) (h1 : angLe d e = true) (h2 : angLe e f = true) : angLe d f = true :=
  angLe_trans_aux d e f h1 h2

theorem sortedFrom_sorted (c : Rat × Rat) (l : List (Rat × Rat)) (h : sortedFrom c l = true) :
    l.Pairwise (fun p q => angLe (dir c p) (dir c q) = true) := sortedFrom_pairwise c l h

/-! non-vacuity -/

/-- a triangle whose first term lists `y` before `x` (column swap): `2x + y ≤ 4, x ≥ 0, y ≥ 0` in the box
    `[-5,5]²`, with an extra variable `3` fixed to `1` -/
example : plotSystem [⟨[(2, 1), (1, 2), (3, 1)], 5⟩, ⟨[(1, -1)], 0⟩, ⟨[(2, -1)], 0⟩] 1 2 [(3, 1)] (-5, 5) (-5, 5)
    = .ok [⟨2, 1, 4⟩, ⟨-1, 0, 0⟩, ⟨0, -1, 0⟩, ⟨1, 0, 5⟩, ⟨-1, 0, 5⟩, ⟨0, 1, 5⟩, ⟨0, -1, 5⟩] := by decide +kernel
example : corners [⟨2, 1, 4⟩, ⟨-1, 0, 0⟩, ⟨0, -1, 0⟩, ⟨1, 0, 5⟩, ⟨-1, 0, 5⟩, ⟨0, 1, 5⟩, ⟨0, -1, 5⟩]
    = [(0, 4), (2, 0), (0, 0)] := by decide +kernel
example : checkVertices [⟨2, 1, 4⟩, ⟨-1, 0, 0⟩, ⟨0, -1, 0⟩, ⟨1, 0, 5⟩, ⟨-1, 0, 5⟩, ⟨0, 1, 5⟩, ⟨0, -1, 5⟩]
    [(0, 0), (2, 0), (0, 4)] = true := by decide +kernel
example : checkVertices [⟨2, 1, 4⟩, ⟨-1, 0, 0⟩, ⟨0, -1, 0⟩, ⟨1, 0, 5⟩, ⟨-1, 0, 5⟩, ⟨0, 1, 5⟩, ⟨0, -1, 5⟩]
    [(2, 0), (0, 0), (0, 4)] = false := by decide +kernel
example : checkVertices [⟨2, 1, 4⟩, ⟨-1, 0, 0⟩, ⟨0, -1, 0⟩, ⟨1, 0, 5⟩, ⟨-1, 0, 5⟩, ⟨0, 1, 5⟩, ⟨0, -1, 5⟩]
    [(0, 0), (2, 0)] = false := by decide +kernel
example : plotSystem [⟨[(3, 1)], 0⟩] 1 2 [(3, 1)] (-5, 5) (-5, 5) = .error .valueError := by decide +kernel
/-- an empty slice: `x + y ≤ -11` inside the box has no corner -/
example : (plotSystem [⟨[(1, 1), (2, 1)], -11⟩] 1 2 [] (-5, 5) (-5, 5)).map corners = .ok [] := by decide +kernel
/-- a degenerate slice: `x + y ≤ -10` touches the box in the single point `(-5,-5)` -/
example : (plotSystem [⟨[(1, 1), (2, 1)], -10⟩] 1 2 [] (-5, 5) (-5, 5)).map corners = .ok [(-5, -5)] := by decide +kernel

end Pacti.C18
