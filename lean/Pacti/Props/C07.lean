import Pacti.Proofs.Reduce
import Pacti.Proofs.LP
/-!
# C07 — simplification never changes meaning and leaves nothing redundant

`simplify O tie l Γ` is the model of `PolyhedralTermList.simplify` (`Γ = none`: called without a context).  `tie`
resolves the float comparison when the exact LP optimum *equals* the bound (the implementation may go either
way there; every theorem is for all `tie`).
-/
namespace Pacti.C07
open Poly

def ctxOf : Option TL → TL
  | some g => g
  | none => []

theorem holds_list_diff (l g : TL) (v : Val) (hg : TL.holds g v) : TL.holds (Gen.list_diff l g) v ↔ TL.holds l v := by
  constructor
  · intro h t ht
    by_cases hm : t ∈ g
    · exact hg t hm
    · exact h t ((Gen.mem_list_diff l g t).mpr ⟨ht, hm⟩)
  · intro h t ht; exact h t ((Gen.mem_list_diff l g t).mp ht).1

theorem holds_helper (ctx : TL) (b : Bool) (v : Val) (h : TL.holds ctx v) : TL.holds (if b = true then ctx else []) v := by
  split
  · exact h
  · exact TL.holds_nil v

/-! ### the matrix-level routine -/

theorem core_selection (O : Oracle) (hO : O.Certified) (tie : PTerm → Bool) (rows ctx r : TL)
    (h : simplifyCore O tie rows ctx = .ok r) : r.Sublist rows := by
  unfold simplifyCore at h
  simp only at h
  split at h
  · injection h with h; subst h; exact List.Sublist.refl _
  split at h
  · injection h with h; subst h; exact List.Sublist.refl _
  split at h; · cases h
  · obtain ⟨s, h1, h2, _⟩ := reduce_irredundant O hO tie _ _ _ _ h
    simp only [List.nil_append] at h1; subst h1; exact h2

theorem core_equiv (O : Oracle) (hO : O.Certified) (tie : PTerm → Bool) (rows ctx r : TL)
    (h : simplifyCore O tie rows ctx = .ok r) : ∀ v, TL.holds ctx v → (TL.holds r v ↔ TL.holds rows v) := by
  intro v hc
  unfold simplifyCore at h
  simp only at h
  split at h
  · injection h with h; subst h; rfl
  split at h
  · injection h with h; subst h; rfl
  split at h; · cases h
  · simpa using reduce_equiv O hO tie _ _ _ _ h v (holds_helper ctx _ v hc)

theorem core_error (O : Oracle) (hO : O.Certified) (tie : PTerm → Bool) (rows ctx : TL) (hp : rows.Proper) (e : Err)
    (h : simplifyCore O tie rows ctx = .error e) :
    (e = .valueError ∧ ¬ ∃ v, TL.holds ctx v ∧ TL.holds rows v) ∨ e = .oracleStuck := by
  unfold simplifyCore at h
  simp only at h
  split at h; · cases h
  rename_i hr0
  split at h; · cases h
  split at h
  · -- no variable at all: impossible for proper, non-empty rows
    rename_i hm0
    exfalso
    have hrne : rows ≠ [] := fun e => hr0 (by simp [e])
    have hv := TL.Proper.vars_ne_nil rows hp hrne
    cases hrv : TL.vars rows with
    | nil => exact hv hrv
    | cons x xs =>
      have : x ∈ Gen.list_union (TL.vars rows) (TL.vars ctx) := by simp [hrv]
      rw [List.length_eq_zero_iff.mp hm0] at this; cases this
  rcases reduce_error_kind O tie _ _ _ _ h with he | he
  · left
    refine ⟨he, ?_⟩
    subst he
    rintro ⟨v, hc, hl⟩
    exact reduce_error O hO tie _ _ _ h ⟨v, holds_helper ctx _ v hc, by simpa using hl⟩
  · exact Or.inr he

theorem core_irredundant (O : Oracle) (hO : O.Certified) (tie : PTerm → Bool) (rows ctx r : TL)
    (hp : rows.Proper) (h : simplifyCore O tie rows ctx = .ok r)
    (hhelper : ctx = [] ∨ 0 < (Gen.list_union rows.vars ctx.vars).length) :
    ∀ r1 t r2, r = r1 ++ t :: r2 →
      ∃ v, TL.holds ctx v ∧ TL.holds (r1 ++ r2) v ∧ t.const ≤ evalL t.coeffs v := by
  intro r1 t r2 hr
  unfold simplifyCore at h
  simp only at h
  split at h
  · injection h with h; subst h
    rename_i h0
    rw [List.length_eq_zero_iff.mp h0] at hr; simp at hr
  split at h
  · -- a single row and no helper: returned without an LP; a proper row is never implied by nothing
    injection h with h; subst h
    rename_i h1
    simp only [Bool.and_eq_true, decide_eq_true_eq, Bool.not_eq_true', decide_eq_false_iff_not, not_lt,
      Nat.le_zero_eq] at h1
    obtain ⟨hlen, hno⟩ := h1
    have hone : r1 = [] ∧ r2 = [] := by
      rw [hr] at hlen
      simp only [List.length_append, List.length_cons] at hlen
      exact ⟨List.length_eq_zero_iff.mp (by omega), List.length_eq_zero_iff.mp (by omega)⟩
    obtain ⟨rfl, rfl⟩ := hone
    have hctx : ctx = [] := by
      rcases hhelper with hh | hh
      · exact hh
      · rcases Nat.mul_eq_zero.mp hno with h0 | h0
        · exact List.length_eq_zero_iff.mp h0
        · omega
    obtain ⟨v, hv⟩ := PTerm.Proper.exists_violation t (hp t (by rw [hr]; simp))
    refine ⟨v, by rw [hctx]; exact TL.holds_nil v, by simpa using TL.holds_nil v, ?_⟩
    unfold PTerm.holds at hv; linarith
  split at h; · cases h
  · obtain ⟨s, h1, _, h3⟩ := reduce_irredundant O hO tie _ _ _ _ h
    simp only [List.nil_append] at h1; subst h1
    obtain ⟨v, hv1, hv2, hv3⟩ := h3 r1 t r2 hr
    refine ⟨v, ?_, by simpa using hv2, hv3⟩
    split at hv1
    · exact hv1
    · rename_i hn
      rcases hhelper with hh | hh
      · rw [hh]; exact TL.holds_nil v
      · simp only [gt_iff_lt, decide_eq_true_eq, not_lt, Nat.le_zero_eq] at hn
        rcases Nat.mul_eq_zero.mp hn with h0 | h0
        · rw [List.length_eq_zero_iff.mp h0]; exact TL.holds_nil v
        · omega

/-! ### `PolyhedralTermList.simplify` -/

/-- the result is a selection (sub-list, same order, same coefficients and constants) of the original rows -/
theorem simplify_selection (O : Oracle) (hO : O.Certified) (tie : PTerm → Bool) (l : TL) (Γ : Option TL) (r : TL)
    (h : simplify O tie l Γ = .ok r) : r.Sublist l := by
  cases Γ with
  | none => exact core_selection O hO tie _ _ _ h
  | some g => exact (core_selection O hO tie _ _ _ h).trans List.filter_sublist

/-- equivalent to the original wherever the context holds -/
theorem simplify_equiv (O : Oracle) (hO : O.Certified) (tie : PTerm → Bool) (l : TL) (Γ : Option TL) (r : TL)
    (h : simplify O tie l Γ = .ok r) : ∀ v, TL.holds (ctxOf Γ) v → (TL.holds r v ↔ TL.holds l v) := by
  intro v hΓ
  cases Γ with
  | none => exact core_equiv O hO tie _ _ _ h v (TL.holds_nil v)
  | some g => rw [core_equiv O hO tie _ _ _ h v hΓ]; exact holds_list_diff l g v hΓ

/-- `ValueError` only when the constraints are infeasible in the context (terms mention at least one variable: for
    variable-free rows the solver rejects the zero-column matrix with a ValueError of its own) -/
theorem simplify_error_infeasible (O : Oracle) (hO : O.Certified) (tie : PTerm → Bool) (l : TL) (hp : l.Proper) (Γ : Option TL) (e : Err)
    (h : simplify O tie l Γ = .error e) :
    (e = .valueError ∧ ¬ ∃ v, TL.holds (ctxOf Γ) v ∧ TL.holds l v) ∨ e = .oracleStuck := by
  cases Γ with
  | none =>
    rcases core_error O hO tie _ _ hp _ h with ⟨h1, h2⟩ | h1
    · exact Or.inl ⟨h1, fun ⟨v, _, hl⟩ => h2 ⟨v, TL.holds_nil v, hl⟩⟩
    · exact Or.inr h1
  | some g =>
    have hp' : TL.Proper (Gen.list_diff l g) := fun t ht => hp t ((Gen.mem_list_diff l g t).mp ht).1
    rcases core_error O hO tie _ _ hp' _ h with ⟨h1, h2⟩ | h1
    · exact Or.inl ⟨h1, fun ⟨v, hg, hl⟩ => h2 ⟨v, hg, (holds_list_diff l g v hg).mpr hl⟩⟩
    · exact Or.inr h1

/-- nothing redundant is left: for every surviving row there is a behaviour of the context and of the *other*
    surviving rows at which the row is tight or violated (it is strictly violated unless the run met an exact tie).
    Side condition: the call really hands its context to the LP (always, except when no variable occurs at all). -/
theorem simplify_irredundant (O : Oracle) (hO : O.Certified) (tie : PTerm → Bool) (l : TL) (Γ : Option TL) (r : TL)
    (hp : l.Proper) (h : simplify O tie l Γ = .ok r)
    (hvars : ctxOf Γ = [] ∨ (ctxOf Γ).vars ≠ []) :
    ∀ r1 t r2, r = r1 ++ t :: r2 →
      ∃ v, TL.holds (ctxOf Γ) v ∧ TL.holds (r1 ++ r2) v ∧ t.const ≤ evalL t.coeffs v := by
  cases Γ with
  | none => exact core_irredundant O hO tie _ _ _ hp h (Or.inl rfl)
  | some g =>
    have hp' : TL.Proper (Gen.list_diff l g) := fun t ht => hp t ((Gen.mem_list_diff l g t).mp ht).1
    refine core_irredundant O hO tie _ _ _ hp' h ?_
    rcases hvars with hv | hv
    · exact Or.inl hv
    · right
      cases hg : TL.vars g with
      | nil => exact absurd hg hv
      | cons x xs =>
        apply List.length_pos_of_mem (a := x)
        rw [Gen.mem_list_union]; right
        show x ∈ TL.vars g
        rw [hg]; simp

end Pacti.C07
