import Pacti.Proofs.Elim
import Pacti.Proofs.Tactic4
import Pacti.Proofs.Tactic3
/-!
# C04 — variable elimination is implication-preserving for every tactic order

`Elim.elimRefine / elimRelax / transform / transformTerm / tactic k` model `elim_vars_by_refining`,
`elim_vars_by_relaxing`, `_transform`, `_transform_term` and `TACTICS[k]`.  A tactic's outcome is
`.ok (some r)` (transformed), `.ok none` / `.error .valueError` (declines).

The loop theorems are stated for an ARBITRARY tactic table `tac` and ask soundness only of the tactics that occur
in the order (`TacSound tac k`): they hold for every list length, every context, every order, both flags.
`driver_tactics_sound` discharges `TacSound` for EVERY entry of the real table (tactics 1–6; any other number is a
`KeyError`), so `elimRefine_sound_real` / `elimRelax_sound_real` are the property for every tactic order.

* tactic 1 — Kaykobad context reduction: `Proofs/Kay.lean` (the substitution loop subtracts a combination of context
  rows; `Proofs/Solve.lean`: each solved equation is a combination of the rows; `Proofs/KayMath.lean`: the three
  Kaykobad tests give every multiplier the sign of the direction);
* tactic 3 — change of variable + tactic 1: `Proofs/Tactic3.lean`; needs the auxiliary variable to be fresh, which is
  how the source picks it (`tactic3_fresh_ok`, read off the source by the translator);
* tactic 4 — `Proofs/Tactic4.lean`; needs the sign of `isolate_variable` (`isolate_sign_ok`, read off the source);
* tactics 2 and 5 — on a certified LP oracle (`Proofs/Elim.lean`).
-/
namespace Pacti.C04
open Elim

/-- refining: the result, in the context, implies every original constraint -/
theorem transform_refine_sound (O : Oracle) (hO : O.Certified) (tie : PTerm → Bool) (tac : Nat → PTerm → TL → List Var → Bool → TacticRes)
    (l ctx : TL) (xs : List Var) (simp : Bool) (ord : List Nat) (hs : ∀ j ∈ ord, TacSound tac j) (r : TL) (used : List Int)
    (h : transform O tie tac l ctx xs true simp ord = .ok (r, used)) :
    ∀ v, TL.holds ctx v → TL.holds r v → TL.holds l v :=
  Elim.transform_refine_sound O hO tie tac l ctx xs simp ord hs r used h

/-- relaxing: the result is implied by the original constraints in the context -/
theorem transform_relax_sound (O : Oracle) (hO : O.Certified) (tie : PTerm → Bool) (tac : Nat → PTerm → TL → List Var → Bool → TacticRes)
    (l ctx : TL) (xs : List Var) (simp : Bool) (ord : List Nat) (hs : ∀ j ∈ ord, TacSound tac j) (r : TL) (used : List Int)
    (h : transform O tie tac l ctx xs false simp ord = .ok (r, used)) :
    ∀ v, TL.holds ctx v → TL.holds l v → TL.holds r v :=
  Elim.transform_relax_sound O hO tie tac l ctx xs simp ord hs r used h

theorem elimRefine_sound (O : Oracle) (hO : O.Certified) (tie : PTerm → Bool) (tac : Nat → PTerm → TL → List Var → Bool → TacticRes)
    (l ctx : TL) (xs : List Var) (simp : Bool) (ord : List Nat) (hs : ∀ j ∈ ord, TacSound tac j) (r : TL) (used : List Int)
    (h : elimRefine O tie tac l ctx xs simp ord = .ok (r, used)) :
    ∀ v, TL.holds ctx v → TL.holds r v → TL.holds l v :=
  Elim.elimRefine_sound O hO tie tac l ctx xs simp ord hs r used h

theorem elimRelax_sound (O : Oracle) (hO : O.Certified) (tie : PTerm → Bool) (tac : Nat → PTerm → TL → List Var → Bool → TacticRes)
    (l ctx : TL) (xs : List Var) (simp : Bool) (ord : List Nat) (hs : ∀ j ∈ ord, TacSound tac j) (r : TL) (used : List Int)
    (h : elimRelax O tie tac l ctx xs simp ord = .ok (r, used)) :
    ∀ v, TL.holds ctx v → TL.holds l v → TL.holds r v :=
  Elim.elimRelax_sound O hO tie tac l ctx xs simp ord hs r used h

/-- relaxation never returns a term that still mentions an eliminated variable (no hypothesis on the tactics) -/
theorem elimRelax_no_elim_vars (O : Oracle) (tie : PTerm → Bool) (tac : Nat → PTerm → TL → List Var → Bool → TacticRes)
    (l ctx : TL) (xs : List Var) (simp : Bool) (ord : List Nat) (r : TL) (used : List Int)
    (h : elimRelax O tie tac l ctx xs simp ord = .ok (r, used)) : ∀ t ∈ r, ∀ x ∈ t.vars, x ∉ xs :=
  Elim.elimRelax_no_elim_vars O tie tac l ctx xs simp ord r used h

/-- tactic 2 (LP bound over the context rows on eliminated variables only), both directions, vacuity branch included -/
theorem tactic2_sound (O : Oracle) (hO : O.Certified) (t : PTerm) (H : TL) (xs : List Var) (refine : Bool) (r : PTerm)
    (h : tactic2 O t H xs refine = .ok (some r)) :
    ∀ v, TL.holds H v → (if refine then (r.holds v → t.holds v) else (t.holds v → r.holds v)) :=
  Elim.tactic2_sound O hO t H xs refine r h

/-- tactic 5 (LP-active rows): whatever rows the solver made active, a result is kept only when the refinement test
    confirms it (definite verdict) -/
theorem tactic5_sound (O : Oracle) (hO : O.Certified) (t : PTerm) (H : TL) (xs : List Var) (refine : Bool) (active : Option (List Nat))
    (r : PTerm) (h : tactic5 O false t H xs refine active = .ok (some r)) :
    ∀ v, TL.holds H v → (if refine then (r.holds v → t.holds v) else (t.holds v → r.holds v)) :=
  Elim.tactic5_sound O hO t H xs refine active r h

/-- the sign `isolate_variable` gives the constant, as read off the current source, is the correct one -/
theorem isolate_sign_ok : Gen.isolateSign = -1 := by unfold Gen.isolateSign; rfl

/-- tactic 4 (one-variable substitution chains through the context, any depth): every result dominates the term as an
    expression wherever the context holds, hence refines it; when relaxing the tactic declines -/
theorem tactic4_sound (t : PTerm) (H : TL) (xs : List Var) (refine : Bool) (r : PTerm)
    (h : tactic4 (H.length + 1) t H xs refine [] = .ok (some r)) :
    ∀ v, TL.holds H v → (if refine then (r.holds v → t.holds v) else (t.holds v → r.holds v)) :=
  Elim.tactic4_sound isolate_sign_ok t H xs refine r h

/-- the auxiliary variable of tactic 3, as read off the current source, clashes with no variable in use -/
theorem tactic3_fresh_ok : Gen.tactic3Fresh = true := by unfold Gen.tactic3Fresh; rfl

/-- tactic 1 (Kaykobad context reduction), both directions: no hypothesis on the term, the context or the variables -/
theorem tactic1_sound (t : PTerm) (H : TL) (xs : List Var) (refine : Bool) (r : PTerm)
    (h : tactic1 t H xs refine = .ok (some r)) :
    ∀ v, TL.holds H v → (if refine then (r.holds v → t.holds v) else (t.holds v → r.holds v)) :=
  Elim.tactic1_sound t H xs refine r h

/-- tactic 3 (change of variable over the conflict variables, then tactic 1), both directions -/
theorem tactic3_sound (t : PTerm) (H : TL) (xs : List Var) (refine : Bool) (r : PTerm)
    (h : tactic3 t H xs refine = .ok (some r)) :
    ∀ v, TL.holds H v → (if refine then (r.holds v → t.holds v) else (t.holds v → r.holds v)) :=
  Elim.tactic3_sound tactic3_fresh_ok t H xs refine r h

/-- the trivial tactic -/
theorem tactic6_sound (O : Oracle) (hint : PTerm → TL → List Var → Bool → Option (List Nat)) : TacSound (tactic O false hint) 6 := by
  intro t H xs refine r h v _
  simp only [tactic] at h
  injection h with h; injection h with h; subst h
  split <;> exact id

/-- every entry of the real tactic table is sound, for every certified oracle and every hint function (a number
    outside 1..6 is a `KeyError`, never a result) -/
theorem driver_tactics_sound (O : Oracle) (hO : O.Certified) (hint : PTerm → TL → List Var → Bool → Option (List Nat)) :
    ∀ k, TacSound (tactic O false hint) k := by
  intro k t H xs refine r h
  unfold tactic at h
  split at h
  · exact Elim.tactic1_sound t H xs refine r h
  · exact Elim.tactic2_sound O hO t H xs refine r h
  · exact Elim.tactic3_sound tactic3_fresh_ok t H xs refine r h
  · exact Elim.tactic4_sound isolate_sign_ok t H xs refine r h
  · exact Elim.tactic5_sound O hO t H xs refine _ r h
  · exact tactic6_sound O hint t H xs refine r (by simpa [tactic] using h)
  · cases h

/-- the property for the real table, refining: every list, context, variable list, order and flag -/
theorem elimRefine_sound_real (O : Oracle) (hO : O.Certified) (tie : PTerm → Bool) (hint : PTerm → TL → List Var → Bool → Option (List Nat))
    (l ctx : TL) (xs : List Var) (simp : Bool) (ord : List Nat) (r : TL) (used : List Int)
    (h : elimRefine O tie (tactic O false hint) l ctx xs simp ord = .ok (r, used)) :
    ∀ v, TL.holds ctx v → TL.holds r v → TL.holds l v :=
  Elim.elimRefine_sound O hO tie _ l ctx xs simp ord (fun j _ => driver_tactics_sound O hO hint j) r used h

/-- the property for the real table, relaxing -/
theorem elimRelax_sound_real (O : Oracle) (hO : O.Certified) (tie : PTerm → Bool) (hint : PTerm → TL → List Var → Bool → Option (List Nat))
    (l ctx : TL) (xs : List Var) (simp : Bool) (ord : List Nat) (r : TL) (used : List Int)
    (h : elimRelax O tie (tactic O false hint) l ctx xs simp ord = .ok (r, used)) :
    (∀ v, TL.holds ctx v → TL.holds l v → TL.holds r v) ∧ ∀ t ∈ r, ∀ x ∈ t.vars, x ∉ xs :=
  ⟨Elim.elimRelax_sound O hO tie _ l ctx xs simp ord (fun j _ => driver_tactics_sound O hO hint j) r used h,
   Elim.elimRelax_no_elim_vars O tie _ l ctx xs simp ord r used h⟩

/-- a dispatcher whose tactics all decline leaves the term (tactic number −1): "must decline, never return
    something else" -/
theorem decline_leaves_term (tac : Nat → PTerm → TL → List Var → Bool → TacticRes) (t : PTerm) (H : TL) (xs : List Var) (refine : Bool)
    (ord : List Nat) (hd : ∀ k ∈ ord, tac k t H xs refine = .error .valueError ∨ tac k t H xs refine = .ok none) :
    transformTerm tac t H xs refine ord = .ok (t, -1) := by
  induction ord with
  | nil => rfl
  | cons k ks ih =>
    simp only [transformTerm]
    rcases hd k (by simp) with h | h
    · rw [h]; exact ih (fun j hj => hd j (by simp [hj]))
    · rw [h]; exact ih (fun j hj => hd j (by simp [hj]))

/-! ### the premises are satisfiable (concrete runs, evaluated by the kernel) -/
section NonVacuity

-- variables: 1 = a, 2 = b, 3 = x, 4 = y;  0 is a user variable that happens to be called "_"
/-- tactic 1 refines `x + a ≤ 4` to `a + b ≤ 3` through the context row `x - b ≤ 1` … -/
example : tactic1 (PTerm.mk' [(3, 1), (1, 1)] 4) [PTerm.mk' [(3, 1), (2, -1)] 1] [3] true = .ok (some ⟨[(1, 1), (2, 1)], 3⟩) := by
  decide +kernel
/-- … and relaxes it to `a + b ≤ 5` through `-x + b ≤ 1` -/
example : tactic1 (PTerm.mk' [(3, 1), (1, 1)] 4) [PTerm.mk' [(3, -1), (2, 1)] 1] [3] false = .ok (some ⟨[(1, 1), (2, 1)], 5⟩) := by
  decide +kernel
/-- tactic 1 declines when the only row bounds the variable in the wrong direction -/
example : tactic1 (PTerm.mk' [(3, 1), (1, 1)] 4) [PTerm.mk' [(3, 1), (2, -1)] 1] [3] false = .error .valueError := by
  decide +kernel
/-- tactic 3 on `x + 2y + 5·_ ≤ 4` (a user variable called `_`) with the proportional row `2x + 4y - b ≤ 1` -/
example : tactic3 (PTerm.mk' [(3, 1), (4, 2), (0, 5)] 4) [PTerm.mk' [(3, 2), (4, 4), (2, -1)] 1] [3, 4] true
    = .ok (some ⟨[(0, 5), (2, (1 : Rat) / 2)], (7 : Rat) / 2⟩) := by
  decide +kernel
/-- tactic 4 -/
example : tactic4 2 (PTerm.mk' [(3, 1), (1, 1)] 4) [PTerm.mk' [(3, 1), (2, -1)] 1] [3] true [] = .ok (some ⟨[(1, 1), (2, 1)], 3⟩) := by
  decide +kernel
/-- an oracle that always abstains: certified (vacuously), and enough for runs that never consult the LP -/
def mute : Oracle := ⟨fun _ _ => .stuck⟩
theorem mute_certified : mute.Certified where
  opt := by intro _ _ _ _ h; cases h
  inf := by intro _ _ h; cases h
  unb := by intro _ _ h; cases h
/-- the whole refinement loop on the real table, default order (premise of `elimRefine_sound_real`) -/
example : elimRefine mute (fun _ => false) (tactic mute false (fun _ _ _ _ => none)) [PTerm.mk' [(3, 1), (1, 1)] 4]
    [PTerm.mk' [(3, 1), (2, -1)] 1] [3] false [1, 2, 3, 4, 5] = .ok ([⟨[(1, 1), (2, 1)], 3⟩], [1]) := by
  decide +kernel
/-- the relaxation loop drops a term it cannot relax (premise of `elimRelax_sound_real`) -/
example : elimRelax mute (fun _ => false) (tactic mute false (fun _ _ _ _ => none)) [PTerm.mk' [(3, 1), (1, 1)] 4, PTerm.mk' [(1, 1)] 7]
    [PTerm.mk' [(3, 1), (2, -1)] 1] [3] false [1, 3, 4] = .ok ([⟨[(1, 1)], 7⟩], [-1]) := by
  decide +kernel

end NonVacuity

end Pacti.C04
