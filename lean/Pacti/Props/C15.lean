import Pacti.Proofs.PolyAlg
import Pacti.Props.C08
/-!
# C15 — composition and merging never forget an interface-level guarantee

Stated for the model of `PolyhedralIoContract.compose_tactics` / `merge` with ANY tactic table `tac` (no soundness
hypothesis: these facts only depend on simplification being an equivalence and on which terms the algebra keeps).
-/
namespace Pacti.C15
open PolyAlg

theorem relaxNil (O : Oracle) (hO : O.Certified) (tie : PTerm → Bool) (tac : Nat → PTerm → TL → List Var → Bool → Elim.TacticRes) :
    Alg.RelaxNilEquiv PTerm.holds (polyPrims O tie false tac) := by
  intro s l Γ b o r h v hΓ
  simp only [polyPrims, Except.map] at h
  split at h
  · cases h
  · rename_i p hp
    injection h with h; subst h
    exact Elim.elimRelax_nil_equiv O hO tie tac l Γ b o p.1 p.2 (by simpa using hp) v hΓ

/-- the `Spec` of the polyhedral primitives restricted to the EMPTY order predicate is enough here: only `simp_ok` is used -/
theorem spec_any (O : Oracle) (hO : O.Certified) (tie : PTerm → Bool) (tac : Nat → PTerm → TL → List Var → Bool → Elim.TacticRes) :
    Alg.Spec PTerm.holds (polyPrims O tie false tac) (SoundOrd tac) := polyPrims_spec O hO tie false tac rfl

/-- every guarantee of either operand that mentions only variables of the result's interface is implied by the
    result's assumptions together with its guarantees -/
theorem compose_keeps_iface_guarantee (O : Oracle) (hO : O.Certified) (tie : PTerm → Bool)
    (tac : Nat → PTerm → TL → List Var → Bool → Elim.TacticRes)
    (c1 c2 c : Contract PTerm) (keep : List Var) (simp : Bool) (ord : List Nat)
    (h : compose (polyPrims O tie false tac) c1 c2 keep simp ord = .ok c)
    (t : PTerm) (ht : t ∈ c1.g ∨ t ∈ c2.g) (hif : ∀ x ∈ t.vars, x ∈ c.ins ∨ x ∈ c.outs) :
    ∀ v, TL.holds c.a v → TL.holds c.g v → t.holds v := by
  have hcopy := h
  unfold compose at hcopy
  obtain ⟨_, hins, houts⟩ := Pacti.C06.compose_iface PTerm.vars _ (polyPrims_selects O hO tie false tac) c1 c2 c keep simp ord hcopy
  apply Alg.compose_keeps PTerm.holds PTerm.vars _ (spec_any O hO tie tac) c1 c2 c keep simp ord hcopy t ht
  intro x hx hint
  simp only [Gen.compose_iface, Gen.mem_list_diff, Gen.mem_list_union, Gen.mem_list_intersection] at hint
  rcases hif x hx with hi | ho
  · have := (hins x).mp hi; tauto
  · have := (houts x).mp ho; tauto

/-- with no connection between the contracts composition is exact -/
theorem compose_exact_unconnected (O : Oracle) (hO : O.Certified) (tie : PTerm → Bool)
    (tac : Nat → PTerm → TL → List Var → Bool → Elim.TacticRes)
    (c1 c2 c : Contract PTerm) (keep : List Var) (simp : Bool) (ord : List Nat)
    (hn1 : ∀ x, ¬ (x ∈ c1.outs ∧ x ∈ c2.ins)) (hn2 : ∀ x, ¬ (x ∈ c1.ins ∧ x ∈ c2.outs))
    (h : compose (polyPrims O tie false tac) c1 c2 keep simp ord = .ok c) :
    (∀ v, TL.holds c.a v ↔ TL.holds c1.a v ∧ TL.holds c2.a v) ∧
    (∀ v, TL.holds c.a v → (TL.holds c.g v ↔ TL.holds c1.g v ∧ TL.holds c2.g v)) :=
  Alg.compose_exact_unconnected PTerm.holds PTerm.vars _ (spec_any O hO tie tac) (relaxNil O hO tie tac) c1 c2 c keep simp ord hn1 hn2 h

/-- merging keeps every guarantee of either operand -/
theorem merge_keeps_iface_guarantee (O : Oracle) (hO : O.Certified) (tie : PTerm → Bool)
    (tac : Nat → PTerm → TL → List Var → Bool → Elim.TacticRes) (c1 c2 m : Contract PTerm)
    (h : merge (polyPrims O tie false tac) c1 c2 = .ok m) (t : PTerm) (ht : t ∈ c1.g ∨ t ∈ c2.g) :
    ∀ v, TL.holds m.a v → TL.holds m.g v → t.holds v := by
  intro v ha hg
  obtain ⟨_, h2⟩ := Pacti.C08.merge_exact_poly O hO tie tac c1 c2 m h
  obtain ⟨g1, g2⟩ := (h2 v ha).mp hg
  rcases ht with h | h
  · exact g1 t h
  · exact g2 t h

end Pacti.C15
