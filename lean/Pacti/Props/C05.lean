import Pacti.Proofs.Algebra
/-!
# C05 — the algebra layer is sound for any constraint domain meeting the primitive specs

`T` is an arbitrary term type with an arbitrary notion of `holds`; `P : Prims T` are arbitrary per-call-site
primitives of which only `Alg.Spec` is assumed.  `Alg.compose/quotient/merge/refinesC` are the models of
`IoContract.compose_tactics/quotient_tactics/merge/refines`; their interface lists and decisions are the
definitions generated from the source (`Gen.*_iface`).
-/
namespace Pacti.C05
open Alg
variable {T : Type} [DecidableEq T] (holds : T → Val → Prop) (vars : T → List Var) (P : Prims T)

/-- composition: where the result's assumptions hold and each operand honours its contract, both operands'
    assumptions hold and the result's guarantees hold — for every wiring, kept set, flag, tactic order and every
    outcome of every primitive call -/
theorem compose_sound (hP : Spec holds P) (c1 c2 c : Contract T) (keep : List Var) (simp : Bool) (ord : List Nat)
    (h : compose vars P c1 c2 keep simp ord = .ok c) :
    ∀ v, H holds c.a v → (H holds c1.a v → H holds c1.g v) → (H holds c2.a v → H holds c2.g v) →
      H holds c1.a v ∧ H holds c2.a v ∧ H holds c.g v :=
  Alg.compose_sound holds vars P hP c1 c2 c keep simp ord trivial h

/-- quotient: any implementation of the divisor put together with any implementation of the quotient meets the
    dividend -/
theorem quotient_sound (hP : Spec holds P) (c c1 q : Contract T) (addl : List Var) (simp : Bool) (ord : List Nat)
    (h : quotient vars P c c1 addl simp ord = .ok q) :
    ∀ v, H holds c.a v → (H holds c1.a v → H holds c1.g v) → (H holds q.a v → H holds q.g v) →
      H holds c1.a v ∧ H holds q.a v ∧ H holds c.g v :=
  Alg.quotient_sound holds vars P hP c c1 q addl simp ord trivial h

/-- merging is the exact conjunction of the two viewpoints -/
theorem merge_exact (hP : Spec holds P) (c1 c2 m : Contract T) (h : merge vars P c1 c2 = .ok m) :
    (∀ v, H holds m.a v ↔ H holds c1.a v ∧ H holds c2.a v) ∧
    (∀ v, H holds m.a v → (H holds m.g v ↔ H holds c1.g v ∧ H holds c2.g v)) :=
  Alg.merge_exact holds vars P hP c1 c2 m h

/-- contract refinement answers `True` only for refinement -/
theorem refines_sound (hP : Spec holds P) (c d : Contract T) (h : refinesC P c d = .ok true) :
    (∀ v, H holds d.a v → H holds c.a v) ∧ (∀ v, H holds d.a v → H holds c.g v → H holds d.g v) :=
  Alg.refinesC_sound holds P hP c d h

/-- the algebra fails only with `IncompatibleArgsError` or with a primitive's `ValueError` -/
theorem algebra_errors (hE : ErrSpec P) (c1 c2 : Contract T) (xs : List Var) (simp : Bool) (ord : List Nat) (e : Err) :
    (compose vars P c1 c2 xs simp ord = .error e ∨ quotient vars P c1 c2 xs simp ord = .error e ∨ merge vars P c1 c2 = .error e) →
    e = .incompatibleArgs ∨ e = .valueError ∨ e = .oracleStuck := by
  rintro (h | h | h)
  · exact Alg.compose_errors vars P hE c1 c2 xs simp ord e h
  · exact Alg.quotient_errors vars P hE c1 c2 xs simp ord e h
  · exact Alg.merge_errors vars P hE c1 c2 e h

end Pacti.C05
