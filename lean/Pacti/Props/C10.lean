import Pacti.Proofs.Serial
import Pacti.Proofs.ReadNum
/-!
# C10 — contracts survive serialisation to dictionaries, strings and files

Property theorems only (helper lemmas live in `Pacti/Proofs/Serial.lean`; the executable model in
`Pacti/Model/Serial.lean`).

* machine dictionary: `fromDict (toMachine c) = .ok c` for every well-formed contract, and everything `fromDict`
  returns is well formed (so the side condition is exactly "a contract the constructor can have produced").
* `%.4g`: `round4 q` (the value of the digits `fmt4g q` prints — both are read off the same decomposition
  `dec4pos`) has four significant digits, is within half a unit of the fourth significant digit of `q`, commutes with negation, and
  is a fixed point of itself (printing what was printed changes nothing).
* folding: for an exactly opposite pair the folded relation (`LHS = c`, `|LHS| = 0`, `|LHS| <= c`) has exactly the
  meaning of the two inequalities, and the whole `to_str_list` loop (`folds`) preserves the meaning of the list as
  long as no pair lies in the approximate band of `np.isclose` without being exactly opposite.

The remaining link — that the parser reads the printed strings back as these relations with the printed (rounded)
numbers — is C09's parser model; here it is decided per case by the harness judge with exact `Fraction`s.
-/
namespace Pacti.C10
open Serial

/-! ### the machine dictionary -/

/-- a term in normal form (increasing variables, no zero coefficient): what `PolyhedralTerm.__init__` keeps -/
def NormalTerm (t : PTerm) : Prop := normC t.coeffs = t.coeffs

/-- every term built by the constructor is in normal form -/
theorem mk_normal (l : Lin) (c : Rat) : NormalTerm (PTerm.mk' l c) := normC_idem l

/-- normal form, explicitly: strictly increasing variables and no zero coefficient -/
theorem normal_iff (t : PTerm) : NormalTerm t ↔ SortedNZ t.coeffs :=
  ⟨fun h => by rw [← h]; exact normC_sorted _, normC_of_sorted _⟩

/-- a contract object that `IoContract.__init__` can have produced: normal-form terms and the five interface tests -/
structure WF (c : PContract) : Prop where
  a_normal : ∀ t ∈ c.a, NormalTerm t
  g_normal : ∀ t ∈ c.g, NormalTerm t
  ins_nodup : c.ins.Nodup
  outs_nodup : c.outs.Nodup
  disjoint : ∀ x ∈ c.ins, x ∉ c.outs
  a_vars : ∀ x ∈ c.a.vars, x ∈ c.ins
  g_vars : ∀ x ∈ c.g.vars, x ∈ c.ins ∨ x ∈ c.outs

/-- `from_dict(to_machine_dict(c), simplify=False)` is `c`: same assumptions, guarantees, inputs **and outputs**,
    in the same order, with exactly the same numbers. -/
theorem machine_roundtrip (c : PContract) (h : WF c) : fromDict (toMachine c) = .ok c := by
  have ga : (toMachine c).get? "assumptions" = some (.arr (c.a.map termToJ)) := by
    simp (config := { decide := true }) [toMachine, J.get?, List.find?]
  have gg : (toMachine c).get? "guarantees" = some (.arr (c.g.map termToJ)) := by
    simp (config := { decide := true }) [toMachine, J.get?, List.find?]
  have gi : (toMachine c).get? "input_vars" = some (.arr (c.ins.map J.name)) := by
    simp (config := { decide := true }) [toMachine, J.get?, List.find?]
  have go : (toMachine c).get? "output_vars" = some (.arr (c.outs.map J.name)) := by
    simp (config := { decide := true }) [toMachine, J.get?, List.find?]
  have hobj : isObj (toMachine c) = true := rfl
  unfold fromDict
  simp only [hobj, Bool.not_true, Bool.false_eq_true, if_false, ga, gg, gi, go,
    termsOfJ_map _ h.a_normal, termsOfJ_map _ h.g_normal, varsOfJ_map]
  exact mkContract_ok _ _ _ _ h.ins_nodup h.outs_nodup h.disjoint h.a_vars h.g_vars

/-- whatever `from_dict` returns is well formed (the hypothesis of `machine_roundtrip` is not an extra restriction) -/
theorem fromDict_wf (j : J) (c : PContract) (h : fromDict j = .ok c) : WF c := by
  unfold fromDict at h
  split at h
  · cases h
  · split at h
    · rename_i ja jg ji jo _ _ _ _
      cases ha : termsOfJ ja with
      | error e => rw [ha] at h; cases h
      | ok a =>
        cases hg : termsOfJ jg with
        | error e => rw [ha, hg] at h; cases h
        | ok g =>
          cases hi : varsOfJ ji with
          | error e => rw [ha, hg, hi] at h; cases h
          | ok ins =>
            cases ho : varsOfJ jo with
            | error e => rw [ha, hg, hi, ho] at h; cases h
            | ok outs =>
              rw [ha, hg, hi, ho] at h
              obtain ⟨rfl, h1, h2, h3, h4, h5⟩ := mkContract_inv _ _ _ _ _ h
              exact ⟨termsOfJ_normal _ _ ha, termsOfJ_normal _ _ hg, h1, h2, h3, h4, h5⟩
    · cases h

/-- a dictionary that is not a keyword dictionary, or lacks one of the four keywords, is a `ValueError` -/
theorem fromDict_missing (j : J) (k : String) (hk : k ∈ ["assumptions", "guarantees", "input_vars", "output_vars"])
    (h : j.get? k = none) : fromDict j = .error .valueError := by
  unfold fromDict
  split
  · rfl
  · simp only [List.mem_cons, List.not_mem_nil, or_false] at hk
    rcases hk with rfl | rfl | rfl | rfl <;> simp [h]

example : fromDict (toMachine ⟨[PTerm.mk' [(1, 2), (2, -1/3)] 5], [PTerm.mk' [(3, 1)] (-7/2)], [1, 2], [3]⟩)
    = .ok ⟨[PTerm.mk' [(1, 2), (2, -1/3)] 5], [PTerm.mk' [(3, 1)] (-7/2)], [1, 2], [3]⟩ := by decide +kernel

/-! ### four significant digits -/

theorem round4_zero : round4 0 = 0 := rfl

/-- the printed value has four significant digits: it is `±m·10^(e-3)` with `1000 ≤ m ≤ 9999` -/
theorem round4_digits (q : ℚ) (hq : q ≠ 0) :
    ∃ (m : ℕ) (e : ℤ), 1000 ≤ m ∧ m ≤ 9999 ∧ |round4 q| = (m : ℚ) * (10 : ℚ) ^ (e - 3) := by
  obtain ⟨h1, h2, _⟩ := dec4pos_spec q.num.natAbs q.den (num_natAbs_pos q hq) q.den_pos
  have hp := decOf_value_pos q hq
  refine ⟨(decOf q).m, (decOf q).e, h1, h2, ?_⟩
  rw [round4_eq, if_neg hq]
  split
  · rw [abs_neg, abs_of_pos hp, Dec.value, pow10_eq]
  · rw [abs_of_pos hp, Dec.value, pow10_eq]

/-- **`fmt4g_round4`**: the printed value is within half a unit of the fourth significant digit of `q`:
    if `10^e ≤ |q| < 10^(e+1)` then `|round4 q − q| ≤ 5·10^(e−4)`. -/
theorem round4_close (q : ℚ) (e : ℤ) (h1 : (10 : ℚ) ^ e ≤ |q|) (h2 : |q| < (10 : ℚ) ^ (e + 1)) :
    |round4 q - q| ≤ 5 * (10 : ℚ) ^ (e - 4) := by
  have hq : q ≠ 0 := by
    rintro rfl
    rw [abs_zero] at h1
    exact absurd h1 (not_le.mpr (zpow_pos (by norm_num) _))
  obtain ⟨_, _, h3⟩ := dec4pos_spec q.num.natAbs q.den (num_natAbs_pos q hq) q.den_pos
  obtain ⟨s1, s2⟩ := exp10_spec q.num.natAbs q.den (num_natAbs_pos q hq) q.den_pos
  rw [natAbs_div_den] at h3 s1 s2
  have he : exp10 q.num.natAbs q.den = e := exp_unique |q| _ _ s1 s2 h1 h2
  rw [he] at h3
  rw [round4_eq, if_neg hq]
  split
  · rename_i hneg
    rw [abs_of_neg hneg] at h3
    rw [show -(decOf q).value - q = -((decOf q).value - -q) by ring, abs_neg]
    exact h3
  · rename_i hpos
    rw [abs_of_nonneg (not_lt.mp hpos)] at h3
    exact h3

/-- the sign is printed separately: `round4 (−q) = −round4 q` -/
theorem round4_neg (q : ℚ) : round4 (-q) = - round4 q := by
  by_cases hq : q = 0
  · subst hq; rfl
  have hq' : -q ≠ 0 := neg_ne_zero.mpr hq
  have hd : decOf (-q) = decOf q := by
    unfold decOf
    rw [Rat.neg_num, Int.natAbs_neg, Rat.neg_den]
  rw [round4_eq, round4_eq, if_neg hq, if_neg hq', hd]
  rcases lt_or_gt_of_ne hq with h | h
  · rw [if_neg (by linarith), if_pos h]; ring
  · rw [if_pos (by linarith), if_neg (by linarith)]

/-- printing what was printed changes nothing: `round4 (round4 q) = round4 q` -/
theorem round4_idem (q : ℚ) : round4 (round4 q) = round4 q := by
  by_cases hq : q = 0
  · subst hq; rfl
  -- positive core: the value `V` of a decomposition decomposes into itself
  have core : round4 (decOf q).value = (decOf q).value := by
    obtain ⟨h1, h2, _⟩ := dec4pos_spec q.num.natAbs q.den (num_natAbs_pos q hq) q.den_pos
    have hp := decOf_value_pos q hq
    generalize hV : (decOf q).value = V at hp
    have hV0 : V ≠ 0 := hp.ne'
    have hdec : decOf V = decOf q := by
      have := dec4pos_of_value V.num.natAbs V.den (decOf q).m (decOf q).e (num_natAbs_pos V hV0) V.den_pos h1 h2
        (by rw [natAbs_div_den, abs_of_pos hp, ← hV, Dec.value, pow10_eq])
      exact this
    rw [round4_eq, if_neg hV0, if_neg (by linarith), hdec, hV]
  have hr : round4 q = if q < 0 then -(decOf q).value else (decOf q).value := by rw [round4_eq, if_neg hq]
  rw [hr]
  split
  · rw [round4_neg, core]
  · exact core

/-- `fmt4g` and `round4` read the same decomposition: the string is the rendering of the digits `d` (with the sign in
    front) and `round4 q` is the value of exactly these digits -/
theorem fmt4g_round4_same_digits (q : ℚ) (hq : q ≠ 0) :
    ∃ d : Dec, 1000 ≤ d.m ∧ d.m ≤ 9999 ∧
      fmt4g q = String.ofList (if q < 0 then '-' :: d.renderL else d.renderL) ∧
      round4 q = (if q < 0 then -d.value else d.value) := by
  obtain ⟨h1, h2, _⟩ := dec4pos_spec q.num.natAbs q.den (num_natAbs_pos q hq) q.den_pos
  refine ⟨decOf q, h1, h2, ?_, ?_⟩
  · unfold fmt4g fmt4gL decOf; rw [if_neg hq]
  · rw [round4_eq, if_neg hq]

/-- **the printed numeral denotes the rounded value.**  Reading the string that `%.4g` prints back as a decimal numeral
    (`readNum`: `[-]ddd[.ddd][e±dd]`, the shape `float(s)` and the grammar's number token accept) gives exactly
    `round4 q` — for every rational `q`, fixed and scientific notation, renormalised mantissas included. -/
theorem readNum_fmt4g (q : ℚ) : readNum (fmt4g q) = some (round4 q) := Serial.readNum_fmt4g q

/-- the printed string is stable under its own rounding: the number that was printed prints as the same string -/
theorem fmt4g_round4 (q : ℚ) : fmt4g (round4 q) = fmt4g q := by
  by_cases hq : q = 0
  · subst hq; rfl
  obtain ⟨h1, h2, _⟩ := dec4pos_spec q.num.natAbs q.den (num_natAbs_pos q hq) q.den_pos
  have hp := decOf_value_pos q hq
  -- the value `V` of the decomposition decomposes into itself
  have hdecV : ∀ V : ℚ, V = (decOf q).value → decOf V = decOf q := by
    intro V hV
    have hp' : 0 < V := hV ▸ hp
    exact dec4pos_of_value V.num.natAbs V.den (decOf q).m (decOf q).e (num_natAbs_pos V hp'.ne') V.den_pos h1 h2
      (by rw [natAbs_div_den, abs_of_pos hp', hV, Dec.value, pow10_eq])
  have hneg : ∀ V : ℚ, decOf (-V) = decOf V := by
    intro V; unfold decOf; rw [Rat.neg_num, Int.natAbs_neg, Rat.neg_den]
  unfold fmt4g
  congr 1
  have hr : round4 q = if q < 0 then -(decOf q).value else (decOf q).value := by rw [round4_eq, if_neg hq]
  unfold fmt4gL
  rw [if_neg hq]
  by_cases hlt : q < 0
  · rw [hr, if_pos hlt, if_pos hlt]
    have hne : -(decOf q).value ≠ 0 := by linarith
    have hl : -(decOf q).value < 0 := by linarith
    rw [if_neg hne, if_pos hl]
    show '-' :: (decOf (-(decOf q).value)).renderL = '-' :: (decOf q).renderL
    rw [hneg, hdecV _ rfl]
  · rw [hr, if_neg hlt, if_neg hlt]
    have hne : (decOf q).value ≠ 0 := hp.ne'
    have hl : ¬ (decOf q).value < 0 := by linarith
    rw [if_neg hne, if_neg hl]
    show (decOf ((decOf q).value)).renderL = (decOf q).renderL
    rw [hdecV _ rfl]

/-- printing, reading back and printing again changes nothing -/
theorem fmt4g_readNum_fmt4g (q : ℚ) : (readNum (fmt4g q)).map fmt4g = some (fmt4g q) := by
  rw [readNum_fmt4g, Option.map_some, fmt4g_round4]

example : fmt4g (12345 / 10) = "1234" := by decide +kernel
example : fmt4g (99995 / 10) = "1e+04" := by decide +kernel
example : fmt4g (-1 / 30000) = "-3.333e-05" := by decide +kernel
example : round4 (12345 / 10) = 1234 := by decide +kernel      -- tie → even
example : round4 (12355 / 10) = 1236 := by decide +kernel
example : round4 (99995 / 10) = 10000 := by decide +kernel     -- renormalised mantissa
example : round4 (-1 / 3) = -3333 / 10000 := by decide +kernel

/-! ### folding opposite pairs -/

/-- the meaning of what one round of `polyhedral_term_list_to_strings` prints for the head term (exact numbers) -/
def foldHolds (tp : PTerm) (f : Fold) (v : Val) : Prop :=
  match f with
  | .le => tp.lhs v ≤ tp.const
  | .eq _ => tp.lhs v = tp.const
  | .abs0 _ => |tp.lhs v| = 0
  | .absle _ => |tp.lhs v| ≤ tp.const

theorem lhs_opp (tp tn : PTerm) (h : ExactOpp tp tn) (v : Val) : tn.lhs v = - tp.lhs v := by
  unfold PTerm.lhs; rw [h]; exact evalL_negmap _ v

/-- rule `LHS = c`: an exactly opposite pair with exactly opposite constants means the equality -/
theorem fold_eq_sound (tp tn : PTerm) (h : ExactOpp tp tn) (hc : tn.const = -tp.const) (v : Val) :
    (tp.holds v ∧ tn.holds v) ↔ tp.lhs v = tp.const := by
  have := lhs_opp tp tn h v
  unfold PTerm.holds
  unfold PTerm.lhs at this ⊢
  rw [this, hc]
  constructor
  · rintro ⟨a, b⟩; linarith
  · intro e; constructor <;> linarith

/-- rule `|LHS| <= c`: an exactly opposite pair with equal constants means the absolute-value bound -/
theorem fold_abs_sound (tp tn : PTerm) (h : ExactOpp tp tn) (hc : tn.const = tp.const) (v : Val) :
    (tp.holds v ∧ tn.holds v) ↔ |tp.lhs v| ≤ tp.const := by
  have := lhs_opp tp tn h v
  unfold PTerm.holds
  unfold PTerm.lhs at this ⊢
  rw [this, hc, abs_le]
  constructor
  · rintro ⟨a, b⟩; constructor <;> linarith
  · rintro ⟨a, b⟩; constructor <;> linarith

/-- rule `|LHS| = 0`: an exactly opposite pair with both constants zero means `|LHS| = 0` -/
theorem fold_abs0_sound (tp tn : PTerm) (h : ExactOpp tp tn) (hp : tp.const = 0) (hn : tn.const = 0) (v : Val) :
    (tp.holds v ∧ tn.holds v) ↔ |tp.lhs v| = 0 := by
  rw [fold_abs_sound tp tn h (by rw [hp, hn]) v, hp]
  exact ⟨fun h => le_antisymm h (abs_nonneg _), fun h => h.le⟩

/-- the printer's approximate test accepts every exactly opposite pair of normal-form terms (so the rules above
    do fire on them) -/
theorem exact_is_opposite (tp tn : PTerm) (hp : NormalTerm tp) (h : ExactOpp tp tn) : areOpposite tp tn = true :=
  areOpposite_of_exact tp tn ((normal_iff tp).mp hp) h

/-- a pair is either really opposite (with really opposite / zero / equal constants when the corresponding test
    says so) or it does not pass the approximate tests at all -/
def ExactPair (tp tn : PTerm) : Prop :=
  areOpposite tp tn = true →
    ExactOpp tp tn ∧
    (approxEq tp.const (-tn.const) = true → tn.const = -tp.const) ∧
    (approxEq tp.const 0 = true → approxEq tn.const 0 = true → tp.const = 0 ∧ tn.const = 0) ∧
    (approxEq tp.const tn.const = true → tn.const = tp.const)

/-- no pair of the list lies strictly inside the `isclose` band -/
def NoNearOpposite (l : TL) : Prop := ∀ tp ∈ l, ∀ tn ∈ l, ExactPair tp tn

theorem foldsGo_sound (v : Val) : ∀ (fuel : Nat) (l : TL), l.length ≤ fuel → NoNearOpposite l →
    ((∀ p ∈ foldsGo fuel l, foldHolds p.1 p.2 v) ↔ TL.holds l v)
  | 0, l, hl, _ => by
    have : l = [] := List.length_eq_zero_iff.mp (by omega)
    subst this
    simp [foldsGo, TL.holds]
  | fuel + 1, [], _, _ => by simp [foldsGo, TL.holds]
  | fuel + 1, tp :: ts, hl, hn => by
    have hlen : ∀ tn, (ts.erase tn).length ≤ fuel := fun tn => by
      have := List.length_erase_le (a := tn) (l := ts)
      simp only [List.length_cons] at hl; omega
    have hsub : ∀ tn, NoNearOpposite (ts.erase tn) := fun tn a ha b hb =>
      hn a (List.mem_cons_of_mem _ (List.mem_of_mem_erase ha)) b (List.mem_cons_of_mem _ (List.mem_of_mem_erase hb))
    have hts : NoNearOpposite ts := fun a ha b hb => hn a (List.mem_cons_of_mem _ ha) b (List.mem_cons_of_mem _ hb)
    have hlen' : ts.length ≤ fuel := by simp only [List.length_cons] at hl; omega
    have spec := findFold_spec tp ts
    simp only [foldsGo, List.forall_mem_cons, TL.holds_cons]
    cases hf : findFold tp ts with
    | le =>
      simp only [foldRest]
      rw [foldsGo_sound v fuel ts hlen' hts]
      rfl
    | eq tn =>
      rw [hf] at spec
      obtain ⟨hm, ho, hc⟩ := spec
      obtain ⟨hx, h1, _, _⟩ := hn tp List.mem_cons_self tn (List.mem_cons_of_mem _ hm) ho
      simp only [foldRest]
      rw [foldsGo_sound v fuel _ (hlen tn) (hsub tn), holds_erase ts tn hm v, ← and_assoc,
        fold_eq_sound tp tn hx (h1 hc) v]
      rfl
    | abs0 tn =>
      rw [hf] at spec
      obtain ⟨hm, ho, hc1, hc2⟩ := spec
      obtain ⟨hx, _, h2, _⟩ := hn tp List.mem_cons_self tn (List.mem_cons_of_mem _ hm) ho
      simp only [foldRest]
      rw [foldsGo_sound v fuel _ (hlen tn) (hsub tn), holds_erase ts tn hm v, ← and_assoc,
        fold_abs0_sound tp tn hx (h2 hc1 hc2).1 (h2 hc1 hc2).2 v]
      rfl
    | absle tn =>
      rw [hf] at spec
      obtain ⟨hm, ho, hc⟩ := spec
      obtain ⟨hx, _, _, h3⟩ := hn tp List.mem_cons_self tn (List.mem_cons_of_mem _ hm) ho
      simp only [foldRest]
      rw [foldsGo_sound v fuel _ (hlen tn) (hsub tn), holds_erase ts tn hm v, ← and_assoc,
        fold_abs_sound tp tn hx (h3 hc) v]
      rfl

/-- **the whole `to_str_list` loop preserves meaning** (before rounding): the relations it prints — one per round,
    partner removed — hold at `v` exactly when every term of the list does.  `termListToStrs names l` is by
    definition `(folds l).map (foldStr names ·)`. -/
theorem folds_sound (l : TL) (h : NoNearOpposite l) (v : Val) :
    (∀ p ∈ folds l, foldHolds p.1 p.2 v) ↔ TL.holds l v :=
  foldsGo_sound v l.length l (Nat.le_refl _) h

theorem termListToStrs_eq (names : List String) (l : TL) :
    termListToStrs names l = (folds l).map fun p => foldStr names p.1 p.2 := rfl

/-- the loop prints one string per round and never more strings than terms -/
theorem folds_length_le (l : TL) : (folds l).length ≤ l.length := by
  have : ∀ fuel (l : TL), (foldsGo fuel l).length ≤ fuel := by
    intro fuel
    induction fuel with
    | zero => intro l; simp [foldsGo]
    | succ n ih =>
      intro l
      cases l with
      | nil => simp [foldsGo]
      | cons t r => simp only [foldsGo, List.length_cons]; exact Nat.succ_le_succ (ih _)
  exact this _ _

-- non-vacuity: a folded equality, a folded absolute value, a non-adjacent partner
example : folds [PTerm.mk' [(1, 2)] 3, PTerm.mk' [(2, 1)] 1, PTerm.mk' [(1, -2)] (-3)]
    = [(PTerm.mk' [(1, 2)] 3, .eq (PTerm.mk' [(1, -2)] (-3))), (PTerm.mk' [(2, 1)] 1, .le)] := by decide +kernel
example : folds [PTerm.mk' [(1, 2)] 3, PTerm.mk' [(1, -2)] 3] = [(PTerm.mk' [(1, 2)] 3, .absle (PTerm.mk' [(1, -2)] 3))] := by
  decide +kernel

end Pacti.C10
