import Pacti.Model.Contract
import Pacti.Proofs.Refine
import Pacti.Proofs.LP
import Mathlib.Tactic.NormNum
/-!
# C03 — refinement tests decide semantic containment

`refinesTL`/`refinesC` return a `Verdict`: `yes`/`no` are definite, `gray` (only when the code compares with a
tolerance, `Gen.containTol > 0`) means the exact optimum lies within the tolerance band above the bound, where the
float implementation may answer either way.  All theorems hold for every certified LP oracle.
-/
namespace Pacti.C03
open Poly

theorem holds_tlUnion (a b : TL) (v : Val) : TL.holds (tlUnion a b) v ↔ TL.holds a v ∧ TL.holds b v := by
  unfold TL.holds tlUnion
  constructor
  · intro h; exact ⟨fun t ht => h t (by simp [ht]), fun t ht => h t (by simp [ht])⟩
  · rintro ⟨h1, h2⟩ t ht
    rcases (Gen.mem_list_union a b t).mp ht with h | h
    · exact h1 t h
    · exact h2 t h

theorem proper_tlUnion (a b : TL) (ha : a.Proper) (hb : b.Proper) : (tlUnion a b).Proper := by
  intro t ht
  rcases (Gen.mem_list_union a b t).mp ht with h | h
  · exact ha t h
  · exact hb t h

/-- the tolerance the code compares with (read off the source by the translator) is non-negative -/
theorem tol_nonneg : 0 ≤ Gen.containTol := by unfold Gen.containTol; norm_num

/-- `True` only for containment (no side condition at all). -/
theorem refinesTL_yes (O : Oracle) (hO : O.Certified) (l r : TL) (h : refinesTL O l r = .ok .yes) :
    ∀ v, TL.holds l v → TL.holds r v := Poly.refinesTL_yes O hO l r h

/-- `False` only when some behaviour of the left side violates the right side (terms mention ≥ 1 variable). -/
theorem refinesTL_no (O : Oracle) (hO : O.Certified) (l r : TL) (hl : l.Proper) (hr : r.Proper)
    (h : refinesTL O l r = .ok .no) : ∃ v, TL.holds l v ∧ ¬ TL.holds r v :=
  Poly.refinesTL_no O hO l r hl hr tol_nonneg h

/-- completeness: containment is never answered `no` -/
theorem refinesTL_complete (O : Oracle) (hO : O.Certified) (l r : TL) (hl : l.Proper) (hr : r.Proper)
    (hcont : ∀ v, TL.holds l v → TL.holds r v) : refinesTL O l r ≠ .ok .no := by
  intro h
  obtain ⟨v, hv, hn⟩ := refinesTL_no O hO l r hl hr h
  exact hn (hcont v hv)

/-- an infeasible left side refines everything -/
theorem infeasible_left (O : Oracle) (hO : O.Certified) (l r : TL) (hl : l.Proper) (hr : r.Proper)
    (hinf : ¬ ∃ v, TL.holds l v) : refinesTL O l r ≠ .ok .no :=
  refinesTL_complete O hO l r hl hr (fun v hv => absurd ⟨v, hv⟩ hinf)

/-- nothing feasible refines an infeasible right side -/
theorem infeasible_right (O : Oracle) (hO : O.Certified) (l r : TL) (hsat : ∃ v, TL.holds l v)
    (hinf : ¬ ∃ v, TL.holds r v) : refinesTL O l r ≠ .ok .yes := by
  intro h
  obtain ⟨v, hv⟩ := hsat
  exact hinf ⟨v, refinesTL_yes O hO l r h v hv⟩

/-- reflexivity and sub-lists: never `no` -/
theorem refines_sublist (O : Oracle) (hO : O.Certified) (l r : TL) (hl : l.Proper) (hsub : ∀ t ∈ r, t ∈ l) : refinesTL O l r ≠ .ok .no :=
  refinesTL_complete O hO l r hl (fun t ht => hl t (hsub t ht)) (fun v hv t ht => hv t (hsub t ht))

/-- contracts: `True` only if interfaces agree as sets, assumptions are no stronger and guarantees no weaker
    wherever the right side's assumptions hold -/
theorem refinesC_yes (O : Oracle) (hO : O.Certified) (c d : PContract) (h : refinesC O c d = .ok .yes) :
    (∀ x, x ∈ c.ins ↔ x ∈ d.ins) ∧ (∀ x, x ∈ c.outs ↔ x ∈ d.outs) ∧
    (∀ v, TL.holds d.a v → TL.holds c.a v) ∧ (∀ v, TL.holds d.a v → TL.holds c.g v → TL.holds d.g v) := by
  unfold refinesC at h
  split at h; · cases h
  rename_i hio
  have hio : Gen.lists_equal c.ins d.ins = true ∧ Gen.lists_equal c.outs d.outs = true := by
    simpa [sharesIO] using hio
  split at h; · cases h
  rename_i v1 h1
  split at h; · cases h
  rename_i v2 h2
  injection h with h
  have hv : v1 = .yes ∧ v2 = .yes := by
    cases v1 <;> cases v2 <;> simp [andV] at h ⊢
  rw [hv.1] at h1; rw [hv.2] at h2
  refine ⟨(Gen.lists_equal_iff _ _).mp hio.1, (Gen.lists_equal_iff _ _).mp hio.2, refinesTL_yes O hO _ _ h1, ?_⟩
  intro v ha hg
  exact ((holds_tlUnion _ _ v).mp (refinesTL_yes O hO _ _ h2 v ((holds_tlUnion _ _ v).mpr ⟨hg, ha⟩))).1

/-- contracts: `False` only if a behaviour witnesses non-refinement -/
theorem refinesC_no (O : Oracle) (hO : O.Certified) (c d : PContract)
    (hp : c.a.Proper ∧ c.g.Proper ∧ d.a.Proper ∧ d.g.Proper)
    (h : refinesC O c d = .ok .no) :
    (∃ v, TL.holds d.a v ∧ ¬ TL.holds c.a v) ∨ (∃ v, TL.holds d.a v ∧ TL.holds c.g v ∧ ¬ TL.holds d.g v) := by
  unfold refinesC at h
  split at h; · cases h
  split at h; · cases h
  rename_i v1 h1
  split at h; · cases h
  rename_i v2 h2
  injection h with h
  have hv : v1 = .no ∨ v2 = .no := by
    cases v1 <;> cases v2 <;> simp [andV] at h ⊢
  rcases hv with hv | hv
  · rw [hv] at h1
    exact Or.inl (refinesTL_no O hO _ _ hp.2.2.1 hp.1 h1)
  · rw [hv] at h2
    obtain ⟨v, hv1, hv2⟩ := refinesTL_no O hO _ _ (proper_tlUnion _ _ hp.2.1 hp.2.2.1)
      (proper_tlUnion _ _ hp.2.2.2 hp.2.2.1) h2
    obtain ⟨hg, ha⟩ := (holds_tlUnion _ _ v).mp hv1
    refine Or.inr ⟨v, ha, hg, fun hdg => hv2 ((holds_tlUnion _ _ v).mpr ⟨hdg, ha⟩)⟩

/-- different interfaces raise `IncompatibleArgsError` instead of being compared -/
theorem refinesC_io_error (O : Oracle) (c d : PContract)
    (h : ¬ ((∀ x, x ∈ c.ins ↔ x ∈ d.ins) ∧ (∀ x, x ∈ c.outs ↔ x ∈ d.outs))) :
    refinesC O c d = .error .incompatibleArgs := by
  unfold refinesC
  have : sharesIO c d = false := by
    by_contra hn
    simp only [Bool.not_eq_false, sharesIO, Bool.and_eq_true] at hn
    exact h ⟨(Gen.lists_equal_iff _ _).mp hn.1, (Gen.lists_equal_iff _ _).mp hn.2⟩
  simp [this]

/-- environment / implementation membership are the same list test -/
theorem containsEnvironment_yes (O : Oracle) (hO : O.Certified) (c : PContract) (e : TL)
    (h : containsEnvironment O c e = .ok .yes) : ∀ v, TL.holds e v → TL.holds c.a v := refinesTL_yes O hO _ _ h

theorem containsImplementation_yes (O : Oracle) (hO : O.Certified) (c : PContract) (m : TL)
    (h : containsImplementation O c m = .ok .yes) : ∀ v, TL.holds m v → TL.holds c.a v → TL.holds c.g v := by
  intro v hm ha
  exact ((holds_tlUnion _ _ v).mp (refinesTL_yes O hO _ _ h v ((holds_tlUnion _ _ v).mpr ⟨hm, ha⟩))).1

/-- the oracle class is inhabited by the driver's oracle, whatever solver it wraps -/
theorem driver_oracle_certified (solver : Lin → TL → LPAns) : (checkedOracle solver).Certified :=
  checkedOracle_certified solver

end Pacti.C03
