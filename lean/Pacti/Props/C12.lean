import Pacti.Proofs.Optimize
import Pacti.Proofs.LP
import Pacti.Proofs.Lists
import Pacti.Model.PolyAlg
/-!
# C12 — optimisation over a contract returns the true optimum, `None` iff unbounded

`Poly.optimize O l obj maximize` models `PolyhedralTermList.optimize` on the constraint list `l = a | g` of the
contract, with the code's status mapping.  The theorems are proved for the oracle class `PresolveAmbiguous`, in
which — as HiGHS does after presolve — `infeasible` may also be answered for a satisfiable problem whose objective is
unbounded; a fortiori they hold for every certified oracle (`certified_is_ambiguous`).  Since the four possible
outcomes (`some m`, `none`, `ValueError`, model-only `oracleStuck`) are exhaustive and the three conclusions are
mutually exclusive, each implication is an equivalence.
-/
namespace Pacti.C12
open Poly

/-- a value is returned only if it is attained and optimal in the requested direction -/
theorem optimize_some (O : Oracle) (hO : O.PresolveAmbiguous) (l : TL) (obj : Lin) (mx : Bool) (m : Rat)
    (h : optimize O l obj mx = .ok (some m)) :
    (∃ z, TL.holds l z ∧ evalL obj z = m) ∧
    ∀ z, TL.holds l z → (if mx then evalL obj z ≤ m else m ≤ evalL obj z) :=
  Poly.optimize_some O hO l obj mx m h

/-- `None` only if some behaviour satisfies the contract and the objective is unbounded in the requested direction.
    (Earlier versions needed `l.Proper`; the excluded point `[0 ≤ -1]` was a genuine defect of the code, repaired in
    `is_polytope_empty`, and the hypothesis is gone; the proof checks only against the repaired source:
    `Gen.emptyNoColsBySign = true` by `rfl`.) -/
theorem optimize_none (O : Oracle) (hO : O.PresolveAmbiguous) (l : TL) (obj : Lin) (mx : Bool)
    (h : optimize O l obj mx = .ok none) :
    (∃ z, TL.holds l z) ∧ ∀ M, ∃ z, TL.holds l z ∧ (if mx then M < evalL obj z else evalL obj z < -M) :=
  Poly.optimize_none rfl O hO l obj mx h

/-- `ValueError` only if no behaviour satisfies the contract -/
theorem optimize_err (O : Oracle) (hO : O.PresolveAmbiguous) (l : TL) (obj : Lin) (mx : Bool)
    (h : optimize O l obj mx = .error .valueError) : ¬ ∃ z, TL.holds l z :=
  Poly.optimize_err O hO l obj mx h

/-- every behaviour of the contract lies within the variable bounds -/
theorem bounds_enclose (O : Oracle) (hO : O.PresolveAmbiguous) (l : TL) (x : Var) (lo hi : Option Rat)
    (h : variableBounds O l x = .ok (lo, hi)) :
    ∀ v, TL.holds l v → (∀ a, lo = some a → a ≤ v x) ∧ (∀ b, hi = some b → v x ≤ b) :=
  Poly.bounds_enclose O hO l x lo hi h

/-! ### contract level: `PolyhedralIoContract.optimize` / `get_variable_bounds` run the list operation on `a | g` -/

theorem holds_union (a g : TL) (v : Val) : TL.holds (Gen.list_union a g) v ↔ TL.holds a v ∧ TL.holds g v := by
  constructor
  · intro h
    exact ⟨fun t ht => h t ((Gen.mem_list_union a g t).mpr (Or.inl ht)), fun t ht => h t ((Gen.mem_list_union a g t).mpr (Or.inr ht))⟩
  · rintro ⟨ha, hg⟩ t ht
    rcases (Gen.mem_list_union a g t).mp ht with h | h
    · exact ha t h
    · exact hg t h

/-- a value is returned only if some behaviour satisfying assumptions and guarantees attains it and none exceeds it -/
theorem contract_optimize_some (O : Oracle) (hO : O.PresolveAmbiguous) (c : Contract PTerm) (obj : Lin) (mx : Bool) (m : Rat)
    (h : PolyAlg.optimizeC O c obj mx = .ok (some m)) :
    (∃ z, TL.holds c.a z ∧ TL.holds c.g z ∧ evalL obj z = m) ∧
    ∀ z, TL.holds c.a z → TL.holds c.g z → (if mx then evalL obj z ≤ m else m ≤ evalL obj z) := by
  obtain ⟨⟨z, hz, hm⟩, hall⟩ := Poly.optimize_some O hO _ obj mx m h
  exact ⟨⟨z, ((holds_union _ _ z).mp hz).1, ((holds_union _ _ z).mp hz).2, hm⟩,
    fun z ha hg => hall z ((holds_union _ _ z).mpr ⟨ha, hg⟩)⟩

/-- `None` only if the contract has a behaviour and the objective is unbounded over its behaviours -/
theorem contract_optimize_none (O : Oracle) (hO : O.PresolveAmbiguous) (c : Contract PTerm)
    (obj : Lin) (mx : Bool) (h : PolyAlg.optimizeC O c obj mx = .ok none) :
    (∃ z, TL.holds c.a z ∧ TL.holds c.g z) ∧
    ∀ M, ∃ z, TL.holds c.a z ∧ TL.holds c.g z ∧ (if mx then M < evalL obj z else evalL obj z < -M) := by
  obtain ⟨⟨z, hz⟩, hall⟩ := Poly.optimize_none rfl O hO _ obj mx h
  refine ⟨⟨z, (holds_union _ _ z).mp hz⟩, fun M => ?_⟩
  obtain ⟨z', hz', hM⟩ := hall M
  exact ⟨z', ((holds_union _ _ z').mp hz').1, ((holds_union _ _ z').mp hz').2, hM⟩

/-- `ValueError` only if no behaviour satisfies assumptions and guarantees together -/
theorem contract_optimize_err (O : Oracle) (hO : O.PresolveAmbiguous) (c : Contract PTerm) (obj : Lin) (mx : Bool)
    (h : PolyAlg.optimizeC O c obj mx = .error .valueError) : ¬ ∃ z, TL.holds c.a z ∧ TL.holds c.g z :=
  fun ⟨z, ha, hg⟩ => Poly.optimize_err O hO _ obj mx h ⟨z, (holds_union _ _ z).mpr ⟨ha, hg⟩⟩

/-- every behaviour of the contract lies within the reported variable bounds -/
theorem contract_bounds_enclose (O : Oracle) (hO : O.PresolveAmbiguous) (c : Contract PTerm) (x : Var) (lo hi : Option Rat)
    (h : PolyAlg.boundsC O c x = .ok (lo, hi)) :
    ∀ v, TL.holds c.a v → TL.holds c.g v → (∀ a, lo = some a → a ≤ v x) ∧ (∀ b, hi = some b → v x ≤ b) :=
  fun v ha hg => Poly.bounds_enclose O hO _ x lo hi h v ((holds_union _ _ v).mpr ⟨ha, hg⟩)

theorem certified_is_ambiguous (O : Oracle) (h : O.Certified) : O.PresolveAmbiguous :=
  Oracle.Certified.toPresolveAmbiguous O h

/-- the pinned status mapping (`2 ↦ ValueError` unconditionally) is wrong for the ambiguous class: an oracle of that
    class and a satisfiable unbounded problem on which it would have raised -/
example : ∃ (O : Oracle), O.PresolveAmbiguous ∧ O.lp [(1, 1)] [⟨[(1, -1)], 0⟩] = .infeasible ∧ (∃ z, TL.holds [⟨[(1, -1)], 0⟩] z) := by
  refine ⟨⟨fun obj cs => if obj = [(1, 1)] ∧ cs = [⟨[(1, -1)], 0⟩] then .infeasible else .stuck⟩, ?_, by simp, ?_⟩
  · constructor
    · intro obj cs m x h; simp only at h; split at h <;> cases h
    · intro obj cs h
      simp only at h
      split at h
      · rename_i hc; obtain ⟨rfl, rfl⟩ := hc
        right
        refine ⟨⟨fun _ => 0, by intro t ht; simp at ht; subst ht; simp [PTerm.holds, evalL]⟩, fun M => ?_⟩
        refine ⟨fun _ => max 0 M + 1, ?_, ?_⟩
        · intro t ht; simp at ht; subst ht
          simp only [PTerm.holds, evalL]
          have : (0 : Rat) ≤ max 0 M := le_max_left _ _
          linarith
        · simp only [evalL]
          have : M ≤ max 0 M := le_max_right _ _
          linarith
      · cases h
    · intro cs h; simp only at h; split at h
      · rename_i hc; exact absurd hc.1 (by decide)
      · cases h
    · intro obj cs h; simp only at h; split at h <;> cases h
  · exact ⟨fun _ => 0, by intro t ht; simp at ht; subst ht; simp [PTerm.holds, evalL]⟩

end Pacti.C12
