import Pacti.Proofs.Eq
/-!
# C19 — equality, hashing and copying of terms, lists and contracts are coherent

Property theorems only (helper lemmas: `Pacti/Proofs/Eq.lean`; model: `Pacti/Model/Eq.lean`).

`N` is any number type with the three operations the code applies to numbers (`eqN` = `np.equal`, `strN` = `str`,
`isZero` = the constructor's `value != 0` test).  `NodupKeys` is the Python dict invariant (no repeated key), `NoZero` the
constructor's invariant (no zero coefficient stored).  `nm` prints a variable, `H` are the interpreter's hash
functions: both arbitrary.  `Contract.eq` / `Compound.eq` are the equalities *as written in the source*: whether they
compare the output lists is the generated constant `Gen.eqComparesOutputs` / `Gen.eqCompoundComparesOutputs`
(read off the AST of `__eq__` by `tools/py2lean.py` on every run).  Theorems that are true only of a source that does
compare them carry that constant `= true` as a hypothesis; the `_pinned` theorems carry `= false` and exhibit the
defect on a concrete witness.  `contract_eq_spec` is unconditional.
-/
namespace Pacti.C19
open EqModel

variable {N : Type} [NumOps N]

/-! ## equality is an equivalence -/

/-- `PolyhedralTerm.__eq__` is reflexive, symmetric and transitive whenever `np.equal` is an equivalence on the numbers
    (all finite doubles; not NaN). -/
theorem term_eq_equiv (he : NumOps.IsEquiv N) (s t u : Term N) (hs : s.NodupKeys) (ht : t.NodupKeys) :
    Term.eq s s = true ∧ (Term.eq s t = true → Term.eq t s = true) ∧
      (Term.eq s t = true → Term.eq t u = true → Term.eq s u = true) :=
  ⟨Term.eq_refl he.refl s hs, Term.eq_symm he.symm s t ht, Term.eq_trans he.trans s t u⟩

/-- the same for `TermList.__eq__` (ordered list equality of terms) -/
theorem tl_eq_equiv (he : NumOps.IsEquiv N) (l m n : TList N) (hl : l.NodupKeys) (hm : m.NodupKeys) :
    TList.eq l l = true ∧ (TList.eq l m = true → TList.eq m l = true) ∧
      (TList.eq l m = true → TList.eq m n = true → TList.eq l n = true) :=
  ⟨TList.eq_refl he.refl l hl, TList.eq_symm he.symm l m hm, TList.eq_trans he.trans l m n⟩

/-- …and for `IoContract.__eq__`, whichever way the output lists are treated (also for the pinned source, which
    ignores them on both sides). -/
theorem contract_eq_equiv (he : NumOps.IsEquiv N) (c d e : Contract N) (hc : c.a.NodupKeys ∧ c.g.NodupKeys)
    (hd : d.a.NodupKeys ∧ d.g.NodupKeys) :
    Contract.eq c c = true ∧ (Contract.eq c d = true → Contract.eq d c = true) ∧
      (Contract.eq c d = true → Contract.eq d e = true → Contract.eq c e = true) := by
  unfold Contract.eq Contract.eqWith
  refine ⟨?_, ?_, ?_⟩
  · simp [TList.eq_refl he.refl c.a hc.1, TList.eq_refl he.refl c.g hc.2]
  · cases Gen.eqComparesOutputs <;>
    · simp only [Bool.and_eq_true, beq_iff_eq, ↓reduceIte, Bool.false_eq_true]
      rintro ⟨⟨⟨h1, h2⟩, h3⟩, h4⟩
      simp [h1, h2, TList.eq_symm he.symm _ _ hd.1 h3, TList.eq_symm he.symm _ _ hd.2 h4]
  · cases Gen.eqComparesOutputs <;>
    · simp only [Bool.and_eq_true, beq_iff_eq, ↓reduceIte, Bool.false_eq_true]
      rintro ⟨⟨⟨h1, h2⟩, h3⟩, h4⟩ ⟨⟨⟨k1, k2⟩, k3⟩, k4⟩
      simp [h1, k1, h2, k2, TList.eq_trans he.trans _ _ _ h3 k3, TList.eq_trans he.trans _ _ _ h4 k4]

/-! ## equal objects have equal hashes -/

/-- If equal numbers print equally (`NumOps.Coherent`), equal terms have equal hashes — for every hash function. -/
theorem term_eq_hash {Hc : Type} (hc : NumOps.Coherent N) (nm : V → String) (H : Hashers Hc) (s t : Term N)
    (hs : s.NodupKeys) (ht : t.NodupKeys) (h : Term.eq s t = true) : Term.hash nm H s = Term.hash nm H t := by
  unfold Term.hash
  rw [Term.str_eq_of_eq hc nm s t hs ht h]

/-- likewise for term lists (`hash(tuple(terms))`) -/
theorem tl_eq_hash {Hc : Type} (hc : NumOps.Coherent N) (nm : V → String) (H : Hashers Hc) (l m : TList N)
    (hl : l.NodupKeys) (hm : m.NodupKeys) (h : TList.eq l m = true) : TList.hash nm H l = TList.hash nm H m := by
  unfold TList.hash
  rw [TList.hash_eq_of_eq hc nm H l m hl hm h]

/-- IEEE doubles satisfy only part of the coherence law (`NumOps.CoherentIEEE`: non-zero numbers, and constants printed
    through `+ 0.0`).  For such numbers equal *constructed* terms (no zero coefficient stored) have equal hashes provided
    the source prints the constant as `str(self.constant + 0.0)` (`Gen.strConstPlusZero = true`; false on the pinned
    source, where `ieee_term_witness_pinned` applies instead). -/
theorem term_eq_hash_ieee {Hc : Type} (hstr : Gen.strConstPlusZero = true) (hc : NumOps.CoherentIEEE N) (nm : V → String)
    (H : Hashers Hc) (s t : Term N) (hs : s.NodupKeys) (ht : t.NodupKeys) (hz : s.NoZero) (h : Term.eq s t = true) :
    Term.hash nm H s = Term.hash nm H t := by
  unfold Term.hash Term.str
  rw [hstr, Term.strWith_true_eq_of_eq hc nm s t hs ht hz h]

theorem tl_eq_hash_ieee {Hc : Type} (hstr : Gen.strConstPlusZero = true) (hc : NumOps.CoherentIEEE N) (nm : V → String)
    (H : Hashers Hc) (l m : TList N) (hl : l.NodupKeys) (hm : m.NodupKeys) (hz : l.NoZero) (h : TList.eq l m = true) :
    TList.hash nm H l = TList.hash nm H m := by
  unfold TList.hash
  rw [TList.hash_eq_of_eq' nm H l m (fun s hs t ht he => by
    unfold Term.str; rw [hstr]; exact Term.strWith_true_eq_of_eq hc nm s t (hl s hs) (hm t ht) (hz s hs) he) h]

/-- the driver's model of finite doubles (exact value + sign bit of zero, injective printer) satisfies that part -/
theorem fnum_coherent_ieee : NumOps.CoherentIEEE FNum := by
  constructor
  · intro a b h hz
    simp only [eqN, beq_iff_eq] at h
    simp only [isZero, beq_eq_false_iff_ne, ne_eq] at hz
    have hb : ¬ b.q = 0 := h ▸ hz
    simp [strN, hb, h]
  · intro a b h
    simp only [eqN, beq_iff_eq] at h
    simp [strZ, h]

/-- likewise for contracts — true only of a source whose `__eq__` compares the output lists, because the hash
    covers them. -/
theorem contract_eq_hash {Hc : Type} (hout : Gen.eqComparesOutputs = true) (hc : NumOps.Coherent N) (nm : V → String)
    (H : Hashers Hc) (c d : Contract N) (hcw : c.a.NodupKeys ∧ c.g.NodupKeys) (hdw : d.a.NodupKeys ∧ d.g.NodupKeys)
    (h : Contract.eq c d = true) : Contract.hash nm H c = Contract.hash nm H d := by
  unfold Contract.eq Contract.eqWith at h
  rw [hout] at h
  simp only [↓reduceIte, Bool.and_eq_true, beq_iff_eq] at h
  obtain ⟨⟨⟨h1, h2⟩, h3⟩, h4⟩ := h
  unfold Contract.hash
  rw [h1, h2, tl_eq_hash hc nm H c.a d.a hcw.1 hdw.1 h3, tl_eq_hash hc nm H c.g d.g hcw.2 hdw.2 h4]

/-! ## copies -/

/-- A copy of a constructed term / term list equals its original and hashes equally (the copy is in fact the same
    dict and constant; only reflexivity of `np.equal` is needed for `==`). -/
theorem copy_eq {Hc : Type} (hr : ∀ a : N, eqN a a = true) (nm : V → String) (H : Hashers Hc)
    (t : Term N) (ht : t.NodupKeys) (hz : t.NoZero) (l : TList N) (hl : l.NodupKeys) (hlz : l.NoZero) :
    (Term.eq t t.copy = true ∧ Term.eq t.copy t = true ∧ Term.hash nm H t.copy = Term.hash nm H t) ∧
      (TList.eq l l.copy = true ∧ TList.eq l.copy l = true ∧ TList.hash nm H l.copy = TList.hash nm H l) := by
  rw [Term.copy_eq_self t hz, TList.copy_eq_self l hlz]
  exact ⟨⟨Term.eq_refl hr t ht, Term.eq_refl hr t ht, rfl⟩, ⟨TList.eq_refl hr l hl, TList.eq_refl hr l hl, rfl⟩⟩

/-- A copy of a contract equals its original and hashes equally when re-simplifying its guarantees under its
    assumptions returns them unchanged (`hsimp`; true of a contract built with the default simplification up to
    float round-off — the harness asserts it on small-integer / dyadic data). -/
theorem contract_copy_eq {Hc : Type} (hr : ∀ a : N, eqN a a = true) (nm : V → String) (H : Hashers Hc)
    (simp : TList N → TList N → TList N) (c : Contract N) (hc : c.a.NodupKeys ∧ c.g.NodupKeys)
    (hz : c.a.NoZero ∧ c.g.NoZero) (hsimp : simp c.g c.a = c.g) :
    Contract.eq c (c.copyWith simp) = true ∧ Contract.eq (c.copyWith simp) c = true ∧
      Contract.hash nm H (c.copyWith simp) = Contract.hash nm H c := by
  have hcopy : c.copyWith simp = c := by
    unfold Contract.copyWith
    simp only [TList.copy_eq_self c.a hz.1, TList.copy_eq_self c.g hz.2, hsimp]
  rw [hcopy]
  have : Contract.eq c c = true := by
    unfold Contract.eq Contract.eqWith
    simp [TList.eq_refl hr c.a hc.1, TList.eq_refl hr c.g hc.2]
  exact ⟨this, this, rfl⟩

/-- the constructor establishes the invariants the theorems above assume -/
theorem mk_wf (l : List (V × N)) (k : N) (h : (l.map (·.1)).Nodup) : (Term.mk' l k).NodupKeys ∧ (Term.mk' l k).NoZero :=
  ⟨Term.mk'_nodupKeys l k h, Term.mk'_noZero l k⟩

/-! ## what contract equality compares -/

/-- Unconditional description of `IoContract.__eq__` as it is written in the current source. -/
theorem contract_eq_spec (c c' : Contract N) :
    Contract.eq c c' = true ↔ c.ins = c'.ins ∧ (Gen.eqComparesOutputs = true → c.outs = c'.outs) ∧
      TList.eq c.a c'.a = true ∧ TList.eq c.g c'.g = true := by
  unfold Contract.eq Contract.eqWith
  cases Gen.eqComparesOutputs <;> simp [and_assoc]

/-- Two contracts are equal exactly when their input lists, output lists, assumptions and guarantees are all equal.
    FULL STATEMENT of the property; it is true only of a source whose `__eq__` compares the output lists
    (`Gen.eqComparesOutputs = true`).  On the pinned source the hypothesis is false and
    `contract_eq_ignores_outputs_pinned` applies instead. -/
theorem contract_eq_iff (hout : Gen.eqComparesOutputs = true) (c c' : Contract N) :
    Contract.eq c c' = true ↔ c.ins = c'.ins ∧ c.outs = c'.outs ∧ TList.eq c.a c'.a = true ∧ TList.eq c.g c'.g = true := by
  rw [contract_eq_spec, hout]
  simp

/-- hence contracts differing in any one of the four fields compare unequal -/
theorem contract_neq_of_field (hout : Gen.eqComparesOutputs = true) (c c' : Contract N)
    (h : c.ins ≠ c'.ins ∨ c.outs ≠ c'.outs ∨ TList.eq c.a c'.a = false ∨ TList.eq c.g c'.g = false) :
    Contract.eq c c' = false := by
  cases he : Contract.eq c c' with
  | false => rfl
  | true =>
    obtain ⟨h1, h2, h3, h4⟩ := (contract_eq_iff hout c c').mp he
    rcases h with h | h | h | h
    · exact absurd h1 h
    · exact absurd h2 h
    · rw [h3] at h; cases h
    · rw [h4] at h; cases h

/-- the contract `in [x] out [y] : ⊤ ⊢ -x + y ≤ 0` and the same with outputs `[y, z]` -/
def witC : Contract FNum := ⟨[1], [2], [], [⟨[(1, ⟨-1, false⟩), (2, ⟨1, false⟩)], ⟨0, false⟩⟩]⟩
def witC' : Contract FNum := ⟨[1], [2, 3], [], [⟨[(1, ⟨-1, false⟩), (2, ⟨1, false⟩)], ⟨0, false⟩⟩]⟩

/-- COUNTEREXAMPLE to `contract_eq_iff` for a source that does not compare the output lists (the pinned
    `self.outputvars == self.outputvars`): two contracts with different output lists compare equal. -/
theorem contract_eq_ignores_outputs_pinned (hout : Gen.eqComparesOutputs = false) :
    Contract.eq witC witC' = true ∧ witC.outs ≠ witC'.outs := by
  unfold Contract.eq
  rw [hout]
  decide +kernel

/-- the two conditional theorems cover every source the translator accepts -/
theorem contract_eq_cases : Gen.eqComparesOutputs = true ∨ Gen.eqComparesOutputs = false := by
  cases Gen.eqComparesOutputs <;> simp

/-! ## compound contracts (`IoContractCompound.__eq__`; `le` = refinement of term lists, any relation) -/

theorem compound_eq_spec {L : Type} (le : L → L → Bool) (c c' : Compound L) :
    Compound.eq le c c' = true ↔ c.ins = c'.ins ∧ (Gen.eqCompoundComparesOutputs = true → c.outs = c'.outs) ∧
      NTL.eq le c.a c'.a = true ∧ NTL.eq le c.g c'.g = true := by
  unfold Compound.eq Compound.eqWith
  cases Gen.eqCompoundComparesOutputs <;> simp [and_assoc]

/-- FULL STATEMENT for compound contracts; see `contract_eq_iff`. -/
theorem compound_eq_iff {L : Type} (hout : Gen.eqCompoundComparesOutputs = true) (le : L → L → Bool) (c c' : Compound L) :
    Compound.eq le c c' = true ↔ c.ins = c'.ins ∧ c.outs = c'.outs ∧ NTL.eq le c.a c'.a = true ∧ NTL.eq le c.g c'.g = true := by
  rw [compound_eq_spec, hout]
  simp

theorem compound_eq_ignores_outputs_pinned (hout : Gen.eqCompoundComparesOutputs = false) :
    Compound.eq (fun (_ _ : Unit) => true) ⟨[1], [2], [()], [()]⟩ ⟨[1], [2, 3], [()], [()]⟩ = true := by
  unfold Compound.eq
  rw [hout]
  decide

/-- `NestedTermList.__eq__` (`self <= other <= self`) and hence compound equality is symmetric by construction, and
    transitive / reflexive when refinement is. -/
theorem compound_eq_equiv {L : Type} (le : L → L → Bool) (hr : ∀ x, le x x = true)
    (ht : ∀ x y z, le x y = true → le y z = true → le x z = true) (c d e : Compound L) :
    Compound.eq le c c = true ∧ (Compound.eq le c d = true → Compound.eq le d c = true) ∧
      (Compound.eq le c d = true → Compound.eq le d e = true → Compound.eq le c e = true) := by
  simp only [compound_eq_spec, NTL.eq, Bool.and_eq_true]
  refine ⟨?_, ?_, ?_⟩
  · simp [NTL.le_refl le hr]
  · rintro ⟨h1, h2, ⟨h3, h4⟩, ⟨h5, h6⟩⟩
    exact ⟨h1.symm, fun h => (h2 h).symm, ⟨h4, h3⟩, ⟨h6, h5⟩⟩
  · rintro ⟨h1, h2, ⟨h3, h4⟩, ⟨h5, h6⟩⟩ ⟨k1, k2, ⟨k3, k4⟩, ⟨k5, k6⟩⟩
    exact ⟨h1.trans k1, fun h => (h2 h).trans (k2 h), ⟨NTL.le_trans le ht _ _ _ h3 k3, NTL.le_trans le ht _ _ _ k4 h4⟩,
      ⟨NTL.le_trans le ht _ _ _ h5 k5, NTL.le_trans le ht _ _ _ k6 h6⟩⟩

/-! ## IEEE doubles are not coherent -/

/-- The two IEEE zeros are `np.equal` but print differently: the coherence law of `term_eq_hash` fails for doubles. -/
theorem ieee_not_coherent : ¬ NumOps.Coherent SignedZero := by
  intro h
  have := (h .pos .neg rfl).1
  revert this
  decide

/-- exact rationals are coherent (so are doubles once ±0 print alike): the hypothesis of `term_eq_hash` is satisfiable -/
theorem rat_coherent : NumOps.Coherent Rat := by
  intro a b h
  have : a = b := by simpa [eqN] using h
  rw [this]
  exact ⟨rfl, rfl⟩

theorem rat_isEquiv : NumOps.IsEquiv Rat :=
  ⟨fun a => by simp [eqN], fun a b h => by simp [eqN] at h ⊢; exact h.symm,
   fun a b c h1 h2 => by simp [eqN] at h1 h2 ⊢; exact h1.trans h2⟩

/-- COUNTEREXAMPLE to `term_eq_hash` for doubles on a source that prints `str(self.constant)`:
    `T({x:1}, 0.0)` and `T({x:1}, -0.0)` in the driver's number type are equal terms whose strings — hence, for the
    interpreter's (injective in practice) string hash, whose hashes — differ.  This is the model of the finding. -/
theorem ieee_term_witness_pinned (hstr : Gen.strConstPlusZero = false) :
    let s : Term FNum := ⟨[(1, ⟨1, false⟩)], ⟨0, false⟩⟩
    let t : Term FNum := ⟨[(1, ⟨1, false⟩)], ⟨0, true⟩⟩
    Term.eq s t = true ∧ Term.eq t s = true ∧ Term.str drvName s ≠ Term.str drvName t := by
  unfold Term.str
  rw [hstr]
  decide +kernel

/-- with the constant printed through `+ 0.0` the same two terms print (hence hash) alike -/
example :
    Term.strWith true drvName (⟨[(1, ⟨1, false⟩)], ⟨0, false⟩⟩ : Term FNum) =
      Term.strWith true drvName (⟨[(1, ⟨1, false⟩)], ⟨0, true⟩⟩ : Term FNum) := by decide +kernel

/-! ## non-vacuity -/

/-- the hypotheses of `term_eq_equiv`/`term_eq_hash` are met: two dicts with different insertion order -/
example : Term.eq (N := Rat) ⟨[(1, 2), (2, 3)], 4⟩ ⟨[(2, 3), (1, 2)], 4⟩ = true := by decide +kernel
example : Term.eq (N := Rat) ⟨[(1, 2), (2, 3)], 4⟩ ⟨[(2, 3), (1, 2)], 5⟩ = false := by decide +kernel
example : Term.strWith (N := Rat) false drvName ⟨[(1, 2), (2, 3)], 4⟩ = Term.strWith (N := Rat) false drvName ⟨[(2, 3), (1, 2)], 4⟩ := by
  decide +kernel
/-- term order matters for lists -/
example : TList.eq (N := Rat) [⟨[(1, 2)], 4⟩, ⟨[(2, 3)], 1⟩] [⟨[(2, 3)], 1⟩, ⟨[(1, 2)], 4⟩] = false := by decide +kernel
/-- `NoZero` is needed in `copy_eq`: a dict mutated to hold a zero coefficient is not equal to its copy -/
example : Term.eq (N := Rat) ⟨[(1, 0)], 0⟩ (Term.copy ⟨[(1, 0)], 0⟩) = false := by decide +kernel
/-- `eqWith true` separates the pinned witness -/
example : Contract.eqWith true witC witC' = false := by decide +kernel

end Pacti.C19
