import Pacti.Props.C09
/-!
# C09, full strength, for the source as it is now

This module checks **only against a repaired source**: `rfl` proves `Gen.combineNoneNone = some 2` and
`Gen.arithFold = true` exactly when tools/py2lean.py read those facts off `syntax/data.py` / `syntax/grammar.py`.
Against the pinned source it fails to check — that is the signal (DESIGN.md 3.6) that makes the run search every
explored case for a failing input; `Pacti.C09.translate_unsound_of_pinned` is then the theorem that applies.
-/
namespace Pacti.C09
open Syntax

/-- **Parsing preserves meaning** — every tree, every size and nesting depth, for the translation as the current
    source performs it. -/
theorem translate_sound (e : Expr) (ts : TL) (h : translateG e = .ok ts) : ∀ v, TL.holds ts v ↔ denote e v :=
  translate_sound_of_fix rfl rfl e ts h

end Pacti.C09
