import Pacti.Model.Session
/-!
# C13 — operations are pure: operands unchanged, results independent of history  (specification level)

These theorems are the frame and determinism laws of the pure session machine `Session.step`; they hold by
construction and are stated so that the specification the implementation is checked against is explicit.  That the
Python objects REFINE this machine (no operand mutated, no aliasing between results and operands, equal calls give
equal results at any later point of a session and in a fresh interpreter) is established by the history
correspondence of `harness/props/c13.py`, not by these theorems: object identity is runtime behaviour a value model
cannot exhibit.  Hence the label *partial* in MANIFEST.
-/
namespace Pacti.C13
open Session

/-- no existing pool entry changes, whatever the operation (also for the harness' `scribble`) -/
theorem step_frame (E : Env) (p : Pool) (op : Op) : ∃ news, (step E p op).1 = p ++ news ∧ news.length ≤ 1 := by
  unfold step
  cases evalOp E (fun i => p[i]?) op with
  | contract c => exact ⟨[c], rfl, by simp⟩
  | terms l => exact ⟨[], by simp, by simp⟩
  | bool b => exact ⟨[], by simp, by simp⟩
  | verdict v => exact ⟨[], by simp, by simp⟩
  | num q => exact ⟨[], by simp, by simp⟩
  | err e => exact ⟨[], by simp, by simp⟩
  | unit => exact ⟨[], by simp, by simp⟩

/-- entries are never modified later either: index `i` of the pool is stable along a whole history -/
theorem run_frame (E : Env) : ∀ (ops : List Op) (p : Pool) (i : Nat) (c : Contract PTerm), p[i]? = some c → (run E p ops).1[i]? = some c := by
  intro ops
  induction ops with
  | nil => intro p i c h; simpa [run] using h
  | cons op ops ih =>
    intro p i c h
    simp only [run]
    obtain ⟨news, hn, _⟩ := step_frame E p op
    apply ih
    rw [hn, List.getElem?_append_left]
    · exact h
    · exact (List.getElem?_eq_some_iff.mp h).1

/-- history independence: the output depends only on the values of the operands -/
theorem step_values (E : Env) (p p' : Pool) (op : Op) (h : ∀ i ∈ op.args, p[i]? = p'[i]?) : (step E p op).2 = (step E p' op).2 := by
  have hev : evalOp E (fun i => p[i]?) op = evalOp E (fun i => p'[i]?) op := by
    cases op <;> simp only [evalOp, Op.args, List.mem_cons, List.mem_nil_iff, or_false, forall_eq_or_imp, forall_eq] at h ⊢
    all_goals first | rfl | rw [h.1, h.2] | rw [h]
  unfold step
  rw [hev]
  cases evalOp E (fun i => p'[i]?) op <;> rfl

/-- replaying a call later in the session, on a pool holding equal operand values, returns an equal result -/
theorem replay_later (E : Env) (p : Pool) (ops : List Op) (op : Op) (h : ∀ i ∈ op.args, i < p.length) :
    (step E (run E p ops).1 op).2 = (step E p op).2 := by
  apply step_values
  intro i hi
  have hlt := h i hi
  have : p[i]? = some p[i] := List.getElem?_eq_getElem hlt
  rw [this, run_frame E ops p i p[i] this]

end Pacti.C13
