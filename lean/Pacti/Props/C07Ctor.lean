import Pacti.Proofs.PolyAlg
/-!
# C07, contract level — "building or simplifying a contract never changes the behaviours allowed by assumptions
together with guarantees", and leaves no redundant guarantee

`PolyAlg.mk P a g ins outs true` models `PolyhedralIoContract.__init__(…, simplify=True)`; `IoContract.simplify()` on a
contract with fields `(a, g)` performs the same call `g.simplify(a)`.  (This file is separate from `Props/C07.lean`
because the polyhedral instantiation of the algebra itself uses the list-level theorems proved there.)
-/
namespace Pacti.C07
open PolyAlg

/-- construction with simplification: assumptions and interface untouched; the guarantees are a selection of the
    given ones, equivalent to them wherever the assumptions hold, and no surviving guarantee is implied by the
    assumptions and the other survivors -/
theorem ctor_simplify (O : Oracle) (hO : O.Certified) (tie : PTerm → Bool) (grayAs : Bool)
    (tac : Nat → PTerm → TL → List Var → Bool → Elim.TacticRes) (a g : TL) (ins outs : List Var) (c : Contract PTerm)
    (h : mk (polyPrims O tie grayAs tac) a g ins outs true = .ok c) :
    c.a = a ∧ c.ins = ins ∧ c.outs = outs ∧ c.g.Sublist g ∧
    (∀ v, TL.holds a v → (TL.holds c.g v ↔ TL.holds g v)) ∧
    (g.Proper → (a = [] ∨ a.vars ≠ []) → ∀ r1 t r2, c.g = r1 ++ t :: r2 →
      ∃ v, TL.holds a v ∧ TL.holds (r1 ++ r2) v ∧ t.const ≤ evalL t.coeffs v) := by
  unfold mk Alg.mkContract at h
  split at h; · cases h
  simp only [if_true] at h
  split at h
  · rename_i g' hs
    injection h with h; subst h
    have hs' : Poly.simplify O tie g (some a) = .ok g' := hs
    exact ⟨rfl, rfl, rfl, simplify_selection O hO tie g (some a) g' hs', simplify_equiv O hO tie g (some a) g' hs',
      fun hp hv => simplify_irredundant O hO tie g (some a) g' hp hs' hv⟩
  · cases h

/-- consequently the behaviours allowed by assumptions together with guarantees are unchanged -/
theorem ctor_behaviours (O : Oracle) (hO : O.Certified) (tie : PTerm → Bool) (grayAs : Bool)
    (tac : Nat → PTerm → TL → List Var → Bool → Elim.TacticRes) (a g : TL) (ins outs : List Var) (simp : Bool) (c : Contract PTerm)
    (h : mk (polyPrims O tie grayAs tac) a g ins outs simp = .ok c) :
    ∀ v, (TL.holds c.a v ∧ TL.holds c.g v) ↔ (TL.holds a v ∧ TL.holds g v) := by
  cases simp with
  | true =>
    obtain ⟨ha, _, _, _, he, _⟩ := ctor_simplify O hO tie grayAs tac a g ins outs c h
    intro v; rw [ha]
    exact ⟨fun ⟨h1, h2⟩ => ⟨h1, (he v h1).mp h2⟩, fun ⟨h1, h2⟩ => ⟨h1, (he v h1).mpr h2⟩⟩
  | false =>
    unfold mk Alg.mkContract at h
    split at h; · cases h
    simp only [Bool.false_eq_true, if_false] at h
    injection h with h; subst h
    intro v; exact Iff.rfl

/-- a construction error is the interface rejection (C06), or — for guarantees that mention variables — infeasibility of
    the guarantees under the assumptions -/
theorem ctor_error (O : Oracle) (hO : O.Certified) (tie : PTerm → Bool) (grayAs : Bool)
    (tac : Nat → PTerm → TL → List Var → Bool → Elim.TacticRes) (a g : TL) (hp : g.Proper) (ins outs : List Var) (e : Err)
    (h : mk (polyPrims O tie grayAs tac) a g ins outs true = .error e) :
    e = .incompatibleArgs ∨ (e = .valueError ∧ ¬ ∃ v, TL.holds a v ∧ TL.holds g v) ∨ e = .oracleStuck := by
  unfold mk Alg.mkContract at h
  split at h
  · injection h with h; exact Or.inl h.symm
  simp only [if_true] at h
  split at h
  · cases h
  · rename_i e' hs
    injection h with h; subst h
    have hs' : Poly.simplify O tie g (some a) = .error e' := hs
    exact Or.inr (simplify_error_infeasible O hO tie g hp (some a) e' hs')

end Pacti.C07
