import Pacti.Proofs.Rename
/-!
# C16 — renaming variables is faithful substitution

`PolyAlg.renameTerm` / `rename` / `renameAll` model `PolyhedralTerm.rename_variable`, `IoContract.rename_variable`
(four source/target cases on the generated interface code, constructor with re-simplification) and
`PolyhedralIoContract.rename_variables`.  `substVal v s d` is the valuation that reads `d` where `s` was read: a
behaviour satisfies the renamed constraints exactly when the correspondingly renamed behaviour satisfied the
original ones.
-/
namespace Pacti.C16
open PolyAlg

/-- one constraint: coefficients are added when the new name already occurs; the old name is gone -/
theorem term_rename_sem (t : PTerm) (s d : Var) (hne : s ≠ d) (v : Val) :
    ((renameTerm t s d).holds v ↔ t.holds (substVal v s d)) ∧ s ∉ (renameTerm t s d).vars := by
  refine ⟨renameTerm_holds t s d hne v, fun h => ?_⟩
  rcases renameTerm_vars t s d hne s h with ⟨_, h2⟩ | ⟨h1, _⟩
  · exact h2 rfl
  · exact hne h1

/-- a whole contract: renamed assumptions, and renamed assumptions together with renamed guarantees, hold exactly when
    the renamed behaviour satisfied the originals (`s` an interface variable of a well-formed contract) -/
theorem contract_rename_sem (O : Oracle) (hO : O.Certified) (tie : PTerm → Bool) (tac : Nat → PTerm → TL → List Var → Bool → Elim.TacticRes)
    (c c' : Contract PTerm) (s d : Var) (hne : s ≠ d) (hs : s ∈ c.ins ∨ s ∈ c.outs)
    (h : rename (polyPrims O tie false tac) c s d = .ok c') :
    ∀ v, (TL.holds c'.a v ↔ TL.holds c.a (substVal v s d)) ∧
         (TL.holds c'.a v → (TL.holds c'.g v ↔ TL.holds c.g (substVal v s d))) := by
  intro v
  unfold rename Alg.rename at h
  simp only [hne, ↓reduceIte] at h
  have key : ∀ ins outs, Alg.mkContract PTerm.vars (polyPrims O tie false tac) (c.a.map (renameTerm · s d)) (c.g.map (renameTerm · s d)) ins outs = .ok c' →
      (TL.holds c'.a v ↔ TL.holds c.a (substVal v s d)) ∧ (TL.holds c'.a v → (TL.holds c'.g v ↔ TL.holds c.g (substVal v s d))) := by
    intro ins outs hm
    obtain ⟨ha, _, _, hg⟩ := Alg.mk_sem PTerm.holds PTerm.vars _ (polyPrims_spec O hO tie false tac rfl) hm
    rw [ha]
    refine ⟨renameTL_holds c.a s d hne v, fun hav => ?_⟩
    exact Iff.trans (hg v hav) (renameTL_holds c.g s d hne v)
  by_cases hin : s ∈ c.ins
  · simp only [hin, ↓reduceIte] at h
    split at h; · cases h
    exact key _ _ h
  · simp only [hin, ↓reduceIte] at h
    have hout : s ∈ c.outs := by rcases hs with h1 | h1; exact absurd h1 hin; exact h1
    simp only [hout, ↓reduceIte] at h
    split at h; · cases h
    exact key _ _ h

/-- renaming an absent variable changes nothing: same interface, same assumptions, guarantees equivalent (they are
    re-simplified) -/
theorem rename_absent_sem (O : Oracle) (hO : O.Certified) (tie : PTerm → Bool) (tac : Nat → PTerm → TL → List Var → Bool → Elim.TacticRes)
    (c c' : Contract PTerm) (s d : Var) (hs : s ∉ c.ins ∧ s ∉ c.outs)
    (h : rename (polyPrims O tie false tac) c s d = .ok c') :
    c'.ins = c.ins ∧ c'.outs = c.outs ∧ c'.a = c.a ∧ ∀ v, TL.holds c.a v → (TL.holds c'.g v ↔ TL.holds c.g v) := by
  obtain ⟨hi, ho, ha⟩ := Pacti.C06.rename_absent PTerm.vars _ (polyPrims_selects O hO tie false tac) renameTerm c c' s d hs h
  refine ⟨hi, ho, ha, fun v hv => ?_⟩
  unfold rename Alg.rename at h
  have hm : Alg.mkContract PTerm.vars (polyPrims O tie false tac) c.a c.g c.ins c.outs = .ok c' := by
    by_cases hne : s = d
    · simpa [hne] using h
    · simpa [hne, hs.1, hs.2] using h
  obtain ⟨_, _, _, hg⟩ := Alg.mk_sem PTerm.holds PTerm.vars _ (polyPrims_spec O hO tie false tac rfl) hm
  exact hg v hv

/-- renaming a variable to itself changes nothing either (the contract level never reaches the term-level transfer,
    which for `s = d` would *delete* the variable: `renameTerm t s s = t.remove s`) -/
theorem rename_self_sem (O : Oracle) (hO : O.Certified) (tie : PTerm → Bool) (tac : Nat → PTerm → TL → List Var → Bool → Elim.TacticRes)
    (c c' : Contract PTerm) (s : Var) (h : rename (polyPrims O tie false tac) c s s = .ok c') :
    c'.ins = c.ins ∧ c'.outs = c.outs ∧ c'.a = c.a ∧ ∀ v, TL.holds c.a v → (TL.holds c'.g v ↔ TL.holds c.g v) := by
  unfold rename Alg.rename at h
  have hm : Alg.mkContract PTerm.vars (polyPrims O tie false tac) c.a c.g c.ins c.outs = .ok c' := by simpa using h
  obtain ⟨ha, hi, ho, hg⟩ := Alg.mk_sem PTerm.holds PTerm.vars _ (polyPrims_spec O hO tie false tac rfl) hm
  exact ⟨hi, ho, ha, hg⟩

/-- the term-level transfer at `s = d` really does drop the variable: the guard of the contract level is necessary -/
example : renameTerm (PTerm.mk' [(1, 1), (2, 2)] 3) 1 1 = PTerm.mk' [(2, 2)] 3 := by decide +kernel

/-- interface bookkeeping and refusals (instances of the generic C06 theorems for the polyhedral primitives) -/
theorem rename_iface_in (O : Oracle) (hO : O.Certified) (tie : PTerm → Bool) (tac : Nat → PTerm → TL → List Var → Bool → Elim.TacticRes)
    (c c' : Contract PTerm) (s d : Var) (hne : s ≠ d) (hwf : Pacti.C06.WF PTerm.vars c) (hs : s ∈ c.ins)
    (h : rename (polyPrims O tie false tac) c s d = .ok c') :
    Pacti.C06.WF PTerm.vars c' ∧ c'.outs = c.outs ∧ (∀ x, x ∈ c'.ins ↔ (x ∈ c.ins ∧ x ≠ s) ∨ x = d) :=
  Pacti.C06.rename_iface_in PTerm.vars _ (polyPrims_selects O hO tie false tac) renameTerm c c' s d hne hwf hs h

theorem rename_iface_out (O : Oracle) (hO : O.Certified) (tie : PTerm → Bool) (tac : Nat → PTerm → TL → List Var → Bool → Elim.TacticRes)
    (c c' : Contract PTerm) (s d : Var) (hne : s ≠ d) (hwf : Pacti.C06.WF PTerm.vars c) (hs : s ∈ c.outs)
    (h : rename (polyPrims O tie false tac) c s d = .ok c') :
    Pacti.C06.WF PTerm.vars c' ∧ c'.ins = c.ins ∧ (∀ x, x ∈ c'.outs ↔ (x ∈ c.outs ∧ x ≠ s) ∨ x = d) :=
  Pacti.C06.rename_iface_out PTerm.vars _ (polyPrims_selects O hO tie false tac) renameTerm c c' s d hne hwf hs h

theorem rename_rejects (P : Prims PTerm) (c : Contract PTerm) (s d : Var) (hne : s ≠ d)
    (h : (s ∈ c.ins ∧ d ∈ c.outs) ∨ (s ∈ c.outs ∧ d ∈ c.ins ∧ s ∉ c.ins)) :
    rename P c s d = .error .incompatibleArgs :=
  Pacti.C06.rename_rejects PTerm.vars P renameTerm c s d hne h

/-- renaming to a fresh name and back restores the interface lists exactly (position included) -/
theorem rename_fresh_back_iface (xs : List Var) (s d : Var) (hd : d ∉ xs) :
    Alg.replaceFirst (Alg.replaceFirst xs s d) d s = xs := replaceFirst_back xs s d hd

/-- …and the meaning: substituting `d` for `s` and then `s` for `d` is the identity on constraints that do not mention `d` -/
theorem rename_fresh_back_sem (t : PTerm) (s d : Var) (hne : s ≠ d) (hd : d ∉ t.vars) (v : Val) :
    (renameTerm (renameTerm t s d) d s).holds v ↔ t.holds v := by
  rw [renameTerm_holds _ d s (Ne.symm hne), renameTerm_holds _ s d hne]
  unfold PTerm.holds
  have : evalL t.coeffs (substVal (substVal v d s) s d) = evalL t.coeffs v := by
    apply evalL_congr
    intro x hx
    unfold substVal
    by_cases h1 : x = s
    · subst h1; simp [Function.update_of_ne hne]
    · rw [Function.update_of_ne h1]
      have h2 : x ≠ d := fun e => hd (by simpa [PTerm.vars, e] using hx)
      rw [Function.update_of_ne h2]
  rw [this]

/-- a list of mappings is applied in order, starting from a copy -/
theorem renameAll_is_fold (P : Prims PTerm) (c c0 : Contract PTerm) (ms : List (Var × Var)) (h : Alg.copy PTerm.vars P c = .ok c0) :
    renameAll P c ms = ms.foldlM (fun acc m => rename P acc m.1 m.2) c0 := by
  unfold renameAll; rw [h]

end Pacti.C16
