import Pacti.Props.C09Full
import Pacti.Model.Parse
/-!
# C09 from the characters of the string

`Model/Parse.lean` models the lexical level of the grammar and pyparsing's ordered choice; `Model/Syntax.lean` models
the parse actions on the tree.  The theorems here are about their composition `Parse.fromChars` — the model of
`polyhedral_termlist_from_string` on the string itself — and hold for **every** string, of any length.

What is proved: whatever tree the model parser builds, the returned inequalities mean exactly what that tree denotes
(`fromChars_sound`), and a string is either translated or rejected with one of the documented errors
(`fromChars_error_kinds`, which checks only while the source converts `ZeroDivisionError`, `Gen.catchZeroDiv`).
What is not proved: that the tree the parser builds is the reading a person expects of the string (there is no
independent definition of that; the correspondence run compares the model parser with pyparsing on every generated
string, and with the tree the generator rendered the string from).
-/
namespace Pacti.C09
open Syntax Parse

/-- the parser's errors: a syntax error, or the `ZeroDivisionError` of an arithmetic parse action -/
theorem parseToks_error_kinds (ts : List Tok) (k : Err) (h : parseToks ts = .error k) : k = .syntax ∨ k = zeroDiv := by
  unfold parseToks at h
  split at h <;> simp_all

/-- **Meaning is preserved from the string on**: if the model of `polyhedral_termlist_from_string` returns a term
    list for a string, the string was cut into tokens, the ordered choice built a tree from all of them, and the
    term list holds exactly where that tree's written relation does. -/
theorem fromChars_sound (names : List String) (s : List Char) (tl : TL) (h : fromChars names s = .ok tl) :
    ∃ ts e, lex names (s.length + 1) s = some ts ∧ parseToks ts = .ok e ∧ ∀ v, TL.holds tl v ↔ denote e v := by
  unfold fromChars at h
  cases hl : lex names (s.length + 1) s with
  | none => simp [hl] at h
  | some ts =>
    simp only [hl] at h
    unfold fromToksG at h
    cases hp : parseToks ts with
    | error x => simp only [hp] at h; split at h <;> simp at h
    | ok e =>
      simp only [hp] at h
      refine ⟨ts, e, rfl, hp, ?_⟩
      unfold fromStringG at h
      cases ht : translateG e with
      | error x => simp only [ht] at h; split at h <;> simp at h
      | ok r =>
        simp only [ht, Except.ok.injEq] at h
        subst h
        exact translate_sound e r ht

/-- **Only documented errors, for every string**: the model of `polyhedral_termlist_from_string` rejects a string
    with the syntax error, the convexity error or `ValueError` (a division by zero in constant arithmetic) and with
    nothing else.  Checks only against a source that converts `ZeroDivisionError` (`Gen.catchZeroDiv = true`). -/
theorem fromChars_error_kinds (hc : Gen.catchZeroDiv = true) (names : List String) (s : List Char) (k : Err)
    (h : fromChars names s = .error k) : k = .syntax ∨ k = .convex ∨ k = .valueError := by
  unfold fromChars at h
  cases hl : lex names (s.length + 1) s with
  | none => simp only [hl, Except.error.injEq] at h; exact Or.inl h.symm
  | some ts =>
    simp only [hl] at h
    unfold fromToksG at h
    cases hp : parseToks ts with
    | error x =>
      simp only [hp, hc, Bool.and_true] at h
      rcases parseToks_error_kinds ts x hp with rfl | rfl
      · simp [zeroDiv] at h; exact Or.inl h.symm
      · simp at h; exact Or.inr (Or.inr h.symm)
    | ok e =>
      simp only [hp] at h
      unfold fromStringG at h
      cases ht : translateG e with
      | ok r => simp [ht] at h
      | error x =>
        simp only [ht, hc, Bool.and_true] at h
        rcases translate_error_kinds _ _ e x ht with rfl | rfl
        · simp [zeroDiv] at h; exact Or.inr (Or.inl h.symm)
        · have : (Err.py "ZeroDivisionError" == zeroDiv) = true := by decide
          simp [this] at h; exact Or.inr (Or.inr h.symm)

/-- the instance for the source as it is now -/
theorem fromChars_error_kinds_now (names : List String) (s : List Char) (k : Err)
    (h : fromChars names s = .error k) : k = .syntax ∨ k = .convex ∨ k = .valueError :=
  fromChars_error_kinds rfl names s k h

/-! ### the premises are met: concrete strings through lexer, ordered choice and parse actions (kernel evaluation) -/

/-- `2x + 3 y <= 4` -/
example : fromChars ["_", "x", "y"] "2x + 3 y <= 4".toList = .ok [⟨[(1, 2), (2, 3)], 4⟩] := by decide +kernel

/-- an absolute value, a multiplier in constant arithmetic, a chain of two `>=` -/
example : fromChars ["_", "x", "y"] "|x| + (2*3)y >= 1 >= -y".toList = .error .convex := by decide +kernel

/-- `(2+3)x` is a syntax error (the parenthesis is read as a parenthesised term list), `(2+3)(x+y)` is not -/
example : fromChars ["_", "x", "y"] "(2+3)x <= 1".toList = .error .syntax := by decide +kernel
example : fromChars ["_", "x", "y"] "(2+3)(x+y) <= 1".toList = .ok [⟨[(1, 5), (2, 5)], 1⟩] := by decide +kernel

/-- the arithmetic parse action runs, and raises, before the later syntax error is noticed -/
example : fromChars ["_", "x"] "(1/0) x <= <= 2".toList = .error .valueError := by decide +kernel

/-- exponent forms and a leading point -/
example : fromChars ["_", "x", "y"] "1e2x - .5y == 3".toList
    = .ok [⟨[(1, 100), (2, -1/2)], 3⟩, ⟨[(1, -100), (2, 1/2)], -3⟩] := by decide +kernel

end Pacti.C09
