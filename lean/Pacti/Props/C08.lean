import Pacti.Proofs.PolyAlg
import Pacti.Props.C06
/-!
# C08 — merging is the exact conjunction of the two viewpoints (polyhedral contracts)

Only `simplify` is involved, so there is no hypothesis on tactics.
-/
namespace Pacti.C08
open PolyAlg

/-- assumptions = conjunction of both assumptions; under them, guarantees = conjunction of both guarantees -/
theorem merge_exact_poly (O : Oracle) (hO : O.Certified) (tie : PTerm → Bool) (tac : Nat → PTerm → TL → List Var → Bool → Elim.TacticRes)
    (c1 c2 m : Contract PTerm) (h : merge (polyPrims O tie false tac) c1 c2 = .ok m) :
    (∀ v, TL.holds m.a v ↔ TL.holds c1.a v ∧ TL.holds c2.a v) ∧
    (∀ v, TL.holds m.a v → (TL.holds m.g v ↔ TL.holds c1.g v ∧ TL.holds c2.g v)) :=
  Alg.merge_exact PTerm.holds PTerm.vars _ (polyPrims_spec O hO tie false tac rfl) c1 c2 m h

/-- the interface is the union of the interfaces, and the result is well formed -/
theorem merge_iface_poly (O : Oracle) (hO : O.Certified) (tie : PTerm → Bool) (tac : Nat → PTerm → TL → List Var → Bool → Elim.TacticRes)
    (c1 c2 m : Contract PTerm) (h : merge (polyPrims O tie false tac) c1 c2 = .ok m) :
    Pacti.C06.WF PTerm.vars m ∧ (∀ x, x ∈ m.ins ↔ x ∈ c1.ins ∨ x ∈ c2.ins) ∧ (∀ x, x ∈ m.outs ↔ x ∈ c1.outs ∨ x ∈ c2.outs) :=
  Pacti.C06.merge_iface PTerm.vars _ (polyPrims_selects O hO tie false tac) c1 c2 m h

/-- the operands may be given in either order: same meaning, same interface (as sets) -/
theorem merge_comm_sem (O : Oracle) (hO : O.Certified) (tie : PTerm → Bool) (tac : Nat → PTerm → TL → List Var → Bool → Elim.TacticRes)
    (c1 c2 m m' : Contract PTerm) (h : merge (polyPrims O tie false tac) c1 c2 = .ok m)
    (h' : merge (polyPrims O tie false tac) c2 c1 = .ok m') :
    (∀ v, TL.holds m.a v ↔ TL.holds m'.a v) ∧ (∀ v, TL.holds m.a v → (TL.holds m.g v ↔ TL.holds m'.g v)) ∧
    (∀ x, x ∈ m.ins ↔ x ∈ m'.ins) ∧ (∀ x, x ∈ m.outs ↔ x ∈ m'.outs) := by
  obtain ⟨ha, hg⟩ := merge_exact_poly O hO tie tac c1 c2 m h
  obtain ⟨ha', hg'⟩ := merge_exact_poly O hO tie tac c2 c1 m' h'
  obtain ⟨_, hi, ho⟩ := merge_iface_poly O hO tie tac c1 c2 m h
  obtain ⟨_, hi', ho'⟩ := merge_iface_poly O hO tie tac c2 c1 m' h'
  refine ⟨fun v => ?_, fun v hv => ?_, fun x => ?_, fun x => ?_⟩
  · rw [ha, ha']; tauto
  · have hv' : TL.holds m'.a v := by rw [ha']; rw [ha] at hv; tauto
    rw [hg v hv, hg' v hv']; tauto
  · rw [hi, hi']; tauto
  · rw [ho, ho']; tauto

/-- a `ValueError` from merging means the conjunction of the guarantees is empty under the joint assumptions -/
theorem merge_error_infeasible (O : Oracle) (hO : O.Certified) (tie : PTerm → Bool) (tac : Nat → PTerm → TL → List Var → Bool → Elim.TacticRes)
    (c1 c2 : Contract PTerm) (hp1 : TL.Proper c1.g) (hp2 : TL.Proper c2.g) (h : merge (polyPrims O tie false tac) c1 c2 = .error .valueError) :
    ¬ ∃ v, TL.holds (Gen.list_union c1.a c2.a) v ∧ TL.holds (Gen.list_union c1.g c2.g) v := by
  unfold merge Alg.merge Alg.mkContract at h
  simp only at h
  split at h; · cases h
  simp only [↓reduceIte] at h
  split at h; · cases h
  rename_i e hs
  injection h with h; subst h
  have hs' : Poly.simplify O tie (Gen.list_union c1.g c2.g) (some (Gen.list_union c1.a c2.a)) = .error .valueError := hs
  have hpu : TL.Proper (Gen.list_union c1.g c2.g) := by
    intro t ht
    rcases (Gen.mem_list_union _ _ t).mp ht with h' | h'
    · exact hp1 t h'
    · exact hp2 t h'
  rcases Pacti.C07.simplify_error_infeasible O hO tie _ hpu _ _ hs' with ⟨_, hinf⟩ | he
  · exact hinf
  · cases he

end Pacti.C08
