import Pacti.Proofs.PolyAlg
import Pacti.Props.C04
/-!
# C02 — the quotient composed with the divisor refines the dividend (polyhedral contracts)

Same structure as C01: `quotient_sound_poly_any_sound_table` for any tactic table sound on the order used,
`quotient_sound_poly` for the real table and every tactic order (every entry of the table is proved sound, see C04).  `c` is the dividend (top-level
contract), `c1` the divisor (existing component), `q` the quotient.
-/
namespace Pacti.C02
open PolyAlg

theorem quotient_sound_poly_any_sound_table (O : Oracle) (hO : O.Certified) (tie : PTerm → Bool)
    (tac : Nat → PTerm → TL → List Var → Bool → Elim.TacticRes)
    (c c1 q : Contract PTerm) (addl : List Var) (simp : Bool) (ord : List Nat) (hord : ∀ j ∈ ord, Elim.TacSound tac j)
    (h : quotient (polyPrims O tie false tac) c c1 addl simp ord = .ok q) :
    ∀ v, TL.holds c.a v → (TL.holds c1.a v → TL.holds c1.g v) → (TL.holds q.a v → TL.holds q.g v) →
      TL.holds c1.a v ∧ TL.holds q.a v ∧ TL.holds c.g v :=
  Alg.quotient_sound PTerm.holds PTerm.vars _ (polyPrims_spec O hO tie false tac rfl) c c1 q addl simp ord hord h

theorem quotient_sound_poly (O : Oracle) (hO : O.Certified) (tie : PTerm → Bool) (hint : PTerm → TL → List Var → Bool → Option (List Nat))
    (c c1 q : Contract PTerm) (addl : List Var) (simp : Bool) (ord : List Nat) 
    (h : quotient (polyPrims O tie false (realTac O false hint)) c c1 addl simp ord = .ok q) :
    ∀ v, TL.holds c.a v → (TL.holds c1.a v → TL.holds c1.g v) → (TL.holds q.a v → TL.holds q.g v) →
      TL.holds c1.a v ∧ TL.holds q.a v ∧ TL.holds c.g v :=
  quotient_sound_poly_any_sound_table O hO tie _ c c1 q addl simp ord
    (fun j _ => Pacti.C04.driver_tactics_sound O hO hint j) h

end Pacti.C02
