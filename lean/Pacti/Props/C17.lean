import Pacti.Proofs.Compound
import Pacti.Proofs.LP
/-!
# C17 — compound (disjunctive) contracts behave as unions of polyhedra

A nested term list `n : Nested` (`NestedTermList.nested_termlist`) denotes the union `{v | ∃ l ∈ n, TL.holds l v}`.
Property theorems only; the loops are analysed in `Pacti/Proofs/Compound.lean`.  `O` is any LP oracle whose
answers carry certificates accepted by the proved checkers (`driver_oracle_certified`).  `Proper` = every
inequality mentions at least one variable (what the parser and the `PolyhedralTerm` constructor produce from a
constraint with a variable in it): `is_polytope_empty` answers `False` without solving anything when the
matrix has no column, so `0 ≤ -1` alone is "not empty" for the code (`disjoint_check_improper_counterexample`).
-/
namespace Pacti.C17
open Poly Compound

/-! ### membership -/

/-- When the behaviour assigns every variable of every alternative, the nested list contains it exactly when
    at least one alternative does (boundary points included). -/
theorem nested_contains (n : Nested) (b : List (Var × Rat))
    (hcov : ∀ l ∈ n, ∀ x ∈ l.vars, x ∈ b.map (·.1)) :
    containsB n b = .ok true ↔ ∃ l ∈ n, TL.holds l (valOf b) := containsB_true_iff n b hcov

/-- …and it is reported not contained (no error) exactly when no alternative does. -/
theorem nested_contains_false (n : Nested) (b : List (Var × Rat))
    (hcov : ∀ l ∈ n, ∀ x ∈ l.vars, x ∈ b.map (·.1)) :
    containsB n b = .ok false ↔ ∀ l ∈ n, ¬ TL.holds l (valOf b) := containsB_false_iff n b hcov

/-- The only error is `ValueError`, and it comes from an alternative with an unassigned variable all of whose
    predecessors answered `False`. -/
theorem nested_contains_error (n : Nested) (b : List (Var × Rat)) (e : Err) (h : containsB n b = .error e) :
    e = .valueError ∧ ∃ pre l post, n = pre ++ l :: post ∧ (∃ x ∈ l.vars, x ∉ b.map (·.1)) ∧
      ∀ l' ∈ pre, containsBehavior l' b = .ok false := containsB_error n b e h

/-- The code's order dependence, kept in the model: an unassigned variable in the *first* alternative raises
    whatever the later alternatives say. -/
theorem nested_contains_error_first (tl : TL) (rest : Nested) (b : List (Var × Rat))
    (hx : ∃ x ∈ tl.vars, x ∉ b.map (·.1)) : containsB (tl :: rest) b = .error .valueError :=
  containsB_error_first tl rest b hx

/-! ### intersection -/

/-- The union of the alternatives of `intersect` is exactly the intersection of the operands' unions
    (whatever `force_empty_intersection` is, whenever a result is returned). -/
theorem intersect_sem (O : Oracle) (hO : O.Certified) (n₁ n₂ : Nested) (f : Bool) (n : Nested)
    (h : intersect O n₁ n₂ f = .ok n) :
    ∀ v, (∃ l ∈ n, TL.holds l v) ↔ (∃ l ∈ n₁, TL.holds l v) ∧ (∃ l ∈ n₂, TL.holds l v) :=
  fun v => intersectPairs_sem O hO n₁ n₂ n (intersect_ok O n₁ n₂ f n h).1 v

/-- Empty alternatives are discarded: every alternative of the result is satisfiable. -/
theorem intersect_no_empty (O : Oracle) (hO : O.Certified) (n₁ n₂ : Nested) (f : Bool) (n : Nested)
    (hp₁ : ∀ l ∈ n₁, l.Proper) (hp₂ : ∀ l ∈ n₂, l.Proper)
    (h : intersect O n₁ n₂ f = .ok n) : ∀ l ∈ n, ∃ v, TL.holds l v := by
  intro l hl
  obtain ⟨s, hs, o, ho, hlu, he⟩ := intersectPairs_mem O n₁ n₂ n (intersect_ok O n₁ n₂ f n h).1 l hl
  subst hlu
  obtain ⟨v, hv⟩ := isEmpty_false_share O hO s o (hp₁ s hs) (hp₂ o ho) he
  exact ⟨v, (Pacti.C03.holds_tlUnion s o v).mpr hv⟩

/-- Shape of the result: every alternative is `s | o` for a pair of operand alternatives, and no pair that
    shares a behaviour is dropped. -/
theorem intersect_alternatives (O : Oracle) (hO : O.Certified) (n₁ n₂ : Nested) (f : Bool) (n : Nested)
    (h : intersect O n₁ n₂ f = .ok n) :
    (∀ l ∈ n, ∃ s ∈ n₁, ∃ o ∈ n₂, l = tlUnion s o) ∧
    (∀ s ∈ n₁, ∀ o ∈ n₂, (∃ v, TL.holds s v ∧ TL.holds o v) → tlUnion s o ∈ n) := by
  have hp := (intersect_ok O n₁ n₂ f n h).1
  refine ⟨fun l hl => ?_, intersectPairs_keeps_sat O hO n₁ n₂ n hp⟩
  obtain ⟨s, hs, o, ho, hlu, _⟩ := intersectPairs_mem O n₁ n₂ n hp l hl
  exact ⟨s, hs, o, ho, hlu⟩

/-- With `force_empty_intersection = True` a returned result has pairwise disjoint alternatives. -/
theorem intersect_forced_disjoint (O : Oracle) (hO : O.Certified) (n₁ n₂ n : Nested)
    (h : intersect O n₁ n₂ true = .ok n) : n.Pairwise TL.Disj :=
  checkDisjoint_ok O hO n (mkNested_true_ok O n n (intersect_ok O n₁ n₂ true n h).2)

/-! ### `<=` -/

/-- `True` only if the left union is contained in the right union (no side condition). -/
theorem le_sound (O : Oracle) (hO : O.Certified) (n₁ n₂ : Nested) (h : le O n₁ n₂ = .ok .yes) :
    ∀ v, (∃ l ∈ n₁, TL.holds l v) → (∃ l ∈ n₂, TL.holds l v) := by
  rintro v ⟨l, hl, hv⟩
  obtain ⟨r, hr, href⟩ := le_yes O n₁ n₂ h l hl
  exact ⟨r, hr, refinesTL_yes O hO l r href v hv⟩

/-- What a definite `False` means: some left alternative is contained in *no single* right alternative (it may
    still be covered by the union of several — the property allows `False` there). -/
theorem le_no_pairwise (O : Oracle) (hO : O.Certified) (n₁ n₂ : Nested)
    (hp₁ : ∀ l ∈ n₁, l.Proper) (hp₂ : ∀ l ∈ n₂, l.Proper) (h : le O n₁ n₂ = .ok .no) :
    ∃ l ∈ n₁, ∀ r ∈ n₂, ∃ v, TL.holds l v ∧ ¬ TL.holds r v := by
  obtain ⟨l, hl, hall⟩ := le_no O n₁ n₂ h
  exact ⟨l, hl, fun r hr => refinesTL_no O hO l r (hp₁ l hl) (hp₂ r hr) Pacti.C03.tol_nonneg (hall r hr)⟩

/-! ### the disjointness check of the constructor -/

/-- A list of alternatives accepted with `force_empty_intersection = True` is returned unchanged and is pairwise
    disjoint (no side condition). -/
theorem disjoint_accept (O : Oracle) (hO : O.Certified) (l : List TL) (n : Nested)
    (h : mkNested O l true = .ok n) : n = l ∧ l.Pairwise TL.Disj :=
  ⟨mkNested_ok O l true n h, checkDisjoint_ok O hO l (mkNested_true_ok O l n h)⟩

/-- `ValueError` only if two alternatives share a behaviour (proper terms). -/
theorem disjoint_check_only_if (O : Oracle) (hO : O.Certified) (l : List TL) (hp : ∀ a ∈ l, a.Proper)
    (h : mkNested O l true = .error .valueError) :
    ∃ (i j : Nat) (hi : i < l.length) (hj : j < l.length), i < j ∧ ∃ v, TL.holds l[i] v ∧ TL.holds l[j] v :=
  (not_pairwise_disj_iff l).mp (checkDisjoint_valueError O hO l hp ((mkNested_true_error O l _).mp h))

/-- Two alternatives sharing a behaviour are never accepted (no side condition): the constructor raises. -/
theorem disjoint_check_if (O : Oracle) (hO : O.Certified) (l : List TL)
    (h : ∃ (i j : Nat) (hi : i < l.length) (hj : j < l.length), i < j ∧ ∃ v, TL.holds l[i] v ∧ TL.holds l[j] v) :
    ∀ n, mkNested O l true ≠ .ok n := by
  intro n hn
  exact (not_pairwise_disj_iff l).mpr h (disjoint_accept O hO l n hn).2

/-- Overlapping alternatives are rejected with `ValueError` exactly when two of them share a behaviour.
    Side conditions, both necessary:
    * `hp` — every inequality mentions a variable.  An alternative with *no rows* is allowed: it denotes the whole
      space, `is_empty` answers `False` on it (`len(a) == 0`), and it does share a behaviour with every
      satisfiable alternative, so both sides of the equivalence agree.  A list consisting only of rows
      without variables is decided correctly since the repair of `is_polytope_empty`
      (`disjoint_check_improper_repaired`); `hp` is kept because the proofs of the loops use it.
    * `hns` — the LP engine decides the emptiness problems it is given (status 0/2/3); otherwise the code raises
      its "Cannot decide emptiness" instead. -/
theorem disjoint_check (O : Oracle) (hO : O.Certified) (l : List TL) (hp : ∀ a ∈ l, a.Proper)
    (hns : ∀ a ∈ l, ∀ b ∈ l, O.lp [] (tlUnion a b) ≠ .stuck) :
    mkNested O l true = .error .valueError ↔
      ∃ (i j : Nat) (hi : i < l.length) (hj : j < l.length), i < j ∧ ∃ v, TL.holds l[i] v ∧ TL.holds l[j] v := by
  constructor
  · exact disjoint_check_only_if O hO l hp
  · intro h
    cases hm : mkNested O l true with
    | ok n => exact absurd hm (disjoint_check_if O hO l h n)
    | error e =>
      by_cases he : e = .valueError
      · rw [he]
      · obtain ⟨a, ha, b, hb, hs⟩ := checkDisjoint_other O l e he ((mkNested_true_error O l e).mp hm)
        exact absurd hs (hns a ha b hb)

/-- Before the repair of `is_polytope_empty` for matrices without columns the equivalence failed without `Proper`:
    two copies of the unsatisfiable row `0 ≤ -1` share no behaviour, yet the constructor raised (no column ⇒ "not
    empty").  With the repair the pair is accepted, as it should be. -/
theorem disjoint_check_improper_repaired (O : Oracle) :
    mkNested O [[⟨[], -1⟩], [⟨[], -1⟩]] true = .ok [[⟨[], -1⟩], [⟨[], -1⟩]] ∧
    ¬ ∃ v, TL.holds [(⟨[], -1⟩ : PTerm)] v ∧ TL.holds [(⟨[], -1⟩ : PTerm)] v := by
  constructor
  · rfl
  · rintro ⟨v, h, _⟩
    have := h ⟨[], -1⟩ (by simp)
    simp only [PTerm.holds, evalL] at this
    exact absurd this (by decide)

/-! ### compound contracts -/

/-- A compound contract that the constructor accepts is stored unchanged, has disjoint assumption alternatives
    and a well-formed interface; every rejection is a `ValueError` (or the engine giving up). -/
theorem compound_wf (O : Oracle) (hO : O.Certified) (a g : Nested) (ins outs : List Var) (r : CContract)
    (h : mkCompound O a g ins outs = .ok r) :
    r = ⟨a, g, ins, outs⟩ ∧ a.Pairwise TL.Disj ∧ ins.Nodup ∧ outs.Nodup ∧ (∀ x ∈ ins, x ∉ outs) ∧
    (∀ x ∈ a.vars, x ∈ ins) ∧ (∀ x ∈ g.vars, x ∈ ins ∨ x ∈ outs) := by
  obtain ⟨h1, h2, h3⟩ := mkCompound_ok O a g ins outs r h
  exact ⟨h1, checkDisjoint_ok O hO a h2, h3⟩

/-- Merging two compound contracts: the assumptions' union is exactly the intersection of the operands'
    assumption unions, the same for the guarantees; the interface is the union of the interfaces; the resulting
    assumption alternatives are pairwise disjoint. -/
theorem merge_compound_sem (O : Oracle) (hO : O.Certified) (c d r : CContract)
    (h : mergeCompound O c d = .ok r) :
    (∀ v, (∃ l ∈ r.a, TL.holds l v) ↔ (∃ l ∈ c.a, TL.holds l v) ∧ (∃ l ∈ d.a, TL.holds l v)) ∧
    (∀ v, (∃ l ∈ r.g, TL.holds l v) ↔ (∃ l ∈ c.g, TL.holds l v) ∧ (∃ l ∈ d.g, TL.holds l v)) ∧
    r.ins = Gen.list_union c.ins d.ins ∧ r.outs = Gen.list_union c.outs d.outs ∧
    r.a.Pairwise TL.Disj := by
  unfold mergeCompound at h
  simp only at h
  split at h; · cases h
  rename_i a ha
  split at h; · cases h
  rename_i g hg
  obtain ⟨hr, hdis, _⟩ := compound_wf O hO a g _ _ r h
  subst hr
  exact ⟨intersect_sem O hO c.a d.a true a ha, intersect_sem O hO c.g d.g false g hg, rfl, rfl, hdis⟩

/-- Empty alternatives are discarded by `merge` too. -/
theorem merge_compound_no_empty (O : Oracle) (hO : O.Certified) (c d r : CContract)
    (hpc : (∀ l ∈ c.a, l.Proper) ∧ (∀ l ∈ c.g, l.Proper)) (hpd : (∀ l ∈ d.a, l.Proper) ∧ (∀ l ∈ d.g, l.Proper))
    (h : mergeCompound O c d = .ok r) :
    (∀ l ∈ r.a, ∃ v, TL.holds l v) ∧ (∀ l ∈ r.g, ∃ v, TL.holds l v) := by
  unfold mergeCompound at h
  simp only at h
  split at h; · cases h
  rename_i a ha
  split at h; · cases h
  rename_i g hg
  obtain ⟨hr, _⟩ := compound_wf O hO a g _ _ r h
  subst hr
  exact ⟨intersect_no_empty O hO c.a d.a true a hpc.1 hpd.1 ha, intersect_no_empty O hO c.g d.g false g hpc.2 hpd.2 hg⟩

/-- the oracle class is inhabited by the driver's oracle, whatever solver it wraps -/
theorem driver_oracle_certified (solver : Lin → TL → LPAns) : (checkedOracle solver).Certified :=
  checkedOracle_certified solver

/-! ### non-vacuity: concrete inputs (variable 1 = `a`), oracles with canned certificates -/

/-- `a ≤ 0` and `a ≥ 1` are disjoint (Farkas multipliers `1, 1`): accepted -/
example : mkNested (checkedOracle fun _ _ => .infeasible [1, 1]) [[⟨[(1, 1)], 0⟩], [⟨[(1, -1)], -1⟩]] true
    = .ok [[⟨[(1, 1)], 0⟩], [⟨[(1, -1)], -1⟩]] := by decide +kernel
/-- `a ≤ 0` and `a ≥ 0` touch in `a = 0`: refused -/
example : mkNested (checkedOracle fun _ _ => .optimal 0 [(1, 0)] [0, 0]) [[⟨[(1, 1)], 0⟩], [⟨[(1, -1)], 0⟩]] true
    = .error .valueError := by decide +kernel
/-- the touching pair intersects in one non-empty alternative; the disjoint pair in none -/
example : intersect (checkedOracle fun _ _ => .optimal 0 [(1, 0)] [0, 0]) [[⟨[(1, 1)], 0⟩]] [[⟨[(1, -1)], 0⟩]] false
    = .ok [[⟨[(1, 1)], 0⟩, ⟨[(1, -1)], 0⟩]] := by decide +kernel
example : intersect (checkedOracle fun _ _ => .infeasible [1, 1]) [[⟨[(1, 1)], 0⟩]] [[⟨[(1, -1)], -1⟩]] true
    = .ok [] := by decide +kernel
example : containsB [[⟨[(1, 1)], 0⟩], [⟨[(1, -1)], -1⟩]] [(1, 1)] = .ok true := by decide +kernel
example : containsB [[⟨[(1, 1)], 0⟩], [⟨[(1, -1)], -1⟩]] [(1, 1 / 2)] = .ok false := by decide +kernel
example : containsB [[⟨[(2, 1)], 0⟩], [⟨[(1, -1)], -1⟩]] [(1, 1)] = .error .valueError := by decide +kernel
/-- `[] ≤ n` and `n ≤ [[]]` are `True` without any LP -/
example (O : Oracle) : le O [] [[⟨[(1, 1)], 0⟩]] = .ok .yes := rfl
example (O : Oracle) : le O [[⟨[(1, 1)], 0⟩]] [[]] = .ok .yes := rfl

end Pacti.C17
