import Pacti.Proofs.PolyAlg
import Pacti.Props.C04
/-!
# C01 — composition returns a sound abstraction of the exact composition (polyhedral contracts)

`PolyAlg.compose (polyPrims O tie false (realTac O false hint))` is the model of
`PolyhedralIoContract.compose_tactics`: the generic algebra (interface definitions generated from the source)
instantiated with the modelled polyhedral primitives running on an LP oracle `O`.

`compose_sound_poly_partial` is the statement of the property for every wiring, kept set and flag, and for every
tactic order built from the tactics whose soundness is a theorem (2, 4, 5, 6; see C04).  The full statement — any
order — is `compose_sound_poly_any_sound_table`, which is proved for any tactic TABLE that is sound on the
order used; for tactics 1 and 3 of the real table soundness is established per run by the certified judge.
-/
namespace Pacti.C01
open PolyAlg

/-- full statement, for an arbitrary tactic table sound on the order used -/
theorem compose_sound_poly_any_sound_table (O : Oracle) (hO : O.Certified) (tie : PTerm → Bool)
    (tac : Nat → PTerm → TL → List Var → Bool → Elim.TacticRes)
    (c1 c2 c : Contract PTerm) (keep : List Var) (simp : Bool) (ord : List Nat) (hord : ∀ j ∈ ord, Elim.TacSound tac j)
    (h : compose (polyPrims O tie false tac) c1 c2 keep simp ord = .ok c) :
    ∀ v, TL.holds c.a v → (TL.holds c1.a v → TL.holds c1.g v) → (TL.holds c2.a v → TL.holds c2.g v) →
      TL.holds c1.a v ∧ TL.holds c2.a v ∧ TL.holds c.g v :=
  Alg.compose_sound PTerm.holds PTerm.vars _ (polyPrims_spec O hO tie false tac rfl) c1 c2 c keep simp ord hord h

/-- the real tactic table, orders over the tactics proved sound -/
theorem compose_sound_poly_partial (O : Oracle) (hO : O.Certified) (tie : PTerm → Bool) (hint : PTerm → TL → Bool → Option (List Nat))
    (c1 c2 c : Contract PTerm) (keep : List Var) (simp : Bool) (ord : List Nat) (hord : ∀ j ∈ ord, j ∈ [2, 4, 5, 6])
    (h : compose (polyPrims O tie false (realTac O false hint)) c1 c2 keep simp ord = .ok c) :
    ∀ v, TL.holds c.a v → (TL.holds c1.a v → TL.holds c1.g v) → (TL.holds c2.a v → TL.holds c2.g v) →
      TL.holds c1.a v ∧ TL.holds c2.a v ∧ TL.holds c.g v :=
  compose_sound_poly_any_sound_table O hO tie _ c1 c2 c keep simp ord
    (fun j hj => Pacti.C04.driver_tactics_sound O hO hint j (hord j hj)) h

end Pacti.C01
