import Pacti.Proofs.PolyAlg
import Pacti.Props.C04
/-!
# C01 — composition returns a sound abstraction of the exact composition (polyhedral contracts)

`PolyAlg.compose (polyPrims O tie false (realTac O false hint))` is the model of
`PolyhedralIoContract.compose_tactics`: the generic algebra (interface definitions generated from the source)
instantiated with the modelled polyhedral primitives running on an LP oracle `O`.

`compose_sound_poly` is the statement of the property for the real tactic table: every wiring, kept set, flag and
EVERY tactic order (every entry of the table is proved sound, see C04).  `compose_sound_poly_any_sound_table` is the
same for an arbitrary tactic table that is sound on the order used.
-/
namespace Pacti.C01
open PolyAlg

/-- full statement, for an arbitrary tactic table sound on the order used -/
theorem compose_sound_poly_any_sound_table (O : Oracle) (hO : O.Certified) (tie : PTerm → Bool)
    (tac : Nat → PTerm → TL → List Var → Bool → Elim.TacticRes)
    (c1 c2 c : Contract PTerm) (keep : List Var) (simp : Bool) (ord : List Nat) (hord : ∀ j ∈ ord, Elim.TacSound tac j)
    (h : compose (polyPrims O tie false tac) c1 c2 keep simp ord = .ok c) :
    ∀ v, TL.holds c.a v → (TL.holds c1.a v → TL.holds c1.g v) → (TL.holds c2.a v → TL.holds c2.g v) →
      TL.holds c1.a v ∧ TL.holds c2.a v ∧ TL.holds c.g v :=
  Alg.compose_sound PTerm.holds PTerm.vars _ (polyPrims_spec O hO tie false tac rfl) c1 c2 c keep simp ord hord h

/-- the real tactic table, any order -/
theorem compose_sound_poly (O : Oracle) (hO : O.Certified) (tie : PTerm → Bool) (hint : PTerm → TL → List Var → Bool → Option (List Nat))
    (c1 c2 c : Contract PTerm) (keep : List Var) (simp : Bool) (ord : List Nat) 
    (h : compose (polyPrims O tie false (realTac O false hint)) c1 c2 keep simp ord = .ok c) :
    ∀ v, TL.holds c.a v → (TL.holds c1.a v → TL.holds c1.g v) → (TL.holds c2.a v → TL.holds c2.g v) →
      TL.holds c1.a v ∧ TL.holds c2.a v ∧ TL.holds c.g v :=
  compose_sound_poly_any_sound_table O hO tie _ c1 c2 c keep simp ord
    (fun j _ => Pacti.C04.driver_tactics_sound O hO hint j) h

end Pacti.C01
