import Pacti.Proofs.Syntax
import Mathlib.Tactic.NormNum
/-!
# C09 — parsing a constraint string preserves its arithmetic meaning

`Syntax.Expr` is what the grammar parses (as a tree), `Syntax.denote e v` the written relation at the point `v` in
ordinary rational arithmetic with absolute value, and `Syntax.translate nn fold e` the model of the parse actions
(`syntax/grammar.py`, `syntax/data.py`) followed by the serializer's conversion to `PolyhedralTerm`s.  `nn` is
the value `_combine_optional_floats(None, None)` returns and `fold` says whether the parse actions of the constant
arithmetic evaluate a whole chain `a op b op c` or only `a op b`; the instance checked against the implementation on
every run is `Syntax.translateG = translate Gen.combineNoneNone Gen.arithFold`, both read off the source.

The full-strength statement

    theorem translate_sound : translateG e = .ok ts → ∀ v, TL.holds ts v ↔ denote e v

is **false of the pinned code** (`Gen.combineNoneNone = none`, `Gen.arithFold = false`) for two independent reasons:
`translate_unsound_pinned` proves its negation on `|x| + |x| <= 2` (whatever `fold` is) and
`translate_unsound_arith_pinned` / `translate_unsound_arith_only` on `(2*3*4)x <= 1` (`nn = none` / `some 2`).  It is proved for every tree, of every size
and nesting depth, for the repaired code (`translate_sound_fixed`: `nn = some 2`, `fold = true`);
`translate_sound_of_fix` transfers it to `translateG` as soon as the generated constants say the source is repaired,
and `Props/C09Full.lean` states it without hypotheses (that module checks only against a repaired source).
-/
namespace Pacti.C09
open Syntax

/-- **Soundness for the repaired code.**  Whatever tree the grammar accepts, if it is translated at all, the resulting
    inequalities hold at a point exactly when the written relation holds there: signs, multipliers, nested
    parentheses, constant arithmetic, repeated variables, repeated absolute values, chains, equalities. -/
theorem translate_sound_fixed (e : Expr) (ts : TL) (h : translate (some 2) true e = .ok ts) :
    ∀ v, TL.holds ts v ↔ denote e v := by
  intro v
  cases e with
  | eq l r =>
    simp only [translate] at h
    cases hl : l.tr true with
    | error e => simp [hl] at h
    | ok lhs =>
      cases hr : r.tr true with
      | error e => simp [hl, hr] at h
      | ok rhs =>
        simp only [hl, hr, Except.ok.injEq] at h; subst h
        have h1 := Tms.tr_sound l lhs hl v
        have h2 := Tms.tr_sound r rhs hr v
        simp only [TL.holds, List.mem_cons, List.not_mem_nil, or_false, forall_eq_or_imp, forall_eq,
          SynTL.holds_toPTerm, SynTL.eval_add, SynTL.eval_negate, h1, h2, denote]
        constructor
        · rintro ⟨a, b⟩; linarith
        · intro a; constructor <;> linarith
  | leq s1 s2 rest =>
    simp only [translate] at h
    cases hm : moved (some 2) true (.leq s1 s2 rest) with
    | error e => simp [hm] at h
    | ok ds =>
      simp only [hm] at h
      rw [convert_sound ds ts h v]
      exact moved_sound _ ds hm (by intro l r hc; cases hc) v
  | geq s1 s2 rest =>
    simp only [translate] at h
    cases hm : moved (some 2) true (.geq s1 s2 rest) with
    | error e => simp [hm] at h
    | ok ds =>
      simp only [hm] at h
      rw [convert_sound ds ts h v]
      exact moved_sound _ ds hm (by intro l r hc; cases hc) v

/-- the same for the instance tied to the source, once the source returns `2.0` for `(None, None)` -/
theorem translate_sound_of_fix (hfix : Gen.combineNoneNone = some 2) (hfold : Gen.arithFold = true) (e : Expr) (ts : TL)
    (h : translateG e = .ok ts) : ∀ v, TL.holds ts v ↔ denote e v := by
  unfold translateG at h; rw [hfix, hfold] at h
  exact translate_sound_fixed e ts h

/-- the witness: `|x| + |x| <= 2` (`x` is variable 1) -/
def twiceAbs : Expr :=
  .leq [.item (.abs false none (.cons false (.var 1) .nil)), .item (.abs false none (.cons false (.var 1) .nil))]
       [.item (.tm false (.const (.num 2)))] []

/-- what the pinned code makes of it: `x <= 2`, `-x <= 2`, i.e. `|x| <= 2` -/
theorem twiceAbs_pinned (fold : Bool) : translate none fold twiceAbs = .ok [⟨[(1, 1)], 2⟩, ⟨[(1, -1)], 2⟩] := by
  cases fold <;> decide +kernel

/-- **The pinned code is unsound**: with `_combine_optional_floats(None, None) = None` the relation
    `|x| + |x| <= 2` is translated, and at `x = 2` the result holds although the relation does not (`4 ≤ 2`). -/
theorem translate_unsound_pinned (fold : Bool) :
    ∃ e ts v, translate none fold e = .ok ts ∧ ¬ (TL.holds ts v ↔ denote e v) := by
  refine ⟨twiceAbs, _, fun _ => 2, twiceAbs_pinned fold, ?_⟩
  intro h
  have hl : TL.holds [⟨[(1, 1)], 2⟩, ⟨[(1, -1)], 2⟩] (fun _ => (2 : Rat)) := by
    intro t ht
    simp only [List.mem_cons, List.not_mem_nil, or_false] at ht
    rcases ht with rfl | rfl <;> simp only [PTerm.holds, evalL] <;> norm_num
  have hd := h.mp hl
  simp only [denote, twiceAbs, sideDen, SItem.den, Item.den, Tms.den, Tm.den, sgn, kval, Arith.val, List.map_nil,
    chainLe, rabs_eq_abs] at hd
  norm_num at hd

/-- the second witness: `(2*3*4)x <= 1` -/
def chainCoef : Expr :=
  .leq [.item (.tm false (.kvar (.mul (.mul (.num 2) (.num 3)) (.num 4)) 1))] [.item (.tm false (.const (.num 1)))] []

/-- **The pinned constant arithmetic is unsound**: whenever parse actions that compute only the first operator of a
    chain turn `(2*3*4)x <= 1` into `6x <= 1` (the `*4` is ignored), the result holds at `x = 1/10` although the
    written `24x <= 1` does not. -/
theorem chainCoef_unsound (nn : Option Rat) (hp : translate nn false chainCoef = .ok [⟨[(1, 6)], 1⟩]) :
    ∃ e ts v, translate nn false e = .ok ts ∧ ¬ (TL.holds ts v ↔ denote e v) := by
  refine ⟨chainCoef, _, fun _ => 1 / 10, hp, ?_⟩
  intro h
  have hl : TL.holds [⟨[(1, 6)], 1⟩] (fun _ => (1 / 10 : Rat)) := by
    intro t ht
    simp only [List.mem_cons, List.not_mem_nil, or_false] at ht
    subst ht; simp only [PTerm.holds, evalL]; norm_num
  have hd := h.mp hl
  simp only [denote, chainCoef, sideDen, SItem.den, Item.den, Tm.den, sgn, Arith.val, List.map_nil, chainLe] at hd
  norm_num at hd

/-- …for the source as pinned (`nn = none`) -/
theorem translate_unsound_arith_pinned :
    ∃ e ts v, translate none false e = .ok ts ∧ ¬ (TL.holds ts v ↔ denote e v) :=
  chainCoef_unsound none (by decide +kernel)

/-- …and for a source in which only `_combine_optional_floats` has been repaired (`nn = some 2`) -/
theorem translate_unsound_arith_only :
    ∃ e ts v, translate (some 2) false e = .ok ts ∧ ¬ (TL.holds ts v ↔ denote e v) :=
  chainCoef_unsound (some 2) (by decide +kernel)

/-- the same negation, stated for the driver's instance whenever the source still returns `None` -/
theorem translate_unsound_of_pinned
    (hpin : Gen.combineNoneNone = none ∨ (Gen.combineNoneNone = some 2 ∧ Gen.arithFold = false)) :
    ∃ e ts v, translateG e = .ok ts ∧ ¬ (TL.holds ts v ↔ denote e v) := by
  unfold translateG
  rcases hpin with hpin | ⟨h1, h2⟩
  · rw [hpin]; exact translate_unsound_pinned Gen.arithFold
  · rw [h1, h2]; exact translate_unsound_arith_only

/-- **Non-convex uses of absolute values are rejected, not translated**: if, after moving everything of some pair of
    adjacent sides to one side (`moved`: `a - b` for `a <= b`, `-a + b` for `a >= b`, equal absolute terms combined),
    some absolute term is left with a coefficient `≤ 0`, the result is the convexity error.  For every `nn`. -/
theorem translate_rejects_nonconvex (nn : Option Rat) (fold : Bool) (e : Expr) (ds : List ATL) (h : moved nn fold e = .ok ds)
    (d : ATL) (hd : d ∈ ds) (a : AbsTerm) (ha : a ∈ d.abs) (c : Rat) (hc : a.coeff = some c) (hle : c ≤ 0) :
    translate nn fold e = .error .convex := by
  have hneg : checkAbs d.abs = false := (checkAbs_false_iff d.abs).mpr ⟨a, ha, c, hc, hle⟩
  cases e with
  | eq l r => simp only [moved, Except.ok.injEq] at h; subst h; cases hd
  | leq s1 s2 rest => simp only [translate, h]; exact convert_convex ds d hd hneg
  | geq s1 s2 rest => simp only [translate, h]; exact convert_convex ds d hd hneg

/-- …and only then: the convexity error is raised only when such an absolute term exists. -/
theorem translate_convex_only_if (nn : Option Rat) (fold : Bool) (e : Expr) (h : translate nn fold e = .error .convex) :
    ∃ ds, moved nn fold e = .ok ds ∧ ∃ d ∈ ds, ∃ a ∈ d.abs, ∃ c, a.coeff = some c ∧ c ≤ 0 := by
  have key : ∀ e', (translate nn fold e' = match moved nn fold e' with | .error k => .error k | .ok ds => convert ds) →
      translate nn fold e' = .error .convex → ∃ ds, moved nn fold e' = .ok ds ∧ ∃ d ∈ ds, ∃ a ∈ d.abs, ∃ c, a.coeff = some c ∧ c ≤ 0 := by
    intro e' hdef h'
    rw [hdef] at h'
    cases hm : moved nn fold e' with
    | error k =>
      simp only [hm, Except.error.injEq] at h'
      have := moved_err nn fold e' k hm
      rw [h'] at this; cases this
    | ok ds =>
      simp only [hm] at h'
      obtain ⟨d, hd, hc⟩ := convert_err_witness ds _ h'
      exact ⟨ds, rfl, d, hd, (checkAbs_false_iff d.abs).mp hc⟩
  cases e with
  | eq l r =>
    simp only [translate] at h
    cases hl : l.tr fold with
    | error k =>
      simp only [hl, Except.error.injEq] at h
      have := Tms.trAcc_err fold l _ k hl
      rw [h] at this; cases this
    | ok lhs =>
      cases hr : r.tr fold with
      | error k =>
        simp only [hl, hr, Except.error.injEq] at h
        have := Tms.trAcc_err fold r _ k hr
        rw [h] at this; cases this
      | ok rhs => simp [hl, hr] at h
  | leq s1 s2 rest => exact key _ rfl h
  | geq s1 s2 rest => exact key _ rfl h

/-- **Error kinds**: the translation of a tree fails only with the convexity error or with Python's
    `ZeroDivisionError` (constant arithmetic dividing by zero) — for every `nn` and `fold`.  (Feeds C14: the second one is not a
    documented exception.) -/
theorem translate_error_kinds (nn : Option Rat) (fold : Bool) (e : Expr) (k : Err) (h : translate nn fold e = .error k) :
    k = .convex ∨ k = .py "ZeroDivisionError" := by
  cases e with
  | eq l r =>
    right
    simp only [translate] at h
    cases hl : l.tr fold with
    | error k' => simp only [hl, Except.error.injEq] at h; exact h ▸ Tms.trAcc_err fold l _ k' hl
    | ok lhs =>
      cases hr : r.tr fold with
      | error k' => simp only [hl, hr, Except.error.injEq] at h; exact h ▸ Tms.trAcc_err fold r _ k' hr
      | ok rhs => simp [hl, hr] at h
  | leq s1 s2 rest =>
    simp only [translate] at h
    cases hm : moved nn fold (.leq s1 s2 rest) with
    | error k' => simp only [hm, Except.error.injEq] at h; exact Or.inr (h ▸ moved_err nn fold _ k' hm)
    | ok ds => simp only [hm] at h; exact Or.inl (convert_err ds k h)
  | geq s1 s2 rest =>
    simp only [translate] at h
    cases hm : moved nn fold (.geq s1 s2 rest) with
    | error k' => simp only [hm, Except.error.injEq] at h; exact Or.inr (h ▸ moved_err nn fold _ k' hm)
    | ok ds => simp only [hm] at h; exact Or.inl (convert_err ds k h)

/-- division by zero is the only way the parse stage fails, and it does fail then -/
theorem arith_div_zero (a b : Arith) (x : Rat) (ha : a.evalW true = .ok x) (hb : b.evalW true = .ok 0) :
    (Arith.div a b).evalW true = .error (.py "ZeroDivisionError") := by
  simp [Arith.evalW, ha, hb, zeroDiv]

/-! ### non-vacuity -/

/-- with the repaired value the witness is translated to `2x <= 2`, `-2x <= 2` -/
example : translate (some 2) true twiceAbs = .ok [⟨[(1, 2)], 2⟩, ⟨[(1, -2)], 2⟩] := by decide +kernel

/-- `|x| <= |y|` is rejected -/
example : translate (some 2) true
    (.leq [.item (.abs false none (.cons false (.var 1) .nil))] [.item (.abs false none (.cons false (.var 2) .nil))] [])
      = .error .convex := by decide +kernel

/-- `-2(|x| + y) <= 3` is rejected, `3 >= |x| >= 1` is rejected at the second pair -/
example : translate none false
    (.leq [.group true (some (.num 2)) [.abs false none (.cons false (.var 1) .nil), .tm false (.var 2)]]
      [.item (.tm false (.const (.num 3)))] []) = .error .convex := by decide +kernel

example : translate none false
    (.geq [.item (.tm false (.const (.num 3)))] [.item (.abs false none (.cons false (.var 1) .nil))]
      [[.item (.tm false (.const (.num 1)))]]) = .error .convex := by decide +kernel

/-- `(1/(2-2)) x = 1` raises `ZeroDivisionError` -/
example : translate none false
    (.eq (.cons false (.kvar (.div (.num 1) (.sub (.num 2) (.num 2))) 1) .nil) (.cons false (.const (.num 1)) .nil))
      = .error (.py "ZeroDivisionError") := by decide +kernel

/-- a nested, chained example is translated: `|y| + 3|y| <= x - 2(x + (1/2)) <= 4` gives
    `x + 4y <= -1`, `x - 4y <= -1`, `-x <= 5` -/
example : translate (some 2) true
    (.leq [.item (.abs false none (.cons false (.var 2) .nil)), .item (.abs false (some (.num 3)) (.cons false (.var 2) .nil))]
          [.item (.tm false (.var 1)),
           .item (.tm true (.kparen (.num 2) (.cons false (.var 1) (.cons false (.const (.div (.num 1) (.num 2))) .nil))))]
          [[.item (.tm false (.const (.num 4)))]])
      = .ok [⟨[(1, 1), (2, 4)], -1⟩, ⟨[(1, 1), (2, -4)], -1⟩, ⟨[(1, -1)], 5⟩] := by decide +kernel

end Pacti.C09
