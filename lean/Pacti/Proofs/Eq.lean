import Pacti.Model.Eq
/-
  Pacti.Proofs.Eq — helper lemmas for C19 (equality, hashing, copying).
-/
set_option linter.unusedSectionVars false

namespace EqModel
open NumOps

variable {N : Type} [NumOps N]

namespace Term

/-! ### dict lookup -/

theorem find_some_mem {x : V} {w : N} : ∀ {l : List (V × N)}, find x l = some w → (x, w) ∈ l
  | [], h => by simp [find] at h
  | p :: r, h => by
    unfold find at h
    split at h
    · rename_i hp
      cases h
      subst hp
      exact List.mem_cons_self
    · exact List.mem_cons_of_mem _ (find_some_mem h)

theorem find_of_mem_keys {x : V} : ∀ {l : List (V × N)}, x ∈ l.map (·.1) → ∃ w, find x l = some w
  | [], h => by simp at h
  | p :: r, h => by
    unfold find
    by_cases hp : p.1 = x
    · exact ⟨p.2, by simp [hp]⟩
    · simp only [hp, ↓reduceIte]
      apply find_of_mem_keys
      simp only [List.map_cons, List.mem_cons] at h
      rcases h with h | h
      · exact absurd h.symm hp
      · exact h

theorem find_of_mem_nodup {x : V} {w : N} : ∀ {l : List (V × N)}, (l.map (·.1)).Nodup → (x, w) ∈ l → find x l = some w
  | [], _, h => by simp at h
  | p :: r, hn, h => by
    simp only [List.map_cons, List.nodup_cons] at hn
    unfold find
    rcases List.mem_cons.mp h with h | h
    · subst h; simp
    · have hx : x ∈ r.map (·.1) := List.mem_map.mpr ⟨(x, w), h, rfl⟩
      have hp : p.1 ≠ x := fun e => hn.1 (e ▸ hx)
      simp only [hp, ↓reduceIte]
      exact find_of_mem_nodup hn.2 h

/-! ### `__eq__` unfolded -/

theorem keysEq_iff (s t : Term N) : keysEq s t = true ↔ ∀ x, x ∈ s.keys ↔ x ∈ t.keys := by
  simp only [keysEq, Bool.and_eq_true, List.all_eq_true, List.contains_iff_mem]
  constructor
  · rintro ⟨h1, h2⟩ x; exact ⟨h1 x, h2 x⟩
  · intro h; exact ⟨fun x hx => (h x).mp hx, fun x hx => (h x).mpr hx⟩

theorem valsEq_iff (s t : Term N) :
    valsEq s t = true ↔ ∀ p ∈ s.coeffs, ∃ w, find p.1 t.coeffs = some w ∧ eqN p.2 w = true := by
  simp only [valsEq, List.all_eq_true, get?]
  constructor
  · intro h p hp
    have := h p hp
    split at this
    · rename_i w hw; exact ⟨w, hw, this⟩
    · cases this
  · intro h p hp
    obtain ⟨w, hw, he⟩ := h p hp
    simp [hw, he]

theorem eq_iff (s t : Term N) :
    eq s t = true ↔ (∀ x, x ∈ s.keys ↔ x ∈ t.keys) ∧
      (∀ p ∈ s.coeffs, ∃ w, find p.1 t.coeffs = some w ∧ eqN p.2 w = true) ∧ eqN s.const t.const = true := by
  simp only [eq, Bool.and_eq_true, keysEq_iff, valsEq_iff, and_assoc]

theorem eq_refl (hr : ∀ a : N, eqN a a = true) (t : Term N) (hn : t.NodupKeys) : eq t t = true := by
  rw [eq_iff]
  refine ⟨fun _ => Iff.rfl, ?_, hr _⟩
  intro p hp
  exact ⟨p.2, find_of_mem_nodup hn hp, hr _⟩

theorem eq_symm (hs : ∀ a b : N, eqN a b = true → eqN b a = true) (s t : Term N) (hn : t.NodupKeys)
    (h : eq s t = true) : eq t s = true := by
  rw [eq_iff] at h ⊢
  obtain ⟨hk, hv, hc⟩ := h
  refine ⟨fun x => (hk x).symm, ?_, hs _ _ hc⟩
  intro q hq
  have hqs : q.1 ∈ s.keys := (hk q.1).mpr (List.mem_map.mpr ⟨q, hq, rfl⟩)
  obtain ⟨v, hv1⟩ := find_of_mem_keys hqs
  obtain ⟨w, hw, he⟩ := hv (q.1, v) (find_some_mem hv1)
  have : find q.1 t.coeffs = some q.2 := find_of_mem_nodup hn hq
  simp only at hw
  rw [this] at hw
  cases hw
  exact ⟨v, hv1, hs _ _ he⟩

theorem eq_trans (ht : ∀ a b c : N, eqN a b = true → eqN b c = true → eqN a c = true) (s t u : Term N)
    (h1 : eq s t = true) (h2 : eq t u = true) : eq s u = true := by
  rw [eq_iff] at h1 h2 ⊢
  obtain ⟨hk1, hv1, hc1⟩ := h1
  obtain ⟨hk2, hv2, hc2⟩ := h2
  refine ⟨fun x => (hk1 x).trans (hk2 x), ?_, ht _ _ _ hc1 hc2⟩
  intro p hp
  obtain ⟨w, hw, he⟩ := hv1 p hp
  obtain ⟨z, hz, he2⟩ := hv2 (p.1, w) (find_some_mem hw)
  exact ⟨z, hz, ht _ _ _ he he2⟩

/-! ### sorting by variable, `__str__` -/

theorem mem_insertK {a p : V × N} : ∀ {l : List (V × N)}, a ∈ insertK p l ↔ a = p ∨ a ∈ l
  | [] => by simp [insertK]
  | q :: r => by
    unfold insertK
    split
    · simp
    · simp only [List.mem_cons, mem_insertK (l := r)]
      constructor
      · rintro (h | h | h)
        · exact Or.inr (Or.inl h)
        · exact Or.inl h
        · exact Or.inr (Or.inr h)
      · rintro (h | h | h)
        · exact Or.inr (Or.inl h)
        · exact Or.inl h
        · exact Or.inr (Or.inr h)

theorem mem_sortK {a : V × N} : ∀ {l : List (V × N)}, a ∈ sortK l ↔ a ∈ l
  | [] => by simp [sortK]
  | p :: r => by
    have ih := mem_sortK (a := a) (l := r)
    simp only [sortK, List.foldr_cons] at ih ⊢
    rw [mem_insertK, ih, List.mem_cons]

/-- strictly increasing variables -/
def SortedK (l : List (V × N)) : Prop := l.Pairwise (fun a b => a.1 < b.1)

theorem sorted_insertK {p : V × N} : ∀ {l : List (V × N)}, SortedK l → (∀ q ∈ l, q.1 ≠ p.1) → SortedK (insertK p l)
  | [], _, _ => by simp [insertK, SortedK]
  | q :: r, hs, hne => by
    unfold SortedK at hs ⊢
    have hs' := List.pairwise_cons.mp hs
    unfold insertK
    split
    · rename_i hle
      have hlt : p.1 < q.1 := Nat.lt_of_le_of_ne hle (Ne.symm (hne q List.mem_cons_self))
      refine List.pairwise_cons.mpr ⟨?_, hs⟩
      intro b hb
      rcases List.mem_cons.mp hb with hb | hb
      · subst hb; exact hlt
      · exact Nat.lt_trans hlt (hs'.1 b hb)
    · rename_i hle
      refine List.pairwise_cons.mpr ⟨?_, sorted_insertK hs'.2 (fun b hb => hne b (List.mem_cons_of_mem _ hb))⟩
      intro b hb
      rcases mem_insertK.mp hb with hb | hb
      · subst hb; exact Nat.lt_of_not_le hle
      · exact hs'.1 b hb

theorem sorted_sortK : ∀ {l : List (V × N)}, (l.map (·.1)).Nodup → SortedK (sortK l)
  | [], _ => by simp [sortK, SortedK]
  | p :: r, hn => by
    simp only [List.map_cons, List.nodup_cons] at hn
    simp only [sortK, List.foldr_cons]
    apply sorted_insertK (sorted_sortK hn.2)
    intro q hq he
    have hq' : q ∈ r := mem_sortK.mp hq
    exact hn.1 (he ▸ List.mem_map.mpr ⟨q, hq', rfl⟩)

/-- two lists with strictly increasing variables and the same variable set are mapped to the same list by any
    function that agrees on entries with the same variable -/
theorem map_eq_of_sorted {β : Type} (f : V × N → β) : ∀ {A B : List (V × N)}, SortedK A → SortedK B →
    (∀ x, x ∈ A.map (·.1) ↔ x ∈ B.map (·.1)) → (∀ p ∈ A, ∀ q ∈ B, p.1 = q.1 → f p = f q) → A.map f = B.map f
  | [], [], _, _, _, _ => rfl
  | [], b :: B, _, _, hk, _ => by
    have := (hk b.1).mpr (by simp)
    simp at this
  | a :: A, [], _, _, hk, _ => by
    have := (hk a.1).mp (by simp)
    simp at this
  | a :: A, b :: B, hA, hB, hk, hf => by
    unfold SortedK at hA hB
    have hA' := List.pairwise_cons.mp hA
    have hB' := List.pairwise_cons.mp hB
    have hab : a.1 = b.1 := by
      have h1 := (hk a.1).mp (by simp)
      have h2 := (hk b.1).mpr (by simp)
      simp only [List.map_cons, List.mem_cons, List.mem_map] at h1 h2
      rcases h1 with h1 | ⟨q, hq, hq1⟩
      · exact h1
      · rcases h2 with h2 | ⟨p, hp, hp1⟩
        · exact h2.symm
        · have h3 : a.1 < p.1 := hA'.1 p hp
          have h4 : b.1 < q.1 := hB'.1 q hq
          rw [hp1] at h3
          rw [hq1] at h4
          exact absurd (Nat.lt_trans h3 h4) (Nat.lt_irrefl _)
    have hk' : ∀ x, x ∈ A.map (·.1) ↔ x ∈ B.map (·.1) := by
      intro x
      constructor
      · intro hx
        obtain ⟨p, hp, hp1⟩ := List.mem_map.mp hx
        have h1 := (hk x).mp (by simp only [List.map_cons, List.mem_cons]; exact Or.inr hx)
        simp only [List.map_cons, List.mem_cons] at h1
        rcases h1 with h1 | h1
        · have h3 : a.1 < p.1 := hA'.1 p hp
          rw [hp1, h1, hab] at h3
          exact absurd h3 (Nat.lt_irrefl _)
        · exact h1
      · intro hx
        obtain ⟨q, hq, hq1⟩ := List.mem_map.mp hx
        have h1 := (hk x).mpr (by simp only [List.map_cons, List.mem_cons]; exact Or.inr hx)
        simp only [List.map_cons, List.mem_cons] at h1
        rcases h1 with h1 | h1
        · have h3 : b.1 < q.1 := hB'.1 q hq
          rw [hq1, h1, hab] at h3
          exact absurd h3 (Nat.lt_irrefl _)
        · exact h1
    simp only [List.map_cons]
    rw [hf a List.mem_cons_self b List.mem_cons_self hab,
      map_eq_of_sorted f hA'.2 hB'.2 hk' (fun p hp q hq => hf p (List.mem_cons_of_mem _ hp) q (List.mem_cons_of_mem _ hq))]

/-- equal terms print equally when their coefficients and constants do -/
theorem strWith_eq_of_eq (pz : Bool) (nm : V → String) (s t : Term N) (hs : s.NodupKeys) (ht : t.NodupKeys)
    (hcoef : ∀ p ∈ s.coeffs, ∀ w : N, eqN p.2 w = true → strN p.2 = strN w)
    (hconst : eqN s.const t.const = true → strK pz s.const = strK pz t.const)
    (h : eq s t = true) : strWith pz nm s = strWith pz nm t := by
  rw [eq_iff] at h
  obtain ⟨hk, hv, hcst⟩ := h
  unfold strWith
  rw [hconst hcst]
  congr 3
  apply map_eq_of_sorted _ (sorted_sortK hs) (sorted_sortK ht)
  · intro x
    have := hk x
    simp only [keys, List.mem_map] at this
    simp only [List.mem_map, mem_sortK]
    exact this
  · intro p hp q hq hpq
    have hp' := mem_sortK.mp hp
    have hq' := mem_sortK.mp hq
    obtain ⟨w, hw, he⟩ := hv p hp'
    have hq2 : find p.1 t.coeffs = some q.2 := by
      rw [hpq]; exact find_of_mem_nodup ht hq'
    rw [hq2] at hw
    cases hw
    simp only [hcoef p hp' _ he, hpq]

/-- …in particular when equal numbers print equally -/
theorem str_eq_of_eq (hc : NumOps.Coherent N) (nm : V → String) (s t : Term N) (hs : s.NodupKeys) (ht : t.NodupKeys)
    (h : eq s t = true) : str nm s = str nm t := by
  unfold str
  apply strWith_eq_of_eq _ nm s t hs ht (fun p _ w he => (hc _ _ he).1) ?_ h
  intro he
  unfold strK
  split
  · exact (hc _ _ he).2
  · exact (hc _ _ he).1

/-- …and, for constructed terms over numbers satisfying the IEEE part of the law, when the constant is printed
    through `+ 0.0` -/
theorem strWith_true_eq_of_eq (hc : NumOps.CoherentIEEE N) (nm : V → String) (s t : Term N) (hs : s.NodupKeys)
    (ht : t.NodupKeys) (hz : s.NoZero) (h : eq s t = true) : strWith true nm s = strWith true nm t := by
  apply strWith_eq_of_eq _ nm s t hs ht (fun p hp w he => hc.nz _ _ he (hz p hp)) ?_ h
  intro he
  simp only [strK, ↓reduceIte]
  exact hc.z _ _ he

/-! ### the constructor and `copy` -/

theorem mk'_noZero (l : List (V × N)) (k : N) : (mk' l k).NoZero := by
  intro p hp
  simp only [mk', List.mem_filter, Bool.not_eq_true'] at hp
  exact hp.2

theorem mk'_nodupKeys (l : List (V × N)) (k : N) (h : (l.map (·.1)).Nodup) : (mk' l k).NodupKeys := by
  unfold NodupKeys keys mk'
  exact (List.filter_sublist.map _).nodup h

/-- copying a constructed term (no zero coefficient stored) returns the same dict and constant -/
theorem copy_eq_self (t : Term N) (hz : t.NoZero) : t.copy = t := by
  unfold copy mk'
  have : t.coeffs.filter (fun p => !isZero p.2) = t.coeffs := by
    apply List.filter_eq_self.mpr
    intro p hp
    simp [hz p hp]
  rw [this]

end Term

namespace TList

theorem eq_refl (hr : ∀ a : N, eqN a a = true) : ∀ (l : TList N), l.NodupKeys → eq l l = true
  | [], _ => rfl
  | t :: l, hn => by
    unfold eq
    rw [Term.eq_refl hr t (hn t List.mem_cons_self), eq_refl hr l (fun u hu => hn u (List.mem_cons_of_mem _ hu))]
    rfl

theorem eq_symm (hs : ∀ a b : N, eqN a b = true → eqN b a = true) :
    ∀ (l m : TList N), m.NodupKeys → eq l m = true → eq m l = true
  | [], [], _, _ => rfl
  | [], _ :: _, _, h => by simp [eq] at h
  | _ :: _, [], _, h => by simp [eq] at h
  | s :: l, t :: m, hn, h => by
    unfold eq at h ⊢
    simp only [Bool.and_eq_true] at h ⊢
    exact ⟨Term.eq_symm hs s t (hn t List.mem_cons_self) h.1,
      eq_symm hs l m (fun u hu => hn u (List.mem_cons_of_mem _ hu)) h.2⟩

theorem eq_trans (ht : ∀ a b c : N, eqN a b = true → eqN b c = true → eqN a c = true) :
    ∀ (l m n : TList N), eq l m = true → eq m n = true → eq l n = true
  | [], [], [], _, _ => rfl
  | [], [], _ :: _, _, h => by simp [eq] at h
  | [], _ :: _, _, h, _ => by simp [eq] at h
  | _ :: _, [], _, h, _ => by simp [eq] at h
  | _ :: _, _ :: _, [], _, h => by simp [eq] at h
  | s :: l, t :: m, u :: n, h1, h2 => by
    unfold eq at h1 h2 ⊢
    simp only [Bool.and_eq_true] at h1 h2 ⊢
    exact ⟨Term.eq_trans ht s t u h1.1 h2.1, eq_trans ht l m n h1.2 h2.2⟩

/-- equal lists have equal tuples of term hashes, given that equal members print equally -/
theorem hash_eq_of_eq' {Hc : Type} (nm : V → String) (H : Hashers Hc) :
    ∀ (l m : TList N), (∀ s ∈ l, ∀ t ∈ m, Term.eq s t = true → Term.str nm s = Term.str nm t) → eq l m = true →
      l.map (Term.hash nm H) = m.map (Term.hash nm H)
  | [], [], _, _ => rfl
  | [], _ :: _, _, h => by simp [eq] at h
  | _ :: _, [], _, h => by simp [eq] at h
  | s :: l, t :: m, hstr, h => by
    unfold eq at h
    simp only [Bool.and_eq_true] at h
    simp only [List.map_cons]
    rw [hash_eq_of_eq' nm H l m (fun a ha b hb => hstr a (List.mem_cons_of_mem _ ha) b (List.mem_cons_of_mem _ hb)) h.2]
    unfold Term.hash
    rw [hstr s List.mem_cons_self t List.mem_cons_self h.1]

theorem hash_eq_of_eq {Hc : Type} (hc : NumOps.Coherent N) (nm : V → String) (H : Hashers Hc)
    (l m : TList N) (hl : l.NodupKeys) (hm : m.NodupKeys) (h : eq l m = true) :
    l.map (Term.hash nm H) = m.map (Term.hash nm H) :=
  hash_eq_of_eq' nm H l m (fun s hs t ht he => Term.str_eq_of_eq hc nm s t (hl s hs) (hm t ht) he) h

theorem copy_eq_self : ∀ (l : TList N), l.NoZero → l.copy = l
  | [], _ => rfl
  | t :: l, hz => by
    have ih := copy_eq_self l (fun u hu => hz u (List.mem_cons_of_mem _ hu))
    unfold copy at ih ⊢
    simp only [List.map_cons]
    rw [Term.copy_eq_self t (hz t List.mem_cons_self), ih]

end TList

/-! ### nested term lists -/

theorem NTL.le_refl {L : Type} (le : L → L → Bool) (hr : ∀ x, le x x = true) (a : List L) : NTL.le le a a = true := by
  simp only [NTL.le, List.all_eq_true, List.any_eq_true]
  intro x hx
  exact ⟨x, hx, hr x⟩

theorem NTL.le_trans {L : Type} (le : L → L → Bool) (ht : ∀ x y z, le x y = true → le y z = true → le x z = true)
    (a b c : List L) (h1 : NTL.le le a b = true) (h2 : NTL.le le b c = true) : NTL.le le a c = true := by
  simp only [NTL.le, List.all_eq_true, List.any_eq_true] at h1 h2 ⊢
  intro x hx
  obtain ⟨y, hy, hxy⟩ := h1 x hx
  obtain ⟨z, hz, hyz⟩ := h2 y hy
  exact ⟨z, hz, ht x y z hxy hyz⟩

end EqModel
