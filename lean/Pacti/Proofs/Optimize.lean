import Pacti.Model.Poly
import Pacti.Proofs.Refine
/-! `optimize` / `get_variable_bounds` (C12), for the oracle class that is faithful to HiGHS' presolve. -/

theorem Oracle.Certified.toPresolveAmbiguous (O : Oracle) (h : O.Certified) : O.PresolveAmbiguous where
  opt := h.opt
  inf := fun obj cs hh => Or.inl (h.inf obj cs hh)
  inf0 := fun cs hh => h.inf [] cs hh
  unb := h.unb

/-- a linear form all of whose total coefficients vanish is zero -/
theorem evalL_zero_of_coeffs (l : Lin) (v : Val) (h : ∀ x, coeffOf x l = 0) : evalL l v = 0 := by
  induction hn : l.length using Nat.strong_induction_on generalizing l with
  | _ n ih =>
    cases l with
    | nil => rfl
    | cons p r =>
      -- split off every entry with key p.1
      have hsplit : evalL (p :: r) v = coeffOf p.1 (p :: r) * v p.1 + evalL ((p :: r).filter (fun q => q.1 != p.1)) v := by
        have := evalL_filter_ne (p :: r) p.1 v
        linarith
      rw [hsplit, h p.1]
      have hlen : ((p :: r).filter (fun q => q.1 != p.1)).length < n := by
        subst hn
        have : ((p :: r).filter (fun q => q.1 != p.1)) = r.filter (fun q => q.1 != p.1) := by simp
        rw [this]
        exact Nat.lt_of_le_of_lt (List.length_filter_le _ _) (by simp)
      have hco : ∀ x, coeffOf x ((p :: r).filter (fun q => q.1 != p.1)) = 0 := by
        intro x
        by_cases hx : x = p.1
        · subst hx
          apply coeffOf_eq_zero_of_not_mem
          simp [varsL]
        · have : ∀ (l : Lin), coeffOf x (l.filter (fun q => q.1 != p.1)) = coeffOf x l := by
            intro l
            induction l with
            | nil => rfl
            | cons a l ih2 =>
              by_cases ha : a.1 = p.1
              · have hne : ¬ a.1 = x := fun e => hx (by rw [← e, ha])
                simp only [List.filter_cons, ha, bne_self_eq_false, Bool.false_eq_true, ↓reduceIte, coeffOf, hne, ih2]
                rw [← ha]; simp [hne]
              · have : (a.1 != p.1) = true := by simp [ha]
                simp only [List.filter_cons, this, ↓reduceIte, coeffOf, ih2]
          rw [this]; exact h x
      rw [ih _ hlen _ hco rfl]; ring

namespace Poly

theorem isEmpty_sound (O : Oracle) (hO : O.PresolveAmbiguous) (l : TL) (b : Bool) (h : isEmpty O l = .ok b) :
    b = true → ¬ ∃ v, TL.holds l v := by
  intro hb; subst hb
  unfold isEmpty polyEmpty at h
  split at h; · cases h
  rename_i hr0
  split at h
  · rename_i h0
    have hn : l.vars.length = 0 := by
      rcases Nat.mul_eq_zero.mp h0 with h1 | h1
      · exact absurd h1 hr0
      · exact h1
    simp only [Except.ok.injEq, Bool.and_eq_true, List.any_eq_true, decide_eq_true_eq] at h
    obtain ⟨_, t, ht, hneg⟩ := h
    rintro ⟨v, hv⟩
    have := (PTerm.holds_of_vars_nil t (TL.varfree_of_vars_nil l (List.length_eq_zero_iff.mp hn) t ht) v).mp (hv t ht)
    exact absurd hneg (by simpa [Rat.not_lt] using this)
  split at h
  · rename_i hlp; exact hO.inf0 _ hlp
  all_goals cases h

theorem polyEmpty_false' (O : Oracle) (hO : O.PresolveAmbiguous) (rows : TL) (n : Nat) (hr : rows ≠ []) (hn : n ≠ 0)
    (h : polyEmpty O rows n = .ok false) : ∃ v, TL.holds rows v := by
  unfold polyEmpty at h
  split at h
  · rename_i h0; exact absurd (List.length_eq_zero_iff.mp h0) hr
  split at h
  · rename_i _ h0
    rcases Nat.mul_eq_zero.mp h0 with h1 | h1
    · exact absurd (List.length_eq_zero_iff.mp h1) hr
    · exact absurd h1 hn
  split at h
  · cases h
  · rename_i m x hlp; exact ⟨_, (hO.opt _ _ _ _ hlp).1⟩
  · rename_i hlp; exact (hO.unb _ _ hlp).1
  · cases h

/-- `some m`: `m` is attained and is the optimum in the requested direction -/
theorem optimize_some (O : Oracle) (hO : O.PresolveAmbiguous) (l : TL) (obj : Lin) (mx : Bool) (m : Rat)
    (h : optimize O l obj mx = .ok (some m)) :
    (∃ z, TL.holds l z ∧ evalL obj z = m) ∧
    ∀ z, TL.holds l z → (if mx then evalL obj z ≤ m else m ≤ evalL obj z) := by
  unfold optimize at h
  split at h
  · rename_i hl
    have hl' : l = [] := List.length_eq_zero_iff.mp hl
    subst hl'
    split at h
    · cases h
    · rename_i hz
      injection h with h; injection h with h; subst h
      have hall : ∀ x, coeffOf x obj = 0 := by
        intro x
        by_cases hx : x ∈ varsL obj
        · simp only [varsL, List.mem_map] at hx
          obtain ⟨p, hp, rfl⟩ := hx
          have := hz
          simp only [List.any_eq_true, bne_iff_ne, ne_eq, not_exists, not_and, Decidable.not_not] at this
          exact this p hp
        · exact coeffOf_eq_zero_of_not_mem x obj hx
      have hzero : ∀ z, evalL obj z = 0 := fun z => evalL_zero_of_coeffs obj z hall
      refine ⟨⟨fun _ => 0, TL.holds_nil _, hzero _⟩, fun z _ => ?_⟩
      rw [hzero z]; split <;> exact le_refl _
  · simp only at h
    split at h
    · cases h
    · rename_i m' x hlp
      obtain ⟨hx, hxm, hmax⟩ := hO.opt _ _ _ _ hlp
      injection h with h; injection h with h
      cases mx with
      | true =>
        simp only [↓reduceIte] at h hxm hmax ⊢
        subst h
        exact ⟨⟨_, hx, hxm⟩, hmax⟩
      | false =>
        simp only [Bool.false_eq_true, ↓reduceIte] at h hxm hmax ⊢
        subst h
        rw [evalL_scaleL] at hxm
        refine ⟨⟨_, hx, by linarith⟩, fun z hz => ?_⟩
        have := hmax z hz
        rw [evalL_scaleL] at this; linarith
    · split at h <;> cases h
    · cases h

/-- `None`: the constraints are satisfiable and the objective is unbounded in the requested direction -/
theorem optimize_none (hg : Gen.emptyNoColsBySign = true) (O : Oracle) (hO : O.PresolveAmbiguous) (l : TL) (obj : Lin) (mx : Bool)
    (h : optimize O l obj mx = .ok none) :
    (∃ z, TL.holds l z) ∧ ∀ M, ∃ z, TL.holds l z ∧ (if mx then M < evalL obj z else evalL obj z < -M) := by
  unfold optimize at h
  split at h
  · rename_i hl
    have hl' : l = [] := List.length_eq_zero_iff.mp hl
    subst hl'
    split at h
    · rename_i hz
      simp only [List.any_eq_true, bne_iff_ne, ne_eq] at hz
      obtain ⟨p, _, hp⟩ := hz
      refine ⟨⟨fun _ => 0, TL.holds_nil _⟩, fun M => ?_⟩
      cases mx with
      | true =>
        refine ⟨fun y => if y = p.1 then (M + 1) / coeffOf p.1 obj else 0, TL.holds_nil _, ?_⟩
        simp only [↓reduceIte]
        rw [evalL_single]
        have : coeffOf p.1 obj * ((M + 1) / coeffOf p.1 obj) = M + 1 := by field_simp
        rw [this]; linarith
      | false =>
        refine ⟨fun y => if y = p.1 then (-M - 1) / coeffOf p.1 obj else 0, TL.holds_nil _, ?_⟩
        simp only [Bool.false_eq_true, ↓reduceIte]
        rw [evalL_single]
        have : coeffOf p.1 obj * ((-M - 1) / coeffOf p.1 obj) = -M - 1 := by field_simp
        rw [this]; linarith
    · cases h
  · rename_i hl0
    simp only at h
    have conv : ∀ (hsat : ∃ z, TL.holds l z)
        (hunb : ∀ M, ∃ z, TL.holds l z ∧ M < evalL (if mx = true then obj else scaleL (-1) obj) z),
        (∃ z, TL.holds l z) ∧ ∀ M, ∃ z, TL.holds l z ∧ (if mx then M < evalL obj z else evalL obj z < -M) := by
      intro hsat hunb
      refine ⟨hsat, fun M => ?_⟩
      obtain ⟨z, hz, hM⟩ := hunb M
      refine ⟨z, hz, ?_⟩
      cases mx with
      | true => simpa using hM
      | false =>
        simp only [Bool.false_eq_true, ↓reduceIte] at hM ⊢
        rw [evalL_scaleL] at hM; linarith
    split at h
    · rename_i hlp
      obtain ⟨hsat, hunb⟩ := hO.unb _ _ hlp
      exact conv hsat hunb
    · cases h
    · rename_i hlp
      split at h
      · rename_i he
        rcases hO.inf _ _ hlp with hinf | ⟨hsat, hunb⟩
        · -- truly infeasible, yet `is_empty` said "not empty": impossible (also for variable-free rows, since the
          -- repair of `is_polytope_empty` for matrices without columns)
          exfalso
          have hlne : l ≠ [] := fun e => hl0 (by simp [e])
          unfold isEmpty at he
          by_cases hn : l.vars.length = 0
          · rw [hn] at he
            exact hinf ⟨fun _ => 0, polyEmpty_false_nocols hg O l hlne
              (TL.varfree_of_vars_nil l (List.length_eq_zero_iff.mp hn)) he _⟩
          · exact hinf (polyEmpty_false' O hO l _ hlne hn he)
        · exact conv hsat hunb
      · cases h
      · cases h
    · cases h

end Poly

namespace Poly

/-- `ValueError`: no behaviour satisfies the constraints -/
theorem optimize_err (O : Oracle) (hO : O.PresolveAmbiguous) (l : TL) (obj : Lin) (mx : Bool)
    (h : optimize O l obj mx = .error .valueError) : ¬ ∃ z, TL.holds l z := by
  unfold optimize at h
  split at h
  · split at h <;> cases h
  · simp only at h
    split at h
    · cases h
    · cases h
    · split at h
      · cases h
      · rename_i he; exact isEmpty_sound O hO l true he rfl
      · rename_i e he
        injection h with h; subst h
        -- `is_empty` itself never raises ValueError in the model (only `oracleStuck`)
        unfold isEmpty polyEmpty at he
        split at he; · cases he
        split at he; · cases he
        split at he <;> cases he
    · cases h

theorem bounds_enclose (O : Oracle) (hO : O.PresolveAmbiguous) (l : TL) (x : Var) (lo hi : Option Rat)
    (h : variableBounds O l x = .ok (lo, hi)) :
    ∀ v, TL.holds l v → (∀ a, lo = some a → a ≤ v x) ∧ (∀ b, hi = some b → v x ≤ b) := by
  intro v hv
  unfold variableBounds at h
  split at h; · cases h
  rename_i hi' hhi
  split at h; · cases h
  rename_i lo' hlo
  injection h with h; injection h with h1 h2; subst h1; subst h2
  have hx : evalL [(x, (1 : Rat))] v = v x := by simp [evalL]
  constructor
  · intro a ha; subst ha
    have := (optimize_some O hO l _ false a hlo).2 v hv
    simp only [Bool.false_eq_true, ↓reduceIte] at this
    rw [hx] at this; exact this
  · intro b hb; subst hb
    have := (optimize_some O hO l _ true b hhi).2 v hv
    simp only [↓reduceIte] at this
    rw [hx] at this; exact this

end Poly
