import Pacti.Model.LP
import Pacti.Proofs.Sem
/-! Soundness of the certificate checkers: `checkedOracle solver` is `Certified` for EVERY `solver`. -/

theorem linComb_le (ys : List Rat) (cs : TL) (v : Val) (hy : ∀ y ∈ ys, 0 ≤ y) (hc : TL.holds cs v) :
    evalL (linComb ys cs).1 v ≤ (linComb ys cs).2 := by
  induction ys generalizing cs with
  | nil => simp [linComb, evalL]
  | cons y ys ih =>
    cases cs with
    | nil => simp [linComb, evalL]
    | cons t ts =>
      simp only [linComb]
      rw [evalL_append, evalL_scaleL]
      have h1 := ih ts (fun y' hy' => hy y' (by simp [hy'])) (fun t' ht' => hc t' (by simp [ht']))
      have h2 : evalL t.coeffs v ≤ t.const := hc t (by simp)
      have h3 : 0 ≤ y := hy y (by simp)
      nlinarith [mul_le_mul_of_nonneg_left h2 h3]

theorem checkComb_sound (ys : List Rat) (cs : TL) (goal : PTerm) (h : checkComb ys cs goal = true) :
    ∀ v, TL.holds cs v → goal.holds v := by
  intro v hv
  simp only [checkComb, Bool.and_eq_true, beq_iff_eq, List.all_eq_true, decide_eq_true_eq] at h
  obtain ⟨⟨⟨_, hy⟩, hc⟩, hb⟩ := h
  have h1 := linComb_le ys cs v hy hv
  have h2 : evalL goal.coeffs v = evalL (linComb ys cs).1 v := by
    rw [← evalL_normC goal.coeffs, ← hc, evalL_normC]
  unfold PTerm.holds
  linarith

theorem feasibleAt_sound (cs : TL) (x : List (Var × Rat)) (h : feasibleAt cs x = true) :
    TL.holds cs (valOf x) := by
  intro t ht
  simp only [feasibleAt, List.all_eq_true, decide_eq_true_eq] at h
  exact h t ht

theorem checkedOracle_certified (solver : Lin → TL → LPAns) : (checkedOracle solver).Certified := by
  constructor
  · intro obj cs m x h
    simp only [checkedOracle, checkAns] at h
    split at h
    · rename_i m' x' y _
      split at h
      · rename_i hc
        injection h with hm hx; subst hm; subst hx
        simp only [Bool.and_eq_true, decide_eq_true_eq] at hc
        obtain ⟨⟨hf, he⟩, hcomb⟩ := hc
        refine ⟨feasibleAt_sound _ _ hf, he, fun z hz => ?_⟩
        exact checkComb_sound _ _ _ hcomb z hz
      · cases h
    · split at h <;> cases h
    · split at h <;> cases h
    · cases h
  · intro obj cs h
    simp only [checkedOracle, checkAns] at h
    split at h
    · split at h <;> cases h
    · rename_i y _
      split at h
      · rename_i hc
        rintro ⟨z, hz⟩
        have := checkComb_sound _ _ _ hc z hz
        simp [PTerm.holds, evalL] at this
        linarith
      · cases h
    · split at h <;> cases h
    · cases h
  · intro obj cs h
    simp only [checkedOracle, checkAns] at h
    split at h
    · split at h <;> cases h
    · split at h <;> cases h
    · rename_i x d _
      split at h
      · rename_i hc
        simp only [Bool.and_eq_true, decide_eq_true_eq, List.all_eq_true] at hc
        obtain ⟨⟨hf, hd⟩, hpos⟩ := hc
        have hx := feasibleAt_sound _ _ hf
        refine ⟨⟨_, hx⟩, fun M => ?_⟩
        -- z = x + t·d with t large
        let t : Rat := max 0 ((M - evalL obj (valOf x)) / evalL obj (valOf d) + 1)
        have ht0 : 0 ≤ t := le_max_left _ _
        refine ⟨fun k => valOf x k + t * valOf d k, ?_, ?_⟩
        · intro c hcmem
          unfold PTerm.holds
          rw [evalL_lin]
          have h1 := hx c hcmem
          have h2 := hd c hcmem
          unfold PTerm.holds at h1
          nlinarith [mul_nonneg ht0 (by linarith : (0:Rat) ≤ - evalL c.coeffs (valOf d))]
        · rw [evalL_lin]
          have ht : (M - evalL obj (valOf x)) / evalL obj (valOf d) + 1 ≤ t := le_max_right _ _
          have : (M - evalL obj (valOf x)) / evalL obj (valOf d) * evalL obj (valOf d) = M - evalL obj (valOf x) := by
            field_simp
          nlinarith
      · cases h
    · cases h
