import Pacti.Gen.Lists
import Mathlib.Tactic.Linarith
/-! Membership characterisations of the *generated* list operations (re-proved whenever lists.py changes). -/

namespace Gen
variable {α : Type} [DecidableEq α]

@[simp] theorem mem_list_intersection (a b : List α) (x : α) : x ∈ list_intersection a b ↔ x ∈ a ∧ x ∈ b := by
  simp [list_intersection]

@[simp] theorem mem_list_diff (a b : List α) (x : α) : x ∈ list_diff a b ↔ x ∈ a ∧ x ∉ b := by
  simp [list_diff]

@[simp] theorem mem_list_union (a b : List α) (x : α) : x ∈ list_union a b ↔ x ∈ a ∨ x ∈ b := by
  simp only [list_union, List.mem_append, List.mem_filter, Bool.not_eq_eq_eq_not, Bool.not_true, decide_eq_false_iff_not]
  constructor
  · rintro (h | ⟨h, _⟩)
    · exact Or.inl h
    · exact Or.inr h
  · rintro (h | h)
    · exact Or.inl h
    · by_cases hx : x ∈ a
      · exact Or.inl hx
      · exact Or.inr ⟨h, hx⟩

theorem lists_equal_iff (a b : List α) : lists_equal a b = true ↔ (∀ x, x ∈ a ↔ x ∈ b) := by
  simp only [lists_equal, Bool.and_eq_true, decide_eq_true_eq, List.length_eq_zero_iff]
  constructor
  · rintro ⟨h1, h2⟩ x
    constructor
    · intro hx
      by_contra hn
      have : x ∈ list_diff a b := (mem_list_diff a b x).mpr ⟨hx, hn⟩
      rw [h1] at this; cases this
    · intro hx
      by_contra hn
      have : x ∈ list_diff b a := (mem_list_diff b a x).mpr ⟨hx, hn⟩
      rw [h2] at this; cases this
  · intro h
    constructor
    · apply List.eq_nil_iff_forall_not_mem.mpr
      intro x hx
      have := (mem_list_diff a b x).mp hx
      exact this.2 ((h x).mp this.1)
    · apply List.eq_nil_iff_forall_not_mem.mpr
      intro x hx
      have := (mem_list_diff b a x).mp hx
      exact this.2 ((h x).mpr this.1)

theorem list_diff_nodup (a b : List α) (h : a.Nodup) : (list_diff a b).Nodup := by
  unfold list_diff; exact h.filter _

theorem list_intersection_nodup (a b : List α) (h : a.Nodup) : (list_intersection a b).Nodup := by
  unfold list_intersection; exact h.filter _

theorem list_union_nodup (a b : List α) (ha : a.Nodup) (hb : b.Nodup) : (list_union a b).Nodup := by
  unfold list_union
  rw [List.nodup_append]
  refine ⟨ha, hb.filter _, ?_⟩
  intro x hx y hy hxy
  subst hxy
  simp only [List.mem_filter, Bool.not_eq_eq_eq_not, Bool.not_true, decide_eq_false_iff_not] at hy
  exact hy.2 hx

theorem list_diff_isEmpty_iff (a b : List α) : (list_diff a b).isEmpty = true ↔ ∀ x ∈ a, x ∈ b := by
  rw [List.isEmpty_iff, List.eq_nil_iff_forall_not_mem]
  constructor
  · intro h x hx
    by_contra hn
    exact h x ((mem_list_diff a b x).mpr ⟨hx, hn⟩)
  · intro h x hx
    have := (mem_list_diff a b x).mp hx
    exact this.2 (h x this.1)

theorem list_intersection_isEmpty_iff (a b : List α) : (list_intersection a b).isEmpty = true ↔ ∀ x ∈ a, x ∉ b := by
  rw [List.isEmpty_iff, List.eq_nil_iff_forall_not_mem]
  constructor
  · intro h x hx hb
    exact h x ((mem_list_intersection a b x).mpr ⟨hx, hb⟩)
  · intro h x hx
    have := (mem_list_intersection a b x).mp hx
    exact h x this.1 this.2

end Gen
