import Pacti.Model.Elim
import Pacti.Proofs.Reduce
import Pacti.Props.C07
/-! Soundness of the elimination loop for arbitrary sound tactics, and of individual tactics (C04). -/

namespace Elim

/-- what the property asks of one tactic: whatever it returns is implied-by / implies the term in the context -/
def TacSound (tac : Nat → PTerm → TL → List Var → Bool → TacticRes) (k : Nat) : Prop :=
  ∀ t H xs refine r, tac k t H xs refine = .ok (some r) →
    ∀ v, TL.holds H v → (if refine then (r.holds v → t.holds v) else (t.holds v → r.holds v))

theorem transformTerm_sound (tac : Nat → PTerm → TL → List Var → Bool → TacticRes) (t : PTerm) (H : TL) (xs : List Var) (refine : Bool) :
    ∀ (ord : List Nat) (nt : PTerm) (k : Int), (∀ j ∈ ord, TacSound tac j) →
      transformTerm tac t H xs refine ord = .ok (nt, k) →
      ∀ v, TL.holds H v → (if refine then (nt.holds v → t.holds v) else (t.holds v → nt.holds v)) := by
  intro ord
  induction ord with
  | nil =>
    intro nt k _ h v _
    simp only [transformTerm] at h
    injection h with h; injection h with h1 _; subst h1
    split <;> exact id
  | cons j js ih =>
    intro nt k hs h v hv
    simp only [transformTerm] at h
    split at h
    · rename_i r hr
      injection h with h; injection h with h1 _; subst h1
      exact hs j (by simp) t H xs refine r hr v hv
    · exact ih nt k (fun i hi => hs i (by simp [hi])) h v hv
    · exact ih nt k (fun i hi => hs i (by simp [hi])) h v hv
    · cases h

theorem holds_erase (l : TL) (t : PTerm) (v : Val) (h : TL.holds l v) : TL.holds (l.erase t) v :=
  fun a ha => h a (List.mem_of_mem_erase ha)

theorem holds_union (a b : TL) (v : Val) : TL.holds (Gen.list_union a b) v ↔ TL.holds a v ∧ TL.holds b v := by
  unfold TL.holds
  constructor
  · intro h; exact ⟨fun t ht => h t (by simp [ht]), fun t ht => h t (by simp [ht])⟩
  · rintro ⟨h1, h2⟩ t ht
    rcases (Gen.mem_list_union a b t).mp ht with h | h
    · exact h1 t h
    · exact h2 t h

/-- relaxing: everything produced so far and the final list are implied by context + original list -/
theorem transformLoop_relax (tac : Nat → PTerm → TL → List Var → Bool → TacticRes) (ctx : TL) (xs : List Var) (ord : List Nat)
    (hs : ∀ j ∈ ord, TacSound tac j) :
    ∀ (todo done out : TL) (used : List Int), transformLoop tac ctx xs false ord done todo = .ok (out, used) →
      ∀ v, TL.holds ctx v → TL.holds done v → TL.holds todo v → TL.holds out v := by
  intro todo
  induction todo with
  | nil => intro done out used h v _ hd _; simp only [transformLoop] at h; injection h with h; injection h with h1 _; subst h1; exact hd
  | cons t rest ih =>
    intro done out used h v hc hd ht
    have htv : t.holds v := ht t (by simp)
    have hrest : TL.holds rest v := fun a ha => ht a (by simp [ha])
    simp only [transformLoop] at h
    split at h
    · split at h
      · split at h
        · rename_i r used' hrec
          injection h with h; injection h with h1 _; subst h1
          exact ih _ _ _ hrec v hc ((TL.holds_append _ _ _).mpr ⟨hd, (TL.holds_cons _ _ _).mpr ⟨htv, TL.holds_nil v⟩⟩) hrest
        · cases h
      · cases h
      · rename_i nt k htt
        split at h
        · rename_i r used' hrec
          injection h with h; injection h with h1 _; subst h1
          have hH : TL.holds (Gen.list_union ctx ((done ++ t :: rest).erase t)) v :=
            (holds_union _ _ v).mpr ⟨hc, holds_erase _ _ v ((TL.holds_append _ _ _).mpr ⟨hd, ht⟩)⟩
          have := transformTerm_sound tac t _ xs false ord nt k hs htt v hH
          simp only [Bool.false_eq_true, ↓reduceIte] at this
          exact ih _ _ _ hrec v hc ((TL.holds_append _ _ _).mpr ⟨hd, (TL.holds_cons _ _ _).mpr ⟨this htv, TL.holds_nil v⟩⟩) hrest
        · cases h
    · exact ih _ _ _ h v hc ((TL.holds_append _ _ _).mpr ⟨hd, (TL.holds_cons _ _ _).mpr ⟨htv, TL.holds_nil v⟩⟩) hrest

/-- refining: the final list together with the context implies everything still to do (and what was done) -/
theorem transformLoop_refine (tac : Nat → PTerm → TL → List Var → Bool → TacticRes) (ctx : TL) (xs : List Var) (ord : List Nat)
    (hs : ∀ j ∈ ord, TacSound tac j) :
    ∀ (todo done out : TL) (used : List Int), transformLoop tac ctx xs true ord done todo = .ok (out, used) →
      ∀ v, TL.holds ctx v → TL.holds out v → TL.holds (done ++ todo) v := by
  intro todo
  induction todo with
  | nil => intro done out used h v _ ho; simp only [transformLoop] at h; injection h with h; injection h with h1 _; subst h1; simpa using ho
  | cons t rest ih =>
    intro done out used h v hc ho
    simp only [transformLoop] at h
    split at h
    · split at h
      · split at h
        · rename_i r used' hrec
          injection h with h; injection h with h1 _; subst h1
          have := ih _ _ _ hrec v hc ho
          simpa [List.append_assoc] using this
        · cases h
      · cases h
      · rename_i nt k htt
        split at h
        · rename_i r used' hrec
          injection h with h; injection h with h1 _; subst h1
          have hall := ih _ _ _ hrec v hc ho
          simp only [List.append_assoc, List.cons_append, List.nil_append, TL.holds_append, TL.holds_cons] at hall
          obtain ⟨hd, hnt, hrest⟩ := hall
          simp only [TL.holds_append, TL.holds_cons]
          refine ⟨hd, ?_, hrest⟩
          by_cases hdup : t ∈ done ++ rest
          · rcases List.mem_append.mp hdup with h1 | h1
            · exact hd t h1
            · exact hrest t h1
          · have hnd : t ∉ done := fun h1 => hdup (List.mem_append.mpr (Or.inl h1))
            have herase : (done ++ t :: rest).erase t = done ++ rest := by
              rw [List.erase_append_right _ hnd, List.erase_cons_head]
            have hH : TL.holds (Gen.list_union ctx ((done ++ t :: rest).erase t)) v := by
              rw [herase]; exact (holds_union _ _ v).mpr ⟨hc, (TL.holds_append _ _ _).mpr ⟨hd, hrest⟩⟩
            have := transformTerm_sound tac t _ xs true ord nt k hs htt v hH
            simp only [↓reduceIte] at this
            exact this hnt
        · cases h
    · have := ih _ _ _ h v hc ho
      simpa [List.append_assoc] using this

theorem transform_refine_sound (O : Oracle) (hO : O.Certified) (tie : PTerm → Bool) (tac : Nat → PTerm → TL → List Var → Bool → TacticRes)
    (l ctx : TL) (xs : List Var) (simp : Bool) (ord : List Nat) (hs : ∀ j ∈ ord, TacSound tac j) (r : TL) (used : List Int)
    (h : transform O tie tac l ctx xs true simp ord = .ok (r, used)) :
    ∀ v, TL.holds ctx v → TL.holds r v → TL.holds l v := by
  intro v hc hr
  unfold transform at h
  split at h; · cases h
  rename_i that used' hloop
  have key : TL.holds that v → TL.holds l v := fun ht => by
    simpa using transformLoop_refine tac ctx xs ord hs l [] that used' hloop v hc ht
  split at h
  · split at h
    · rename_i r' hsimp
      injection h with h; injection h with h1 _; subst h1
      exact key ((Pacti.C07.simplify_equiv O hO tie that (some ctx) _ hsimp v hc).mp hr)
    · cases h
  · injection h with h; injection h with h1 _; subst h1; exact key hr

theorem transform_relax_sound (O : Oracle) (hO : O.Certified) (tie : PTerm → Bool) (tac : Nat → PTerm → TL → List Var → Bool → TacticRes)
    (l ctx : TL) (xs : List Var) (simp : Bool) (ord : List Nat) (hs : ∀ j ∈ ord, TacSound tac j) (r : TL) (used : List Int)
    (h : transform O tie tac l ctx xs false simp ord = .ok (r, used)) :
    ∀ v, TL.holds ctx v → TL.holds l v → TL.holds r v := by
  intro v hc hl
  unfold transform at h
  split at h; · cases h
  rename_i that used' hloop
  have key : TL.holds that v := transformLoop_relax tac ctx xs ord hs l [] that used' hloop v hc (TL.holds_nil v) hl
  split at h
  · split at h
    · rename_i r' hsimp
      injection h with h; injection h with h1 _; subst h1
      exact (Pacti.C07.simplify_equiv O hO tie that (some ctx) _ hsimp v hc).mpr key
    · cases h
  · injection h with h; injection h with h1 _; subst h1; exact key

theorem elimRefine_sound (O : Oracle) (hO : O.Certified) (tie : PTerm → Bool) (tac : Nat → PTerm → TL → List Var → Bool → TacticRes)
    (l ctx : TL) (xs : List Var) (simp : Bool) (ord : List Nat) (hs : ∀ j ∈ ord, TacSound tac j) (r : TL) (used : List Int)
    (h : elimRefine O tie tac l ctx xs simp ord = .ok (r, used)) :
    ∀ v, TL.holds ctx v → TL.holds r v → TL.holds l v := by
  intro v hc hr
  unfold elimRefine at h
  split at h; · cases h
  rename_i l' hpre
  have h2 := transform_refine_sound O hO tie tac l' ctx xs simp ord hs r used h v hc hr
  split at hpre
  · exact (Pacti.C07.simplify_equiv O hO tie l (some ctx) _ hpre v hc).mp h2
  · injection hpre with e; subst e; exact h2

theorem elimRelax_sound (O : Oracle) (hO : O.Certified) (tie : PTerm → Bool) (tac : Nat → PTerm → TL → List Var → Bool → TacticRes)
    (l ctx : TL) (xs : List Var) (simp : Bool) (ord : List Nat) (hs : ∀ j ∈ ord, TacSound tac j) (r : TL) (used : List Int)
    (h : elimRelax O tie tac l ctx xs simp ord = .ok (r, used)) :
    ∀ v, TL.holds ctx v → TL.holds l v → TL.holds r v := by
  intro v hc hl
  unfold elimRelax at h
  split at h; · cases h
  rename_i l' hpre
  have hl' : TL.holds l' v := by
    split at hpre
    · exact (Pacti.C07.simplify_equiv O hO tie l (some ctx) _ hpre v hc).mpr hl
    · injection hpre with e; subst e; exact hl
  split at h; · cases h
  rename_i r' used' htr
  injection h with h; injection h with h1 _; subst h1
  have := transform_relax_sound O hO tie tac l' ctx xs simp ord hs r' used' htr v hc hl'
  intro t ht
  exact this t ((Gen.mem_list_diff _ _ t).mp ht).1

theorem elimRelax_no_elim_vars (O : Oracle) (tie : PTerm → Bool) (tac : Nat → PTerm → TL → List Var → Bool → TacticRes)
    (l ctx : TL) (xs : List Var) (simp : Bool) (ord : List Nat) (r : TL) (used : List Int)
    (h : elimRelax O tie tac l ctx xs simp ord = .ok (r, used)) : ∀ t ∈ r, ∀ x ∈ t.vars, x ∉ xs := by
  unfold elimRelax at h
  split at h; · cases h
  split at h; · cases h
  rename_i r' used' _
  injection h with h; injection h with h1 _; subst h1
  intro t ht x hx hxs
  obtain ⟨h1, h2⟩ := (Gen.mem_list_diff _ _ t).mp ht
  apply h2
  unfold TL.withVars
  rw [List.mem_filter]
  refine ⟨h1, ?_⟩
  simp only [Bool.not_eq_eq_eq_not, Bool.not_true]
  cases hh : (Gen.list_intersection t.vars xs).isEmpty with
  | false => rfl
  | true => exact absurd hxs ((Gen.list_intersection_isEmpty_iff _ _).mp hh x hx)

/-! ### tactic 2 -/

theorem evalL_filter_split (l : Lin) (p : Var × Rat → Bool) (v : Val) :
    evalL l v = evalL (l.filter p) v + evalL (l.filter (fun a => !p a)) v := by
  induction l with
  | nil => simp [evalL]
  | cons a l ih =>
    by_cases h : p a = true
    · simp only [List.filter_cons, h, ↓reduceIte, Bool.not_true, Bool.false_eq_true, evalL]; rw [ih]; ring
    · simp only [Bool.not_eq_true] at h
      simp only [List.filter_cons, h, Bool.false_eq_true, ↓reduceIte, Bool.not_false, evalL]; rw [ih]; ring

theorem filter_congr_mem (l : Lin) (p q : Var × Rat → Bool) (h : ∀ a ∈ l, p a = q a) : l.filter p = l.filter q := by
  induction l with
  | nil => rfl
  | cons a l ih =>
    simp only [List.filter_cons, h a (by simp)]
    rw [ih (fun b hb => h b (by simp [hb]))]

theorem tactic2_sound (O : Oracle) (hO : O.Certified) : TacSound (fun _ t H xs refine => tactic2 O t H xs refine) 2 := by
  intro t H xs refine r h v hH
  unfold tactic2 at h
  simp only at h
  split at h; · cases h
  split at h; · cases h
  rename_i hne hcov
  -- the filtered context holds at v
  have hn : TL.holds (H.filter fun ct => (Gen.list_diff ct.vars xs).isEmpty && (ct != t)) v :=
    fun a ha => hH a (List.mem_filter.mp ha).1
  -- on the term's coefficients, "in the filtered context's variables" is the same as "in xs"
  have hcov' := (Gen.list_diff_isEmpty_iff _ _).mp (by simpa using hcov)
  have hsame : t.coeffs.filter (fun p => decide (p.1 ∈ TL.vars (H.filter fun ct => (Gen.list_diff ct.vars xs).isEmpty && (ct != t))))
             = t.coeffs.filter (fun p => decide (p.1 ∈ xs)) := by
    apply filter_congr_mem
    intro a ha
    have hav : a.1 ∈ t.vars := by simp only [PTerm.vars, varsL, List.mem_map]; exact ⟨a, ha, rfl⟩
    by_cases hx : a.1 ∈ xs
    · have : a.1 ∈ TL.vars (H.filter fun ct => (Gen.list_diff ct.vars xs).isEmpty && (ct != t)) :=
        hcov' a.1 ((Gen.mem_list_intersection _ _ _).mpr ⟨hx, hav⟩)
      simp [hx, this]
    · have : a.1 ∉ TL.vars (H.filter fun ct => (Gen.list_diff ct.vars xs).isEmpty && (ct != t)) := by
        intro hmem
        obtain ⟨ct, hct, hv⟩ := (mem_TLvars _ _).mp hmem
        have hf := (List.mem_filter.mp hct).2
        simp only [Bool.and_eq_true] at hf
        exact hx ((Gen.list_diff_isEmpty_iff _ _).mp hf.1 a.1 hv)
      simp [hx, this]
  have hsplit := evalL_filter_split t.coeffs (fun p => decide (p.1 ∈ xs)) v
  rw [hsame] at h
  cases refine with
  | true =>
    simp only [↓reduceIte] at h ⊢
    split at h
    · rename_i m x hlp
      obtain ⟨_, _, hmax⟩ := hO.opt _ _ _ _ hlp
      have hbound := hmax v hn
      split at h
      · injection h with h; injection h with h; subst h; exact id
      · injection h with h; injection h with h; subst h
        unfold PTerm.holds; simp only
        intro hr; linarith
    · cases h
    · cases h
    · cases h
  | false =>
    simp only [Bool.false_eq_true, ↓reduceIte] at h ⊢
    split at h
    · rename_i m x hlp
      obtain ⟨_, _, hmax⟩ := hO.opt _ _ _ _ hlp
      have hbound := hmax v hn
      rw [evalL_scaleL] at hbound
      split at h
      · injection h with h; injection h with h; subst h; exact id
      · injection h with h; injection h with h; subst h
        unfold PTerm.holds; simp only
        intro ht; linarith
    · cases h
    · cases h
    · cases h

end Elim

namespace Elim

/-- tactic 5 keeps a result only if the code's own refinement test confirms it in the context -/
theorem tactic5_sound (O : Oracle) (hO : O.Certified) (t : PTerm) (H : TL) (xs : List Var) (refine : Bool) (active : Option (List Nat))
    (r : PTerm) (h : tactic5 O false t H xs refine active = .ok (some r)) :
    ∀ v, TL.holds H v → (if refine then (r.holds v → t.holds v) else (t.holds v → r.holds v)) := by
  intro v hH
  unfold tactic5 at h
  split at h; · cases h
  split at h
  · rename_i r' _
    split at h
    · rename_i hg
      injection h with h; injection h with h; subst h
      unfold guard5 at hg
      cases refine with
      | true =>
        simp only [↓reduceIte] at hg ⊢
        intro hr
        have := Poly.refinesTL_yes O hO _ _ hg v ((holds_union _ _ v).mpr ⟨hH, (TL.holds_cons _ _ _).mpr ⟨hr, TL.holds_nil v⟩⟩)
        exact this t (by simp)
      | false =>
        simp only [Bool.false_eq_true, ↓reduceIte] at hg ⊢
        intro ht
        have := Poly.refinesTL_yes O hO _ _ hg v ((holds_union _ _ v).mpr ⟨hH, (TL.holds_cons _ _ _).mpr ⟨ht, TL.holds_nil v⟩⟩)
        exact this r' (by simp)
    · simp at h
    · cases h
    · cases h
    · cases h
  · rename_i other hne
    exact absurd h (hne r)

end Elim

namespace Elim

theorem transformLoop_nil (tac : Nat → PTerm → TL → List Var → Bool → TacticRes) (ctx : TL) (refine : Bool) (ord : List Nat) :
    ∀ (todo done : TL), transformLoop tac ctx [] refine ord done todo = .ok (done ++ todo, []) := by
  intro todo
  induction todo with
  | nil => intro done; simp [transformLoop]
  | cons t rest ih =>
    intro done
    have : (Gen.list_intersection t.vars ([] : List Var)).isEmpty = true :=
      (Gen.list_intersection_isEmpty_iff _ _).mpr (fun x _ hx => by cases hx)
    simp only [transformLoop, this, Bool.not_true, Bool.false_eq_true, ↓reduceIte]
    rw [ih]; simp

/-- with nothing to eliminate, relaxation is (two) simplification(s): an equivalence wherever the context holds -/
theorem elimRelax_nil_equiv (O : Oracle) (hO : O.Certified) (tie : PTerm → Bool) (tac : Nat → PTerm → TL → List Var → Bool → TacticRes)
    (l ctx : TL) (simp : Bool) (ord : List Nat) (r : TL) (used : List Int)
    (h : elimRelax O tie tac l ctx [] simp ord = .ok (r, used)) :
    ∀ v, TL.holds ctx v → (TL.holds r v ↔ TL.holds l v) := by
  intro v hc
  unfold elimRelax at h
  split at h; · cases h
  rename_i l' hpre
  have hl' : TL.holds l' v ↔ TL.holds l v := by
    split at hpre
    · exact Pacti.C07.simplify_equiv O hO tie l (some ctx) _ hpre v hc
    · injection hpre with e; subst e; rfl
  split at h; · cases h
  rename_i r' used' htr
  injection h with h; injection h with h1 _; subst h1
  have hw : TL.withVars r' [] = [] := by
    apply List.eq_nil_iff_forall_not_mem.mpr
    intro t ht
    unfold TL.withVars at ht
    have := (List.mem_filter.mp ht).2
    have hemp : (Gen.list_intersection t.vars ([] : List Var)).isEmpty = true :=
      (Gen.list_intersection_isEmpty_iff _ _).mpr (fun x _ hx => by cases hx)
    simp [hemp] at this
  have hd : Gen.list_diff r' (TL.withVars r' []) = r' := by rw [hw]; unfold Gen.list_diff; simp
  rw [hd, ← hl']
  unfold transform at htr
  rw [transformLoop_nil] at htr
  simp only [List.nil_append] at htr
  split at htr
  · split at htr
    · rename_i r'' hs
      injection htr with e; injection e with e1 _; subst e1
      exact Pacti.C07.simplify_equiv O hO tie l' (some ctx) _ hs v hc
    · cases htr
  · injection htr with e; injection e with e1 _; subst e1; rfl

end Elim
