import Pacti.Model.Syntax
import Pacti.Proofs.Sem
import Mathlib.Tactic.Linarith
import Mathlib.Tactic.Ring
import Mathlib.Algebra.Order.Field.Rat
import Mathlib.Algebra.Order.AbsoluteValue.Basic
/-! Lemmas for C09: the parse actions and the serializer are homomorphisms from trees to their values. -/
namespace Syntax

/-! ### numbers -/

theorem rabs_eq_abs (q : Rat) : rabs q = |q| := by
  unfold rabs
  split
  · rename_i h; rw [abs_of_neg h]
  · rename_i h; rw [abs_of_nonneg (not_lt.mp h)]

theorem Arith.eval_val (a : Arith) : ∀ q, a.eval = .ok q → a.val = q := by
  induction a with
  | num q => intro q' h; simp only [Arith.eval, Except.ok.injEq] at h; simp [Arith.val, h]
  | add a b iha ihb =>
    intro q h
    simp only [Arith.eval] at h
    cases ha : a.eval with
    | error e => simp [ha] at h
    | ok x => cases hb : b.eval with
      | error e => simp [ha, hb] at h
      | ok y => simp only [ha, hb, Except.ok.injEq] at h; simp [Arith.val, iha x ha, ihb y hb, h]
  | sub a b iha ihb =>
    intro q h
    simp only [Arith.eval] at h
    cases ha : a.eval with
    | error e => simp [ha] at h
    | ok x => cases hb : b.eval with
      | error e => simp [ha, hb] at h
      | ok y => simp only [ha, hb, Except.ok.injEq] at h; simp [Arith.val, iha x ha, ihb y hb, h]
  | mul a b iha ihb =>
    intro q h
    simp only [Arith.eval] at h
    cases ha : a.eval with
    | error e => simp [ha] at h
    | ok x => cases hb : b.eval with
      | error e => simp [ha, hb] at h
      | ok y => simp only [ha, hb, Except.ok.injEq] at h; simp [Arith.val, iha x ha, ihb y hb, h]
  | div a b iha ihb =>
    intro q h
    simp only [Arith.eval] at h
    cases ha : a.eval with
    | error e => simp [ha] at h
    | ok x => cases hb : b.eval with
      | error e => simp [ha, hb] at h
      | ok y =>
        simp only [ha, hb] at h
        split at h
        · cases h
        · simp only [Except.ok.injEq] at h; simp [Arith.val, iha x ha, ihb y hb, h]

theorem Arith.eval_err (a : Arith) : ∀ e, a.eval = .error e → e = zeroDiv := by
  induction a with
  | num q => intro e h; simp [Arith.eval] at h
  | add a b iha ihb =>
    intro e h
    simp only [Arith.eval] at h
    cases ha : a.eval with
    | error e' => simp only [ha, Except.error.injEq] at h; exact h ▸ iha e' ha
    | ok x => cases hb : b.eval with
      | error e' => simp only [ha, hb, Except.error.injEq] at h; exact h ▸ ihb e' hb
      | ok y => simp [ha, hb] at h
  | sub a b iha ihb =>
    intro e h
    simp only [Arith.eval] at h
    cases ha : a.eval with
    | error e' => simp only [ha, Except.error.injEq] at h; exact h ▸ iha e' ha
    | ok x => cases hb : b.eval with
      | error e' => simp only [ha, hb, Except.error.injEq] at h; exact h ▸ ihb e' hb
      | ok y => simp [ha, hb] at h
  | mul a b iha ihb =>
    intro e h
    simp only [Arith.eval] at h
    cases ha : a.eval with
    | error e' => simp only [ha, Except.error.injEq] at h; exact h ▸ iha e' ha
    | ok x => cases hb : b.eval with
      | error e' => simp only [ha, hb, Except.error.injEq] at h; exact h ▸ ihb e' hb
      | ok y => simp [ha, hb] at h
  | div a b iha ihb =>
    intro e h
    simp only [Arith.eval] at h
    cases ha : a.eval with
    | error e' => simp only [ha, Except.error.injEq] at h; exact h ▸ iha e' ha
    | ok x => cases hb : b.eval with
      | error e' => simp only [ha, hb, Except.error.injEq] at h; exact h ▸ ihb e' hb
      | ok y =>
        simp only [ha, hb] at h
        split at h
        · simp only [Except.error.injEq] at h; exact h.symm
        · cases h

theorem Arith.evalW_true (a : Arith) : a.evalW true = a.eval := by
  induction a with
  | num q => rfl
  | add a b iha ihb => simp [Arith.evalW, Arith.eval, iha, ihb]
  | sub a b iha ihb => simp [Arith.evalW, Arith.eval, iha, ihb]
  | mul a b iha ihb => simp [Arith.evalW, Arith.eval, iha, ihb]
  | div a b iha ihb => simp [Arith.evalW, Arith.eval, iha, ihb]

theorem Arith.evalW_err (fold : Bool) (a : Arith) : ∀ e, a.evalW fold = .error e → e = zeroDiv := by
  induction a with
  | num q => intro e h; simp [Arith.evalW] at h
  | add a b iha ihb =>
    intro e h
    simp only [Arith.evalW] at h
    split at h
    · exact iha e h
    · cases ha : a.evalW fold with
      | error e' => simp only [ha, Except.error.injEq] at h; exact h ▸ iha e' ha
      | ok x => cases hb : b.evalW fold with
        | error e' => simp only [ha, hb, Except.error.injEq] at h; exact h ▸ ihb e' hb
        | ok y => simp [ha, hb] at h
  | sub a b iha ihb =>
    intro e h
    simp only [Arith.evalW] at h
    split at h
    · exact iha e h
    · cases ha : a.evalW fold with
      | error e' => simp only [ha, Except.error.injEq] at h; exact h ▸ iha e' ha
      | ok x => cases hb : b.evalW fold with
        | error e' => simp only [ha, hb, Except.error.injEq] at h; exact h ▸ ihb e' hb
        | ok y => simp [ha, hb] at h
  | mul a b iha ihb =>
    intro e h
    simp only [Arith.evalW] at h
    split at h
    · exact iha e h
    · cases ha : a.evalW fold with
      | error e' => simp only [ha, Except.error.injEq] at h; exact h ▸ iha e' ha
      | ok x => cases hb : b.evalW fold with
        | error e' => simp only [ha, hb, Except.error.injEq] at h; exact h ▸ ihb e' hb
        | ok y => simp [ha, hb] at h
  | div a b iha ihb =>
    intro e h
    simp only [Arith.evalW] at h
    split at h
    · exact iha e h
    · cases ha : a.evalW fold with
      | error e' => simp only [ha, Except.error.injEq] at h; exact h ▸ iha e' ha
      | ok x => cases hb : b.evalW fold with
        | error e' => simp only [ha, hb, Except.error.injEq] at h; exact h ▸ ihb e' hb
        | ok y =>
          simp only [ha, hb] at h
          split at h
          · simp only [Except.error.injEq] at h; exact h.symm
          · cases h

theorem evalOpt_val (k : Option Arith) (c : Option Rat) (h : evalOpt true k = .ok c) :
    kval k = (match c with | none => 1 | some q => q) := by
  cases k with
  | none => simp only [evalOpt, Except.ok.injEq] at h; subst h; rfl
  | some a =>
    simp only [evalOpt, Arith.evalW_true] at h
    cases ha : a.eval with
    | error e => simp [ha] at h
    | ok q => simp only [ha, Except.ok.injEq] at h; subst h; simp [kval, Arith.eval_val a q ha]

theorem evalOpt_err (fold : Bool) (k : Option Arith) (e : Err) (h : evalOpt fold k = .error e) : e = zeroDiv := by
  cases k with
  | none => simp [evalOpt] at h
  | some a =>
    simp only [evalOpt] at h
    cases ha : a.evalW fold with
    | error e' => simp only [ha, Except.error.injEq] at h; exact h ▸ Arith.evalW_err fold a e' ha
    | ok q => simp [ha] at h

/-! ### `PolyhedralSyntaxTermList` -/

namespace SynTL

theorem evalL_map_neg (l : Lin) (v : Val) : evalL (l.map fun p => (p.1, -p.2)) v = - evalL l v := by
  induction l with
  | nil => simp [evalL]
  | cons p l ih => simp only [List.map_cons, evalL, ih]; ring

theorem evalL_map_mulr (l : Lin) (k : Rat) (v : Val) : evalL (l.map fun p => (p.1, p.2 * k)) v = k * evalL l v := by
  induction l with
  | nil => simp [evalL]
  | cons p l ih => simp only [List.map_cons, evalL, ih]; ring

theorem evalL_map_mull (l : Lin) (k : Rat) (v : Val) : evalL (l.map fun p => (p.1, k * p.2)) v = k * evalL l v := by
  induction l with
  | nil => simp [evalL]
  | cons p l ih => simp only [List.map_cons, evalL, ih]; ring

theorem evalL_addFactor (fs : Lin) (x : Var) (c : Rat) (v : Val) :
    evalL (addFactor fs x c) v = evalL fs v + c * v x := by
  induction fs with
  | nil => simp [addFactor, evalL]
  | cons p r ih =>
    simp only [addFactor]
    split
    · rename_i hx
      split
      · rename_i h0
        simp only [evalL]
        have : p.2 * v p.1 + c * v x = 0 := by rw [hx, ← add_mul, h0, zero_mul]
        linarith
      · simp only [evalL]; rw [hx]; ring
    · simp only [evalL, ih]; ring

theorem evalL_foldl_addFactor (o fs : Lin) (v : Val) :
    evalL (o.foldl (fun fs p => addFactor fs p.1 p.2) fs) v = evalL fs v + evalL o v := by
  induction o generalizing fs with
  | nil => simp [evalL]
  | cons p o ih => simp only [List.foldl_cons, ih, evalL_addFactor, evalL]; ring

@[simp] theorem eval_empty (v : Val) : eval empty v = 0 := by simp [eval, empty, evalL]

theorem eval_negate (t : SynTL) (v : Val) : eval t.negate v = - eval t v := by
  simp only [eval, negate, evalL_map_neg]; ring

theorem eval_add (s o : SynTL) (v : Val) : eval (s.add o) v = eval s v + eval o v := by
  simp only [eval, add, evalL_foldl_addFactor]; ring

theorem eval_scale (t : SynTL) (k : Rat) (v : Val) : eval (t.scale k) v = k * eval t v := by
  simp only [eval, scale, evalL_map_mulr]; ring

theorem eval_scaleF (t : SynTL) (k : Rat) (v : Val) (h : t.const = 0) : eval (t.scaleF k) v = k * eval t v := by
  simp only [eval, scaleF, evalL_map_mulr, h]; ring

theorem holds_toPTerm (t : SynTL) (v : Val) : (toPTerm t).holds v ↔ eval t v ≤ 0 := by
  simp only [toPTerm, PTerm.holds, PTerm.mk', evalL_normC, eval]
  constructor <;> intro h <;> linarith

theorem evalL_insF (p : Var × Rat) (l : Lin) (v : Val) : evalL (insF p l) v = p.2 * v p.1 + evalL l v := by
  induction l with
  | nil => simp [insF, evalL]
  | cons q r ih =>
    simp only [insF]
    split
    · simp [evalL]
    · simp only [evalL, ih]; ring

theorem evalL_sorted (l : Lin) (v : Val) : evalL (l.foldr insF []) v = evalL l v := by
  induction l with
  | nil => simp [evalL]
  | cons p l ih => simp only [List.foldr_cons, evalL_insF, ih, evalL]

/-- term lists that print the same have the same value everywhere -/
theorem eval_of_key_eq (a b : SynTL) (h : a.key = b.key) (v : Val) : eval a v = eval b v := by
  simp only [key, Prod.mk.injEq] at h
  have := congrArg (fun l => evalL l v) h.2
  simp only [evalL_sorted] at this
  simp only [eval, h.1, this]

end SynTL

/-! ### terms -/

mutual
theorem Tm.tr_sound : ∀ (t : Tm) (tl : SynTL), t.tr true = .ok tl → ∀ v, tl.eval v = t.den v
  | .var x, tl, h, v => by
    simp only [Tm.tr, Except.ok.injEq] at h; subst h
    simp [SynTL.eval, evalL, Tm.den]
  | .kvar k x, tl, h, v => by
    simp only [Tm.tr, Arith.evalW_true] at h
    cases hk : k.eval with
    | error e => simp [hk] at h
    | ok q =>
      simp only [hk, Except.ok.injEq] at h; subst h
      rw [SynTL.eval_scaleF _ _ _ rfl]
      simp [SynTL.eval, evalL, Tm.den, Arith.eval_val k q hk]
  | .kparen k ts, tl, h, v => by
    simp only [Tm.tr, Arith.evalW_true] at h
    cases hk : k.eval with
    | error e => simp [hk] at h
    | ok q =>
      cases hts : ts.trAcc true SynTL.empty with
      | error e => simp [hk, hts] at h
      | ok tl' =>
        simp only [hk, hts, Except.ok.injEq] at h; subst h
        have := Tms.trAcc_sound ts SynTL.empty tl' hts v
        rw [SynTL.eval_scale, this]
        simp [Tm.den, Arith.eval_val k q hk]
  | .paren ts, tl, h, v => by
    simp only [Tm.tr, Arith.evalW_true] at h
    have := Tms.trAcc_sound ts SynTL.empty tl h v
    simp [this, Tm.den]
  | .const k, tl, h, v => by
    simp only [Tm.tr, Arith.evalW_true] at h
    cases hk : k.eval with
    | error e => simp [hk] at h
    | ok q =>
      simp only [hk, Except.ok.injEq] at h; subst h
      simp [SynTL.eval, evalL, Tm.den, Arith.eval_val k q hk]
theorem Tms.trAcc_sound : ∀ (ts : Tms) (acc tl : SynTL), ts.trAcc true acc = .ok tl → ∀ v, tl.eval v = acc.eval v + ts.den v
  | .nil, acc, tl, h, v => by
    simp only [Tms.trAcc, Except.ok.injEq] at h; subst h; simp [Tms.den]
  | .cons neg t r, acc, tl, h, v => by
    simp only [Tms.trAcc] at h
    cases ht : t.tr true with
    | error e => simp [ht] at h
    | ok tl' =>
      simp only [ht] at h
      have h1 := Tm.tr_sound t tl' ht v
      have h2 := Tms.trAcc_sound r _ tl h v
      rw [h2, SynTL.eval_add]
      cases neg <;> simp [Tms.den, sgn, SynTL.eval_negate, h1] <;> ring
end

theorem Tms.tr_sound (ts : Tms) (tl : SynTL) (h : ts.tr true = .ok tl) (v : Val) : tl.eval v = ts.den v := by
  have := Tms.trAcc_sound ts SynTL.empty tl h v
  simpa using this

mutual
theorem Tm.tr_err (fold : Bool) : ∀ (t : Tm) (e : Err), t.tr fold = .error e → e = zeroDiv
  | .var x, e, h => by simp [Tm.tr] at h
  | .kvar k x, e, h => by
    simp only [Tm.tr] at h
    cases hk : k.evalW fold with
    | error e' => simp only [hk, Except.error.injEq] at h; exact h ▸ Arith.evalW_err fold k e' hk
    | ok q => simp [hk] at h
  | .kparen k ts, e, h => by
    simp only [Tm.tr] at h
    cases hk : k.evalW fold with
    | error e' => simp only [hk, Except.error.injEq] at h; exact h ▸ Arith.evalW_err fold k e' hk
    | ok q =>
      cases hts : ts.trAcc fold SynTL.empty with
      | error e' => simp only [hk, hts, Except.error.injEq] at h; exact h ▸ Tms.trAcc_err fold ts _ e' hts
      | ok tl' => simp [hk, hts] at h
  | .paren ts, e, h => by
    simp only [Tm.tr] at h
    exact Tms.trAcc_err fold ts _ e h
  | .const k, e, h => by
    simp only [Tm.tr] at h
    cases hk : k.evalW fold with
    | error e' => simp only [hk, Except.error.injEq] at h; exact h ▸ Arith.evalW_err fold k e' hk
    | ok q => simp [hk] at h
theorem Tms.trAcc_err (fold : Bool) : ∀ (ts : Tms) (acc : SynTL) (e : Err), ts.trAcc fold acc = .error e → e = zeroDiv
  | .nil, acc, e, h => by simp [Tms.trAcc] at h
  | .cons neg t r, acc, e, h => by
    simp only [Tms.trAcc] at h
    cases ht : t.tr fold with
    | error e' => simp only [ht, Except.error.injEq] at h; exact h ▸ Tm.tr_err fold t e' ht
    | ok tl' =>
      simp only [ht] at h
      exact Tms.trAcc_err fold r _ e h
end

/-! ### absolute terms -/

def coefVal : Option Rat → Rat
  | none => 1
  | some c => c

/-- value of `[c]·|term list|` at a point -/
def AbsTerm.eval (a : AbsTerm) (v : Val) : Rat := coefVal a.coeff * |a.tl.eval v|

def absSum : List AbsTerm → Val → Rat
  | [], _ => 0
  | a :: r, v => a.eval v + absSum r v

/-- the printed forms of the entries -/
def keys (l : List AbsTerm) : List (Rat × Lin) := l.map fun a => a.tl.key

theorem absSum_append (a b : List AbsTerm) (v : Val) : absSum (a ++ b) v = absSum a v + absSum b v := by
  induction a with
  | nil => simp [absSum]
  | cons x a ih => simp only [List.cons_append, absSum, ih]; ring

theorem AbsTerm.eval_negate (a : AbsTerm) (v : Val) : a.negate.eval v = - a.eval v := by
  unfold AbsTerm.negate AbsTerm.eval
  cases a.coeff <;> simp [coefVal]

theorem AbsTerm.negate_tl (a : AbsTerm) : a.negate.tl = a.tl := by
  unfold AbsTerm.negate; cases a.coeff <;> rfl

theorem AbsTerm.same_iff (a t : AbsTerm) : a.same t = true ↔ a.tl.key = t.tl.key := by
  simp [AbsTerm.same]

theorem AbsTerm.eval_toTL (a : AbsTerm) (v : Val) : a.toTL.eval v = coefVal a.coeff * a.tl.eval v := by
  unfold AbsTerm.toTL
  cases a.coeff <;> simp only [SynTL.eval, SynTL.evalL_map_mull, coefVal] <;> ring

theorem coefVal_combine (c1 c2 : Option Rat) : coefVal (combineOptional (some 2) c1 c2) = coefVal c1 + coefVal c2 := by
  cases c1 <;> cases c2 <;> simp only [combineOptional, coefVal] <;> ring

theorem any_same_iff (l : List AbsTerm) (t : AbsTerm) : l.any (fun a => a.same t) = true ↔ t.tl.key ∈ keys l := by
  simp only [List.any_eq_true, keys, List.mem_map, AbsTerm.same_iff]

theorem keys_map_combine (nn : Option Rat) (l : List AbsTerm) (t : AbsTerm) :
    keys (l.map fun a => if a.same t then (⟨a.tl, combineOptional nn a.coeff t.coeff⟩ : AbsTerm) else a) = keys l := by
  simp only [keys, List.map_map]
  apply List.map_congr_left
  intro a _
  simp only [Function.comp]
  split <;> rfl

theorem keys_combineOrAppend (nn : Option Rat) (l : List AbsTerm) (t : AbsTerm) :
    keys (combineOrAppend nn l t) = if t.tl.key ∈ keys l then keys l else keys l ++ [t.tl.key] := by
  unfold combineOrAppend
  by_cases h : t.tl.key ∈ keys l
  · simp only [(any_same_iff l t).mpr h, ↓reduceIte, h, keys_map_combine]
  · have : l.any (fun a => a.same t) = false := Bool.eq_false_iff.mpr fun h' => h ((any_same_iff l t).mp h')
    simp only [this, h, Bool.false_eq_true, ↓reduceIte]
    have := keys_map_combine nn l t
    simp only [keys, List.map_append, List.map_cons, List.map_nil] at this ⊢
    rw [this]

theorem nodup_combineOrAppend (nn : Option Rat) (l : List AbsTerm) (t : AbsTerm) (h : (keys l).Nodup) :
    (keys (combineOrAppend nn l t)).Nodup := by
  rw [keys_combineOrAppend]
  split
  · exact h
  · rename_i hn
    rw [List.nodup_append]
    refine ⟨h, by simp, ?_⟩
    intro a ha b hb
    simp only [List.mem_singleton] at hb
    subst hb
    intro hab; subst hab; exact hn ha

theorem absSum_map_combine (l : List AbsTerm) (t : AbsTerm) (v : Val) (h : (keys l).Nodup) :
    absSum (l.map fun a => if a.same t then (⟨a.tl, combineOptional (some 2) a.coeff t.coeff⟩ : AbsTerm) else a) v
      = absSum l v + (if t.tl.key ∈ keys l then t.eval v else 0) := by
  induction l with
  | nil => simp [absSum, keys]
  | cons a r ih =>
    simp only [keys, List.map_cons, List.nodup_cons] at h
    have ih' := ih h.2
    simp only [List.map_cons, absSum]
    by_cases hs : a.same t = true
    · have hk := (AbsTerm.same_iff a t).mp hs
      have hnot : ¬ t.tl.key ∈ keys r := by rw [← hk]; exact h.1
      have hin : t.tl.key ∈ keys (a :: r) := by simp [keys, hk]
      rw [ih']
      simp only [hs, ↓reduceIte, hnot, hin]
      simp only [AbsTerm.eval, coefVal_combine, SynTL.eval_of_key_eq a.tl t.tl hk v]
      ring
    · have hk : ¬ a.tl.key = t.tl.key := fun hk => hs ((AbsTerm.same_iff a t).mpr hk)
      have hiff : (t.tl.key ∈ keys (a :: r)) ↔ t.tl.key ∈ keys r := by
        simp only [keys, List.map_cons, List.mem_cons]
        constructor
        · rintro (h' | h')
          · exact absurd h'.symm hk
          · exact h'
        · exact Or.inr
      rw [ih']
      simp only [hs, Bool.false_eq_true, ↓reduceIte]
      by_cases hr : t.tl.key ∈ keys r
      · simp only [hr, hiff.mpr hr, ↓reduceIte]; ring
      · have : ¬ t.tl.key ∈ keys (a :: r) := fun h' => hr (hiff.mp h')
        simp only [hr, this, ↓reduceIte]; ring

/-- with the repaired `(None, None)` case, combining or appending adds exactly the value of the new term -/
theorem absSum_combineOrAppend (l : List AbsTerm) (t : AbsTerm) (v : Val) (h : (keys l).Nodup) :
    absSum (combineOrAppend (some 2) l t) v = absSum l v + t.eval v := by
  unfold combineOrAppend
  by_cases hin : t.tl.key ∈ keys l
  · simp only [(any_same_iff l t).mpr hin, ↓reduceIte]
    rw [absSum_map_combine l t v h]; simp [hin]
  · have : l.any (fun a => a.same t) = false := Bool.eq_false_iff.mpr fun h' => hin ((any_same_iff l t).mp h')
    simp only [this, Bool.false_eq_true, ↓reduceIte, absSum_append]
    rw [absSum_map_combine l t v h]; simp [hin, absSum]

theorem foldl_combineOrAppend (o acc : List AbsTerm) (v : Val) (h : (keys acc).Nodup) :
    (keys (o.foldl (combineOrAppend (some 2)) acc)).Nodup ∧
      absSum (o.foldl (combineOrAppend (some 2)) acc) v = absSum acc v + absSum o v := by
  induction o generalizing acc with
  | nil => simp [absSum, h]
  | cons t o ih =>
    simp only [List.foldl_cons]
    obtain ⟨h1, h2⟩ := ih (combineOrAppend (some 2) acc t) (nodup_combineOrAppend _ acc t h)
    refine ⟨h1, ?_⟩
    rw [h2, absSum_combineOrAppend acc t v h]; simp only [absSum]; ring

/-! ### absolute-term lists -/

def ATL.eval (a : ATL) (v : Val) : Rat := a.tl.eval v + absSum a.abs v

/-- no two entries print the same (what `_combine_or_append` maintains) -/
def ATL.WF (a : ATL) : Prop := (keys a.abs).Nodup

theorem ATL.wf_empty : ATL.empty.WF := by simp [ATL.WF, ATL.empty, keys]

@[simp] theorem ATL.eval_empty (v : Val) : ATL.empty.eval v = 0 := by simp [ATL.eval, ATL.empty, absSum]

theorem ATL.add_sound (s o : ATL) (v : Val) (hs : s.WF) :
    (s.add (some 2) o).WF ∧ (s.add (some 2) o).eval v = s.eval v + o.eval v := by
  obtain ⟨h1, h2⟩ := foldl_combineOrAppend o.abs s.abs v hs
  refine ⟨h1, ?_⟩
  simp only [ATL.eval, ATL.add, SynTL.eval_add, h2]; ring

theorem keys_map_negate (l : List AbsTerm) : keys (l.map AbsTerm.negate) = keys l := by
  simp only [keys, List.map_map]
  apply List.map_congr_left
  intro a _; simp [Function.comp, AbsTerm.negate_tl]

theorem absSum_map_negate (l : List AbsTerm) (v : Val) : absSum (l.map AbsTerm.negate) v = - absSum l v := by
  induction l with
  | nil => simp [absSum]
  | cons a r ih => simp only [List.map_cons, absSum, ih, AbsTerm.eval_negate]; ring

theorem ATL.negate_sound (a : ATL) (v : Val) : (a.WF → a.negate.WF) ∧ a.negate.eval v = - a.eval v := by
  constructor
  · intro h; simpa [ATL.WF, ATL.negate, keys_map_negate] using h
  · simp only [ATL.eval, ATL.negate, SynTL.eval_negate, absSum_map_negate]; ring

theorem AbsTerm.eval_scale (a : AbsTerm) (f : Rat) (v : Val) : (a.scale f).eval v = f * a.eval v := by
  unfold AbsTerm.scale AbsTerm.eval
  cases a.coeff <;> simp only [coefVal] <;> ring

theorem absSum_map_scale (l : List AbsTerm) (f : Rat) (v : Val) :
    absSum (l.map fun t => t.scale f) v = f * absSum l v := by
  induction l with
  | nil => simp [absSum]
  | cons a r ih => simp only [List.map_cons, absSum, ih, AbsTerm.eval_scale]; ring

theorem ATL.scale_eval (a : ATL) (f : Rat) (v : Val) : (a.scale f).eval v = f * a.eval v := by
  unfold ATL.eval ATL.scale
  rw [absSum_map_scale, SynTL.eval_scale]; ring

/-! ### items, groups, sides -/

theorem evalOpt_coefVal (k : Option Arith) (c : Option Rat) (h : evalOpt true k = .ok c) : kval k = coefVal c := by
  rw [evalOpt_val k c h]; cases c <;> rfl

def Piece.eval : Piece → Val → Rat
  | .tl t, v => t.eval v
  | .abs a, v => a.eval v

theorem Item.tr_sound (i : Item) (p : Piece) (h : i.tr true = .ok p) (v : Val) : p.eval v = i.den v := by
  cases i with
  | abs neg k body =>
    simp only [Item.tr] at h
    cases hk : evalOpt true k with
    | error e => simp [hk] at h
    | ok c =>
      cases hb : body.tr true with
      | error e => simp [hk, hb] at h
      | ok tl =>
        simp only [hk, hb, Except.ok.injEq] at h; subst h
        have h1 := Tms.tr_sound body tl hb v
        have h2 := evalOpt_coefVal k c hk
        cases neg
        · simp [Piece.eval, Item.den, sgn, AbsTerm.eval, h1, h2, rabs_eq_abs]
        · simp only [Piece.eval, ↓reduceIte, AbsTerm.eval_negate]
          simp [Item.den, sgn, AbsTerm.eval, h1, h2, rabs_eq_abs]
  | tm neg t =>
    simp only [Item.tr] at h
    cases ht : t.tr true with
    | error e => simp [ht] at h
    | ok tl =>
      simp only [ht, Except.ok.injEq] at h; subst h
      have h1 := Tm.tr_sound t tl ht v
      cases neg <;> simp [Piece.eval, Item.den, sgn, SynTL.eval_negate, h1]

theorem Item.tr_err (fold : Bool) (i : Item) (e : Err) (h : i.tr fold = .error e) : e = zeroDiv := by
  cases i with
  | abs neg k body =>
    simp only [Item.tr] at h
    cases hk : evalOpt fold k with
    | error e' => simp only [hk, Except.error.injEq] at h; exact h ▸ evalOpt_err fold k e' hk
    | ok c =>
      cases hb : body.tr fold with
      | error e' => simp only [hk, hb, Except.error.injEq] at h; exact h ▸ Tms.trAcc_err fold body _ e' hb
      | ok tl => simp [hk, hb] at h
  | tm neg t =>
    simp only [Item.tr] at h
    cases ht : t.tr fold with
    | error e' => simp only [ht, Except.error.injEq] at h; exact h ▸ Tm.tr_err fold t e' ht
    | ok tl => simp [ht] at h

theorem groupBody_sound (items : List Item) (acc g : ATL) (h : groupBody (some 2) true items acc = .ok g) (hacc : acc.WF)
    (v : Val) : g.WF ∧ g.eval v = acc.eval v + itemsDen items v := by
  induction items generalizing acc with
  | nil => simp only [groupBody, Except.ok.injEq] at h; subst h; simp [itemsDen, hacc]
  | cons i r ih =>
    simp only [groupBody] at h
    cases hi : i.tr true with
    | error e => simp [hi] at h
    | ok p =>
      have hp := Item.tr_sound i p hi v
      cases p with
      | tl t =>
        simp only [hi] at h
        obtain ⟨h1, h2⟩ := ih _ h (by simpa [ATL.WF] using hacc)
        refine ⟨h1, ?_⟩
        rw [h2]; simp only [ATL.eval, SynTL.eval_add, itemsDen, ← hp, Piece.eval]; ring
      | abs a =>
        simp only [hi] at h
        obtain ⟨h1, h2⟩ := ih _ h (by simpa [ATL.WF] using nodup_combineOrAppend _ acc.abs a hacc)
        refine ⟨h1, ?_⟩
        rw [h2]
        simp only [ATL.eval, absSum_combineOrAppend acc.abs a v hacc, itemsDen, ← hp, Piece.eval]; ring

theorem groupBody_err (nn : Option Rat) (fold : Bool) (items : List Item) (acc : ATL) (e : Err) (h : groupBody nn fold items acc = .error e) :
    e = zeroDiv := by
  induction items generalizing acc with
  | nil => simp [groupBody] at h
  | cons i r ih =>
    simp only [groupBody] at h
    cases hi : i.tr fold with
    | error e' => simp only [hi, Except.error.injEq] at h; exact h ▸ Item.tr_err fold i e' hi
    | ok p =>
      cases p with
      | tl t => simp only [hi] at h; exact ih _ h
      | abs a => simp only [hi] at h; exact ih _ h

theorem SItem.tr_sound (i : SItem) (a : ATL) (h : i.tr (some 2) true = .ok a) (v : Val) : a.eval v = i.den v := by
  cases i with
  | item i =>
    simp only [SItem.tr] at h
    cases hi : i.tr true with
    | error e => simp [hi] at h
    | ok p =>
      have hp := Item.tr_sound i p hi v
      cases p with
      | tl t =>
        simp only [hi, Except.ok.injEq] at h; subst h
        simp [ATL.eval, SynTL.eval_add, absSum, SItem.den, ← hp, Piece.eval]
      | abs t =>
        simp only [hi, Except.ok.injEq] at h; subst h
        have := absSum_combineOrAppend [] t v (by simp [keys])
        simp [ATL.eval, this, absSum, SItem.den, ← hp, Piece.eval]
  | group neg k items =>
    simp only [SItem.tr] at h
    cases hk : evalOpt true k with
    | error e => simp [hk] at h
    | ok c =>
      cases hg : groupBody (some 2) true items ATL.empty with
      | error e => simp [hk, hg] at h
      | ok g =>
        simp only [hk, hg, Except.ok.injEq] at h; subst h
        obtain ⟨_, hge⟩ := groupBody_sound items ATL.empty g hg ATL.wf_empty v
        have hkv := evalOpt_coefVal k c hk
        rw [(ATL.add_sound ATL.empty _ v ATL.wf_empty).2]
        cases neg <;> cases c <;>
          simp [SItem.den, sgn, (ATL.negate_sound _ v).2, ATL.scale_eval, hge, hkv, coefVal]

theorem SItem.tr_err (nn : Option Rat) (fold : Bool) (i : SItem) (e : Err) (h : i.tr nn fold = .error e) : e = zeroDiv := by
  cases i with
  | item i =>
    simp only [SItem.tr] at h
    cases hi : i.tr fold with
    | error e' => simp only [hi, Except.error.injEq] at h; exact h ▸ Item.tr_err fold i e' hi
    | ok p => cases p <;> simp [hi] at h
  | group neg k items =>
    simp only [SItem.tr] at h
    cases hk : evalOpt fold k with
    | error e' => simp only [hk, Except.error.injEq] at h; exact h ▸ evalOpt_err fold k e' hk
    | ok c =>
      cases hg : groupBody nn fold items ATL.empty with
      | error e' => simp only [hk, hg, Except.error.injEq] at h; exact h ▸ groupBody_err nn fold items _ e' hg
      | ok g => simp [hk, hg] at h

theorem sideAcc_sound (s : Side) (acc r : ATL) (h : sideAcc (some 2) true s acc = .ok r) (hacc : acc.WF) (v : Val) :
    r.WF ∧ r.eval v = acc.eval v + sideDen s v := by
  induction s generalizing acc with
  | nil => simp only [sideAcc, Except.ok.injEq] at h; subst h; simp [sideDen, hacc]
  | cons i rest ih =>
    simp only [sideAcc] at h
    cases hi : i.tr (some 2) true with
    | error e => simp [hi] at h
    | ok a =>
      simp only [hi] at h
      obtain ⟨hw, he⟩ := ATL.add_sound acc a v hacc
      obtain ⟨h1, h2⟩ := ih _ h hw
      refine ⟨h1, ?_⟩
      rw [h2, he, SItem.tr_sound i a hi v]; simp only [sideDen]; ring

theorem sideAcc_err (nn : Option Rat) (fold : Bool) (s : Side) (acc : ATL) (e : Err) (h : sideAcc nn fold s acc = .error e) : e = zeroDiv := by
  induction s generalizing acc with
  | nil => simp [sideAcc] at h
  | cons i rest ih =>
    simp only [sideAcc] at h
    cases hi : i.tr nn fold with
    | error e' => simp only [hi, Except.error.injEq] at h; exact h ▸ SItem.tr_err nn fold i e' hi
    | ok a => simp only [hi] at h; exact ih _ h

/-- a parsed side is well formed and has the value of the written side -/
def SideOK (s : Side) (a : ATL) : Prop := a.WF ∧ ∀ v, a.eval v = sideDen s v

theorem sideTr_sound (s : Side) (a : ATL) (h : sideTr (some 2) true s = .ok a) : SideOK s a := by
  refine ⟨(sideAcc_sound s ATL.empty a h ATL.wf_empty (fun _ => 0)).1, fun v => ?_⟩
  have := (sideAcc_sound s ATL.empty a h ATL.wf_empty v).2
  simpa using this

theorem sidesTr_sound (ss : List Side) (l : List ATL) (h : sidesTr (some 2) true ss = .ok l) : List.Forall₂ SideOK ss l := by
  induction ss generalizing l with
  | nil => simp only [sidesTr, Except.ok.injEq] at h; subst h; exact List.Forall₂.nil
  | cons s r ih =>
    simp only [sidesTr] at h
    cases hs : sideTr (some 2) true s with
    | error e => simp [hs] at h
    | ok a =>
      cases hr : sidesTr (some 2) true r with
      | error e => simp [hs, hr] at h
      | ok l' =>
        simp only [hs, hr, Except.ok.injEq] at h; subst h
        exact List.Forall₂.cons (sideTr_sound s a hs) (ih l' hr)

theorem sidesTr_err (nn : Option Rat) (fold : Bool) (ss : List Side) (e : Err) (h : sidesTr nn fold ss = .error e) : e = zeroDiv := by
  induction ss generalizing e with
  | nil => simp [sidesTr] at h
  | cons s r ih =>
    simp only [sidesTr] at h
    cases hs : sideTr nn fold s with
    | error e' => simp only [hs, Except.error.injEq] at h; exact h ▸ sideAcc_err nn fold s _ e' hs
    | ok a =>
      cases hr : sidesTr nn fold r with
      | error e' => simp only [hs, hr, Except.error.injEq] at h; exact h ▸ ih e' hr
      | ok l' => simp [hs, hr] at h

/-! ### sign expansion of absolute values -/

theorem isPositive_iff (a : AbsTerm) : a.isPositive = true ↔ 0 < coefVal a.coeff := by
  unfold AbsTerm.isPositive
  cases a.coeff <;> simp [coefVal]

theorem AbsTerm.negate_coefVal (a : AbsTerm) : coefVal a.negate.coeff = - coefVal a.coeff := by
  unfold AbsTerm.negate; cases a.coeff <;> simp [coefVal]

/-- `abs_expand`: with positive coefficients, `B + c + Σ mᵢ·|eᵢ| ≤ 0` iff every sign pattern satisfies the linear
    inequality (the tuples are those of `itertools.product([True, False], repeat=n)`, in that order) -/
theorem abs_expand (l : List AbsTerm) (hpos : ∀ a ∈ l, a.isPositive = true) (c : SynTL) (B : Rat) (v : Val) :
    (∀ sg ∈ signs l.length, B + (comboOf l sg c).eval v ≤ 0) ↔ B + c.eval v + absSum l v ≤ 0 := by
  induction l generalizing c with
  | nil => simp [signs, comboOf, absSum]
  | cons a r ih =>
    have hm : 0 < coefVal a.coeff := (isPositive_iff a).mp (hpos a (by simp))
    have hr : ∀ b ∈ r, b.isPositive = true := fun b hb => hpos b (by simp [hb])
    have h1 := ih hr (c.add a.toTL)
    have h2 := ih hr (c.add a.negate.toTL)
    simp only [SynTL.eval_add, AbsTerm.eval_toTL, AbsTerm.negate_coefVal, AbsTerm.negate_tl] at h1 h2
    simp only [List.length_cons, signs, List.mem_append, List.mem_map, absSum, AbsTerm.eval]
    constructor
    · intro h
      have a1 := h1.mp (fun sg hsg => by
        have := h (true :: sg) (Or.inl ⟨sg, hsg, rfl⟩); simpa [comboOf] using this)
      have a2 := h2.mp (fun sg hsg => by
        have := h (false :: sg) (Or.inr ⟨sg, hsg, rfl⟩); simpa [comboOf] using this)
      rcases abs_cases (a.tl.eval v) with ⟨he, _⟩ | ⟨he, _⟩
      · rw [he]; linarith
      · rw [he]; linarith
    · intro h sg hsg
      have hle1 : coefVal a.coeff * a.tl.eval v ≤ coefVal a.coeff * |a.tl.eval v| :=
        mul_le_mul_of_nonneg_left (le_abs_self _) (le_of_lt hm)
      have hle2 : coefVal a.coeff * -(a.tl.eval v) ≤ coefVal a.coeff * |a.tl.eval v| :=
        mul_le_mul_of_nonneg_left (neg_le_abs _) (le_of_lt hm)
      rcases hsg with ⟨sg', hsg', rfl⟩ | ⟨sg', hsg', rfl⟩
      · have := h1.mpr (by linarith) sg' hsg'
        simpa [comboOf] using this
      · have := h2.mpr (by linarith) sg' hsg'
        simpa [comboOf] using this

theorem checkAbs_iff (l : List AbsTerm) : checkAbs l = true ↔ ∀ a ∈ l, a.isPositive = true := by
  simp [checkAbs, List.all_eq_true]

/-- the expansion of a difference with positive absolute terms holds exactly where the difference is `≤ 0` -/
theorem expand_sound (d : ATL) (hpos : checkAbs d.abs = true) (v : Val) :
    TL.holds ((expand d).map SynTL.toPTerm) v ↔ d.eval v ≤ 0 := by
  unfold expand
  split
  · rename_i h0
    have : d.abs = [] := List.length_eq_zero_iff.mp h0
    simp [TL.holds, SynTL.holds_toPTerm, ATL.eval, this, absSum]
  · have := abs_expand d.abs ((checkAbs_iff _).mp hpos) SynTL.empty (d.tl.eval v) v
    simp only [SynTL.eval_empty, add_zero] at this
    rw [ATL.eval, ← this]
    simp only [TL.holds, combos, List.map_map, List.mem_map, Function.comp]
    constructor
    · intro h sg hsg
      have := h _ ⟨sg, hsg, rfl⟩
      rw [SynTL.holds_toPTerm, SynTL.eval_add] at this
      exact this
    · rintro h t ⟨sg, hsg, rfl⟩
      rw [SynTL.holds_toPTerm, SynTL.eval_add]
      exact h sg hsg

/-! ### serializer -/

theorem convert_sound (ds : List ATL) (ts : TL) (h : convert ds = .ok ts) (v : Val) :
    TL.holds ts v ↔ ∀ d ∈ ds, d.eval v ≤ 0 := by
  induction ds generalizing ts with
  | nil => simp only [convert, Except.ok.injEq] at h; subst h; simp [TL.holds]
  | cons d r ih =>
    simp only [convert] at h
    split at h
    · rename_i hpos
      cases hr : convert r with
      | error e => simp [hr] at h
      | ok ts' =>
        simp only [hr, Except.ok.injEq] at h; subst h
        rw [TL.holds_append, expand_sound d hpos v, ih ts' hr]
        simp
    · cases h

theorem convert_err (ds : List ATL) (e : Err) (h : convert ds = .error e) : e = .convex := by
  induction ds generalizing e with
  | nil => simp [convert] at h
  | cons d r ih =>
    simp only [convert] at h
    split at h
    · cases hr : convert r with
      | error e' => simp only [hr, Except.error.injEq] at h; exact h ▸ ih e' hr
      | ok ts' => simp [hr] at h
    · simp only [Except.error.injEq] at h; exact h.symm

theorem convert_convex (ds : List ATL) (d : ATL) (hd : d ∈ ds) (hneg : checkAbs d.abs = false) :
    convert ds = .error .convex := by
  induction ds with
  | nil => cases hd
  | cons d' r ih =>
    simp only [convert]
    split
    · rename_i hpos
      rcases List.mem_cons.mp hd with rfl | hr
      · rw [hneg] at hpos; cases hpos
      · rw [ih hr]
    · rfl

theorem convert_err_witness (ds : List ATL) (e : Err) (h : convert ds = .error e) :
    ∃ d ∈ ds, checkAbs d.abs = false := by
  induction ds generalizing e with
  | nil => simp [convert] at h
  | cons d r ih =>
    simp only [convert] at h
    split at h
    · cases hr : convert r with
      | error e' =>
        obtain ⟨d', hd', hc⟩ := ih e' hr
        exact ⟨d', List.mem_cons_of_mem _ hd', hc⟩
      | ok ts' => simp [hr] at h
    · rename_i hneg
      exact ⟨d, List.mem_cons_self, by simpa using hneg⟩

theorem checkAbs_false_iff (l : List AbsTerm) :
    checkAbs l = false ↔ ∃ a ∈ l, ∃ c, a.coeff = some c ∧ c ≤ 0 := by
  constructor
  · intro h
    have : ¬ (∀ a ∈ l, a.isPositive = true) := fun h' => by
      rw [(checkAbs_iff l).mpr h'] at h; cases h
    simp only [not_forall] at this
    obtain ⟨a, ha, hp⟩ := this
    refine ⟨a, ha, ?_⟩
    unfold AbsTerm.isPositive at hp
    cases hc : a.coeff with
    | none => simp [hc] at hp
    | some c => simp only [hc, decide_eq_true_eq, not_lt] at hp; exact ⟨c, rfl, hp⟩
  · rintro ⟨a, ha, c, hc, hle⟩
    cases hcheck : checkAbs l with
    | false => rfl
    | true =>
      have := (checkAbs_iff l).mp hcheck a ha
      unfold AbsTerm.isPositive at this
      simp only [hc, decide_eq_true_eq] at this
      exact absurd this (not_lt.mpr hle)

theorem diffsLeq_sound (s : Side) (ss : List Side) (a : ATL) (l : List ATL) (hs : SideOK s a)
    (h : List.Forall₂ SideOK ss l) (v : Val) :
    (∀ d ∈ diffsLeq (some 2) a l, d.eval v ≤ 0) ↔ chainLe (sideDen s v) (ss.map (sideDen · v)) := by
  induction h generalizing s a with
  | nil => simp [diffsLeq, chainLe]
  | @cons s' b ss' l' hb _ ih =>
    simp only [diffsLeq, List.forall_mem_cons, List.map_cons, chainLe]
    rw [ih s' b hb, (ATL.add_sound a b.negate v hs.1).2, (ATL.negate_sound b v).2, hs.2 v, hb.2 v]
    constructor
    · rintro ⟨h1, h2⟩; exact ⟨by linarith, h2⟩
    · rintro ⟨h1, h2⟩; exact ⟨by linarith, h2⟩

theorem diffsGeq_sound (s : Side) (ss : List Side) (a : ATL) (l : List ATL) (hs : SideOK s a)
    (h : List.Forall₂ SideOK ss l) (v : Val) :
    (∀ d ∈ diffsGeq (some 2) a l, d.eval v ≤ 0) ↔ chainGe (sideDen s v) (ss.map (sideDen · v)) := by
  induction h generalizing s a with
  | nil => simp [diffsGeq, chainGe]
  | @cons s' b ss' l' hb _ ih =>
    simp only [diffsGeq, List.forall_mem_cons, List.map_cons, chainGe]
    have hw : a.negate.WF := (ATL.negate_sound a v).1 hs.1
    rw [ih s' b hb, (ATL.add_sound a.negate b v hw).2, (ATL.negate_sound a v).2, hs.2 v, hb.2 v]
    constructor
    · rintro ⟨h1, h2⟩; exact ⟨by linarith, h2⟩
    · rintro ⟨h1, h2⟩; exact ⟨by linarith, h2⟩

/-- the one-sided differences of an inequality chain are `≤ 0` exactly where the written chain holds -/
theorem moved_sound (e : Expr) (ds : List ATL) (h : moved (some 2) true e = .ok ds) (he : ∀ l r, e ≠ .eq l r) (v : Val) :
    (∀ d ∈ ds, d.eval v ≤ 0) ↔ denote e v := by
  cases e with
  | eq l r => exact absurd rfl (he l r)
  | leq s1 s2 rest =>
    simp only [moved] at h
    cases hs : sidesTr (some 2) true (s1 :: s2 :: rest) with
    | error e => simp [hs] at h
    | ok l =>
      have hf := sidesTr_sound _ l hs
      cases hf with
      | cons h1 hrest =>
        simp only [hs, Except.ok.injEq] at h; subst h
        have := diffsLeq_sound s1 (s2 :: rest) _ _ h1 hrest v
        simpa [denote] using this
  | geq s1 s2 rest =>
    simp only [moved] at h
    cases hs : sidesTr (some 2) true (s1 :: s2 :: rest) with
    | error e => simp [hs] at h
    | ok l =>
      have hf := sidesTr_sound _ l hs
      cases hf with
      | cons h1 hrest =>
        simp only [hs, Except.ok.injEq] at h; subst h
        have := diffsGeq_sound s1 (s2 :: rest) _ _ h1 hrest v
        simpa [denote] using this

theorem moved_err (nn : Option Rat) (fold : Bool) (e : Expr) (k : Err) (h : moved nn fold e = .error k) : k = zeroDiv := by
  cases e with
  | eq l r => simp [moved] at h
  | leq s1 s2 rest =>
    simp only [moved] at h
    cases hs : sidesTr nn fold (s1 :: s2 :: rest) with
    | error e' => simp only [hs, Except.error.injEq] at h; exact h ▸ sidesTr_err nn fold _ e' hs
    | ok l => cases l <;> simp [hs] at h
  | geq s1 s2 rest =>
    simp only [moved] at h
    cases hs : sidesTr nn fold (s1 :: s2 :: rest) with
    | error e' => simp only [hs, Except.error.injEq] at h; exact h ▸ sidesTr_err nn fold _ e' hs
    | ok l => cases l <;> simp [hs] at h

end Syntax
