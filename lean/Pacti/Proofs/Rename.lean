import Pacti.Model.PolyAlg
import Pacti.Proofs.PolyAlg
import Pacti.Props.C06
/-! Renaming is substitution (C16). -/

namespace PolyAlg

/-- the valuation that reads the new name where the old one was read -/
def substVal (v : Val) (s d : Var) : Val := Function.update v s (v d)

theorem renameTerm_holds (t : PTerm) (s d : Var) (hne : s ≠ d) (v : Val) :
    (renameTerm t s d).holds v ↔ t.holds (substVal v s d) := by
  unfold renameTerm substVal
  by_cases hc : t.containsVar s = true
  · rw [if_pos hc, if_neg hne]
    unfold PTerm.holds PTerm.mk' PTerm.coeff
    simp only
    rw [evalL_normC, evalL_append, evalL_filter_ne, evalL_update]
    simp only [evalL]
    constructor <;> intro h <;> linarith
  · rw [if_neg hc]
    have hx : s ∉ varsL t.coeffs := by simpa [PTerm.containsVar, PTerm.vars] using hc
    unfold PTerm.holds
    rw [evalL_update, coeffOf_eq_zero_of_not_mem s _ hx]; simp

theorem renameTerm_vars (t : PTerm) (s d : Var) (hne : s ≠ d) (x : Var) (hx : x ∈ (renameTerm t s d).vars) :
    (x ∈ t.vars ∧ x ≠ s) ∨ (x = d ∧ s ∈ t.vars) := by
  unfold renameTerm at hx
  by_cases hc : t.containsVar s = true
  · rw [if_pos hc, if_neg hne] at hx
    unfold PTerm.vars PTerm.mk' at hx
    have := mem_varsL_normC _ _ hx
    simp only [varsL, List.map_append, List.map_cons, List.map_nil, List.mem_append, List.mem_map, List.mem_filter, bne_iff_ne, ne_eq,
      List.mem_singleton] at this
    rcases this with ⟨p, ⟨hp, hps⟩, rfl⟩ | h
    · exact Or.inl ⟨by simp only [PTerm.vars, varsL, List.mem_map]; exact ⟨p, hp, rfl⟩, hps⟩
    · exact Or.inr ⟨h, by simpa [PTerm.containsVar] using hc⟩
  · rw [if_neg hc] at hx
    refine Or.inl ⟨hx, ?_⟩
    intro e; subst e
    apply hc; simpa [PTerm.containsVar] using hx

theorem renameTL_holds (l : TL) (s d : Var) (hne : s ≠ d) (v : Val) :
    TL.holds (l.map (renameTerm · s d)) v ↔ TL.holds l (substVal v s d) := by
  unfold TL.holds
  constructor
  · intro h t ht
    exact (renameTerm_holds t s d hne v).mp (h _ (List.mem_map.mpr ⟨t, ht, rfl⟩))
  · intro h t ht
    obtain ⟨u, hu, rfl⟩ := List.mem_map.mp ht
    exact (renameTerm_holds u s d hne v).mpr (h u hu)

/-- a term list that does not mention `s` is unaffected by the substitution -/
theorem holds_substVal_absent (l : TL) (s d : Var) (v : Val) (h : ∀ t ∈ l, s ∉ t.vars) :
    TL.holds l (substVal v s d) ↔ TL.holds l v := by
  unfold TL.holds PTerm.holds substVal
  constructor <;> intro hh t ht
  · have := hh t ht
    rwa [evalL_update, coeffOf_eq_zero_of_not_mem s _ (h t ht), zero_mul, add_zero] at this
  · rw [evalL_update, coeffOf_eq_zero_of_not_mem s _ (h t ht), zero_mul, add_zero]; exact hh t ht

theorem replaceFirst_back (xs : List Var) (s d : Var) (hd : d ∉ xs) :
    Alg.replaceFirst (Alg.replaceFirst xs s d) d s = xs := by
  induction xs with
  | nil => rfl
  | cons x r ih =>
    have hdx : ¬ x = d := fun e => hd (by simp [e])
    have hdr : d ∉ r := fun h => hd (by simp [h])
    by_cases hx : x = s
    · subst hx
      have e1 : Alg.replaceFirst (x :: r) x d = d :: r := by simp [Alg.replaceFirst]
      rw [e1]; simp [Alg.replaceFirst]
    · have e1 : Alg.replaceFirst (x :: r) s d = x :: Alg.replaceFirst r s d := by simp [Alg.replaceFirst, hx]
      rw [e1]
      have e2 : Alg.replaceFirst (x :: Alg.replaceFirst r s d) d s = x :: Alg.replaceFirst (Alg.replaceFirst r s d) d s := by
        simp [Alg.replaceFirst, hdx]
      rw [e2, ih hdr]

end PolyAlg
