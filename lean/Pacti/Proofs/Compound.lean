import Pacti.Model.Compound
import Pacti.Proofs.Refine
import Pacti.Props.C03
import Pacti.Props.C11
/-! Helper lemmas for C17: the loops of `NestedTermList` (`__init__`, `contains_behavior`, `intersect`, `__le__`)
    and of `IoContractCompound` (`__init__`, `merge`). -/

/-- two alternatives share no behaviour -/
def TL.Disj (a b : TL) : Prop := ¬ ∃ v, TL.holds a v ∧ TL.holds b v

namespace Compound
open Poly

/-! ### `contains_behavior` -/

theorem containsBehavior_cases (l : TL) (b : List (Var × Rat)) (hcov : ∀ x ∈ l.vars, x ∈ b.map (·.1)) :
    (containsBehavior l b = .ok true ∧ TL.holds l (valOf b)) ∨
    (containsBehavior l b = .ok false ∧ ¬ TL.holds l (valOf b)) := by
  by_cases h : TL.holds l (valOf b)
  · exact Or.inl ⟨(Pacti.C11.contains_iff l b hcov).mpr h, h⟩
  · exact Or.inr ⟨(Pacti.C11.contains_false_iff l b hcov).mpr h, h⟩

theorem containsBehavior_error (l : TL) (b : List (Var × Rat)) (e : Err) (h : containsBehavior l b = .error e) :
    e = .valueError ∧ ∃ x ∈ l.vars, x ∉ b.map (·.1) := by
  have he : e = .valueError := by
    unfold containsBehavior at h
    split at h
    · injection h with h; exact h.symm
    · split at h <;> cases h
  subst he
  exact ⟨rfl, (Pacti.C11.contains_err_iff l b).mpr h⟩

theorem containsB_true_iff (n : Nested) (b : List (Var × Rat))
    (hcov : ∀ l ∈ n, ∀ x ∈ l.vars, x ∈ b.map (·.1)) :
    containsB n b = .ok true ↔ ∃ l ∈ n, TL.holds l (valOf b) := by
  induction n with
  | nil => simp [containsB]
  | cons tl rest ih =>
    have ih' := ih (fun l hl => hcov l (List.mem_cons_of_mem _ hl))
    rcases containsBehavior_cases tl b (hcov tl (by simp)) with ⟨hc, hh⟩ | ⟨hc, hh⟩
    · simp only [containsB, hc, true_iff]
      exact ⟨tl, by simp, hh⟩
    · simp only [containsB, hc, ih', List.mem_cons, exists_eq_or_imp, hh, false_or]

theorem containsB_false_iff (n : Nested) (b : List (Var × Rat))
    (hcov : ∀ l ∈ n, ∀ x ∈ l.vars, x ∈ b.map (·.1)) :
    containsB n b = .ok false ↔ ∀ l ∈ n, ¬ TL.holds l (valOf b) := by
  induction n with
  | nil => simp [containsB]
  | cons tl rest ih =>
    have ih' := ih (fun l hl => hcov l (List.mem_cons_of_mem _ hl))
    rcases containsBehavior_cases tl b (hcov tl (by simp)) with ⟨hc, hh⟩ | ⟨hc, hh⟩
    · simp only [containsB, hc, List.mem_cons, forall_eq_or_imp, hh, not_true_eq_false, false_and, iff_false]
      intro h; cases h
    · simp only [containsB, hc, ih', List.mem_cons, forall_eq_or_imp, hh, not_false_eq_true, true_and]

/-- an error of the nested test is a `ValueError` and comes from an alternative with an unassigned variable
    that is met before any alternative containing the behaviour -/
theorem containsB_error (n : Nested) (b : List (Var × Rat)) (e : Err) (h : containsB n b = .error e) :
    e = .valueError ∧ ∃ pre l post, n = pre ++ l :: post ∧ (∃ x ∈ l.vars, x ∉ b.map (·.1)) ∧
      ∀ l' ∈ pre, containsBehavior l' b = .ok false := by
  induction n with
  | nil => simp [containsB] at h
  | cons tl rest ih =>
    simp only [containsB] at h
    split at h
    · rename_i hc
      injection h with h
      exact ⟨h.symm, [], tl, rest, rfl, (containsBehavior_error tl b _ hc).2, by simp⟩
    · rename_i e' hne hc
      exact absurd (containsBehavior_error tl b _ hc).1 hne
    · cases h
    · rename_i hc
      obtain ⟨he, pre, l, post, hn, hx, hpre⟩ := ih h
      refine ⟨he, tl :: pre, l, post, by rw [hn]; rfl, hx, ?_⟩
      intro l' hl'
      rcases List.mem_cons.mp hl' with h1 | h1
      · rw [h1]; exact hc
      · exact hpre l' h1

/-- the behaviour documented in the model: an earlier alternative with an unassigned variable raises even though
    a later alternative contains the behaviour -/
theorem containsB_error_first (tl : TL) (rest : Nested) (b : List (Var × Rat))
    (hx : ∃ x ∈ tl.vars, x ∉ b.map (·.1)) : containsB (tl :: rest) b = .error .valueError := by
  simp only [containsB, (Pacti.C11.contains_err_iff tl b).mp hx]

/-! ### `__init__`: pairwise disjointness -/

theorem mkNested_ok (O : Oracle) (l : List TL) (f : Bool) (n : Nested) (h : mkNested O l f = .ok n) : n = l := by
  unfold mkNested at h
  split at h
  · split at h
    · cases h
    · injection h with h; exact h.symm
  · injection h with h; exact h.symm

theorem mkNested_false (O : Oracle) (l : List TL) : mkNested O l false = .ok l := by
  simp [mkNested]

theorem mkNested_true_ok (O : Oracle) (l : List TL) (n : Nested) (h : mkNested O l true = .ok n) :
    checkDisjoint O l = .ok () := by
  unfold mkNested at h
  simp only [↓reduceIte] at h
  split at h
  · cases h
  · assumption

theorem mkNested_true_error (O : Oracle) (l : List TL) (e : Err) :
    mkNested O l true = .error e ↔ checkDisjoint O l = .error e := by
  unfold mkNested
  simp only [↓reduceIte]
  constructor
  · intro h
    split at h
    · rename_i h'; injection h with h; rw [← h]; exact h'
    · cases h
  · intro h; rw [h]

theorem isEmpty_error (O : Oracle) (l : TL) (e : Err) (h : isEmpty O l = .error e) :
    e = .oracleStuck ∧ O.lp [] l = .stuck := by
  unfold isEmpty polyEmpty at h
  split at h; · cases h
  split at h; · cases h
  split at h
  · cases h
  · cases h
  · cases h
  · rename_i hlp; injection h with h; exact ⟨h.symm, hlp⟩

theorem isEmpty_true_disj (O : Oracle) (hO : O.Certified) (a b : TL) (h : isEmpty O (tlUnion a b) = .ok true) :
    TL.Disj a b := by
  rintro ⟨v, ha, hb⟩
  exact ((Pacti.C11.isEmpty_iff O hO _ true h).mp rfl) ⟨v, (Pacti.C03.holds_tlUnion a b v).mpr ⟨ha, hb⟩⟩

theorem isEmpty_false_share (O : Oracle) (hO : O.Certified) (a b : TL) (_ha : a.Proper) (_hb : b.Proper)
    (h : isEmpty O (tlUnion a b) = .ok false) : ∃ v, TL.holds a v ∧ TL.holds b v := by
  have := (Pacti.C11.isEmpty_iff O hO _ false h)
  simp only [Bool.false_eq_true, false_iff, not_not] at this
  obtain ⟨v, hv⟩ := this
  exact ⟨v, (Pacti.C03.holds_tlUnion a b v).mp hv⟩

theorem checkRow_ok (O : Oracle) (hO : O.Certified) (a : TL) (rest : List TL) (h : checkRow O a rest = .ok ()) :
    ∀ b ∈ rest, TL.Disj a b := by
  induction rest with
  | nil => intro b hb; cases hb
  | cons c rest ih =>
    simp only [checkRow] at h
    split at h
    · cases h
    · cases h
    · rename_i he
      intro b hb
      rcases List.mem_cons.mp hb with h1 | h1
      · rw [h1]; exact isEmpty_true_disj O hO a c he
      · exact ih h b h1

theorem checkRow_valueError (O : Oracle) (hO : O.Certified) (a : TL) (rest : List TL) (ha : a.Proper)
    (hr : ∀ b ∈ rest, b.Proper) (h : checkRow O a rest = .error .valueError) :
    ∃ b ∈ rest, ∃ v, TL.holds a v ∧ TL.holds b v := by
  induction rest with
  | nil => simp [checkRow] at h
  | cons c rest ih =>
    simp only [checkRow] at h
    split at h
    · rename_i e he
      injection h with h
      have := (isEmpty_error O _ e he).1
      rw [h] at this; cases this
    · rename_i he
      exact ⟨c, by simp, isEmpty_false_share O hO a c ha (hr c (by simp)) he⟩
    · obtain ⟨b, hb, hv⟩ := ih (fun b hb => hr b (List.mem_cons_of_mem _ hb)) h
      exact ⟨b, List.mem_cons_of_mem _ hb, hv⟩

theorem checkRow_other (O : Oracle) (a : TL) (rest : List TL) (e : Err) (hne : e ≠ .valueError)
    (h : checkRow O a rest = .error e) : ∃ b ∈ rest, O.lp [] (tlUnion a b) = .stuck := by
  induction rest with
  | nil => simp [checkRow] at h
  | cons c rest ih =>
    simp only [checkRow] at h
    split at h
    · rename_i e' he
      exact ⟨c, by simp, (isEmpty_error O _ e' he).2⟩
    · injection h with h; exact absurd h.symm hne
    · obtain ⟨b, hb, hs⟩ := ih h
      exact ⟨b, List.mem_cons_of_mem _ hb, hs⟩

theorem checkDisjoint_ok (O : Oracle) (hO : O.Certified) (l : List TL) (h : checkDisjoint O l = .ok ()) :
    l.Pairwise TL.Disj := by
  induction l with
  | nil => exact List.Pairwise.nil
  | cons a rest ih =>
    simp only [checkDisjoint] at h
    split at h
    · cases h
    · rename_i hrow
      exact List.Pairwise.cons (checkRow_ok O hO a rest hrow) (ih h)

theorem checkDisjoint_valueError (O : Oracle) (hO : O.Certified) (l : List TL) (hp : ∀ a ∈ l, a.Proper)
    (h : checkDisjoint O l = .error .valueError) : ¬ l.Pairwise TL.Disj := by
  induction l with
  | nil => simp [checkDisjoint] at h
  | cons a rest ih =>
    intro hpw
    rw [List.pairwise_cons] at hpw
    simp only [checkDisjoint] at h
    split at h
    · rename_i e hrow
      injection h with h
      rw [h] at hrow
      obtain ⟨b, hb, hv⟩ := checkRow_valueError O hO a rest (hp a (by simp))
        (fun b hb => hp b (List.mem_cons_of_mem _ hb)) hrow
      exact hpw.1 b hb hv
    · exact ih (fun b hb => hp b (List.mem_cons_of_mem _ hb)) h hpw.2

theorem checkDisjoint_other (O : Oracle) (l : List TL) (e : Err) (hne : e ≠ .valueError)
    (h : checkDisjoint O l = .error e) : ∃ a ∈ l, ∃ b ∈ l, O.lp [] (tlUnion a b) = .stuck := by
  induction l with
  | nil => simp [checkDisjoint] at h
  | cons a rest ih =>
    simp only [checkDisjoint] at h
    split at h
    · rename_i e' hrow
      injection h with h
      rw [h] at hrow
      obtain ⟨b, hb, hs⟩ := checkRow_other O a rest e hne hrow
      exact ⟨a, by simp, b, List.mem_cons_of_mem _ hb, hs⟩
    · obtain ⟨x, hx, y, hy, hs⟩ := ih h
      exact ⟨x, List.mem_cons_of_mem _ hx, y, List.mem_cons_of_mem _ hy, hs⟩

/-- index form of "not pairwise disjoint" -/
theorem not_pairwise_disj_iff (l : List TL) :
    ¬ l.Pairwise TL.Disj ↔
      ∃ (i j : Nat) (hi : i < l.length) (hj : j < l.length), i < j ∧ ∃ v, TL.holds l[i] v ∧ TL.holds l[j] v := by
  rw [List.pairwise_iff_getElem]
  constructor
  · intro h
    by_contra hn
    apply h
    intro i j hi hj hij hv
    exact hn ⟨i, j, hi, hj, hij, hv⟩
  · rintro ⟨i, j, hi, hj, hij, hv⟩ h
    exact h i j hi hj hij hv

/-! ### `intersect` -/

theorem intersectRow_sem (O : Oracle) (hO : O.Certified) (s : TL) (n₂ r : List TL)
    (h : intersectRow O s n₂ = .ok r) (v : Val) :
    (∃ l ∈ r, TL.holds l v) ↔ TL.holds s v ∧ ∃ o ∈ n₂, TL.holds o v := by
  induction n₂ generalizing r with
  | nil =>
    simp only [intersectRow] at h
    injection h with h; subst h; simp
  | cons o rest ih =>
    simp only [intersectRow] at h
    split at h; · cases h
    rename_i em hem
    split at h; · cases h
    rename_i r' hr'
    injection h with h
    have ih' := ih r' hr'
    cases em with
    | true =>
      simp only [↓reduceIte] at h
      subst h
      rw [ih']
      have hd := isEmpty_true_disj O hO s o hem
      constructor
      · rintro ⟨hs, o', ho', hv⟩; exact ⟨hs, o', List.mem_cons_of_mem _ ho', hv⟩
      · rintro ⟨hs, o', ho', hv⟩
        rcases List.mem_cons.mp ho' with h1 | h1
        · subst h1; exact absurd ⟨v, hs, hv⟩ hd
        · exact ⟨hs, o', h1, hv⟩
    | false =>
      simp only [Bool.false_eq_true, ↓reduceIte] at h
      subst h
      simp only [List.mem_cons, exists_eq_or_imp, ih', Pacti.C03.holds_tlUnion]
      constructor
      · rintro (⟨hs, ho⟩ | ⟨hs, o', ho', hv⟩)
        · exact ⟨hs, Or.inl ho⟩
        · exact ⟨hs, Or.inr ⟨o', ho', hv⟩⟩
      · rintro ⟨hs, ho | ⟨o', ho', hv⟩⟩
        · exact Or.inl ⟨hs, ho⟩
        · exact Or.inr ⟨hs, o', ho', hv⟩

theorem intersectRow_mem (O : Oracle) (s : TL) (n₂ r : List TL) (h : intersectRow O s n₂ = .ok r) :
    ∀ l ∈ r, ∃ o ∈ n₂, l = tlUnion s o ∧ isEmpty O l = .ok false := by
  induction n₂ generalizing r with
  | nil =>
    simp only [intersectRow] at h
    injection h with h; subst h; intro l hl; cases hl
  | cons o rest ih =>
    simp only [intersectRow] at h
    split at h; · cases h
    rename_i em hem
    split at h; · cases h
    rename_i r' hr'
    injection h with h
    intro l hl
    cases em with
    | true =>
      simp only [↓reduceIte] at h
      subst h
      obtain ⟨o', ho', hl'⟩ := ih r' hr' l hl
      exact ⟨o', List.mem_cons_of_mem _ ho', hl'⟩
    | false =>
      simp only [Bool.false_eq_true, ↓reduceIte] at h
      subst h
      rcases List.mem_cons.mp hl with h1 | h1
      · exact ⟨o, by simp, h1, by rw [h1]; exact hem⟩
      · obtain ⟨o', ho', hl'⟩ := ih r' hr' l h1
        exact ⟨o', List.mem_cons_of_mem _ ho', hl'⟩

/-- completeness of the row: every pair the code does not report empty is kept -/
theorem intersectRow_keeps (O : Oracle) (s : TL) (n₂ r : List TL) (h : intersectRow O s n₂ = .ok r) :
    ∀ o ∈ n₂, isEmpty O (tlUnion s o) = .ok false → tlUnion s o ∈ r := by
  induction n₂ generalizing r with
  | nil => intro o ho; cases ho
  | cons o rest ih =>
    simp only [intersectRow] at h
    split at h; · cases h
    rename_i em hem
    split at h; · cases h
    rename_i r' hr'
    injection h with h
    intro o' ho' he
    rcases List.mem_cons.mp ho' with h1 | h1
    · subst h1
      rw [hem] at he
      injection he with he
      subst he
      simp only [Bool.false_eq_true, ↓reduceIte] at h
      rw [← h]; simp
    · have := ih r' hr' o' h1 he
      rw [← h]
      split
      · exact this
      · exact List.mem_cons_of_mem _ this

theorem intersectPairs_sem (O : Oracle) (hO : O.Certified) (n₁ n₂ r : List TL)
    (h : intersectPairs O n₁ n₂ = .ok r) (v : Val) :
    (∃ l ∈ r, TL.holds l v) ↔ (∃ s ∈ n₁, TL.holds s v) ∧ (∃ o ∈ n₂, TL.holds o v) := by
  induction n₁ generalizing r with
  | nil =>
    simp only [intersectPairs] at h
    injection h with h; subst h; simp
  | cons s rest ih =>
    simp only [intersectPairs] at h
    split at h; · cases h
    rename_i r₁ hr₁
    split at h; · cases h
    rename_i r₂ hr₂
    injection h with h
    subst h
    have h1 := intersectRow_sem O hO s n₂ r₁ hr₁ v
    have h2 := ih r₂ hr₂
    constructor
    · rintro ⟨l, hl, hv⟩
      rcases List.mem_append.mp hl with hl | hl
      · obtain ⟨hs, ho⟩ := h1.mp ⟨l, hl, hv⟩
        exact ⟨⟨s, by simp, hs⟩, ho⟩
      · obtain ⟨⟨s', hs', hv'⟩, ho⟩ := h2.mp ⟨l, hl, hv⟩
        exact ⟨⟨s', List.mem_cons_of_mem _ hs', hv'⟩, ho⟩
    · rintro ⟨⟨s', hs', hv'⟩, ho⟩
      rcases List.mem_cons.mp hs' with h3 | h3
      · subst h3
        obtain ⟨l, hl, hv⟩ := h1.mpr ⟨hv', ho⟩
        exact ⟨l, List.mem_append.mpr (Or.inl hl), hv⟩
      · obtain ⟨l, hl, hv⟩ := h2.mpr ⟨⟨s', h3, hv'⟩, ho⟩
        exact ⟨l, List.mem_append.mpr (Or.inr hl), hv⟩

theorem intersectPairs_mem (O : Oracle) (n₁ n₂ r : List TL) (h : intersectPairs O n₁ n₂ = .ok r) :
    ∀ l ∈ r, ∃ s ∈ n₁, ∃ o ∈ n₂, l = tlUnion s o ∧ isEmpty O l = .ok false := by
  induction n₁ generalizing r with
  | nil =>
    simp only [intersectPairs] at h
    injection h with h; subst h; intro l hl; cases hl
  | cons s rest ih =>
    simp only [intersectPairs] at h
    split at h; · cases h
    rename_i r₁ hr₁
    split at h; · cases h
    rename_i r₂ hr₂
    injection h with h
    subst h
    intro l hl
    rcases List.mem_append.mp hl with hl | hl
    · obtain ⟨o, ho, hl'⟩ := intersectRow_mem O s n₂ r₁ hr₁ l hl
      exact ⟨s, by simp, o, ho, hl'⟩
    · obtain ⟨s', hs', o, ho, hl'⟩ := ih r₂ hr₂ l hl
      exact ⟨s', List.mem_cons_of_mem _ hs', o, ho, hl'⟩

theorem intersectPairs_keeps (O : Oracle) (n₁ n₂ r : List TL) (h : intersectPairs O n₁ n₂ = .ok r) :
    ∀ s ∈ n₁, ∀ o ∈ n₂, isEmpty O (tlUnion s o) = .ok false → tlUnion s o ∈ r := by
  induction n₁ generalizing r with
  | nil => intro s hs; cases hs
  | cons s rest ih =>
    simp only [intersectPairs] at h
    split at h; · cases h
    rename_i r₁ hr₁
    split at h; · cases h
    rename_i r₂ hr₂
    injection h with h
    subst h
    intro s' hs' o ho he
    rcases List.mem_cons.mp hs' with h1 | h1
    · subst h1
      exact List.mem_append.mpr (Or.inl (intersectRow_keeps O _ n₂ r₁ hr₁ o ho he))
    · exact List.mem_append.mpr (Or.inr (ih r₂ hr₂ s' h1 o ho he))

/-- no satisfiable pair is dropped -/
theorem intersectRow_keeps_sat (O : Oracle) (hO : O.Certified) (s : TL) (n₂ r : List TL)
    (h : intersectRow O s n₂ = .ok r) :
    ∀ o ∈ n₂, (∃ v, TL.holds s v ∧ TL.holds o v) → tlUnion s o ∈ r := by
  induction n₂ generalizing r with
  | nil => intro o ho; cases ho
  | cons o rest ih =>
    have h0 := h
    simp only [intersectRow] at h
    split at h; · cases h
    rename_i em hem
    split at h; · cases h
    rename_i r' hr'
    intro o' ho' hsat
    rcases List.mem_cons.mp ho' with h1 | h1
    · subst h1
      cases em with
      | true => exact absurd hsat (isEmpty_true_disj O hO s o' hem)
      | false => exact intersectRow_keeps O s _ r h0 o' (by simp) hem
    · injection h with h
      have := ih r' hr' o' h1 hsat
      rw [← h]
      split
      · exact this
      · exact List.mem_cons_of_mem _ this

theorem intersectPairs_keeps_sat (O : Oracle) (hO : O.Certified) (n₁ n₂ r : List TL)
    (h : intersectPairs O n₁ n₂ = .ok r) :
    ∀ s ∈ n₁, ∀ o ∈ n₂, (∃ v, TL.holds s v ∧ TL.holds o v) → tlUnion s o ∈ r := by
  induction n₁ generalizing r with
  | nil => intro s hs; cases hs
  | cons s rest ih =>
    simp only [intersectPairs] at h
    split at h; · cases h
    rename_i r₁ hr₁
    split at h; · cases h
    rename_i r₂ hr₂
    injection h with h
    subst h
    intro s' hs' o ho he
    rcases List.mem_cons.mp hs' with h1 | h1
    · subst h1
      exact List.mem_append.mpr (Or.inl (intersectRow_keeps_sat O hO _ n₂ r₁ hr₁ o ho he))
    · exact List.mem_append.mpr (Or.inr (ih r₂ hr₂ s' h1 o ho he))

theorem intersect_ok (O : Oracle) (n₁ n₂ : Nested) (f : Bool) (n : Nested) (h : intersect O n₁ n₂ f = .ok n) :
    intersectPairs O n₁ n₂ = .ok n ∧ mkNested O n f = .ok n := by
  unfold intersect at h
  split at h
  · cases h
  · rename_i l hl
    have := mkNested_ok O l f n h
    subst this
    exact ⟨hl, h⟩

/-! ### `__le__` -/

theorem findRef_yes (O : Oracle) (l : TL) (n₂ : List TL) (h : findRef O l n₂ = .ok .yes) :
    ∃ r ∈ n₂, refinesTL O l r = .ok .yes := by
  induction n₂ with
  | nil => simp [findRef] at h
  | cons r rest ih =>
    simp only [findRef] at h
    split at h
    · cases h
    · rename_i hr; exact ⟨r, by simp, hr⟩
    · obtain ⟨r', hr', h'⟩ := ih h
      exact ⟨r', List.mem_cons_of_mem _ hr', h'⟩
    · split at h
      · cases h
      · rename_i hrest
        obtain ⟨r', hr', h'⟩ := ih hrest
        exact ⟨r', List.mem_cons_of_mem _ hr', h'⟩
      · cases h

theorem findRef_no (O : Oracle) (l : TL) (n₂ : List TL) (h : findRef O l n₂ = .ok .no) :
    ∀ r ∈ n₂, refinesTL O l r = .ok .no := by
  induction n₂ with
  | nil => intro r hr; cases hr
  | cons r rest ih =>
    simp only [findRef] at h
    split at h
    · cases h
    · cases h
    · rename_i hr
      intro r' hr'
      rcases List.mem_cons.mp hr' with h1 | h1
      · rw [h1]; exact hr
      · exact ih h r' h1
    · split at h
      · cases h
      · cases h
      · cases h

theorem le_yes (O : Oracle) (n₁ n₂ : Nested) (h : le O n₁ n₂ = .ok .yes) :
    ∀ l ∈ n₁, ∃ r ∈ n₂, refinesTL O l r = .ok .yes := by
  induction n₁ with
  | nil => intro l hl; cases hl
  | cons a rest ih =>
    simp only [le] at h
    split at h
    · cases h
    · cases h
    · rename_i hf
      intro l hl
      rcases List.mem_cons.mp hl with h1 | h1
      · rw [h1]; exact findRef_yes O a n₂ hf
      · exact ih h l h1
    · split at h
      · cases h
      · cases h
      · cases h

theorem le_no (O : Oracle) (n₁ n₂ : Nested) (h : le O n₁ n₂ = .ok .no) :
    ∃ l ∈ n₁, ∀ r ∈ n₂, refinesTL O l r = .ok .no := by
  induction n₁ with
  | nil => simp [le] at h
  | cons a rest ih =>
    simp only [le] at h
    split at h
    · cases h
    · rename_i hf
      exact ⟨a, by simp, findRef_no O a n₂ hf⟩
    · obtain ⟨l, hl, h'⟩ := ih h
      exact ⟨l, List.mem_cons_of_mem _ hl, h'⟩
    · split at h
      · cases h
      · rename_i hrest
        obtain ⟨l, hl, h'⟩ := ih hrest
        exact ⟨l, List.mem_cons_of_mem _ hl, h'⟩
      · cases h

/-! ### `IoContractCompound.__init__`, `merge` -/

theorem mkCompound_ok (O : Oracle) (a g : Nested) (ins outs : List Var) (r : CContract)
    (h : mkCompound O a g ins outs = .ok r) :
    r = ⟨a, g, ins, outs⟩ ∧ checkDisjoint O a = .ok () ∧ ins.Nodup ∧ outs.Nodup ∧
    (∀ x ∈ ins, x ∉ outs) ∧ (∀ x ∈ a.vars, x ∈ ins) ∧ (∀ x ∈ g.vars, x ∈ ins ∨ x ∈ outs) := by
  unfold mkCompound at h
  split at h; · cases h
  rename_i h1
  split at h; · cases h
  rename_i h2
  split at h; · cases h
  rename_i h3
  split at h; · cases h
  rename_i h4
  split at h; · cases h
  rename_i h5
  split at h; · cases h
  rename_i a' ha'
  split at h; · cases h
  rename_i g' hg'
  injection h with h
  unfold copyNested at ha' hg'
  have e1 := mkNested_ok O a true a' ha'
  have e2 := mkNested_ok O g false g' hg'
  subst e1 e2
  simp only [Bool.not_eq_true', decide_eq_false_iff_not, not_not, Bool.not_eq_false] at h1 h2 h3 h4 h5
  refine ⟨h.symm, mkNested_true_ok O _ _ ha', h1, h2, ?_, ?_, ?_⟩
  · exact (Gen.list_intersection_isEmpty_iff _ _).mp h3
  · exact (Gen.list_diff_isEmpty_iff _ _).mp h4
  · intro x hx
    exact (Gen.mem_list_union _ _ _).mp ((Gen.list_diff_isEmpty_iff _ _).mp h5 x hx)

end Compound
