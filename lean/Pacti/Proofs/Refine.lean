import Pacti.Model.Poly
import Pacti.Proofs.Sem
import Pacti.Proofs.Lists
import Pacti.Proofs.Eval
/-! Semantics of `is_polytope_empty`, `verify_polytope_containment`, `refines` (C03, C11, C17). -/

/-- the `b+1` trick: if `xs` maximises `a` over `rs ∩ {a ≤ β+1}` and `a·xs ≤ β` then `a ≤ β` on all of `rs`. -/
theorem relax_by_one (rs : TL) (a : Lin) (β : Rat) (xs : Val)
    (hfeas : TL.holds rs xs)
    (hmax : ∀ z, TL.holds rs z → evalL a z ≤ β + 1 → evalL a z ≤ evalL a xs)
    (hm : evalL a xs ≤ β) : ∀ z, TL.holds rs z → evalL a z ≤ β := by
  intro z hz
  by_contra hcon
  have hgt : β < evalL a z := lt_of_not_ge hcon
  by_cases hz1 : evalL a z ≤ β + 1
  · have := hmax z hz hz1; linarith
  · have hz1' : β + 1 < evalL a z := lt_of_not_ge hz1
    have hd : 0 < evalL a z - evalL a xs := by linarith
    let t : Rat := (β + 1 - evalL a xs) / (evalL a z - evalL a xs)
    have htm : t * (evalL a z - evalL a xs) = β + 1 - evalL a xs := by
      simp only [t]; field_simp
    have ht0 : 0 ≤ t := div_nonneg (by linarith) (le_of_lt hd)
    have ht1 : t ≤ 1 := by nlinarith [htm, hd]
    have hw := TL.holds_mix rs t ht0 ht1 z xs hz hfeas
    have hval : evalL a (mix t z xs) = β + 1 := by rw [evalL_mix]; linarith [htm]
    have := hmax (mix t z xs) hw (by rw [hval])
    rw [hval] at this; linarith

/-- a term is `Proper` when some variable really occurs in it -/
def PTerm.Proper (t : PTerm) : Prop := ∃ x, coeffOf x t.coeffs ≠ 0
def TL.Proper (l : TL) : Prop := ∀ t ∈ l, t.Proper

theorem evalL_single (l : Lin) (x : Var) (k : Rat) :
    evalL l (fun y => if y = x then k else 0) = coeffOf x l * k := by
  induction l with
  | nil => simp [evalL, coeffOf]
  | cons p l ih =>
    simp only [evalL, coeffOf, ih]
    by_cases h : p.1 = x
    · simp only [h, ↓reduceIte]; ring
    · simp only [h, ↓reduceIte]; ring

/-- a proper term is violated somewhere -/
theorem PTerm.Proper.exists_violation (t : PTerm) (h : t.Proper) : ∃ v, ¬ t.holds v := by
  obtain ⟨x, hx⟩ := h
  refine ⟨fun y => if y = x then (t.const + 1) / coeffOf x t.coeffs else 0, ?_⟩
  unfold PTerm.holds
  rw [evalL_single]
  have : coeffOf x t.coeffs * ((t.const + 1) / coeffOf x t.coeffs) = t.const + 1 := by field_simp
  rw [this]; linarith

theorem coeffOf_ne_zero_mem (x : Var) (l : Lin) (h : coeffOf x l ≠ 0) : x ∈ varsL l := by
  by_contra hn
  exact h (coeffOf_eq_zero_of_not_mem x l hn)

theorem TL.Proper.vars_ne_nil (l : TL) (h : l.Proper) (hl : l ≠ []) : l.vars ≠ [] := by
  cases l with
  | nil => exact absurd rfl hl
  | cons t l =>
    obtain ⟨x, hx⟩ := h t (by simp)
    intro e
    have : x ∈ TL.vars (t :: l) := (mem_TLvars _ _).mpr ⟨t, by simp, coeffOf_ne_zero_mem x _ hx⟩
    rw [e] at this; cases this

namespace Poly

/-- a term without variables holds at every point, or at none -/
theorem PTerm.holds_of_vars_nil (t : PTerm) (h : t.vars = []) (v : Val) : t.holds v ↔ 0 ≤ t.const := by
  have hc : t.coeffs = [] := by
    unfold PTerm.vars varsL at h
    exact List.map_eq_nil_iff.mp h
  simp [PTerm.holds, hc, evalL]

theorem TL.varfree_of_vars_nil (l : TL) (h : l.vars = []) : ∀ t ∈ l, t.vars = [] := by
  intro t ht
  cases hv : t.vars with
  | nil => rfl
  | cons x xs =>
    have : x ∈ l.vars := (mem_TLvars l x).mpr ⟨t, ht, by simp [hv]⟩
    rw [h] at this; cases this

/-- `hz`: when the matrix has no columns, the rows are variable-free (true at every call site: the column count is
    the number of variables of a list that contains the rows).  Since fix "is_polytope_empty … without columns" the
    no-column case answers by the signs of the constants. -/
theorem polyEmpty_true (O : Oracle) (hO : O.Certified) (rows : TL) (n : Nat)
    (hz : n = 0 → ∀ t ∈ rows, t.vars = [])
    (h : polyEmpty O rows n = .ok true) : ¬ ∃ v, TL.holds rows v := by
  unfold polyEmpty at h
  split at h; · cases h
  rename_i hr0
  split at h
  · rename_i h0
    have hn : n = 0 := by
      rcases Nat.mul_eq_zero.mp h0 with h1 | h1
      · exact absurd h1 hr0
      · exact h1
    simp only [Except.ok.injEq, Bool.and_eq_true, List.any_eq_true, decide_eq_true_eq] at h
    obtain ⟨_, t, ht, hneg⟩ := h
    rintro ⟨v, hv⟩
    have := (PTerm.holds_of_vars_nil t (hz hn t ht) v).mp (hv t ht)
    exact absurd hneg (by simpa [Rat.not_lt] using this)
  split at h
  · rename_i hlp; exact hO.inf _ _ hlp
  all_goals cases h

theorem nocols_left (l r : TL) (h : (Gen.list_union l.vars r.vars).length = 0) : ∀ t ∈ l, t.vars = [] := by
  apply TL.varfree_of_vars_nil
  have hn := List.length_eq_zero_iff.mp h
  cases hv : l.vars with
  | nil => rfl
  | cons x xs =>
    have : x ∈ Gen.list_union l.vars r.vars := (Gen.mem_list_union _ _ x).mpr (Or.inl (by simp [hv]))
    rw [hn] at this; cases this

theorem nocols_right (l r : TL) (h : (Gen.list_union l.vars r.vars).length = 0) : ∀ t ∈ r, t.vars = [] := by
  apply TL.varfree_of_vars_nil
  have hn := List.length_eq_zero_iff.mp h
  cases hv : r.vars with
  | nil => rfl
  | cons x xs =>
    have : x ∈ Gen.list_union l.vars r.vars := (Gen.mem_list_union _ _ x).mpr (Or.inr (by simp [hv]))
    rw [hn] at this; cases this

/-- the no-column case, other direction: variable-free rows with non-negative constants hold everywhere -/
theorem polyEmpty_false_nocols (hg : Gen.emptyNoColsBySign = true) (O : Oracle) (rows : TL) (hr : rows ≠ []) (hv : ∀ t ∈ rows, t.vars = [])
    (h : polyEmpty O rows 0 = .ok false) : ∀ v, TL.holds rows v := by
  unfold polyEmpty at h
  split at h
  · rename_i h0; exact absurd (List.length_eq_zero_iff.mp h0) hr
  simp only [Nat.mul_zero, ↓reduceIte, hg, Bool.true_and, Except.ok.injEq, List.any_eq_false, decide_eq_true_eq] at h
  intro v t ht
  exact (PTerm.holds_of_vars_nil t (hv t ht) v).mpr (by simpa [Rat.not_lt] using h t ht)

theorem polyEmpty_false (O : Oracle) (hO : O.Certified) (rows : TL) (n : Nat) (hr : rows ≠ []) (hn : n ≠ 0)
    (h : polyEmpty O rows n = .ok false) : ∃ v, TL.holds rows v := by
  unfold polyEmpty at h
  split at h
  · rename_i h0; exact absurd (List.length_eq_zero_iff.mp h0) hr
  split at h
  · rename_i _ h0
    rcases Nat.mul_eq_zero.mp h0 with h1 | h1
    · exact absurd (List.length_eq_zero_iff.mp h1) hr
    · exact absurd h1 hn
  split at h
  · cases h
  · rename_i m x hlp; exact ⟨_, (hO.opt _ _ _ _ hlp).1⟩
  · rename_i hlp; exact (hO.unb _ _ hlp).1
  · cases h

theorem holds_bump (t : PTerm) (v : Val) : (bump t).holds v ↔ evalL t.coeffs v ≤ t.const + 1 := by
  simp [bump, PTerm.holds]

theorem cmpTol_yes (tol m b : Rat) (h : cmpTol tol m b = .yes) : m ≤ b := by
  unfold cmpTol at h
  split at h
  · assumption
  · split at h <;> cases h

theorem rabs_nonneg (q : Rat) : 0 ≤ rabs q := by
  unfold rabs; split <;> linarith

theorem cmpTol_no (tol m b : Rat) (ht : 0 ≤ tol) (h : cmpTol tol m b = .no) : b < m := by
  unfold cmpTol at h
  split at h
  · cases h
  · split at h
    · cases h
    · rename_i h1 h2
      have := rabs_nonneg b
      nlinarith

theorem grayify_ne_yes (r : Except Err Verdict) : grayify r ≠ .ok .yes := by
  unfold grayify; split <;> simp_all

theorem grayify_no (r : Except Err Verdict) (h : grayify r = .ok .no) : r = .ok .no := by
  unfold grayify at h; split at h
  · cases h
  · exact h

/-- `verify_polytope_containment`'s loop answers `yes` only if every right-hand row holds on the left polytope -/
theorem containLoop_yes (O : Oracle) (hO : O.Certified) (l : TL) :
    ∀ r, containLoop O l r = .ok .yes → ∀ v, TL.holds l v → TL.holds r v := by
  intro r
  induction r with
  | nil => intro _ v _; exact TL.holds_nil v
  | cons t rest ih =>
    intro h v hv
    simp only [containLoop] at h
    split at h
    · cases h
    · rename_i m x hlp
      obtain ⟨hx, hxm, hmax⟩ := hO.opt _ _ _ _ hlp
      split at h
      · rename_i hc
        have hmb := cmpTol_yes _ _ _ hc
        rw [TL.holds_cons]
        refine ⟨?_, ih h v hv⟩
        have hxl := (TL.holds_append _ _ _).mp hx
        apply relax_by_one l t.coeffs t.const (valOf x) hxl.1 ?_ (by rw [hxm]; exact hmb) v hv
        intro z hz hz1
        rw [hxm]; apply hmax
        rw [TL.holds_append]; refine ⟨hz, ?_⟩
        intro q hq; simp only [List.mem_singleton] at hq; subst hq
        exact (holds_bump t z).mpr hz1
      · exact absurd h (grayify_ne_yes _)
      · cases h
    · cases h
    · cases h

/-- …and `no` only if some point of the left polytope violates a right-hand row (needs the left side satisfiable) -/
theorem containLoop_no (O : Oracle) (hO : O.Certified) (l : TL) (hsat : ∃ v, TL.holds l v) (htol : 0 ≤ Gen.containTol) :
    ∀ r, containLoop O l r = .ok .no → ∃ v, TL.holds l v ∧ ¬ TL.holds r v := by
  intro r
  induction r with
  | nil => intro h; simp [containLoop] at h
  | cons t rest ih =>
    intro h
    simp only [containLoop] at h
    split at h
    · rename_i hlp
      -- l ∧ (t ≤ b+1) is infeasible, l is not: every point of l violates t
      obtain ⟨v, hv⟩ := hsat
      refine ⟨v, hv, ?_⟩
      intro hr
      have ht : t.holds v := hr t (by simp)
      apply hO.inf _ _ hlp
      refine ⟨v, (TL.holds_append _ _ _).mpr ⟨hv, ?_⟩⟩
      intro q hq; simp only [List.mem_singleton] at hq; subst hq
      rw [holds_bump]; unfold PTerm.holds at ht; linarith
    · rename_i m x hlp
      obtain ⟨hx, hxm, _⟩ := hO.opt _ _ _ _ hlp
      have hxl := ((TL.holds_append _ _ _).mp hx).1
      split at h
      · obtain ⟨v, hv, hn⟩ := ih h
        exact ⟨v, hv, fun hr => hn (fun q hq => hr q (List.mem_cons_of_mem _ hq))⟩
      · obtain ⟨v, hv, hn⟩ := ih (grayify_no _ h)
        exact ⟨v, hv, fun hr => hn (fun q hq => hr q (List.mem_cons_of_mem _ hq))⟩
      · rename_i hc
        have := cmpTol_no _ _ _ htol hc
        refine ⟨valOf x, hxl, fun hr => ?_⟩
        have ht : t.holds (valOf x) := hr t (by simp)
        unfold PTerm.holds at ht; linarith
    · cases h
    · cases h

theorem refinesTL_yes (O : Oracle) (hO : O.Certified) (l r : TL) (h : refinesTL O l r = .ok .yes) :
    ∀ v, TL.holds l v → TL.holds r v := by
  unfold refinesTL at h
  split at h
  · rename_i h0
    have : r = [] := List.length_eq_zero_iff.mp h0
    subst this; intro v _; exact TL.holds_nil v
  split at h; · cases h
  simp only at h
  split at h
  · cases h
  · rename_i he; intro v hv; exact absurd ⟨v, hv⟩ (polyEmpty_true O hO _ _ (nocols_left l r) he)
  · split at h
    · cases h
    · cases h
    · exact containLoop_yes O hO l r h

theorem refinesTL_no (O : Oracle) (hO : O.Certified) (l r : TL) (hl : l.Proper) (hr : r.Proper)
    (htol : 0 ≤ Gen.containTol) (h : refinesTL O l r = .ok .no) :
    ∃ v, TL.holds l v ∧ ¬ TL.holds r v := by
  unfold refinesTL at h
  split at h; · cases h
  rename_i hr0
  have hrne : r ≠ [] := fun e => hr0 (by simp [e])
  split at h
  · -- l has no constraints, r is proper and non-empty
    cases r with
    | nil => exact absurd rfl hrne
    | cons t rest =>
      obtain ⟨v, hv⟩ := PTerm.Proper.exists_violation t (hr t (by simp))
      rename_i hl0
      have : l = [] := List.length_eq_zero_iff.mp hl0
      subst this
      exact ⟨v, TL.holds_nil v, fun hh => hv (hh t (by simp))⟩
  rename_i hl0
  have hlne : l ≠ [] := fun e => hl0 (by simp [e])
  have hm : (Gen.list_union l.vars r.vars).length ≠ 0 := by
    intro e
    have hnil := List.length_eq_zero_iff.mp e
    have hv := TL.Proper.vars_ne_nil l hl hlne
    cases hlv : l.vars with
    | nil => exact hv hlv
    | cons x xs =>
      have : x ∈ Gen.list_union l.vars r.vars := by simp [hlv]
      rw [hnil] at this; cases this
  simp only at h
  split at h
  · cases h
  · cases h
  · rename_i hle
    have hsat := polyEmpty_false O hO l _ hlne hm hle
    split at h
    · cases h
    · rename_i hre
      obtain ⟨v, hv⟩ := hsat
      exact ⟨v, hv, fun hh => polyEmpty_true O hO _ _ (nocols_right l r) hre ⟨v, hh⟩⟩
    · exact containLoop_no O hO l hsat htol r h

end Poly
