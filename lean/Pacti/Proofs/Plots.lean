import Pacti.Model.Plots
import Pacti.Proofs.Eval
import Mathlib.Tactic.Linarith
import Mathlib.Tactic.Ring
import Mathlib.Tactic.FieldSimp
import Mathlib.Tactic.LinearCombination
/-! Helper lemmas for C18: geometry of half-planes and corners, then the glue of `constraints_to_vertices`. -/

open Plots

/-! ### geometry -/

namespace HalfPlane

theorem inter_tight (h k : HalfPlane) (hd : det h k ≠ 0) : h.tight (inter h k) ∧ k.tight (inter h k) := by
  unfold tight lhs inter
  constructor
  · simp only
    field_simp
    unfold det; ring
  · simp only
    field_simp
    unfold det; ring

theorem tight_unique (h k : HalfPlane) (hd : det h k ≠ 0) (p : Rat × Rat) (h1 : h.tight p) (h2 : k.tight p) :
    p = inter h k := by
  unfold tight lhs at h1 h2
  unfold inter
  have e1 : p.1 = (h.c * k.b - k.c * h.b) / det h k := by
    rw [eq_div_iff hd]; unfold det; linear_combination k.b * h1 - h.b * h2
  have e2 : p.2 = (h.a * k.c - k.a * h.c) / det h k := by
    rw [eq_div_iff hd]; unfold det; linear_combination h.a * h2 - k.a * h1
  exact Prod.ext e1 e2

theorem det_swap (h k : HalfPlane) : det k h = - det h k := by unfold det; ring

end HalfPlane

namespace Plots

theorem mem_pairs_left {α : Type} (l : List α) (a b : α) (h : (a, b) ∈ pairs l) : a ∈ l ∧ b ∈ l := by
  induction l with
  | nil => simp [pairs] at h
  | cons c r ih =>
    simp only [pairs, List.mem_append, List.mem_map, Prod.mk.injEq] at h
    rcases h with ⟨b', hb', rfl, rfl⟩ | h
    · exact ⟨by simp, List.mem_cons_of_mem _ hb'⟩
    · exact ⟨List.mem_cons_of_mem _ (ih h).1, List.mem_cons_of_mem _ (ih h).2⟩

theorem mem_pairs_of_ne {α : Type} (l : List α) (a b : α) (ha : a ∈ l) (hb : b ∈ l) (hne : a ≠ b) :
    (a, b) ∈ pairs l ∨ (b, a) ∈ pairs l := by
  induction l with
  | nil => cases ha
  | cons c r ih =>
    simp only [pairs, List.mem_append, List.mem_map, Prod.mk.injEq]
    rcases List.mem_cons.mp ha with rfl | ha'
    · rcases List.mem_cons.mp hb with rfl | hb'
      · exact absurd rfl hne
      · exact Or.inl (Or.inl ⟨b, hb', rfl, rfl⟩)
    · rcases List.mem_cons.mp hb with rfl | hb'
      · exact Or.inr (Or.inl ⟨a, ha', rfl, rfl⟩)
      · rcases ih ha' hb' with h | h
        · exact Or.inl (Or.inr h)
        · exact Or.inr (Or.inr h)

theorem mem_dedupP (l : List (Rat × Rat)) (p : Rat × Rat) : p ∈ dedupP l ↔ p ∈ l := by
  induction l with
  | nil => simp [dedupP]
  | cons a r ih =>
    simp only [dedupP, List.mem_cons, List.mem_filter, bne_iff_ne, ne_eq, ih]
    constructor
    · rintro (h | ⟨h, _⟩)
      · exact Or.inl h
      · exact Or.inr h
    · rintro (h | h)
      · exact Or.inl h
      · by_cases e : p = a
        · exact Or.inl e
        · exact Or.inr ⟨h, e⟩

theorem dedupP_nodup (l : List (Rat × Rat)) : (dedupP l).Nodup := by
  induction l with
  | nil => simp [dedupP]
  | cons a r ih =>
    simp only [dedupP, List.nodup_cons, List.mem_filter, bne_iff_ne, ne_eq, not_true_eq_false, and_false,
      not_false_eq_true, true_and]
    exact ih.filter _

theorem feasible_iff (H : List HalfPlane) (p : Rat × Rat) : feasible H p = true ↔ ∀ h ∈ H, h.holds p := by
  simp [feasible]

/-! ### the glue: substitution -/


theorem substVal_holds (t : PTerm) (x : Var) (a : Rat) (v : Val) :
    (substVal t x a).holds v ↔ t.holds (Function.update v x a) := by
  unfold substVal
  split
  · unfold PTerm.holds PTerm.coeff
    simp only
    rw [evalL_filter_ne, evalL_update]
    constructor <;> intro h <;> linarith
  · rename_i h
    have hx : x ∉ varsL t.coeffs := by simpa [PTerm.containsVar, PTerm.vars] using h
    unfold PTerm.holds
    rw [evalL_update, coeffOf_eq_zero_of_not_mem x _ hx]; simp

theorem substAll_cons (t : PTerm) (p : Var × Rat) (b : List (Var × Rat)) :
    substAll t (p :: b) = substAll (substVal t p.1 p.2) b := by simp [substAll]

theorem substAll_holds (t : PTerm) (b : List (Var × Rat)) (v : Val) :
    (substAll t b).holds v ↔ t.holds (override v b) := by
  induction b generalizing t with
  | nil => simp [substAll, override]
  | cons p b ih => rw [substAll_cons, ih, substVal_holds]; rfl

theorem substVal_vars (t : PTerm) (x : Var) (a : Rat) (y : Var) :
    y ∈ (substVal t x a).vars ↔ y ∈ t.vars ∧ y ≠ x := by
  unfold substVal
  split
  · simp only [PTerm.vars, varsL, List.mem_map, List.mem_filter, bne_iff_ne, ne_eq]
    constructor
    · rintro ⟨p, ⟨hp, hne⟩, rfl⟩; exact ⟨⟨p, hp, rfl⟩, hne⟩
    · rintro ⟨⟨p, hp, rfl⟩, hne⟩; exact ⟨p, ⟨hp, hne⟩, rfl⟩
  · rename_i hc
    constructor
    · intro h; refine ⟨h, ?_⟩; rintro rfl; apply hc; simpa [PTerm.containsVar] using h
    · exact fun h => h.1

theorem substAll_vars (t : PTerm) (b : List (Var × Rat)) (y : Var) :
    y ∈ (substAll t b).vars ↔ y ∈ t.vars ∧ y ∉ b.map (·.1) := by
  induction b generalizing t with
  | nil => simp [substAll]
  | cons p b ih =>
    rw [substAll_cons, ih, substVal_vars]
    simp only [List.map_cons, List.mem_cons, not_or]
    tauto

theorem substVal_nodup (t : PTerm) (x : Var) (a : Rat) (h : t.vars.Nodup) : (substVal t x a).vars.Nodup := by
  unfold substVal
  split
  · simp only [PTerm.vars, varsL] at h ⊢
    exact h.sublist ((List.filter_sublist).map _)
  · exact h

theorem substAll_nodup (t : PTerm) (b : List (Var × Rat)) (h : t.vars.Nodup) : (substAll t b).vars.Nodup := by
  induction b generalizing t with
  | nil => simpa [substAll] using h
  | cons p b ih => rw [substAll_cons]; exact ih _ (substVal_nodup _ _ _ h)

theorem substituteIn_mem (l : TL) (vals : List (Var × Rat)) (r : TL) (h : substituteIn l vals = .ok r) (t' : PTerm) :
    t' ∈ r ↔ ∃ t ∈ l, t' = substAll t vals ∧ (substAll t vals).vars ≠ [] := by
  induction l generalizing r with
  | nil => simp [substituteIn] at h; subst h; simp
  | cons t l ih =>
    simp only [substituteIn] at h
    split at h
    · rename_i hv
      split at h
      · cases h
      · rw [ih r h]
        simp only [List.mem_cons, exists_eq_or_imp]
        constructor
        · intro hh; exact Or.inr hh
        · rintro (⟨_, hne⟩ | hh)
          · exact absurd (List.isEmpty_iff.mp hv) hne
          · exact hh
    · rename_i hv
      split at h
      · rename_i r' hr'
        cases h
        simp only [List.mem_cons, exists_eq_or_imp, ih r' hr']
        constructor
        · rintro (rfl | hh)
          · exact Or.inl ⟨rfl, fun e => hv (List.isEmpty_iff.mpr e)⟩
          · exact Or.inr hh
        · rintro (⟨rfl, _⟩ | hh)
          · exact Or.inl rfl
          · exact Or.inr hh
      · cases h

theorem holds_of_vars_nil (t : PTerm) (h : t.vars = []) (v : Val) : t.holds v ↔ ¬ t.const < 0 := by
  have : t.coeffs = [] := by simpa [PTerm.vars, varsL] using h
  unfold PTerm.holds; rw [this]; simp [evalL]

theorem substituteIn_holds (l : TL) (vals : List (Var × Rat)) (r : TL) (h : substituteIn l vals = .ok r) (v : Val) :
    TL.holds r v ↔ TL.holds l (override v vals) := by
  induction l generalizing r with
  | nil => simp [substituteIn] at h; subst h; simp [TL.holds]
  | cons t l ih =>
    simp only [substituteIn] at h
    rw [TL.holds_cons, ← substAll_holds]
    split at h
    · rename_i hv
      have hv' := List.isEmpty_iff.mp hv
      split at h
      · cases h
      · rename_i hc
        rw [ih r h, holds_of_vars_nil _ hv']
        exact ⟨fun hh => ⟨hc, hh⟩, fun hh => hh.2⟩
    · split at h
      · rename_i r' hr'
        cases h
        rw [TL.holds_cons, ih r' hr']
      · cases h

theorem substituteIn_err (l : TL) (vals : List (Var × Rat)) (e : Err) :
    substituteIn l vals = .error e ↔
      e = .valueError ∧ ∃ t ∈ l, (substAll t vals).vars = [] ∧ (substAll t vals).const < 0 := by
  induction l with
  | nil => simp [substituteIn]
  | cons t l ih =>
    simp only [substituteIn, List.mem_cons, exists_eq_or_imp]
    split
    · rename_i hv
      have hv' := List.isEmpty_iff.mp hv
      split
      · rename_i hc
        constructor
        · intro h; cases h; exact ⟨rfl, Or.inl ⟨hv', hc⟩⟩
        · rintro ⟨rfl, _⟩; rfl
      · rename_i hc
        rw [ih]
        constructor
        · rintro ⟨rfl, hh⟩; exact ⟨rfl, Or.inr hh⟩
        · rintro ⟨rfl, (⟨_, hc'⟩ | hh)⟩
          · exact absurd hc' hc
          · exact ⟨rfl, hh⟩
    · rename_i hv
      have hv' : (substAll t vals).vars ≠ [] := fun e => hv (List.isEmpty_iff.mpr e)
      split
      · rename_i r' hr'
        constructor
        · intro h; cases h
        · rintro ⟨rfl, (⟨hvn, _⟩ | hh)⟩
          · exact absurd hvn hv'
          · have := ih.mpr ⟨rfl, hh⟩; rw [hr'] at this; cases this
      · rename_i e' he'
        constructor
        · intro h; cases h
          obtain ⟨rfl, hh⟩ := ih.mp he'
          exact ⟨rfl, Or.inr hh⟩
        · rintro ⟨rfl, (⟨hvn, _⟩ | hh)⟩
          · exact absurd hvn hv'
          · have := ih.mpr ⟨rfl, hh⟩; rw [he'] at this; cases this; rfl
/-! ### the glue: the two-column system -/


theorem TLvars_nodup_aux (l : TL) (acc : List Var) (hacc : acc.Nodup) (h : ∀ t ∈ l, t.vars.Nodup) :
    (l.foldl (fun acc t => Gen.list_union acc t.vars) acc).Nodup := by
  induction l generalizing acc with
  | nil => simpa using hacc
  | cons t l ih =>
    simp only [List.foldl_cons]
    exact ih _ (Gen.list_union_nodup _ _ hacc (h t (by simp))) (fun t' ht' => h t' (List.mem_cons_of_mem _ ht'))

theorem TLvars_nodup (l : TL) (h : ∀ t ∈ l, t.vars.Nodup) : l.vars.Nodup :=
  TLvars_nodup_aux l [] List.nodup_nil h

/-- a duplicate-free list of at least two variables, all of them `x` or `y`, is `[x, y]` or `[y, x]` -/
theorem two_vars_shape (x y v0 v1 : Var) (r : List Var) (hn : (v0 :: v1 :: r).Nodup)
    (hsub : ∀ z ∈ v0 :: v1 :: r, z = x ∨ z = y) :
    r = [] ∧ x ≠ y ∧ ((v0 = x ∧ v1 = y) ∨ (v0 = y ∧ v1 = x)) := by
  have h0 := hsub v0 (by simp)
  have h1 := hsub v1 (by simp)
  simp only [List.nodup_cons, List.mem_cons, not_or] at hn
  obtain ⟨⟨h01, h0r⟩, h1r, _⟩ := hn
  have hr : r = [] := by
    cases r with
    | nil => rfl
    | cons v2 r' =>
      have h2 := hsub v2 (by simp)
      have a : v0 ≠ v2 := fun e => h0r (by simp [e])
      have b : v1 ≠ v2 := fun e => h1r (by simp [e])
      rcases h0 with rfl | rfl <;> rcases h1 with rfl | rfl <;> rcases h2 with rfl | rfl <;> simp_all
  refine ⟨hr, ?_, ?_⟩
  · rintro rfl; rcases h0 with rfl | rfl <;> rcases h1 with rfl | rfl <;> exact h01 rfl
  · rcases h0 with rfl | rfl <;> rcases h1 with rfl | rfl
    · exact absurd rfl h01
    · exact Or.inl ⟨rfl, rfl⟩
    · exact Or.inr ⟨rfl, rfl⟩
    · exact absurd rfl h01

theorem evalL_two (l : Lin) (x y : Var) (hxy : x ≠ y) (h : ∀ z ∈ varsL l, z = x ∨ z = y) (v : Val) :
    evalL l v = coeffOf x l * v x + coeffOf y l * v y := by
  induction l with
  | nil => simp [evalL, coeffOf]
  | cons p l ih =>
    have ih' := ih (fun z hz => h z (by simp only [varsL, List.map_cons, List.mem_cons] at hz ⊢; exact Or.inr hz))
    simp only [evalL, coeffOf, ih']
    rcases h p.1 (by simp [varsL]) with e | e
    · simp only [e, ↓reduceIte, hxy]; ring
    · simp only [e, ↓reduceIte, hxy.symm]; ring

def hpOf (x y : Var) (t : PTerm) : HalfPlane := ⟨t.coeff x, t.coeff y, t.const⟩

theorem hpOf_holds (x y : Var) (hxy : x ≠ y) (t : PTerm) (h : ∀ z ∈ t.vars, z = x ∨ z = y) (v : Val) :
    (hpOf x y t).holds (v x, v y) ↔ t.holds v := by
  unfold HalfPlane.holds HalfPlane.lhs hpOf PTerm.holds PTerm.coeff
  rw [evalL_two t.coeffs x y hxy h v]

theorem any_key_iff (vals : List (Var × Rat)) (x : Var) :
    (vals.any (fun p => p.1 == x)) = true ↔ x ∈ vals.map (·.1) := by
  simp only [List.any_eq_true, beq_iff_eq, List.mem_map]

theorem boundary_vars (x y : Var) (xl yl : Rat × Rat) (t : PTerm) (ht : t ∈ boundary x y xl yl) :
    t.vars = [x] ∨ t.vars = [y] := by
  simp only [boundary, List.mem_cons, List.not_mem_nil, or_false] at ht
  rcases ht with rfl | rfl | rfl | rfl <;> simp [PTerm.vars, varsL]

theorem plotSystem'_ok (l : TL) (x y : Var) (vals : List (Var × Rat)) (xl yl : Rat × Rat)
    (H : List HalfPlane) (sw : Bool) (hdict : ∀ t ∈ l, t.vars.Nodup)
    (h : plotSystem' l x y vals xl yl = .ok (H, sw)) :
    x ≠ y ∧ x ∉ vals.map (·.1) ∧ y ∉ vals.map (·.1) ∧
    (∀ z ∈ l.vars, z = x ∨ z = y ∨ z ∈ vals.map (·.1)) ∧
    ∃ plotTl, substituteIn (Gen.list_union l (boundary x y xl yl)) vals = .ok plotTl ∧
      (∀ t ∈ plotTl, ∀ z ∈ t.vars, z = x ∨ z = y) ∧ H = plotTl.map (hpOf x y) := by
  unfold plotSystem' at h
  split at h
  · cases h
  rename_i hx
  split at h
  · cases h
  rename_i hy
  split at h
  · cases h
  rename_i hd
  simp only at h
  split at h
  · cases h
  rename_i plotTl hs
  split at h
  · cases h
  rename_i hassert
  have hsub : ∀ z ∈ plotTl.vars, z = x ∨ z = y := by
    have := (Gen.list_diff_isEmpty_iff _ _).mp (by simpa using hassert)
    intro z hz; simpa using this z hz
  have hnd : plotTl.vars.Nodup := by
    apply TLvars_nodup
    intro t' ht'
    obtain ⟨t, ht, rfl, _⟩ := (substituteIn_mem _ _ _ hs t').mp ht'
    apply substAll_nodup
    rcases (Gen.mem_list_union _ _ _).mp ht with h1 | h1
    · exact hdict t h1
    · rcases boundary_vars _ _ _ _ _ h1 with e | e <;> simp [e]
  have hcov : ∀ z ∈ l.vars, z = x ∨ z = y ∨ z ∈ vals.map (·.1) := by
    have := (Gen.list_diff_isEmpty_iff _ _).mp (by simpa using hd)
    intro z hz; simpa [or_assoc] using this z hz
  have hxk : x ∉ vals.map (·.1) := fun hm => hx ((any_key_iff _ _).mpr hm)
  have hyk : y ∉ vals.map (·.1) := fun hm => hy ((any_key_iff _ _).mpr hm)
  have hrows : ∀ t ∈ plotTl, ∀ z ∈ t.vars, z = x ∨ z = y := fun t ht z hz =>
    hsub z ((mem_TLvars _ _).mpr ⟨t, ht, hz⟩)
  split at h
  · cases h
  rename_i v0 rest hvs
  rw [hvs] at hnd hsub
  split at h
  · rename_i hv0
    split at h
    · cases h
    rename_i hrest
    cases rest with
    | nil => simp at hrest
    | cons v1 r =>
      obtain ⟨hr, hxy, hsh⟩ := two_vars_shape x y v0 v1 r hnd hsub
      subst hr
      have hv1 : v1 = x := by
        rcases hsh with ⟨a, b⟩ | ⟨_, b⟩
        · exact absurd (a.symm.trans hv0) hxy
        · exact b
      subst hv0 hv1
      refine ⟨hxy, hxk, hyk, hcov, plotTl, hs, hrows, ?_⟩
      simp only [Except.ok.injEq, Prod.mk.injEq, hvs] at h
      rw [← h.1]
      simp [List.map_map, hpOf, toHalfPlane, swap01, Function.comp_def]
  · rename_i hv0
    split at h
    · cases h
    rename_i hrest
    cases rest with
    | nil => simp at hrest
    | cons v1 r =>
      obtain ⟨hr, hxy, hsh⟩ := two_vars_shape x y v0 v1 r hnd hsub
      subst hr
      rcases hsh with ⟨a, b⟩ | ⟨a, _⟩
      · subst a b
        refine ⟨hxy, hxk, hyk, hcov, plotTl, hs, hrows, ?_⟩
        simp only [Except.ok.injEq, Prod.mk.injEq, hvs] at h
        rw [← h.1]
        simp [List.map_map, hpOf, toHalfPlane, Function.comp_def]
      · exact absurd a hv0

theorem override_of_not_mem (v : Val) (b : List (Var × Rat)) (x : Var) (h : x ∉ b.map (·.1)) :
    override v b x = v x := by
  induction b with
  | nil => rfl
  | cons p b ih =>
    simp only [List.map_cons, List.mem_cons, not_or] at h
    simp only [override]
    rw [Function.update_of_ne h.1, ih h.2]

theorem boundary_holds (x y : Var) (xl yl : Rat × Rat) (w : Val) :
    TL.holds (boundary x y xl yl) w ↔ xl.1 ≤ w x ∧ w x ≤ xl.2 ∧ yl.1 ≤ w y ∧ w y ≤ yl.2 := by
  simp only [boundary, TL.holds_cons, PTerm.holds, evalL]
  constructor
  · rintro ⟨a, b, c, d, _⟩; refine ⟨?_, ?_, ?_, ?_⟩ <;> linarith
  · rintro ⟨a, b, c, d⟩; refine ⟨?_, ?_, ?_, ?_, TL.holds_nil _⟩ <;> linarith

theorem plotSystem_ok_iff (l : TL) (x y : Var) (vals : List (Var × Rat)) (xl yl : Rat × Rat) (H : List HalfPlane) :
    plotSystem l x y vals xl yl = .ok H ↔ ∃ sw, plotSystem' l x y vals xl yl = .ok (H, sw) := by
  unfold plotSystem
  cases h : plotSystem' l x y vals xl yl with
  | error e => simp [Except.map]
  | ok r =>
    obtain ⟨H', sw⟩ := r
    simp [Except.map]

theorem plotSystem_err_iff (l : TL) (x y : Var) (vals : List (Var × Rat)) (xl yl : Rat × Rat) (e : Err) :
    plotSystem l x y vals xl yl = .error e ↔ plotSystem' l x y vals xl yl = .error e := by
  unfold plotSystem
  cases h : plotSystem' l x y vals xl yl with
  | error e => simp [Except.map]
  | ok r => simp [Except.map]

theorem glue_sem_aux (l : TL) (x y : Var) (vals : List (Var × Rat)) (xl yl : Rat × Rat) (H : List HalfPlane)
    (hdict : ∀ t ∈ l, t.vars.Nodup) (h : plotSystem l x y vals xl yl = .ok H) (v : Val) :
    (∀ hp ∈ H, hp.holds (v x, v y)) ↔
      TL.holds l (override v vals) ∧ xl.1 ≤ v x ∧ v x ≤ xl.2 ∧ yl.1 ≤ v y ∧ v y ≤ yl.2 := by
  obtain ⟨sw, h'⟩ := (plotSystem_ok_iff _ _ _ _ _ _ _).mp h
  obtain ⟨hxy, hxk, hyk, _, plotTl, hs, hrows, rfl⟩ := plotSystem'_ok l x y vals xl yl H sw hdict h'
  have e1 : (∀ hp ∈ plotTl.map (hpOf x y), hp.holds (v x, v y)) ↔ TL.holds plotTl v := by
    simp only [List.mem_map, forall_exists_index, and_imp, forall_apply_eq_imp_iff₂]
    unfold TL.holds
    constructor
    · intro hh t ht; exact (hpOf_holds x y hxy t (hrows t ht) v).mp (hh t ht)
    · intro hh t ht; exact (hpOf_holds x y hxy t (hrows t ht) v).mpr (hh t ht)
  rw [e1, substituteIn_holds _ _ _ hs]
  have e2 : TL.holds (Gen.list_union l (boundary x y xl yl)) (override v vals) ↔
      TL.holds l (override v vals) ∧ TL.holds (boundary x y xl yl) (override v vals) := by
    unfold TL.holds
    simp only [Gen.mem_list_union]
    constructor
    · intro hh; exact ⟨fun t ht => hh t (Or.inl ht), fun t ht => hh t (Or.inr ht)⟩
    · rintro ⟨a, b⟩ t (ht | ht)
      · exact a t ht
      · exact b t ht
  rw [e2, boundary_holds, override_of_not_mem v vals x hxk, override_of_not_mem v vals y hyk]

/-- a boundary row keeps its variable under the substitution when that variable has no value -/
theorem boundary_survives (x y : Var) (xl yl : Rat × Rat) (vals : List (Var × Rat))
    (hxk : x ∉ vals.map (·.1)) (hyk : y ∉ vals.map (·.1)) (t : PTerm) (ht : t ∈ boundary x y xl yl) :
    (substAll t vals).vars ≠ [] := by
  intro e
  rcases boundary_vars x y xl yl t ht with hv | hv
  · have : x ∈ (substAll t vals).vars := (substAll_vars t vals x).mpr ⟨by simp [hv], hxk⟩
    rw [e] at this; cases this
  · have : y ∈ (substAll t vals).vars := (substAll_vars t vals y).mpr ⟨by simp [hv], hyk⟩
    rw [e] at this; cases this

theorem glue_errors_aux (l : TL) (x y : Var) (vals : List (Var × Rat)) (xl yl : Rat × Rat) (hxy : x ≠ y) (e : Err) :
    plotSystem l x y vals xl yl = .error e ↔
      e = .valueError ∧
        (x ∈ vals.map (·.1) ∨ y ∈ vals.map (·.1) ∨
         (∃ z ∈ l.vars, z ≠ x ∧ z ≠ y ∧ z ∉ vals.map (·.1)) ∨
         (∃ t ∈ l, (substAll t vals).vars = [] ∧ (substAll t vals).const < 0)) := by
  rw [plotSystem_err_iff]
  unfold plotSystem'
  by_cases hx : x ∈ vals.map (·.1)
  · have := (any_key_iff vals x).mpr hx
    simp only [this, ↓reduceIte]
    constructor
    · intro h; cases h; exact ⟨rfl, Or.inl hx⟩
    · rintro ⟨rfl, _⟩; rfl
  have hx' : ¬ (vals.any fun p => p.1 == x) = true := fun h => hx ((any_key_iff vals x).mp h)
  simp only [hx', hx, false_or]
  by_cases hy : y ∈ vals.map (·.1)
  · have := (any_key_iff vals y).mpr hy
    simp only [this, ↓reduceIte]
    constructor
    · intro h; cases h; exact ⟨rfl, Or.inl hy⟩
    · rintro ⟨rfl, _⟩; rfl
  have hy' : ¬ (vals.any fun p => p.1 == y) = true := fun h => hy ((any_key_iff vals y).mp h)
  simp only [hy', hy, false_or]
  by_cases hd : (Gen.list_diff l.vars (Gen.list_union [x, y] (vals.map (·.1)))).isEmpty = true
  · have hcov : ∀ z ∈ l.vars, z = x ∨ z = y ∨ z ∈ vals.map (·.1) := by
      have := (Gen.list_diff_isEmpty_iff _ _).mp hd
      intro z hz; simpa [or_assoc] using this z hz
    have hnomiss : ¬ ∃ z ∈ l.vars, z ≠ x ∧ z ≠ y ∧ z ∉ vals.map (·.1) := by
      rintro ⟨z, hz, a, b, c⟩
      rcases hcov z hz with h | h | h
      · exact a h
      · exact b h
      · exact c h
    simp only [hd, Bool.not_true, Bool.false_eq_true, ↓reduceIte, hnomiss, false_or]
    cases hs : substituteIn (Gen.list_union l (boundary x y xl yl)) vals with
    | error e' =>
      simp only
      obtain ⟨rfl, t, ht, hv, hc⟩ := (substituteIn_err _ _ _).mp hs
      have htl : t ∈ l := by
        rcases (Gen.mem_list_union _ _ _).mp ht with h | h
        · exact h
        · exact absurd hv (boundary_survives x y xl yl vals hx hy t h)
      constructor
      · intro h; cases h; exact ⟨rfl, t, htl, hv, hc⟩
      · rintro ⟨rfl, _⟩; rfl
    | ok plotTl =>
      simp only
      -- no row of `l` becomes a violated constant
      have hnoviol : ¬ ∃ t ∈ l, (substAll t vals).vars = [] ∧ (substAll t vals).const < 0 := by
        rintro ⟨t, ht, hv, hc⟩
        have := (substituteIn_err (Gen.list_union l (boundary x y xl yl)) vals .valueError).mpr
          ⟨rfl, t, (Gen.mem_list_union _ _ _).mpr (Or.inl ht), hv, hc⟩
        rw [hs] at this; cases this
      -- the assertion holds
      have hsub : ∀ z ∈ plotTl.vars, z = x ∨ z = y := by
        intro z hz
        obtain ⟨t', ht', hz'⟩ := (mem_TLvars _ _).mp hz
        obtain ⟨t, ht, rfl, _⟩ := (substituteIn_mem _ _ _ hs t').mp ht'
        obtain ⟨hzt, hzk⟩ := (substAll_vars t vals z).mp hz'
        rcases (Gen.mem_list_union _ _ _).mp ht with h | h
        · rcases hcov z ((mem_TLvars _ _).mpr ⟨t, h, hzt⟩) with a | a | a
          · exact Or.inl a
          · exact Or.inr a
          · exact absurd a hzk
        · rcases boundary_vars x y xl yl t h with hv | hv
          · rw [hv] at hzt; exact Or.inl (by simpa using hzt)
          · rw [hv] at hzt; exact Or.inr (by simpa using hzt)
      have hassert : (Gen.list_diff plotTl.vars [x, y]).isEmpty = true := by
        apply (Gen.list_diff_isEmpty_iff _ _).mpr
        intro z hz; simpa using hsub z hz
      -- both plot variables occur
      have hmem : ∀ (b : PTerm) (u : Var), b ∈ boundary x y xl yl → b.vars = [u] → u ∉ vals.map (·.1) →
          u ∈ plotTl.vars := by
        intro b u hb hbv hu
        have hin : substAll b vals ∈ plotTl :=
          (substituteIn_mem _ _ _ hs _).mpr ⟨b, (Gen.mem_list_union _ _ _).mpr (Or.inr hb), rfl,
            boundary_survives x y xl yl vals hx hy b hb⟩
        exact (mem_TLvars _ _).mpr ⟨_, hin, (substAll_vars b vals u).mpr ⟨by simp [hbv], hu⟩⟩
      have hxin : x ∈ plotTl.vars := hmem ⟨[(x, 1)], xl.2⟩ x (by simp [boundary]) (by simp [PTerm.vars, varsL]) hx
      have hyin : y ∈ plotTl.vars := hmem ⟨[(y, 1)], yl.2⟩ y (by simp [boundary]) (by simp [PTerm.vars, varsL]) hy
      simp only [hassert, Bool.not_true, Bool.false_eq_true, ↓reduceIte, hnoviol, and_false, iff_false]
      cases hvs : plotTl.vars with
      | nil => rw [hvs] at hxin; cases hxin
      | cons v0 rest =>
        rw [hvs] at hxin hyin
        simp only
        cases rest with
        | nil =>
          simp only [List.mem_singleton] at hxin hyin
          exact absurd (hxin.trans hyin.symm) hxy
        | cons v1 r =>
          by_cases hv0 : v0 = y
          · simp [hv0]
          · simp [hv0]
  · have hmiss : ∃ z ∈ l.vars, z ≠ x ∧ z ≠ y ∧ z ∉ vals.map (·.1) := by
      by_contra hn
      apply hd
      apply (Gen.list_diff_isEmpty_iff _ _).mpr
      intro z hz
      by_contra hz'
      simp only [Gen.mem_list_union, List.mem_cons, List.not_mem_nil, or_false, not_or] at hz'
      exact hn ⟨z, hz, hz'.1.1, hz'.1.2, hz'.2⟩
    simp only [hd, Bool.not_false, ↓reduceIte]
    constructor
    · intro h; cases h; exact ⟨rfl, Or.inl hmiss⟩
    · rintro ⟨rfl, _⟩; rfl
/-! ### a bounded non-empty polygon has a corner -/


theorem exists_argmin {α : Type} (L : List α) (P : α → Prop) (f : α → Rat) (h : ∃ a ∈ L, P a) :
    ∃ a ∈ L, P a ∧ ∀ b ∈ L, P b → f a ≤ f b := by
  induction L with
  | nil => obtain ⟨a, ha, _⟩ := h; cases ha
  | cons c r ih =>
    by_cases hr : ∃ a ∈ r, P a
    · obtain ⟨a, ha, hPa, hmin⟩ := ih hr
      by_cases hc : P c ∧ f c < f a
      · refine ⟨c, by simp, hc.1, ?_⟩
        intro b hb hPb
        rcases List.mem_cons.mp hb with rfl | hb'
        · exact le_refl _
        · exact le_trans hc.2.le (hmin b hb' hPb)
      · refine ⟨a, List.mem_cons_of_mem _ ha, hPa, ?_⟩
        intro b hb hPb
        rcases List.mem_cons.mp hb with rfl | hb'
        · by_contra hlt
          exact hc ⟨hPb, lt_of_not_ge hlt⟩
        · exact hmin b hb' hPb
    · obtain ⟨a, ha, hPa⟩ := h
      rcases List.mem_cons.mp ha with rfl | ha'
      · refine ⟨a, by simp, hPa, ?_⟩
        intro b hb hPb
        rcases List.mem_cons.mp hb with rfl | hb'
        · exact le_refl _
        · exact absurd ⟨b, hb', hPb⟩ hr
      · exact absurd ⟨a, ha', hPa⟩ hr

def dot (h : HalfPlane) (d : Rat × Rat) : Rat := h.a * d.1 + h.b * d.2

theorem lhs_move (h : HalfPlane) (p d : Rat × Rat) (t : Rat) :
    h.lhs (p.1 + t * d.1, p.2 + t * d.2) = h.lhs p + t * dot h d := by
  unfold HalfPlane.lhs dot; ring

/-- slide a feasible point along `d` until a row with positive slope along `d` becomes tight -/
theorem slide (H : List HalfPlane) (p d : Rat × Rat) (hp : ∀ h ∈ H, h.holds p) (hd : ∃ h ∈ H, 0 < dot h d) :
    ∃ t : Rat, 0 ≤ t ∧ ∃ h ∈ H, 0 < dot h d ∧ h.tight (p.1 + t * d.1, p.2 + t * d.2) ∧
      ∀ k ∈ H, k.holds (p.1 + t * d.1, p.2 + t * d.2) := by
  obtain ⟨h, hm, hpos, hmin⟩ := exists_argmin H (fun h => 0 < dot h d) (fun h => (h.c - h.lhs p) / dot h d) hd
  have hge : 0 ≤ (h.c - h.lhs p) / dot h d := by
    apply div_nonneg _ hpos.le
    have := hp h hm; unfold HalfPlane.holds at this; linarith
  refine ⟨(h.c - h.lhs p) / dot h d, hge, h, hm, hpos, ?_, ?_⟩
  · unfold HalfPlane.tight
    rw [lhs_move, div_mul_cancel₀ _ hpos.ne']; ring
  · intro k hk
    unfold HalfPlane.holds
    rw [lhs_move]
    have hkp := hp k hk; unfold HalfPlane.holds at hkp
    by_cases hkd : 0 < dot k d
    · have h1 := hmin k hk hkd
      have : (h.c - h.lhs p) / dot h d * dot k d ≤ (k.c - k.lhs p) / dot k d * dot k d :=
        mul_le_mul_of_nonneg_right h1 hkd.le
      rw [div_mul_cancel₀ _ hkd.ne'] at this
      linarith
    · have : (h.c - h.lhs p) / dot h d * dot k d ≤ 0 :=
        mul_nonpos_of_nonneg_of_nonpos hge (not_lt.mp hkd)
      linarith

/-- `H` bounds every direction: along every non-zero `d` some row eventually stops the motion -/
def Bounded (H : List HalfPlane) : Prop := ∀ d : Rat × Rat, d ≠ (0, 0) → ∃ h ∈ H, 0 < dot h d

theorem bounded_of_box (H : List HalfPlane) (c1 c2 c3 c4 : Rat)
    (h1 : (⟨1, 0, c1⟩ : HalfPlane) ∈ H) (h2 : (⟨-1, 0, c2⟩ : HalfPlane) ∈ H)
    (h3 : (⟨0, 1, c3⟩ : HalfPlane) ∈ H) (h4 : (⟨0, -1, c4⟩ : HalfPlane) ∈ H) : Bounded H := by
  intro d hd
  rcases lt_trichotomy d.1 0 with hx | hx | hx
  · exact ⟨_, h2, by unfold dot; simp only; linarith⟩
  · rcases lt_trichotomy d.2 0 with hy | hy | hy
    · exact ⟨_, h4, by unfold dot; simp only; linarith⟩
    · exact absurd (Prod.ext hx hy) hd
    · exact ⟨_, h3, by unfold dot; simp only; linarith⟩
  · exact ⟨_, h1, by unfold dot; simp only; linarith⟩

theorem exists_corner (H : List HalfPlane) (hb : Bounded H) (p : Rat × Rat) (hp : ∀ h ∈ H, h.holds p) :
    ∃ q, (∀ h ∈ H, h.holds q) ∧ ∃ h₁ ∈ H, ∃ h₂ ∈ H, ¬ HalfPlane.parallel h₁ h₂ ∧ h₁.tight q ∧ h₂.tight q := by
  obtain ⟨t1, _, h1, m1, hpos1, ht1, hf1⟩ := slide H p (1, 0) hp (hb (1, 0) (by simp))
  have ha : 0 < h1.a := by simpa [dot] using hpos1
  have hd2 : ((-h1.b, h1.a) : Rat × Rat) ≠ (0, 0) := by
    intro e; have := (Prod.ext_iff.mp e).2; simp only at this; linarith
  obtain ⟨t2, _, h2, m2, hpos2, ht2, hf2⟩ := slide H _ (-h1.b, h1.a) hf1 (hb _ hd2)
  refine ⟨_, hf2, h1, m1, h2, m2, ?_, ?_, ht2⟩
  · unfold HalfPlane.parallel HalfPlane.det
    unfold dot at hpos2; simp only at hpos2
    intro e; linarith
  · unfold HalfPlane.tight at ht1 ⊢
    rw [lhs_move, ht1]; unfold dot; simp only; ring
/-! ### the angular comparator is a total preorder -/


theorem angClass_spec (d : Rat × Rat) :
    (d.2 < 0 ∧ angClass d = 0) ∨ (0 < d.2 ∧ angClass d = 2) ∨ (d.2 = 0 ∧ d.1 < 0 ∧ angClass d = 3) ∨
      (d.2 = 0 ∧ 0 ≤ d.1 ∧ angClass d = 1) := by
  unfold angClass
  by_cases h1 : d.2 < 0
  · simp [h1]
  · by_cases h2 : 0 < d.2
    · simp [h1, h2]
    · have h0 : d.2 = 0 := le_antisymm (not_lt.mp h2) (not_lt.mp h1)
      by_cases h3 : d.1 < 0
      · simp [h0, h3]
      · simp [h0, h3, not_lt.mp h3]

theorem angLe_iff (d e : Rat × Rat) :
    angLe d e = true ↔ angClass d < angClass e ∨ (angClass d = angClass e ∧ 0 ≤ cross d e) := by
  simp [angLe]

theorem cross_antisymm (d e : Rat × Rat) : cross e d = - cross d e := by unfold cross; ring

theorem angLe_total_aux (d e : Rat × Rat) : angLe d e = true ∨ angLe e d = true := by
  rw [angLe_iff, angLe_iff, cross_antisymm d e]
  rcases Nat.lt_trichotomy (angClass d) (angClass e) with h | h | h
  · exact Or.inl (Or.inl h)
  · rcases le_total 0 (cross d e) with hc | hc
    · exact Or.inl (Or.inr ⟨h, hc⟩)
    · exact Or.inr (Or.inr ⟨h.symm, by linarith⟩)
  · exact Or.inr (Or.inl h)

theorem cross_trans_neg (d e f : Rat × Rat) (sd : d.2 < 0) (se : e.2 < 0) (sf : f.2 < 0)
    (A : 0 ≤ d.1 * e.2 - d.2 * e.1) (B : 0 ≤ e.1 * f.2 - e.2 * f.1) : 0 ≤ d.1 * f.2 - d.2 * f.1 := by
  by_contra hG
  have hG' : d.1 * f.2 - d.2 * f.1 < 0 := lt_of_not_ge hG
  nlinarith [mul_nonneg (neg_nonneg.mpr sf.le) A, mul_nonneg (neg_nonneg.mpr sd.le) B, mul_pos_of_neg_of_neg se hG']

theorem cross_trans_pos (d e f : Rat × Rat) (sd : 0 < d.2) (se : 0 < e.2) (sf : 0 < f.2)
    (A : 0 ≤ d.1 * e.2 - d.2 * e.1) (B : 0 ≤ e.1 * f.2 - e.2 * f.1) : 0 ≤ d.1 * f.2 - d.2 * f.1 := by
  by_contra hG
  have hG' : d.1 * f.2 - d.2 * f.1 < 0 := lt_of_not_ge hG
  nlinarith [mul_nonneg sf.le A, mul_nonneg sd.le B, mul_neg_of_pos_of_neg se hG']

theorem angLe_trans_aux (d e f : Rat × Rat) (h1 : angLe d e = true) (h2 : angLe e f = true) : angLe d f = true := by
  rw [angLe_iff] at *
  rcases h1 with h1 | ⟨h1, c1⟩
  · rcases h2 with h2 | ⟨h2, _⟩
    · exact Or.inl (lt_trans h1 h2)
    · exact Or.inl (h2 ▸ h1)
  · rcases h2 with h2 | ⟨h2, c2⟩
    · exact Or.inl (h1 ▸ h2)
    · refine Or.inr ⟨h1.trans h2, ?_⟩
      unfold cross at *
      rcases angClass_spec d with ⟨sd, kd⟩ | ⟨sd, kd⟩ | ⟨sd, _, kd⟩ | ⟨sd, _, kd⟩ <;>
      rcases angClass_spec e with ⟨se, ke⟩ | ⟨se, ke⟩ | ⟨se, _, ke⟩ | ⟨se, _, ke⟩ <;>
      rcases angClass_spec f with ⟨sf, kf⟩ | ⟨sf, kf⟩ | ⟨sf, _, kf⟩ | ⟨sf, _, kf⟩ <;>
      first
        | (exfalso; omega)
        | exact cross_trans_neg d e f sd se sf c1 c2
        | exact cross_trans_pos d e f sd se sf c1 c2
        | (rw [sd, sf]; simp)
/-! ### the box rows reach the engine -/


theorem substVal_of_not_mem (t : PTerm) (x : Var) (a : Rat) (h : x ∉ t.vars) : substVal t x a = t := by
  unfold substVal
  have : t.containsVar x = false := by simpa [PTerm.containsVar] using h
  simp [this]

theorem substAll_of_disjoint (t : PTerm) (vals : List (Var × Rat)) (h : ∀ z ∈ t.vars, z ∉ vals.map (·.1)) :
    substAll t vals = t := by
  induction vals with
  | nil => rfl
  | cons p b ih =>
    rw [substAll_cons, substVal_of_not_mem]
    · exact ih (fun z hz hm => h z hz (by simp only [List.map_cons, List.mem_cons]; exact Or.inr hm))
    · intro hm; exact h p.1 hm (by simp)

theorem plotSystem_has_box (l : TL) (x y : Var) (vals : List (Var × Rat)) (xl yl : Rat × Rat) (H : List HalfPlane)
    (hdict : ∀ t ∈ l, t.vars.Nodup) (h : plotSystem l x y vals xl yl = .ok H) :
    (⟨1, 0, xl.2⟩ : HalfPlane) ∈ H ∧ (⟨-1, 0, -xl.1⟩ : HalfPlane) ∈ H ∧
      (⟨0, 1, yl.2⟩ : HalfPlane) ∈ H ∧ (⟨0, -1, -yl.1⟩ : HalfPlane) ∈ H := by
  obtain ⟨sw, h'⟩ := (plotSystem_ok_iff _ _ _ _ _ _ _).mp h
  obtain ⟨hxy, hxk, hyk, _, plotTl, hs, _, rfl⟩ := plotSystem'_ok l x y vals xl yl H sw hdict h'
  have key : ∀ b ∈ boundary x y xl yl, hpOf x y b ∈ plotTl.map (hpOf x y) := by
    intro b hb
    apply List.mem_map_of_mem
    have hfix : substAll b vals = b := by
      apply substAll_of_disjoint
      intro z hz
      rcases boundary_vars x y xl yl b hb with e | e <;> rw [e] at hz <;> simp only [List.mem_singleton] at hz <;> subst hz
      · exact hxk
      · exact hyk
    have := (substituteIn_mem _ _ _ hs (substAll b vals)).mpr
      ⟨b, (Gen.mem_list_union _ _ _).mpr (Or.inr hb), rfl, boundary_survives x y xl yl vals hxk hyk b hb⟩
    rwa [hfix] at this
  have hyx : ¬ y = x := fun e => hxy e.symm
  refine ⟨?_, ?_, ?_, ?_⟩
  · have := key ⟨[(x, 1)], xl.2⟩ (by simp [boundary])
    simpa [hpOf, PTerm.coeff, coeffOf, hxy, hyx] using this
  · have := key ⟨[(x, -1)], -xl.1⟩ (by simp [boundary])
    simpa [hpOf, PTerm.coeff, coeffOf, hxy, hyx] using this
  · have := key ⟨[(y, 1)], yl.2⟩ (by simp [boundary])
    simpa [hpOf, PTerm.coeff, coeffOf, hxy, hyx] using this
  · have := key ⟨[(y, -1)], -yl.1⟩ (by simp [boundary])
    simpa [hpOf, PTerm.coeff, coeffOf, hxy, hyx] using this

theorem sortedFrom_pairwise (c : Rat × Rat) (l : List (Rat × Rat)) (h : sortedFrom c l = true) :
    l.Pairwise (fun p q => angLe (dir c p) (dir c q) = true) := by
  induction l with
  | nil => exact List.Pairwise.nil
  | cons p r ih =>
    cases r with
    | nil => simp
    | cons q r' =>
      simp only [sortedFrom, Bool.and_eq_true] at h
      have ihq' := ih h.2
      have ihq := List.pairwise_cons.mp ihq'
      rw [List.pairwise_cons]
      refine ⟨?_, ihq'⟩
      intro z hz
      rcases List.mem_cons.mp hz with rfl | hz'
      · exact h.1
      · exact angLe_trans_aux _ _ _ h.1 (ihq.1 z hz')
end Plots
