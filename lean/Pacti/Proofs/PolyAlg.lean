import Pacti.Model.PolyAlg
import Pacti.Proofs.Algebra
import Pacti.Proofs.Elim
/-! The polyhedral primitives meet the generic `Spec` (C01, C02, C08, C15, C16). -/

namespace PolyAlg
open Alg

theorem H_eq (l : TL) (v : Val) : Alg.H PTerm.holds l v ↔ TL.holds l v := Iff.rfl

/-- orders made of tactics that are sound -/
def SoundOrd (tac : Nat → PTerm → TL → List Var → Bool → Elim.TacticRes) (o : List Nat) : Prop := ∀ j ∈ o, Elim.TacSound tac j

theorem polyPrims_spec (O : Oracle) (hO : O.Certified) (tie : PTerm → Bool) (grayAs : Bool)
    (tac : Nat → PTerm → TL → List Var → Bool → Elim.TacticRes) (hgray : grayAs = false) :
    Spec PTerm.holds (polyPrims O tie grayAs tac) (SoundOrd tac) where
  refine_ok := by
    intro s l Γ xs b o r ho h v hΓ hr
    simp only [polyPrims, Except.map] at h
    split at h
    · cases h
    · rename_i p hp
      injection h with h; subst h
      exact Elim.elimRefine_sound O hO tie tac l Γ xs b o ho p.1 p.2 (by simpa using hp) v hΓ hr
  relax_ok := by
    intro s l Γ xs b o r ho h v hΓ hl
    simp only [polyPrims, Except.map] at h
    split at h
    · cases h
    · rename_i p hp
      injection h with h; subst h
      exact Elim.elimRelax_sound O hO tie tac l Γ xs b o ho p.1 p.2 (by simpa using hp) v hΓ hl
  simp_ok := by
    intro s l Γ r h v hΓ
    cases Γ with
    | none => exact Pacti.C07.simplify_equiv O hO tie l none r h v (TL.holds_nil v)
    | some g => exact Pacti.C07.simplify_equiv O hO tie l (some g) r h v (hΓ g rfl)
  refines_ok := by
    intro s l r h v hl
    simp only [polyPrims] at h
    split at h
    · rename_i hy; exact Poly.refinesTL_yes O hO l r hy v hl
    · cases h
    · subst hgray; cases h
    · cases h

theorem polyPrims_selects (O : Oracle) (hO : O.Certified) (tie : PTerm → Bool) (grayAs : Bool)
    (tac : Nat → PTerm → TL → List Var → Bool → Elim.TacticRes) :
    ∀ s l Γ r, (polyPrims O tie grayAs tac).simplify s l Γ = .ok r → ∀ t ∈ r, t ∈ l := by
  intro s l Γ r h t ht
  exact (Pacti.C07.simplify_selection O hO tie l Γ r h).subset ht

end PolyAlg
