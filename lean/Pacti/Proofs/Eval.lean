import Pacti.Model.Poly
import Pacti.Proofs.Sem
import Pacti.Proofs.Lists
/-! Semantics of `evaluate` / `contains_behavior` (C11). -/

theorem coeffOf_eq_zero_of_not_mem (x : Var) (l : Lin) (h : x ∉ varsL l) : coeffOf x l = 0 := by
  induction l with
  | nil => rfl
  | cons p l ih =>
    simp only [varsL, List.map_cons, List.mem_cons, not_or] at h
    have hne : ¬ p.1 = x := fun e => h.1 e.symm
    simp only [coeffOf, hne, ↓reduceIte]
    exact ih h.2

theorem evalL_update (l : Lin) (v : Val) (x : Var) (a : Rat) :
    evalL l (Function.update v x a) = evalL l v + coeffOf x l * (a - v x) := by
  induction l with
  | nil => simp [evalL, coeffOf]
  | cons p l ih =>
    simp only [evalL, coeffOf, ih]
    by_cases h : p.1 = x
    · subst h; simp only [Function.update_self, ↓reduceIte]; ring
    · simp only [h, ↓reduceIte, Function.update_of_ne h]; ring

theorem mem_varsL_insertC (x y : Var) (c : Rat) (l : Lin) (h : y ∈ varsL (insertC x c l)) : y = x ∨ y ∈ varsL l := by
  induction l with
  | nil =>
    simp only [insertC] at h
    split at h
    · simp [varsL] at h
    · simp [varsL] at h; exact Or.inl h
  | cons p l ih =>
    simp only [insertC] at h
    split at h
    · split at h
      · exact Or.inr h
      · simp only [varsL, List.map_cons, List.mem_cons] at h ⊢
        rcases h with h | h | h
        · exact Or.inl h
        · exact Or.inr (Or.inl h)
        · exact Or.inr (Or.inr h)
    · split at h
      · split at h
        · simp only [varsL, List.map_cons, List.mem_cons] at h ⊢; exact Or.inr (Or.inr h)
        · simp only [varsL, List.map_cons, List.mem_cons] at h ⊢
          rcases h with h | h
          · exact Or.inl h
          · exact Or.inr (Or.inr h)
      · simp only [varsL, List.map_cons, List.mem_cons] at h ⊢
        rcases h with h | h
        · exact Or.inr (Or.inl h)
        · rcases ih h with h' | h'
          · exact Or.inl h'
          · exact Or.inr (Or.inr h')

theorem mem_varsL_normC (y : Var) (l : Lin) (h : y ∈ varsL (normC l)) : y ∈ varsL l := by
  induction l with
  | nil => simpa [normC] using h
  | cons p l ih =>
    simp only [normC, List.foldr_cons] at h ih
    rcases mem_varsL_insertC _ _ _ _ h with h' | h'
    · simp [varsL, h']
    · simp only [varsL, List.map_cons, List.mem_cons]; exact Or.inr (ih h')

/-- substituting a variable by a constant `a` (the term `⟨[], -a⟩`) -/
theorem subst_const_holds (t : PTerm) (x : Var) (a : Rat) (v : Val) :
    (t.subst x ⟨[], -a⟩).holds v ↔ t.holds (Function.update v x a) := by
  unfold PTerm.subst
  split
  · unfold PTerm.holds PTerm.add PTerm.remove PTerm.scale PTerm.mk' PTerm.coeff
    simp only [scaleL, List.map_nil, normC, List.foldr_nil]
    rw [evalL_addL, evalL_filter_ne, evalL_update]
    simp only [evalL]
    constructor <;> intro h <;> linarith
  · rename_i h
    have hx : x ∉ varsL t.coeffs := by
      simpa [PTerm.containsVar, PTerm.vars] using h
    unfold PTerm.holds
    rw [evalL_update, coeffOf_eq_zero_of_not_mem x _ hx]; simp

theorem subst_const_vars (t : PTerm) (x : Var) (a : Rat) (y : Var) (h : y ∈ (t.subst x ⟨[], -a⟩).vars) :
    y ∈ t.vars ∧ y ≠ x := by
  unfold PTerm.subst at h
  split at h
  · unfold PTerm.vars PTerm.add PTerm.remove PTerm.scale PTerm.mk' at h
    simp only [scaleL, List.map_nil, normC, List.foldr_nil, addL, List.append_nil] at h
    have := mem_varsL_normC _ _ h
    simp only [varsL, List.mem_map, List.mem_filter, bne_iff_ne, ne_eq] at this
    obtain ⟨p, ⟨hp, hne⟩, rfl⟩ := this
    exact ⟨by simp only [PTerm.vars, varsL, List.mem_map]; exact ⟨p, hp, rfl⟩, hne⟩
  · rename_i hc
    refine ⟨h, ?_⟩
    intro e; subst e
    apply hc
    simpa [PTerm.containsVar] using h

/-- the valuation that reads `b` first (first binding wins) and `v` elsewhere -/
def override (v : Val) : List (Var × Rat) → Val
  | [] => v
  | p :: b => Function.update (override v b) p.1 p.2

theorem override_eq_valOf (v : Val) (b : List (Var × Rat)) (x : Var) (h : x ∈ b.map (·.1)) :
    override v b x = valOf b x := by
  induction b with
  | nil => simp at h
  | cons p b ih =>
    simp only [override, valOf, List.find?_cons]
    by_cases e : p.1 = x
    · subst e; simp
    · have : (p.1 == x) = false := by simp [e]
      simp only [this, Function.update_of_ne (Ne.symm e)]
      simp only [List.map_cons, List.mem_cons] at h
      rcases h with h | h
      · exact absurd h.symm e
      · rw [ih h]; rfl

theorem evalTerm_holds (t : PTerm) (b : List (Var × Rat)) (v : Val) :
    (Poly.evalTerm t b).holds v ↔ t.holds (override v b) := by
  induction b generalizing t with
  | nil => simp [Poly.evalTerm, override]
  | cons p b ih =>
    have : Poly.evalTerm t (p :: b) = Poly.evalTerm (t.subst p.1 ⟨[], -p.2⟩) b := by
      simp [Poly.evalTerm]
    rw [this, ih, subst_const_holds]; rfl

theorem evalTerm_vars (t : PTerm) (b : List (Var × Rat)) (y : Var) (h : y ∈ (Poly.evalTerm t b).vars) :
    y ∈ t.vars ∧ y ∉ b.map (·.1) := by
  induction b generalizing t with
  | nil => simpa [Poly.evalTerm] using h
  | cons p b ih =>
    have e : Poly.evalTerm t (p :: b) = Poly.evalTerm (t.subst p.1 ⟨[], -p.2⟩) b := by
      simp [Poly.evalTerm]
    rw [e] at h
    obtain ⟨h1, h2⟩ := ih _ h
    obtain ⟨h3, h4⟩ := subst_const_vars _ _ _ _ h1
    refine ⟨h3, ?_⟩
    simp only [List.map_cons, List.mem_cons, not_or]
    exact ⟨h4, h2⟩

theorem mem_TLvars_aux (l : TL) (acc : List Var) (x : Var) :
    x ∈ l.foldl (fun acc t => Gen.list_union acc t.vars) acc ↔ x ∈ acc ∨ ∃ t ∈ l, x ∈ t.vars := by
  induction l generalizing acc with
  | nil => simp
  | cons t l ih =>
    simp only [List.foldl_cons, ih, Gen.mem_list_union, List.mem_cons, exists_eq_or_imp]
    tauto

theorem mem_TLvars (l : TL) (x : Var) : x ∈ l.vars ↔ ∃ t ∈ l, x ∈ t.vars := by
  unfold TL.vars; rw [mem_TLvars_aux]; simp

theorem evaluate_ok_iff (l : TL) (b : List (Var × Rat)) (hcov : ∀ x ∈ l.vars, x ∈ b.map (·.1)) :
    (∃ r, Poly.evaluate l b = .ok r) ↔ TL.holds l (valOf b) := by
  induction l with
  | nil => simp [Poly.evaluate, TL.holds_nil]
  | cons t l ih =>
    have hcov' : ∀ x ∈ TL.vars l, x ∈ b.map (·.1) := fun x hx => by
      apply hcov; rw [mem_TLvars] at hx ⊢
      obtain ⟨t', ht', hx'⟩ := hx
      exact ⟨t', List.mem_cons_of_mem _ ht', hx'⟩
    have hvars : (Poly.evalTerm t b).vars = [] := by
      apply List.eq_nil_iff_forall_not_mem.mpr
      intro y hy
      obtain ⟨h1, h2⟩ := evalTerm_vars _ _ _ hy
      exact h2 (hcov y ((mem_TLvars _ _).mpr ⟨t, by simp, h1⟩))
    have hsem : (Poly.evalTerm t b).holds (valOf b) ↔ t.holds (valOf b) := by
      rw [evalTerm_holds]
      unfold PTerm.holds
      rw [evalL_congr t.coeffs (override (valOf b) b) (valOf b)]
      intro x hx
      exact override_eq_valOf _ _ _ (hcov x ((mem_TLvars _ _).mpr ⟨t, by simp, hx⟩))
    have hconst : (Poly.evalTerm t b).holds (valOf b) ↔ ¬ (Poly.evalTerm t b).const < 0 := by
      have : (Poly.evalTerm t b).coeffs = [] := by
        simpa [PTerm.vars, varsL] using hvars
      unfold PTerm.holds; rw [this]; simp [evalL]
    simp only [Poly.evaluate, hvars, List.isEmpty_nil, ↓reduceIte, TL.holds_cons]
    by_cases hc : (Poly.evalTerm t b).const < 0
    · simp only [hc, ↓reduceIte]
      constructor
      · rintro ⟨r, hr⟩; cases hr
      · rintro ⟨h1, _⟩; exact absurd hc (hconst.mp (hsem.mpr h1))
    · simp only [hc, ↓reduceIte]
      rw [ih hcov']
      constructor
      · intro h; exact ⟨hsem.mp (hconst.mpr hc), h⟩
      · intro h; exact h.2
