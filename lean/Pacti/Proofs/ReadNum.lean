import Pacti.Proofs.Serial
/-! C10: the string that `%.4g` prints denotes the rounded value — `readNum (fmt4g q) = some (round4 q)`.
    `readNum` models reading a numeral of the printer's shape `[-]ddd[.ddd][e±dd]` back (`float(s)`, the grammar's
    `floating_point_number`); other shapes are not modelled (`none`). -/

namespace Serial
open Nat (ofDigitChars)

/-! ### characters -/

theorem digit_ne_e (c : Char) (h : c.isDigit = true) : c ≠ 'e' := by rintro rfl; simp [Char.isDigit] at h
theorem digit_ne_dot (c : Char) (h : c.isDigit = true) : c ≠ '.' := by rintro rfl; simp [Char.isDigit] at h
theorem digit_ne_minus (c : Char) (h : c.isDigit = true) : c ≠ '-' := by rintro rfl; simp [Char.isDigit] at h

theorem allDigits_iff (l : List Char) : allDigits l = true ↔ ∀ c ∈ l, c.isDigit = true := by
  simp [allDigits, List.all_eq_true]

theorem allDigits_append (a b : List Char) : allDigits (a ++ b) = (allDigits a && allDigits b) := by
  simp [allDigits]

theorem allDigits_replicate_zero (n : Nat) : allDigits (List.replicate n '0') = true := by
  rw [allDigits_iff]; intro c hc; rw [List.eq_of_mem_replicate hc]; rfl

theorem allDigits_toDigits (n : Nat) : allDigits (Nat.toDigits 10 n) = true := by
  rw [allDigits_iff]; intro c hc; exact Nat.isDigit_of_mem_toDigits (by decide) (by decide) hc

theorem allDigits_take (l : List Char) (k : Nat) (h : allDigits l = true) : allDigits (l.take k) = true := by
  rw [allDigits_iff] at *; intro c hc; exact h c (List.mem_of_mem_take hc)

theorem allDigits_drop (l : List Char) (k : Nat) (h : allDigits l = true) : allDigits (l.drop k) = true := by
  rw [allDigits_iff] at *; intro c hc; exact h c (List.mem_of_mem_drop hc)

/-! ### splitting -/

theorem takeWhile_all {α} (p : α → Bool) (l : List α) (h : ∀ x ∈ l, p x = true) : l.takeWhile p = l := by
  induction l with
  | nil => rfl
  | cons a l ih =>
    rw [List.takeWhile_cons, if_pos (h a (by simp)), ih (fun x hx => h x (by simp [hx]))]

theorem dropWhile_all {α} (p : α → Bool) (l : List α) (h : ∀ x ∈ l, p x = true) : l.dropWhile p = [] := by
  induction l with
  | nil => rfl
  | cons a l ih =>
    rw [List.dropWhile_cons, if_pos (h a (by simp)), ih (fun x hx => h x (by simp [hx]))]

theorem splitAt1_none (c : Char) (l : List Char) (h : c ∉ l) : splitAt1 c l = (l, none) := by
  unfold splitAt1
  have : l.span (· != c) = (l, []) := by
    rw [List.span_eq_takeWhile_dropWhile]
    have hall : ∀ x ∈ l, (x != c) = true := by intro x hx; simp; rintro rfl; exact h hx
    rw [takeWhile_all _ _ hall, dropWhile_all _ _ hall]
  rw [this]

theorem splitAt1_some (c : Char) (a b : List Char) (h : c ∉ a) : splitAt1 c (a ++ c :: b) = (a, some b) := by
  unfold splitAt1
  have : (a ++ c :: b).span (· != c) = (a, c :: b) := by
    rw [List.span_eq_takeWhile_dropWhile]
    have hall : ∀ x ∈ a, (x != c) = true := by intro x hx; simp; rintro rfl; exact h hx
    rw [List.takeWhile_append_of_pos hall, List.dropWhile_append_of_pos hall]
    simp
  rw [this]

/-! ### trailing zeros -/

theorem takeWhile_zero_eq_replicate (l : List Char) : l.takeWhile (· == '0') = List.replicate (l.takeWhile (· == '0')).length '0' := by
  induction l with
  | nil => simp
  | cons a l ih =>
    by_cases h : a = '0'
    · subst h; simp only [List.takeWhile_cons, beq_self_eq_true, if_true, List.length_cons, List.replicate_succ]; rw [← ih]
    · simp [h]

/-- `stripZeros` removes a block of trailing `'0'`s -/
theorem stripZeros_spec (l : List Char) : ∃ z, l = stripZeros l ++ List.replicate z '0' := by
  refine ⟨(l.reverse.takeWhile (· == '0')).length, ?_⟩
  unfold stripZeros
  have h := List.takeWhile_append_dropWhile (p := (· == '0')) (l := l.reverse)
  have h2 : l = (l.reverse.dropWhile (· == '0')).reverse ++ (l.reverse.takeWhile (· == '0')).reverse := by
    rw [← List.reverse_append, h, List.reverse_reverse]
  rw [takeWhile_zero_eq_replicate l.reverse, List.reverse_replicate] at h2
  simpa using h2

theorem ofDigitChars_stripZeros (l : List Char) :
    ∃ z, l.length = (stripZeros l).length + z ∧ ofDigitChars 10 l 0 = ofDigitChars 10 (stripZeros l) 0 * 10 ^ z := by
  obtain ⟨z, hz⟩ := stripZeros_spec l
  refine ⟨z, ?_, ?_⟩
  · conv_lhs => rw [hz]
    simp
  · conv_lhs => rw [hz]
    rw [Nat.ofDigitChars_append, Nat.ofDigitChars_replicate_zero, Nat.mul_comm]

theorem allDigits_stripZeros (l : List Char) (h : allDigits l = true) : allDigits (stripZeros l) = true := by
  obtain ⟨z, hz⟩ := stripZeros_spec l
  rw [hz, allDigits_append] at h
  simp only [Bool.and_eq_true] at h
  exact h.1

/-! ### the four digits -/

theorem digits4_eq (m : Nat) (h1 : 1000 ≤ m) (h2 : m ≤ 9999) :
    digits4 m = Nat.toDigits 10 m ∧ (digits4 m).length = 4 := by
  have hle : (Nat.toDigits 10 m).length ≤ 4 := (Nat.length_toDigits_le_iff (by decide) (by decide)).mpr (by omega)
  have hgt : ¬ (Nat.toDigits 10 m).length ≤ 3 := fun h => by
    have := (Nat.length_toDigits_le_iff (b := 10) (by decide) (by decide)).mp h
    omega
  have hlen : (Nat.toDigits 10 m).length = 4 := by omega
  unfold digits4
  simp only [hlen]
  simp [hlen]

theorem digits4_val (m : Nat) (h1 : 1000 ≤ m) (h2 : m ≤ 9999) : ofDigitChars 10 (digits4 m) 0 = m := by
  rw [(digits4_eq m h1 h2).1]; exact Nat.ofDigitChars_ten_toDigits

theorem digits4_allDigits (m : Nat) (h1 : 1000 ≤ m) (h2 : m ≤ 9999) : allDigits (digits4 m) = true := by
  rw [(digits4_eq m h1 h2).1]; exact allDigits_toDigits m

/-- value of a digit string split at position `k` -/
theorem ofDigitChars_take_drop (l : List Char) (k : Nat) :
    ofDigitChars 10 l 0 = ofDigitChars 10 (l.take k) 0 * 10 ^ (l.drop k).length + ofDigitChars 10 (l.drop k) 0 := by
  conv_lhs => rw [← List.take_append_drop k l]
  rw [Nat.ofDigitChars_append, Nat.ofDigitChars_eq_ofDigitChars_zero, Nat.mul_comm]

/-! ### reading a plain and a scientific numeral -/

theorem not_mem_of_allDigits (c : Char) (l : List Char) (h : allDigits l = true) (hc : c.isDigit = false) : c ∉ l := by
  intro hm
  have := (allDigits_iff l).mp h c hm
  rw [hc] at this; cases this

theorem e_not_mem_withPointL (ip fp : List Char) (hip : allDigits ip = true) (hfp : allDigits fp = true) : 'e' ∉ withPointL ip fp := by
  unfold withPointL
  split
  · exact not_mem_of_allDigits _ _ hip (by decide)
  · intro hm
    rcases List.mem_append.mp hm with h | h
    · exact not_mem_of_allDigits _ _ hip (by decide) h
    · rcases List.mem_cons.mp h with h | h
      · cases h
      · exact not_mem_of_allDigits _ _ hfp (by decide) h

theorem split_dot_withPointL (ip fp : List Char) (hip : allDigits ip = true) :
    splitAt1 '.' (withPointL ip fp) = (ip, if fp.isEmpty then none else some fp) := by
  unfold withPointL
  split
  · exact splitAt1_none _ _ (not_mem_of_allDigits _ _ hip (by decide))
  · exact splitAt1_some _ _ _ (not_mem_of_allDigits _ _ hip (by decide))

/-- the mantissa part, common to both shapes -/
theorem readPos_mant (ip fp : List Char) (ex : Option (List Char)) (l : List Char)
    (hsplit : splitAt1 'e' l = (withPointL ip fp, ex))
    (hne : ip ≠ []) (hip : allDigits ip = true) (hfp : allDigits fp = true) :
    readPos l = applyExp (decVal ip fp) ex := by
  unfold readPos
  rw [hsplit]
  simp only [split_dot_withPointL ip fp hip]
  have hipe : ip.isEmpty = false := by cases ip with | nil => exact absurd rfl hne | cons a b => rfl
  by_cases hf : fp.isEmpty = true
  · have hfp' : fp = [] := List.isEmpty_iff.mp hf
    subst hfp'
    simp [hipe, hip, hfp]
  · simp [hf, hipe, hip, hfp]

theorem readPos_plain (ip fp : List Char) (hne : ip ≠ []) (hip : allDigits ip = true) (hfp : allDigits fp = true) :
    readPos (withPointL ip fp) = some (decVal ip fp) := by
  rw [readPos_mant ip fp none _ (splitAt1_none _ _ (e_not_mem_withPointL ip fp hip hfp)) hne hip hfp]
  rfl

theorem readPos_sci (ip fp ds : List Char) (neg : Bool) (hne : ip ≠ []) (hip : allDigits ip = true) (hfp : allDigits fp = true)
    (hds : ds ≠ []) (hdd : allDigits ds = true) :
    readPos (withPointL ip fp ++ 'e' :: (if neg then '-' else '+') :: ds) =
      some (decVal ip fp * pow10 (if neg then -((Nat.ofDigitChars 10 ds 0 : Nat) : Int) else ((Nat.ofDigitChars 10 ds 0 : Nat) : Int))) := by
  have hdse : ds.isEmpty = false := by cases ds with | nil => exact absurd rfl hds | cons a b => rfl
  rw [readPos_mant ip fp (some ((if neg then '-' else '+') :: ds)) _ (splitAt1_some _ _ _ (e_not_mem_withPointL ip fp hip hfp)) hne hip hfp]
  cases neg <;> simp [applyExp, hdse, hdd]

/-! ### values -/

theorem pow10_mul_natpow (e : Int) (n : Nat) (h : e + n = 0) : pow10 e * ((10 ^ n : Nat) : ℚ) = 1 := by
  rw [pow10_eq]; push_cast
  rw [← zpow_natCast, ← zpow_add₀ (by norm_num : (10 : ℚ) ≠ 0), h, zpow_zero]

/-- `ip.fp` read as a number, when the digit string `ip ++ fp ++ 0…0` (`z` zeros) has value `m` and `n` digits after the point -/
theorem decVal_eq (ip fp : List Char) (m n z : Nat) (e' : Int)
    (hm : m = ofDigitChars 10 ip 0 * 10 ^ n + ofDigitChars 10 fp 0 * 10 ^ z) (hn : n = fp.length + z) (he : e' + n = 0) :
    decVal ip fp = (m : ℚ) * pow10 e' := by
  have h1 := pow10_mul_natpow e' n he
  have hpos : ((10 ^ n : Nat) : ℚ) ≠ 0 := by positivity
  have key : decVal ip fp * ((10 ^ n : Nat) : ℚ) = m := by
    unfold decVal
    rw [hm, hn]
    push_cast
    have : ((10 : ℚ) ^ fp.length) ≠ 0 := by positivity
    field_simp
    ring
  calc decVal ip fp = decVal ip fp * (((10 ^ n : Nat) : ℚ) * pow10 e') := by rw [mul_comm _ (pow10 e'), h1, mul_one]
    _ = (m : ℚ) * pow10 e' := by rw [← mul_assoc, key]

theorem ofDigitChars_zeros_append (j : Nat) (l : List Char) : ofDigitChars 10 (List.replicate j '0' ++ l) 0 = ofDigitChars 10 l 0 := by
  rw [Nat.ofDigitChars_append, Nat.ofDigitChars_replicate_zero]; simp

/-- the exponent digits `dd` -/
theorem expDigits (ea : Nat) :
    let ds := (if ea < 10 then ['0'] else []) ++ Nat.toDigits 10 ea
    ds ≠ [] ∧ allDigits ds = true ∧ ofDigitChars 10 ds 0 = ea := by
  intro ds
  refine ⟨?_, ?_, ?_⟩
  · intro h
    have := List.append_eq_nil_iff.mp h
    exact Nat.toDigits_ne_nil this.2
  · show allDigits ((if ea < 10 then ['0'] else []) ++ Nat.toDigits 10 ea) = true
    rw [allDigits_append, allDigits_toDigits]
    split <;> rfl
  · show ofDigitChars 10 ((if ea < 10 then ['0'] else []) ++ Nat.toDigits 10 ea) 0 = ea
    split
    · have := ofDigitChars_zeros_append 1 (Nat.toDigits 10 ea)
      simp only [List.replicate_one] at this
      rw [this]; exact Nat.ofDigitChars_ten_toDigits
    · simp

/-- the rendering of a four-digit decomposition reads back as its value -/
theorem readPos_renderL (d : Dec) (h1 : 1000 ≤ d.m) (h2 : d.m ≤ 9999) : readPos d.renderL = some d.value := by
  obtain ⟨_, hlen⟩ := digits4_eq d.m h1 h2
  have hval := digits4_val d.m h1 h2
  have hdig := digits4_allDigits d.m h1 h2
  set ds := digits4 d.m with hds
  unfold Dec.renderL Dec.value
  simp only [← hds]
  by_cases hfix : -4 ≤ d.e ∧ d.e < 4
  · rw [if_pos hfix]
    by_cases hnn : 0 ≤ d.e
    · -- ddd.ddd
      rw [if_pos hnn]
      set k := d.e.toNat + 1 with hk
      have hk4 : k ≤ 4 := by omega
      obtain ⟨z, hz1, hz2⟩ := ofDigitChars_stripZeros (ds.drop k)
      have hdl : (ds.drop k).length = 4 - k := by simp [hlen]
      have hipne : ds.take k ≠ [] := by
        intro h
        rcases List.take_eq_nil_iff.mp h with h | h
        · omega
        · rw [h] at hlen; simp at hlen
      rw [readPos_plain _ _ hipne (allDigits_take _ _ hdig) (allDigits_stripZeros _ (allDigits_drop _ _ hdig))]
      congr 1
      apply decVal_eq _ _ d.m (4 - k) z (d.e - 3)
      · have := ofDigitChars_take_drop ds k
        rw [hval, hdl, hz2] at this
        exact this
      · omega
      · have : (d.e.toNat : Int) = d.e := Int.toNat_of_nonneg hnn
        omega
    · -- 0.000ddd
      rw [if_neg hnn]
      set j := (-d.e).toNat - 1 with hj
      obtain ⟨z, hz1, hz2⟩ := ofDigitChars_stripZeros ds
      have hsne : stripZeros ds ≠ [] := by
        intro h
        rw [h] at hz2
        simp at hz2
        omega
      have hform : ('0' :: '.' :: (List.replicate j '0' ++ stripZeros ds)) = withPointL ['0'] (List.replicate j '0' ++ stripZeros ds) := by
        unfold withPointL
        rw [if_neg]
        · rfl
        · simp [hsne]
      have hfpd : allDigits (List.replicate j '0' ++ stripZeros ds) = true := by
        rw [allDigits_append, allDigits_replicate_zero, allDigits_stripZeros _ hdig]; rfl
      have hz0 : (['0'] : List Char) ≠ [] := by simp
      rw [hform, readPos_plain ['0'] _ hz0 rfl hfpd]
      congr 1
      apply decVal_eq _ _ d.m (j + 4) z (d.e - 3)
      · rw [ofDigitChars_zeros_append, ← hz2, hval]; simp [ofDigitChars]
      · simp only [List.length_append, List.length_replicate]; omega
      · have : ((-d.e).toNat : Int) = -d.e := Int.toNat_of_nonneg (by omega)
        omega
  · -- d.ddde±XX
    rw [if_neg hfix]
    obtain ⟨z, hz1, hz2⟩ := ofDigitChars_stripZeros ds
    set s := stripZeros ds with hs
    have hsd : allDigits s = true := allDigits_stripZeros _ hdig
    have hsne : s ≠ [] := by
      intro h
      rw [h] at hz2
      simp at hz2
      omega
    have hslen : 1 ≤ s.length := List.length_pos_iff.mpr hsne
    obtain ⟨hne, hdd, hv⟩ := expDigits d.e.natAbs
    generalize hE : ((if d.e.natAbs < 10 then ['0'] else []) ++ Nat.toDigits 10 d.e.natAbs) = eds at hne hdd hv ⊢
    have htk : s.take 1 ≠ [] := by
      intro h
      rcases List.take_eq_nil_iff.mp h with h | h
      · omega
      · exact hsne h
    have hgoal : readPos (withPointL (s.take 1) (s.drop 1) ++ 'e' :: (if d.e < 0 then '-' else '+') :: eds)
        = some (decVal (s.take 1) (s.drop 1) * pow10 d.e) := by
      by_cases hneg : d.e < 0
      · have hsci := readPos_sci (s.take 1) (s.drop 1) eds true htk (allDigits_take _ _ hsd) (allDigits_drop _ _ hsd) hne hdd
        simp only [if_true] at hsci
        rw [hv] at hsci
        have he : -((d.e.natAbs : Nat) : Int) = d.e := by omega
        rw [he] at hsci
        rw [if_pos hneg]; exact hsci
      · have hsci := readPos_sci (s.take 1) (s.drop 1) eds false htk (allDigits_take _ _ hsd) (allDigits_drop _ _ hsd) hne hdd
        simp only [Bool.false_eq_true, if_false] at hsci
        rw [hv] at hsci
        have he : ((d.e.natAbs : Nat) : Int) = d.e := by omega
        rw [he] at hsci
        rw [if_neg hneg]; exact hsci
    refine hgoal.trans ?_
    apply congrArg some
    have hdv := decVal_eq (s.take 1) (s.drop 1) (ofDigitChars 10 s 0) (s.length - 1) 0 (-((s.length - 1 : Nat) : Int))
      (by have := ofDigitChars_take_drop s 1; simp only [List.length_drop] at this; simpa using this)
      (by simp) (by omega)
    rw [hdv, ← hval, hz2]
    rw [hlen] at hz1
    rw [pow10_eq, pow10_eq, pow10_eq]
    push_cast
    have h10 : (10 : ℚ) ≠ 0 := by norm_num
    rw [mul_assoc, mul_assoc, ← zpow_add₀ h10, ← zpow_natCast, ← zpow_add₀ h10]
    have hexp : -(((s.length - 1 : Nat)) : Int) + d.e = (z : Int) + (d.e - 3) := by omega
    rw [hexp]

theorem splitAt1_fst (c : Char) (l : List Char) : (splitAt1 c l).1 = l.takeWhile (· != c) := by
  unfold splitAt1
  rw [List.span_eq_takeWhile_dropWhile]
  cases List.dropWhile (fun x => x != c) l <;> rfl

/-- `readPos` rejects anything that starts with the sign -/
theorem readPos_minus (r : List Char) : readPos ('-' :: r) = none := by
  unfold readPos
  have h1 : (splitAt1 'e' ('-' :: r)).1 = '-' :: (splitAt1 'e' r).1 := by
    simp only [splitAt1_fst, List.takeWhile_cons]; rfl
  cases hs1 : splitAt1 'e' ('-' :: r) with
  | mk mant ex =>
    rw [hs1] at h1
    simp only at h1 ⊢
    have h2 : (splitAt1 '.' mant).1 = '-' :: (splitAt1 '.' (splitAt1 'e' r).1).1 := by
      rw [h1]; simp only [splitAt1_fst, List.takeWhile_cons]; rfl
    cases hs2 : splitAt1 '.' mant with
    | mk ip fp =>
      rw [hs2] at h2
      simp only at h2 ⊢
      rw [h2]
      simp [allDigits, Char.isDigit]

/-- the first character of a rendering is not the sign -/
theorem renderL_head (d : Dec) (h1 : 1000 ≤ d.m) (h2 : d.m ≤ 9999) : ∀ r, d.renderL ≠ '-' :: r := by
  intro r h
  have hr := readPos_renderL d h1 h2
  rw [h, readPos_minus] at hr
  cases hr

theorem readNumL_fmt4gL (q : ℚ) : readNumL (fmt4gL q) = some (round4 q) := by
  unfold fmt4gL
  by_cases h0 : q = 0
  · subst h0
    simp only [if_true]
    show readPos ['0'] = some (round4 0)
    have : (['0'] : List Char) = withPointL ['0'] [] := rfl
    rw [this, readPos_plain ['0'] [] (by simp) rfl rfl]
    simp [decVal, round4, Nat.ofDigitChars]
  · rw [if_neg h0]
    obtain ⟨h1, h2, _⟩ := dec4pos_spec q.num.natAbs q.den (num_natAbs_pos q h0) q.den_pos
    have hr := readPos_renderL (dec4pos q.num.natAbs q.den) h1 h2
    by_cases hneg : q < 0
    · rw [if_pos hneg]
      show (readPos (dec4pos q.num.natAbs q.den).renderL).map (fun q => -q) = some (round4 q)
      rw [hr, round4, if_neg h0, if_pos hneg]; rfl
    · rw [if_neg hneg]
      have hh := renderL_head (dec4pos q.num.natAbs q.den) h1 h2
      have : readNumL (dec4pos q.num.natAbs q.den).renderL = readPos (dec4pos q.num.natAbs q.den).renderL := by
        unfold readNumL
        split
        · rename_i r' heq; exact absurd heq (hh r')
        · rfl
      rw [this, hr, round4, if_neg h0, if_neg hneg]

/-- **the printed numeral denotes the rounded value**: reading back what `%.4g` prints gives exactly `round4 q` -/
theorem readNum_fmt4g (q : ℚ) : readNum (fmt4g q) = some (round4 q) := by
  unfold readNum fmt4g
  rw [String.toList_ofList]
  exact readNumL_fmt4gL q

end Serial
