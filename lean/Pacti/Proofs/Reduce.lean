import Pacti.Model.Poly
import Pacti.Proofs.Refine
/-! `reduce_polytope` / `simplify` (C07): equivalence in context, selection, irredundancy, error ⇒ infeasible. -/

namespace Poly

theorem holds_of_sublist {s l : TL} (h : s.Sublist l) (v : Val) (hl : TL.holds l v) : TL.holds s v :=
  fun t ht => hl t (h.subset ht)

/-- the decision `m ≤ b` taken by the loop is right: the row is implied by the others (relaxed LP + `b+1` trick) -/
theorem drop_sound (O : Oracle) (hO : O.Certified) (ctx kept rest : TL) (r : PTerm) (m : Rat) (x : List (Var × Rat))
    (hlp : O.lp r.coeffs (kept ++ [bump r] ++ rest ++ ctx) = .optimal m x) (hm : m ≤ r.const) :
    ∀ z, TL.holds (kept ++ rest ++ ctx) z → r.holds z := by
  obtain ⟨hx, hxm, hmax⟩ := hO.opt _ _ _ _ hlp
  have hx' : TL.holds (kept ++ rest ++ ctx) (valOf x) := by
    simp only [TL.holds_append] at hx ⊢
    exact ⟨⟨hx.1.1.1, hx.1.2⟩, hx.2⟩
  apply relax_by_one (kept ++ rest ++ ctx) r.coeffs r.const (valOf x) hx' ?_ (by rw [hxm]; exact hm)
  intro z hz hz1
  rw [hxm]; apply hmax
  simp only [TL.holds_append] at hz ⊢
  refine ⟨⟨⟨hz.1.1, ?_⟩, hz.1.2⟩, hz.2⟩
  intro q hq; simp only [List.mem_singleton] at hq; subst hq
  exact (holds_bump r z).mpr hz1

theorem unbounded_dead (O : Oracle) (hO : O.Certified) (ctx kept rest : TL) (r : PTerm)
    (hlp : O.lp r.coeffs (kept ++ [bump r] ++ rest ++ ctx) = .unbounded) : False := by
  obtain ⟨_, hM⟩ := hO.unb _ _ hlp
  obtain ⟨z, hz, hlt⟩ := hM (r.const + 1)
  simp only [TL.holds_append] at hz
  have := hz.1.1.2 (bump r) (by simp)
  rw [holds_bump] at this
  linarith

theorem reduce_equiv (O : Oracle) (hO : O.Certified) (tie : PTerm → Bool) (ctx : TL) :
    ∀ (rest kept out : TL), reduce O tie ctx kept rest = .ok out →
      ∀ v, TL.holds ctx v → (TL.holds out v ↔ TL.holds (kept ++ rest) v) := by
  intro rest
  induction rest with
  | nil => intro kept out h v _; simp only [reduce] at h; injection h with h; subst h; simp
  | cons r rest ih =>
    intro kept out h v hctx
    simp only [reduce] at h
    split at h
    · rename_i m x hlp
      split at h
      · rename_i hdrop
        have hmle : m ≤ r.const := by rcases hdrop with h1 | ⟨h1, _⟩ <;> linarith
        have key := drop_sound O hO ctx kept rest r m x hlp hmle
        rw [ih kept out h v hctx]
        simp only [TL.holds_append, TL.holds_cons]
        constructor
        · rintro ⟨a, b⟩
          exact ⟨a, key v (by simp only [TL.holds_append]; exact ⟨⟨a, b⟩, hctx⟩), b⟩
        · rintro ⟨a, _, b⟩; exact ⟨a, b⟩
      · rw [ih (kept ++ [r]) out h v hctx]
        simp only [TL.holds_append, TL.holds_cons]
        constructor
        · rintro ⟨⟨a, b, _⟩, c⟩; exact ⟨a, b, c⟩
        · rintro ⟨a, b, c⟩; exact ⟨⟨a, b, TL.holds_nil v⟩, c⟩
    · rename_i hlp; exact (unbounded_dead O hO ctx kept rest r hlp).elim
    · cases h
    · cases h

theorem reduce_error (O : Oracle) (hO : O.Certified) (tie : PTerm → Bool) (ctx : TL) :
    ∀ (rest kept : TL), reduce O tie ctx kept rest = .error .valueError →
      ¬ ∃ v, TL.holds ctx v ∧ TL.holds (kept ++ rest) v := by
  intro rest
  induction rest with
  | nil => intro kept h; simp [reduce] at h
  | cons r rest ih =>
    intro kept h
    simp only [reduce] at h
    split at h
    · rename_i m x hlp
      split at h
      · rename_i hdrop
        rintro ⟨v, hc, hv⟩
        apply ih kept h
        simp only [TL.holds_append, TL.holds_cons] at hv
        exact ⟨v, hc, (TL.holds_append _ _ _).mpr ⟨hv.1, hv.2.2⟩⟩
      · rintro ⟨v, hc, hv⟩
        apply ih (kept ++ [r]) h
        simp only [TL.holds_append, TL.holds_cons] at hv ⊢
        exact ⟨v, hc, ⟨hv.1, hv.2.1, TL.holds_nil v⟩, hv.2.2⟩
    · rename_i hlp; exact (unbounded_dead O hO ctx kept rest r hlp).elim
    · rename_i hlp
      rintro ⟨v, hc, hv⟩
      apply hO.inf _ _ hlp
      simp only [TL.holds_append, TL.holds_cons] at hv
      refine ⟨v, ?_⟩
      simp only [TL.holds_append]
      refine ⟨⟨⟨hv.1, ?_⟩, hv.2.2⟩, hc⟩
      intro q hq; simp only [List.mem_singleton] at hq; subst hq
      rw [holds_bump]; have := hv.2.1; unfold PTerm.holds at this; linarith
    · cases h

theorem reduce_error_kind (O : Oracle) (tie : PTerm → Bool) (ctx : TL) :
    ∀ (rest kept : TL) (e : Err), reduce O tie ctx kept rest = .error e → e = .valueError ∨ e = .oracleStuck := by
  intro rest
  induction rest with
  | nil => intro kept e h; simp [reduce] at h
  | cons r rest ih =>
    intro kept e h
    simp only [reduce] at h
    split at h
    · split at h
      · exact ih _ _ h
      · exact ih _ _ h
    · exact ih _ _ h
    · injection h with h; exact Or.inl h.symm
    · injection h with h; exact Or.inr h.symm

/-- the result is `kept` followed by a selection of `rest`, and every selected row is *not* implied with a margin
    by the other surviving rows and the context (there is a point of the others where it is tight or violated). -/
theorem reduce_irredundant (O : Oracle) (hO : O.Certified) (tie : PTerm → Bool) (ctx : TL) :
    ∀ (rest kept out : TL), reduce O tie ctx kept rest = .ok out →
      ∃ s, out = kept ++ s ∧ s.Sublist rest ∧
        ∀ s1 t s2, s = s1 ++ t :: s2 →
          ∃ v, TL.holds ctx v ∧ TL.holds (kept ++ s1 ++ s2) v ∧ t.const ≤ evalL t.coeffs v := by
  intro rest
  induction rest with
  | nil =>
    intro kept out h
    simp only [reduce] at h; injection h with h; subst h
    exact ⟨[], by simp, List.Sublist.refl _, fun s1 t s2 hs => by simp at hs⟩
  | cons r rest ih =>
    intro kept out h
    simp only [reduce] at h
    split at h
    · rename_i m x hlp
      split at h
      · obtain ⟨s, h1, h2, h3⟩ := ih kept out h
        exact ⟨s, h1, h2.cons r, h3⟩
      · rename_i hkeep
        obtain ⟨s, h1, h2, h3⟩ := ih (kept ++ [r]) out h
        refine ⟨r :: s, by simp [h1], h2.cons₂ r, ?_⟩
        intro s1 t s2 hs
        cases s1 with
        | nil =>
          simp only [List.nil_append, List.cons.injEq] at hs
          obtain ⟨rfl, rfl⟩ := hs
          obtain ⟨hx, hxm, _⟩ := hO.opt _ _ _ _ hlp
          simp only [TL.holds_append] at hx
          refine ⟨valOf x, hx.2, ?_, ?_⟩
          · simp only [List.append_nil, TL.holds_append]
            exact ⟨hx.1.1.1, holds_of_sublist h2 _ hx.1.2⟩
          · rw [hxm]
            by_contra hlt
            exact hkeep (Or.inl (lt_of_not_ge hlt))
        | cons a s1' =>
          simp only [List.cons_append, List.cons.injEq] at hs
          obtain ⟨rfl, hs'⟩ := hs
          obtain ⟨v, hv1, hv2, hv3⟩ := h3 s1' t s2 hs'
          refine ⟨v, hv1, ?_, hv3⟩
          simpa [List.append_assoc] using hv2
    · rename_i hlp; exact (unbounded_dead O hO ctx kept rest r hlp).elim
    · cases h
    · cases h

end Poly
