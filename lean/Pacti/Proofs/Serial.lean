import Pacti.Model.Serial
import Pacti.Proofs.Sem
import Pacti.Proofs.Lists
import Mathlib.Tactic.Linarith
import Mathlib.Tactic.Ring
import Mathlib.Tactic.FieldSimp
import Mathlib.Tactic.NormNum
import Mathlib.Algebra.Order.Field.Rat
import Mathlib.Algebra.Order.Ring.Abs
import Mathlib.Algebra.Order.Ring.Int
import Mathlib.Algebra.Order.Field.Basic
/-! Helper lemmas for C10: normal-form coefficient lists, the machine-dictionary round trip, the `%.4g` rounding. -/

namespace Serial

/-! ### normal form -/

/-- keys strictly increasing, no zero coefficient: what `normC` produces and what `PTerm` carries -/
def SortedNZ (l : Lin) : Prop := l.Pairwise (fun a b => a.1 < b.1) ∧ ∀ p ∈ l, p.2 ≠ 0

theorem mem_insertC (x : Var) (c : Rat) (l : Lin) (q : Var × Rat) (h : q ∈ insertC x c l) : q.1 = x ∨ q ∈ l := by
  induction l with
  | nil =>
    simp only [insertC] at h
    split at h
    · cases h
    · simp at h; left; rw [h]
  | cons p r ih =>
    simp only [insertC] at h
    split at h
    · split at h
      · right; exact h
      · rcases List.mem_cons.mp h with h | h
        · left; rw [h]
        · right; exact h
    · split at h
      · split at h
        · right; exact List.mem_cons_of_mem _ h
        · rcases List.mem_cons.mp h with h | h
          · left; rw [h]
          · right; exact List.mem_cons_of_mem _ h
      · rcases List.mem_cons.mp h with h | h
        · right; rw [h]; exact List.mem_cons_self
        · rcases ih h with h | h
          · left; exact h
          · right; exact List.mem_cons_of_mem _ h

theorem insertC_sorted (x : Var) (c : Rat) (l : Lin) (h : SortedNZ l) : SortedNZ (insertC x c l) := by
  induction l with
  | nil =>
    simp only [insertC]
    split
    · exact h
    · rename_i hc
      exact ⟨List.pairwise_singleton _ _, by intro p hp; simp at hp; rw [hp]; exact hc⟩
  | cons p r ih =>
    obtain ⟨hp, hz⟩ := h
    have hr : SortedNZ r := ⟨(List.pairwise_cons.mp hp).2, fun q hq => hz q (List.mem_cons_of_mem _ hq)⟩
    have hpr := (List.pairwise_cons.mp hp).1
    simp only [insertC]
    split
    · rename_i hlt
      split
      · exact ⟨hp, hz⟩
      · rename_i hc
        refine ⟨List.pairwise_cons.mpr ⟨?_, hp⟩, ?_⟩
        · intro q hq
          rcases List.mem_cons.mp hq with hq | hq
          · rw [hq]; exact hlt
          · exact Nat.lt_trans hlt (hpr q hq)
        · intro q hq
          rcases List.mem_cons.mp hq with hq | hq
          · rw [hq]; exact hc
          · exact hz q hq
    · split
      · rename_i hxe
        split
        · exact hr
        · rename_i hc
          refine ⟨List.pairwise_cons.mpr ⟨?_, hr.1⟩, ?_⟩
          · intro q hq; show x < q.1; rw [hxe]; exact hpr q hq
          · intro q hq
            rcases List.mem_cons.mp hq with hq | hq
            · rw [hq]; exact hc
            · exact hr.2 q hq
      · rename_i hnlt hne
        have hgt : p.1 < x := Nat.lt_of_le_of_ne (Nat.le_of_not_lt hnlt) (fun e => hne e.symm)
        have ih' := ih hr
        refine ⟨List.pairwise_cons.mpr ⟨?_, ih'.1⟩, ?_⟩
        · intro q hq
          rcases mem_insertC x c r q hq with hq | hq
          · rw [hq]; exact hgt
          · exact hpr q hq
        · intro q hq
          rcases List.mem_cons.mp hq with hq | hq
          · rw [hq]; exact hz p List.mem_cons_self
          · exact ih'.2 q hq

theorem normC_sorted (l : Lin) : SortedNZ (normC l) := by
  induction l with
  | nil => exact ⟨List.Pairwise.nil, by intro p hp; cases hp⟩
  | cons p r ih => exact insertC_sorted p.1 p.2 _ ih

theorem normC_of_sorted (l : Lin) (h : SortedNZ l) : normC l = l := by
  induction l with
  | nil => rfl
  | cons p r ih =>
    obtain ⟨hp, hz⟩ := h
    have hr : SortedNZ r := ⟨(List.pairwise_cons.mp hp).2, fun q hq => hz q (List.mem_cons_of_mem _ hq)⟩
    have hpr := (List.pairwise_cons.mp hp).1
    have hpz := hz p List.mem_cons_self
    show insertC p.1 p.2 (normC r) = p :: r
    rw [ih hr]
    cases r with
    | nil => simp [insertC, hpz]
    | cons q r' =>
      have := hpr q List.mem_cons_self
      simp [insertC, this, hpz]

/-- `normC` is idempotent: its output is in normal form -/
theorem normC_idem (l : Lin) : normC (normC l) = normC l := normC_of_sorted _ (normC_sorted l)

/-! ### machine dictionary round trip -/

theorem mapM_num (l : Lin) :
    (l.map fun p => (p.1, J.num p.2)).mapM (fun p => (numOf p.2).map fun q => (p.1, q)) = Except.ok l := by
  induction l with
  | nil => rfl
  | cons p r ih =>
    simp only [List.map_cons, List.mapM_cons]
    rw [ih]
    rfl

theorem termOfJ_termToJ (t : PTerm) (h : normC t.coeffs = t.coeffs) : termOfJ (termToJ t) = .ok t := by
  have h1 : (termToJ t).get? "coefficients" = some (.dict (t.coeffs.map fun p => (p.1, J.num p.2))) := by
    simp (config := { decide := true }) [termToJ, J.get?, List.find?]
  have h2 : (termToJ t).get? "constant" = some (.num t.const) := by
    simp (config := { decide := true }) [termToJ, J.get?, List.find?]
  unfold termOfJ
  rw [h1]
  simp only [h2, mapM_num]
  simp only [numOf, PTerm.mk', h]

theorem mapM_termOfJ (l : TL) (h : ∀ t ∈ l, normC t.coeffs = t.coeffs) : (l.map termToJ).mapM termOfJ = Except.ok l := by
  induction l with
  | nil => rfl
  | cons t r ih =>
    simp only [List.map_cons, List.mapM_cons, termOfJ_termToJ t (h t List.mem_cons_self),
      ih (fun u hu => h u (List.mem_cons_of_mem _ hu))]
    rfl

theorem all_isObj (l : TL) : (l.map termToJ).all isObj = true := by
  induction l with
  | nil => rfl
  | cons t r ih => simp only [List.map_cons, List.all_cons, ih, termToJ, isObj, Bool.and_self]

theorem termsOfJ_map (l : TL) (h : ∀ t ∈ l, normC t.coeffs = t.coeffs) : termsOfJ (.arr (l.map termToJ)) = .ok l := by
  simp only [termsOfJ, iterOf, all_isObj, if_true, mapM_termOfJ l h]

theorem varsOfJ_map (l : List Var) : varsOfJ (.arr (l.map J.name)) = .ok l := by
  simp only [varsOfJ, iterOf]
  induction l with
  | nil => rfl
  | cons x r ih => simp only [List.map_cons, List.mapM_cons, ih, varOfJ]; rfl

theorem hasDup_false_iff (l : List Var) : hasDup l = false ↔ l.Nodup := by
  induction l with
  | nil => simp [hasDup]
  | cons x r ih => simp [hasDup, ih]

/-! ### the decimal exponent -/

theorem pow10_eq (e : Int) : pow10 e = (10 : ℚ) ^ e := by
  unfold pow10
  split
  · rename_i h
    obtain ⟨k, rfl⟩ := Int.eq_ofNat_of_zero_le h
    simp
  · rename_i h
    obtain ⟨k, hk⟩ : ∃ k : ℕ, e = -(k : ℤ) := ⟨(-e).toNat, by omega⟩
    subst hk
    simp

theorem expUp_spec (n d : Nat) : ∀ fuel k, d * 10 ^ k ≤ n → n < d * 10 ^ (k + fuel + 1) →
    d * 10 ^ (expUp n d fuel k) ≤ n ∧ n < d * 10 ^ (expUp n d fuel k + 1)
  | 0, k, h1, h2 => by simpa [expUp] using And.intro h1 h2
  | fuel + 1, k, h1, h2 => by
    unfold expUp
    split
    · rename_i h
      exact expUp_spec n d fuel (k + 1) h (by rwa [show k + 1 + fuel + 1 = k + (fuel + 1) + 1 by omega])
    · rename_i h
      exact ⟨h1, by omega⟩

theorem expDown_spec (n d : Nat) : ∀ fuel k, n * 10 ^ k < d → d ≤ n * 10 ^ (k + 1 + fuel) →
    d ≤ n * 10 ^ (expDown n d fuel (k + 1)) ∧ n * 10 ^ (expDown n d fuel (k + 1) - 1) < d ∧ 1 ≤ expDown n d fuel (k + 1)
  | 0, k, h1, h2 => by simpa [expDown] using And.intro h2 h1
  | fuel + 1, k, h1, h2 => by
    unfold expDown
    split
    · rename_i h
      exact ⟨h, by simpa using h1, by omega⟩
    · rename_i h
      exact expDown_spec n d fuel (k + 1) (by omega) (by rwa [show k + 1 + 1 + fuel = k + 1 + (fuel + 1) by omega])

theorem lt_ten_pow (n : Nat) : n < 10 ^ n := Nat.lt_pow_self (by norm_num)

/-- `exp10 n d` is the decimal exponent of `n/d` -/
theorem exp10_spec (n d : Nat) (hn : 0 < n) (hd : 0 < d) :
    (10 : ℚ) ^ (exp10 n d) ≤ (n : ℚ) / d ∧ (n : ℚ) / d < (10 : ℚ) ^ (exp10 n d + 1) := by
  have hd' : (0 : ℚ) < d := by exact_mod_cast hd
  unfold exp10
  split
  · rename_i h
    have h2 : n < d * 10 ^ (0 + n + 1) := by
      have := lt_ten_pow (0 + n + 1)
      calc n < 10 ^ (0 + n + 1) := by omega
        _ ≤ d * 10 ^ (0 + n + 1) := Nat.le_mul_of_pos_left _ hd
    obtain ⟨a, b⟩ := expUp_spec n d n 0 (by simpa using h) h2
    generalize expUp n d n 0 = k at a b
    constructor
    · rw [zpow_natCast, le_div_iff₀ hd']
      have : ((d * 10 ^ k : ℕ) : ℚ) ≤ (n : ℚ) := by exact_mod_cast a
      push_cast at this; linarith
    · rw [show ((k : ℕ) : ℤ) + 1 = ((k + 1 : ℕ) : ℤ) by push_cast; rfl, zpow_natCast, div_lt_iff₀ hd']
      have : (n : ℚ) < ((d * 10 ^ (k + 1) : ℕ) : ℚ) := by exact_mod_cast b
      push_cast at this; linarith
  · rename_i h
    have h1 : n * 10 ^ 0 < d := by simpa using Nat.lt_of_not_le h
    have h2 : d ≤ n * 10 ^ (0 + 1 + d) := by
      have := lt_ten_pow (0 + 1 + d)
      calc d ≤ 10 ^ (0 + 1 + d) := by omega
        _ ≤ n * 10 ^ (0 + 1 + d) := Nat.le_mul_of_pos_left _ hn
    obtain ⟨a, b, c⟩ := expDown_spec n d d 0 h1 h2
    rw [show (0 : ℕ) + 1 = 1 from rfl] at a b c
    generalize expDown n d d 1 = k at a b c
    obtain ⟨j, rfl⟩ : ∃ j, k = j + 1 := ⟨k - 1, by omega⟩
    simp only [Nat.add_sub_cancel] at b
    have hp : (0 : ℚ) < 10 ^ (j + 1) := by positivity
    have hp' : (0 : ℚ) < 10 ^ j := by positivity
    constructor
    · rw [zpow_neg, zpow_natCast, le_div_iff₀ hd', inv_mul_le_iff₀ hp]
      have : ((d : ℕ) : ℚ) ≤ ((n * 10 ^ (j + 1) : ℕ) : ℚ) := by exact_mod_cast a
      push_cast at this; linarith
    · rw [show -(((j + 1 : ℕ)) : ℤ) + 1 = -((j : ℕ) : ℤ) by push_cast; ring, zpow_neg, zpow_natCast,
        div_lt_iff₀ hd', lt_inv_mul_iff₀ hp']
      have : ((n * 10 ^ j : ℕ) : ℚ) < ((d : ℕ) : ℚ) := by exact_mod_cast b
      push_cast at this; linarith

/-- the decimal exponent is unique -/
theorem exp_unique (x : ℚ) (a b : ℤ) (ha : (10 : ℚ) ^ a ≤ x) (ha' : x < (10 : ℚ) ^ (a + 1))
    (hb : (10 : ℚ) ^ b ≤ x) (hb' : x < (10 : ℚ) ^ (b + 1)) : a = b := by
  have h10 : (1 : ℚ) < 10 := by norm_num
  have h1 : a < b + 1 := (zpow_lt_zpow_iff_right₀ h10).mp (lt_of_le_of_lt ha hb')
  have h2 : b < a + 1 := (zpow_lt_zpow_iff_right₀ h10).mp (lt_of_le_of_lt hb ha')
  omega

/-! ### rounding to four significant digits -/

/-- the scaled fraction is `(n/d) / 10^(e-3)` -/
theorem scaled_eq (n d : Nat) (hd : 0 < d) (e : ℤ) :
    0 < scaledD d e ∧ ((scaledN n e : ℕ) : ℚ) / ((scaledD d e : ℕ) : ℚ) = ((n : ℚ) / d) / (10 : ℚ) ^ (e - 3) := by
  have hd' : (d : ℚ) ≠ 0 := by exact_mod_cast hd.ne'
  unfold scaledN scaledD
  split
  · rename_i h
    refine ⟨hd, ?_⟩
    obtain ⟨k, hk⟩ : ∃ k : ℕ, e = 3 - (k : ℤ) := ⟨(3 - e).toNat, by omega⟩
    subst hk
    have : (3 - (3 - (k : ℤ))).toNat = k := by omega
    rw [this, show (3 : ℤ) - k - 3 = -(k : ℤ) by ring, zpow_neg, zpow_natCast]
    push_cast
    field_simp
  · rename_i h
    obtain ⟨k, hk⟩ : ∃ k : ℕ, e = 3 + (k : ℤ) := ⟨(e - 3).toNat, by omega⟩
    subst hk
    have : (3 + (k : ℤ) - 3).toNat = k := by omega
    rw [this, show (3 : ℤ) + k - 3 = (k : ℤ) by ring, zpow_natCast]
    refine ⟨Nat.mul_pos hd (by positivity), ?_⟩
    push_cast
    field_simp

/-- round-half-even is within one half -/
theorem rne_spec (N D : Nat) (hD : 0 < D) : |((rne N D : ℕ) : ℚ) - (N : ℚ) / D| ≤ 1 / 2 := by
  have hD' : (0 : ℚ) < D := by exact_mod_cast hD
  have hdm := Nat.div_add_mod N D
  have hlt := Nat.mod_lt N hD
  generalize hX : D * (N / D) = X at hdm
  have key : 2 * (rne N D) * D ≤ 2 * N + D ∧ 2 * N ≤ 2 * (rne N D) * D + D := by
    unfold rne
    simp only
    have e1 : 2 * (N / D) * D = 2 * X := by rw [← hX]; ring
    have e2 : 2 * (N / D + 1) * D = 2 * X + 2 * D := by rw [← hX]; ring
    split
    · rw [e1]; omega
    · split
      · rw [e2]; omega
      · split
        · rw [e1]; omega
        · rw [e2]; omega
  obtain ⟨k1, k2⟩ := key
  have q1 : (2 : ℚ) * (rne N D : ℕ) * D ≤ 2 * N + D := by exact_mod_cast k1
  have q2 : (2 : ℚ) * N ≤ 2 * (rne N D : ℕ) * D + D := by exact_mod_cast k2
  generalize hm : ((rne N D : ℕ) : ℚ) = m at q1 q2 ⊢
  generalize hy : (N : ℚ) / D = y
  have hN : (N : ℚ) = y * D := by rw [← hy]; field_simp
  rw [hN] at q1 q2
  rw [abs_le]
  constructor
  · have h : (2 * y - 1) * D ≤ (2 * m) * D := by linarith
    have := le_of_mul_le_mul_right h hD'
    linarith
  · have h : (2 * m) * D ≤ (2 * y + 1) * D := by linarith
    have := le_of_mul_le_mul_right h hD'
    linarith

/-- exact multiples are not moved -/
theorem rne_exact (m D : Nat) (hD : 0 < D) : rne (m * D) D = m := by
  unfold rne
  simp [Nat.mul_div_cancel _ hD, hD]

/-- what `dec4pos` computes, in one statement: with `e` the decimal exponent of `x = n/d` and `s = 10^(e-3)` the unit of
    the fourth significant digit, the value is a multiple `m·s` with `|m·s - x| ≤ s/2`, and the stored mantissa has four
    digits. -/
theorem dec4pos_spec (n d : Nat) (hn : 0 < n) (hd : 0 < d) :
    1000 ≤ (dec4pos n d).m ∧ (dec4pos n d).m ≤ 9999 ∧
    |(dec4pos n d).value - (n : ℚ) / d| ≤ 5 * (10 : ℚ) ^ (exp10 n d - 4) := by
  obtain ⟨hlo, hhi⟩ := exp10_spec n d hn hd
  obtain ⟨hDpos, hsc⟩ := scaled_eq n d hd (exp10 n d)
  have hr := rne_spec (scaledN n (exp10 n d)) (scaledD d (exp10 n d)) hDpos
  rw [hsc] at hr
  have hdef : dec4pos n d = if 10000 ≤ rne (scaledN n (exp10 n d)) (scaledD d (exp10 n d)) then ⟨1000, exp10 n d + 1⟩
      else ⟨rne (scaledN n (exp10 n d)) (scaledD d (exp10 n d)), exp10 n d⟩ := rfl
  generalize dec4pos n d = X at *
  generalize exp10 n d = e at *
  generalize hx : (n : ℚ) / d = x at *
  have hs : (0 : ℚ) < 10 ^ (e - 3) := zpow_pos (by norm_num) _
  -- y = x / s lies in [1000, 10000)
  have e1 : (10 : ℚ) ^ e = 1000 * 10 ^ (e - 3) := by
    rw [show e = (e - 3) + 3 by ring, zpow_add₀ (by norm_num)]; norm_num; ring
  have e2 : (10 : ℚ) ^ (e + 1) = 10000 * 10 ^ (e - 3) := by
    rw [show e + 1 = (e - 3) + 4 by ring, zpow_add₀ (by norm_num)]; norm_num; ring
  have e3 : (10 : ℚ) ^ (e - 3) = 10 * 10 ^ (e - 4) := by
    rw [show e - 3 = (e - 4) + 1 by ring, zpow_add₀ (by norm_num)]; norm_num; ring
  have ylo : 1000 ≤ x / 10 ^ (e - 3) := by rw [le_div_iff₀ hs]; linarith
  have yhi : x / 10 ^ (e - 3) < 10000 := by rw [div_lt_iff₀ hs]; linarith
  generalize hm : rne (scaledN n e) (scaledD d e) = m at hr hdef
  obtain ⟨r1, r2⟩ := abs_le.mp hr
  have mlo : 1000 ≤ m := by
    have : (999 : ℚ) < (m : ℚ) := by linarith
    exact_mod_cast this
  have mhi : m ≤ 10000 := by
    have : (m : ℚ) < 10001 := by linarith
    have : m < 10001 := by exact_mod_cast this
    omega
  have hval : X.value = (m : ℚ) * 10 ^ (e - 3) ∧ 1000 ≤ X.m ∧ X.m ≤ 9999 := by
    rw [hdef]
    split
    · rename_i h
      have hm10 : m = 10000 := by omega
      refine ⟨?_, by simp, by simp⟩
      simp only [Dec.value, pow10_eq, hm10]
      rw [show e + 1 - 3 = (e - 3) + 1 by ring, zpow_add₀ (by norm_num)]
      push_cast; ring
    · rename_i h
      exact ⟨by simp only [Dec.value, pow10_eq], mlo, by show m ≤ 9999; omega⟩
  refine ⟨hval.2.1, hval.2.2, ?_⟩
  rw [hval.1]
  have : (m : ℚ) * 10 ^ (e - 3) - x = ((m : ℚ) - x / 10 ^ (e - 3)) * 10 ^ (e - 3) := by
    field_simp
  rw [this, abs_mul, abs_of_pos hs]
  calc |(m : ℚ) - x / 10 ^ (e - 3)| * 10 ^ (e - 3) ≤ 1 / 2 * 10 ^ (e - 3) := by
        exact mul_le_mul_of_nonneg_right hr hs.le
    _ = 5 * 10 ^ (e - 4) := by rw [e3]; ring

/-- a number that already is `m·10^(e-3)` with a four-digit `m` decomposes into exactly that -/
theorem dec4pos_of_value (n d m : Nat) (e : ℤ) (hn : 0 < n) (hd : 0 < d) (hm1 : 1000 ≤ m) (hm2 : m ≤ 9999)
    (hv : (n : ℚ) / d = (m : ℚ) * 10 ^ (e - 3)) : dec4pos n d = ⟨m, e⟩ := by
  obtain ⟨hlo, hhi⟩ := exp10_spec n d hn hd
  have hs : (0 : ℚ) < 10 ^ (e - 3) := zpow_pos (by norm_num) _
  have e1 : (10 : ℚ) ^ e = 1000 * 10 ^ (e - 3) := by
    rw [show e = (e - 3) + 3 by ring, zpow_add₀ (by norm_num)]; norm_num; ring
  have e2 : (10 : ℚ) ^ (e + 1) = 10000 * 10 ^ (e - 3) := by
    rw [show e + 1 = (e - 3) + 4 by ring, zpow_add₀ (by norm_num)]; norm_num; ring
  have m1 : (1000 : ℚ) ≤ m := by exact_mod_cast hm1
  have m2 : (m : ℚ) ≤ 9999 := by exact_mod_cast hm2
  have he : exp10 n d = e := by
    refine exp_unique ((n : ℚ) / d) _ _ hlo hhi ?_ ?_
    · rw [hv, e1]; exact mul_le_mul_of_nonneg_right m1 hs.le
    · rw [hv, e2]; exact mul_lt_mul_of_pos_right (by linarith) hs
  obtain ⟨hDpos, hsc⟩ := scaled_eq n d hd e
  have hN : scaledN n e = m * scaledD d e := by
    have hD' : ((scaledD d e : ℕ) : ℚ) ≠ 0 := by exact_mod_cast hDpos.ne'
    have : ((scaledN n e : ℕ) : ℚ) = (m : ℚ) * ((scaledD d e : ℕ) : ℚ) := by
      rw [hv, mul_div_assoc, div_self hs.ne', mul_one] at hsc
      rw [← hsc]; field_simp
    exact_mod_cast this
  have hdef : dec4pos n d = if 10000 ≤ rne (scaledN n (exp10 n d)) (scaledD d (exp10 n d)) then ⟨1000, exp10 n d + 1⟩
      else ⟨rne (scaledN n (exp10 n d)) (scaledD d (exp10 n d)), exp10 n d⟩ := rfl
  rw [hdef, he, hN, rne_exact _ _ hDpos, if_neg (by omega)]

theorem natAbs_div_den (q : ℚ) : ((q.num.natAbs : ℕ) : ℚ) / (q.den : ℚ) = |q| := by
  conv_rhs => rw [← Rat.num_div_den q]
  rw [abs_div, Nat.cast_natAbs, Int.cast_abs]
  simp

theorem num_natAbs_pos (q : ℚ) (h : q ≠ 0) : 0 < q.num.natAbs := by
  have : q.num ≠ 0 := Rat.num_ne_zero.mpr h
  omega

/-- the positive part of `round4`: the decomposition of `|q|` -/
def decOf (q : ℚ) : Dec := dec4pos q.num.natAbs q.den

theorem round4_eq (q : ℚ) : round4 q = if q = 0 then 0 else if q < 0 then -(decOf q).value else (decOf q).value := rfl

theorem decOf_value_pos (q : ℚ) (h : q ≠ 0) : 0 < (decOf q).value := by
  obtain ⟨h1, _, _⟩ := dec4pos_spec q.num.natAbs q.den (num_natAbs_pos q h) q.den_pos
  unfold decOf Dec.value
  rw [pow10_eq]
  have : (0 : ℚ) < ((dec4pos q.num.natAbs q.den).m : ℚ) := by
    have : 0 < (dec4pos q.num.natAbs q.den).m := by omega
    exact_mod_cast this
  exact mul_pos this (zpow_pos (by norm_num) _)

/-! ### the constructor tests -/

theorem mkContract_ok (a g : TL) (ins outs : List Var) (h1 : ins.Nodup) (h2 : outs.Nodup) (h3 : ∀ x ∈ ins, x ∉ outs)
    (h4 : ∀ x ∈ a.vars, x ∈ ins) (h5 : ∀ x ∈ g.vars, x ∈ ins ∨ x ∈ outs) :
    mkContract a g ins outs = .ok ⟨a, g, ins, outs⟩ := by
  have e1 := (hasDup_false_iff ins).mpr h1
  have e2 := (hasDup_false_iff outs).mpr h2
  have e3 := (Gen.list_intersection_isEmpty_iff ins outs).mpr h3
  have e4 := (Gen.list_diff_isEmpty_iff a.vars ins).mpr h4
  have e5 := (Gen.list_diff_isEmpty_iff g.vars (Gen.list_union ins outs)).mpr
    (fun x hx => (Gen.mem_list_union ins outs x).mpr (h5 x hx))
  simp [mkContract, e1, e2, e3, e4, e5]

theorem mkContract_inv (a g : TL) (ins outs : List Var) (c : PContract) (h : mkContract a g ins outs = .ok c) :
    c = ⟨a, g, ins, outs⟩ ∧ ins.Nodup ∧ outs.Nodup ∧ (∀ x ∈ ins, x ∉ outs) ∧ (∀ x ∈ a.vars, x ∈ ins) ∧
      (∀ x ∈ g.vars, x ∈ ins ∨ x ∈ outs) := by
  unfold mkContract at h
  split at h; · cases h
  split at h; · cases h
  split at h; · cases h
  split at h; · cases h
  split at h; · cases h
  rename_i e1 e2 e3 e4 e5
  injection h with h
  simp only [Bool.not_eq_true, Bool.not_eq_eq_eq_not, Bool.not_true] at e1 e2 e3 e4 e5
  refine ⟨h.symm, (hasDup_false_iff ins).mp e1, (hasDup_false_iff outs).mp e2,
    (Gen.list_intersection_isEmpty_iff ins outs).mp (by simpa using e3),
    (Gen.list_diff_isEmpty_iff a.vars ins).mp (by simpa using e4), ?_⟩
  intro x hx
  exact (Gen.mem_list_union ins outs x).mp ((Gen.list_diff_isEmpty_iff g.vars _).mp (by simpa using e5) x hx)

theorem mapM_ok_forall {α β : Type} (f : α → Except Err β) : ∀ (l : List α) (r : List β), l.mapM f = .ok r →
    ∀ y ∈ r, ∃ x ∈ l, f x = .ok y
  | [], r, h, y, hy => by
    simp only [List.mapM_nil] at h
    cases h; cases hy
  | x :: l, r, h, y, hy => by
    simp only [List.mapM_cons] at h
    cases hx : f x with
    | error e => rw [hx] at h; cases h
    | ok b =>
      cases hl : l.mapM f with
      | error e => rw [hx, hl] at h; cases h
      | ok r' =>
        rw [hx, hl] at h
        cases h
        rcases List.mem_cons.mp hy with rfl | hy
        · exact ⟨x, List.mem_cons_self, hx⟩
        · obtain ⟨x', hx', hf⟩ := mapM_ok_forall f l r' hl y hy
          exact ⟨x', List.mem_cons_of_mem _ hx', hf⟩

theorem termOfJ_normal (x : J) (t : PTerm) (h : termOfJ x = .ok t) : normC t.coeffs = t.coeffs := by
  unfold termOfJ at h
  split at h
  · cases h
  · split at h
    · cases h
    · split at h
      · injection h with h; rw [← h]; exact normC_idem _
      · cases h
      · cases h
  · cases h

theorem termsOfJ_normal (j : J) (l : TL) (h : termsOfJ j = .ok l) : ∀ t ∈ l, normC t.coeffs = t.coeffs := by
  unfold termsOfJ at h
  split at h
  · cases h
  · split at h
    · intro t ht
      obtain ⟨x, _, hx⟩ := mapM_ok_forall termOfJ _ _ h t ht
      exact termOfJ_normal x t hx
    · cases h

/-! ### folding opposite pairs -/

/-- exactly opposite: the same variables with exactly negated coefficients -/
def ExactOpp (tp tn : PTerm) : Prop := tn.coeffs = tp.coeffs.map (fun p => (p.1, -p.2))

theorem evalL_negmap (l : Lin) (v : Val) : evalL (l.map fun p => (p.1, -p.2)) v = - evalL l v := by
  induction l with
  | nil => simp [evalL]
  | cons p r ih => simp only [List.map_cons, evalL, ih]; ring

theorem rabs_eq_abs (q : ℚ) : Poly.rabs q = |q| := by
  unfold Poly.rabs
  split
  · rename_i h; rw [abs_of_neg h]
  · rename_i h; rw [abs_of_nonneg (not_lt.mp h)]

theorem approxEq_iff (a b : ℚ) : approxEq a b = true ↔ |a - b| ≤ 1 / 100000000 + 1 / 100000 * |b| := by
  simp [approxEq, rabs_eq_abs, atol, rtol]

theorem approxEq_self (a : ℚ) : approxEq a a = true := by
  rw [approxEq_iff, sub_self, abs_zero]
  have := abs_nonneg a
  linarith

theorem coeffOf_negmap (x : Var) (l : Lin) : coeffOf x (l.map fun p => (p.1, -p.2)) = - coeffOf x l := by
  induction l with
  | nil => simp [coeffOf]
  | cons p r ih =>
    simp only [List.map_cons, coeffOf, ih]
    split <;> ring

theorem coeffOf_of_lt (x : Var) (r : Lin) (h : ∀ y ∈ r, x < y.1) : coeffOf x r = 0 := by
  induction r with
  | nil => rfl
  | cons y r' ih =>
    have hy : x < y.1 := h y List.mem_cons_self
    simp only [coeffOf]
    rw [if_neg (Nat.ne_of_gt hy)]
    exact ih (fun z hz => h z (List.mem_cons_of_mem _ hz))

theorem coeffOf_sorted_mem (l : Lin) (h : l.Pairwise (fun a b => a.1 < b.1)) (p : Var × ℚ) (hp : p ∈ l) :
    coeffOf p.1 l = p.2 := by
  induction l with
  | nil => cases hp
  | cons q r ih =>
    obtain ⟨hq, hr⟩ := List.pairwise_cons.mp h
    rcases List.mem_cons.mp hp with rfl | hp'
    · simp only [coeffOf, if_true]
      rw [coeffOf_of_lt p.1 r hq]; ring
    · have hlt : q.1 < p.1 := hq p hp'
      simp only [coeffOf]
      rw [if_neg (Nat.ne_of_lt hlt)]
      exact ih hr hp'

/-- exactly opposite terms in normal form pass the code's (approximate) opposite test -/
theorem areOpposite_of_exact (tp tn : PTerm) (hs : SortedNZ tp.coeffs) (h : ExactOpp tp tn) : areOpposite tp tn = true := by
  unfold ExactOpp at h
  have hv : tn.vars = tp.vars := by
    simp only [PTerm.vars, varsL, h, List.map_map]; rfl
  unfold areOpposite
  simp only [Bool.and_eq_true, List.all_eq_true]
  constructor
  · intro x hx
    simp only [PTerm.containsVar, List.contains_iff_mem]
    rw [← hv]; exact hx
  · intro p hp
    constructor
    · simp only [PTerm.containsVar, List.contains_iff_mem, hv]
      exact List.mem_map.mpr ⟨p, hp, rfl⟩
    · simp only [PTerm.coeff, h, coeffOf_negmap, coeffOf_sorted_mem _ hs.1 p hp]
      exact approxEq_self _

theorem holds_erase (ts : TL) (tn : PTerm) (h : tn ∈ ts) (v : Val) :
    TL.holds ts v ↔ tn.holds v ∧ TL.holds (ts.erase tn) v := by
  constructor
  · intro hh
    exact ⟨hh tn h, fun t ht => hh t (List.mem_of_mem_erase ht)⟩
  · rintro ⟨h1, h2⟩ t ht
    by_cases e : t = tn
    · rw [e]; exact h1
    · exact h2 t ((List.mem_erase_of_ne e).mpr ht)

/-- what the partner search returns: a member of the list that passed the opposite test and the rule's tests -/
theorem findFold_spec (tp : PTerm) (ts : TL) :
    match findFold tp ts with
    | .le => True
    | .eq tn => tn ∈ ts ∧ areOpposite tp tn = true ∧ approxEq tp.const (-tn.const) = true
    | .abs0 tn => tn ∈ ts ∧ areOpposite tp tn = true ∧ approxEq tp.const 0 = true ∧ approxEq tn.const 0 = true
    | .absle tn => tn ∈ ts ∧ areOpposite tp tn = true ∧ approxEq tp.const tn.const = true := by
  induction ts with
  | nil => simp [findFold]
  | cons t r ih =>
    have lift : (match findFold tp r with
        | .le => True
        | .eq tn => tn ∈ t :: r ∧ areOpposite tp tn = true ∧ approxEq tp.const (-tn.const) = true
        | .abs0 tn => tn ∈ t :: r ∧ areOpposite tp tn = true ∧ approxEq tp.const 0 = true ∧ approxEq tn.const 0 = true
        | .absle tn => tn ∈ t :: r ∧ areOpposite tp tn = true ∧ approxEq tp.const tn.const = true) := by
      revert ih
      cases findFold tp r with
      | le => exact fun _ => trivial
      | eq tn => exact fun ih => ⟨List.mem_cons_of_mem _ ih.1, ih.2⟩
      | abs0 tn => exact fun ih => ⟨List.mem_cons_of_mem _ ih.1, ih.2⟩
      | absle tn => exact fun ih => ⟨List.mem_cons_of_mem _ ih.1, ih.2⟩
    unfold findFold
    by_cases ho : areOpposite tp t = true
    · rw [if_pos ho]
      by_cases h1 : approxEq tp.const (-t.const) = true
      · rw [if_pos h1]; exact ⟨List.mem_cons_self, ho, h1⟩
      · rw [if_neg h1]
        by_cases h2 : (approxEq tp.const 0 && approxEq t.const 0) = true
        · rw [if_pos h2]
          simp only [Bool.and_eq_true] at h2
          exact ⟨List.mem_cons_self, ho, h2.1, h2.2⟩
        · rw [if_neg h2]
          by_cases h3 : approxEq tp.const t.const = true
          · rw [if_pos h3]; exact ⟨List.mem_cons_self, ho, h3⟩
          · rw [if_neg h3]; exact lift
    · rw [if_neg ho]; exact lift

end Serial
