import Pacti.Model.Algebra
import Pacti.Proofs.Lists
/-! Generic soundness of the contract algebra for ANY primitives meeting `Spec` (C05; reused by C01, C02, C08). -/

namespace Alg
variable {T : Type} [DecidableEq T]

/-- conjunction of a term list -/
def H (holds : T → Val → Prop) (l : List T) (v : Val) : Prop := ∀ t ∈ l, holds t v

/-- the documented contracts of the four primitives — nothing else is assumed of them -/
structure Spec (holds : T → Val → Prop) (P : Prims T) (okOrd : List Nat → Prop := fun _ => True) : Prop where
  refine_ok : ∀ s l Γ xs b o r, okOrd o → P.elimRefine s l Γ xs b o = .ok r → ∀ v, H holds Γ v → H holds r v → H holds l v
  relax_ok  : ∀ s l Γ xs b o r, okOrd o → P.elimRelax s l Γ xs b o = .ok r → ∀ v, H holds Γ v → H holds l v → H holds r v
  simp_ok   : ∀ s l Γ r, P.simplify s l Γ = .ok r → ∀ v, (∀ g, Γ = some g → H holds g v) → (H holds r v ↔ H holds l v)
  refines_ok : ∀ s l r, P.refines s l r = .ok true → ∀ v, H holds l v → H holds r v

/-- primitives fail only with `ValueError` (or the model-only `oracleStuck`) -/
structure ErrSpec (P : Prims T) : Prop where
  refine_err : ∀ s l Γ xs b o e, P.elimRefine s l Γ xs b o = .error e → e = .valueError ∨ e = .oracleStuck
  relax_err  : ∀ s l Γ xs b o e, P.elimRelax s l Γ xs b o = .error e → e = .valueError ∨ e = .oracleStuck
  simp_err   : ∀ s l Γ e, P.simplify s l Γ = .error e → e = .valueError ∨ e = .oracleStuck
  refines_err : ∀ s l r e, P.refines s l r = .error e → e = .valueError ∨ e = .oracleStuck

variable (holds : T → Val → Prop) {okOrd : List Nat → Prop}

theorem H_nil (v : Val) : H holds ([] : List T) v := by intro t ht; cases ht

theorem H_union (a b : List T) (v : Val) : H holds (Gen.list_union a b) v ↔ H holds a v ∧ H holds b v := by
  unfold H
  constructor
  · intro h; exact ⟨fun t ht => h t (by simp [ht]), fun t ht => h t (by simp [ht])⟩
  · rintro ⟨ha, hb⟩ t ht
    rcases (Gen.mem_list_union a b t).mp ht with h | h
    · exact ha t h
    · exact hb t h

theorem H_diff (a b : List T) (v : Val) (h : H holds a v) : H holds (Gen.list_diff a b) v := by
  intro t ht; exact h t ((Gen.mem_list_diff a b t).mp ht).1

theorem mk_sem (vars : T → List Var) (P : Prims T) (hP : Spec holds P okOrd) {a g : List T} {ins outs : List Var} {s : Bool} {c : Contract T}
    (h : mkContract vars P a g ins outs s = .ok c) :
    c.a = a ∧ c.ins = ins ∧ c.outs = outs ∧ ∀ v, H holds a v → (H holds c.g v ↔ H holds g v) := by
  unfold mkContract at h
  split at h; · cases h
  split at h
  · split at h
    · rename_i g' hs
      injection h with h; subst h
      exact ⟨rfl, rfl, rfl, fun v hv => hP.simp_ok _ _ _ _ hs v (fun g0 hg0 => by injection hg0 with e; subst e; exact hv)⟩
    · cases h
  · injection h with h; subst h
    exact ⟨rfl, rfl, rfl, fun v _ => Iff.rfl⟩

theorem mk_err (vars : T → List Var) (P : Prims T) (hE : ErrSpec P) {a g : List T} {ins outs : List Var} {s : Bool} {e : Err}
    (h : mkContract vars P a g ins outs s = .error e) : e = .incompatibleArgs ∨ e = .valueError ∨ e = .oracleStuck := by
  unfold mkContract at h
  split at h
  · injection h with h; exact Or.inl h.symm
  split at h
  · split at h
    · cases h
    · rename_i e' hs
      injection h with h; subst h
      exact Or.inr (hE.simp_err _ _ _ _ hs)
  · cases h

theorem orElse_refine (P : Prims T) (hP : Spec holds P okOrd) (s : Site) (l Γ : List T) (xs : List Var) (b : Bool) (o : List Nat) (ho : okOrd o) (v : Val) (r' : List T)
    (hΓ : H holds Γ v) (he : orElse (P.elimRefine s l Γ xs b o) l = .ok r') (h : H holds r' v) : H holds l v := by
  unfold orElse at he
  split at he
  · rename_i r hr; injection he with e; subst e; exact hP.refine_ok _ _ _ _ _ _ _ ho hr v hΓ h
  · injection he with e; subst e; exact h
  · injection he with e; subst e; exact h
  · cases he

/-- both operands' assumptions follow from the computed assumptions once each operand honours its contract -/
theorem composeAssumptions_sound (vars : T → List Var) (P : Prims T) (hP : Spec holds P okOrd) (c1 c2 : Contract T)
    (I : Gen.ComposeIface Var) (ord : List Nat) (ho : okOrd ord) (asm0 : List T)
    (h : composeAssumptions vars P c1 c2 I ord = .ok asm0) (v : Val) (hasm : H holds asm0 v)
    (h1 : H holds c1.a v → H holds c1.g v) (h2 : H holds c2.a v → H holds c2.g v) :
    H holds c1.a v ∧ H holds c2.a v := by
  unfold composeAssumptions at h
  split at h; · cases h
  split at h
  · split at h; · cases h
    rename_i na hna
    split at h; · cases h
    injection h with e; subst e
    have ⟨hna', ha1⟩ := (H_union holds _ _ v).mp hasm
    exact ⟨ha1, hP.refine_ok _ _ _ _ _ _ _ ho hna v ((H_union holds _ _ v).mpr ⟨ha1, h1 ha1⟩) hna'⟩
  split at h
  · split at h; · cases h
    rename_i na hna
    split at h; · cases h
    injection h with e; subst e
    have ⟨hna', ha2⟩ := (H_union holds _ _ v).mp hasm
    exact ⟨hP.refine_ok _ _ _ _ _ _ _ ho hna v ((H_union holds _ _ v).mpr ⟨ha2, h2 ha2⟩) hna', ha2⟩
  · injection h with e; subst e
    exact (H_union holds _ _ v).mp hasm

theorem compose_sound (vars : T → List Var) (P : Prims T) (hP : Spec holds P okOrd) (c1 c2 c : Contract T) (keep : List Var) (simp : Bool)
    (ord : List Nat) (ho : okOrd ord) (h : compose vars P c1 c2 keep simp ord = .ok c) :
    ∀ v, H holds c.a v → (H holds c1.a v → H holds c1.g v) → (H holds c2.a v → H holds c2.g v) →
      H holds c1.a v ∧ H holds c2.a v ∧ H holds c.g v := by
  intro v hca h1 h2
  unfold compose at h
  simp only at h
  split at h; · cases h
  split at h; · cases h
  split at h; · cases h
  rename_i asm0 hasm
  split at h; · cases h
  rename_i asm1 hsimp
  split at h; · cases h
  rename_i g1 hg1
  split at h; · cases h
  rename_i g2 hg2
  split at h; · cases h
  rename_i all hall
  obtain ⟨hca_eq, _, _, hcg⟩ := mk_sem holds vars P hP h
  rw [hca_eq] at hca
  have hasm0 : H holds asm0 v := by
    by_cases hs : simp = true
    · rw [if_pos hs] at hsimp
      exact (hP.simp_ok _ _ _ _ hsimp v (fun g hg => by cases hg)).mp hca
    · rw [if_neg hs] at hsimp; injection hsimp with e; subst e; exact hca
  have hboth := composeAssumptions_sound holds vars P hP c1 c2 _ ord ho asm0 hasm v hasm0 h1 h2
  refine ⟨hboth.1, hboth.2, ?_⟩
  have G1 := h1 hboth.1
  have G2 := h2 hboth.2
  have hg1v := hP.relax_ok _ _ _ _ _ _ _ ho hg1 v G2 G1
  have hg2v := hP.relax_ok _ _ _ _ _ _ _ ho hg2 v G1 G2
  have hallv := hP.relax_ok _ _ _ _ _ _ _ ho hall v hca ((H_union holds _ _ v).mpr ⟨hg1v, hg2v⟩)
  exact (hcg v hca).mpr ((H_union holds _ _ v).mpr
    ⟨H_diff holds _ _ v hallv, H_diff holds _ _ v ((H_union holds _ _ v).mpr ⟨G1, G2⟩)⟩)

theorem quotient_sound (vars : T → List Var) (P : Prims T) (hP : Spec holds P okOrd) (c c1 q : Contract T) (addl : List Var) (simp : Bool)
    (ord : List Nat) (ho : okOrd ord) (h : quotient vars P c c1 addl simp ord = .ok q) :
    ∀ v, H holds c.a v → (H holds c1.a v → H holds c1.g v) → (H holds q.a v → H holds q.g v) →
      H holds c1.a v ∧ H holds q.a v ∧ H holds c.g v := by
  intro v hca h1 hq
  unfold quotient at h
  simp only at h
  split at h; · cases h
  split at h; · cases h
  split at h; · cases h
  rename_i rf hrf
  split at h; · cases h
  rename_i asm hasm
  split at h; · cases h
  rename_i g0 hg0e
  split at h; · cases h
  rename_i g2 hg2e
  split at h; · cases h
  obtain ⟨hqa, _, _, hqg⟩ := mk_sem holds vars P hP h
  have hqav : H holds q.a v := by
    rw [hqa]
    apply hP.relax_ok _ _ _ _ _ _ _ ho hasm v (H_nil holds v)
    by_cases hr : rf = true
    · subst hr
      have ha1 := hP.refines_ok _ _ _ hrf v hca
      simp only [if_true]
      exact (H_union holds _ _ v).mpr ⟨hca, h1 ha1⟩
    · simp only [hr]; exact hca
  have hqgv := hq hqav
  have hqav' := hqav
  rw [hqa] at hqav'
  have hg2 := (hqg v hqav').mp hqgv
  have hg1 := orElse_refine holds P hP _ _ _ _ _ _ ho v g2 hca hg2e hg2
  obtain ⟨hg0, ha1⟩ := (H_union holds _ _ v).mp hg1
  have hG1 := h1 ha1
  exact ⟨ha1, hqav, orElse_refine holds P hP _ _ _ _ _ _ ho v g0 ((H_union holds _ _ v).mpr ⟨hG1, ha1⟩) hg0e hg0⟩

theorem merge_exact (vars : T → List Var) (P : Prims T) (hP : Spec holds P okOrd) (c1 c2 m : Contract T)
    (h : merge vars P c1 c2 = .ok m) :
    (∀ v, H holds m.a v ↔ H holds c1.a v ∧ H holds c2.a v) ∧
    (∀ v, H holds m.a v → (H holds m.g v ↔ H holds c1.g v ∧ H holds c2.g v)) := by
  unfold merge at h
  obtain ⟨hma, _, _, hmg⟩ := mk_sem holds vars P hP h
  constructor
  · intro v; rw [hma]; exact H_union holds _ _ v
  · intro v hv
    rw [hma] at hv
    rw [hmg v hv]; exact H_union holds _ _ v

theorem refinesC_sound (P : Prims T) (hP : Spec holds P okOrd) (c d : Contract T) (h : refinesC P c d = .ok true) :
    (∀ v, H holds d.a v → H holds c.a v) ∧ (∀ v, H holds d.a v → H holds c.g v → H holds d.g v) := by
  unfold refinesC at h
  split at h; · cases h
  split at h; · cases h
  rename_i b1 h1
  split at h; · cases h
  rename_i b2 h2
  injection h with h
  simp only [Bool.and_eq_true] at h
  rw [h.1] at h1; rw [h.2] at h2
  refine ⟨hP.refines_ok _ _ _ h1, fun v ha hg => ?_⟩
  exact ((H_union holds _ _ v).mp (hP.refines_ok _ _ _ h2 v ((H_union holds _ _ v).mpr ⟨hg, ha⟩))).1

/-! errors -/

theorem compose_errors (vars : T → List Var) (P : Prims T) (hE : ErrSpec P) (c1 c2 : Contract T) (keep : List Var) (simp : Bool)
    (ord : List Nat) (e : Err) (h : compose vars P c1 c2 keep simp ord = .error e) :
    e = .incompatibleArgs ∨ e = .valueError ∨ e = .oracleStuck := by
  unfold compose at h
  simp only at h
  split at h; · injection h with h; exact Or.inl h.symm
  split at h; · injection h with h; exact Or.inl h.symm
  split at h
  · rename_i e' hasm
    injection h with h; subst h
    unfold composeAssumptions at hasm
    split at hasm; · injection hasm with h; exact Or.inl h.symm
    split at hasm
    · split at hasm
      · rename_i e'' hr; injection hasm with h; subst h; exact Or.inr (hE.refine_err _ _ _ _ _ _ _ hr)
      · split at hasm
        · injection hasm with h; exact Or.inl h.symm
        · cases hasm
    split at hasm
    · split at hasm
      · rename_i e'' hr; injection hasm with h; subst h; exact Or.inr (hE.refine_err _ _ _ _ _ _ _ hr)
      · split at hasm
        · injection hasm with h; exact Or.inl h.symm
        · cases hasm
    · cases hasm
  split at h
  · rename_i e' hs
    injection h with h; subst h
    split at hs
    · exact Or.inr (hE.simp_err _ _ _ _ hs)
    · cases hs
  split at h
  · rename_i e' hr; injection h with h; subst h; exact Or.inr (hE.relax_err _ _ _ _ _ _ _ hr)
  split at h
  · rename_i e' hr; injection h with h; subst h; exact Or.inr (hE.relax_err _ _ _ _ _ _ _ hr)
  split at h
  · rename_i e' hr; injection h with h; subst h; exact Or.inr (hE.relax_err _ _ _ _ _ _ _ hr)
  exact mk_err vars P hE h

theorem orElse_err (P : Prims T) (hE : ErrSpec P) (s : Site) (l Γ : List T) (xs : List Var) (b : Bool) (o : List Nat) (d : List T) (e : Err)
    (h : orElse (P.elimRefine s l Γ xs b o) d = .error e) : e = .valueError ∨ e = .oracleStuck := by
  unfold orElse at h
  split at h
  · cases h
  · cases h
  · cases h
  · rename_i e' hne1 hne2 hr
    injection h with h; subst h
    exact hE.refine_err _ _ _ _ _ _ _ hr

theorem quotient_errors (vars : T → List Var) (P : Prims T) (hE : ErrSpec P) (c c1 : Contract T) (addl : List Var) (simp : Bool)
    (ord : List Nat) (e : Err) (h : quotient vars P c c1 addl simp ord = .error e) :
    e = .incompatibleArgs ∨ e = .valueError ∨ e = .oracleStuck := by
  unfold quotient at h
  simp only at h
  split at h; · injection h with h; exact Or.inl h.symm
  split at h; · injection h with h; exact Or.inl h.symm
  split at h
  · rename_i e' hr; injection h with h; subst h; exact Or.inr (hE.refines_err _ _ _ _ hr)
  split at h
  · rename_i e' hr; injection h with h; subst h; exact Or.inr (hE.relax_err _ _ _ _ _ _ _ hr)
  split at h
  · rename_i e' hr; injection h with h; subst h; exact Or.inr (orElse_err P hE _ _ _ _ _ _ _ _ hr)
  split at h
  · rename_i e' hr; injection h with h; subst h; exact Or.inr (orElse_err P hE _ _ _ _ _ _ _ _ hr)
  split at h
  · injection h with h; exact Or.inl h.symm
  exact mk_err vars P hE h

theorem merge_errors (vars : T → List Var) (P : Prims T) (hE : ErrSpec P) (c1 c2 : Contract T) (e : Err)
    (h : merge vars P c1 c2 = .error e) : e = .incompatibleArgs ∨ e = .valueError ∨ e = .oracleStuck :=
  mk_err vars P hE h

end Alg

namespace Alg
variable {T : Type} [DecidableEq T] (holds : T → Val → Prop) {okOrd : List Nat → Prop}

theorem mem_withVars (vars : T → List Var) (l : List T) (xs : List Var) (t : T) :
    t ∈ withVars vars l xs ↔ t ∈ l ∧ ∃ x ∈ vars t, x ∈ xs := by
  unfold withVars
  rw [List.mem_filter]
  constructor
  · rintro ⟨h1, h2⟩
    refine ⟨h1, ?_⟩
    by_contra hn
    have : (Gen.list_intersection (vars t) xs).isEmpty = true :=
      (Gen.list_intersection_isEmpty_iff _ _).mpr (fun x hx hxs => hn ⟨x, hx, hxs⟩)
    simp [this] at h2
  · rintro ⟨h1, x, hx, hxs⟩
    refine ⟨h1, ?_⟩
    cases hh : (Gen.list_intersection (vars t) xs).isEmpty with
    | false => rfl
    | true => exact absurd hxs ((Gen.list_intersection_isEmpty_iff _ _).mp hh x hx)

/-- every operand guarantee without internal variables is enforced by the composition -/
theorem compose_keeps (vars : T → List Var) (P : Prims T) (hP : Spec holds P okOrd) (c1 c2 c : Contract T) (keep : List Var) (simp : Bool)
    (ord : List Nat) (h : compose vars P c1 c2 keep simp ord = .ok c) (t : T) (ht : t ∈ c1.g ∨ t ∈ c2.g)
    (hfree : ∀ x ∈ vars t, x ∉ (Gen.compose_iface c1.ins c1.outs c2.ins c2.outs (varsOf vars c1.a) (varsOf vars c2.a) keep).intvars) :
    ∀ v, H holds c.a v → H holds c.g v → holds t v := by
  intro v hca hcg
  unfold compose at h
  simp only at h
  split at h; · cases h
  split at h; · cases h
  split at h; · cases h
  split at h; · cases h
  split at h; · cases h
  split at h; · cases h
  split at h; · cases h
  obtain ⟨hca_eq, _, _, hg⟩ := mk_sem holds vars P hP h
  rw [hca_eq] at hca
  have := (hg v hca).mp hcg
  apply this t
  rw [Gen.mem_list_union]; right
  rw [Gen.mem_list_diff]
  refine ⟨(Gen.mem_list_union _ _ t).mpr ht, ?_⟩
  rw [mem_withVars]
  rintro ⟨_, x, hx, hxs⟩
  exact hfree x hx hxs

/-- relaxation with nothing to eliminate is an equivalence in its context (true of the polyhedral primitives) -/
def RelaxNilEquiv (P : Prims T) : Prop :=
  ∀ s l Γ b o r, P.elimRelax s l Γ [] b o = .ok r → ∀ v, H holds Γ v → (H holds r v ↔ H holds l v)

theorem withVars_nil (vars : T → List Var) (l : List T) : withVars vars l [] = [] := by
  apply List.eq_nil_iff_forall_not_mem.mpr
  intro t ht
  obtain ⟨_, x, _, hx⟩ := (mem_withVars vars l [] t).mp ht
  cases hx

theorem list_diff_nil (l : List T) : Gen.list_diff l [] = l := by
  unfold Gen.list_diff; simp

/-- no connection between the operands: the composition is exact -/
theorem compose_exact_unconnected (vars : T → List Var) (P : Prims T) (hP : Spec holds P okOrd) (hR : RelaxNilEquiv holds P)
    (c1 c2 c : Contract T) (keep : List Var) (simp : Bool) (ord : List Nat)
    (hn1 : ∀ x, ¬ (x ∈ c1.outs ∧ x ∈ c2.ins)) (hn2 : ∀ x, ¬ (x ∈ c1.ins ∧ x ∈ c2.outs))
    (h : compose vars P c1 c2 keep simp ord = .ok c) :
    (∀ v, H holds c.a v ↔ H holds c1.a v ∧ H holds c2.a v) ∧
    (∀ v, H holds c.a v → (H holds c.g v ↔ H holds c1.g v ∧ H holds c2.g v)) := by
  have e1 : Gen.list_intersection c1.outs c2.ins = [] :=
    List.eq_nil_iff_forall_not_mem.mpr (fun x hx => hn1 x ((Gen.mem_list_intersection _ _ x).mp hx))
  have e2 : Gen.list_intersection c1.ins c2.outs = [] :=
    List.eq_nil_iff_forall_not_mem.mpr (fun x hx => hn2 x ((Gen.mem_list_intersection _ _ x).mp hx))
  have e3 : Gen.list_intersection c2.outs c1.ins = [] :=
    List.eq_nil_iff_forall_not_mem.mpr (fun x hx => hn2 x ((Gen.mem_list_intersection _ _ x).mp hx).symm)
  have e4 : Gen.list_intersection c2.ins c1.outs = [] :=
    List.eq_nil_iff_forall_not_mem.mpr (fun x hx => hn1 x ((Gen.mem_list_intersection _ _ x).mp hx).symm)
  have hint : (Gen.compose_iface c1.ins c1.outs c2.ins c2.outs (varsOf vars c1.a) (varsOf vars c2.a) keep).intvars = [] := by
    simp only [Gen.compose_iface, e1, e2]
    apply List.eq_nil_iff_forall_not_mem.mpr
    intro x hx
    simp [Gen.list_union, Gen.list_diff] at hx
  have hb1 : (Gen.compose_iface c1.ins c1.outs c2.ins c2.outs (varsOf vars c1.a) (varsOf vars c2.a) keep).branch_feedback = false := by
    simp [Gen.compose_iface, e2, e4]
  have hb2 : (Gen.compose_iface c1.ins c1.outs c2.ins c2.outs (varsOf vars c1.a) (varsOf vars c2.a) keep).branch_self_helps = false := by
    simp [Gen.compose_iface, e4]
  have hb3 : (Gen.compose_iface c1.ins c1.outs c2.ins c2.outs (varsOf vars c1.a) (varsOf vars c2.a) keep).branch_other_helps = false := by
    simp [Gen.compose_iface, e3]
  unfold compose at h
  simp only at h
  split at h; · cases h
  split at h; · cases h
  split at h; · cases h
  rename_i asm0 hasm
  split at h; · cases h
  rename_i asm1 hsimp
  split at h; · cases h
  rename_i g1 hg1
  split at h; · cases h
  rename_i g2 hg2
  split at h; · cases h
  rename_i all hall
  rw [hint] at hg1 hg2 hall h
  simp only [withVars_nil, list_diff_nil] at h
  have hasm0 : asm0 = Gen.list_union c1.a c2.a := by
    unfold composeAssumptions at hasm
    simp only [hb1, hb2, hb3, Bool.false_eq_true, ↓reduceIte] at hasm
    injection hasm with e; exact e.symm
  have hasm1 : ∀ v, H holds asm1 v ↔ H holds asm0 v := by
    intro v
    by_cases hs : simp = true
    · rw [if_pos hs] at hsimp
      exact hP.simp_ok _ _ _ _ hsimp v (fun g hg => by cases hg)
    · rw [if_neg hs] at hsimp; injection hsimp with e; subst e; rfl
  obtain ⟨hca_eq, _, _, hcg⟩ := mk_sem holds vars P hP h
  constructor
  · intro v; rw [hca_eq, hasm1, hasm0]; exact H_union holds _ _ v
  · intro v hca
    rw [hca_eq] at hca
    rw [hcg v hca, H_union, H_union]
    constructor
    · rintro ⟨_, h12⟩; exact h12
    · rintro ⟨G1, G2⟩
      refine ⟨?_, G1, G2⟩
      have hg1v := (hR _ _ _ _ _ _ hg1 v G2).mpr G1
      have hg2v := (hR _ _ _ _ _ _ hg2 v G1).mpr G2
      exact (hR _ _ _ _ _ _ hall v hca).mpr ((H_union holds _ _ v).mpr ⟨hg1v, hg2v⟩)

end Alg
