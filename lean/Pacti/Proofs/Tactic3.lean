import Pacti.Proofs.Kay
import Pacti.Proofs.Eval
/-! Soundness of tactic 3 (`_tactic_3`): the conflict part `Σ cⱼ·xⱼ` of the term is renamed to one auxiliary variable `w`,
    the context is rewritten accordingly (`x₀ := (w − Σ_{j>0} cⱼ·xⱼ)/c₀`), and tactic 1 is applied.  Sound as soon as `w`
    occurs nowhere in the term, the context and the variables to eliminate — which is how the source picks it
    (`Gen.tactic3Fresh`). -/

open Finset BigOperators

namespace Elim

theorem nodup_eraseDups_aux : ∀ (n : ℕ) (l : List Var), l.length ≤ n → l.eraseDups.Nodup := by
  intro n
  induction n with
  | zero => intro l hl; have : l = [] := List.length_eq_zero_iff.mp (by omega); subst this; simp
  | succ n ih =>
    intro l hl
    cases l with
    | nil => simp
    | cons a l =>
      rw [List.eraseDups_cons, List.nodup_cons]
      refine ⟨?_, ih _ ?_⟩
      · intro hmem
        rw [List.mem_eraseDups, List.mem_filter] at hmem
        simp at hmem
      · simp only [List.length_cons] at hl
        exact le_trans (List.length_filter_le _ _) (by omega)

theorem nodup_eraseDups (l : List Var) : l.eraseDups.Nodup := nodup_eraseDups_aux l.length l (le_refl _)

theorem le_foldl_max : ∀ (l : List ℕ) (acc : ℕ), acc ≤ l.foldl max acc ∧ ∀ u ∈ l, u ≤ l.foldl max acc := by
  intro l
  induction l with
  | nil => intro acc; simp
  | cons a l ih =>
    intro acc
    simp only [List.foldl_cons]
    obtain ⟨h1, h2⟩ := ih (max acc a)
    refine ⟨le_trans (le_max_left _ _) h1, ?_⟩
    intro u hu
    rcases List.mem_cons.mp hu with rfl | hu
    · exact le_trans (le_max_right _ _) h1
    · exact h2 u hu

theorem freshVar_fresh (t : PTerm) (H : TL) (xs : List Var) :
    freshVar t H xs ∉ t.vars ∧ (∀ el ∈ H, freshVar t H xs ∉ el.vars) ∧ freshVar t H xs ∉ xs := by
  have hb : ∀ u ∈ t.vars ++ TL.vars H ++ xs, u < freshVar t H xs := by
    intro u hu
    unfold freshVar
    exact Nat.lt_succ_of_le ((le_foldl_max _ 0).2 u hu)
  refine ⟨fun h => ?_, fun el hel h => ?_, fun h => ?_⟩
  · exact absurd (hb _ (by simp [h])) (lt_irrefl _)
  · have : freshVar t H xs ∈ TL.vars H := (mem_TLvars H _).mpr ⟨el, hel, h⟩
    exact absurd (hb _ (by simp [this])) (lt_irrefl _)
  · exact absurd (hb _ (by simp [h])) (lt_irrefl _)

theorem coeffOf_normC (x : Var) (l : Lin) : coeffOf x (normC l) = coeffOf x l := by
  rw [← evalL_ind, ← evalL_ind, evalL_normC]

theorem evalL_map_neg_div' (rest : List Var) (a : Var → ℚ) (c0 : ℚ) (v : Val) :
    evalL (rest.map fun u => (u, -(a u) / c0)) v = -(evalL (List.zip rest (rest.map a)) v) / c0 := by
  induction rest with
  | nil => simp [evalL]
  | cons u rest ih =>
    simp only [List.map_cons, List.zip_cons_cons, evalL, ih]; ring

theorem mem_varsL_filter (l : Lin) (p : Var × ℚ → Bool) (x : Var) (h : x ∈ varsL (l.filter p)) : x ∈ varsL l := by
  simp only [varsL, List.mem_map, List.mem_filter] at h ⊢
  obtain ⟨q, ⟨hq, _⟩, rfl⟩ := h
  exact ⟨q, hq, rfl⟩

theorem tactic3_sound (hfresh : Gen.tactic3Fresh = true) (t : PTerm) (H : TL) (xs : List Var) (refine : Bool) (r : PTerm)
    (h : tactic3 t H xs refine = .ok (some r)) :
    ∀ v, TL.holds H v → (if refine then (r.holds v → t.holds v) else (t.holds v → r.holds v)) := by
  unfold tactic3 at h
  split at h; · cases h
  rename_i x0 rest hD
  simp only at h
  split at h; · cases h
  rename_i hc0
  have hw : auxVar t H xs = freshVar t H xs := by unfold auxVar; rw [hfresh]; rfl
  rw [hw] at h
  obtain ⟨hwt, hwH, hwxs⟩ := freshVar_fresh t H xs
  set w := freshVar t H xs with hwdef
  have hDnd : (x0 :: rest).Nodup := hD ▸ nodup_eraseDups _
  have hDmem : ∀ u, u ∈ x0 :: rest → u ∈ xs ∧ u ∈ t.vars := by
    intro u hu
    rw [← hD, List.mem_eraseDups, Gen.mem_list_intersection] at hu
    exact hu
  have hx0xs : x0 ∈ xs := (hDmem x0 (List.mem_cons_self)).1
  have hx0w : x0 ≠ w := fun e => hwxs (e ▸ hx0xs)
  set c0 := t.coeff x0 with hc0def
  set filt := t.coeffs.filter (fun p => !decide (p.1 ∈ x0 :: rest)) with hfilt
  set nt : PTerm := PTerm.mk' (filt ++ [(w, 1)]) t.const with hnt
  set substT : PTerm := PTerm.mk' ((w, 1 / c0) :: rest.map fun u => (u, -(t.coeff u) / c0)) 0 with hsub
  intro v hH
  -- the valuation of the auxiliary variable
  set R := evalL (List.zip rest (rest.map fun u => coeffOf u t.coeffs)) v with hR
  set S := c0 * v x0 + R with hS
  set v' : Val := Function.update v w S with hv'
  have hv'w : v' w = S := by simp [hv']
  have hv'ne : ∀ x, x ≠ w → v' x = v x := by intro x hx; simp [hv', Function.update_of_ne hx]
  have hwfilt : w ∉ varsL filt := fun hm => hwt (mem_varsL_filter _ _ _ hm)
  -- (3) the renamed term at v' is the term at v
  have h3 : expr nt v' = expr t v := by
    unfold expr
    rw [hnt]; unfold PTerm.mk'; simp only
    rw [evalL_normC, evalL_append]
    have e1 : evalL filt v' = evalL filt v := by
      apply evalL_congr; intro x hx
      exact hv'ne x (fun e => hwfilt (e ▸ hx))
    have e2 : evalL [(w, (1:ℚ))] v' = S := by simp [evalL, hv'w]
    have e3 := evalL_zip_coeffs (x0 :: rest) hDnd t.coeffs v
    simp only [List.map_cons, List.zip_cons_cons, evalL] at e3
    rw [e1, e2, hS, hR, hc0def]
    unfold PTerm.coeff
    linarith
  -- (1) the rewritten context holds at v'
  have hsubst : expr substT v' = v x0 := by
    unfold expr
    rw [hsub]; unfold PTerm.mk'; simp only
    rw [evalL_normC]
    simp only [evalL]
    have e1 : evalL (rest.map fun u => (u, -(t.coeff u) / c0)) v' = evalL (rest.map fun u => (u, -(t.coeff u) / c0)) v := by
      apply evalL_congr; intro x hx
      apply hv'ne
      simp only [varsL, List.map_map, List.mem_map, Function.comp] at hx
      obtain ⟨u, hu, rfl⟩ := hx
      exact fun e => hwxs (e ▸ (hDmem u (List.mem_cons_of_mem _ hu)).1)
    rw [e1, hv'w, evalL_map_neg_div' rest (fun u => t.coeff u) c0 v]
    have : evalL (List.zip rest (rest.map fun u => t.coeff u)) v = R := rfl
    rw [this, hS]
    field_simp
    ring
  have h1 : TL.holds (H.map fun el => el.subst x0 substT) v' := by
    intro el' hel'
    simp only [List.mem_map] at hel'
    obtain ⟨el, hel, rfl⟩ := hel'
    rw [holds_iff_expr, expr_subst, hsubst, hv'ne x0 hx0w]
    have : expr el v' = expr el v := by
      unfold expr
      rw [evalL_congr el.coeffs v' v (fun x hx => hv'ne x (fun e => hwH el hel (e ▸ hx)))]
    rw [this]
    have := (holds_iff_expr el v).mp (hH el hel)
    linarith
  -- (4) the auxiliary variable is gone from the result
  have h4 : expr r v' = expr r v := by
    have hz := tactic1_coeff_zero nt _ _ refine r h w (by
      rw [Gen.mem_list_intersection]
      refine ⟨?_, ?_⟩
      · rw [Gen.mem_list_diff, Gen.mem_list_union]
        exact ⟨Or.inr (List.mem_singleton.mpr rfl), by simpa using fun e => hx0w e.symm⟩
      · apply coeffOf_ne_zero_mem
        rw [hnt]; unfold PTerm.mk'; simp only
        rw [coeffOf_normC, ← evalL_ind, evalL_append, evalL_ind, coeffOf_eq_zero_of_not_mem w filt hwfilt]
        simp [evalL, ind])
    unfold expr
    rw [hv', evalL_update]
    unfold PTerm.coeff at hz
    rw [hz]; ring
  have h2 := tactic1_sound nt _ _ refine r h v' h1
  cases refine with
  | true =>
    simp only [if_true] at h2 ⊢
    intro hr
    rw [holds_iff_expr] at hr ⊢
    rw [← h4] at hr
    have := (holds_iff_expr nt v').mp (h2 ((holds_iff_expr r v').mpr hr))
    linarith
  | false =>
    simp only [Bool.false_eq_true, if_false] at h2 ⊢
    intro ht
    rw [holds_iff_expr] at ht ⊢
    rw [← h3] at ht
    have := (holds_iff_expr r v').mp (h2 ((holds_iff_expr nt v').mpr ht))
    linarith

end Elim
