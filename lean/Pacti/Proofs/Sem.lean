import Pacti.Model.Sem
import Mathlib.Tactic.Linarith
import Mathlib.Tactic.Ring
import Mathlib.Tactic.FieldSimp
import Mathlib.Algebra.Order.Field.Rat
/-! Basic semantic lemmas about linear forms in normal form. -/

theorem evalL_append (a b : Lin) (v : Val) : evalL (a ++ b) v = evalL a v + evalL b v := by
  induction a with
  | nil => simp [evalL]
  | cons p a ih => simp only [List.cons_append, evalL, ih]; ring

theorem evalL_scaleL (k : Rat) (l : Lin) (v : Val) : evalL (scaleL k l) v = k * evalL l v := by
  induction l with
  | nil => simp [evalL, scaleL]
  | cons p l ih =>
    simp only [scaleL, List.map_cons, evalL] at ih ⊢
    rw [ih]; ring

theorem evalL_insertC (x : Var) (c : Rat) (l : Lin) (v : Val) :
    evalL (insertC x c l) v = c * v x + evalL l v := by
  induction l with
  | nil =>
    simp only [insertC]
    split
    · rename_i h; simp [evalL, h]
    · simp [evalL]
  | cons p l ih =>
    simp only [insertC]
    split
    · split
      · rename_i h; simp [evalL, h]
      · simp [evalL]
    · split
      · rename_i hx
        split
        · rename_i h0
          simp only [evalL]
          have : c * v x + p.2 * v p.1 = 0 := by rw [← hx, ← add_mul, h0, zero_mul]
          linarith
        · simp only [evalL]; rw [← hx]; ring
      · simp only [evalL, ih]; ring

theorem evalL_normC (l : Lin) (v : Val) : evalL (normC l) v = evalL l v := by
  induction l with
  | nil => simp [normC, evalL]
  | cons p l ih =>
    simp only [normC, List.foldr_cons] at ih ⊢
    rw [evalL_insertC, ih]; simp [evalL]

theorem evalL_addL (a b : Lin) (v : Val) : evalL (addL a b) v = evalL a v + evalL b v := by
  simp [addL, evalL_normC, evalL_append]

theorem evalL_filter_ne (l : Lin) (x : Var) (v : Val) :
    evalL (l.filter (fun p => p.1 != x)) v = evalL l v - coeffOf x l * v x := by
  induction l with
  | nil => simp [evalL, coeffOf]
  | cons p l ih =>
    by_cases h : p.1 = x
    · simp only [List.filter_cons, h, bne_self_eq_false, Bool.false_eq_true, ↓reduceIte, evalL, coeffOf]
      rw [ih]; ring
    · have : (p.1 != x) = true := by simp [h]
      simp only [List.filter_cons, this, ↓reduceIte, evalL, coeffOf, h]
      rw [ih]; ring

/-- valuations are only read at the variables of the form -/
theorem evalL_congr (l : Lin) (v w : Val) (h : ∀ x ∈ varsL l, v x = w x) : evalL l v = evalL l w := by
  induction l with
  | nil => rfl
  | cons p l ih =>
    simp only [evalL]
    rw [h p.1 (by simp [varsL]), ih (fun x hx => h x (by simp [varsL] at hx ⊢; exact Or.inr hx))]

theorem evalL_lin (l : Lin) (x d : Val) (t : Rat) :
    evalL l (fun k => x k + t * d k) = evalL l x + t * evalL l d := by
  induction l with
  | nil => simp [evalL]
  | cons p l ih => simp only [evalL, ih]; ring

/-- convex combination -/
def mix (t : Rat) (u w : Val) : Val := fun x => t * u x + (1 - t) * w x

theorem evalL_mix (l : Lin) (t : Rat) (u w : Val) :
    evalL l (mix t u w) = t * evalL l u + (1 - t) * evalL l w := by
  induction l with
  | nil => simp [evalL]
  | cons p l ih => simp only [evalL, ih, mix]; ring

theorem TL.holds_nil (v : Val) : TL.holds [] v := by intro t ht; cases ht

theorem TL.holds_cons (t : PTerm) (l : TL) (v : Val) : TL.holds (t :: l) v ↔ t.holds v ∧ TL.holds l v := by
  unfold TL.holds; simp

theorem TL.holds_append (a b : TL) (v : Val) : TL.holds (a ++ b) v ↔ TL.holds a v ∧ TL.holds b v := by
  unfold TL.holds; constructor
  · intro h; exact ⟨fun r hr => h r (by simp [hr]), fun r hr => h r (by simp [hr])⟩
  · rintro ⟨h1, h2⟩ r hr; rcases List.mem_append.mp hr with h | h
    · exact h1 r h
    · exact h2 r h

theorem TL.holds_mix (rs : TL) (t : Rat) (h0 : 0 ≤ t) (h1 : t ≤ 1) (u w : Val)
    (hu : TL.holds rs u) (hw : TL.holds rs w) : TL.holds rs (mix t u w) := by
  intro r hr
  have a := hu r hr; have b := hw r hr
  unfold PTerm.holds at *
  rw [evalL_mix]
  nlinarith [mul_le_mul_of_nonneg_left a h0, mul_le_mul_of_nonneg_left b (by linarith : (0:Rat) ≤ 1 - t)]
