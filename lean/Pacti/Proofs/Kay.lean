import Pacti.Proofs.Solve
import Pacti.Proofs.KayMath
import Pacti.Proofs.Refine
/-! Soundness of tactic 1 (`_tactic_1` = `_get_kaykobad_context` + `solve_for_variables` + substitution).

    * the substitution loop subtracts, from the term, the combination `Σ_k a_k · (u_k − s_k)` of the solved equations;
    * each solved equation is a combination of the context rows (`solveRows_spec`), so the result differs from the
      term by `Σ_i λ_i · eᵢ` with `eᵢ ≤ 0` the context rows;
    * the three Kaykobad tests give every `λ_i` the sign of the direction (`KayMath.kay_sign`).                    -/

open Finset BigOperators

namespace Elim

/-! ### coefficients through valuations -/

def ind (x : Var) : Val := fun y => if y = x then 1 else 0

theorem evalL_ind (l : Lin) (x : Var) : evalL l (ind x) = coeffOf x l := by
  induction l with
  | nil => rfl
  | cons p r ih =>
    simp only [evalL, coeffOf, ih, ind]
    split <;> ring

theorem evalL_zero (l : Lin) : evalL l (fun _ => 0) = 0 := by
  induction l with
  | nil => rfl
  | cons p r ih => simp [evalL, ih]

theorem coeff_eq_expr (t : PTerm) (x : Var) : t.coeff x = expr t (ind x) - expr t (fun _ => 0) := by
  unfold expr PTerm.coeff
  rw [evalL_ind, evalL_zero]; ring

theorem coeff_subst (t s : PTerm) (x y : Var) :
    (t.subst x s).coeff y = t.coeff y + t.coeff x * (s.coeff y - if x = y then 1 else 0) := by
  rw [coeff_eq_expr, expr_subst, expr_subst, coeff_eq_expr t y, coeff_eq_expr s y]
  simp only [ind]; ring

/-! ### the substitution loop -/

theorem expr_foldl_subst : ∀ (L : List (Var × PTerm)) (t : PTerm), (L.map (·.1)).Nodup →
    (∀ p ∈ L, ∀ q ∈ L, p.2.coeff q.1 = 0) → ∀ v,
    expr (L.foldl (fun acc p => acc.subst p.1 p.2) t) v = expr t v + (L.map fun p => t.coeff p.1 * (expr p.2 v - v p.1)).sum := by
  intro L
  induction L with
  | nil => intro t _ _ v; simp
  | cons p L ih =>
    intro t hnd hfree v
    simp only [List.map_cons, List.nodup_cons] at hnd
    simp only [List.foldl_cons, List.map_cons, List.sum_cons]
    rw [ih (t.subst p.1 p.2) hnd.2 (fun a ha b hb => hfree a (List.mem_cons_of_mem _ ha) b (List.mem_cons_of_mem _ hb)) v,
      expr_subst]
    have : (L.map fun q => (t.subst p.1 p.2).coeff q.1 * (expr q.2 v - v q.1)) = L.map fun q => t.coeff q.1 * (expr q.2 v - v q.1) := by
      apply List.map_congr_left
      intro q hq
      rw [coeff_subst, hfree p (List.mem_cons_self) q (List.mem_cons_of_mem _ hq)]
      have hne : p.1 ≠ q.1 := fun e => hnd.1 (e ▸ List.mem_map_of_mem hq)
      simp [hne]
    rw [this]; ring

theorem sum_map_range (n : ℕ) (f : ℕ → ℚ) : ((List.range n).map f).sum = ∑ k ∈ range n, f k := by
  induction n with
  | zero => simp
  | succ n ih => rw [List.range_succ, List.map_append, List.sum_append, ih, sum_range_succ]; simp

theorem map_range_getElem! {α} [Inhabited α] (U : List α) : (List.range U.length).map (fun k => U[k]!) = U := by
  apply List.ext_getElem
  · simp
  · intro i h1 h2
    simp only [List.getElem_map, List.getElem_range]
    simp at h1
    simp [h2]

theorem getBang_append_left {α} [Inhabited α] (l1 l2 : List α) (i : ℕ) (h : i < l1.length) : (l1 ++ l2)[i]! = l1[i]! := by
  have h' : i < (l1 ++ l2).length := by simp; omega
  rw [getElem!_pos (l1 ++ l2) i h', getElem!_pos l1 i h, List.getElem_append_left h]

theorem getBang_append_len {α} [Inhabited α] (l1 : List α) (a : α) : (l1 ++ [a])[l1.length]! = a := by
  simp

/-! ### what a found Kaykobad context satisfies -/

theorem tcOf_cases (refine : Bool) : tcOf refine = 1 ∨ tcOf refine = -1 := by
  unfold tcOf; cases refine <;> simp

/-- residual that row `ct`, chosen for position `i`, adds to the partial sum of position `j` -/
def kayRes (t ct : PTerm) (F : List Var) (i j : ℕ) : ℚ :=
  if j = i then 0 else sign (t.coeff F[j]!) * ct.coeff F[j]! * t.coeff F[i]! / ct.coeff F[i]!

theorem kayRow_some (t ct : PTerm) (F other : List Var) (refine : Bool) (i : ℕ) (ps res : List ℚ)
    (h : kayRow t ct F other refine i F[i]! ps = some res) :
    (∀ v ∈ F, ct.coeff v ≠ 0 → tcOf refine * sign (ct.coeff v) = sign (t.coeff v)) ∧
    ct.coeff F[i]! ≠ 0 ∧
    res = (List.range F.length).map (fun j => kayRes t ct F i j) ∧
    ∀ j < F.length, ps[j]! + res[j]! < Poly.rabs (t.coeff F[j]!) := by
  unfold kayRow at h
  split at h; · cases h
  split at h; · cases h
  split at h; · cases h
  rename_i hsign
  split at h; · cases h
  rename_i hdiag
  simp only at h
  split at h; · cases h
  rename_i hbad
  injection h with h
  have hres : res = (List.range F.length).map (fun j => kayRes t ct F i j) := by
    rw [← h]; apply List.map_congr_left; intro j _; unfold kayRes; simp only [beq_iff_eq]
  refine ⟨?_, ?_, hres, ?_⟩
  · intro v hv hne
    have := hsign
    simp only [List.any_eq_true, not_exists, not_and, Bool.and_eq_true, bne_iff_ne, ne_eq] at this
    have h2 := this v hv hne
    exact not_not.mp h2
  · simpa using hdiag
  · intro j hj
    have := hbad
    simp only [List.any_eq_true, List.mem_range, decide_eq_true_eq, not_exists, not_and, not_le] at this
    have h3 := this j hj
    rw [← h]
    exact h3

/-- invariant of the row-finding loop after `i` rows -/
structure KInv (t : PTerm) (H : TL) (F : List Var) (refine : Bool) (i : ℕ) (rows : TL) (ps : List ℚ) : Prop where
  len : rows.length = i
  pslen : ps.length = F.length
  sub : ∀ r ∈ rows, r ∈ H
  good : ∀ i' < i, (∀ v ∈ F, (rows[i']!).coeff v ≠ 0 → tcOf refine * sign ((rows[i']!).coeff v) = sign (t.coeff v)) ∧
      (rows[i']!).coeff F[i']! ≠ 0
  sums : ∀ j < F.length, ps[j]! = ∑ i' ∈ range i, kayRes t (rows[i']!) F i' j
  bound : 0 < i → ∀ j < F.length, ps[j]! < Poly.rabs (t.coeff F[j]!)

theorem kayLoop_inv (t : PTerm) (H : TL) (F other : List Var) (refine : Bool) :
    ∀ (fuel i : ℕ) (rows : TL) (ps : List ℚ) (others : Bool) (rows' : TL) (o' : Bool),
      KInv t H F refine i rows ps → i + fuel = F.length →
      kayLoop t H F other refine i fuel rows ps others = .ok (rows', o') →
      ∃ ps', KInv t H F refine F.length rows' ps' := by
  intro fuel
  induction fuel with
  | zero =>
    intro i rows ps others rows' o' hinv hi h
    simp only [kayLoop] at h
    injection h with h; injection h with h1 h2
    subst h1
    have : i = F.length := by omega
    subst this
    exact ⟨ps, hinv⟩
  | succ fuel ih =>
    intro i rows ps others rows' o' hinv hi h
    simp only [kayLoop] at h
    split at h
    · omega
    rename_i hlt
    split at h
    · cases h
    rename_i ct res hfind
    obtain ⟨c, hc, hfc⟩ := List.exists_of_findSome?_eq_some hfind
    simp only [Option.map_eq_some_iff, Prod.mk.injEq] at hfc
    obtain ⟨res', hrow, rfl, rfl⟩ := hfc
    obtain ⟨hsign, hdiag, hres, hbound⟩ := kayRow_some t c F other refine i ps res' hrow
    have hreslen : res'.length = F.length := by rw [hres]; simp
    refine ih (i + 1) (rows ++ [c]) (List.zipWith (· + ·) ps res') _ rows' o' ?_ (by omega) h
    have hzw : ∀ j < F.length, (List.zipWith (· + ·) ps res')[j]! = ps[j]! + res'[j]! := by
      intro j hj
      have h1 : j < ps.length := by rw [hinv.pslen]; exact hj
      have h2 : j < res'.length := by rw [hreslen]; exact hj
      have h3 : j < (List.zipWith (· + ·) ps res').length := by simp; omega
      simp [h1, h2]
    refine ⟨by simp [hinv.len], by simp [hinv.pslen, hreslen], ?_, ?_, ?_, ?_⟩
    · intro r hr
      rcases List.mem_append.mp hr with hr | hr
      · exact hinv.sub r hr
      · simp only [List.mem_singleton] at hr; subst hr
        exact ((Gen.mem_list_diff _ _ _).mp hc).1
    · intro i' hi'
      by_cases hlt' : i' < i
      · rw [getBang_append_left _ _ _ (by rw [hinv.len]; exact hlt')]
        exact hinv.good i' hlt'
      · have : i' = rows.length := by rw [hinv.len]; omega
        subst this
        rw [getBang_append_len]
        rw [hinv.len]
        exact ⟨hsign, hdiag⟩
    · intro j hj
      rw [hzw j hj, hinv.sums j hj, sum_range_succ]
      congr 1
      · apply sum_congr rfl
        intro i' hi'
        rw [getBang_append_left _ _ _ (by rw [hinv.len]; exact mem_range.mp hi')]
      · have : i = rows.length := hinv.len.symm
        rw [this, getBang_append_len, hres]
        have hj' : j < (List.map (fun j => kayRes t c F rows.length j) (List.range F.length)).length := by simp; exact hj
        simp [hj]
        rw [← this]
    · intro _ j hj
      rw [hzw j hj]; exact hbound j hj

theorem KInv_init (t : PTerm) (H : TL) (F : List Var) (refine : Bool) :
    KInv t H F refine 0 [] (List.replicate F.length 0) := by
  refine ⟨rfl, by simp, by simp, by intro i' h; omega, ?_, by intro h; omega⟩
  intro j hj
  simp [hj]

theorem rabs_eq_abs (q : ℚ) : Poly.rabs q = |q| := by
  unfold Poly.rabs
  split
  · rw [abs_of_neg ‹_›]
  · rw [abs_of_nonneg (le_of_not_gt ‹_›)]

theorem sign_eq_sgn (q : ℚ) : sign q = KayMath.sgn q := rfl

/-! ### tactic 1 -/

/-- what a successful tactic 1 returns: the term minus a combination `Σ λᵢ·eᵢ` of context rows whose multipliers all
    have the sign of the direction, and that cancels every variable of the term that was to be eliminated -/
theorem tactic1_spec (t : PTerm) (H : TL) (xs : List Var) (refine : Bool) (r : PTerm)
    (h : tactic1 t H xs refine = .ok (some r)) :
    ∃ (n : ℕ) (rows : TL) (lam : ℕ → ℚ),
      (∀ i < n, rows[i]! ∈ H) ∧ (∀ i < n, 0 < tcOf refine * lam i) ∧
      (∀ v, expr r v = expr t v - ∑ i ∈ range n, lam i * expr (rows[i]!) v) ∧
      (∀ u ∈ Gen.list_intersection xs t.vars, ∑ i ∈ range n, lam i * (rows[i]!).coeff u = t.coeff u) := by
  unfold tactic1 at h
  split at h; · cases h
  rename_i rows F hctx
  -- the context
  unfold kaykobadContext at hctx
  simp only at hctx
  split at hctx; · cases hctx
  rename_i rows0 others hloop
  split at hctx; · cases hctx
  injection hctx with hctx; injection hctx with e1 e2
  subst e1
  obtain ⟨ps', hinv⟩ := kayLoop_inv t H _ _ refine _ 0 [] _ false rows0 others (KInv_init t H _ refine) (by simp) hloop
  rw [e2] at hinv
  -- the reduction
  unfold reduceWith at h
  simp only at h
  split at h; · cases h
  rename_i hlen
  split at h; · cases h
  rename_i hnd
  split at h; · cases h
  rename_i sols hsolve
  injection h with h; injection h with h
  set U := Gen.list_intersection (TL.vars rows0) F with hU
  have hUnd : U.Nodup := by simpa using hnd
  have hlenU : rows0.length = U.length := by simpa using hlen
  obtain ⟨_, s, M, hsols, hspec⟩ := solveRows_spec rows0 U hUnd sols hsolve
  have hn : rows0.length = F.length := hinv.len
  set n := F.length with hn'
  have hUn : U.length = n := by rw [← hlenU, hn]
  -- rows as expressions
  have hgetD : ∀ i, rows0.getD i default = rows0[i]! := by intro i; simp
  -- the result as an expression
  have hexpr : ∀ v, expr r v = expr t v - ∑ i ∈ range n, (∑ k ∈ range n, t.coeff U[k]! * M k i) * expr (rows0[i]!) v := by
    intro v
    rw [← h, hsols, expr_foldl_subst _ t ?_ ?_ v]
    · rw [List.map_map, sum_map_range, hUn]
      have : ∀ k ∈ range n, ((fun p : Var × PTerm => t.coeff p.1 * (expr p.2 v - v p.1)) ∘ fun k => (U[k]!, s k)) k
          = - (t.coeff U[k]! * ∑ i ∈ range n, M k i * expr (rows0[i]!) v) := by
        intro k hk
        have := (hspec k (by rw [hUn]; exact mem_range.mp hk)).1 v
        rw [hn] at this
        simp only [Function.comp, hgetD] at this ⊢
        rw [← this]; ring
      rw [sum_congr rfl this, sum_neg_distrib]
      have : ∑ k ∈ range n, t.coeff U[k]! * ∑ i ∈ range n, M k i * expr (rows0[i]!) v
          = ∑ i ∈ range n, (∑ k ∈ range n, t.coeff U[k]! * M k i) * expr (rows0[i]!) v := by
        simp only [mul_sum, sum_mul]
        rw [sum_comm]
        apply sum_congr rfl; intro i _; apply sum_congr rfl; intro k _; ring
      rw [this]; ring
    · rw [List.map_map]
      have : ((fun p : Var × PTerm => p.1) ∘ fun k => (U[k]!, s k)) = fun k => U[k]! := rfl
      rw [this, map_range_getElem!]; exact hUnd
    · intro p hp q hq
      simp only [List.mem_map, List.mem_range] at hp hq
      obtain ⟨k, hk, rfl⟩ := hp
      obtain ⟨k', hk', rfl⟩ := hq
      exact (hspec k hk).2 _ (getElem!_mem U k' hk')
  -- the multipliers solve the transposed system at every solved variable
  set lam : ℕ → ℚ := fun i => ∑ k ∈ range n, t.coeff U[k]! * M k i with hlam
  have hsys : ∀ u ∈ U, ∑ i ∈ range n, lam i * (rows0[i]!).coeff u = t.coeff u := by
    intro u hu
    -- g w := Σ_k a_k (w u_k − expr s_k w) = Σ_i λ_i e_i w   for every valuation w
    have hg : ∀ w : Val, ∑ k ∈ range n, t.coeff U[k]! * (w U[k]! - expr (s k) w) = ∑ i ∈ range n, lam i * expr (rows0[i]!) w := by
      intro w
      have : ∀ k ∈ range n, t.coeff U[k]! * (w U[k]! - expr (s k) w) = t.coeff U[k]! * ∑ i ∈ range n, M k i * expr (rows0[i]!) w := by
        intro k hk
        have := (hspec k (by rw [hUn]; exact mem_range.mp hk)).1 w
        rw [hn] at this
        simp only [hgetD] at this
        rw [this]
      rw [sum_congr rfl this]
      simp only [hlam, mul_sum, sum_mul]
      rw [sum_comm]
      apply sum_congr rfl; intro i _; apply sum_congr rfl; intro k _; ring
    have h1 := hg (ind u)
    have h0 := hg (fun _ => 0)
    have hd : ∑ i ∈ range n, lam i * (rows0[i]!).coeff u
        = ∑ k ∈ range n, t.coeff U[k]! * ((ind u) U[k]! - expr (s k) (ind u)) - ∑ k ∈ range n, t.coeff U[k]! * ((0:ℚ) - expr (s k) (fun _ => 0)) := by
      rw [h1, h0, ← sum_sub_distrib]
      apply sum_congr rfl; intro i _
      rw [coeff_eq_expr]; ring
    rw [hd, ← sum_sub_distrib]
    obtain ⟨k0, hk0, hk0u⟩ := List.getElem_of_mem hu
    have hk0n : k0 < n := by rw [← hUn]; exact hk0
    have hbang : ∀ k (hk : k < U.length), U[k]! = U[k] := by intro k hk; simp [hk]
    rw [sum_eq_single k0]
    · have hs0 := (hspec k0 hk0).2 u hu
      rw [coeff_eq_expr] at hs0
      rw [hbang k0 hk0, hk0u]
      have : ind u u = 1 := by simp [ind]
      rw [this]
      linear_combination (-(t.coeff u)) * hs0
    · intro k hk hne
      have hkU : k < U.length := by rw [hUn]; exact mem_range.mp hk
      have hs0 := (hspec k hkU).2 u hu
      rw [coeff_eq_expr] at hs0
      have : ind u U[k]! = 0 := by
        simp only [ind]
        rw [if_neg]
        intro e
        rw [hbang k hkU, ← hk0u] at e
        exact hne ((List.Nodup.getElem_inj_iff hUnd).mp e)
      rw [this]
      linear_combination (-(t.coeff U[k]!)) * hs0
    · intro hk; exact absurd (mem_range.mpr hk0n) hk
  -- every forbidden position is a solved variable
  have hFU : ∀ j < n, F[j]! ∈ U := by
    intro j hj
    rw [hU, Gen.mem_list_intersection]
    refine ⟨?_, getElem!_mem F j hj⟩
    rw [mem_TLvars]
    exact ⟨rows0[j]!, getElem!_mem rows0 j (by rw [hn]; exact hj), coeffOf_ne_zero_mem _ _ (hinv.good j hj).2⟩
  -- signs of the multipliers
  have hsgn := KayMath.kay_sign n (fun i j => (rows0[i]!).coeff F[j]!) (fun j => t.coeff F[j]!) lam (tcOf refine) (tcOf_cases refine)
    (fun i hi => (hinv.good i hi).2)
    (fun i hi j hj hne => (hinv.good i hi).1 _ (getElem!_mem F j hj) hne)
    (fun j hj => by
      have hb := hinv.bound (by omega) j hj
      rw [hinv.sums j hj, rabs_eq_abs] at hb
      rw [← sum_erase (range n) (a := j) (by simp [kayRes])] at hb
      refine lt_of_eq_of_lt ?_ hb
      apply sum_congr rfl
      intro i hi
      have hne : j ≠ i := fun e => (ne_of_mem_erase hi) e.symm
      simp only [kayRes, if_neg hne]
      rfl)
    (fun j hj => hsys _ (hFU j hj))
  refine ⟨n, rows0, lam, fun i hi => hinv.sub _ (getElem!_mem rows0 i (by rw [hn]; exact hi)), hsgn, hexpr, ?_⟩
  intro u hu
  rw [e2] at hu
  obtain ⟨j, hj, hju⟩ := List.getElem_of_mem hu
  have : F[j]! = u := by rw [getElem!_pos F j hj]; exact hju
  rw [← this]; exact hsys _ (hFU j hj)

/-- a variable that was to be eliminated no longer occurs in the result (as a coefficient) -/
theorem tactic1_coeff_zero (t : PTerm) (H : TL) (xs : List Var) (refine : Bool) (r : PTerm)
    (h : tactic1 t H xs refine = .ok (some r)) : ∀ u ∈ Gen.list_intersection xs t.vars, r.coeff u = 0 := by
  obtain ⟨n, rows, lam, _, _, hexpr, hsys⟩ := tactic1_spec t H xs refine r h
  intro u hu
  have h1 := hsys u hu
  have : ∀ i ∈ range n, lam i * (rows[i]!).coeff u = lam i * expr (rows[i]!) (ind u) - lam i * expr (rows[i]!) (fun _ => 0) := by
    intro i _; rw [coeff_eq_expr]; ring
  rw [sum_congr rfl this, sum_sub_distrib, coeff_eq_expr] at h1
  rw [coeff_eq_expr, hexpr, hexpr]; linarith

theorem tactic1_sound (t : PTerm) (H : TL) (xs : List Var) (refine : Bool) (r : PTerm)
    (h : tactic1 t H xs refine = .ok (some r)) :
    ∀ v, TL.holds H v → (if refine then (r.holds v → t.holds v) else (t.holds v → r.holds v)) := by
  obtain ⟨n, rows0, lam, hsub, hsgn, hexpr', _⟩ := tactic1_spec t H xs refine r h
  intro v hH
  have hexpr := hexpr' v
  -- conclusion
  have hrows : ∀ i < n, expr (rows0[i]!) v ≤ 0 := by
    intro i hi
    rw [← holds_iff_expr]
    exact hH _ (hsub i hi)
  cases refine with
  | true =>
    simp only [if_true]
    intro hr
    rw [holds_iff_expr] at hr ⊢
    have : ∑ i ∈ range n, lam i * expr (rows0[i]!) v ≤ 0 := by
      apply sum_nonpos; intro i hi
      have h1 := hsgn i (mem_range.mp hi)
      simp only [tcOf, if_true, one_mul] at h1
      exact mul_nonpos_of_nonneg_of_nonpos (le_of_lt h1) (hrows i (mem_range.mp hi))
    linarith
  | false =>
    simp only [Bool.false_eq_true, if_false]
    intro ht
    rw [holds_iff_expr] at ht ⊢
    have : 0 ≤ ∑ i ∈ range n, lam i * expr (rows0[i]!) v := by
      apply sum_nonneg; intro i hi
      have h1 := hsgn i (mem_range.mp hi)
      simp only [tcOf, Bool.false_eq_true, if_false] at h1
      exact mul_nonneg_of_nonpos_of_nonpos (by linarith) (hrows i (mem_range.mp hi))
    linarith

end Elim
