import Mathlib.Tactic.Linarith
import Mathlib.Tactic.Ring
import Mathlib.Tactic.FieldSimp
import Mathlib.Tactic.LinearCombination
import Mathlib.Algebra.Order.Field.Basic
import Mathlib.Algebra.BigOperators.Group.Finset.Basic
import Mathlib.Algebra.BigOperators.Ring.Finset
import Mathlib.Algebra.Order.BigOperators.Group.Finset
import Mathlib.Data.Finset.Max
import Mathlib.Algebra.Order.Field.Rat
/-! The mathematics behind tactic 1 (Kaykobad, "Positive solutions of positive linear systems", 1985), for
    `ℕ`-indexed families over `Finset.range n`; nothing here mentions the model. -/

open Finset BigOperators

namespace KayMath

theorem sum_div' {ι} (s : Finset ι) (f : ι → ℚ) (c : ℚ) : (∑ i ∈ s, f i) / c = ∑ i ∈ s, f i / c := by
  simp only [div_eq_mul_inv, sum_mul]

/-- normalised form: `z j + Σ_{i≠j} α j i * z i = 1`, `α ≥ 0`, row sums `< 1`  ⇒  `z > 0` -/
theorem kay_core (n : ℕ) (α : ℕ → ℕ → ℚ) (z : ℕ → ℚ)
    (hα : ∀ j < n, ∀ i < n, 0 ≤ α j i)
    (hrow : ∀ j < n, ∑ i ∈ (range n).erase j, α j i < 1)
    (heq : ∀ j < n, z j + ∑ i ∈ (range n).erase j, α j i * z i = 1) :
    ∀ j < n, 0 < z j := by
  intro j0 hj0
  have hne : (range n).Nonempty := ⟨j0, mem_range.mpr hj0⟩
  obtain ⟨m, hmr, hm⟩ := exists_min_image (range n) z hne
  obtain ⟨M, hMr, hM⟩ := exists_max_image (range n) z hne
  have hmn := mem_range.mp hmr
  have hMn := mem_range.mp hMr
  have hmaxle : z M ≤ 1 - (∑ i ∈ (range n).erase M, α M i) * z m := by
    have : (∑ i ∈ (range n).erase M, α M i) * z m ≤ ∑ i ∈ (range n).erase M, α M i * z i := by
      rw [sum_mul]; apply sum_le_sum; intro i hi
      have hir := mem_of_mem_erase hi
      exact mul_le_mul_of_nonneg_left (hm i hir) (hα M hMn i (mem_range.mp hir))
    linarith [heq M hMn]
  have hminge : 1 - (∑ i ∈ (range n).erase m, α m i) * z M ≤ z m := by
    have : ∑ i ∈ (range n).erase m, α m i * z i ≤ (∑ i ∈ (range n).erase m, α m i) * z M := by
      rw [sum_mul]; apply sum_le_sum; intro i hi
      have hir := mem_of_mem_erase hi
      exact mul_le_mul_of_nonneg_left (hM i hir) (hα m hmn i (mem_range.mp hir))
    linarith [heq m hmn]
  set aM := ∑ i ∈ (range n).erase M, α M i with haM
  set am := ∑ i ∈ (range n).erase m, α m i with ham
  have haM0 : 0 ≤ aM := sum_nonneg (fun i hi => hα M hMn i (mem_range.mp (mem_of_mem_erase hi)))
  have ham0 : 0 ≤ am := sum_nonneg (fun i hi => hα m hmn i (mem_range.mp (mem_of_mem_erase hi)))
  have haM1 : aM < 1 := hrow M hMn
  have ham1 : am < 1 := hrow m hmn
  have hzm : 0 < z m := by
    by_contra hcon
    have hle : z m ≤ 0 := le_of_not_gt hcon
    by_cases hMs : 0 ≤ z M
    · have h1 : am * z M ≤ am * (1 - aM * z m) := mul_le_mul_of_nonneg_left hmaxle ham0
      have h2 : am * aM < 1 := by nlinarith
      have h3 : z m * (1 - am * aM) ≤ 0 := mul_nonpos_of_nonpos_of_nonneg hle (by linarith)
      nlinarith
    · have : z M < 0 := lt_of_not_ge hMs
      nlinarith [mul_nonneg ham0 (le_of_lt (neg_pos.mpr this))]
  exact lt_of_lt_of_le hzm (hm j0 (mem_range.mpr hj0))

/-- `get_sign` -/
def sgn (q : ℚ) : ℚ := if 0 ≤ q then 1 else -1

theorem sgn_mul_self (q : ℚ) : sgn q * q = |q| := by
  unfold sgn; split
  · rw [abs_of_nonneg ‹_›]; ring
  · rw [abs_of_neg (lt_of_not_ge ‹_›)]; ring

theorem sgn_sq (q : ℚ) : sgn q * sgn q = 1 := by unfold sgn; split <;> ring

/-- two non-zero numbers whose signs agree up to `tc = ±1` have a quotient of sign `tc` -/
theorem quot_sign (tc x y : ℚ) (hx : x ≠ 0) (hy : y ≠ 0) (h : tc * sgn x = sgn y) :
    0 < tc * (y / x) := by
  have hx' : 0 < |x| := abs_pos.mpr hx
  have hy' : 0 < |y| := abs_pos.mpr hy
  have e : tc * (y / x) = |y| / |x| := by
    rw [← sgn_mul_self y, ← sgn_mul_self x, ← h]
    have hs : sgn x ≠ 0 := by unfold sgn; split <;> norm_num
    field_simp
  rw [e]; exact div_pos hy' hx'

theorem sgn_zero : sgn 0 = 1 := by unfold sgn; simp

/-- the residual test can only pass for a non-zero coefficient: every residual is non-negative -/
theorem kay_nonzero (n : ℕ) (A : ℕ → ℕ → ℚ) (a : ℕ → ℚ) (tc : ℚ) (htc : tc = 1 ∨ tc = -1)
    (hd : ∀ i < n, A i i ≠ 0)
    (hs : ∀ i < n, ∀ j < n, A i j ≠ 0 → tc * sgn (A i j) = sgn (a j))
    (hk : ∀ j < n, ∑ i ∈ (range n).erase j, sgn (a j) * A i j * a i / A i i < |a j|) :
    ∀ j < n, a j ≠ 0 := by
  intro j hj h0
  have h := hk j hj
  rw [h0, abs_zero, sgn_zero] at h
  have hnn : 0 ≤ ∑ i ∈ (range n).erase j, 1 * A i j * a i / A i i := by
    apply sum_nonneg; intro i hi
    have hir := mem_range.mp (mem_of_mem_erase hi)
    by_cases hA : A i j = 0
    · simp [hA]
    by_cases hai : a i = 0
    · simp [hai]
    have h1 := quot_sign tc _ _ (hd i hir) hai (hs i hir i hir (hd i hir))
    have h2 : tc * sgn (A i j) = 1 := by rw [hs i hir j hj hA, h0, sgn_zero]
    have ht : tc * tc = 1 := by rcases htc with rfl | rfl <;> norm_num
    have h3 : 0 < tc * A i j := by
      have : sgn (A i j) = tc := by linear_combination tc * h2 - sgn (A i j) * ht
      have h4 := sgn_mul_self (A i j)
      rw [this] at h4; rw [h4]; exact abs_pos.mpr hA
    have e : 1 * A i j * a i / A i i = (tc * A i j) * (tc * (a i / A i i)) := by
      rw [show (tc * A i j) * (tc * (a i / A i i)) = (tc * tc) * (A i j * a i / A i i) by ring, ht]; ring
    rw [e]; exact le_of_lt (mul_pos h3 h1)
  linarith

/-- The sign of the multipliers.  `A i j` = coefficient of the `j`-th eliminated variable in the `i`-th context row,
    `a j` = its coefficient in the term, `tc = 1` when refining and `-1` when relaxing.  Under the three tests of
    `_get_kaykobad_context` (sign pattern, non-zero diagonal, residual sums below `|a j|`), any `l` with
    `Σ_i l i · A i j = a j` has every `tc · l i` positive. -/
theorem kay_sign (n : ℕ) (A : ℕ → ℕ → ℚ) (a l : ℕ → ℚ) (tc : ℚ) (htc : tc = 1 ∨ tc = -1)
    (hd : ∀ i < n, A i i ≠ 0)
    (hs : ∀ i < n, ∀ j < n, A i j ≠ 0 → tc * sgn (A i j) = sgn (a j))
    (hk : ∀ j < n, ∑ i ∈ (range n).erase j, sgn (a j) * A i j * a i / A i i < |a j|)
    (heq : ∀ j < n, ∑ i ∈ range n, l i * A i j = a j) :
    ∀ i < n, 0 < tc * l i := by
  have ha := kay_nonzero n A a tc htc hd hs hk
  -- z i = l i · A i i / a i ;  α j i = (a i · A i j) / (A i i · a j)
  have hq : ∀ i < n, 0 < tc * (a i / A i i) := fun i hi => quot_sign tc _ _ (hd i hi) (ha i hi) (hs i hi i hi (hd i hi))
  have key := kay_core n (fun j i => (a i * A i j) / (A i i * a j)) (fun i => l i * A i i / a i) ?_ ?_ ?_
  · intro i hi
    have hz := key i hi
    have e : tc * l i = (l i * A i i / a i) * (tc * (a i / A i i)) := by
      have := hd i hi; have := ha i hi; field_simp
    rw [e]; exact mul_pos hz (hq i hi)
  · intro j hj i hi
    by_cases h0 : A i j = 0
    · simp [h0]
    · have h1 := quot_sign tc _ _ h0 (ha j hj) (hs i hi j hj h0)
      have h2 := hq i hi
      have e : (a i * A i j) / (A i i * a j) = (tc * (a i / A i i)) / (tc * (a j / A i j)) := by
        have := hd i hi; have := ha j hj
        have htc0 : tc ≠ 0 := by rcases htc with rfl | rfl <;> norm_num
        field_simp
      show 0 ≤ (a i * A i j) / (A i i * a j)
      rw [e]; exact le_of_lt (div_pos h2 h1)
  · intro j hj
    have haj := ha j hj
    have hpos : 0 < |a j| := abs_pos.mpr haj
    have e : ∑ i ∈ (range n).erase j, (a i * A i j) / (A i i * a j)
        = (∑ i ∈ (range n).erase j, sgn (a j) * A i j * a i / A i i) / |a j| := by
      rw [sum_div']; apply sum_congr rfl; intro i hi
      have hii := hd i (mem_range.mp (mem_of_mem_erase hi))
      rw [← sgn_mul_self (a j)]
      have hs0 : sgn (a j) ≠ 0 := by unfold sgn; split <;> norm_num
      field_simp
    show ∑ i ∈ (range n).erase j, (a i * A i j) / (A i i * a j) < 1
    rw [e, div_lt_one hpos]; exact hk j hj
  · intro j hj
    have haj := ha j hj
    have h := heq j hj
    rw [← add_sum_erase (range n) _ (mem_range.mpr hj)] at h
    show l j * A j j / a j + ∑ i ∈ (range n).erase j, (a i * A i j) / (A i i * a j) * (l i * A i i / a i) = 1
    have e : ∑ i ∈ (range n).erase j, (a i * A i j) / (A i i * a j) * (l i * A i i / a i)
        = (∑ i ∈ (range n).erase j, l i * A i j) / a j := by
      rw [sum_div']; apply sum_congr rfl; intro i hi
      have hir := mem_range.mp (mem_of_mem_erase hi)
      have := hd i hir; have := ha i hir
      field_simp
    rw [e]
    field_simp
    linarith

end KayMath
