import Pacti.Model.Dict
/-!
# Helper lemmas for C14 (dictionary / file-entry part)

`R` below is the repaired configuration `Cfg.repaired`.  The central facts: with every repair in place
the validators accept exactly the values the declarative decoders (`decodeMachine`, `decodeStrings`,
`decodeCompound`, `decodeEntry`) accept, they reject with `ContractFormatError` only, and on an accepted
value the reading code computes exactly `build…` of the decoded fields.
-/
namespace Dict

theorem Cfg.eq_repaired (c : Cfg) (h : c.allRepaired = true) : c = Cfg.repaired := by
  cases c
  simp [Cfg.allRepaired] at h
  simp [Cfg.repaired, h]

@[simp] theorem Cfg.repaired_clauseDictTest : Cfg.repaired.clauseDictTest = true := rfl
@[simp] theorem Cfg.repaired_clauseRaises : Cfg.repaired.clauseRaises = true := rfl
@[simp] theorem Cfg.repaired_clauseNumTest : Cfg.repaired.clauseNumTest = true := rfl
@[simp] theorem Cfg.repaired_fileChecked : Cfg.repaired.fileChecked = true := rfl
@[simp] theorem Cfg.repaired_compoundChecked : Cfg.repaired.compoundChecked = true := rfl
@[simp] theorem Cfg.repaired_fromDictValidates : Cfg.repaired.fromDictValidates = true := rfl
@[simp] theorem Cfg.repaired_catchZeroDiv : Cfg.repaired.catchZeroDiv = true := rfl

/-! ### validators against decoders -/

theorem asStr_some {x : J} {s : String} (h : asStr x = some s) : x = .str s := by
  cases x <;> simp [asStr] at h; subst h; rfl

theorem asNum_some {x : J} {q : Rat} (h : asNum x = some q) : x = .num q := by
  cases x <;> simp [asNum] at h; subst h; rfl

theorem checkStrItems_spec (l : List J) :
    checkStrItems l = match asStrList l with | some _ => .ok () | none => .error .contractFormat := by
  induction l with
  | nil => simp [checkStrItems, asStrList]
  | cons x r ih =>
    cases x <;> simp [checkStrItems, asStrList, asStr, J.isStr, ih]
    cases asStrList r <;> simp

theorem asStrList_map {l : List J} {ss : List String} (h : asStrList l = some ss) : l = ss.map .str := by
  induction l generalizing ss with
  | nil => simp [asStrList] at h; subst h; rfl
  | cons x r ih =>
    cases x <;> simp [asStrList, asStr] at h
    cases hr : asStrList r with
    | none => simp [hr] at h
    | some ts =>
      simp [hr] at h
      subst h
      simp [← ih hr]

theorem checkCoeffValues_spec (kv : List (String × J)) :
    checkCoeffValues kv = match asCoeffs kv with | some _ => .ok () | none => .error .contractFormat := by
  induction kv with
  | nil => simp [checkCoeffValues, asCoeffs]
  | cons p r ih =>
    obtain ⟨k, v⟩ := p
    cases v <;> simp [checkCoeffValues, asCoeffs, asNum, J.isNum, ih]
    cases asCoeffs r <;> simp

theorem checkClause_spec (x : J) :
    checkClause Cfg.repaired x = match asClause x with | some _ => .ok () | none => .error .contractFormat := by
  cases x with
  | obj kv =>
    simp only [checkClause, Cfg.repaired, J.isDict, Bool.not_true, Bool.and_false, Bool.false_eq_true, ↓reduceIte,
      checkClauseKw, pyIn, pyGetItem, asClause]
    cases hk : lookup "constant" kv with
    | none => simp
    | some k =>
      have hne : ("constant" == "coefficients") = false := by decide
      cases k <;> simp [J.isNum, hne]
      cases hc : lookup "coefficients" kv with
      | none => simp
      | some c =>
        cases c <;> simp [J.isDict]
        rename_i ckv
        rw [checkCoeffValues_spec]
        cases asCoeffs ckv <;> simp
  | _ => simp [checkClause, Cfg.repaired, J.isDict, asClause]

theorem checkClauses_spec (l : List J) :
    checkClauses Cfg.repaired l = match asClauses l with | some _ => .ok () | none => .error .contractFormat := by
  induction l with
  | nil => simp [checkClauses, asClauses]
  | cons x r ih =>
    simp only [checkClauses, asClauses, checkClause_spec]
    cases asClause x <;> simp [ih]
    cases asClauses r <;> simp

theorem checkStrLists_spec (l : List J) :
    checkStrLists l = match asStrLists l with | some _ => .ok () | none => .error .contractFormat := by
  induction l with
  | nil => simp [checkStrLists, asStrLists]
  | cons x r ih =>
    cases x <;> simp [checkStrLists, asStrLists]
    rename_i l
    rw [checkStrItems_spec]
    cases asStrList l <;> simp [ih]
    cases asStrLists r <;> simp

theorem validateKw_spec (cfg : Cfg) (machine : Bool) (kv : List (String × J)) (kw : String) (sl : Bool) :
    validateKw cfg machine kv kw sl = match getArr kw kv with
      | none => .error .contractFormat
      | some l => if sl then checkStrItems l else if machine then checkClauses cfg l else .ok () := by
  unfold validateKw getArr
  cases lookup kw kv with
  | none => rfl
  | some v => cases v <;> rfl

theorem validateCompoundKw_spec (kv : List (String × J)) (kw : String) (vars : Bool) :
    validateCompoundKw kv kw vars = match getArr kw kv with
      | none => .error .contractFormat
      | some l => if vars then checkStrItems l else checkStrLists l := by
  unfold validateCompoundKw getArr
  cases lookup kw kv with
  | none => rfl
  | some v => cases v <;> rfl

theorem validate_machine_spec (j nm : J) :
    validateContractDict Cfg.repaired j nm true
      = match decodeMachine j with | some _ => .ok () | none => .error .contractFormat := by
  cases j with
  | obj kv =>
    simp only [validateContractDict, decodeMachine, validateKw_spec, Bool.not_true, Bool.false_eq_true, ↓reduceIte,
      checkClauses_spec, checkStrItems_spec]
    cases getArr "assumptions" kv with
    | none => rfl
    | some la =>
      dsimp only
      cases asClauses la with
      | none => rfl
      | some a =>
        dsimp only
        cases getArr "guarantees" kv with
        | none => rfl
        | some lg =>
          dsimp only
          cases asClauses lg with
          | none => rfl
          | some g =>
            dsimp only
            cases getArr "input_vars" kv with
            | none => rfl
            | some li =>
              dsimp only
              cases asStrList li with
              | none => rfl
              | some i =>
                dsimp only
                cases getArr "output_vars" kv with
                | none => rfl
                | some lo =>
                  dsimp only
                  cases asStrList lo <;> rfl
  | _ => rfl

theorem validate_strings_spec (cfg : Cfg) (j nm : J) :
    validateContractDict cfg j nm false
      = match decodeStrings j with | some _ => .ok () | none => .error .contractFormat := by
  cases j with
  | obj kv =>
    simp only [validateContractDict, decodeStrings, validateKw_spec, Bool.not_false, ↓reduceIte, checkStrItems_spec]
    cases getArr "assumptions" kv with
    | none => rfl
    | some la =>
      dsimp only
      cases asStrList la with
      | none => rfl
      | some a =>
        dsimp only
        cases getArr "guarantees" kv with
        | none => rfl
        | some lg =>
          dsimp only
          cases asStrList lg with
          | none => rfl
          | some g =>
            dsimp only
            cases getArr "input_vars" kv with
            | none => rfl
            | some li =>
              dsimp only
              cases asStrList li with
              | none => rfl
              | some i =>
                dsimp only
                cases getArr "output_vars" kv with
                | none => rfl
                | some lo =>
                  dsimp only
                  cases asStrList lo <;> rfl
  | _ => rfl

theorem validate_compound_spec (j : J) :
    validateCompoundDict j = match decodeCompound j with | some _ => .ok () | none => .error .contractFormat := by
  cases j with
  | obj kv =>
    simp only [validateCompoundDict, decodeCompound, validateCompoundKw_spec, Bool.false_eq_true, ↓reduceIte,
      checkStrLists_spec, checkStrItems_spec]
    cases getArr "assumptions" kv with
    | none => rfl
    | some la =>
      dsimp only
      cases asStrLists la with
      | none => rfl
      | some a =>
        dsimp only
        cases getArr "guarantees" kv with
        | none => rfl
        | some lg =>
          dsimp only
          cases asStrLists lg with
          | none => rfl
          | some g =>
            dsimp only
            cases getArr "input_vars" kv with
            | none => rfl
            | some li =>
              dsimp only
              cases asStrList li with
              | none => rfl
              | some i =>
                dsimp only
                cases getArr "output_vars" kv with
                | none => rfl
                | some lo =>
                  dsimp only
                  cases asStrList lo <;> rfl
  | _ => rfl

/-! ### reading an accepted value -/

section
variable {T C CC : Type}

theorem getArr_lookup {kw : String} {kv : List (String × J)} {l : List J} (h : getArr kw kv = some l) :
    lookup kw kv = some (.arr l) := by
  unfold getArr at h
  cases hl : lookup kw kv with
  | none => simp [hl] at h
  | some v => cases v <;> simp [hl] at h; subst h; rfl

theorem termCoeffs_of_asCoeffs (E : Ext T C CC) {kv : List (String × J)} {cs : List (String × Rat)}
    (h : asCoeffs kv = some cs) : termCoeffs E kv = .ok (cs.filter fun p => p.2 != 0) := by
  induction kv generalizing cs with
  | nil => simp [asCoeffs] at h; subst h; rfl
  | cons p r ih =>
    obtain ⟨k, v⟩ := p
    cases v <;> simp [asCoeffs, asNum] at h
    rename_i q
    cases hr : asCoeffs r with
    | none => simp [hr] at h
    | some ts =>
      simp [hr] at h
      subst h
      by_cases hq : q = 0
      · simp [termCoeffs, pyNeZero, hq, ih hr]
      · simp [termCoeffs, pyNeZero, hq, ih hr, pyFloat]

theorem termOf_of_asClause (E : Ext T C CC) {x : J} {t : RawTerm} (h : asClause x = some t) :
    termOf E x = .ok (termOfRaw E t) := by
  cases x with
  | obj kv =>
    simp only [asClause] at h
    cases hk : lookup "constant" kv with
    | none => simp [hk] at h
    | some k =>
      cases k <;> simp [hk] at h
      rename_i q
      cases hc : lookup "coefficients" kv with
      | none => simp [hc] at h
      | some c =>
        cases c <;> simp [hc] at h
        rename_i ckv
        cases ha : asCoeffs ckv with
        | none => simp [ha] at h
        | some cs =>
          simp [ha] at h
          subst h
          simp [termOf, pyGetItem, hk, hc, pyItems, pyFloat, termCoeffs_of_asCoeffs E ha, termOfRaw]
  | _ => simp [asClause] at h

theorem asClause_isDict {x : J} {t : RawTerm} (h : asClause x = some t) : x.isDict = true := by
  cases x <;> simp [asClause] at h; rfl

theorem termsOf_of_asClauses (E : Ext T C CC) {l : List J} {ts : List RawTerm} (h : asClauses l = some ts) :
    l.all J.isDict = true ∧ termsOf E l = .ok (ts.map (termOfRaw E)) := by
  induction l generalizing ts with
  | nil => simp [asClauses] at h; subst h; simp [termsOf]
  | cons x r ih =>
    simp only [asClauses] at h
    cases hx : asClause x with
    | none => simp [hx] at h
    | some t =>
      cases hr : asClauses r with
      | none => simp [hx, hr] at h
      | some us =>
        simp [hx, hr] at h
        subst h
        obtain ⟨h1, h2⟩ := ih hr
        simp [termsOf, termOf_of_asClause E hx, h2, asClause_isDict hx]
        simpa using h1

theorem dictTerms_of (E : Ext T C CC) {kv : List (String × J)} {kw : String} {l : List J} {ts : List RawTerm}
    (hg : getArr kw kv = some l) (h : asClauses l = some ts) :
    dictTerms E (.obj kv) kw = .ok (ts.map (termOfRaw E)) := by
  obtain ⟨h1, h2⟩ := termsOf_of_asClauses E h
  simp [dictTerms, pyGetItem, getArr_lookup hg, pyIter, h1, h2]

theorem varList_of (E : Ext T C CC) {l : List J} {ss : List String} (h : asStrList l = some ss) :
    varList E (.arr l) = .ok ss := by
  have := asStrList_map h
  subst this
  simp [varList, pyIter, varName, Function.comp_def]

theorem fromDict_of_decode (E : Ext T C CC) {j : J} {r : RawM} (s : Bool) (h : decodeMachine j = some r) :
    fromDict Cfg.repaired E j s = buildMachine E r s := by
  have hv := validate_machine_spec j (.str "")
  rw [h] at hv
  cases j with
  | obj kv =>
    simp only [decodeMachine] at h
    cases ha : getArr "assumptions" kv with
    | none => simp [ha] at h
    | some la =>
      cases haa : asClauses la with
      | none => simp [ha, haa] at h
      | some a =>
        cases hg : getArr "guarantees" kv with
        | none => simp [ha, haa, hg] at h
        | some lg =>
          cases hgg : asClauses lg with
          | none => simp [ha, haa, hg, hgg] at h
          | some g =>
            cases hi : getArr "input_vars" kv with
            | none => simp [ha, haa, hg, hgg, hi] at h
            | some li =>
              cases hii : asStrList li with
              | none => simp [ha, haa, hg, hgg, hi, hii] at h
              | some i =>
                cases ho : getArr "output_vars" kv with
                | none => simp [ha, haa, hg, hgg, hi, hii, ho] at h
                | some lo =>
                  cases hoo : asStrList lo with
                  | none => simp [ha, haa, hg, hgg, hi, hii, ho, hoo] at h
                  | some o =>
                    simp [ha, haa, hg, hgg, hi, hii, ho, hoo] at h
                    subst h
                    have hk : hasAllKeys kv = true := by
                      simp [hasAllKeys, getArr_lookup ha, getArr_lookup hg, getArr_lookup hi, getArr_lookup ho]
                    simp only [fromDict, hk, Bool.not_true, Bool.false_eq_true, ↓reduceIte, Cfg.repaired_fromDictValidates, hv]
                    simp [dictTerms_of E ha haa, dictTerms_of E hg hgg, pyGetItem, getArr_lookup hi, getArr_lookup ho,
                      varList_of E hii, varList_of E hoo, buildMachine]
  | _ => simp [decodeMachine] at h

/-- with the validation inside, `from_dict` alone rejects everything that is not a well-kinded machine dictionary -/
theorem fromDict_reject (E : Ext T C CC) (j : J) (s : Bool) (h : decodeMachine j = none) :
    fromDict Cfg.repaired E j s = .error .valueError := by
  have hv := validate_machine_spec j (.str "")
  rw [h] at hv
  cases j with
  | obj kv =>
    simp only [fromDict, Cfg.repaired_fromDictValidates, ↓reduceIte, hv]
    cases hasAllKeys kv <;> simp
  | _ => rfl

theorem parseAll_append (cfg : Cfg) (E : Ext T C CC) (l : List String) :
    parseStrs cfg E l = parseAll cfg E (l.map .str) := rfl

theorem parseField_of (cfg : Cfg) (E : Ext T C CC) {l : List J} {ss : List String} (h : asStrList l = some ss) :
    parseField cfg E (.arr l) = parseStrs cfg E ss := by
  have := asStrList_map h
  subst this
  cases ss with
  | nil => simp [parseField, J.truthy, parseStrs, parseAll]
  | cons a r => simp [parseField, J.truthy, parseStrs, pyIter]

theorem fromStrings_of (cfg : Cfg) (E : Ext T C CC) {la lg li lo : List J} {a g i o : List String} (s : Bool)
    (ha : asStrList la = some a) (hg : asStrList lg = some g) (hi : asStrList li = some i) (ho : asStrList lo = some o) :
    fromStrings cfg E (.arr la) (.arr lg) (.arr li) (.arr lo) s = buildStrings cfg E ⟨a, g, i, o⟩ s := by
  simp only [fromStrings, buildStrings, parseField_of cfg E ha, parseField_of cfg E hg, varList_of E hi, varList_of E ho]

theorem parseNestedAll_of (cfg : Cfg) (E : Ext T C CC) {l : List J} {ss : List (List String)}
    (h : asStrLists l = some ss) : parseNestedAll cfg E l = parseStrLists cfg E ss := by
  induction l generalizing ss with
  | nil => simp [asStrLists] at h; subst h; rfl
  | cons x r ih =>
    cases x <;> simp [asStrLists] at h
    rename_i l
    cases hl : asStrList l with
    | none => simp [hl] at h
    | some s =>
      cases hr : asStrLists r with
      | none => simp [hl, hr] at h
      | some rs =>
        simp [hl, hr] at h
        subst h
        have := asStrList_map hl
        subst this
        simp [parseNestedAll, parseStrLists, pyIter, parseStrs, ih hr]

theorem parseNestedField_of (cfg : Cfg) (E : Ext T C CC) {l : List J} {ss : List (List String)}
    (h : asStrLists l = some ss) : parseNestedField cfg E (.arr l) = parseStrLists cfg E ss := by
  cases l with
  | nil => simp [asStrLists] at h; subst h; simp [parseNestedField, J.truthy, parseStrLists]
  | cons x r => simp [parseNestedField, J.truthy, pyIter, parseNestedAll_of cfg E h]

theorem fromStringsCompound_of (cfg : Cfg) (E : Ext T C CC) {la lg li lo : List J} {a g : List (List String)}
    {i o : List String} (ha : asStrLists la = some a) (hg : asStrLists lg = some g) (hi : asStrList li = some i)
    (ho : asStrList lo = some o) :
    fromStringsCompound cfg E (.arr la) (.arr lg) (.arr li) (.arr lo) = buildCompound cfg E ⟨a, g, i, o⟩ := by
  simp only [fromStringsCompound, buildCompound, parseNestedField_of cfg E ha, parseNestedField_of cfg E hg,
    varList_of E hi, varList_of E ho]

end

section
variable {T C CC : Type}

theorem decodeStrings_some {j : J} {r : RawS} (h : decodeStrings j = some r) :
    ∃ kv la lg li lo, j = .obj kv ∧ getArr "assumptions" kv = some la ∧ asStrList la = some r.a
      ∧ getArr "guarantees" kv = some lg ∧ asStrList lg = some r.g
      ∧ getArr "input_vars" kv = some li ∧ asStrList li = some r.ins
      ∧ getArr "output_vars" kv = some lo ∧ asStrList lo = some r.outs := by
  cases j with
  | obj kv =>
    simp only [decodeStrings] at h
    cases ha : getArr "assumptions" kv with
    | none => simp [ha] at h
    | some la =>
      cases haa : asStrList la with
      | none => simp [ha, haa] at h
      | some a =>
        cases hg : getArr "guarantees" kv with
        | none => simp [ha, haa, hg] at h
        | some lg =>
          cases hgg : asStrList lg with
          | none => simp [ha, haa, hg, hgg] at h
          | some g =>
            cases hi : getArr "input_vars" kv with
            | none => simp [ha, haa, hg, hgg, hi] at h
            | some li =>
              cases hii : asStrList li with
              | none => simp [ha, haa, hg, hgg, hi, hii] at h
              | some i =>
                cases ho : getArr "output_vars" kv with
                | none => simp [ha, haa, hg, hgg, hi, hii, ho] at h
                | some lo =>
                  cases hoo : asStrList lo with
                  | none => simp [ha, haa, hg, hgg, hi, hii, ho, hoo] at h
                  | some o =>
                    simp [ha, haa, hg, hgg, hi, hii, ho, hoo] at h
                    subst h
                    exact ⟨kv, la, lg, li, lo, rfl, ha, haa, hg, hgg, hi, hii, ho, hoo⟩
  | _ => simp [decodeStrings] at h

theorem decodeCompound_some {j : J} {r : RawC} (h : decodeCompound j = some r) :
    ∃ kv la lg li lo, j = .obj kv ∧ getArr "assumptions" kv = some la ∧ asStrLists la = some r.a
      ∧ getArr "guarantees" kv = some lg ∧ asStrLists lg = some r.g
      ∧ getArr "input_vars" kv = some li ∧ asStrList li = some r.ins
      ∧ getArr "output_vars" kv = some lo ∧ asStrList lo = some r.outs := by
  cases j with
  | obj kv =>
    simp only [decodeCompound] at h
    cases ha : getArr "assumptions" kv with
    | none => simp [ha] at h
    | some la =>
      cases haa : asStrLists la with
      | none => simp [ha, haa] at h
      | some a =>
        cases hg : getArr "guarantees" kv with
        | none => simp [ha, haa, hg] at h
        | some lg =>
          cases hgg : asStrLists lg with
          | none => simp [ha, haa, hg, hgg] at h
          | some g =>
            cases hi : getArr "input_vars" kv with
            | none => simp [ha, haa, hg, hgg, hi] at h
            | some li =>
              cases hii : asStrList li with
              | none => simp [ha, haa, hg, hgg, hi, hii] at h
              | some i =>
                cases ho : getArr "output_vars" kv with
                | none => simp [ha, haa, hg, hgg, hi, hii, ho] at h
                | some lo =>
                  cases hoo : asStrList lo with
                  | none => simp [ha, haa, hg, hgg, hi, hii, ho, hoo] at h
                  | some o =>
                    simp [ha, haa, hg, hgg, hi, hii, ho, hoo] at h
                    subst h
                    exact ⟨kv, la, lg, li, lo, rfl, ha, haa, hg, hgg, hi, hii, ho, hoo⟩
  | _ => simp [decodeCompound] at h

/-- the string branch of the repaired second loop on an accepted dictionary -/
theorem loadStrings_of (E : Ext T C CC) {data : J} {r : RawS} (h : decodeStrings data = some r) :
    (match pyGetItem data "assumptions" with
      | .error e => .error e
      | .ok a => match pyGetItem data "guarantees" with
        | .error e => .error e
        | .ok g => match pyGetItem data "input_vars" with
          | .error e => .error e
          | .ok i => match pyGetItem data "output_vars" with
            | .error e => .error e
            | .ok o => fromStrings Cfg.repaired E a g i o true) = buildStrings Cfg.repaired E r true := by
  obtain ⟨kv, la, lg, li, lo, rfl, ha, haa, hg, hgg, hi, hii, ho, hoo⟩ := decodeStrings_some h
  simp [pyGetItem, getArr_lookup ha, getArr_lookup hg, getArr_lookup hi, getArr_lookup ho,
    fromStrings_of Cfg.repaired E true haa hgg hii hoo]

theorem loadCompound_of (E : Ext T C CC) {data : J} {r : RawC} (h : decodeCompound data = some r) :
    (match pyGetItem data "assumptions" with
      | .error e => .error e
      | .ok a => match pyGetItem data "guarantees" with
        | .error e => .error e
        | .ok g => match pyGetItem data "input_vars" with
          | .error e => .error e
          | .ok i => match pyGetItem data "output_vars" with
            | .error e => .error e
            | .ok o => fromStringsCompound Cfg.repaired E a g i o) = buildCompound Cfg.repaired E r := by
  obtain ⟨kv, la, lg, li, lo, rfl, ha, haa, hg, hgg, hi, hii, ho, hoo⟩ := decodeCompound_some h
  simp [pyGetItem, getArr_lookup ha, getArr_lookup hg, getArr_lookup hi, getArr_lookup ho,
    fromStringsCompound_of Cfg.repaired E haa hgg hii hoo]

/-- **Characterisation of the repaired entry reader**: an entry that decodes is read as what it denotes, any
    other value is rejected with `ContractFormatError` or `ValueError`. -/
theorem readEntry_spec (E : Ext T C CC) (j : J) :
    (∃ d, decodeEntry j = some d ∧ readEntry Cfg.repaired E j = buildEntry Cfg.repaired E d)
    ∨ (decodeEntry j = none ∧ (readEntry Cfg.repaired E j = .error .contractFormat
        ∨ readEntry Cfg.repaired E j = .error .valueError)) := by
  cases j with
  | obj kv =>
    cases ht : lookup "type" kv with
    | none => right; simp [decodeEntry, readEntry, precheck, ht]
    | some ty =>
      cases hn : lookup "name" kv with
      | none => right; simp [decodeEntry, readEntry, precheck, ht, hn]
      | some nmv =>
        cases hd : lookup "data" kv with
        | none => right; cases nmv <;> simp [decodeEntry, readEntry, precheck, ht, hn, hd]
        | some data =>
          cases nmv with
          | str nm =>
            have hp : precheck Cfg.repaired (.obj kv) = .ok () := by simp [precheck, ht, hn, hd]
            have hT : pyGetItem (.obj kv) "type" = .ok ty := by simp [pyGetItem, ht]
            have hN : pyGetItem (.obj kv) "name" = .ok (.str nm) := by simp [pyGetItem, hn]
            have hD : pyGetItem (.obj kv) "data" = .ok data := by simp [pyGetItem, hd]
            simp only [decodeEntry, ht, hn, hd, readEntry, hp, load, hT, hN, hD]
            cases ty with
            | str t =>
              simp only [decodeData, J.eqStr]
              by_cases h1 : (t == "PolyhedralIoContract_machine") = true
              · simp only [h1, ↓reduceIte, validate_machine_spec]
                cases hm : decodeMachine data with
                | none => right; simp
                | some r =>
                  left
                  refine ⟨_, rfl, ?_⟩
                  simp only [fromDict_of_decode E true hm, buildEntry]
              · rw [Bool.not_eq_true] at h1
                by_cases h2 : (t == "PolyhedralIoContract") = true
                · simp only [h1, h2, Bool.false_eq_true, ↓reduceIte, validate_strings_spec, Cfg.repaired_fileChecked]
                  cases hm : decodeStrings data with
                  | none => right; simp
                  | some r =>
                    left
                    refine ⟨_, rfl, ?_⟩
                    have := loadStrings_of E hm
                    simp only [Option.map_some, buildEntry, ← this]
                    cases pyGetItem data "assumptions" with
                    | error e => rfl
                    | ok a => cases pyGetItem data "guarantees" with
                      | error e => rfl
                      | ok g => cases pyGetItem data "input_vars" with
                        | error e => rfl
                        | ok i => cases pyGetItem data "output_vars" with
                          | error e => rfl
                          | ok o => rfl
                · rw [Bool.not_eq_true] at h2
                  by_cases h3 : (t == "PolyhedralIoContractCompound") = true
                  · simp only [h1, h2, h3, Bool.false_eq_true, ↓reduceIte, validate_compound_spec, Cfg.repaired_compoundChecked]
                    cases hm : decodeCompound data with
                    | none => right; simp
                    | some r =>
                      left
                      refine ⟨_, rfl, ?_⟩
                      have := loadCompound_of E hm
                      simp only [Option.map_some, buildEntry, ← this]
                      cases pyGetItem data "assumptions" with
                      | error e => rfl
                      | ok a => cases pyGetItem data "guarantees" with
                        | error e => rfl
                        | ok g => cases pyGetItem data "input_vars" with
                          | error e => rfl
                          | ok i => cases pyGetItem data "output_vars" with
                            | error e => rfl
                            | ok o => rfl
                  · right; simp [h1, h2, h3]
            | _ => right; simp [decodeData, J.eqStr]
          | _ => right; simp [decodeEntry, readEntry, precheck, ht, hn, hd]
  | _ => right; simp [decodeEntry, readEntry, precheck]

/-! ### errors of the builders -/

theorem parseStrs_doc (E : Ext T C CC) (hE : E.Documented) (l : List String) (e : Err)
    (h : parseStrs Cfg.repaired E l = .error e) : documented e = true := by
  induction l with
  | nil => simp [parseStrs, parseAll] at h
  | cons s r ih =>
    simp only [parseStrs, List.map_cons, parseAll, tlFromString] at h
    cases hg : E.grammar s with
    | error x =>
      simp only [hg, Cfg.repaired_catchZeroDiv, Bool.and_true] at h
      by_cases hz : (x == eZeroDiv) = true
      · simp [hz] at h; subst h; rfl
      · simp [hz] at h
        subst h
        rcases hE.grammar_doc s _ hg with h1 | h1
        · exact h1
        · subst h1; simp at hz
    | ok ts =>
      simp only [hg] at h
      cases hr : parseAll Cfg.repaired E (r.map .str) with
      | error x =>
        simp only [hr] at h
        cases h
        exact ih hr
      | ok us => simp [hr] at h

theorem parseStrLists_doc (E : Ext T C CC) (hE : E.Documented) (l : List (List String)) (e : Err)
    (h : parseStrLists Cfg.repaired E l = .error e) : documented e = true := by
  induction l with
  | nil => simp [parseStrLists] at h
  | cons s r ih =>
    simp only [parseStrLists] at h
    cases hs : parseStrs Cfg.repaired E s with
    | error x => simp only [hs] at h; cases h; exact parseStrs_doc E hE s _ hs
    | ok ts =>
      simp only [hs] at h
      cases hr : parseStrLists Cfg.repaired E r with
      | error x => simp only [hr] at h; cases h; exact ih hr
      | ok us => simp [hr] at h

theorem buildEntry_doc (E : Ext T C CC) (hE : E.Documented) (d : Decoded) (e : Err)
    (h : buildEntry Cfg.repaired E d = .error e) : documented e = true := by
  cases d with
  | machine nm r =>
    simp only [buildEntry] at h
    cases hb : buildMachine E r true with
    | error x => simp only [hb] at h; cases h; exact hE.mk_doc _ _ _ _ _ _ hb
    | ok c => simp [hb] at h
  | strings nm r =>
    simp only [buildEntry] at h
    cases hb : buildStrings Cfg.repaired E r true with
    | ok c => simp [hb] at h
    | error x =>
      simp only [hb] at h; cases h
      simp only [buildStrings] at hb
      cases ha : parseStrs Cfg.repaired E r.a with
      | error y => simp only [ha] at hb; cases hb; exact parseStrs_doc E hE _ _ ha
      | ok a =>
        simp only [ha] at hb
        cases hg : parseStrs Cfg.repaired E r.g with
        | error y => simp only [hg] at hb; cases hb; exact parseStrs_doc E hE _ _ hg
        | ok g => simp only [hg] at hb; exact hE.mk_doc _ _ _ _ _ _ hb
  | compound nm r =>
    simp only [buildEntry] at h
    cases hb : buildCompound Cfg.repaired E r with
    | ok c => simp [hb] at h
    | error x =>
      simp only [hb] at h; cases h
      simp only [buildCompound] at hb
      cases ha : parseStrLists Cfg.repaired E r.a with
      | error y => simp only [ha] at hb; cases hb; exact parseStrLists_doc E hE _ _ ha
      | ok a =>
        simp only [ha] at hb
        cases hg : parseStrLists Cfg.repaired E r.g with
        | error y => simp only [hg] at hb; cases hb; exact parseStrLists_doc E hE _ _ hg
        | ok g => simp only [hg] at hb; exact hE.mkCompound_doc _ _ _ _ _ hb

/-! ### the file level -/

theorem precheck_error (cfg : Cfg) (hc : cfg.fileChecked = true) (x : J) (e : Err) (h : precheck cfg x = .error e) :
    e = .contractFormat := by
  cases x with
  | obj kv =>
    simp only [precheck, hc, ↓reduceIte] at h
    split at h
    · split at h <;> simp at h; exact h.symm
    · simp at h; exact h.symm
  | _ => simp [precheck, hc] at h; exact h.symm

theorem loadAll_error (cfg : Cfg) (E : Ext T C CC) (l : List J) (e : Err) (hp : precheckAll cfg l = .ok ())
    (h : loadAll cfg E l = .error e) : ∃ x ∈ l, readEntry cfg E x = .error e := by
  induction l with
  | nil => simp [loadAll] at h
  | cons x r ih =>
    simp only [precheckAll] at hp
    cases hx : precheck cfg x with
    | error y => simp [hx] at hp
    | ok u =>
      simp only [hx] at hp
      simp only [loadAll] at h
      cases hl : load cfg E x with
      | error y =>
        simp only [hl] at h; cases h
        exact ⟨x, List.mem_cons_self, by simp [readEntry, hx, hl]⟩
      | ok c =>
        simp only [hl] at h
        cases hr : loadAll cfg E r with
        | error y =>
          simp only [hr] at h; cases h
          obtain ⟨z, hz, hz'⟩ := ih hp hr
          exact ⟨z, List.mem_cons_of_mem _ hz, hz'⟩
        | ok cs => simp [hr] at h

theorem precheckAll_error (cfg : Cfg) (hc : cfg.fileChecked = true) (l : List J) (e : Err)
    (h : precheckAll cfg l = .error e) : e = .contractFormat := by
  induction l with
  | nil => simp [precheckAll] at h
  | cons x r ih =>
    simp only [precheckAll] at h
    cases hx : precheck cfg x with
    | error y => simp only [hx] at h; cases h; exact precheck_error cfg hc x _ hx
    | ok u => simp only [hx] at h; exact ih h

/-- element-wise relation between two lists of the same length -/
inductive Rel2 {α β : Type} (R : α → β → Prop) : List α → List β → Prop where
  | nil : Rel2 R [] []
  | cons {a b l m} : R a b → Rel2 R l m → Rel2 R (a :: l) (b :: m)

theorem loadAll_ok (cfg : Cfg) (E : Ext T C CC) (l : List J) (cs : List (Loaded C CC × J))
    (hp : precheckAll cfg l = .ok ()) (h : loadAll cfg E l = .ok cs) :
    Rel2 (fun x c => readEntry cfg E x = .ok c) l cs := by
  induction l generalizing cs with
  | nil => simp [loadAll] at h; subst h; exact .nil
  | cons x r ih =>
    simp only [precheckAll] at hp
    cases hx : precheck cfg x with
    | error y => simp [hx] at hp
    | ok u =>
      simp only [hx] at hp
      simp only [loadAll] at h
      cases hl : load cfg E x with
      | error y => simp [hl] at h
      | ok c =>
        simp only [hl] at h
        cases hr : loadAll cfg E r with
        | error y => simp [hr] at h
        | ok ds =>
          simp only [hr] at h
          cases h
          exact .cons (by simp [readEntry, hx, hl]) (ih ds hp hr)

end

end Dict
