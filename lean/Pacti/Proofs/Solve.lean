import Pacti.Proofs.Tactic4
import Mathlib.Algebra.BigOperators.Group.Finset.Basic
import Mathlib.Algebra.BigOperators.Ring.Finset
import Mathlib.Algebra.Order.BigOperators.Group.Finset
/-! The solve oracle (`Elim.solveRows`, exact Gauss–Jordan) returns solutions that are IMPLIED by the rows: every
    solved equation `u_k = s_k` is a linear combination of the original rows.  Proved through the invariant "every
    working row lies in the span of the original rows" and the final identity test — the elimination itself is not
    trusted. -/

open Finset BigOperators

namespace Elim

/-- value of a working row read as `Σ ucₖ·uₖ + rest − c` -/
def rowVal (U : List Var) (r : WRow) (v : Val) : Rat := evalL (List.zip U r.1) v + evalL r.2.1 v - r.2.2

/-- the working row is a linear combination of the original rows (as expressions) -/
def InSpan (U : List Var) (R : TL) (r : WRow) : Prop :=
  ∃ m : ℕ → ℚ, ∀ v, rowVal U r v = ∑ i ∈ range R.length, m i * expr (R.getD i default) v

theorem evalL_zip_map_div (U : List Var) (a : List Rat) (p : Rat) (v : Val) :
    evalL (List.zip U (a.map (· / p))) v = evalL (List.zip U a) v / p := by
  induction U generalizing a with
  | nil => simp [evalL]
  | cons u U ih =>
    cases a with
    | nil => simp [evalL]
    | cons x a => simp only [List.map_cons, List.zip_cons_cons, evalL, ih]; ring

theorem evalL_zip_zipWith (U : List Var) (a b : List Rat) (f : Rat) (v : Val) (h : a.length = b.length) :
    evalL (List.zip U (List.zipWith (fun x y => x - f * y) a b)) v = evalL (List.zip U a) v - f * evalL (List.zip U b) v := by
  induction U generalizing a b with
  | nil => simp [evalL]
  | cons u U ih =>
    cases a with
    | nil =>
      cases b with
      | nil => simp [evalL]
      | cons y b => simp at h
    | cons x a =>
      cases b with
      | nil => simp at h
      | cons y b =>
        simp only [List.length_cons, Nat.add_right_cancel_iff] at h
        simp only [List.zipWith_cons_cons, List.zip_cons_cons, evalL, ih a b h]; ring

theorem rowVal_scale (U : List Var) (r : WRow) (p : Rat) (v : Val) :
    rowVal U (r.1.map (· / p), scaleL (1 / p) r.2.1, r.2.2 / p) v = rowVal U r v / p := by
  unfold rowVal
  simp only [evalL_zip_map_div, evalL_scaleL]; ring

theorem rowVal_sub (U : List Var) (r pr : WRow) (f : Rat) (v : Val) (h : r.1.length = pr.1.length) :
    rowVal U (List.zipWith (fun a b => a - f * b) r.1 pr.1, addL r.2.1 (scaleL (-f) pr.2.1), r.2.2 - f * pr.2.2) v
      = rowVal U r v - f * rowVal U pr v := by
  unfold rowVal
  simp only [evalL_zip_zipWith U r.1 pr.1 f v h, evalL_addL, evalL_scaleL]; ring

theorem InSpan.scale {U : List Var} {R : TL} {r : WRow} (h : InSpan U R r) (p : Rat) :
    InSpan U R (r.1.map (· / p), scaleL (1 / p) r.2.1, r.2.2 / p) := by
  obtain ⟨m, hm⟩ := h
  refine ⟨fun i => m i / p, fun v => ?_⟩
  rw [rowVal_scale, hm v, div_eq_mul_inv, Finset.sum_mul]
  apply Finset.sum_congr rfl; intro i _; ring

theorem InSpan.sub {U : List Var} {R : TL} {r pr : WRow} (h : InSpan U R r) (hp : InSpan U R pr) (f : Rat)
    (hl : r.1.length = pr.1.length) :
    InSpan U R (List.zipWith (fun a b => a - f * b) r.1 pr.1, addL r.2.1 (scaleL (-f) pr.2.1), r.2.2 - f * pr.2.2) := by
  obtain ⟨m, hm⟩ := h
  obtain ⟨mp, hmp⟩ := hp
  refine ⟨fun i => m i - f * mp i, fun v => ?_⟩
  rw [rowVal_sub U r pr f v hl, hm v, hmp v, Finset.mul_sum, ← Finset.sum_sub_distrib]
  apply Finset.sum_congr rfl; intro i _; ring

/-- invariant of the elimination -/
structure GJInv (U : List Var) (R : TL) (m : List WRow) : Prop where
  len : m.length = U.length
  rows : ∀ r ∈ m, r.1.length = U.length ∧ InSpan U R r ∧ ∀ p ∈ r.2.1, p.1 ∉ U

theorem getElem!_mem {α} [Inhabited α] (l : List α) (i : Nat) (h : i < l.length) : l[i]! ∈ l := by
  rw [getElem!_pos l i h]; exact List.getElem_mem h

theorem not_mem_vars_scaleL (k : Rat) (l : Lin) (U : List Var) (h : ∀ p ∈ l, p.1 ∉ U) : ∀ p ∈ scaleL k l, p.1 ∉ U := by
  intro p hp
  simp only [scaleL, List.mem_map] at hp
  obtain ⟨q, hq, rfl⟩ := hp
  exact h q hq

theorem not_mem_vars_addL (a b : Lin) (U : List Var) (ha : ∀ p ∈ a, p.1 ∉ U) (hb : ∀ p ∈ b, p.1 ∉ U) : ∀ p ∈ addL a b, p.1 ∉ U := by
  intro p hp
  have : p.1 ∈ varsL (normC (a ++ b)) := by simp only [varsL, List.mem_map]; exact ⟨p, hp, rfl⟩
  have := mem_varsL_normC _ _ this
  simp only [varsL, List.map_append, List.mem_append, List.mem_map] at this
  rcases this with ⟨q, hq, e⟩ | ⟨q, hq, e⟩
  · rw [← e]; exact ha q hq
  · rw [← e]; exact hb q hq

theorem gjStep_inv (U : List Var) (R : TL) (k : Nat) (hk : k < U.length) (m m2 : List WRow) (hinv : GJInv U R m)
    (h : gjStep k m = some m2) : GJInv U R m2 := by
  unfold gjStep at h
  split at h; · cases h
  rename_i pi hfind
  have hpi : pi < m.length := by
    have := List.mem_of_find?_eq_some hfind
    simpa using this
  have hkm : k < m.length := by rw [hinv.len]; exact hk
  injection h with h; subst h
  have hpm := hinv.rows _ (getElem!_mem m pi hpi)
  have hkm' := hinv.rows _ (getElem!_mem m k hkm)
  -- rows of m1 are rows of m
  have hm1 : ∀ r ∈ (m.set pi (m[k]!)).set k (m[pi]!), r ∈ m := by
    intro r hr
    rcases List.mem_or_eq_of_mem_set hr with h1 | h1
    · rcases List.mem_or_eq_of_mem_set h1 with h2 | h2
      · exact h2
      · rw [h2]; exact getElem!_mem m k hkm
    · rw [h1]; exact getElem!_mem m pi hpi
  constructor
  · simp [hinv.len]
  · intro r hr
    rw [List.mem_mapIdx] at hr
    obtain ⟨i, hi, rfl⟩ := hr
    have hrow := hinv.rows _ (hm1 _ (List.getElem_mem hi))
    have hplen : ((m[pi]!).1.map (· / (m[pi]!).1[k]!)).length = U.length := by rw [List.length_map]; exact hpm.1
    by_cases hik : (i == k) = true
    · -- the normalised pivot row
      simp only [hik, ↓reduceIte]
      exact ⟨hplen, hpm.2.1.scale _, not_mem_vars_scaleL _ _ U hpm.2.2⟩
    · simp only [hik, Bool.false_eq_true, ↓reduceIte]
      by_cases hf : ((((m.set pi (m[k]!)).set k (m[pi]!))[i]).1[k]! == 0) = true
      · simp only [hf, ↓reduceIte]; exact hrow
      · simp only [hf, Bool.false_eq_true, ↓reduceIte]
        refine ⟨?_, ?_, ?_⟩
        · rw [List.length_zipWith, hrow.1, hplen]; simp
        · exact hrow.2.1.sub (hpm.2.1.scale _) _ (by rw [hrow.1, hplen])
        · exact not_mem_vars_addL _ _ U hrow.2.2 (not_mem_vars_scaleL _ _ U (not_mem_vars_scaleL _ _ U hpm.2.2))

theorem gjGo_inv (U : List Var) (R : TL) : ∀ (fuel k : Nat) (m m' : List WRow), GJInv U R m →
    gjGo U.length fuel k m = some m' → GJInv U R m' := by
  intro fuel
  induction fuel with
  | zero => intro k m m' hinv h; simp only [gjGo] at h; injection h with h; subst h; exact hinv
  | succ f ih =>
    intro k m m' hinv h
    simp only [gjGo] at h
    split at h
    · injection h with h; subst h; exact hinv
    · rename_i hk
      split at h
      · cases h
      · rename_i m2 hs
        exact ih (k + 1) m2 m' (gjStep_inv U R k (by omega) m m2 hinv hs) h

end Elim

namespace Elim

theorem coeffOf_filter_ne (l : Lin) (x u : Var) (h : x ≠ u) : coeffOf x (l.filter (fun q => q.1 != u)) = coeffOf x l := by
  induction l with
  | nil => rfl
  | cons a l ih =>
    by_cases ha : a.1 = u
    · have hne : ¬ a.1 = x := fun e => h (by rw [← e, ha])
      simp only [List.filter_cons, ha, bne_self_eq_false, Bool.false_eq_true, ↓reduceIte, coeffOf, ih]
      rw [← ha]; simp [hne]
    · have : (a.1 != u) = true := by simp [ha]
      simp only [List.filter_cons, this, ↓reduceIte, coeffOf, ih]

/-- splitting a linear form into its part on the (distinct) unknowns and the rest -/
theorem evalL_zip_coeffs (U : List Var) (hU : U.Nodup) (l : Lin) (v : Val) :
    evalL (List.zip U (U.map fun u => coeffOf u l)) v + evalL (l.filter fun p => !decide (p.1 ∈ U)) v = evalL l v := by
  induction U generalizing l with
  | nil => simp [evalL]
  | cons u U ih =>
    have hnd := List.nodup_cons.mp hU
    have hmap : (U.map fun x => coeffOf x (l.filter fun q => q.1 != u)) = U.map fun x => coeffOf x l := by
      apply List.map_congr_left
      intro x hx
      exact coeffOf_filter_ne l x u (fun e => hnd.1 (e ▸ hx))
    have hfil : (l.filter fun q => q.1 != u).filter (fun p => !decide (p.1 ∈ U)) = l.filter fun p => !decide (p.1 ∈ u :: U) := by
      rw [List.filter_filter]
      apply List.filter_congr
      intro p _
      by_cases h1 : p.1 = u <;> by_cases h2 : p.1 ∈ U <;> simp [h1, h2]
    have := ih hnd.2 (l.filter fun q => q.1 != u)
    rw [hmap, hfil, evalL_filter_ne] at this
    simp only [List.map_cons, List.zip_cons_cons, evalL]
    linarith

theorem evalL_zip_unit_aux (U : List Var) (k : Nat) (v : Val) : ∀ s : Nat,
    evalL (List.zip U ((List.range' s U.length).map fun j => if j = k then (1 : Rat) else 0)) v
      = if s ≤ k ∧ k < s + U.length then v (U[k - s]!) else 0 := by
  induction U with
  | nil => intro s; simp [evalL]
  | cons u U ih =>
    intro s
    simp only [List.length_cons, List.range'_succ, List.map_cons, List.zip_cons_cons, evalL, ih (s + 1)]
    by_cases h1 : s = k
    · subst h1
      simp
    · by_cases h2 : s + 1 ≤ k ∧ k < s + 1 + U.length
      · have h3 : s ≤ k ∧ k < s + (U.length + 1) := ⟨by omega, by omega⟩
        simp only [h1, ↓reduceIte, h2, and_self, h3]
        have : k - s = (k - (s + 1)) + 1 := by omega
        rw [this]
        simp
      · have h3 : ¬ (s ≤ k ∧ k < s + (U.length + 1)) := by
          intro h; apply h2; constructor <;> omega
        simp [h1, h2, h3]

theorem evalL_zip_unit (U : List Var) (k : Nat) (hk : k < U.length) (v : Val) :
    evalL (List.zip U (unitVec U.length k)) v = v (U[k]!) := by
  unfold unitVec
  rw [List.range_eq_range', evalL_zip_unit_aux U k v 0]
  simp [hk]

theorem initRows_inv (rows : TL) (U : List Var) (hU : U.Nodup) (hlen : rows.length = U.length) :
    GJInv U rows (rows.map fun r => (U.map fun u => r.coeff u, r.coeffs.filter (fun p => !decide (p.1 ∈ U)), r.const)) := by
  constructor
  · simp [hlen]
  · intro r hr
    obtain ⟨Ri, hRi, rfl⟩ := List.mem_map.mp hr
    obtain ⟨i, hi, hget⟩ := List.mem_iff_getElem.mp hRi
    refine ⟨by simp, ?_, ?_⟩
    · refine ⟨fun j => if j = i then 1 else 0, fun v => ?_⟩
      have hsum : ∑ j ∈ range rows.length, (if j = i then (1 : Rat) else 0) * expr (rows.getD j default) v = expr Ri v := by
        have : ∀ j ∈ range rows.length, (if j = i then (1 : Rat) else 0) * expr (rows.getD j default) v
            = if j = i then expr (rows.getD i default) v else 0 := by
          intro j _; by_cases h : j = i <;> simp [h]
        rw [Finset.sum_congr rfl this, Finset.sum_ite_eq']
        simp only [Finset.mem_range, hi, ↓reduceIte]
        rw [List.getD_eq_getElem?_getD, List.getElem?_eq_getElem hi, Option.getD_some, hget]
      rw [hsum]
      unfold rowVal expr PTerm.coeff
      simp only
      have := evalL_zip_coeffs U hU Ri.coeffs v
      linarith
    · intro p hp
      have := (List.mem_filter.mp hp).2
      simpa using this

/-- what a successful solve guarantees: rows are square, and each solution `u_k = s_k` is a linear combination of the
    original rows; the solutions do not mention any unknown -/
theorem solveRows_spec (rows : TL) (U : List Var) (hU : U.Nodup) (sols : List (Var × PTerm)) (h : solveRows rows U = some sols) :
    rows.length = U.length ∧
    ∃ (s : ℕ → PTerm) (M : ℕ → ℕ → ℚ),
      sols = (List.range U.length).map (fun k => (U[k]!, s k)) ∧
      ∀ k < U.length,
        (∀ v, v (U[k]!) - expr (s k) v = ∑ i ∈ range rows.length, M k i * expr (rows.getD i default) v) ∧
        (∀ u ∈ U, (s k).coeff u = 0) := by
  unfold solveRows at h
  split at h; · cases h
  rename_i hlen
  have hlen' : rows.length = U.length := by simpa using hlen
  simp only at h
  split at h; · cases h
  rename_i m hgo
  have hinv := gjGo_inv U rows _ _ _ _ (initRows_inv rows U hU hlen') hgo
  split at h
  · rename_i hcheck
    injection h with h
    refine ⟨hlen', fun k => PTerm.mk' (scaleL (-1) (m[k]!).2.1) (-(m[k]!).2.2), ?_⟩
    have hrow : ∀ k < U.length, (m[k]!).1 = unitVec U.length k ∧ InSpan U rows (m[k]!) ∧ ∀ p ∈ (m[k]!).2.1, p.1 ∉ U := by
      intro k hk
      have hmem := getElem!_mem m k (by rw [hinv.len]; exact hk)
      have := hinv.rows _ hmem
      refine ⟨?_, this.2.1, this.2.2⟩
      have hc := hcheck
      simp only [List.all_eq_true, List.mem_range, beq_iff_eq] at hc
      exact hc k hk
    choose! M hM using fun k (hk : k < U.length) => (hrow k hk).2.1
    refine ⟨M, h.symm, fun k hk => ⟨fun v => ?_, fun u hu => ?_⟩⟩
    · have h1 := hM k hk v
      unfold rowVal at h1
      rw [(hrow k hk).1, evalL_zip_unit U k hk v] at h1
      rw [← h1]
      unfold expr PTerm.mk'
      simp only
      rw [evalL_normC, evalL_scaleL]; ring
    · unfold PTerm.coeff PTerm.mk'
      simp only
      apply coeffOf_eq_zero_of_not_mem
      intro hmem
      have := mem_varsL_normC _ _ hmem
      simp only [varsL, scaleL, List.map_map, List.mem_map, Function.comp] at this
      obtain ⟨p, hp, hpu⟩ := this
      exact (hrow k hk).2.2 p hp (by simpa using hpu ▸ hu)
  · cases h

end Elim
