import Pacti.Proofs.Elim
/-! Tactic 4 (one-variable substitution chains): every result DOMINATES the term as an expression in the context,
    hence refines it.  Proved for the source as it stands after the two repairs (constant sign −1; lower bounds
    negated before the recursive call). -/

namespace Elim

/-- a term read as the expression `lhs − const` (the term holds iff the expression is ≤ 0) -/
def expr (t : PTerm) (v : Val) : Rat := evalL t.coeffs v - t.const

theorem holds_iff_expr (t : PTerm) (v : Val) : t.holds v ↔ expr t v ≤ 0 := by
  unfold PTerm.holds expr; constructor <;> intro h <;> linarith

theorem expr_scale (t : PTerm) (k : Rat) (v : Val) : expr (t.scale k) v = k * expr t v := by
  unfold expr PTerm.scale PTerm.mk'
  simp only
  rw [evalL_normC, evalL_scaleL]; ring

/-- substituting `x` by the expression of `s` -/
theorem expr_subst (t s : PTerm) (x : Var) (v : Val) :
    expr (t.subst x s) v = expr t v + t.coeff x * (expr s v - v x) := by
  unfold PTerm.subst
  split
  · unfold expr PTerm.add PTerm.remove PTerm.scale PTerm.mk' PTerm.coeff
    simp only
    rw [evalL_addL, evalL_filter_ne, evalL_normC, evalL_scaleL]; ring
  · rename_i h
    have hx : x ∉ varsL t.coeffs := by simpa [PTerm.containsVar, PTerm.vars] using h
    unfold PTerm.coeff
    rw [coeffOf_eq_zero_of_not_mem x _ hx]; ring

theorem evalL_map_neg_div (l : Lin) (a : Rat) (v : Val) :
    evalL (l.map fun p => (p.1, -p.2 / a)) v = -(evalL l v) / a := by
  induction l with
  | nil => simp [evalL]
  | cons p l ih => simp only [List.map_cons, evalL, ih]; ring

/-- the isolated expression of `x` in `g` (constant sign −1): `x − expr g / a` -/
theorem expr_isolate (g e : PTerm) (x : Var) (v : Val) (hs : Gen.isolateSign = -1) (ha : g.coeff x ≠ 0) (h : isolate g x = some e) :
    expr e v = v x - expr g v / g.coeff x := by
  unfold isolate PTerm.isolateWith at h
  split at h
  · injection h with h; subst h
    unfold expr PTerm.mk' PTerm.coeff
    simp only
    rw [evalL_normC, evalL_map_neg_div, evalL_filter_ne, hs]
    have ha' : coeffOf x g.coeffs ≠ 0 := ha
    field_simp; ring
  · cases h

theorem div_pos_of_neg_of_neg' {a b : Rat} (ha : a < 0) (hb : b < 0) : 0 < a / b := by
  have : a / b = (-a) / (-b) := by rw [neg_div_neg_eq]
  rw [this]; exact div_pos (by linarith) (by linarith)

/-- what "tactic 4 result `r` for `t` in context `H`" has to satisfy -/
def Dominates (H : TL) (t r : PTerm) : Prop := ∀ v, TL.holds H v → expr t v ≤ expr r v

theorem tryUseful_dominates (recCall : PTerm → PTerm → TacticRes) (H : TL) (t : PTerm) (x : Var) (hs : Gen.isolateSign = -1) :
    ∀ (us : List PTerm) (r : PTerm),
      (∀ u ∈ us, u ∈ H ∧ u.coeff x ≠ 0 ∧ u.coeff x * t.coeff x > 0) →
      (∀ u ∈ us, ∀ nt r0, recCall nt u = .ok (some r0) → Dominates H nt r0) →
      tryUseful recCall t x us = .ok (some r) → Dominates H t r := by
  intro us
  induction us with
  | nil => intro r _ _ h; simp [tryUseful] at h
  | cons u us ih =>
    intro r hus hrec h
    have hu := hus u (by simp)
    have ih' := ih r (fun w hw => hus w (by simp [hw])) (fun w hw => hrec w (by simp [hw]))
    simp only [tryUseful] at h
    split at h
    · exact ih' h
    · rename_i nt0 hiso
      split at h
      · rename_i r0 hr0
        injection h with h; injection h with h; subst h
        have hdom := hrec u (by simp) _ r0 hr0
        intro v hv
        have huv : expr u v ≤ 0 := (holds_iff_expr u v).mp (hv u hu.1)
        have hnt0 := expr_isolate u nt0 x v hs hu.2.1 hiso
        rw [expr_subst]
        have hd := hdom v hv
        by_cases hneg : u.coeff x < 0
        · -- lower bound: negated before and after the recursion
          simp only [hneg, decide_true, ↓reduceIte] at hd ⊢
          rw [expr_scale] at hd ⊢
          have hp : t.coeff x < 0 := by
            by_contra hn
            have : u.coeff x * t.coeff x ≤ 0 := mul_nonpos_of_nonpos_of_nonneg (le_of_lt hneg) (not_lt.mp hn)
            linarith [hu.2.2]
          have hq : 0 ≤ expr u v / u.coeff x := by
            have : expr u v / u.coeff x = (-expr u v) / (-u.coeff x) := by rw [neg_div_neg_eq]
            rw [this]; exact div_nonneg (by linarith) (by linarith)
          have : -1 * expr r0 v - v x ≤ 0 := by rw [hnt0] at hd; linarith
          nlinarith [mul_nonneg_of_nonpos_of_nonpos (le_of_lt hp) this]
        · have hpos : 0 < u.coeff x := lt_of_le_of_ne (not_lt.mp hneg) (Ne.symm hu.2.1)
          simp only [hneg, decide_false, Bool.false_eq_true, ↓reduceIte] at hd ⊢
          have hp : 0 < t.coeff x := by
            by_contra hn
            have : u.coeff x * t.coeff x ≤ 0 := mul_nonpos_of_nonneg_of_nonpos (le_of_lt hpos) (not_lt.mp hn)
            linarith [hu.2.2]
          have hq : expr u v / u.coeff x ≤ 0 := by
            have : expr u v / u.coeff x = -((-expr u v) / u.coeff x) := by rw [neg_div, neg_neg]
            rw [this]
            have : 0 ≤ (-expr u v) / u.coeff x := div_nonneg (by linarith) (le_of_lt hpos)
            linarith
          have : 0 ≤ expr r0 v - v x := by rw [hnt0] at hd; linarith
          nlinarith [mul_nonneg (le_of_lt hp) this]
      · exact ih' h
      · exact ih' h
      · cases h

theorem tactic4_dominates (hs : Gen.isolateSign = -1) :
    ∀ (fuel : Nat) (t : PTerm) (H : TL) (xs : List Var) (refine : Bool) (noVars : List Var) (r : PTerm),
      tactic4 fuel t H xs refine noVars = .ok (some r) → Dominates H t r := by
  intro fuel
  induction fuel with
  | zero => intro t H xs refine noVars r h; simp [tactic4] at h
  | succ n ih =>
    intro t H xs refine noVars r h
    simp only [tactic4] at h
    split at h; · cases h
    split at h
    · cases h
    · cases h
    · rename_i x _
      split at h; · cases h
      have hcand : ∀ u ∈ H.filter (fun ct => (Gen.list_intersection ct.vars noVars).isEmpty && decide (ct.coeff x ≠ 0) && decide (ct.coeff x * t.coeff x > 0)),
          u ∈ H ∧ u.coeff x ≠ 0 ∧ u.coeff x * t.coeff x > 0 := by
        intro u hu
        obtain ⟨h1, h2⟩ := List.mem_filter.mp hu
        simp only [Bool.and_eq_true, decide_eq_true_eq] at h2
        exact ⟨h1, h2.1.2, h2.2⟩
      split at h
      · -- goal context
        rename_i g rest hgoal
        have hg : g ∈ (H.filter (fun ct => (Gen.list_intersection ct.vars noVars).isEmpty && decide (ct.coeff x ≠ 0) && decide (ct.coeff x * t.coeff x > 0))).filter
            (fun ct => (Gen.list_intersection ct.vars xs).length == 1) := by rw [hgoal]; simp
        have hgc := hcand g (List.mem_filter.mp hg).1
        split at h
        · rename_i e he
          injection h with h; injection h with h; subst h
          intro v hv
          have hgv : expr g v ≤ 0 := (holds_iff_expr g v).mp (hv g hgc.1)
          rw [expr_subst, expr_isolate g e x v hs hgc.2.1 he]
          have hmul : 0 < g.coeff x * t.coeff x := hgc.2.2
          have : t.coeff x * (v x - expr g v / g.coeff x - v x) = -(t.coeff x / g.coeff x) * expr g v := by
            field_simp; ring
          rw [this]
          have hratio : 0 < t.coeff x / g.coeff x := by
            rcases lt_or_gt_of_ne hgc.2.1 with hn | hp
            · have : t.coeff x < 0 := by
                by_contra hh
                have : g.coeff x * t.coeff x ≤ 0 := mul_nonpos_of_nonpos_of_nonneg (le_of_lt hn) (not_lt.mp hh)
                linarith
              exact div_pos_of_neg_of_neg' this hn
            · have : 0 < t.coeff x := by
                by_contra hh
                have : g.coeff x * t.coeff x ≤ 0 := mul_nonpos_of_nonneg_of_nonpos (le_of_lt hp) (not_lt.mp hh)
                linarith
              exact div_pos this hp
          nlinarith [mul_nonneg (le_of_lt hratio) (by linarith : (0 : Rat) ≤ -expr g v)]
        · cases h
      · -- useful context: recursion
        apply tryUseful_dominates _ H t x hs _ r ?_ ?_ h
        · intro u hu; exact hcand u (List.mem_filter.mp hu).1
        · intro u hu nt r0 hr0 v hv
          exact ih nt (H.erase u) xs refine (noVars ++ [x]) r0 hr0 v (holds_erase H u v hv)

/-- tactic 4 is sound (refining; it declines when relaxing) -/
theorem tactic4_sound (hs : Gen.isolateSign = -1) (t : PTerm) (H : TL) (xs : List Var) (refine : Bool) (r : PTerm)
    (h : tactic4 (H.length + 1) t H xs refine [] = .ok (some r)) :
    ∀ v, TL.holds H v → (if refine then (r.holds v → t.holds v) else (t.holds v → r.holds v)) := by
  intro v hv
  have hd := tactic4_dominates hs _ t H xs refine [] r h v hv
  cases refine with
  | true =>
    simp only [↓reduceIte]
    intro hr
    rw [holds_iff_expr] at hr ⊢; linarith
  | false =>
    -- relaxing: tactic 4 raises ValueError, so there is no result
    simp [tactic4] at h

end Elim
