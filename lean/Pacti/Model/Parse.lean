import Pacti.Model.Syntax
import Pacti.Model.Serial
/-
  Pacti.Model.Parse — the part of `polyhedral_termlist_from_string` that `Model/Syntax.lean` leaves out: from the
  characters of a constraint string to the expression tree.  Core Lean only.

  Code mirrored (src/pacti/terms/polyhedra/syntax/grammar.py, "Grammar rules"):
    lexical level   `floating_point_number` (a `Combine`: no blanks inside), `variable`, the literals
                    `+ - * / ( ) | <= >= == =`; pyparsing skips blanks, tabs and line ends before every element
    `arithmetic_expr`   `infixNotation(number, [(* /, LEFT), (+ -, LEFT)])`, `paren_arith_expr`
    `term` … `terms`, `paren_terms`, `abs_term`, `first/signed_abs_term`, `first/addl_abs_or_term`, `abs_or_terms`,
    `paren_abs_or_terms`, `first/addl_paren_abs_or_terms`, `multi_paren_abs_or_terms`,
    `equality/leq/geq_expression`, `expression`, and `parse_string(…, parse_all=True)`

  pyparsing is a scannerless *ordered-choice* parser: `a | b` tries `b` only if `a` fails at this position, a sequence
  never re-enters an element that has matched, `Optional`/`ZeroOrMore` take what they can and keep it.  The functions
  below follow that discipline literally (`R.fail` = this element does not match here, nothing is consumed).  The
  lexical classes start with different characters, so cutting the string into tokens first and then running the
  ordered choice over tokens reads the same strings in the same way.

  Parse actions run as soon as their element matches — also inside an alternative that is given up later, and before
  a later syntax error is noticed.  The only action that can raise is the arithmetic one (`x / 0`): `R.abort`
  models the `ZeroDivisionError` that leaves the parser at that moment.

  The trees are those of `Model/Syntax.lean`; what the parse actions compute from a tree is `Syntax.translate`.
-/
namespace Parse
open Syntax

inductive Tok
  | num (q : Rat)
  | id (x : Var)
  | plus | minus | star | slash | lp | rp | bar | le | ge | eq
deriving DecidableEq, Repr, Inhabited

/-! ## lexical level -/

def isBlank (c : Char) : Bool := c == ' ' || c == '\t' || c == '\n' || c == '\r'

/-- `pp.alphas` -/
def isAlpha (c : Char) : Bool := ('a' ≤ c && c ≤ 'z') || ('A' ≤ c && c ≤ 'Z')

/-- `pp.alphanums + "_"` -/
def isIdChar (c : Char) : Bool := isAlpha c || ('0' ≤ c && c ≤ '9') || c == '_'

def isDig (c : Char) : Bool := '0' ≤ c && c ≤ '9'

/-- the optional exponent `E [+-] digits` of `floating_point_number` applied to a mantissa; without digits after
    the `e` nothing is consumed -/
def lexExp (m : Rat) (l : List Char) : Rat × List Char :=
  match l with
  | e :: r =>
    if e == 'e' || e == 'E' then
      let (neg, r1) := match r with
        | '+' :: r' => (false, r')
        | '-' :: r' => (true, r')
        | _ => (false, r)
      let ds := r1.takeWhile isDig
      if ds.isEmpty then (m, l)
      else
        let n : Nat := Nat.ofDigitChars 10 ds 0
        (m * Serial.pow10 (if neg then -(n : Int) else (n : Int)), r1.dropWhile isDig)
    else (m, l)
  | [] => (m, l)

/-- `floating_point_number`: `digits [. [digits]] | . digits`, then the optional exponent; the value is the exact
    decimal (Python: `float(text)`, the nearest double) -/
def lexNum (l : List Char) : Option (Rat × List Char) :=
  let ip := l.takeWhile isDig
  let r1 := l.dropWhile isDig
  if !ip.isEmpty then
    match r1 with
    | '.' :: r2 =>
      let fp := r2.takeWhile isDig
      some (lexExp (Serial.decVal ip fp) (r2.dropWhile isDig))
    | _ => some (lexExp (Serial.decVal ip []) r1)
  else
    match l with
    | '.' :: r2 =>
      let fp := r2.takeWhile isDig
      if fp.isEmpty then none else some (lexExp (Serial.decVal [] fp) (r2.dropWhile isDig))
    | _ => none

/-- position of a name in the table of names (the harness numbers the variables in name order) -/
def lookup (names : List String) (s : String) : Option Nat :=
  let i := names.findIdx (· == s)
  if i < names.length then some i else none

/-- the token list of a string; `none`: a character no element of the grammar starts with (a syntax error), or a
    variable name outside the table (a harness error, kept apart by the driver) -/
def lex (names : List String) : Nat → List Char → Option (List Tok)
  | 0, _ => none
  | _, [] => some []
  | fuel + 1, c :: r =>
    if isBlank c then lex names fuel r
    else if isDig c || c == '.' then
      match lexNum (c :: r) with
      | none => none
      | some (q, rest) => (lex names fuel rest).map (Tok.num q :: ·)
    else if isAlpha c then
      let w := c :: r.takeWhile isIdChar
      match lookup names (String.ofList w) with
      | none => none
      | some i => (lex names fuel (r.dropWhile isIdChar)).map (Tok.id i :: ·)
    else
      let one (t : Tok) := (lex names fuel r).map (t :: ·)
      match c, r with
      | '<', '=' :: r' => (lex names fuel r').map (Tok.le :: ·)
      | '>', '=' :: r' => (lex names fuel r').map (Tok.ge :: ·)
      | '=', '=' :: r' => (lex names fuel r').map (Tok.eq :: ·)
      | '=', _ => one .eq
      | '+', _ => one .plus
      | '-', _ => one .minus
      | '*', _ => one .star
      | '/', _ => one .slash
      | '(', _ => one .lp
      | ')', _ => one .rp
      | '|', _ => one .bar
      | _, _ => none

/-! ## ordered choice over tokens -/

/-- result of trying one grammar element at a position -/
inductive R (α : Type)
  | ok (a : α) (rest : List Tok)
  | fail
  | abort
deriving Repr

/-- `a | b` -/
@[inline] def R.orElse {α} (a : R α) (b : Unit → R α) : R α :=
  match a with
  | .fail => b ()
  | x => x

/-- a sequence: continue after a match -/
@[inline] def R.andThen {α β} (a : R α) (k : α → List Tok → R β) : R β :=
  match a with
  | .ok x r => k x r
  | .fail => .fail
  | .abort => .abort

/-- `Optional("*")` -/
def optStar : List Tok → List Tok
  | .star :: r => r
  | ts => ts

/-- `Optional(symbol, default="+")`: `true` is a written `-` -/
def optSign : List Tok → Bool × List Tok
  | .plus :: r => (false, r)
  | .minus :: r => (true, r)
  | ts => (false, ts)

/-- the parse action of an operator level ran on a chain: a division by zero leaves the parser -/
def acted (a : Arith) (rest : List Tok) : R Arith :=
  match a.evalW Gen.arithFold with
  | .ok _ => .ok a rest
  | .error _ => .abort

mutual
/-- operand of `infixNotation`: a number or a parenthesised arithmetic expression -/
def operand : Nat → List Tok → R Arith
  | 0, _ => .fail
  | f + 1, ts =>
    match ts with
    | .num q :: r => .ok (.num q) r
    | .lp :: r =>
      (addLevel f r).andThen fun a r1 =>
        match r1 with
        | .rp :: r2 => .ok a r2
        | _ => .fail
    | _ => .fail
/-- `OneOrMore(op + operand)` for `* /`, left-nested onto `acc`; `any` says whether an operator was taken -/
def mulLoop : Nat → Arith → Bool → List Tok → R (Arith × Bool)
  | 0, acc, any, ts => .ok (acc, any) ts
  | f + 1, acc, any, ts =>
    match ts with
    | .star :: r =>
      match operand f r with
      | .ok b r1 => mulLoop f (.mul acc b) true r1
      | .fail => .ok (acc, any) ts
      | .abort => .abort
    | .slash :: r =>
      match operand f r with
      | .ok b r1 => mulLoop f (.div acc b) true r1
      | .fail => .ok (acc, any) ts
      | .abort => .abort
    | _ => .ok (acc, any) ts
/-- the `* /` level -/
def mulLevel : Nat → List Tok → R Arith
  | 0, _ => .fail
  | f + 1, ts =>
    (operand f ts).andThen fun a r =>
      (mulLoop f a false r).andThen fun p r1 =>
        if p.2 then acted p.1 r1 else .ok p.1 r1
def addLoop : Nat → Arith → Bool → List Tok → R (Arith × Bool)
  | 0, acc, any, ts => .ok (acc, any) ts
  | f + 1, acc, any, ts =>
    match ts with
    | .plus :: r =>
      match mulLevel f r with
      | .ok b r1 => addLoop f (.add acc b) true r1
      | .fail => .ok (acc, any) ts
      | .abort => .abort
    | .minus :: r =>
      match mulLevel f r with
      | .ok b r1 => addLoop f (.sub acc b) true r1
      | .fail => .ok (acc, any) ts
      | .abort => .abort
    | _ => .ok (acc, any) ts
/-- the `+ -` level = `arithmetic_expr` -/
def addLevel : Nat → List Tok → R Arith
  | 0, _ => .fail
  | f + 1, ts =>
    (mulLevel f ts).andThen fun a r =>
      (addLoop f a false r).andThen fun p r1 =>
        if p.2 then acted p.1 r1 else .ok p.1 r1
end

/-- `floating_point_number ^ paren_arith_expr` (the two start with different tokens) -/
def coef (f : Nat) (ts : List Tok) : R Arith :=
  match ts with
  | .num q :: r => .ok (.num q) r
  | .lp :: r =>
    (addLevel f r).andThen fun a r1 =>
      match r1 with
      | .rp :: r2 => .ok a r2
      | _ => .fail
  | _ => .fail

mutual
/-- `paren_terms`: `( terms )` -/
def parenTerms : Nat → List Tok → R Tms
  | 0, _ => .fail
  | f + 1, ts =>
    match ts with
    | .lp :: r =>
      (terms f r).andThen fun t r1 =>
        match r1 with
        | .rp :: r2 => .ok t r2
        | _ => .fail
    | _ => .fail
/-- `term = only_variable | number_and_variable | only_number`, each with its parenthesised second form -/
def term : Nat → List Tok → R Tm
  | 0, _ => .fail
  | f + 1, ts =>
    -- only_variable: variable | paren_terms
    (match ts with
      | .id x :: r => R.ok (Tm.var x) r
      | _ => R.fail).orElse fun _ =>
    ((parenTerms f ts).andThen fun t r => R.ok (Tm.paren t) r).orElse fun _ =>
    -- number_and_variable: k [*] variable | k [*] paren_terms
    ((coef f ts).andThen fun k r =>
      match optStar r with
      | .id x :: r1 => R.ok (Tm.kvar k x) r1
      | _ => R.fail).orElse fun _ =>
    ((coef f ts).andThen fun k r =>
      (parenTerms f (optStar r)).andThen fun t r1 => R.ok (Tm.kparen k t) r1).orElse fun _ =>
    -- only_number: k | paren_terms (the latter cannot match here: it was tried above)
    ((coef f ts).andThen fun k r => R.ok (Tm.const k) r)
/-- `ZeroOrMore(signed_term)` -/
def signedTerms : Nat → List Tok → R Tms
  | 0, ts => .ok .nil ts
  | f + 1, ts =>
    match ts with
    | .plus :: r =>
      match term f r with
      | .ok t r1 => (signedTerms f r1).andThen fun rest r2 => .ok (.cons false t rest) r2
      | .fail => .ok .nil ts
      | .abort => .abort
    | .minus :: r =>
      match term f r with
      | .ok t r1 => (signedTerms f r1).andThen fun rest r2 => .ok (.cons true t rest) r2
      | .fail => .ok .nil ts
      | .abort => .abort
    | _ => .ok .nil ts
/-- `terms = first_term + ZeroOrMore(signed_term)` -/
def terms : Nat → List Tok → R Tms
  | 0, _ => .fail
  | f + 1, ts =>
    let (neg, r) := optSign ts
    (term f r).andThen fun t r1 =>
      (signedTerms f r1).andThen fun rest r2 => .ok (.cons neg t rest) r2
end

/-- `abs_term`: `[k [*]] | terms |` — once the optional multiplier has matched it is kept -/
def absTerm (f : Nat) (ts : List Tok) : R (Option Arith × Tms) :=
  let body (k : Option Arith) (r : List Tok) : R (Option Arith × Tms) :=
    match r with
    | .bar :: r1 =>
      (terms f r1).andThen fun t r2 =>
        match r2 with
        | .bar :: r3 => .ok (k, t) r3
        | _ => .fail
    | _ => .fail
  match coef f ts with
  | .ok k r => body (some k) (optStar r)
  | .fail => body none ts
  | .abort => .abort

/-- `first_abs_or_term = first_abs_term | first_term` -/
def firstAbsOrTerm (f : Nat) (ts : List Tok) : R Item :=
  let (neg, r) := optSign ts
  ((absTerm f r).andThen fun p r1 => R.ok (Item.abs neg p.1 p.2) r1).orElse fun _ =>
  ((term f r).andThen fun t r1 => R.ok (Item.tm neg t) r1)

/-- `addl_abs_or_term = signed_abs_term | signed_term` -/
def addlAbsOrTerm (f : Nat) (ts : List Tok) : R Item :=
  let go (neg : Bool) (r : List Tok) : R Item :=
    ((absTerm f r).andThen fun p r1 => R.ok (Item.abs neg p.1 p.2) r1).orElse fun _ =>
    ((term f r).andThen fun t r1 => R.ok (Item.tm neg t) r1)
  match ts with
  | .plus :: r => go false r
  | .minus :: r => go true r
  | _ => .fail

/-- `ZeroOrMore(addl_abs_or_term)` -/
def addlItems (f : Nat) : Nat → List Tok → R (List Item)
  | 0, ts => .ok [] ts
  | n + 1, ts =>
    match addlAbsOrTerm f ts with
    | .ok i r => (addlItems f n r).andThen fun rest r1 => .ok (i :: rest) r1
    | .fail => .ok [] ts
    | .abort => .abort

/-- `abs_or_terms` -/
def absOrTerms (f : Nat) (ts : List Tok) : R (List Item) :=
  (firstAbsOrTerm f ts).andThen fun i r =>
    (addlItems f f r).andThen fun rest r1 => .ok (i :: rest) r1

/-- `paren_abs_or_terms`: `[k [*]] ( abs_or_terms )` -/
def parenAbsOrTerms (f : Nat) (ts : List Tok) : R (Option Arith × List Item) :=
  let body (k : Option Arith) (r : List Tok) : R (Option Arith × List Item) :=
    match r with
    | .lp :: r1 =>
      (absOrTerms f r1).andThen fun items r2 =>
        match r2 with
        | .rp :: r3 => .ok (k, items) r3
        | _ => .fail
    | _ => .fail
  match coef f ts with
  | .ok k r => body (some k) (optStar r)
  | .fail => body none ts
  | .abort => .abort

/-- `first_paren_abs_or_terms = [±] paren_abs_or_terms | first_abs_or_term` -/
def firstSItem (f : Nat) (ts : List Tok) : R SItem :=
  let (neg, r) := optSign ts
  ((parenAbsOrTerms f r).andThen fun p r1 => R.ok (SItem.group neg p.1 p.2) r1).orElse fun _ =>
  ((firstAbsOrTerm f ts).andThen fun i r1 => R.ok (SItem.item i) r1)

/-- `addl_paren_abs_or_terms = ± paren_abs_or_terms | addl_abs_or_term` -/
def addlSItem (f : Nat) (ts : List Tok) : R SItem :=
  (match ts with
    | .plus :: r => (parenAbsOrTerms f r).andThen fun p r1 => R.ok (SItem.group false p.1 p.2) r1
    | .minus :: r => (parenAbsOrTerms f r).andThen fun p r1 => R.ok (SItem.group true p.1 p.2) r1
    | _ => R.fail).orElse fun _ =>
  ((addlAbsOrTerm f ts).andThen fun i r1 => R.ok (SItem.item i) r1)

def addlSItems (f : Nat) : Nat → List Tok → R (List SItem)
  | 0, ts => .ok [] ts
  | n + 1, ts =>
    match addlSItem f ts with
    | .ok i r => (addlSItems f n r).andThen fun rest r1 => .ok (i :: rest) r1
    | .fail => .ok [] ts
    | .abort => .abort

/-- `multi_paren_abs_or_terms` -/
def side (f : Nat) (ts : List Tok) : R Side :=
  (firstSItem f ts).andThen fun i r =>
    (addlSItems f f r).andThen fun rest r1 => .ok (i :: rest) r1

/-- `ZeroOrMore(op + multi_paren_abs_or_terms)` for a fixed operator token -/
def moreSides (f : Nat) (op : Tok) : Nat → List Tok → R (List Side)
  | 0, ts => .ok [] ts
  | n + 1, ts =>
    match ts with
    | t :: r =>
      if t = op then
        match side f r with
        | .ok s r1 => (moreSides f op n r1).andThen fun rest r2 => .ok (s :: rest) r2
        | .fail => .ok [] ts
        | .abort => .abort
      else .ok [] ts
    | [] => .ok [] ts

/-- `equality_expression = terms (== | =) terms` -/
def eqExpr (f : Nat) (ts : List Tok) : R Expr :=
  (terms f ts).andThen fun l r =>
    match r with
    | .eq :: r1 => (terms f r1).andThen fun rr r2 => .ok (.eq l rr) r2
    | _ => .fail

/-- `leq_expression` / `geq_expression`: a side, then one or more `op side` -/
def chainExpr (f : Nat) (op : Tok) (mk : Side → Side → List Side → Expr) (ts : List Tok) : R Expr :=
  (side f ts).andThen fun s1 r =>
    (moreSides f op f r).andThen fun l r1 =>
      match l with
      | s2 :: rest => .ok (mk s1 s2 rest) r1
      | [] => .fail

/-- `expression = equality_expression | leq_expression | geq_expression` -/
def expr (f : Nat) (ts : List Tok) : R Expr :=
  (eqExpr f ts).orElse fun _ =>
  (chainExpr f .le Expr.leq ts).orElse fun _ =>
  (chainExpr f .ge Expr.geq ts)

/-- `expression.parse_string(s, parse_all=True)` on the token list: the first alternative that matches must have
    consumed everything -/
def parseToks (ts : List Tok) : Except Err Expr :=
  match expr (4 * ts.length + 16) ts with
  | .ok e [] => .ok e
  | .ok _ _ => .error .syntax
  | .fail => .error .syntax
  | .abort => .error zeroDiv

/-- `polyhedral_termlist_from_string` on a token list -/
def fromToksG (ts : List Tok) : Except Err TL :=
  match parseToks ts with
  | .error x => if x == zeroDiv && Gen.catchZeroDiv then .error .valueError else .error x
  | .ok e => fromStringG e

/-- `polyhedral_termlist_from_string`, from the characters (`names`: the variable table of the harness) -/
def fromChars (names : List String) (l : List Char) : Except Err TL :=
  match lex names (l.length + 1) l with
  | none => .error .syntax
  | some ts => fromToksG ts

end Parse
