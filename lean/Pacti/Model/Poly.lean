import Pacti.Model.LP
import Pacti.Gen.Lists
import Pacti.Gen.Consts
/-
  Pacti.Model.Poly — the LP-based primitives of `PolyhedralTermList`, transcribed with the code's control
  flow: `evaluate`, `contains_behavior`, `is_empty`/`is_polytope_empty`, `refines`/
  `verify_polytope_containment`, `simplify`/`reduce_polytope`, `optimize`.

  `termlist_to_polytope` is *not* reproduced as matrices: the oracle takes the rows as terms.  What the
  matrix shapes decide in the code (the `len(a) == 0`, `n*m == 0`, `helper_present` shortcuts) is kept as the
  same tests on `length`s.
-/

/-- `TermList.vars`: `list_union` folded over the terms -/
def TL.vars (l : TL) : List Var := l.foldl (fun acc t => Gen.list_union acc t.vars) []

/-- `TermList.get_terms_with_vars` -/
def TL.withVars (l : TL) (xs : List Var) : TL := l.filter fun t => !(Gen.list_intersection t.vars xs).isEmpty

namespace Poly

/-- the inner loop of `evaluate`: substitute every assigned variable by the constant term `-val` -/
def evalTerm (t : PTerm) (b : List (Var × Rat)) : PTerm :=
  b.foldl (fun acc p => acc.subst p.1 ⟨[], -p.2⟩) t

/-- `PolyhedralTermList.evaluate` -/
def evaluate : TL → List (Var × Rat) → Except Err TL
  | [], _ => .ok []
  | t :: r, b =>
    let nt := evalTerm t b
    if nt.vars.isEmpty then
      if nt.const < 0 then .error .valueError else evaluate r b
    else match evaluate r b with
      | .ok r' => .ok (nt :: r')
      | .error e => .error e

/-- `PolyhedralTermList.contains_behavior` -/
def containsBehavior (l : TL) (b : List (Var × Rat)) : Except Err Bool :=
  if !(Gen.list_diff l.vars (b.map (·.1))).isEmpty then .error .valueError
  else match evaluate l b with
    | .ok _ => .ok true
    | .error _ => .ok false

/-- `is_polytope_empty(a, b)` for a matrix with rows `rows` and `ncols` columns -/
def polyEmpty (O : Oracle) (rows : TL) (ncols : Nat) : Except Err Bool :=
  if rows.length = 0 then .ok false
  else if rows.length * ncols = 0 then
    -- no columns: `bool(np.any(b < 0))` in the repaired source, `False` in the pinned one (`Gen.emptyNoColsBySign`, read off the source)
    .ok (Gen.emptyNoColsBySign && rows.any fun t => decide (t.const < 0))
  else match O.lp [] rows with
    | .infeasible => .ok true
    | .optimal _ _ => .ok false
    | .unbounded => .ok false
    | .stuck => .error .oracleStuck     -- the code's "Cannot decide emptiness" (status 1/4)

/-- `PolyhedralTermList.is_empty` -/
def isEmpty (O : Oracle) (l : TL) : Except Err Bool := polyEmpty O l l.vars.length

def bump (t : PTerm) : PTerm := ⟨t.coeffs, t.const + 1⟩

/-- absolute value on `Rat` without Mathlib -/
def rabs (q : Rat) : Rat := if q < 0 then -q else q

/-- outcome of the float comparison `-res["fun"] <= b (+ tol·(1+|b|))`: with exact numbers it is `yes` for
    `m ≤ b`, `no` beyond the tolerance, and `gray` in between (only reachable when `tol > 0`). -/
inductive Verdict | yes | no | gray
deriving DecidableEq, Repr, Inhabited

def cmpTol (tol m b : Rat) : Verdict :=
  if m ≤ b then .yes else if m ≤ b + tol * (1 + rabs b) then .gray else .no

/-- a comparison inside the tolerance band: the overall answer can no longer be a definite `yes` -/
def grayify : Except Err Verdict → Except Err Verdict
  | .ok .yes => .ok .gray
  | r => r

/-- the loop of `verify_polytope_containment` over the right-hand rows -/
def containLoop (O : Oracle) (l : TL) : TL → Except Err Verdict
  | [] => .ok .yes
  | t :: rest =>
    match O.lp t.coeffs (l ++ [bump t]) with
    | .infeasible => .ok .no
    | .optimal m _ =>
      match cmpTol Gen.containTol m t.const with
      | .yes => containLoop O l rest
      | .gray => grayify (containLoop O l rest)
      | .no => .ok .no
    | .unbounded => .error (.py "TypeError")   -- `-res["fun"]` with `fun = None`; unreachable with a certified oracle
    | .stuck => .error .oracleStuck

/-- `PolyhedralTermList.refines` → `verify_polytope_containment` -/
def refinesTL (O : Oracle) (l r : TL) : Except Err Verdict :=
  if r.length = 0 then .ok .yes
  else if l.length = 0 then .ok .no
  else
    let m := (Gen.list_union l.vars r.vars).length
    match polyEmpty O l m with
    | .error e => .error e
    | .ok true => .ok .yes
    | .ok false =>
      match polyEmpty O r m with
      | .error e => .error e
      | .ok true => .ok .no
      | .ok false => containLoop O l r

/-- `reduce_polytope`'s `while` loop.  `kept` = rows already visited and kept, second argument = rows still
    to visit; `tie r` resolves the float comparison when the exact optimum equals the bound. -/
def reduce (O : Oracle) (tie : PTerm → Bool) (ctx : TL) : TL → TL → Except Err TL
  | kept, [] => .ok kept
  | kept, r :: rest =>
    match O.lp r.coeffs (kept ++ [bump r] ++ rest ++ ctx) with
    | .optimal m _ =>
      if m < r.const ∨ (m = r.const ∧ tie r = true) then reduce O tie ctx kept rest
      else reduce O tie ctx (kept ++ [r]) rest
    | .unbounded => reduce O tie ctx (kept ++ [r]) rest   -- `status == 3` (impossible for a certified oracle): the row is kept
    | .infeasible => .error .valueError             -- `i += 1` then `raise`
    | .stuck => .error .oracleStuck

/-- `reduce_polytope(a, b, a_help, b_help)` with its early returns; `rows`/`ctx` are the rows of the two matrices -/
def simplifyCore (O : Oracle) (tie : PTerm → Bool) (rows ctx : TL) : Except Err TL :=
  let m := (Gen.list_union rows.vars ctx.vars).length
  let helper : Bool := decide (ctx.length * m > 0)
  if rows.length = 0 then .ok rows
  else if rows.length = 1 && !helper then .ok rows
  else if m = 0 then .error .valueError     -- no variable at all: scipy rejects the zero-column matrix with a ValueError
  else reduce O tie (if helper then ctx else []) [] rows

/-- `PolyhedralTermList.simplify`.  `Γ = none` is the call without context (`context=None`); any context
    object, even an empty one, takes the first branch (`if context:` is object truthiness). -/
def simplify (O : Oracle) (tie : PTerm → Bool) (l : TL) (Γ : Option TL) : Except Err TL :=
  match Γ with
  | some g => simplifyCore O tie (Gen.list_diff l g) g
  | none => simplifyCore O tie l []

/-- `PolyhedralTermList.optimize`.  Status mapping of the code: 3 → `None`, 0 → the value, 2 → `None` if the
    constraints are satisfiable (`is_empty()` says no) else `ValueError`; a list without constraints never reaches the
    solver. -/
def optimize (O : Oracle) (l : TL) (obj : Lin) (maximize : Bool) : Except Err (Option Rat) :=
  if l.length = 0 then
    (if obj.any (fun p => coeffOf p.1 obj != 0) then .ok none else .ok (some 0))
  else
    let c := if maximize then obj else scaleL (-1) obj
    match O.lp c l with
    | .unbounded => .ok none
    | .optimal m _ => .ok (some (if maximize then m else -m))
    | .infeasible =>
      (match isEmpty O l with
       | .ok false => .ok none
       | .ok true => .error .valueError
       | .error e => .error e)
    | .stuck => .error .oracleStuck

/-- `PolyhedralIoContract.get_variable_bounds`: maximum first, then minimum; returns (minimum, maximum) -/
def variableBounds (O : Oracle) (l : TL) (x : Var) : Except Err (Option Rat × Option Rat) :=
  match optimize O l [(x, 1)] true with
  | .error e => .error e
  | .ok hi =>
    match optimize O l [(x, 1)] false with
    | .error e => .error e
    | .ok lo => .ok (lo, hi)

end Poly
