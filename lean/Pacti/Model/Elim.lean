import Pacti.Model.Poly
/-
  Pacti.Model.Elim — variable elimination of `PolyhedralTermList`: `elim_vars_by_refining`,
  `elim_vars_by_relaxing`, `_transform`, `_transform_term`, the tactics `_tactic_1 … _tactic_5`, `_tactic_trivial`,
  `_get_kaykobad_context`, `_get_tlp_context`, `_context_reduction`, `solve_for_variables`.

  External engines: `linprog` → `Oracle`; `sympy.solve` on a square linear system → `solveRows` (exact
  Gauss–Jordan, returns `none` for a singular system, where sympy's answer is not modelled).
-/

namespace Elim

/-- a tactic's outcome: `.ok (some t)` transformed, `.ok none` = Python `None` (try the next tactic),
    `.error .valueError` = the tactic declines -/
abbrev TacticRes := Except Err (Option PTerm)

def sign (q : Rat) : Rat := if 0 ≤ q then 1 else -1      -- `get_sign`: 0 has sign +1

/-! ### tactic 2 -/

def tactic2 (O : Oracle) (t : PTerm) (H : TL) (xs : List Var) (refine : Bool) : TacticRes :=
  let conflict := Gen.list_intersection xs t.vars
  let nctx := H.filter fun ct => (Gen.list_diff ct.vars xs).isEmpty && (ct != t)
  if nctx.isEmpty then .error .valueError
  else if !(Gen.list_diff conflict (TL.vars nctx)).isEmpty then .error .valueError
  else
    let elimPart : Lin := t.coeffs.filter fun p => decide (p.1 ∈ TL.vars nctx)
    match O.lp (if refine then elimPart else scaleL (-1) elimPart) nctx with
    | .optimal m _ =>
      let repl := if refine then m else -m
      let res : PTerm := ⟨t.coeffs.filter (fun p => !decide (p.1 ∈ xs)), t.const - repl⟩
      if res.vars.isEmpty then .ok (some t) else .ok (some res)
    | .infeasible => .error .valueError
    | .unbounded => .error .valueError
    | .stuck => .error .oracleStuck

/-! ### tactic 4 -/

def isolate (t : PTerm) (x : Var) : Option PTerm := PTerm.isolateWith Gen.isolateSign t x

/-- the `for useful_term in useful_context` loop of `_tactic_4`; `recCall nt u` is the recursive call on the isolated
    expression `nt` with the row `u` removed from the context.  When `u` has a negative coefficient for `x` the isolated
    expression is a LOWER bound of `x`: it is negated before the recursive call and the result is negated back. -/
def tryUseful (recCall : PTerm → PTerm → TacticRes) (t : PTerm) (x : Var) : List PTerm → TacticRes
  | [] => .ok none
  | u :: us =>
    match isolate u x with
    | none => tryUseful recCall t x us      -- `isolate_variable` raises ValueError inside the `try`
    | some nt0 =>
      let lower : Bool := decide (u.coeff x < 0)
      let nt := if lower then nt0.scale (-1) else nt0
      match recCall nt u with
      | .ok (some r0) =>
        let r := if lower then r0.scale (-1) else r0
        .ok (some (t.subst x r))
      | .ok none => tryUseful recCall t x us
      | .error .valueError => tryUseful recCall t x us
      | .error e => .error e

/-- `_tactic_4`; `fuel` bounds the recursion (each level removes one context row) -/
def tactic4 : Nat → PTerm → TL → List Var → Bool → List Var → TacticRes
  | 0, _, _, _, _, _ => .error .valueError
  | fuel + 1, t, H, xs, refine, noVars =>
    if !refine then .error .valueError
    else
      match Gen.list_intersection xs t.vars with
      | [] => .error (.py "IndexError")
      | _ :: _ :: _ => .error .valueError
      | [x] =>
        let cands := H.filter fun ct =>
          (Gen.list_intersection ct.vars noVars).isEmpty && decide (ct.coeff x ≠ 0) && decide (ct.coeff x * t.coeff x > 0)
        let goal := cands.filter fun ct => (Gen.list_intersection ct.vars xs).length == 1
        let useful := cands.filter fun ct => (Gen.list_intersection ct.vars xs).length == 2
        if useful.isEmpty && goal.isEmpty then .error .valueError
        else match goal with
          | g :: _ =>
            (match isolate g x with
             | some e => .ok (some (t.subst x e))
             | none => .error .valueError)
          | [] => tryUseful (fun nt u => tactic4 fuel nt (H.erase u) xs refine (noVars ++ [x])) t x useful

/-! ### context reduction (tactics 1, 3, 5) -/

/-- a working row of the elimination: (coefficients of the unknowns, aligned with the list of unknowns; remaining linear
    part; constant), read as the equation  Σ ucₖ·uₖ + rest = c -/
abbrev WRow := List Rat × Lin × Rat

/-- one Gauss–Jordan step at column `k`: pivot = first row at index ≥ k with a non-zero entry in column k, swapped into
    position k, normalised, and eliminated from every other row; `none` if the column has no pivot (singular) -/
def gjStep (k : Nat) (m : List WRow) : Option (List WRow) :=
  match (List.range m.length).find? (fun i => i ≥ k && (m[i]!).1[k]! != 0) with
  | none => none
  | some pi =>
    let prow := m[pi]!
    let m1 := (m.set pi (m[k]!)).set k prow
    let p := prow.1[k]!
    let prow' : WRow := (prow.1.map (· / p), scaleL (1 / p) prow.2.1, prow.2.2 / p)
    some (m1.mapIdx fun i row =>
      if i == k then prow' else
        let f := row.1[k]!
        if f == 0 then row else
          (List.zipWith (fun a b => a - f * b) row.1 prow'.1, addL row.2.1 (scaleL (-f) prow'.2.1), row.2.2 - f * prow'.2.2))

def gjGo (n : Nat) : Nat → Nat → List WRow → Option (List WRow)
  | 0, _, m => some m
  | fuel + 1, k, m =>
    if k ≥ n then some m else
    match gjStep k m with
    | none => none
    | some m2 => gjGo n fuel (k + 1) m2

def unitVec (n k : Nat) : List Rat := (List.range n).map fun j => if j = k then 1 else 0

/-- exact Gauss–Jordan on the rows read as equalities, solving for `unknowns`; every other variable is a parameter.
    Returns, per unknown, the substituting term `(E, s)` meaning `x = E - s`; `none` if the system is not square or is
    singular (sympy's answer there is not modelled).  The final test that the unknown part has become the identity never
    fails for a completed elimination; it is there so that the result can be trusted without trusting the elimination. -/
def solveRows (rows : TL) (unknowns : List Var) : Option (List (Var × PTerm)) :=
  if rows.length != unknowns.length then none else
  let n := unknowns.length
  let init : List WRow := rows.map fun r =>
    (unknowns.map fun u => r.coeff u, r.coeffs.filter (fun p => !decide (p.1 ∈ unknowns)), r.const)
  match gjGo n n 0 init with
  | none => none
  | some m =>
    if (List.range n).all (fun k => (m[k]!).1 == unitVec n k) then
      -- row k now reads  u_k + rest_k = c_k   →   u_k = -rest_k + c_k  = E - s  with E = -rest_k, s = -c_k
      some ((List.range n).map fun k => (unknowns[k]!, PTerm.mk' (scaleL (-1) (m[k]!).2.1) (-(m[k]!).2.2)))
    else none

/-- `PolyhedralTerm.solve_for_variables` + the substitution loop of `_context_reduction` -/
def reduceWith (t : PTerm) (rows : TL) (forbidden : List Var) : TacticRes :=
  let toSolve := Gen.list_intersection (TL.vars rows) forbidden
  if rows.length != toSolve.length then .error .valueError
  else if !decide toSolve.Nodup then .error .oracleStuck   -- a repeated key: impossible for dict-keyed terms
  else match solveRows rows toSolve with
    | none => .error .oracleStuck       -- singular system: sympy's (partial / empty) answer is not modelled
    | some sols => .ok (some (sols.foldl (fun acc p => acc.subst p.1 p.2) t))

/-- `transform_coeff` -/
def tcOf (refine : Bool) : Rat := if refine then 1 else -1

/-- one candidate row of `_get_kaykobad_context` for the `i`-th forbidden variable: the residuals if the row passes the
    three Kaykobad tests -/
def kayRow (t ct : PTerm) (forbidden other : List Var) (refine : Bool) (i : Nat) (iVar : Var) (ps : List Rat) : Option (List Rat) :=
  if ct == t then none
  else if other.any (fun v => ct.coeff v != 0) then none
  else
    if forbidden.any (fun v => ct.coeff v != 0 && tcOf refine * sign (ct.coeff v) != sign (t.coeff v)) then none
    else if ct.coeff iVar == 0 then none
    else
      let res : List Rat := (List.range forbidden.length).map fun j =>
        if j == i then 0 else sign (t.coeff forbidden[j]!) * ct.coeff forbidden[j]! * t.coeff iVar / ct.coeff iVar
      let bad := (List.range forbidden.length).any fun j => decide (Poly.rabs (t.coeff forbidden[j]!) ≤ ps[j]! + res[j]!)
      if bad then none else some res

/-- the row-finding loop of `_get_kaykobad_context`: one context row per forbidden variable -/
def kayLoop (t : PTerm) (H : TL) (forbidden other : List Var) (refine : Bool) :
    Nat → Nat → TL → List Rat → Bool → Except Err (TL × Bool)
  | _, 0, rows, _, others => .ok (rows, others)
  | i, fuel + 1, rows, ps, others =>
    if i ≥ forbidden.length then .ok (rows, others) else
    let iVar := forbidden[i]!
    let cands := Gen.list_diff H rows
    match cands.findSome? (fun ct => (kayRow t ct forbidden other refine i iVar ps).map fun r => (ct, r)) with
    | none => .error .valueError
    | some (ct, res) =>
      kayLoop t H forbidden other refine (i + 1) fuel (rows ++ [ct]) (List.zipWith (· + ·) ps res)
        (others || !(Gen.list_diff ct.vars forbidden).isEmpty)

/-- `_get_kaykobad_context` -/
def kaykobadContext (t : PTerm) (H : TL) (xs : List Var) (refine : Bool) : Except Err (TL × List Var) :=
  let forbidden := Gen.list_intersection xs t.vars
  let other := Gen.list_diff xs t.vars
  let n := forbidden.length
  match kayLoop t H forbidden other refine 0 n [] (List.replicate n 0) false with
  | .error e => .error e
  | .ok (rows, others) =>
    if !others && (Gen.list_diff t.vars xs).isEmpty then .error .valueError
    else .ok (rows, forbidden)

def tactic1 (t : PTerm) (H : TL) (xs : List Var) (refine : Bool) : TacticRes :=
  match kaykobadContext t H xs refine with
  | .error _ => .error .valueError
  | .ok (rows, forbidden) => reduceWith t rows forbidden

/-- an index used by none of the arguments -/
def freshVar (t : PTerm) (H : TL) (xs : List Var) : Var := (t.vars ++ TL.vars H ++ xs).foldl max 0 + 1

/-- the auxiliary variable of tactic 3: a name that clashes with nothing in use when the source picks it that way
    (`Gen.tactic3Fresh`), otherwise the fixed name `"_"` = variable 0 -/
def auxVar (t : PTerm) (H : TL) (xs : List Var) : Var := if Gen.tactic3Fresh then freshVar t H xs else 0

/-- `_tactic_3`: the change of variable `w = Σ cⱼ·xⱼ` over the conflict variables, then tactic 1.  The conflict
    variables are used as dictionary keys and as a set, so repeated entries (a repeated entry of `vars_to_elim`) collapse. -/
def tactic3 (t : PTerm) (H : TL) (xs : List Var) (refine : Bool) : TacticRes :=
  match (Gen.list_intersection xs t.vars).eraseDups with
  | [] => .error (.py "IndexError")
  | x0 :: rest =>
    let w := auxVar t H xs
    let conflict := x0 :: rest
    let nt : PTerm := PTerm.mk' (t.coeffs.filter (fun p => !decide (p.1 ∈ conflict)) ++ [(w, 1)]) t.const
    let c0 := t.coeff x0
    if c0 = 0 then .error (.py "ZeroDivisionError") else
    let substT : PTerm := PTerm.mk' ((w, 1 / c0) :: rest.map fun v => (v, -(t.coeff v) / c0)) 0
    let nH := H.map fun el => el.subst x0 substT
    let nxs := Gen.list_diff (Gen.list_union xs [w]) [x0]
    tactic1 nt nH nxs refine

/-- `np.isclose(slack, 0)` -/
def closeToZero (q : Rat) : Bool := decide (Poly.rabs q ≤ 1 / 100000000)

/-- `_get_tlp_context`.  `active` = indices of the LP-active rows as the implementation saw them (a hint that the driver
    checks for admissibility); `none` = take the rows with zero slack at the oracle's optimal point. -/
def tlpContext (O : Oracle) (t : PTerm) (H : TL) (xs : List Var) (refine : Bool) (active : Option (List Nat)) :
    Except Err (TL × List Var) :=
  let forbidden := Gen.list_intersection xs t.vars
  -- the objective vector ranges over the variables OF THE CONTEXT only: a forbidden variable the context does not
  -- mention silently drops out
  let obj : Lin := t.coeffs.filter fun p => decide (p.1 ∈ forbidden) && decide (p.1 ∈ TL.vars H)
  -- the code minimises `objective` (negated when refining): refine ⇒ maximise the eliminated part, relax ⇒ minimise it
  if H.isEmpty then .error .valueError     -- scipy rejects the empty constraint matrix with a ValueError
  else
  match O.lp (if refine then obj else scaleL (-1) obj) H with
  | .unbounded => .error .valueError
  | .infeasible => .error .valueError
  | .stuck => .error .oracleStuck
  | .optimal _ x =>
    let idx : List Nat := match active with
      | some a => a
      | none => (List.range H.length).filter fun i => closeToZero ((H[i]!).const - evalL (H[i]!).coeffs (valOf x))
    let n := forbidden.length
    if idx.length < n then .error .valueError
    else
      let rows := ((idx.map fun i => H[i]!).filter fun ct => !(Gen.list_intersection ct.vars forbidden).isEmpty).take n
      if rows.length < n then .error .valueError
      else .ok (rows, forbidden)

/-- is the implementation's active set admissible: do all hinted rows have zero slack at SOME optimal solution? -/
def hintAdmissible (O : Oracle) (t : PTerm) (H : TL) (xs : List Var) (refine : Bool) (idx : List Nat) : Bool :=
  let forbidden := Gen.list_intersection xs t.vars
  let obj0 : Lin := t.coeffs.filter fun p => decide (p.1 ∈ forbidden) && decide (p.1 ∈ TL.vars H)
  let obj := if refine then obj0 else scaleL (-1) obj0
  match O.lp obj H with
  | .optimal m _ =>
    let tight : TL := idx.filterMap fun i => (H[i]?).map fun r => (⟨scaleL (-1) r.coeffs, -r.const⟩ : PTerm)
    match O.lp [] (H ++ tight ++ [⟨scaleL (-1) obj, -m⟩]) with
    | .optimal _ _ => idx.all (· < H.length)
    | _ => false
  | _ => false

/-- the validity guard of `_context_reduction` for strategy 5: the code's own refinement test in the context -/
def guard5 (O : Oracle) (t r : PTerm) (H : TL) (refine : Bool) : Except Err Poly.Verdict :=
  if refine then Poly.refinesTL O (Gen.list_union H [r]) [t]
  else Poly.refinesTL O (Gen.list_union H [t]) [r]

/-- `_tactic_5`.  `grayKeeps` resolves the refinement test when the exact optimum lies inside the tolerance band of
    `verify_polytope_containment` (the float answer may be either). -/
def tactic5 (O : Oracle) (grayKeeps : Bool) (t : PTerm) (H : TL) (xs : List Var) (refine : Bool) (active : Option (List Nat)) : TacticRes :=
  match tlpContext O t H xs refine active with
  | .error e => .error e
  | .ok (rows, forbidden) =>
    match reduceWith t rows forbidden with
    | .ok (some r) =>
      (match guard5 O t r H refine with
       | .ok .yes => .ok (some r)
       | .ok .gray => if grayKeeps then .ok (some r) else .error .valueError
       | .ok .no => .error .valueError
       | .error .oracleStuck => .error .oracleStuck
       | .error _ => .error .valueError)
    | other => other

/-! ### dispatcher -/

/-- `TACTICS[k]`; a key outside 1..6 is a `KeyError` -/
def tactic (O : Oracle) (grayKeeps : Bool) (hint : PTerm → TL → List Var → Bool → Option (List Nat)) (k : Nat) (t : PTerm) (H : TL) (xs : List Var) (refine : Bool) : TacticRes :=
  match k with
  | 1 => tactic1 t H xs refine
  | 2 => tactic2 O t H xs refine
  | 3 => tactic3 t H xs refine
  | 4 => tactic4 (H.length + 1) t H xs refine []
  | 5 => tactic5 O grayKeeps t H xs refine (hint t H xs refine)
  | 6 => .ok (some t)
  | _ => .error (.py "KeyError")

/-- `_transform_term`: the first tactic that neither declines nor returns `None`; result tagged with the tactic number
    (`-1` = none applied) -/
def transformTerm (tac : Nat → PTerm → TL → List Var → Bool → TacticRes) (t : PTerm) (H : TL) (xs : List Var) (refine : Bool) :
    List Nat → Except Err (PTerm × Int)
  | [] => .ok (t, -1)
  | k :: ks =>
    match tac k t H xs refine with
    | .ok (some r) => .ok (r, k)
    | .ok none => transformTerm tac t H xs refine ks
    | .error .valueError => transformTerm tac t H xs refine ks
    | .error e => .error e

/-- the `for` loop of `_transform`: `done` = already processed (transformed) prefix, second list = still to do -/
def transformLoop (tac : Nat → PTerm → TL → List Var → Bool → TacticRes) (ctx : TL) (xs : List Var) (refine : Bool) (ord : List Nat) :
    TL → TL → Except Err (TL × List Int)
  | done, [] => .ok (done, [])
  | done, t :: rest =>
    if !(Gen.list_intersection t.vars xs).isEmpty then
      let helpers := Gen.list_union ctx ((done ++ t :: rest).erase t)
      match transformTerm tac t helpers xs refine ord with
      | .error .valueError =>   -- `except ValueError: new_term = term.copy()`
        (match transformLoop tac ctx xs refine ord (done ++ [t]) rest with
         | .ok (r, used) => .ok (r, 0 :: used)
         | .error e => .error e)
      | .error e => .error e
      | .ok (nt, k) =>
        match transformLoop tac ctx xs refine ord (done ++ [nt]) rest with
        | .ok (r, used) => .ok (r, k :: used)
        | .error e => .error e
    else transformLoop tac ctx xs refine ord (done ++ [t]) rest

/-- `_transform` -/
def transform (O : Oracle) (tie : PTerm → Bool) (tac : Nat → PTerm → TL → List Var → Bool → TacticRes)
    (l ctx : TL) (xs : List Var) (refine simplify : Bool) (ord : List Nat) : Except Err (TL × List Int) :=
  match transformLoop tac ctx xs refine ord [] l with
  | .error e => .error e
  | .ok (that, used) =>
    if simplify then
      match Poly.simplify O tie that (some ctx) with
      | .ok r => .ok (r, used)
      | .error e => .error e
    else .ok (that, used)

/-- `elim_vars_by_refining` -/
def elimRefine (O : Oracle) (tie : PTerm → Bool) (tac : Nat → PTerm → TL → List Var → Bool → TacticRes)
    (l ctx : TL) (xs : List Var) (simplify : Bool) (ord : List Nat) : Except Err (TL × List Int) :=
  match (if simplify then Poly.simplify O tie l (some ctx) else .ok l) with
  | .error e => .error e
  | .ok l' => transform O tie tac l' ctx xs true simplify ord

/-- `elim_vars_by_relaxing`: as above, then every term still mentioning an eliminated variable is dropped -/
def elimRelax (O : Oracle) (tie : PTerm → Bool) (tac : Nat → PTerm → TL → List Var → Bool → TacticRes)
    (l ctx : TL) (xs : List Var) (simplify : Bool) (ord : List Nat) : Except Err (TL × List Int) :=
  match (if simplify then Poly.simplify O tie l (some ctx) else .ok l) with
  | .error e => .error e
  | .ok l' =>
    match transform O tie tac l' ctx xs false simplify ord with
    | .error e => .error e
    | .ok (r, used) => .ok (Gen.list_diff r (TL.withVars r xs), used)

end Elim
