import Pacti.Model.LP
/-
  Pacti.Model.Simplex — an UNVERIFIED exact rational simplex (Bland's rule, two phases, free variables
  split) that returns answers *with certificates*.  It is not in the trusted base: every answer goes through
  `checkAns` (proved sound in `Proofs/LP.lean`); a wrong or missing certificate becomes `LPRes.stuck`.
-/

namespace Simplex

structure Tab where
  rows  : Array (Array Rat)   -- m rows, each of length N+1 (last = rhs)
  basis : Array Nat           -- basic variable of each row
  cz    : Array Rat           -- reduced costs, length N+1 (last entry unused)
  N     : Nat
deriving Inhabited

def pivot (t : Tab) (r e : Nat) : Tab :=
  let prow := t.rows[r]!
  let p := prow[e]!
  let prow' := prow.map (· / p)
  let rows := t.rows.mapIdx fun i row =>
    if i == r then prow' else
      let f := row[e]!
      if f == 0 then row else Array.ofFn (n := row.size) fun j => row[j]! - f * prow'[j]!
  let f := t.cz[e]!
  let cz := if f == 0 then t.cz else Array.ofFn (n := t.cz.size) fun j => t.cz[j]! - f * prow'[j]!
  { t with rows := rows, basis := t.basis.set! r e, cz := cz }

/-- entering column: smallest index with positive reduced cost among allowed columns -/
def entering (t : Tab) (allowed : Nat → Bool) : Option Nat := Id.run do
  for j in [0:t.N] do
    if allowed j && t.cz[j]! > 0 then return some j
  return none

/-- leaving row by the ratio test, ties by smallest basic variable (Bland) -/
def leaving (t : Tab) (e : Nat) : Option Nat := Id.run do
  let mut best : Option (Nat × Rat × Nat) := none
  for i in [0:t.rows.size] do
    let a := t.rows[i]![e]!
    if a > 0 then
      let ratio := t.rows[i]![t.N]! / a
      match best with
      | none => best := some (i, ratio, t.basis[i]!)
      | some (_, br, bb) =>
        if ratio < br || (ratio == br && t.basis[i]! < bb) then best := some (i, ratio, t.basis[i]!)
  return best.map (·.1)

inductive Outcome | optimal | unbounded (e : Nat) | fuel
deriving Inhabited

def run (t : Tab) (allowed : Nat → Bool) : Nat → Tab × Outcome
  | 0 => (t, .fuel)
  | fuel + 1 =>
    match entering t allowed with
    | none => (t, .optimal)
    | some e =>
      match leaving t e with
      | none => (t, .unbounded e)
      | some r => run (pivot t r e) allowed fuel

def dedupSorted (l : List Nat) : List Nat :=
  (l.mergeSort (· ≤ ·)).eraseDups

/-- value of structural variable `k` (0-based position in `xs`) in the basic solution: u_k - w_k -/
def basicVal (t : Tab) (col : Nat) : Rat := Id.run do
  for i in [0:t.rows.size] do
    if t.basis[i]! == col then return t.rows[i]![t.N]!
  return 0

def solve (obj : Lin) (cs : TL) : LPAns := Id.run do
  let xs := dedupSorted (varsL obj ++ cs.flatMap (fun t => varsL t.coeffs))
  let n := xs.length
  let m := cs.length
  let objN := normC obj
  if m == 0 then
    if objN.isEmpty then return .optimal 0 [] []
    else return .unbounded [] objN
  let xsA := xs.toArray
  let N := 2 * n + m + 1              -- u, w, slacks, aux
  let aux := 2 * n + m
  let csA := cs.toArray
  let mkRow (i : Nat) : Array Rat := Array.ofFn (n := N + 1) fun j =>
    let t := csA[i]!
    if j.val < n then coeffOf xsA[j.val]! t.coeffs
    else if j.val < 2 * n then - coeffOf xsA[j.val - n]! t.coeffs
    else if j.val < 2 * n + m then (if j.val - 2 * n == i then 1 else 0)
    else if j.val == aux then -1
    else t.const
  let rows : Array (Array Rat) := Array.ofFn (n := m) fun i => mkRow i.val
  let basis : Array Nat := Array.ofFn (n := m) fun i => 2 * n + i.val
  let fuel := 20000
  -- phase 1
  let mut minI := 0
  let mut minB : Rat := 0
  for i in [0:m] do
    let b := rows[i]![N]!
    if b < minB then
      minB := b; minI := i
  let mut t : Tab := { rows := rows, basis := basis, cz := Array.replicate (N + 1) 0, N := N }
  if minB < 0 then
    let cz1 : Array Rat := Array.ofFn (n := N + 1) fun j => if j.val == aux then -1 else 0
    t := { t with cz := cz1 }
    t := pivot t minI aux
    let (t1, out) := run t (fun _ => true) fuel
    t := t1
    match out with
    | .fuel => return .stuck
    | .unbounded _ => return .stuck
    | .optimal => pure ()
    let x0 := basicVal t aux
    if x0 > 0 then
      -- infeasible: y_i = -cz[slack_i], scaled so that y·b = -1
      let ys : List Rat := (List.range m).map fun i => - t.cz[2 * n + i]!
      let yb := (List.zip ys (cs.map (·.const))).foldl (fun acc p => acc + p.1 * p.2) 0
      if yb < 0 then return .infeasible (ys.map (· / (-yb))) else return .stuck
    -- drive aux out of the basis if it is still basic (at value 0)
    for i in [0:m] do
      if t.basis[i]! == aux then
        let mut piv : Option Nat := none
        for j in [0:aux] do
          if piv.isNone && t.rows[i]![j]! != 0 then piv := some j
        match piv with
        | some j => t := pivot t i j
        | none => pure ()   -- redundant zero row; harmless: aux stays basic at 0 and is never allowed to change
  -- phase 2: reduced costs of the real objective
  let c : Array Rat := Array.ofFn (n := N + 1) fun j =>
    if j.val < n then coeffOf xsA[j.val]! objN
    else if j.val < 2 * n then - coeffOf xsA[j.val - n]! objN
    else 0
  let mut cz := c
  for i in [0:m] do
    let cb := c[t.basis[i]!]!
    if cb != 0 then
      let row := t.rows[i]!
      cz := Array.ofFn (n := N + 1) fun j => cz[j.val]! - cb * row[j.val]!
  t := { t with cz := cz }
  let (t2, out) := run t (fun j => j != aux) fuel
  t := t2
  let xval : List (Var × Rat) := (List.range n).filterMap fun k =>
    let v := basicVal t k - basicVal t (n + k)
    if v == 0 then none else some (xs[k]!, v)
  match out with
  | .fuel => return .stuck
  | .optimal =>
    let ys : List Rat := (List.range m).map fun i => - t.cz[2 * n + i]!
    return .optimal (evalL objN (valOf xval)) xval ys
  | .unbounded e =>
    -- ray: d_e = 1, d_{B_i} = -T[i][e]
    let dcol (col : Nat) : Rat := Id.run do
      if col == e then return 1
      for i in [0:m] do
        if t.basis[i]! == col then return - t.rows[i]![e]!
      return 0
    let d : List (Var × Rat) := (List.range n).filterMap fun k =>
      let v := dcol k - dcol (n + k)
      if v == 0 then none else some (xs[k]!, v)
    return .unbounded xval d

end Simplex
