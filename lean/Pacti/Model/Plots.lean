import Pacti.Model.Poly
/-
  Pacti.Model.Plots — `pacti.utils.plots.constraints_to_vertices` (C18).

  The routine is *glue* (argument checks, `_gen_boundary_constraints`, the `|` union with them,
  `_substitute_in_termlist`, `termlist_to_polytope`, the column swap when `y` comes first) followed by a
  geometric *engine* (`_get_bounding_vertices`: Chebyshev-centre LP, Qhull `HalfspaceIntersection`, the 4-LP
  fallback, the `atan2` sort).  The glue is transcribed literally (`plotSystem`) down to the two-column
  system `(a_mat, b)` handed to the engine, here a list of `HalfPlane`s.  The engine is an oracle: its answer
  is accepted only if it passes `checkVertices`, which `Proofs/Plots.lean` proves sound and complete
  w.r.t. the explicit definition of "corner" below.

  Representation.  In this file the coefficient list of a `PTerm` is the Python dict *in insertion order*
  (no zero coefficient, no repeated key — what `PolyhedralTerm.__init__` stores); it is **not** put in the
  sorted normal form of `normC`, because the order of the variables inside the terms decides
  `termlist_to_polytope`'s column order and thereby whether the column swap runs.  All operations used here
  (`coeffOf`, `evalL`, `filter`) are order-agnostic in meaning and order-preserving in structure, exactly
  as the dict operations of the code are.
-/

/-- one row `a·x + b·y ≤ c` of the system handed to `_get_bounding_vertices` (column 0 = x, column 1 = y) -/
structure HalfPlane where
  a : Rat
  b : Rat
  c : Rat
deriving DecidableEq, Repr, Inhabited

namespace HalfPlane

def lhs (h : HalfPlane) (p : Rat × Rat) : Rat := h.a * p.1 + h.b * p.2
def holds (h : HalfPlane) (p : Rat × Rat) : Prop := h.lhs p ≤ h.c
def tight (h : HalfPlane) (p : Rat × Rat) : Prop := h.lhs p = h.c
/-- determinant of the two normals; `0` = the boundary lines are parallel -/
def det (h k : HalfPlane) : Rat := h.a * k.b - k.a * h.b
def parallel (h k : HalfPlane) : Prop := det h k = 0
/-- Cramer's rule: the common point of the two boundary lines (meaningful when `det h k ≠ 0`) -/
def inter (h k : HalfPlane) : Rat × Rat :=
  ((h.c * k.b - k.c * h.b) / det h k, (h.a * k.c - k.a * h.c) / det h k)

instance (h : HalfPlane) (p : Rat × Rat) : Decidable (h.holds p) := by unfold holds; exact inferInstance
instance (h : HalfPlane) (p : Rat × Rat) : Decidable (h.tight p) := by unfold tight; exact inferInstance
instance (h k : HalfPlane) : Decidable (parallel h k) := by unfold parallel; exact inferInstance

end HalfPlane

namespace Plots

/-! ### the glue -/

/-- `term.substitute_variable(var, PolyhedralTerm({}, -val))`: `remove_variable` (dict order kept) then
    `that + coeff·⟨{}, -val⟩`, whose variable list is `list_union(that.vars, [])`, i.e. still `that`'s order. -/
def substVal (t : PTerm) (x : Var) (a : Rat) : PTerm :=
  if t.containsVar x then ⟨t.coeffs.filter (fun p => p.1 != x), t.const + t.coeff x * (-a)⟩ else t

/-- the inner loop of `_substitute_in_termlist` (`var_values.items()` in dict order) -/
def substAll (t : PTerm) (vals : List (Var × Rat)) : PTerm :=
  vals.foldl (fun acc p => substVal acc p.1 p.2) t

/-- `_substitute_in_termlist`: a row that became constant is dropped when satisfied, `ValueError` when violated -/
def substituteIn : TL → List (Var × Rat) → Except Err TL
  | [], _ => .ok []
  | t :: r, vals =>
    let nt := substAll t vals
    if nt.vars.isEmpty then
      if nt.const < 0 then .error .valueError else substituteIn r vals
    else match substituteIn r vals with
      | .ok r' => .ok (nt :: r')
      | .error e => .error e

/-- `_gen_boundary_constraints` -/
def boundary (x y : Var) (xl yl : Rat × Rat) : TL :=
  [⟨[(x, 1)], xl.2⟩, ⟨[(x, -1)], -xl.1⟩, ⟨[(y, 1)], yl.2⟩, ⟨[(y, -1)], -yl.1⟩]

/-- `a_mat[:, [0, 1]] = a_mat[:, [1, 0]]` on one row -/
def swap01 : List Rat → List Rat
  | a :: b :: r => b :: a :: r
  | r => r

/-- one row of the 2-column system as the engine reads it -/
def toHalfPlane (row : List Rat × Rat) : HalfPlane := ⟨row.1.getD 0 0, row.1.getD 1 0, row.2⟩

/-- `constraints_to_vertices` up to the call of `_get_bounding_vertices`.
    `vals` = `var_values.items()`, `xl`/`yl` = `(x_lims[0], x_lims[1])`/`(y_lims[0], y_lims[1])`.
    The second component tells whether the column swap ran (reported by the driver, for coverage only). -/
def plotSystem' (l : TL) (x y : Var) (vals : List (Var × Rat)) (xl yl : Rat × Rat) :
    Except Err (List HalfPlane × Bool) :=
  if vals.any (fun p => p.1 == x) then .error .valueError             -- "x-axis variable can't be assigned a value"
  else if vals.any (fun p => p.1 == y) then .error .valueError        -- "y-axis variable …"
  else if !(Gen.list_diff l.vars (Gen.list_union [x, y] (vals.map (·.1)))).isEmpty then
    .error .valueError                                                -- "Need to set variables"
  else
    let termList := Gen.list_union l (boundary x y xl yl)             -- `constraints | boundary`
    match substituteIn termList vals with
    | .error e => .error e
    | .ok plotTl =>
      if !(Gen.list_diff plotTl.vars [x, y]).isEmpty then .error (.py "AssertionError")
      else
        -- termlist_to_polytope(plot_tl, []): variables = list_union(plot_tl.vars, []) = plot_tl.vars
        let vs := plotTl.vars
        let rows : List (List Rat × Rat) := plotTl.map fun t => (vs.map t.coeff, t.const)
        match vs with
        | [] => .error (.py "IndexError")                             -- `variables[0]`
        | v0 :: rest =>
          if v0 = y then
            if rest.isEmpty then .error (.py "IndexError")            -- column 1 of a one-column matrix (x = y)
            else .ok ((rows.map fun r => (swap01 r.1, r.2)).map toHalfPlane, true)
          else if rest.isEmpty then
            .error .valueError     -- unreachable (y always occurs): numpy's shape ValueError re-raised as "Region is empty"
          else .ok (rows.map toHalfPlane, false)

def plotSystem (l : TL) (x y : Var) (vals : List (Var × Rat)) (xl yl : Rat × Rat) : Except Err (List HalfPlane) :=
  (plotSystem' l x y vals xl yl).map (·.1)

/-! ### corners and the checker of the engine's answer -/

/-- unordered pairs `(lᵢ, lⱼ)`, `i < j` -/
def pairs {α : Type} : List α → List (α × α)
  | [] => []
  | a :: r => r.map (fun b => (a, b)) ++ pairs r

def feasible (H : List HalfPlane) (p : Rat × Rat) : Bool := H.all fun h => decide (h.holds p)

/-- first occurrences only -/
def dedupP : List (Rat × Rat) → List (Rat × Rat)
  | [] => []
  | a :: r => a :: (dedupP r).filter (fun b => b != a)

/-- the corners of `{p | ∀ h ∈ H, h.holds p}`: the intersection points of two non-parallel boundary lines
    that satisfy every row, each listed once -/
def corners (H : List HalfPlane) : List (Rat × Rat) :=
  dedupP ((((pairs H).filter fun hk => decide (¬ HalfPlane.parallel hk.1 hk.2)).map
    fun hk => HalfPlane.inter hk.1 hk.2).filter (feasible H))

/-
  Angular order.  The code sorts by `atan2(p.y - c.y, p.x - c.x)` (range (-π, π], `atan2(0, 0) = 0`).  On
  rationals the same order is: first the class of the direction `d = p - c`
      0 : d.y < 0  (angle in (-π, 0))      1 : d.y = 0 ∧ d.x ≥ 0  (angle 0)
      2 : d.y > 0  (angle in (0, π))       3 : d.y = 0 ∧ d.x < 0  (angle π)
  and inside an open half-plane (classes 0 and 2) the sign of the cross product.  That this is what the float
  `atan2` computes is NOT proved (no real analysis here); it is validated by the correspondence run.  Because a
  float `dy = -1e-17` turns the angle π into -π, and the polygon is closed anyway, a listing is accepted when
  some *rotation* of it is sorted (`angularOrder`), i.e. the order is read cyclically.
-/
def angClass (d : Rat × Rat) : Nat :=
  if d.2 < 0 then 0 else if 0 < d.2 then 2 else if d.1 < 0 then 3 else 1

def cross (d e : Rat × Rat) : Rat := d.1 * e.2 - d.2 * e.1

def angLe (d e : Rat × Rat) : Bool :=
  decide (angClass d < angClass e) || (angClass d == angClass e && decide (0 ≤ cross d e))

def sumR (l : List Rat) : Rat := l.foldr (· + ·) 0

/-- `(sum(x)/len(x), sum(y)/len(y))` -/
def centroid (pts : List (Rat × Rat)) : Rat × Rat :=
  (sumR (pts.map (·.1)) / pts.length, sumR (pts.map (·.2)) / pts.length)

def dir (c p : Rat × Rat) : Rat × Rat := (p.1 - c.1, p.2 - c.2)

def sortedFrom (c : Rat × Rat) : List (Rat × Rat) → Bool
  | p :: q :: r => angLe (dir c p) (dir c q) && sortedFrom c (q :: r)
  | _ => true

/-- some rotation of the listing is non-decreasing in angle about `c` -/
def angularOrder (c : Rat × Rat) (pts : List (Rat × Rat)) : Bool :=
  pts.isEmpty || (List.range pts.length).any fun k => sortedFrom c (pts.rotateLeft k)

/-- which clause of the check fails first (`none` = accepted) -/
def checkVerticesWhy (H : List HalfPlane) (pts : List (Rat × Rat)) : Option String :=
  if !(pts.all fun p => decide (p ∈ corners H)) then some "extra-point"
  else if !((corners H).all fun c => decide (c ∈ pts)) then some "missing-corner"
  else if !(angularOrder (centroid pts) pts) then some "not-in-angular-order"
  else none

/-- the checker of the engine's answer: every point is a corner, no corner is missing, and the points are
    listed in angular order about their centroid -/
def checkVertices (H : List HalfPlane) (pts : List (Rat × Rat)) : Bool :=
  (pts.all fun p => decide (p ∈ corners H)) && ((corners H).all fun c => decide (c ∈ pts)) &&
    angularOrder (centroid pts) pts

end Plots
