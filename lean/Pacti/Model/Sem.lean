/-
  Pacti.Model.Sem — number domain and semantics shared by every model.

  Core Lean only (no Mathlib): everything here is also compiled into the driver executable.

  * `Var := Nat`.  The harness maps pacti variable *names* to indices in name order (so the
    order on indices is the order `sorted()` gives on names; "_" of tactic 3 is index 0).
  * numbers are exact rationals: a Python float denotes the rational it is.
  * a `PTerm` is `Σ cᵢ·xᵢ ≤ const` with the coefficient list kept in the normal form produced by
    `normC` (increasing variables, no zero coefficient) so that structural equality is pacti's
    `PolyhedralTerm.__eq__` (same key set, equal values, equal constant).
-/

abbrev Var := Nat
abbrev Val := Var → Rat
abbrev Lin := List (Var × Rat)

/-- value of a linear form -/
def evalL : Lin → Val → Rat
  | [], _ => 0
  | p :: r, v => p.2 * v p.1 + evalL r v

/-- coefficient of `x` (0 when absent): `PolyhedralTerm.get_coefficient` -/
def coeffOf (x : Var) : Lin → Rat
  | [] => 0
  | p :: r => if p.1 = x then p.2 + coeffOf x r else coeffOf x r

/-- add `c·x` into a normal-form list -/
def insertC (x : Var) (c : Rat) : Lin → Lin
  | [] => if c = 0 then [] else [(x, c)]
  | p :: r =>
    if x < p.1 then (if c = 0 then p :: r else (x, c) :: p :: r)
    else if x = p.1 then (if c + p.2 = 0 then r else (x, c + p.2) :: r)
    else p :: insertC x c r

/-- normal form of an arbitrary association list (repeated keys are summed) -/
def normC (l : Lin) : Lin := l.foldr (fun p acc => insertC p.1 p.2 acc) []

def scaleL (k : Rat) (l : Lin) : Lin := l.map fun p => (p.1, k * p.2)

/-- `l₁ + l₂`, normalised -/
def addL (a b : Lin) : Lin := normC (a ++ b)

def varsL (l : Lin) : List Var := l.map (·.1)

structure PTerm where
  coeffs : Lin
  const : Rat
deriving DecidableEq, Repr, Inhabited

abbrev TL := List PTerm

namespace PTerm

/-- `PolyhedralTerm(variables, constant)`: zero coefficients are dropped -/
def mk' (l : Lin) (c : Rat) : PTerm := ⟨normC l, c⟩

def lhs (t : PTerm) (v : Val) : Rat := evalL t.coeffs v
def holds (t : PTerm) (v : Val) : Prop := evalL t.coeffs v ≤ t.const
def vars (t : PTerm) : List Var := varsL t.coeffs
def coeff (t : PTerm) (x : Var) : Rat := coeffOf x t.coeffs
def containsVar (t : PTerm) (x : Var) : Bool := t.vars.contains x

/-- `PolyhedralTerm.multiply` -/
def scale (t : PTerm) (k : Rat) : PTerm := mk' (scaleL k t.coeffs) (k * t.const)
/-- `PolyhedralTerm.__add__` -/
def add (s t : PTerm) : PTerm := ⟨addL s.coeffs t.coeffs, s.const + t.const⟩
/-- `PolyhedralTerm.remove_variable` -/
def remove (t : PTerm) (x : Var) : PTerm := ⟨t.coeffs.filter (fun p => p.1 != x), t.const⟩
/-- `PolyhedralTerm.substitute_variable` (the substituting term is read as `x = s.coeffs - s.const`… exactly as the
    code does it: `remove x` + `coeff x • s`) -/
def subst (t : PTerm) (x : Var) (s : PTerm) : PTerm :=
  if t.containsVar x then (t.remove x).add (s.scale (t.coeff x)) else t
/-- `PolyhedralTerm.isolate_variable`; `none` = the code's `ValueError`.
    `sgn` is the sign the code gives the constant: the pinned code has `+const/coeff` (`sgn = 1`);
    a substituting term `(E, s)` means `x = E - s`, so the correct value is `-const/coeff` (`sgn = -1`). -/
def isolateWith (sgn : Rat) (t : PTerm) (x : Var) : Option PTerm :=
  if t.containsVar x then
    some (mk' ((t.coeffs.filter (fun p => p.1 != x)).map fun p => (p.1, -p.2 / t.coeff x)) (sgn * t.const / t.coeff x))
  else none

end PTerm

def TL.holds (l : TL) (v : Val) : Prop := ∀ t ∈ l, t.holds v

/-- documented error kinds + `py k` for an undocumented Python exception class -/
inductive Err
  | incompatibleArgs | valueError | syntax | convex | contractFormat
  | oracleStuck
  | py (kind : String)
deriving DecidableEq, Repr, Inhabited

/-- assignment list → valuation (first binding wins, absent = 0) -/
def valOf (b : List (Var × Rat)) : Val := fun x =>
  match b.find? (fun p => p.1 == x) with
  | some p => p.2
  | none => 0
