import Pacti.Model.Sem
/-
  Pacti.Model.LP — the LP oracle interface and the *certificate checkers* every oracle answer passes.

  `scipy.optimize.linprog(c, A_ub, b_ub, bounds=(None, None))` is an external engine.  The model never
  computes an LP itself: it asks an `Oracle`.  What the theorems assume of an oracle is
  `Oracle.Certified` (three semantic guarantees).  `checkedOracle solver` wraps an arbitrary, unverified
  `solver` (in the driver: the exact simplex of `Simplex.lean`) and lets an answer through only if its
  certificate passes the checkers below; `Proofs/LP.lean` proves `checkedOracle solver` is `Certified`
  for *every* `solver`, with no hypothesis.
-/

/-- `Σ yᵢ·rowᵢ` as an (un-normalised) linear form and `Σ yᵢ·bᵢ` -/
def linComb : List Rat → TL → Lin × Rat
  | y :: ys, t :: ts =>
    let r := linComb ys ts
    (scaleL y t.coeffs ++ r.1, y * t.const + r.2)
  | _, _ => ([], 0)

/-- Farkas-style entailment certificate: non-negative multipliers `ys` with `Σ yᵢ·rowᵢ = goal.coeffs` and
    `Σ yᵢ·bᵢ ≤ goal.const`. -/
def checkComb (ys : List Rat) (cs : TL) (goal : PTerm) : Bool :=
  ys.length == cs.length && ys.all (fun y => decide (0 ≤ y)) &&
  (normC (linComb ys cs).1 == normC goal.coeffs) && decide ((linComb ys cs).2 ≤ goal.const)

def feasibleAt (cs : TL) (x : List (Var × Rat)) : Bool :=
  cs.all fun t => decide (evalL t.coeffs (valOf x) ≤ t.const)

/-- answers of a maximisation LP `max obj·z  s.t.  cs` (all variables free) -/
inductive LPAns
  | optimal (m : Rat) (x : List (Var × Rat)) (y : List Rat)
  | infeasible (y : List Rat)
  | unbounded (x d : List (Var × Rat))
  | stuck
deriving Repr, Inhabited

/-- what the model sees of an answer -/
inductive LPRes
  | optimal (m : Rat) (x : List (Var × Rat))
  | infeasible
  | unbounded
  | stuck
deriving Repr, Inhabited, DecidableEq

def checkAns (obj : Lin) (cs : TL) : LPAns → LPRes
  | .optimal m x y =>
    if feasibleAt cs x && decide (evalL obj (valOf x) = m) && checkComb y cs ⟨obj, m⟩ then .optimal m x else .stuck
  | .infeasible y => if checkComb y cs ⟨[], -1⟩ then .infeasible else .stuck
  | .unbounded x d =>
    if feasibleAt cs x && cs.all (fun t => decide (evalL t.coeffs (valOf d) ≤ 0)) && decide (0 < evalL obj (valOf d))
    then .unbounded else .stuck
  | .stuck => .stuck

structure Oracle where
  /-- maximise `obj` subject to `cs` -/
  lp : Lin → TL → LPRes

structure Oracle.Certified (O : Oracle) : Prop where
  opt : ∀ obj cs m x, O.lp obj cs = .optimal m x →
          TL.holds cs (valOf x) ∧ evalL obj (valOf x) = m ∧ ∀ z, TL.holds cs z → evalL obj z ≤ m
  inf : ∀ obj cs, O.lp obj cs = .infeasible → ¬ ∃ z, TL.holds cs z
  unb : ∀ obj cs, O.lp obj cs = .unbounded → (∃ z, TL.holds cs z) ∧ ∀ M, ∃ z, TL.holds cs z ∧ M < evalL obj z

/-- a weaker oracle class that is faithful to what HiGHS does after presolve: `infeasible` may also be answered for a
    FEASIBLE problem whose objective is unbounded ("infeasible or unbounded"); with a zero objective it still means
    infeasible.  Every `Certified` oracle is `PresolveAmbiguous`. -/
structure Oracle.PresolveAmbiguous (O : Oracle) : Prop where
  opt : ∀ obj cs m x, O.lp obj cs = .optimal m x →
          TL.holds cs (valOf x) ∧ evalL obj (valOf x) = m ∧ ∀ z, TL.holds cs z → evalL obj z ≤ m
  inf : ∀ obj cs, O.lp obj cs = .infeasible → (¬ ∃ z, TL.holds cs z) ∨ ((∃ z, TL.holds cs z) ∧ ∀ M, ∃ z, TL.holds cs z ∧ M < evalL obj z)
  inf0 : ∀ cs, O.lp [] cs = .infeasible → ¬ ∃ z, TL.holds cs z
  unb : ∀ obj cs, O.lp obj cs = .unbounded → (∃ z, TL.holds cs z) ∧ ∀ M, ∃ z, TL.holds cs z ∧ M < evalL obj z

def checkedOracle (solver : Lin → TL → LPAns) : Oracle := ⟨fun obj cs => checkAns obj cs (solver obj cs)⟩

/-- `linprog` minimises `c·z`; the code passes `c = -objective` and reads `-res.fun`.  The model speaks of the
    maximisation directly. `status 0/2/3` = `optimal/infeasible/unbounded`. -/
def Oracle.maximize (O : Oracle) (obj : Lin) (cs : TL) : LPRes := O.lp obj cs
