import Pacti.Model.Contract
/-
  Pacti.Model.Compound — `NestedTermList` / `IoContractCompound` (compundiocontract.py) and
  `NestedPolyhedra` / `PolyhedralIoContractCompound.from_strings` (polyhedral_iocontract.py), transcribed with
  the code's control flow.  Core Lean only.

  A nested term list is a list of alternatives (term lists) read as their disjunction.  `tl.copy()` and the
  deep copies of the constructors are the identity on values.  The `isinstance` guards of `__le__` are typing.
-/

/-- `NestedTermList.nested_termlist` -/
abbrev Nested := List TL

/-- `NestedTermList.vars`: `list_union` folded over the alternatives -/
def Nested.vars (n : Nested) : List Var := n.foldl (fun acc tl => Gen.list_union acc tl.vars) []

structure CContract where
  a : Nested
  g : Nested
  ins : List Var
  outs : List Var
deriving DecidableEq, Repr, Inhabited

namespace Compound
open Poly

/-- the inner loop of `NestedTermList.__init__` for a fixed `i`: `for j, tlj in …: if j > i:` — exactly the
    alternatives after position `i`, in order.  `tli | tlj` is `list_union` on the terms. -/
def checkRow (O : Oracle) (tli : TL) : List TL → Except Err Unit
  | [] => .ok ()
  | tlj :: rest =>
    match isEmpty O (tlUnion tli tlj) with
    | .error e => .error e
    | .ok false => .error .valueError     -- "Terms %s and %s have nonempty intersection"
    | .ok true => checkRow O tli rest

/-- the outer loop of `NestedTermList.__init__` (`force_empty_intersection = True`) -/
def checkDisjoint (O : Oracle) : List TL → Except Err Unit
  | [] => .ok ()
  | tli :: rest =>
    match checkRow O tli rest with
    | .error e => .error e
    | .ok () => checkDisjoint O rest

/-- `NestedTermList(nested_termlist, force_empty_intersection)` -/
def mkNested (O : Oracle) (l : List TL) (force : Bool) : Except Err Nested :=
  if force then
    match checkDisjoint O l with
    | .error e => .error e
    | .ok () => .ok l
  else .ok l

/-- `NestedTermList.copy(force)` -/
def copyNested (O : Oracle) (n : Nested) (force : Bool) : Except Err Nested := mkNested O n force

/-- `NestedTermList.contains_behavior`: the first alternative answering `True` wins; a `ValueError` of an
    *earlier* alternative (unassigned variable) is re-raised as `ValueError` even if a later alternative
    contains the behaviour. -/
def containsB : Nested → List (Var × Rat) → Except Err Bool
  | [], _ => .ok false
  | tl :: rest, b =>
    match containsBehavior tl b with
    | .error .valueError => .error .valueError      -- `except ValueError as e: raise ValueError from e`
    | .error e => .error e
    | .ok true => .ok true
    | .ok false => containsB rest b

/-- inner loop of `intersect` for a fixed left alternative -/
def intersectRow (O : Oracle) (s : TL) : List TL → Except Err (List TL)
  | [] => .ok []
  | o :: rest =>
    match isEmpty O (tlUnion s o) with
    | .error e => .error e
    | .ok em =>
      match intersectRow O s rest with
      | .error e => .error e
      | .ok r => .ok (if em then r else tlUnion s o :: r)

/-- both loops of `intersect`: `new_nested_tl` -/
def intersectPairs (O : Oracle) : List TL → List TL → Except Err (List TL)
  | [], _ => .ok []
  | s :: rest, n₂ =>
    match intersectRow O s n₂ with
    | .error e => .error e
    | .ok r =>
      match intersectPairs O rest n₂ with
      | .error e => .error e
      | .ok r' => .ok (r ++ r')

/-- `NestedTermList.intersect(other, force_empty_intersection)` -/
def intersect (O : Oracle) (n₁ n₂ : Nested) (force : Bool) : Except Err Nested :=
  match intersectPairs O n₁ n₂ with
  | .error e => .error e
  | .ok l => mkNested O l force

/-- inner loop of `__le__` for one left alternative: `found`.
    `yes`  = the implementation certainly sets `found = True` *and* some right alternative is a definite `yes`;
    `no`   = it certainly leaves `found = False`;
    `gray` = a comparison fell into the tolerance band of `verify_polytope_containment` and the float answer may
             go either way (if it answers `True` the loop breaks, if `False` it goes on with the rest). -/
def findRef (O : Oracle) (l : TL) : List TL → Except Err Verdict
  | [] => .ok .no
  | r :: rest =>
    match refinesTL O l r with
    | .error e => .error e
    | .ok .yes => .ok .yes
    | .ok .no => findRef O l rest
    | .ok .gray =>
      match findRef O l rest with
      | .error e => .error e
      | .ok .yes => .ok .yes
      | .ok _ => .ok .gray

/-- `NestedTermList.__le__`: every left alternative refines some right alternative -/
def le (O : Oracle) : Nested → Nested → Except Err Verdict
  | [], _ => .ok .yes
  | l :: rest, n₂ =>
    match findRef O l n₂ with
    | .error e => .error e
    | .ok .no => .ok .no
    | .ok .yes => le O rest n₂
    | .ok .gray =>
      match le O rest n₂ with
      | .error e => .error e
      | .ok .no => .ok .no
      | .ok _ => .ok .gray

/-- `IoContractCompound.__init__`.  All five interface tests raise `ValueError` (not `IncompatibleArgsError`);
    the assumptions are re-copied with `force = true`, the guarantees with `false`. -/
def mkCompound (O : Oracle) (a g : Nested) (ins outs : List Var) : Except Err CContract :=
  if !decide ins.Nodup then .error .valueError            -- len(input_vars) != len(set(input_vars))
  else if !decide outs.Nodup then .error .valueError
  else if !(Gen.list_intersection ins outs).isEmpty then .error .valueError
  else if !(Gen.list_diff a.vars ins).isEmpty then .error .valueError
  else if !(Gen.list_diff g.vars (Gen.list_union ins outs)).isEmpty then .error .valueError
  else
    match copyNested O a true with
    | .error e => .error e
    | .ok a' =>
      match copyNested O g false with
      | .error e => .error e
      | .ok g' => .ok ⟨a', g', ins, outs⟩

/-- `PolyhedralIoContractCompound.from_strings` after parsing (also: `NestedPolyhedra(a, True)`,
    `NestedPolyhedra(g, False)` built by hand and passed to the constructor). -/
def fromLists (O : Oracle) (a g : List TL) (ins outs : List Var) : Except Err CContract :=
  match mkNested O a true with
  | .error e => .error e
  | .ok a' =>
    match mkNested O g false with
    | .error e => .error e
    | .ok g' => mkCompound O a' g' ins outs

/-- `IoContractCompound.merge` -/
def mergeCompound (O : Oracle) (c d : CContract) : Except Err CContract :=
  let ins := Gen.list_union c.ins d.ins
  let outs := Gen.list_union c.outs d.outs
  match intersect O c.a d.a true with
  | .error e => .error e
  | .ok a =>
    match intersect O c.g d.g false with
    | .error e => .error e
    | .ok g => mkCompound O a g ins outs

end Compound
