import Pacti.Model.Contract
import Pacti.Gen.Consts
/-
  Pacti.Model.Serial — serialisation of polyhedral contracts (C10), core Lean only.

  (a) `fmt4g`  : Python's `f"{x:.4g}"` applied to the float whose exact value is the rational
      (`serializer._number_to_string` on a float), and `round4` = the value of the digits printed.
      Both are computed from one decimal decomposition `dec4` (sign, 4-digit mantissa, exponent), so
      `round4` is the value of what `fmt4g` prints by construction.
  (b) `approxEq` (`_are_numbers_approximatively_equal` = `np.isclose(f1, f2, rtol=1e-5, atol=1e-8)`),
      `areOpposite` (`_are_polyhedral_terms_opposite`), `lhsStr` (`_lhs_str`), `termToStr`
      (`polyhedral_term_list_to_strings`) and `termListToStrs` (`PolyhedralTermList.to_str_list`).
      Variables are indices; they are rendered through a name table handed in by the driver
      (index order = name order, which is the order `_lhs_str` sorts by).
  (c) `toMachine` / `fromDict`: `PolyhedralIoContract.to_machine_dict` / `from_dict(simplify=False)` on a small
      JSON-like value type `J`, including the tests of `IoContract.__init__`.

  Numbers: every float is the rational it denotes; `rtol`, `atol` are taken as the decimals 1e-5, 1e-8 (the float
  constants differ from them by < 1e-21 relative, which only matters on the exact boundary of the `isclose` band).
-/

namespace Serial

/-! ### (a) `%.4g` -/

/-- `10^e` for an integer exponent, built from natural powers (so that it is the same thing with and without Mathlib) -/
def pow10 (e : Int) : Rat :=
  if 0 ≤ e then ((10 ^ e.toNat : Nat) : Rat) else 1 / ((10 ^ (-e).toNat : Nat) : Rat)

/-- for `d ≤ n`: count up from `k` while `d·10^(k+1) ≤ n` -/
def expUp (n d : Nat) : Nat → Nat → Nat
  | 0, k => k
  | fuel + 1, k => if d * 10 ^ (k + 1) ≤ n then expUp n d fuel (k + 1) else k

/-- for `n < d`: the first `k` (counting up from the given one) with `d ≤ n·10^k` -/
def expDown (n d : Nat) : Nat → Nat → Nat
  | 0, k => k
  | fuel + 1, k => if d ≤ n * 10 ^ k then k else expDown n d fuel (k + 1)

/-- decimal exponent of the positive rational `n/d`: the `e` with `10^e ≤ n/d < 10^(e+1)` -/
def exp10 (n d : Nat) : Int :=
  if d ≤ n then (expUp n d n 0 : Nat) else - ((expDown n d d 1 : Nat) : Int)

/-- `N/D` rounded to the nearest natural number, ties to even (what correctly rounded `%g` does on the exact
    binary value) -/
def rne (N D : Nat) : Nat :=
  let f := N / D
  let r := N % D
  if 2 * r < D then f else if D < 2 * r then f + 1 else if f % 2 = 0 then f else f + 1

/-- four significant decimal digits: the value is `m · 10^(e-3)` with `1000 ≤ m ≤ 9999` -/
structure Dec where
  m : Nat
  e : Int
deriving DecidableEq, Repr, Inhabited

/-- scaled numerator / denominator: `N/D = (n/d)·10^(3-e)` -/
def scaledN (n : Nat) (e : Int) : Nat := if e ≤ 3 then n * 10 ^ (3 - e).toNat else n
def scaledD (d : Nat) (e : Int) : Nat := if e ≤ 3 then d else d * 10 ^ (e - 3).toNat

/-- the decomposition of the positive rational `n/d`; a mantissa that rounds up to `10000` is renormalised -/
def dec4pos (n d : Nat) : Dec :=
  let e := exp10 n d
  let m := rne (scaledN n e) (scaledD d e)
  if 10000 ≤ m then ⟨1000, e + 1⟩ else ⟨m, e⟩

def Dec.value (x : Dec) : Rat := (x.m : Rat) * pow10 (x.e - 3)

/-- the value of the four significant digits that `%.4g` prints -/
def round4 (q : Rat) : Rat :=
  if q = 0 then 0
  else if q < 0 then - (dec4pos q.num.natAbs q.den).value
  else (dec4pos q.num.natAbs q.den).value

/-- the four digits of a mantissa in `1000..9999` -/
def digits4 (m : Nat) : List Char :=
  let s := Nat.toDigits 10 m
  List.replicate (4 - s.length) '0' ++ s

/-- `%g` strips trailing zeros -/
def stripZeros (l : List Char) : List Char := (l.reverse.dropWhile (· == '0')).reverse

/-- digits `d₁d₂…` → `d₁.d₂…` (no point when nothing follows) -/
def withPointL (ip fp : List Char) : List Char :=
  if fp.isEmpty then ip else ip ++ '.' :: fp

/-- `%.4g` of a positive number given by its decomposition, as a character list: fixed notation when `-4 ≤ e < 4`,
    else `d.ddde±XX` -/
def Dec.renderL (x : Dec) : List Char :=
  let ds := digits4 x.m
  if -4 ≤ x.e ∧ x.e < 4 then
    if 0 ≤ x.e then
      let k := x.e.toNat + 1
      withPointL (ds.take k) (stripZeros (ds.drop k))
    else
      '0' :: '.' :: (List.replicate ((-x.e).toNat - 1) '0' ++ stripZeros ds)
  else
    let s := stripZeros ds
    let ea := x.e.natAbs
    withPointL (s.take 1) (s.drop 1) ++ 'e' :: (if x.e < 0 then '-' else '+') :: ((if ea < 10 then ['0'] else []) ++ Nat.toDigits 10 ea)

def Dec.render (x : Dec) : String := String.ofList x.renderL

/-- Python `f"{x:.4g}"` for the float with exact value `q`, as a character list -/
def fmt4gL (q : Rat) : List Char :=
  if q = 0 then ['0']
  else if q < 0 then '-' :: (dec4pos q.num.natAbs q.den).renderL
  else (dec4pos q.num.natAbs q.den).renderL

/-- Python `f"{x:.4g}"` for the float with exact value `q` -/
def fmt4g (q : Rat) : String := String.ofList (fmt4gL q)

/-! ### (a') reading a decimal numeral back: `float(s)` / the grammar's `floating_point_number` on `ddd[.ddd][e±dd]` -/

/-- split at the first occurrence of `c` (the separator is dropped); `none` = no occurrence -/
def splitAt1 (c : Char) (l : List Char) : List Char × Option (List Char) :=
  match l.span (· != c) with
  | (a, []) => (a, none)
  | (a, _ :: b) => (a, some b)

def allDigits (l : List Char) : Bool := l.all Char.isDigit

/-- value of `ip.fp` -/
def decVal (ip fp : List Char) : Rat :=
  (Nat.ofDigitChars 10 ip 0 : Nat) + ((Nat.ofDigitChars 10 fp 0 : Nat) : Rat) / ((10 ^ fp.length : Nat) : Rat)

/-- the exponent part `e(+|-)dd` applied to a mantissa value -/
def applyExp (m : Rat) : Option (List Char) → Option Rat
  | none => some m
  | some ('+' :: ds) => if ds.isEmpty || !allDigits ds then none else some (m * pow10 (Nat.ofDigitChars 10 ds 0 : Nat))
  | some ('-' :: ds) => if ds.isEmpty || !allDigits ds then none else some (m * pow10 (-((Nat.ofDigitChars 10 ds 0 : Nat) : Int)))
  | some _ => none

/-- an unsigned numeral `ddd[.ddd][e(+|-)dd]`; anything else is rejected -/
def readPos (l : List Char) : Option Rat :=
  let (mant, ex) := splitAt1 'e' l
  let (ip, fp) := splitAt1 '.' mant
  let fpd := fp.getD []
  if ip.isEmpty || !allDigits ip || !allDigits fpd || (fp.isSome && fpd.isEmpty) then none
  else applyExp (decVal ip fpd) ex

/-- a signed numeral -/
def readNumL (l : List Char) : Option Rat :=
  match l with
  | '-' :: r => (readPos r).map (fun q => -q)
  | r => readPos r

def readNum (s : String) : Option Rat := readNumL s.toList

/-! ### (b) the string printer -/

def rtol : Rat := 1 / 100000
def atol : Rat := 1 / 100000000

/-- `_are_numbers_approximatively_equal(f1, f2)` on floats: `np.isclose`: `|f1 - f2| ≤ atol + rtol·|f2|` -/
def approxEq (a b : Rat) : Bool := decide (Poly.rabs (a - b) ≤ atol + rtol * Poly.rabs b)

/-- `_are_polyhedral_terms_opposite(self, other)` -/
def areOpposite (self other : PTerm) : Bool :=
  other.vars.all (fun x => self.containsVar x) &&
  self.coeffs.all (fun p => other.containsVar p.1 && approxEq (-p.2) (other.coeff p.1))

/-- variable names: index → name (the driver hands in the table; unknown indices print as `v<i>`) -/
def nameOf (names : List String) (x : Var) : String := (names[x]?).getD ("v" ++ toString x)

/-- the loop body of `_lhs_str` for one `(var, coeff)`; `first` is the code's flag -/
def lhsItem (names : List String) (first : Bool) (x : Var) (c : Rat) : String :=
  if approxEq c 1 then (if first then nameOf names x else " + " ++ nameOf names x)
  else if approxEq c (-1) then (if first then "-" ++ nameOf names x else " - " ++ nameOf names x)
  else if !approxEq c 0 then
    if c > 0 then
      (if first then fmt4g c ++ " " ++ nameOf names x else " + " ++ fmt4g c ++ " " ++ nameOf names x)
    else
      (if first then fmt4g c ++ " " ++ nameOf names x else " - " ++ fmt4g (-c) ++ " " ++ nameOf names x)
  else ""

/-- `_lhs_str`: the coefficient list is already in name order; `first = False` is executed after *every* item, also
    after one that printed nothing -/
def lhsGo (names : List String) : Bool → Lin → String
  | _, [] => ""
  | first, p :: r => lhsItem names first p.1 p.2 ++ lhsGo names false r

def lhsStr (names : List String) (t : PTerm) : String := lhsGo names true t.coeffs

/-- which relation `polyhedral_term_list_to_strings` prints for the head term -/
inductive Fold
  | le                    -- `LHS <= c`   (no partner folded)
  | eq (tn : PTerm)       -- `LHS = c`
  | abs0 (tn : PTerm)     -- `|LHS| = 0`
  | absle (tn : PTerm)    -- `|LHS| <= c`
deriving DecidableEq, Repr, Inhabited

/-- the `for tn in ts` loop: the first partner (in list order) that is opposite *and* meets one of the three rules,
    tested in the code's order -/
def findFold (tp : PTerm) : TL → Fold
  | [] => .le
  | tn :: r =>
    if areOpposite tp tn then
      if approxEq tp.const (-tn.const) then .eq tn
      else if approxEq tp.const 0 && approxEq tn.const 0 then .abs0 tn
      else if approxEq tp.const tn.const then .absle tn
      else findFold tp r
    else findFold tp r

/-- the string of one step -/
def foldStr (names : List String) (tp : PTerm) : Fold → String
  | .le => lhsStr names tp ++ " <= " ++ fmt4g tp.const
  | .eq _ => lhsStr names tp ++ " = " ++ fmt4g tp.const
  | .abs0 _ => "|" ++ lhsStr names tp ++ "| = 0"
  | .absle _ => "|" ++ lhsStr names tp ++ "| <= " ++ fmt4g tp.const

/-- the terms left over after one step: `ts.remove(tn)` removes the first element equal to the partner -/
def foldRest (ts : TL) : Fold → TL
  | .le => ts
  | .eq tn => ts.erase tn
  | .abs0 tn => ts.erase tn
  | .absle tn => ts.erase tn

/-- `polyhedral_term_list_to_strings` on a non-empty list `tp :: ts` -/
def termToStr (names : List String) (tp : PTerm) (ts : TL) : String × TL :=
  let f := findFold tp ts
  (foldStr names tp f, foldRest ts f)

/-- the sequence of (head term, fold) pairs of the `to_str_list` loop (fuel = an upper bound on the number of rounds) -/
def foldsGo : Nat → TL → List (PTerm × Fold)
  | 0, _ => []
  | _, [] => []
  | fuel + 1, tp :: ts =>
    let f := findFold tp ts
    (tp, f) :: foldsGo fuel (foldRest ts f)

def folds (l : TL) : List (PTerm × Fold) := foldsGo l.length l

/-- `PolyhedralTermList.to_str_list` -/
def termListToStrs (names : List String) (l : TL) : List String :=
  (folds l).map fun p => foldStr names p.1 p.2

/-! ### (c) the machine dictionary -/

/-- a JSON-like value.  `name x` is the *string* that is the name of variable `x`; `dict` is a dictionary keyed by
    variable names (`"coefficients"`), `obj` one keyed by keywords. -/
inductive J
  | null
  | num (q : Rat)
  | str (s : String)
  | name (x : Var)
  | arr (l : List J)
  | obj (kv : List (String × J))
  | dict (kv : List (Var × J))
deriving Repr, Inhabited

def J.get? (k : String) : J → Option J
  | .obj kv => (kv.find? (fun p => p.1 == k)).map (·.2)
  | _ => none

def termToJ (t : PTerm) : J :=
  .obj [("constant", .num t.const), ("coefficients", .dict (t.coeffs.map fun p => (p.1, J.num p.2)))]

/-- `PolyhedralIoContract.to_machine_dict` -/
def toMachine (c : PContract) : J :=
  .obj [("input_vars", .arr (c.ins.map J.name)),
        ("output_vars", .arr (c.outs.map J.name)),
        ("assumptions", .arr (c.a.map termToJ)),
        ("guarantees", .arr (c.g.map termToJ))]

/-- `float(x)` of a dictionary value -/
def numOf : J → Except Err Rat
  | .num q => .ok q
  | .str _ => .error .valueError
  | .name _ => .error .valueError
  | _ => .error (.py "TypeError")

/-- `PolyhedralTerm({Var(k): v for k, v in x["coefficients"].items()}, float(x["constant"]))` for a dict `x` -/
def termOfJ (x : J) : Except Err PTerm :=
  match x.get? "coefficients" with
  | none => .error (.py "KeyError")
  | some (.dict kv) =>
    match x.get? "constant" with
    | none => .error (.py "KeyError")
    | some k =>
      match kv.mapM (fun p => (numOf p.2).map fun q => (p.1, q)), numOf k with
      | .ok l, .ok c => .ok (PTerm.mk' l c)
      | .error e, _ => .error e
      | _, .error e => .error e
  | some _ => .error (.py "AttributeError")

def isObj : J → Bool
  | .obj _ => true
  | _ => false

/-- what iterating over a value yields (`for x in contract["assumptions"]`) -/
def iterOf : J → Except Err (List J)
  | .arr l => .ok l
  | .obj kv => .ok (kv.map fun p => J.str p.1)
  | .dict kv => .ok (kv.map fun p => J.name p.1)
  | .str s => .ok (s.toList.map fun ch => J.str (String.singleton ch))
  | _ => .error (.py "TypeError")

/-- `if all(isinstance(x, dict) …): PolyhedralTermList([PolyhedralTerm(…) …]) else: raise ValueError` -/
def termsOfJ (j : J) : Except Err TL :=
  match iterOf j with
  | .error e => .error e
  | .ok l => if l.all isObj then l.mapM termOfJ else .error .valueError

/-- `Var(x) for x in contract["input_vars"]` -/
def varOfJ : J → Except Err Var
  | .name x => .ok x
  | _ => .error (.py "TypeError")

def varsOfJ (j : J) : Except Err (List Var) :=
  match iterOf j with
  | .error e => .error e
  | .ok l => l.mapM varOfJ

/-- `len(l) != len(set(l))` -/
def hasDup : List Var → Bool
  | [] => false
  | x :: r => r.contains x || hasDup r

/-- the five tests of `IoContract.__init__`, then the object (with `simplify=False`) -/
def mkContract (a g : TL) (ins outs : List Var) : Except Err PContract :=
  if hasDup ins then .error .incompatibleArgs
  else if hasDup outs then .error .incompatibleArgs
  else if !(Gen.list_intersection ins outs).isEmpty then .error .incompatibleArgs
  else if !(Gen.list_diff a.vars ins).isEmpty then .error .incompatibleArgs
  else if !(Gen.list_diff g.vars (Gen.list_union ins outs)).isEmpty then .error .incompatibleArgs
  else .ok ⟨a, g, ins, outs⟩

/-- `PolyhedralIoContract.from_dict(contract, simplify=False)` -/
def fromDict (j : J) : Except Err PContract :=
  if !isObj j then .error .valueError
  else match j.get? "assumptions", j.get? "guarantees", j.get? "input_vars", j.get? "output_vars" with
    | some ja, some jg, some ji, some jo =>
      match termsOfJ ja with
      | .error e => .error e
      | .ok a =>
        match termsOfJ jg with
        | .error e => .error e
        | .ok g =>
          match varsOfJ ji with
          | .error e => .error e
          | .ok ins =>
            match varsOfJ jo with
            | .error e => .error e
            | .ok outs => mkContract a g ins outs
    | _, _, _, _ => .error .valueError

/-- `from_dict` as it stands in the source: when it runs `validate_contract_dict` first (`Gen.fromDictValidates`), every
    wrong-kind dictionary that would have escaped as an unrelated Python exception is reported as `ValueError` (the
    dictionary-fault model of C14 is the detailed one; this is its summary for the malformed stream of C10) -/
def fromDictTop (j : J) : Except Err PContract :=
  match fromDict j with
  | .error (.py k) => if Gen.fromDictValidates then .error .valueError else .error (.py k)
  | r => r

end Serial
