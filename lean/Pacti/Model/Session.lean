import Pacti.Model.PolyAlg
/-
  Pacti.Model.Session — the PURE session machine that C13 asks the implementation to refine.

  A pool of contract values; every operation names its operands by pool index, is interpreted by the models of
  the other properties, and APPENDS its result (if it is a contract) to the pool.  Python object identity and
  aliasing are not expressible here: what is expressible is the specification — no existing pool entry ever
  changes, and an output depends only on the VALUES of the operands — and the harness checks that the real objects
  refine it (snapshots before/after every step, scribbling on results, replays from reconstructed operands).
-/
namespace Session

inductive Op
  | compose (i j : Nat) (keep : List Var) (simp : Bool) (ord : List Nat)
  | quotient (i j : Nat) (addl : List Var) (simp : Bool) (ord : List Nat)
  | merge (i j : Nat)
  | rename (i : Nat) (s d : Var)
  | copy (i : Nat)
  | refines (i j : Nat)
  | simplifyG (i : Nat)                       -- `c.g.simplify(c.a)` on the term lists of contract i
  | elim (i : Nat) (refine : Bool) (xs : List Var) (simp : Bool) (ord : List Nat)   -- on c.g with context c.a
  | optimize (i : Nat) (obj : Lin) (mx : Bool)
  | isEmpty (i : Nat)
  | scribble (i : Nat)                        -- harness-only: "mutate the object returned at step i in place"
deriving Repr

inductive Out
  | contract (c : Contract PTerm)
  | terms (l : TL)
  | bool (b : Bool)
  | verdict (v : Poly.Verdict)
  | num (q : Option Rat)
  | err (e : Err)
  | unit
deriving Repr

def Op.args : Op → List Nat
  | .compose i j .. => [i, j] | .quotient i j .. => [i, j] | .merge i j => [i, j] | .rename i .. => [i] | .copy i => [i]
  | .refines i j => [i, j] | .simplifyG i => [i] | .elim i .. => [i] | .optimize i .. => [i] | .isEmpty i => [i] | .scribble _ => []

abbrev Pool := List (Contract PTerm)

structure Env where
  P : Prims PTerm
  O : Oracle
  tie : PTerm → Bool
  tac : Nat → PTerm → TL → List Var → Bool → Elim.TacticRes

def ofExcept (r : Except Err (Contract PTerm)) : Out :=
  match r with | .ok c => .contract c | .error e => .err e

/-- the output of an operation, as a function of the operand VALUES only -/
def evalOp (E : Env) (get : Nat → Option (Contract PTerm)) (op : Op) : Out :=
  match op with
  | .compose i j keep simp ord =>
    (match get i, get j with
     | some a, some b => ofExcept (PolyAlg.compose E.P a b keep simp ord)
     | _, _ => .err (.py "IndexError"))
  | .quotient i j addl simp ord =>
    (match get i, get j with
     | some a, some b => ofExcept (PolyAlg.quotient E.P a b addl simp ord)
     | _, _ => .err (.py "IndexError"))
  | .merge i j =>
    (match get i, get j with
     | some a, some b => ofExcept (PolyAlg.merge E.P a b)
     | _, _ => .err (.py "IndexError"))
  | .rename i s d => (match get i with | some a => ofExcept (PolyAlg.rename E.P a s d) | none => .err (.py "IndexError"))
  | .copy i => (match get i with | some a => ofExcept (Alg.copy PTerm.vars E.P a) | none => .err (.py "IndexError"))
  | .refines i j =>
    (match get i, get j with
     | some a, some b => (match Alg.refinesC E.P a b with | .ok r => .bool r | .error e => .err e)
     | _, _ => .err (.py "IndexError"))
  | .simplifyG i =>
    (match get i with
     | some a => (match Poly.simplify E.O E.tie a.g (some a.a) with | .ok l => .terms l | .error e => .err e)
     | none => .err (.py "IndexError"))
  | .elim i refine xs simp ord =>
    (match get i with
     | some a =>
       (match (if refine then Elim.elimRefine E.O E.tie E.tac a.g a.a xs simp ord else Elim.elimRelax E.O E.tie E.tac a.g a.a xs simp ord) with
        | .ok (l, _) => .terms l | .error e => .err e)
     | none => .err (.py "IndexError"))
  | .optimize i obj mx =>
    (match get i with
     | some a => (match Poly.optimize E.O (Gen.list_union a.a a.g) obj mx with | .ok q => .num q | .error e => .err e)
     | none => .err (.py "IndexError"))
  | .isEmpty i =>
    (match get i with
     | some a => (match Poly.isEmpty E.O (Gen.list_union a.a a.g) with | .ok b => .bool b | .error e => .err e)
     | none => .err (.py "IndexError"))
  | .scribble _ => .unit

/-- one step: existing entries are untouched; a returned contract is appended -/
def step (E : Env) (p : Pool) (op : Op) : Pool × Out :=
  let out := evalOp E (fun i => p[i]?) op
  match out with
  | .contract c => (p ++ [c], out)
  | _ => (p, out)

def run (E : Env) : Pool → List Op → Pool × List Out
  | p, [] => (p, [])
  | p, op :: ops =>
    let (p1, o) := step E p op
    let (p2, os) := run E p1 ops
    (p2, o :: os)

end Session
