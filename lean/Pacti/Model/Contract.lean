import Pacti.Model.Poly
/-
  Pacti.Model.Contract — polyhedral contracts as values, and `IoContract.refines`,
  `contains_environment`, `contains_implementation`.
-/

structure PContract where
  a : TL
  g : TL
  ins : List Var
  outs : List Var
deriving DecidableEq, Repr, Inhabited

namespace Poly

/-- `a | b` on term lists -/
abbrev tlUnion (a b : TL) : TL := Gen.list_union a b

/-- `IoContract.shares_io_with` -/
def sharesIO (c d : PContract) : Bool := Gen.lists_equal c.ins d.ins && Gen.lists_equal c.outs d.outs

/-- Python's `x and y` on two already computed Booleans, lifted to verdicts -/
def andV : Verdict → Verdict → Verdict
  | .no, _ => .no
  | _, .no => .no
  | .yes, .yes => .yes
  | _, _ => .gray

/-- `IoContract.refines`: `self ≤ other` -/
def refinesC (O : Oracle) (c d : PContract) : Except Err Verdict :=
  if !sharesIO c d then .error .incompatibleArgs
  else match refinesTL O d.a c.a with
    | .error e => .error e
    | .ok v1 =>
      match refinesTL O (tlUnion c.g d.a) (tlUnion d.g d.a) with
      | .error e => .error e
      | .ok v2 => .ok (andV v1 v2)

/-- `IoContract.contains_environment` -/
def containsEnvironment (O : Oracle) (c : PContract) (comp : TL) : Except Err Verdict := refinesTL O comp c.a

/-- `IoContract.contains_implementation` -/
def containsImplementation (O : Oracle) (c : PContract) (comp : TL) : Except Err Verdict :=
  refinesTL O (tlUnion comp c.a) (tlUnion c.g c.a)

end Poly
