import Pacti.Model.Algebra
/-
  Pacti.Model.Sym — the algebra instantiated with uninterpreted atoms and SCRIPTED primitives, used by the
  correspondence run of C05/C06 against the real `IoContract` running on `harness/sym_termlist.py`.

  A scripted primitive either fails, returns its operand (optionally filtered), or returns one *fresh* atom whose
  NAME spells out the call site and every argument it was given — so a wrong operand, context, variable list or
  flag anywhere in the algebra shows up in the result.
-/

structure Atom where
  name : String
  vars : List Var
deriving DecidableEq, Repr, Inhabited

namespace Sym

inductive Act
  | id          -- return the operand
  | filter      -- return the operand without the terms that mention a variable to eliminate
  | drop1       -- (simplify) drop the first term
  | fresh (vs : List Var)   -- return one fresh atom over `vs`
  | err         -- raise ValueError
  | yes | no    -- (refines)
deriving Repr, Inhabited

def siteName : Site → String
  | .refA => "refA" | .simpA => "simpA" | .relG1 => "relG1" | .relG2 => "relG2" | .relAll => "relAll"
  | .ctor => "ctor" | .qRef => "qRef" | .qRelA => "qRelA" | .qRefG1 => "qRefG1" | .qRefG2 => "qRefG2" | .user => "user"

def atomsStr (l : List Atom) : String := "[" ++ ",".intercalate (l.map (·.name)) ++ "]"
def varsStr (xs : List Var) : String := "[" ++ ",".intercalate (xs.map toString) ++ "]"
def natsStr (xs : List Nat) : String := "[" ++ ",".intercalate (xs.map toString) ++ "]"
def boolStr (b : Bool) : String := if b then "T" else "F"

def elim (script : Site → Act) (s : Site) (l Γ : List Atom) (xs : List Var) (b : Bool) (o : List Nat) : Except Err (List Atom) :=
  match script s with
  | .err => .error .valueError
  | .fresh vs => .ok [⟨siteName s ++ "(" ++ atomsStr l ++ ";" ++ atomsStr Γ ++ ";" ++ varsStr xs ++ ";" ++ boolStr b ++ ";" ++ natsStr o ++ ")", vs⟩]
  | .filter => .ok (l.filter fun t => (Gen.list_intersection t.vars xs).isEmpty)
  | _ => .ok l

def simp (script : Site → Act) (s : Site) (l : List Atom) (Γ : Option (List Atom)) : Except Err (List Atom) :=
  match script s with
  | .err => .error .valueError
  | .fresh vs => .ok [⟨siteName s ++ "(" ++ atomsStr l ++ ";" ++ (match Γ with | some g => atomsStr g | none => "None") ++ ")", vs⟩]
  | .drop1 => .ok l.tail
  | _ => .ok l

def refn (script : Site → Act) (s : Site) (_l _r : List Atom) : Except Err Bool :=
  match script s with
  | .err => .error .valueError
  | .no => .ok false
  | _ => .ok true

def prims (script : Site → Act) : Prims Atom :=
  ⟨elim script, elim script, simp script, refn script⟩

end Sym
