import Pacti.Model.Sem
import Pacti.Gen.Consts
/-
  Pacti.Model.Syntax — what the constraint grammar parses (as trees), what the trees mean, and what the parse
  actions + serializer turn them into.  Core Lean only.

  Code mirrored (src/pacti/terms/polyhedra):
    syntax/grammar.py   parse actions `_parse_*`
    syntax/data.py      `PolyhedralSyntaxTermList` (add / negate / to_polyhedral_term / __repr__-equality),
                        `PolyhedralSyntaxAbsoluteTerm`, `_combine_optional_floats`, `_combine_or_append`,
                        `_generate_absolute_term_combinations`, `PolyhedralSyntaxAbsoluteTermList` (expand/negate/add)
    serializer.py       `_eql/_leq/_geq_expression_to_polyhedral_terms`, `_check_absolute_terms`

  Not modelled: pyparsing's tokenisation and alternation (the harness renders trees to strings and shows that the
  implementation reads the tree that was meant).  The model takes the tree.

  Two facts about the source are parameters, so that theorems can be stated for the code as it is and as repaired:
  `nn` is the value `_combine_optional_floats(None, None)` returns, `fold` says whether the parse actions of
  `arithmetic_expr` evaluate a whole chain `a op b op c …` (true) or only its first operator (false).  The driver's
  instance (`translateG`) takes them from `Gen.combineNoneNone` / `Gen.arithFold`, which tools/py2lean.py reads off
  the source on every run.
-/
namespace Syntax

/-! ## trees -/

/-- constant arithmetic (`arithmetic_expr`): non-negative literals, `+ - * /`, parentheses -/
inductive Arith
  | num (q : Rat)
  | add (a b : Arith)
  | sub (a b : Arith)
  | mul (a b : Arith)
  | div (a b : Arith)
deriving Repr, Inhabited

mutual
/-- `term`: `var | k var | k (terms) | (terms) | k` -/
inductive Tm
  | var (x : Var)
  | kvar (k : Arith) (x : Var)
  | kparen (k : Arith) (ts : Tms)
  | paren (ts : Tms)
  | const (k : Arith)
/-- `terms`: a signed sum (`neg = true` is a written `-`; a written `+` or no sign is `false`) -/
inductive Tms
  | nil
  | cons (neg : Bool) (t : Tm) (rest : Tms)
end

/-- what may stand inside a parenthesised group or directly in a side: `[±] [k] |terms|` or `[±] term` -/
inductive Item
  | abs (neg : Bool) (k : Option Arith) (body : Tms)
  | tm (neg : Bool) (t : Tm)

/-- an element of a side: an item, or `[±] [k] ( items )` (groups do not nest) -/
inductive SItem
  | item (i : Item)
  | group (neg : Bool) (k : Option Arith) (items : List Item)

abbrev Side := List SItem

/-- `expression`: an equality of two `terms`, or a chain of two or more sides -/
inductive Expr
  | eq (l r : Tms)
  | leq (s1 s2 : Side) (rest : List Side)
  | geq (s1 s2 : Side) (rest : List Side)

/-! ## meaning (ordinary rational arithmetic with absolute value) -/

def rabs (q : Rat) : Rat := if q < 0 then -q else q

/-- value of constant arithmetic (total: `x / 0 = 0`; `eval` below is the partial one) -/
def Arith.val : Arith → Rat
  | .num q => q
  | .add a b => a.val + b.val
  | .sub a b => a.val - b.val
  | .mul a b => a.val * b.val
  | .div a b => a.val / b.val

def sgn (neg : Bool) (q : Rat) : Rat := if neg then -q else q

def kval : Option Arith → Rat
  | none => 1
  | some k => k.val

mutual
def Tm.den : Tm → Val → Rat
  | .var x, v => v x
  | .kvar k x, v => k.val * v x
  | .kparen k ts, v => k.val * ts.den v
  | .paren ts, v => ts.den v
  | .const k, _ => k.val
def Tms.den : Tms → Val → Rat
  | .nil, _ => 0
  | .cons neg t r, v => sgn neg (t.den v) + r.den v
end

def Item.den : Item → Val → Rat
  | .abs neg k body, v => sgn neg (kval k * rabs (body.den v))
  | .tm neg t, v => sgn neg (t.den v)

def itemsDen : List Item → Val → Rat
  | [], _ => 0
  | i :: r, v => i.den v + itemsDen r v

def SItem.den : SItem → Val → Rat
  | .item i, v => i.den v
  | .group neg k items, v => sgn neg (kval k * itemsDen items v)

def sideDen : Side → Val → Rat
  | [], _ => 0
  | i :: r, v => i.den v + sideDen r v

/-- `a₀ ≤ a₁ ≤ … ≤ aₙ` -/
def chainLe : Rat → List Rat → Prop
  | _, [] => True
  | a, b :: r => a ≤ b ∧ chainLe b r

def chainGe : Rat → List Rat → Prop
  | _, [] => True
  | a, b :: r => b ≤ a ∧ chainGe b r

/-- the written relation -/
def denote : Expr → Val → Prop
  | .eq l r, v => l.den v = r.den v
  | .leq s1 s2 rest, v => chainLe (sideDen s1 v) (sideDen s2 v :: rest.map (sideDen · v))
  | .geq s1 s2 rest, v => chainGe (sideDen s1 v) (sideDen s2 v :: rest.map (sideDen · v))

/-! ## parse actions on numbers -/

def zeroDiv : Err := .py "ZeroDivisionError"

/-- the parse actions of `arithmetic_expr`: Python float arithmetic, `x / 0` raises -/
def Arith.eval : Arith → Except Err Rat
  | .num q => .ok q
  | .add a b => match a.eval with
    | .error e => .error e
    | .ok x => match b.eval with
      | .error e => .error e
      | .ok y => .ok (x + y)
  | .sub a b => match a.eval with
    | .error e => .error e
    | .ok x => match b.eval with
      | .error e => .error e
      | .ok y => .ok (x - y)
  | .mul a b => match a.eval with
    | .error e => .error e
    | .ok x => match b.eval with
      | .error e => .error e
      | .ok y => .ok (x * y)
  | .div a b => match a.eval with
    | .error e => .error e
    | .ok x => match b.eval with
      | .error e => .error e
      | .ok y => if y = 0 then .error zeroDiv else .ok (x / y)

/-- is the tree a `+`/`-` node (rendered without parentheses as the left operand of another `+`/`-`)? -/
def Arith.isAddLevel : Arith → Bool
  | .add _ _ => true
  | .sub _ _ => true
  | _ => false

def Arith.isMulLevel : Arith → Bool
  | .mul _ _ => true
  | .div _ _ => true
  | _ => false

/-- the parse actions of `arithmetic_expr` **as written**.  `infixNotation` hands a left-associative chain
    `a op₁ b op₂ c …` to the action as one flat group `[a, op₁, b, op₂, c, …]`; the pinned lambdas compute
    `t[0][0] op₁ t[0][2]` and ignore the rest (`fold = false`).  On the binary tree a chain is a left-nested
    spine of nodes of the same level (the renderer puts no parentheses there), so the pinned value of such a node
    is the value of its left operand — the right operand is never evaluated (not even for a division by zero).
    `fold = true` is ordinary left-to-right evaluation (`Arith.eval`). -/
def Arith.evalW (fold : Bool) : Arith → Except Err Rat
  | .num q => .ok q
  | .add a b =>
    if !fold && a.isAddLevel then a.evalW fold
    else match a.evalW fold with
      | .error e => .error e
      | .ok x => match b.evalW fold with
        | .error e => .error e
        | .ok y => .ok (x + y)
  | .sub a b =>
    if !fold && a.isAddLevel then a.evalW fold
    else match a.evalW fold with
      | .error e => .error e
      | .ok x => match b.evalW fold with
        | .error e => .error e
        | .ok y => .ok (x - y)
  | .mul a b =>
    if !fold && a.isMulLevel then a.evalW fold
    else match a.evalW fold with
      | .error e => .error e
      | .ok x => match b.evalW fold with
        | .error e => .error e
        | .ok y => .ok (x * y)
  | .div a b =>
    if !fold && a.isMulLevel then a.evalW fold
    else match a.evalW fold with
      | .error e => .error e
      | .ok x => match b.evalW fold with
        | .error e => .error e
        | .ok y => if y = 0 then .error zeroDiv else .ok (x / y)

/-! ## `PolyhedralSyntaxTermList` -/

/-- `constant` + `factors` (a dict: association list, insertion order, keys unique by construction) -/
structure SynTL where
  const : Rat
  factors : Lin
deriving DecidableEq, Repr, Inhabited

namespace SynTL

def empty : SynTL := ⟨0, []⟩

/-- `negate` -/
def negate (t : SynTL) : SynTL := ⟨-t.const, t.factors.map fun p => (p.1, -p.2)⟩

/-- one step of the loop of `add`: `fs[f] += v` and pop when the sum prints as `0.0`/`-0.0`, else `fs[f] = v` -/
def addFactor : Lin → Var → Rat → Lin
  | [], x, c => [(x, c)]
  | p :: r, x, c =>
    if p.1 = x then (if p.2 + c = 0 then r else (p.1, p.2 + c) :: r)
    else p :: addFactor r x c

/-- `add` -/
def add (s o : SynTL) : SynTL :=
  ⟨s.const + o.const, o.factors.foldl (fun fs p => addFactor fs p.1 p.2) s.factors⟩

/-- the in-place `factors[k] *= number` of `_parse_number_and_variable` (the constant is asserted to be 0) -/
def scaleF (t : SynTL) (k : Rat) : SynTL := ⟨t.const, t.factors.map fun p => (p.1, p.2 * k)⟩

/-- the in-place `constant *= f; factors[k] *= f` of `_parse_factor_paren_terms` / `_parse_paren_abs_or_terms` -/
def scale (t : SynTL) (k : Rat) : SynTL := ⟨t.const * k, t.factors.map fun p => (p.1, p.2 * k)⟩

/-- `to_polyhedral_term`: the constant moves to the right with its sign flipped; the `PolyhedralTerm` constructor
    drops zero coefficients -/
def toPTerm (t : SynTL) : PTerm := PTerm.mk' t.factors (-t.const)

/-- insertion by variable (name order = index order) -/
def insF (p : Var × Rat) : Lin → Lin
  | [] => [p]
  | q :: r => if p.1 ≤ q.1 then p :: q :: r else q :: insF p r

/-- what `__repr__` prints, as data: the constant and the factors in `sorted(self.factors)` order (zero factors are
    printed too).  Two term lists print the same string iff these agree (for floats: up to the sign of a zero). -/
def key (t : SynTL) : Rat × Lin := (t.const, t.factors.foldr insF [])

/-- value of the symbolic sum at a point -/
def eval (t : SynTL) (v : Val) : Rat := t.const + evalL t.factors v

end SynTL

/-! ## `PolyhedralSyntaxAbsoluteTerm`, `_combine_optional_floats`, `_combine_or_append` -/

structure AbsTerm where
  tl : SynTL
  coeff : Option Rat
deriving DecidableEq, Repr, Inhabited

namespace AbsTerm

/-- `is_positive` -/
def isPositive (a : AbsTerm) : Bool :=
  match a.coeff with
  | none => true
  | some c => decide (0 < c)

/-- `negate` -/
def negate (a : AbsTerm) : AbsTerm :=
  match a.coeff with
  | none => ⟨a.tl, some (-1)⟩
  | some c => ⟨a.tl, some (c * (-1))⟩

/-- `same_term_list`: equality of the printed term lists -/
def same (a b : AbsTerm) : Bool := decide (a.tl.key = b.tl.key)

/-- `to_term_list` -/
def toTL (a : AbsTerm) : SynTL :=
  let m : Rat := match a.coeff with
    | none => 1
    | some c => c
  ⟨m * a.tl.const, a.tl.factors.map fun p => (p.1, m * p.2)⟩

/-- `if at.coefficient is None: at.coefficient = f else: at.coefficient *= f` (`_parse_paren_abs_or_terms`) -/
def scale (t : AbsTerm) (f : Rat) : AbsTerm :=
  match t.coeff with
  | none => ⟨t.tl, some f⟩
  | some c => ⟨t.tl, some (c * f)⟩

end AbsTerm

/-- `_combine_optional_floats`, as written; `nn` is what the `(None, None)` case returns -/
def combineOptional (nn : Option Rat) : Option Rat → Option Rat → Option Rat
  | none, none => nn
  | none, some f2 => some (f2 + 1)
  | some f1, none => some (f1 + 1)
  | some f1, some f2 => some (f1 + f2)

/-- `_combine_or_append`: every entry with the same printed term list gets the combined coefficient; the term is
    appended iff there was none -/
def combineOrAppend (nn : Option Rat) (atl : List AbsTerm) (t : AbsTerm) : List AbsTerm :=
  let r := atl.map fun a => if a.same t then ⟨a.tl, combineOptional nn a.coeff t.coeff⟩ else a
  if atl.any (fun a => a.same t) then r else r ++ [t]

/-! ## `PolyhedralSyntaxAbsoluteTermList` -/

structure ATL where
  tl : SynTL
  abs : List AbsTerm
deriving Repr, Inhabited

namespace ATL

def empty : ATL := ⟨SynTL.empty, []⟩

/-- `negate` -/
def negate (a : ATL) : ATL := ⟨a.tl.negate, a.abs.map AbsTerm.negate⟩

/-- `add` -/
def add (nn : Option Rat) (s o : ATL) : ATL :=
  ⟨s.tl.add o.tl, o.abs.foldl (combineOrAppend nn) s.abs⟩

/-- the in-place scaling of `_parse_paren_abs_or_terms` -/
def scale (a : ATL) (f : Rat) : ATL := ⟨a.tl.scale f, a.abs.map fun t => t.scale f⟩

end ATL

/-- `itertools.product([True, False], repeat=n)` -/
def signs : Nat → List (List Bool)
  | 0 => [[]]
  | n + 1 => (signs n).map (true :: ·) ++ (signs n).map (false :: ·)

/-- the inner loop of `_generate_absolute_term_combinations` for one sign tuple -/
def comboOf : List AbsTerm → List Bool → SynTL → SynTL
  | a :: r, s :: ss, c => comboOf r ss (c.add (if s then a.toTL else a.negate.toTL))
  | _, _, c => c

/-- `_generate_absolute_term_combinations` -/
def combos (l : List AbsTerm) : List SynTL := (signs l.length).map fun sg => comboOf l sg SynTL.empty

/-- `PolyhedralSyntaxAbsoluteTermList.expand` -/
def expand (a : ATL) : List SynTL :=
  if a.abs.length = 0 then [a.tl] else (combos a.abs).map fun c => a.tl.add c

/-- `_check_absolute_terms` does not raise -/
def checkAbs (l : List AbsTerm) : Bool := l.all AbsTerm.isPositive

/-! ## parse actions on trees -/

mutual
/-- `_parse_only_variable`, `_parse_number_and_variable`, `_parse_factor_paren_terms`, `_parse_paren_terms`,
    `_parse_term` -/
def Tm.tr (fold : Bool) : Tm → Except Err SynTL
  | .var x => .ok ⟨0, [(x, 1)]⟩
  | .kvar k x => match k.evalW fold with
    | .error e => .error e
    | .ok q => .ok (SynTL.scaleF ⟨0, [(x, 1)]⟩ q)
  | .kparen k ts => match k.evalW fold with
    | .error e => .error e
    | .ok q => match ts.trAcc fold SynTL.empty with
      | .error e => .error e
      | .ok tl => .ok (tl.scale q)
  | .paren ts => ts.trAcc fold SynTL.empty
  | .const k => match k.evalW fold with
    | .error e => .error e
    | .ok q => .ok ⟨q, []⟩
/-- `_parse_term_list` (`reduce(add, group, empty)`: a left fold, `acc` is the running sum) with
    `_parse_first_term` / `_parse_signed_term` applied to each element -/
def Tms.trAcc (fold : Bool) : Tms → SynTL → Except Err SynTL
  | .nil, acc => .ok acc
  | .cons neg t r, acc => match t.tr fold with
    | .error e => .error e
    | .ok tl => r.trAcc fold (acc.add (if neg then tl.negate else tl))
end

def Tms.tr (fold : Bool) (ts : Tms) : Except Err SynTL := ts.trAcc fold SynTL.empty

def evalOpt (fold : Bool) : Option Arith → Except Err (Option Rat)
  | none => .ok none
  | some k => match k.evalW fold with
    | .error e => .error e
    | .ok q => .ok (some q)

/-- an item is either a term list or an absolute term -/
inductive Piece
  | tl (t : SynTL)
  | abs (a : AbsTerm)

/-- `_parse_absolute_term` + `_parse_first_abs_term`/`_parse_signed_abs_term`, or
    `_parse_first_term`/`_parse_signed_term`; then `_parse_abs_or_term` -/
def Item.tr (fold : Bool) : Item → Except Err Piece
  | .abs neg k body => match evalOpt fold k with
    | .error e => .error e
    | .ok c => match body.tr fold with
      | .error e => .error e
      | .ok tl =>
        let a : AbsTerm := ⟨tl, c⟩
        .ok (.abs (if neg then a.negate else a))
  | .tm neg t => match t.tr fold with
    | .error e => .error e
    | .ok tl => .ok (.tl (if neg then tl.negate else tl))

/-- the loop of `_parse_abs_or_terms` -/
def groupBody (nn : Option Rat) (fold : Bool) : List Item → ATL → Except Err ATL
  | [], acc => .ok acc
  | i :: r, acc => match i.tr fold with
    | .error e => .error e
    | .ok (.tl t) => groupBody nn fold r ⟨acc.tl.add t, acc.abs⟩
    | .ok (.abs a) => groupBody nn fold r ⟨acc.tl, combineOrAppend nn acc.abs a⟩

/-- `_parse_paren_abs_or_terms` (for a group) and `_parse_first_or_addl_paren_abs_or_terms`: always an
    absolute-term list -/
def SItem.tr (nn : Option Rat) (fold : Bool) : SItem → Except Err ATL
  | .item i => match i.tr fold with
    | .error e => .error e
    | .ok (.tl t) => .ok ⟨SynTL.empty.add t, []⟩
    | .ok (.abs a) => .ok ⟨SynTL.empty, combineOrAppend nn [] a⟩
  | .group neg k items => match evalOpt fold k with
    | .error e => .error e
    | .ok c => match groupBody nn fold items ATL.empty with
      | .error e => .error e
      | .ok g =>
        let g1 := match c with
          | none => g
          | some f => g.scale f
        let g2 := if neg then g1.negate else g1
        .ok (ATL.empty.add nn g2)

/-- the loop of `_parse_multi_paren_abs_or_terms` -/
def sideAcc (nn : Option Rat) (fold : Bool) : Side → ATL → Except Err ATL
  | [], acc => .ok acc
  | i :: r, acc => match i.tr nn fold with
    | .error e => .error e
    | .ok a => sideAcc nn fold r (acc.add nn a)

def sideTr (nn : Option Rat) (fold : Bool) (s : Side) : Except Err ATL := sideAcc nn fold s ATL.empty

def sidesTr (nn : Option Rat) (fold : Bool) : List Side → Except Err (List ATL)
  | [] => .ok []
  | s :: r => match sideTr nn fold s with
    | .error e => .error e
    | .ok a => match sidesTr nn fold r with
      | .error e => .error e
      | .ok l => .ok (a :: l)

/-! ## serializer -/

/-- `a <= b` is converted as `a - (b) <= 0`: `a.add(b.negate())` over `zip(sides, sides[1:])` -/
def diffsLeq (nn : Option Rat) : ATL → List ATL → List ATL
  | _, [] => []
  | a, b :: r => a.add nn b.negate :: diffsLeq nn b r

/-- `a >= b` is converted as `-(a) + b <= 0`: `a.negate().add(b)` -/
def diffsGeq (nn : Option Rat) : ATL → List ATL → List ATL
  | _, [] => []
  | a, b :: r => a.negate.add nn b :: diffsGeq nn b r

/-- everything moved to one side, pair by pair (`[]` for an equality, which has no absolute terms) -/
def moved (nn : Option Rat) (fold : Bool) : Expr → Except Err (List ATL)
  | .eq _ _ => .ok []
  | .leq s1 s2 rest => match sidesTr nn fold (s1 :: s2 :: rest) with
    | .ok (a :: l) => .ok (diffsLeq nn a l)
    | .ok [] => .ok []
    | .error e => .error e
  | .geq s1 s2 rest => match sidesTr nn fold (s1 :: s2 :: rest) with
    | .ok (a :: l) => .ok (diffsGeq nn a l)
    | .ok [] => .ok []
    | .error e => .error e

/-- the body of the loops of `_leq/_geq_expression_to_polyhedral_terms`: check, expand, convert -/
def convert : List ATL → Except Err TL
  | [] => .ok []
  | d :: r =>
    if checkAbs d.abs then
      match convert r with
      | .error e => .error e
      | .ok ts => .ok ((expand d).map SynTL.toPTerm ++ ts)
    else .error .convex

/-- `polyhedral_termlist_from_string` after tokenisation -/
def translate (nn : Option Rat) (fold : Bool) : Expr → Except Err TL
  | .eq l r => match l.tr fold with
    | .error e => .error e
    | .ok lhs => match r.tr fold with
      | .error e => .error e
      | .ok rhs => .ok [(lhs.add rhs.negate).toPTerm, (rhs.add lhs.negate).toPTerm]
  | .leq s1 s2 rest => match moved nn fold (.leq s1 s2 rest) with
    | .error e => .error e
    | .ok ds => convert ds
  | .geq s1 s2 rest => match moved nn fold (.geq s1 s2 rest) with
    | .error e => .error e
    | .ok ds => convert ds

/-- the instance for the source as it is now -/
def translateG : Expr → Except Err TL := translate Gen.combineNoneNone Gen.arithFold

/-- `polyhedral_termlist_from_string` around the parse: when the source has `except ZeroDivisionError: raise ValueError`
    (`Gen.catchZeroDiv`) a division by zero in a constant expression is reported as `ValueError` -/
def fromStringG (e : Expr) : Except Err TL :=
  match translateG e with
  | .error x => if x == zeroDiv && Gen.catchZeroDiv then .error .valueError else .error x
  | .ok r => .ok r

end Syntax
