import Pacti.Model.Sem
import Pacti.Gen.Consts
/-
  Pacti.Model.Dict — contract dictionaries and file entries (C14, dictionary / file-entry part).

  Core Lean only.  Mirrors, statement by statement,
    * `serializer._check_clause`, `serializer.validate_contract_dict`
      (+ `validate_compound_contract_dict` once it exists),
    * `PolyhedralIoContract.from_dict`, `PolyhedralIoContract.from_strings`,
      `PolyhedralIoContractCompound.from_strings`, `PolyhedralTerm.__init__`,
    * `serializer.polyhedral_termlist_from_string` (only its `try/except` shell),
    * `fileio.read_contracts_from_file` (the part after `json.load`)
  on the JSON value type `J`, with *Python* semantics of `in`, `[]`, `isinstance`, `float()`, iteration,
  `.items()`, truthiness and `f(**d)`: every way such an operation can fail is an explicit
  `.error (.py "KeyError" | "TypeError" | "AssertionError" | "AttributeError" | "ZeroDivisionError")`.

  The spots that the pinned source gets wrong are *parameters* (`Cfg`): each field says whether the
  corresponding test / `raise` is present in the source.  `Cfg.current` is read off the source by
  `tools/py2lean.py` (Gen/Consts.lean), `Cfg.pinned` is the all-false configuration of the pinned tree.
  More case kinds (other call sites of C14) can be added as further namespaces of this file or as sibling
  modules: nothing here depends on the harness.

  What is *not* modelled but taken as a parameter (`Ext`): the term constructor on well-kinded arguments,
  the pyparsing grammar + conversion, the contract constructors (covered by C06/C09/C17), Python's
  `float(str)` and `str(x)` of a non-string.
-/

namespace Dict

/-- a JSON value as `json.load` delivers it (`int`/`float` are one kind: `num`; objects keep their order) -/
inductive J where
  | null
  | bool (b : Bool)
  | num (q : Rat)
  | str (s : String)
  | arr (l : List J)
  | obj (kv : List (String × J))
deriving Inhabited

deriving instance DecidableEq for Except

def eKey : Err := .py "KeyError"
def eType : Err := .py "TypeError"
def eAssert : Err := .py "AssertionError"
def eAttr : Err := .py "AttributeError"
def eZeroDiv : Err := .py "ZeroDivisionError"

/-- the error of an outcome, if it is one -/
def errOf {α : Type} : Except Err α → Option Err
  | .error e => some e
  | .ok _ => none

/-- the error kinds the property allows -/
def documented : Err → Bool
  | .contractFormat | .valueError | .incompatibleArgs | .syntax | .convex => true
  | _ => false

/-! ## Python semantics on `J` -/

namespace J

def isDict : J → Bool | .obj _ => true | _ => false
def isList : J → Bool | .arr _ => true | _ => false
def isStr : J → Bool | .str _ => true | _ => false
/-- the repaired numeric test `isinstance(v, numbers.Real) and not isinstance(v, bool)` -/
def isNum : J → Bool | .num _ => true | _ => false

/-- `x == "literal"` -/
def eqStr (x : J) (s : String) : Bool := match x with | .str t => t == s | _ => false

/-- `bool(x)` -/
def truthy : J → Bool
  | .null => false
  | .bool b => b
  | .num q => q != 0
  | .str s => s != ""
  | .arr l => !l.isEmpty
  | .obj kv => !kv.isEmpty

end J

/-- dictionary lookup (first binding; `json.load` never produces repeated keys) -/
def lookup (k : String) : List (String × J) → Option J
  | [] => none
  | p :: r => if p.1 == k then some p.2 else lookup k r

def isPrefixC : List Char → List Char → Bool
  | [], _ => true
  | _ :: _, [] => false
  | a :: p, b :: s => a == b && isPrefixC p s

/-- `sub in s` on strings -/
def isInfixC (sub : List Char) : List Char → Bool
  | [] => sub.isEmpty
  | c :: s => isPrefixC sub (c :: s) || isInfixC sub s

/-- `k in c` for a string `k` -/
def pyIn (k : String) : J → Except Err Bool
  | .obj kv => .ok (lookup k kv).isSome
  | .arr l => .ok (l.any fun x => x.eqStr k)
  | .str s => .ok (isInfixC k.toList s.toList)
  | _ => .error eType

/-- `c[k]` for a string `k` -/
def pyGetItem (c : J) (k : String) : Except Err J :=
  match c with
  | .obj kv => match lookup k kv with
    | some v => .ok v
    | none => .error eKey
  | _ => .error eType

/-- `for x in c` -/
def pyIter : J → Except Err (List J)
  | .arr l => .ok l
  | .str s => .ok (s.toList.map fun ch => .str (String.singleton ch))
  | .obj kv => .ok (kv.map fun p => .str p.1)
  | _ => .error eType

/-- `c.items()` -/
def pyItems : J → Except Err (List (String × J))
  | .obj kv => .ok kv
  | _ => .error eAttr

/-- `value != 0` -/
def pyNeZero : J → Bool
  | .num q => q != 0
  | .bool b => b
  | _ => true

/-! ## What is outside this model -/

/-- the environment: term constructor on well-kinded arguments, grammar, contract constructors,
    `float(str)` and `str(non-string)` -/
structure Ext (T C CC : Type) where
  /-- `PolyhedralTerm(variables, constant)` once every coefficient is a float -/
  mkTerm : List (String × Rat) → Rat → T
  /-- `expression.parse_string(s, parse_all=True)` followed by `_expression_to_polyhedral_terms` -/
  grammar : String → Except Err (List T)
  /-- `PolyhedralIoContract(input_vars, output_vars, assumptions, guarantees, simplify)` -/
  mkContract : List T → List T → List String → List String → Bool → Except Err C
  /-- `PolyhedralIoContractCompound(…, NestedPolyhedra(a, True), NestedPolyhedra(g, False))` -/
  mkCompound : List (List T) → List (List T) → List String → List String → Except Err CC
  /-- `float(s)` for a string: `none` = `ValueError` -/
  strToFloat : String → Option Rat
  /-- `str(x)` for a value that is not a string (used by `Var(x)`) -/
  reprOf : J → String

/-- the assumption under which the other properties hand their functions to this one: the constructors
    raise only documented errors; the grammar may in addition let the `ZeroDivisionError` of its
    constant-folding parse actions through (see `Arith` below) -/
structure Ext.Documented {T C CC : Type} (E : Ext T C CC) : Prop where
  grammar_doc : ∀ s e, E.grammar s = .error e → documented e = true ∨ e = eZeroDiv
  mk_doc : ∀ a g i o s e, E.mkContract a g i o s = .error e → documented e = true
  mkCompound_doc : ∀ a g i o e, E.mkCompound a g i o = .error e → documented e = true

/-! ## Repair parameters -/

/-- which of the tests / raises are present in the source -/
structure Cfg where
  /-- `_check_clause` starts with `if not isinstance(clause, dict): raise ContractFormatError` -/
  clauseDictTest : Bool
  /-- the `ContractFormatError` for a missing keyword in `_check_clause` is raised (pinned: only constructed) -/
  clauseRaises : Bool
  /-- `_check_clause` tests that the constant and every coefficient is a number -/
  clauseNumTest : Bool
  /-- `read_contracts_from_file` raises `ContractFormatError` for a non-list file, a non-dict entry, a missing
      "type"/"name"/"data", a non-string name (pinned: three `assert`s, the rest unchecked), and passes the four
      fields of a string contract explicitly instead of `**entry["data"]` -/
  fileChecked : Bool
  /-- the compound branch validates `entry["data"]` and passes the four fields explicitly -/
  compoundChecked : Bool
  /-- `from_dict` runs `validate_contract_dict` (re-raising `ContractFormatError` as `ValueError`) -/
  fromDictValidates : Bool
  /-- `polyhedral_termlist_from_string` turns the `ZeroDivisionError` of a constant expression into `ValueError` -/
  catchZeroDiv : Bool
deriving DecidableEq, Repr, Inhabited

namespace Cfg
def pinned : Cfg := ⟨false, false, false, false, false, false, false⟩
def repaired : Cfg := ⟨true, true, true, true, true, true, true⟩
/-- what the source under verification says now (regenerated on every run) -/
def current : Cfg :=
  ⟨Gen.checkClauseDictTest, Gen.checkClauseRaises, Gen.checkClauseNumTest, Gen.fileChecked, Gen.compoundChecked,
   Gen.fromDictValidates, Gen.catchZeroDiv⟩
def allRepaired (c : Cfg) : Bool :=
  c.clauseDictTest && c.clauseRaises && c.clauseNumTest && c.fileChecked && c.compoundChecked && c.fromDictValidates
    && c.catchZeroDiv
end Cfg

/-! ## `serializer._check_clause`, `validate_contract_dict` -/

/-- the repaired `for var, coeff in value.items(): if not number: raise` -/
def checkCoeffValues : List (String × J) → Except Err Unit
  | [] => .ok ()
  | p :: r => if p.2.isNum then checkCoeffValues r else .error .contractFormat

/-- body of the `for kw in ["constant", "coefficients"]` loop for one keyword -/
def checkClauseKw (cfg : Cfg) (clause : J) (kw : String) : Except Err Unit :=
  match pyIn kw clause with
  | .error e => .error e
  | .ok present =>
    if !present && cfg.clauseRaises then .error .contractFormat
    else
      -- pinned: the error object is built and dropped; execution continues with the subscript
      match pyGetItem clause kw with
      | .error e => .error e
      | .ok value =>
        if kw == "coefficients" then
          if !value.isDict then .error .contractFormat
          else if cfg.clauseNumTest then
            match value with
            | .obj kv => checkCoeffValues kv
            | _ => .ok ()
          else .ok ()
        else if cfg.clauseNumTest && !value.isNum then .error .contractFormat
        else .ok ()

/-- `_check_clause(clause, clause_id)` -/
def checkClause (cfg : Cfg) (clause : J) : Except Err Unit :=
  if cfg.clauseDictTest && !clause.isDict then .error .contractFormat
  else match checkClauseKw cfg clause "constant" with
    | .error e => .error e
    | .ok () => checkClauseKw cfg clause "coefficients"

def checkClauses (cfg : Cfg) : List J → Except Err Unit
  | [] => .ok ()
  | x :: r => match checkClause cfg x with
    | .error e => .error e
    | .ok () => checkClauses cfg r

/-- `for str_item in value: if not isinstance(str_item, str): raise` -/
def checkStrItems : List J → Except Err Unit
  | [] => .ok ()
  | x :: r => if x.isStr then checkStrItems r else .error .contractFormat

/-- one round of `for kw in keywords` of `validate_contract_dict`; `strList` = `kw in str_list_kw` -/
def validateKw (cfg : Cfg) (machine : Bool) (kv : List (String × J)) (kw : String) (strList : Bool) : Except Err Unit :=
  match lookup kw kv with
  | none => .error .contractFormat
  | some (.arr l) =>
    if strList then checkStrItems l
    else if machine then checkClauses cfg l
    else .ok ()
  | some _ => .error .contractFormat

/-- `validate_contract_dict(contract, contract_name, machine_representation)`; the name only enters messages -/
def validateContractDict (cfg : Cfg) (contract : J) (_name : J) (machine : Bool) : Except Err Unit :=
  match contract with
  | .obj kv =>
    match validateKw cfg machine kv "assumptions" (!machine) with
    | .error e => .error e
    | .ok () => match validateKw cfg machine kv "guarantees" (!machine) with
      | .error e => .error e
      | .ok () => match validateKw cfg machine kv "input_vars" true with
        | .error e => .error e
        | .ok () => validateKw cfg machine kv "output_vars" true
  | _ => .error .contractFormat

/-- items of the nested lists of a compound contract -/
def checkStrLists : List J → Except Err Unit
  | [] => .ok ()
  | .arr l :: r => match checkStrItems l with
    | .error e => .error e
    | .ok () => checkStrLists r
  | _ :: _ => .error .contractFormat

def validateCompoundKw (kv : List (String × J)) (kw : String) (vars : Bool) : Except Err Unit :=
  match lookup kw kv with
  | none => .error .contractFormat
  | some (.arr l) => if vars then checkStrItems l else checkStrLists l
  | some _ => .error .contractFormat

/-- `validate_compound_contract_dict(contract, contract_name)` (exists only in the repaired source) -/
def validateCompoundDict (contract : J) : Except Err Unit :=
  match contract with
  | .obj kv =>
    match validateCompoundKw kv "assumptions" false with
    | .error e => .error e
    | .ok () => match validateCompoundKw kv "guarantees" false with
      | .error e => .error e
      | .ok () => match validateCompoundKw kv "input_vars" true with
        | .error e => .error e
        | .ok () => validateCompoundKw kv "output_vars" true
  | _ => .error .contractFormat

/-! ## `PolyhedralTerm.__init__`, `from_dict` -/

section
variable {T C CC : Type}

/-- `float(v)` -/
def pyFloat (E : Ext T C CC) : J → Except Err Rat
  | .num q => .ok q
  | .bool b => .ok (if b then 1 else 0)
  | .str s => match E.strToFloat s with
    | some q => .ok q
    | none => .error .valueError
  | _ => .error eType

/-- `Var(x).name` = `str(x)` -/
def varName (E : Ext T C CC) : J → String
  | .str s => s
  | x => E.reprOf x

/-- the loop of `PolyhedralTerm.__init__` (keys are `Var`s, so the `isinstance(key, str)` branch is dead) -/
def termCoeffs (E : Ext T C CC) : List (String × J) → Except Err (List (String × Rat))
  | [] => .ok []
  | p :: r =>
    if pyNeZero p.2 then
      match pyFloat E p.2 with
      | .error e => .error e
      | .ok q => match termCoeffs E r with
        | .error e => .error e
        | .ok cs => .ok ((p.1, q) :: cs)
    else termCoeffs E r

/-- `PolyhedralTerm({Var(k): v for k, v in x["coefficients"].items()}, float(x["constant"]))` -/
def termOf (E : Ext T C CC) (x : J) : Except Err T :=
  match pyGetItem x "coefficients" with
  | .error e => .error e
  | .ok cj => match pyItems cj with
    | .error e => .error e
    | .ok kvs => match pyGetItem x "constant" with
      | .error e => .error e
      | .ok kj => match pyFloat E kj with
        | .error e => .error e
        | .ok k => match termCoeffs E kvs with
          | .error e => .error e
          | .ok cs => .ok (E.mkTerm cs k)

def termsOf (E : Ext T C CC) : List J → Except Err (List T)
  | [] => .ok []
  | x :: r => match termOf E x with
    | .error e => .error e
    | .ok t => match termsOf E r with
      | .error e => .error e
      | .ok ts => .ok (t :: ts)

/-- `if all(isinstance(x, dict) for x in contract[kw]): … else: raise ValueError` -/
def dictTerms (E : Ext T C CC) (contract : J) (kw : String) : Except Err (List T) :=
  match pyGetItem contract kw with
  | .error e => .error e
  | .ok v => match pyIter v with
    | .error e => .error e
    | .ok xs => if xs.all J.isDict then termsOf E xs else .error .valueError

/-- `[Var(x) for x in v]` -/
def varList (E : Ext T C CC) (v : J) : Except Err (List String) :=
  match pyIter v with
  | .error e => .error e
  | .ok xs => .ok (xs.map (varName E))

def hasAllKeys (kv : List (String × J)) : Bool :=
  (lookup "assumptions" kv).isSome && (lookup "guarantees" kv).isSome && (lookup "input_vars" kv).isSome
    && (lookup "output_vars" kv).isSome

/-- `PolyhedralIoContract.from_dict(contract, simplify)` -/
def fromDict (cfg : Cfg) (E : Ext T C CC) (contract : J) (simplify : Bool) : Except Err C :=
  match contract with
  | .obj kv =>
    if !hasAllKeys kv then .error .valueError
    else
      let validated : Except Err Unit :=
        if cfg.fromDictValidates then
          match validateContractDict cfg contract (.str "") true with
          | .error .contractFormat => .error .valueError
          | r => r
        else .ok ()
      match validated with
      | .error e => .error e
      | .ok () =>
        match dictTerms E contract "assumptions" with
        | .error e => .error e
        | .ok a => match dictTerms E contract "guarantees" with
          | .error e => .error e
          | .ok g => match pyGetItem contract "input_vars" with
            | .error e => .error e
            | .ok iv => match varList E iv with
              | .error e => .error e
              | .ok ins => match pyGetItem contract "output_vars" with
                | .error e => .error e
                | .ok ov => match varList E ov with
                  | .error e => .error e
                  | .ok outs => E.mkContract a g ins outs simplify
  | _ => .error .valueError

/-! ## strings -/

/-- `serializer.polyhedral_termlist_from_string(x)`: `parse_string` calls `x.expandtabs()` first -/
def tlFromString (cfg : Cfg) (E : Ext T C CC) : J → Except Err (List T)
  | .str s =>
    match E.grammar s with
    | .error e => if e == eZeroDiv && cfg.catchZeroDiv then .error .valueError else .error e
    | .ok ts => .ok ts
  | _ => .error eAttr

/-- `[item for x in xs for item in polyhedral_termlist_from_string(x)]` -/
def parseAll (cfg : Cfg) (E : Ext T C CC) : List J → Except Err (List T)
  | [] => .ok []
  | x :: r => match tlFromString cfg E x with
    | .error e => .error e
    | .ok ts => match parseAll cfg E r with
      | .error e => .error e
      | .ok us => .ok (ts ++ us)

/-- `a = []; if v: a = [item for x in v for item in …(x)]` -/
def parseField (cfg : Cfg) (E : Ext T C CC) (v : J) : Except Err (List T) :=
  if v.truthy then
    match pyIter v with
    | .error e => .error e
    | .ok xs => parseAll cfg E xs
  else .ok []

/-- `PolyhedralIoContract.from_strings(assumptions, guarantees, input_vars, output_vars, simplify)` -/
def fromStrings (cfg : Cfg) (E : Ext T C CC) (a g iv ov : J) (simplify : Bool) : Except Err C :=
  match parseField cfg E a with
  | .error e => .error e
  | .ok at' => match parseField cfg E g with
    | .error e => .error e
    | .ok gt => match varList E iv with
      | .error e => .error e
      | .ok ins => match varList E ov with
        | .error e => .error e
        | .ok outs => E.mkContract at' gt ins outs simplify

/-- `for termlist_str in v: a.append(PolyhedralTermList([item for x in termlist_str for item in …(x)]))` -/
def parseNestedAll (cfg : Cfg) (E : Ext T C CC) : List J → Except Err (List (List T))
  | [] => .ok []
  | x :: r => match pyIter x with
    | .error e => .error e
    | .ok xs => match parseAll cfg E xs with
      | .error e => .error e
      | .ok ts => match parseNestedAll cfg E r with
        | .error e => .error e
        | .ok tss => .ok (ts :: tss)

def parseNestedField (cfg : Cfg) (E : Ext T C CC) (v : J) : Except Err (List (List T)) :=
  if v.truthy then
    match pyIter v with
    | .error e => .error e
    | .ok xs => parseNestedAll cfg E xs
  else .ok []

/-- `PolyhedralIoContractCompound.from_strings(assumptions, guarantees, input_vars, output_vars)` -/
def fromStringsCompound (cfg : Cfg) (E : Ext T C CC) (a g iv ov : J) : Except Err CC :=
  match parseNestedField cfg E a with
  | .error e => .error e
  | .ok at' => match parseNestedField cfg E g with
    | .error e => .error e
    | .ok gt => match varList E iv with
      | .error e => .error e
      | .ok ins => match varList E ov with
        | .error e => .error e
        | .ok outs => E.mkCompound at' gt ins outs

/-- binding of `f(**d)` for a function with the four required parameters and, if `withSimplify`, the optional
    `simplify`: a non-mapping, a missing or an unexpected keyword is a `TypeError` -/
def bindKw (d : J) (withSimplify : Bool) : Except Err (J × J × J × J × Option J) :=
  match d with
  | .obj kv =>
    if kv.all (fun p => p.1 == "assumptions" || p.1 == "guarantees" || p.1 == "input_vars" || p.1 == "output_vars"
        || (withSimplify && p.1 == "simplify")) then
      match lookup "assumptions" kv, lookup "guarantees" kv, lookup "input_vars" kv, lookup "output_vars" kv with
      | some a, some g, some i, some o => .ok (a, g, i, o, lookup "simplify" kv)
      | _, _, _, _ => .error eType
    else .error eType
  | _ => .error eType

/-! ## `read_contracts_from_file` -/

/-- what one file entry becomes -/
inductive Loaded (C CC : Type) where
  | simple (c : C)
  | compound (c : CC)
deriving DecidableEq, Repr

/-- the first loop: `assert isinstance(entry, dict); assert "type" in entry` (pinned), resp. the
    `ContractFormatError` tests on "type", "name", "data" and the kind of the name (repaired) -/
def precheck (cfg : Cfg) (entry : J) : Except Err Unit :=
  match entry with
  | .obj kv =>
    if cfg.fileChecked then
      if (lookup "type" kv).isSome && (lookup "name" kv).isSome && (lookup "data" kv).isSome then
        match lookup "name" kv with
        | some (.str _) => .ok ()
        | _ => .error .contractFormat
      else .error .contractFormat
    else if (lookup "type" kv).isSome then .ok () else .error eAssert
  | _ => .error (if cfg.fileChecked then .contractFormat else eAssert)

/-- the body of the second loop for one entry -/
def load (cfg : Cfg) (E : Ext T C CC) (entry : J) : Except Err (Loaded C CC × J) :=
  match pyGetItem entry "type" with
  | .error e => .error e
  | .ok ty =>
    if ty.eqStr "PolyhedralIoContract_machine" then
      match pyGetItem entry "data" with
      | .error e => .error e
      | .ok data => match pyGetItem entry "name" with
        | .error e => .error e
        | .ok name => match validateContractDict cfg data name true with
          | .error e => .error e
          | .ok () => match fromDict cfg E data true with
            | .error e => .error e
            | .ok c => .ok (.simple c, name)
    else if ty.eqStr "PolyhedralIoContract" then
      match pyGetItem entry "data" with
      | .error e => .error e
      | .ok data => match pyGetItem entry "name" with
        | .error e => .error e
        | .ok name => match validateContractDict cfg data name false with
          | .error e => .error e
          | .ok () =>
            if cfg.fileChecked then
              -- from_strings(data["assumptions"], data["guarantees"], data["input_vars"], data["output_vars"])
              match pyGetItem data "assumptions" with
              | .error e => .error e
              | .ok a => match pyGetItem data "guarantees" with
                | .error e => .error e
                | .ok g => match pyGetItem data "input_vars" with
                  | .error e => .error e
                  | .ok i => match pyGetItem data "output_vars" with
                    | .error e => .error e
                    | .ok o => match fromStrings cfg E a g i o true with
                      | .error e => .error e
                      | .ok c => .ok (.simple c, name)
            else
              -- from_strings(**entry["data"])
              match bindKw data true with
              | .error e => .error e
              | .ok (a, g, i, o, s) =>
                match fromStrings cfg E a g i o (match s with | some v => v.truthy | none => true) with
                | .error e => .error e
                | .ok c => .ok (.simple c, name)
    else if ty.eqStr "PolyhedralIoContractCompound" then
      if cfg.compoundChecked then
        match pyGetItem entry "data" with
        | .error e => .error e
        | .ok data => match pyGetItem entry "name" with
          | .error e => .error e
          | .ok name => match validateCompoundDict data with
            | .error e => .error e
            | .ok () => match pyGetItem data "assumptions" with
              | .error e => .error e
              | .ok a => match pyGetItem data "guarantees" with
                | .error e => .error e
                | .ok g => match pyGetItem data "input_vars" with
                  | .error e => .error e
                  | .ok i => match pyGetItem data "output_vars" with
                    | .error e => .error e
                    | .ok o => match fromStringsCompound cfg E a g i o with
                      | .error e => .error e
                      | .ok c => .ok (.compound c, name)
      else
        match pyGetItem entry "data" with
        | .error e => .error e
        | .ok data => match bindKw data false with
          | .error e => .error e
          | .ok (a, g, i, o, _) => match fromStringsCompound cfg E a g i o with
            | .error e => .error e
            | .ok c => match pyGetItem entry "name" with
              | .error e => .error e
              | .ok name => .ok (.compound c, name)
    else .error .valueError

/-- one element of the JSON file list: its checks of the first loop, then its round of the second loop -/
def readEntry (cfg : Cfg) (E : Ext T C CC) (entry : J) : Except Err (Loaded C CC × J) :=
  match precheck cfg entry with
  | .error e => .error e
  | .ok () => load cfg E entry

def precheckAll (cfg : Cfg) : List J → Except Err Unit
  | [] => .ok ()
  | x :: r => match precheck cfg x with
    | .error e => .error e
    | .ok () => precheckAll cfg r

def loadAll (cfg : Cfg) (E : Ext T C CC) : List J → Except Err (List (Loaded C CC × J))
  | [] => .ok []
  | x :: r => match load cfg E x with
    | .error e => .error e
    | .ok c => match loadAll cfg E r with
      | .error e => .error e
      | .ok cs => .ok (c :: cs)

/-- `read_contracts_from_file` after `json.load`: all entries are checked before the first is loaded -/
def readFile (cfg : Cfg) (E : Ext T C CC) (fileData : J) : Except Err (List (Loaded C CC × J)) :=
  match fileData with
  | .arr l => match precheckAll cfg l with
    | .error e => .error e
    | .ok () => loadAll cfg E l
  | _ => .error (if cfg.fileChecked then .contractFormat else eAssert)

end

/-! ## What a dictionary denotes (specification; no Python semantics here) -/

abbrev RawTerm := List (String × Rat) × Rat

def asStr : J → Option String | .str s => some s | _ => none
def asNum : J → Option Rat | .num q => some q | _ => none

def asStrList : List J → Option (List String)
  | [] => some []
  | x :: r => match asStr x, asStrList r with
    | some s, some ss => some (s :: ss)
    | _, _ => none

def asCoeffs : List (String × J) → Option (List (String × Rat))
  | [] => some []
  | p :: r => match asNum p.2, asCoeffs r with
    | some q, some cs => some ((p.1, q) :: cs)
    | _, _ => none

/-- `{"constant": number, "coefficients": {name: number, …}}` -/
def asClause : J → Option RawTerm
  | .obj kv => match lookup "constant" kv, lookup "coefficients" kv with
    | some (.num k), some (.obj ckv) => match asCoeffs ckv with
      | some cs => some (cs, k)
      | none => none
    | _, _ => none
  | _ => none

def asClauses : List J → Option (List RawTerm)
  | [] => some []
  | x :: r => match asClause x, asClauses r with
    | some t, some ts => some (t :: ts)
    | _, _ => none

def asStrLists : List J → Option (List (List String))
  | [] => some []
  | .arr l :: r => match asStrList l, asStrLists r with
    | some s, some ss => some (s :: ss)
    | _, _ => none
  | _ :: _ => none

structure RawM where
  a : List RawTerm
  g : List RawTerm
  ins : List String
  outs : List String
deriving DecidableEq, Repr

structure RawS where
  a : List String
  g : List String
  ins : List String
  outs : List String
deriving DecidableEq, Repr

structure RawC where
  a : List (List String)
  g : List (List String)
  ins : List String
  outs : List String
deriving DecidableEq, Repr

/-- the list stored under `kw`, if there is one -/
def getArr (kw : String) (kv : List (String × J)) : Option (List J) :=
  match lookup kw kv with
  | some (.arr l) => some l
  | _ => none

/-- machine representation: all four fields present and of the right kind -/
def decodeMachine : J → Option RawM
  | .obj kv =>
    match getArr "assumptions" kv with
    | none => none
    | some la => match asClauses la with
      | none => none
      | some a => match getArr "guarantees" kv with
        | none => none
        | some lg => match asClauses lg with
          | none => none
          | some g => match getArr "input_vars" kv with
            | none => none
            | some li => match asStrList li with
              | none => none
              | some i => match getArr "output_vars" kv with
                | none => none
                | some lo => match asStrList lo with
                  | none => none
                  | some o => some ⟨a, g, i, o⟩
  | _ => none

/-- string representation -/
def decodeStrings : J → Option RawS
  | .obj kv =>
    match getArr "assumptions" kv with
    | none => none
    | some la => match asStrList la with
      | none => none
      | some a => match getArr "guarantees" kv with
        | none => none
        | some lg => match asStrList lg with
          | none => none
          | some g => match getArr "input_vars" kv with
            | none => none
            | some li => match asStrList li with
              | none => none
              | some i => match getArr "output_vars" kv with
                | none => none
                | some lo => match asStrList lo with
                  | none => none
                  | some o => some ⟨a, g, i, o⟩
  | _ => none

/-- compound contract in the string representation -/
def decodeCompound : J → Option RawC
  | .obj kv =>
    match getArr "assumptions" kv with
    | none => none
    | some la => match asStrLists la with
      | none => none
      | some a => match getArr "guarantees" kv with
        | none => none
        | some lg => match asStrLists lg with
          | none => none
          | some g => match getArr "input_vars" kv with
            | none => none
            | some li => match asStrList li with
              | none => none
              | some i => match getArr "output_vars" kv with
                | none => none
                | some lo => match asStrList lo with
                  | none => none
                  | some o => some ⟨a, g, i, o⟩
  | _ => none

inductive Decoded where
  | machine (name : String) (r : RawM)
  | strings (name : String) (r : RawS)
  | compound (name : String) (r : RawC)
deriving DecidableEq, Repr

/-- the representation named by the entry's "type" -/
def decodeData (nm : String) (data : J) : J → Option Decoded
  | .str ty =>
    if ty == "PolyhedralIoContract_machine" then (decodeMachine data).map (.machine nm)
    else if ty == "PolyhedralIoContract" then (decodeStrings data).map (.strings nm)
    else if ty == "PolyhedralIoContractCompound" then (decodeCompound data).map (.compound nm)
    else none
  | _ => none

/-- a file entry: `{"type": one of the three, "name": string, "data": a dictionary of that representation}` -/
def decodeEntry : J → Option Decoded
  | .obj kv =>
    match lookup "type" kv with
    | none => none
    | some ty => match lookup "name" kv with
      | some (.str nm) => match lookup "data" kv with
        | none => none
        | some data => decodeData nm data ty
      | _ => none
  | _ => none

section
variable {T C CC : Type}

/-- the term a clause denotes: zero coefficients are dropped by the constructor -/
def termOfRaw (E : Ext T C CC) (t : RawTerm) : T := E.mkTerm (t.1.filter fun p => p.2 != 0) t.2

def parseStrs (cfg : Cfg) (E : Ext T C CC) (l : List String) : Except Err (List T) :=
  parseAll cfg E (l.map .str)

def parseStrLists (cfg : Cfg) (E : Ext T C CC) : List (List String) → Except Err (List (List T))
  | [] => .ok []
  | l :: r => match parseStrs cfg E l with
    | .error e => .error e
    | .ok ts => match parseStrLists cfg E r with
      | .error e => .error e
      | .ok tss => .ok (ts :: tss)

def buildMachine (E : Ext T C CC) (r : RawM) (simplify : Bool) : Except Err C :=
  E.mkContract (r.a.map (termOfRaw E)) (r.g.map (termOfRaw E)) r.ins r.outs simplify

def buildStrings (cfg : Cfg) (E : Ext T C CC) (r : RawS) (simplify : Bool) : Except Err C :=
  match parseStrs cfg E r.a with
  | .error e => .error e
  | .ok a => match parseStrs cfg E r.g with
    | .error e => .error e
    | .ok g => E.mkContract a g r.ins r.outs simplify

def buildCompound (cfg : Cfg) (E : Ext T C CC) (r : RawC) : Except Err CC :=
  match parseStrLists cfg E r.a with
  | .error e => .error e
  | .ok a => match parseStrLists cfg E r.g with
    | .error e => .error e
    | .ok g => E.mkCompound a g r.ins r.outs

/-- the contract (or the constructor's / parser's error) a well-kinded entry denotes -/
def buildEntry (cfg : Cfg) (E : Ext T C CC) : Decoded → Except Err (Loaded C CC × J)
  | .machine nm r => match buildMachine E r true with
    | .error e => .error e
    | .ok c => .ok (.simple c, .str nm)
  | .strings nm r => match buildStrings cfg E r true with
    | .error e => .error e
    | .ok c => .ok (.simple c, .str nm)
  | .compound nm r => match buildCompound cfg E r with
    | .error e => .error e
    | .ok c => .ok (.compound c, .str nm)

end

/-! ## Constant arithmetic of the grammar (`arithmetic_expr`, folded by parse actions) -/

namespace Arith

inductive Op where | add | sub | mul | div
deriving DecidableEq, Repr

/-- `infixNotation` with binary left-associative levels: one node per precedence level, holding the first
    operand and the `(operator, operand)` pairs that follow at this level -/
inductive AExp where
  | num (q : Rat)
  | chain (first : AExp) (rest : List (Op × AExp))

def apply : Op → Rat → Rat → Except Err Rat
  | .add, a, b => .ok (a + b)
  | .sub, a, b => .ok (a - b)
  | .mul, a, b => .ok (a * b)
  | .div, a, b => if b = 0 then .error eZeroDiv else .ok (a / b)

/-- left-to-right folding of a chain at one precedence level -/
def applyAll (a : Rat) : List (Op × Rat) → Except Err Rat
  | [] => .ok a
  | (op, b) :: r => match apply op a b with
    | .error e => .error e
    | .ok c => applyAll c r

mutual
/-- the value the parse actions compute: every operand is evaluated (bottom-up), but the action of a level
    reads only `t[0][0]`, `t[0][1]`, `t[0][2]` — a longer chain is cut after its first operator -/
def eval : AExp → Except Err Rat
  | .num q => .ok q
  | .chain first rest => match eval first with
    | .error e => .error e
    | .ok a => match evalRest rest with
      | .error e => .error e
      | .ok [] => .ok a
      | .ok ((op, b) :: bs) =>
        -- pinned: the action reads only `t[0][0..2]`; repaired (`Gen.arithFold`): the whole chain is folded left to right
        if Gen.arithFold then applyAll a ((op, b) :: bs) else apply op a b
def evalRest : List (Op × AExp) → Except Err (List (Op × Rat))
  | [] => .ok []
  | (op, e) :: r => match eval e with
    | .error x => .error x
    | .ok b => match evalRest r with
      | .error x => .error x
      | .ok bs => .ok ((op, b) :: bs)
end

/-- `polyhedral_termlist_from_string` around a constant expression -/
def evalCaught (cfg : Cfg) (e : AExp) : Except Err Rat :=
  match eval e with
  | .error x => if x == eZeroDiv && cfg.catchZeroDiv then .error .valueError else .error x
  | .ok q => .ok q

end Arith

/-! ## A concrete environment (driver, `decide`d witnesses) -/

structure RawContract where
  a : List RawTerm
  g : List RawTerm
  ins : List String
  outs : List String
  simplify : Bool
deriving DecidableEq, Repr

structure RawCompound where
  a : List (List RawTerm)
  g : List (List RawTerm)
  ins : List String
  outs : List String
deriving DecidableEq, Repr

/-- `str(x)` of the simple non-string values (exact for `None`, booleans and integers) -/
def simpleRepr : J → String
  | .null => "None"
  | .bool true => "True"
  | .bool false => "False"
  | .num q => if q.den == 1 then toString q.num else "<float>"
  | .str s => s
  | .arr _ => "<list>"
  | .obj _ => "<dict>"

/-- environment given by tables: what the grammar answers for the strings that occur, what the constructors
    answer, what `float(str)` answers -/
def tableExt (grammar : List (String × Except Err (List RawTerm))) (ctor : Option Err)
    (floats : List (String × Rat)) : Ext RawTerm RawContract RawCompound where
  mkTerm := fun cs k => (cs, k)
  grammar := fun s => match grammar.find? (fun p => p.1 == s) with
    | some p => p.2
    | none => .error .syntax
  mkContract := fun a g i o s => match ctor with
    | some e => .error e
    | none => .ok ⟨a, g, i, o, s⟩
  mkCompound := fun a g i o => match ctor with
    | some e => .error e
    | none => .ok ⟨a, g, i, o⟩
  strToFloat := fun s => (floats.find? (fun p => p.1 == s)).map (·.2)
  reprOf := simpleRepr

/-- the environment of the `decide`d witnesses: no string parses, constructors accept -/
def E0 : Ext RawTerm RawContract RawCompound := tableExt [] none []

end Dict
