import Pacti.Model.Sem
import Pacti.Gen.Lists
import Pacti.Gen.Iface
/-
  Pacti.Model.Algebra — the generic contract algebra of `iocontract.py` (`IoContract.__init__`,
  `compose_tactics`, `quotient_tactics`, `merge`, `refines`, `rename_variable`, `copy`) over an ABSTRACT term
  type `T` and abstract primitives.  Every interface list and every decision is taken from the definitions
  GENERATED from the source (`Gen.compose_iface`, `Gen.quotient_iface`, `Gen.merge_iface`,
  `Gen.init_rejects`, `Gen.shares_io_with`); what is hand-written here is the order of the primitive calls,
  their operands/contexts, and the handling of their failures.

  Each primitive takes a `Site` so that two calls with equal arguments may answer differently ("every outcome
  of every primitive call").
-/

inductive Site
  | refA | simpA | relG1 | relG2 | relAll | ctor | qRef | qRelA | qRefG1 | qRefG2 | user
deriving DecidableEq, Repr, Inhabited

structure Prims (T : Type) where
  elimRefine : Site → List T → List T → List Var → Bool → List Nat → Except Err (List T)
  elimRelax  : Site → List T → List T → List Var → Bool → List Nat → Except Err (List T)
  /-- `simplify(context)`; `none` = called without a context -/
  simplify   : Site → List T → Option (List T) → Except Err (List T)
  refines    : Site → List T → List T → Except Err Bool

structure Contract (T : Type) where
  a : List T
  g : List T
  ins : List Var
  outs : List Var
deriving Repr

namespace Alg
variable {T : Type} [DecidableEq T]

/-- `TermList.vars` -/
def varsOf (vars : T → List Var) (l : List T) : List Var :=
  l.foldl (fun acc t => Gen.list_union acc (vars t)) []

/-- `TermList.get_terms_with_vars` -/
def withVars (vars : T → List Var) (l : List T) (xs : List Var) : List T :=
  l.filter fun t => !(Gen.list_intersection (vars t) xs).isEmpty

/-- `IoContract.__init__` -/
def mkContract (vars : T → List Var) (P : Prims T) (a g : List T) (ins outs : List Var) (simplify : Bool := true) :
    Except Err (Contract T) :=
  if (Gen.init_rejects (varsOf vars a) (varsOf vars g) ins outs).any id then .error .incompatibleArgs
  else if simplify then
    match P.simplify .ctor g (some a) with
    | .ok g' => .ok ⟨a, g', ins, outs⟩
    | .error e => .error e
  else .ok ⟨a, g, ins, outs⟩

/-- the assumption part of `compose_tactics` (before the optional final `simplify()`) -/
def composeAssumptions (vars : T → List Var) (P : Prims T) (c1 c2 : Contract T) (I : Gen.ComposeIface Var) (ord : List Nat) :
    Except Err (List T) :=
  if I.branch_feedback then .error .incompatibleArgs
  else if I.branch_self_helps then
    match P.elimRefine .refA c2.a (Gen.list_union c1.a c1.g) I.assumptions_forbidden_vars true ord with
    | .error e => .error e
    | .ok na =>
      if !(Gen.list_intersection (varsOf vars na) I.assumptions_forbidden_vars).isEmpty then .error .incompatibleArgs
      else .ok (Gen.list_union na c1.a)
  else if I.branch_other_helps then
    match P.elimRefine .refA c1.a (Gen.list_union c2.a c2.g) I.assumptions_forbidden_vars true ord with
    | .error e => .error e
    | .ok na =>
      if !(Gen.list_intersection (varsOf vars na) I.assumptions_forbidden_vars).isEmpty then .error .incompatibleArgs
      else .ok (Gen.list_union na c2.a)
  else .ok (Gen.list_union c1.a c2.a)

/-- `IoContract.compose_tactics` (`c1` = self, `c2` = other) -/
def compose (vars : T → List Var) (P : Prims T) (c1 c2 : Contract T) (keep : List Var) (simp : Bool) (ord : List Nat) :
    Except Err (Contract T) :=
  let I := Gen.compose_iface c1.ins c1.outs c2.ins c2.outs (varsOf vars c1.a) (varsOf vars c2.a) keep
  if I.reject_keep then .error .incompatibleArgs
  else if I.reject_io then .error .incompatibleArgs
  else
  match composeAssumptions vars P c1 c2 I ord with
  | .error e => .error e
  | .ok asm0 =>
  match (if simp then P.simplify .simpA asm0 none else .ok asm0) with
  | .error e => .error e
  | .ok asm1 =>
  match P.elimRelax .relG1 c1.g c2.g I.intvars simp ord with
  | .error e => .error e
  | .ok g1 =>
  match P.elimRelax .relG2 c2.g c1.g I.intvars simp ord with
  | .error e => .error e
  | .ok g2 =>
  match P.elimRelax .relAll (Gen.list_union g1 g2) asm1 I.intvars simp ord with
  | .error e => .error e
  | .ok all =>
    -- terms over internal variables are discarded; the operands' guarantees over interface variables are conjoined
    let og := Gen.list_union c1.g c2.g
    mkContract vars P asm1
      (Gen.list_union (Gen.list_diff all (withVars vars all I.intvars)) (Gen.list_diff og (withVars vars og I.intvars)))
      I.inputvars I.outputvars

/-- `try: … except ValueError:` around a primitive: on `ValueError` (or its subclass `IncompatibleArgsError`) keep `d`;
    anything else — another Python exception, or the model-only `oracleStuck` — is not caught -/
def orElse (r : Except Err (List T)) (d : List T) : Except Err (List T) :=
  match r with
  | .ok x => .ok x
  | .error .valueError => .ok d
  | .error .incompatibleArgs => .ok d
  | .error e => .error e

/-- `IoContract.quotient_tactics` (`c` = self, the dividend; `c1` = other, the divisor) -/
def quotient (vars : T → List Var) (P : Prims T) (c c1 : Contract T) (addl : List Var) (simp : Bool) (ord : List Nat) :
    Except Err (Contract T) :=
  let I := Gen.quotient_iface c.ins c.outs c1.ins c1.outs addl
  if I.reject_io then .error .incompatibleArgs
  else if I.reject_additional then .error .incompatibleArgs
  else
  match P.refines .qRef c.a c1.a with
  | .error e => .error e
  | .ok rf =>
  let a0 := if rf then Gen.list_union c.a c1.g else c.a
  match P.elimRelax .qRelA a0 [] (Gen.list_union I.intvars I.outputvars) simp ord with
  | .error e => .error e
  | .ok asm =>
  match orElse (P.elimRefine .qRefG1 c.g (Gen.list_union c1.g c1.a) I.intvars simp ord) c.g with
  | .error e => .error e
  | .ok g0 =>
  let g1 := Gen.list_union g0 c1.a
  match orElse (P.elimRefine .qRefG2 g1 c.a I.intvars simp ord) g1 with
  | .error e => .error e
  | .ok g2 =>
  if !(Gen.list_intersection (varsOf vars g2) I.intvars).isEmpty then .error .incompatibleArgs
  else mkContract vars P asm g2 I.inputvars I.outputvars

/-- `IoContract.merge` -/
def merge (vars : T → List Var) (P : Prims T) (c1 c2 : Contract T) : Except Err (Contract T) :=
  let I := Gen.merge_iface c1.ins c1.outs c2.ins c2.outs
  mkContract vars P (Gen.list_union c1.a c2.a) (Gen.list_union c1.g c2.g) I.input_vars I.output_vars

/-- `IoContract.refines` (both list tests are evaluated before the `and`) -/
def refinesC (P : Prims T) (c d : Contract T) : Except Err Bool :=
  if !(Gen.shares_io_with c.ins c.outs d.ins d.outs) then .error .incompatibleArgs
  else match P.refines .user d.a c.a with
    | .error e => .error e
    | .ok b1 =>
      match P.refines .user (Gen.list_union c.g d.a) (Gen.list_union d.g d.a) with
      | .error e => .error e
      | .ok b2 => .ok (b1 && b2)

/-- `xs[xs.index(s)] = t` -/
def replaceFirst (xs : List Var) (s t : Var) : List Var :=
  match xs with
  | [] => []
  | x :: r => if x = s then t :: r else x :: replaceFirst r s t

/-- `IoContract.rename_variable`; `ren` is the term-level renaming -/
def rename (vars : T → List Var) (P : Prims T) (ren : T → Var → Var → T) (c : Contract T) (s t : Var) :
    Except Err (Contract T) :=
  if s = t then mkContract vars P c.a c.g c.ins c.outs
  else if s ∈ c.ins then
    if t ∈ c.outs then .error .incompatibleArgs
    else
      let ins' := if t ∉ c.ins then replaceFirst c.ins s t else c.ins.erase s
      mkContract vars P (c.a.map (ren · s t)) (c.g.map (ren · s t)) ins' c.outs
  else if s ∈ c.outs then
    if t ∈ c.ins then .error .incompatibleArgs
    else
      let outs' := if t ∉ c.outs then replaceFirst c.outs s t else c.outs.erase s
      mkContract vars P (c.a.map (ren · s t)) (c.g.map (ren · s t)) c.ins outs'
  else mkContract vars P c.a c.g c.ins c.outs

/-- `IoContract.copy` -/
def copy (vars : T → List Var) (P : Prims T) (c : Contract T) : Except Err (Contract T) :=
  mkContract vars P c.a c.g c.ins c.outs

end Alg
