import Pacti.Gen.Consts
/-
  Pacti.Model.Eq — executable model of `==`, `hash` and `copy` of polyhedral terms, term lists, contracts and
  compound contracts (property C19).  Core Lean only: compiled into the driver.

  What is mirrored (file : function):
  * polyhedra.py : `PolyhedralTerm.__init__` (zero coefficients dropped, `value != 0`), `__eq__` (dict *key sets*
    compared, then the values with `np.equal`, then the constants with `np.equal`), `__str__` (items sorted by variable
    name, `str(coeff) + "*" + name` joined by " + ", then " <= " + `str(constant)` — or `str(constant + 0.0)`, whichever the
    source has: `Gen.strConstPlusZero` —), `__hash__ = hash(str(self))`,
    `copy = PolyhedralTerm(self.variables, self.constant)`; `PolyhedralTermList.__hash__ = hash(tuple(self.terms))`.
  * iocontract.py : `TermList.__eq__` (`self.terms == other.terms`: Python list equality, ordered), `TermList.copy`,
    `IoContract.__eq__` AS WRITTEN — whether the output lists are compared is the generated constant
    `Gen.eqComparesOutputs` (pinned source: `self.outputvars == self.outputvars`, i.e. not compared) —,
    `IoContract.__hash__ = hash((tuple(inputvars), tuple(outputvars), a, g))`, `IoContract.copy` (re-runs the constructor,
    hence the default simplification of the guarantees).
  * compundiocontract.py : `NestedTermList.__le__/__eq__` (`self <= other <= self`, each `<=` being "every member refines
    some member", refinement of term lists is a parameter here), `IoContractCompound.__eq__` (same shape and same
    defect; `Gen.eqCompoundComparesOutputs`).  Neither class defines `__hash__`: Python makes them unhashable.

  Numbers are an abstract type `N` with the three operations the code applies to them (`NumOps`).  Nothing here assumes
  that `eqN` and `strN` agree: for IEEE doubles they do not (`0.0 == -0.0` but `"0.0" ≠ "-0.0"`), see `FNum`, `SignedZero`.
  Variables are indices in *name order* (`Var := Nat` as in `Sem.lean`), so sorting by index is sorting by name.
  A Python dict is an association list in insertion order without repeated keys (`Term.NodupKeys`).
-/

namespace EqModel

/-- the operations the code applies to coefficients and constants -/
class NumOps (N : Type) where
  /-- `np.equal(a, b)` -/
  eqN : N → N → Bool
  /-- `str(a)` -/
  strN : N → String
  /-- `not (a != 0)`: the test with which the constructor drops a coefficient -/
  isZero : N → Bool
  /-- `str(a + 0.0)` (how a source that normalises the sign of zero prints a constant) -/
  strZ : N → String

export NumOps (eqN strN isZero strZ)

/-- the law that makes `==` and `hash` of terms coherent: equal numbers print equally.
    Holds for ℚ, fails for IEEE doubles at ±0.0 (`strN`). -/
def NumOps.Coherent (N : Type) [NumOps N] : Prop := ∀ a b : N, eqN a b = true → strN a = strN b ∧ strZ a = strZ b

/-- the part of the law that IEEE doubles do satisfy: equal *non-zero* numbers print equally, and equal numbers print
    equally after `+ 0.0` -/
structure NumOps.CoherentIEEE (N : Type) [NumOps N] : Prop where
  nz : ∀ a b : N, eqN a b = true → isZero a = false → strN a = strN b
  z : ∀ a b : N, eqN a b = true → strZ a = strZ b

/-- `eqN` is an equivalence relation (false for IEEE doubles only at NaN) -/
structure NumOps.IsEquiv (N : Type) [NumOps N] : Prop where
  refl : ∀ a : N, eqN a a = true
  symm : ∀ a b : N, eqN a b = true → eqN b a = true
  trans : ∀ a b c : N, eqN a b = true → eqN b c = true → eqN a c = true

abbrev V := Nat

/-- `PolyhedralTerm`: `variables` (dict, insertion order) and `constant` -/
structure Term (N : Type) where
  coeffs : List (V × N)
  const : N
deriving Repr, Inhabited

/-- hash functions of the interpreter, all arbitrary: of a string, of a tuple of hashes, of a variable -/
structure Hashers (Hc : Type) where
  str : String → Hc
  tup : List Hc → Hc
  var : V → Hc

namespace Term
variable {N : Type} [NumOps N]

def keys (t : Term N) : List V := t.coeffs.map (·.1)

/-- dict lookup `d[x]` (`none` = `KeyError`) -/
def find (x : V) : List (V × N) → Option N
  | [] => none
  | p :: r => if p.1 = x then some p.2 else find x r

def get? (t : Term N) (x : V) : Option N := find x t.coeffs

/-- the dict invariant: no repeated key -/
def NodupKeys (t : Term N) : Prop := t.keys.Nodup

/-- the constructor's invariant: no zero coefficient is stored -/
def NoZero (t : Term N) : Prop := ∀ p ∈ t.coeffs, isZero p.2 = false

/-- `PolyhedralTerm(variables, constant)`: coefficients with `value != 0` false are dropped, order kept -/
def mk' (l : List (V × N)) (k : N) : Term N := ⟨l.filter (fun p => !isZero p.2), k⟩

/-- `self.variables.keys() == other.variables.keys()`: comparison of key *sets* -/
def keysEq (s t : Term N) : Bool :=
  s.keys.all (fun x => t.keys.contains x) && t.keys.all (fun x => s.keys.contains x)

/-- the loop `for k, v in self.variables.items(): match = match and np.equal(v, other.variables[k])` -/
def valsEq (s t : Term N) : Bool :=
  s.coeffs.all fun p => match t.get? p.1 with
    | some w => eqN p.2 w
    | none => false  -- `KeyError`: unreachable after `keysEq`

/-- `PolyhedralTerm.__eq__` -/
def eq (s t : Term N) : Bool := keysEq s t && valsEq s t && eqN s.const t.const

/-- stable insertion by variable (name) order -/
def insertK (p : V × N) : List (V × N) → List (V × N)
  | [] => [p]
  | q :: r => if p.1 ≤ q.1 then p :: q :: r else q :: insertK p r

/-- `varlist.sort(key=lambda x: str(x[0]))` -/
def sortK (l : List (V × N)) : List (V × N) := l.foldr insertK []

/-- how the constant is printed: `str(self.constant + 0.0)` if `plusZero`, else `str(self.constant)` -/
def strK (plusZero : Bool) (k : N) : String := if plusZero then strZ k else strN k

/-- `PolyhedralTerm.__str__`; `nm` prints a variable -/
def strWith (plusZero : Bool) (nm : V → String) (t : Term N) : String :=
  " + ".intercalate ((sortK t.coeffs).map fun p => strN p.2 ++ "*" ++ nm p.1) ++ " <= " ++ strK plusZero t.const

/-- `PolyhedralTerm.__str__` of the source under verification (`Gen.strConstPlusZero` is read off its AST) -/
def str (nm : V → String) (t : Term N) : String := strWith Gen.strConstPlusZero nm t

/-- `PolyhedralTerm.__hash__ = hash(str(self))` -/
def hash {Hc : Type} (nm : V → String) (H : Hashers Hc) (t : Term N) : Hc := H.str (t.str nm)

/-- `PolyhedralTerm.copy` -/
def copy (t : Term N) : Term N := mk' t.coeffs t.const

end Term

/-- `PolyhedralTermList.terms` -/
abbrev TList (N : Type) := List (Term N)

namespace TList
variable {N : Type} [NumOps N]

/-- `TermList.__eq__`: `self.terms == other.terms` (equal length, element-wise `==`, in order) -/
def eq : TList N → TList N → Bool
  | [], [] => true
  | s :: l, t :: m => Term.eq s t && eq l m
  | _, _ => false

/-- `PolyhedralTermList.__hash__ = hash(tuple(self.terms))` -/
def hash {Hc : Type} (nm : V → String) (H : Hashers Hc) (l : TList N) : Hc := H.tup (l.map (Term.hash nm H))

/-- `TermList.copy` -/
def copy (l : TList N) : TList N := l.map Term.copy

def NodupKeys (l : TList N) : Prop := ∀ t ∈ l, t.NodupKeys
def NoZero (l : TList N) : Prop := ∀ t ∈ l, t.NoZero

end TList

/-- `IoContract` -/
structure Contract (N : Type) where
  ins : List V
  outs : List V
  a : TList N
  g : TList N
deriving Repr, Inhabited

namespace Contract
variable {N : Type} [NumOps N]

/-- `IoContract.__eq__`; `cmpOut = false` is the pinned `self.outputvars == self.outputvars` -/
def eqWith (cmpOut : Bool) (c d : Contract N) : Bool :=
  (c.ins == d.ins) && (if cmpOut then c.outs == d.outs else c.outs == c.outs) && TList.eq c.a d.a && TList.eq c.g d.g

/-- `IoContract.__eq__` of the source under verification -/
def eq (c d : Contract N) : Bool := eqWith Gen.eqComparesOutputs c d

/-- `IoContract.__hash__` -/
def hash {Hc : Type} (nm : V → String) (H : Hashers Hc) (c : Contract N) : Hc :=
  H.tup [H.tup (c.ins.map H.var), H.tup (c.outs.map H.var), TList.hash nm H c.a, TList.hash nm H c.g]

/-- `IoContract.copy`: `type(self)(self.a.copy(), self.g.copy(), inputvars.copy(), outputvars.copy())`; the constructor
    copies the assumptions once more and re-simplifies the guarantees (`simp g a`, default `simplify=True`).
    (The constructor's interface tests are repeated on the same data and pass again.) -/
def copyWith (simp : TList N → TList N → TList N) (c : Contract N) : Contract N :=
  let a' := (TList.copy c.a).copy
  ⟨c.ins, c.outs, a', simp (TList.copy c.g) a'⟩

end Contract

/-- `NestedTermList.__le__`: every member refines some member of the other (`le` = `TermList.__le__` = `refines`) -/
def NTL.le {L : Type} (le : L → L → Bool) (a b : List L) : Bool := a.all fun x => b.any fun y => le x y

/-- `NestedTermList.__eq__`: `self <= other <= self` -/
def NTL.eq {L : Type} (le : L → L → Bool) (a b : List L) : Bool := NTL.le le a b && NTL.le le b a

/-- `IoContractCompound` over any representation `L` of term lists -/
structure Compound (L : Type) where
  ins : List V
  outs : List V
  a : List L
  g : List L

namespace Compound
variable {L : Type}

/-- `IoContractCompound.__eq__` (same shape as `IoContract.__eq__`) -/
def eqWith (cmpOut : Bool) (le : L → L → Bool) (c d : Compound L) : Bool :=
  (c.ins == d.ins) && (if cmpOut then c.outs == d.outs else c.outs == c.outs) && NTL.eq le c.a d.a && NTL.eq le c.g d.g

def eq (le : L → L → Bool) (c d : Compound L) : Bool := eqWith Gen.eqCompoundComparesOutputs le c d

end Compound

/-! ### number types -/

def ratStr (q : Rat) : String := if q.den == 1 then toString q.num else toString q.num ++ "/" ++ toString q.den

/-- exact rationals: `eqN` is equality, so every printer is coherent with it -/
instance : NumOps Rat where
  eqN a b := a == b
  strN := ratStr
  isZero a := a == 0
  strZ := ratStr

/-- a finite double as the driver sees it: the rational it denotes, plus the sign bit of a zero.
    `strN` is injective on (value, sign of zero), as `str(float)` is on finite doubles. -/
structure FNum where
  q : Rat
  negz : Bool := false
deriving Repr, Inhabited, DecidableEq

instance : NumOps FNum where
  eqN a b := a.q == b.q
  strN a := if a.q == 0 then (if a.negz then "-0.0" else "0.0") else ratStr a.q
  isZero a := a.q == 0
  strZ a := if a.q == 0 then "0.0" else ratStr a.q   -- -0.0 + 0.0 = 0.0

/-- the two IEEE zeros -/
inductive SignedZero | pos | neg
deriving DecidableEq, Repr

instance : NumOps SignedZero where
  eqN _ _ := true                                   -- 0.0 == -0.0
  strN | .pos => "0.0" | .neg => "-0.0"
  isZero _ := true
  strZ _ := "0.0"

/-- variable printer and collision-free hash functions used by the driver to decide "hashes are equal" -/
def drvName (x : V) : String := "v" ++ toString x
def drvHashers : Hashers String := ⟨fun s => "S(" ++ s ++ ")", fun l => "T[" ++ ",".intercalate l ++ "]", fun x => "V" ++ toString x⟩

end EqModel
