import Pacti.Model.Algebra
import Pacti.Model.Elim
/-
  Pacti.Model.PolyAlg — the generic algebra instantiated with the modelled polyhedral primitives: this is the
  model of `PolyhedralIoContract.compose_tactics / quotient_tactics / merge / refines / rename_variable / copy`.
-/
namespace PolyAlg

/-- the four primitives of `PolyhedralTermList`.  `grayAs` resolves a refinement verdict inside the tolerance band. -/
def polyPrims (O : Oracle) (tie : PTerm → Bool) (grayAs : Bool) (tac : Nat → PTerm → TL → List Var → Bool → Elim.TacticRes) : Prims PTerm where
  elimRefine := fun _ l Γ xs b o => (Elim.elimRefine O tie tac l Γ xs b o).map (·.1)
  elimRelax := fun _ l Γ xs b o => (Elim.elimRelax O tie tac l Γ xs b o).map (·.1)
  simplify := fun _ l Γ => Poly.simplify O tie l Γ
  refines := fun _ l r =>
    match Poly.refinesTL O l r with
    | .ok .yes => .ok true
    | .ok .no => .ok false
    | .ok .gray => .ok grayAs
    | .error e => .error e

/-- the real tactic table -/
def realTac (O : Oracle) (grayKeeps : Bool) (hint : PTerm → TL → List Var → Bool → Option (List Nat)) :=
  Elim.tactic O grayKeeps hint

def compose (P : Prims PTerm) (c1 c2 : Contract PTerm) (keep : List Var) (simp : Bool) (ord : List Nat) :=
  Alg.compose PTerm.vars P c1 c2 keep simp ord
def quotient (P : Prims PTerm) (c c1 : Contract PTerm) (addl : List Var) (simp : Bool) (ord : List Nat) :=
  Alg.quotient PTerm.vars P c c1 addl simp ord
def merge (P : Prims PTerm) (c1 c2 : Contract PTerm) := Alg.merge PTerm.vars P c1 c2
def mk (P : Prims PTerm) (a g : TL) (ins outs : List Var) (simp : Bool) := Alg.mkContract PTerm.vars P a g ins outs simp

/-- `PolyhedralIoContract.optimize`: the LP runs over `self.a | self.g` -/
def optimizeC (O : Oracle) (c : Contract PTerm) (obj : Lin) (mx : Bool) : Except Err (Option Rat) :=
  Poly.optimize O (Gen.list_union c.a c.g) obj mx

/-- `PolyhedralIoContract.get_variable_bounds` -/
def boundsC (O : Oracle) (c : Contract PTerm) (x : Var) : Except Err (Option Rat × Option Rat) :=
  Poly.variableBounds O (Gen.list_union c.a c.g) x

/-- `PolyhedralTerm.rename_variable` -/
def renameTerm (t : PTerm) (s d : Var) : PTerm :=
  if t.containsVar s then
    -- `variables[d] += variables[s]` then `remove_variable(s)`: for `s = d` the variable disappears altogether
    if s = d then t.remove s
    else PTerm.mk' ((t.coeffs.filter (fun p => p.1 != s)) ++ [(d, t.coeff s)]) t.const
  else t

def rename (P : Prims PTerm) (c : Contract PTerm) (s d : Var) := Alg.rename PTerm.vars P renameTerm c s d

/-- `PolyhedralIoContract.rename_variables`: a copy, then the mappings one after the other -/
def renameAll (P : Prims PTerm) (c : Contract PTerm) (ms : List (Var × Var)) : Except Err (Contract PTerm) :=
  match Alg.copy PTerm.vars P c with
  | .error e => .error e
  | .ok c0 => ms.foldlM (fun acc m => rename P acc m.1 m.2) c0

end PolyAlg
