import Pacti.Driver.Wire
import Pacti.Driver.OpsPoly
import Pacti.Driver.OpsSym
import Pacti.Driver.OpsElim
import Pacti.Driver.OpsPlots
import Pacti.Driver.OpsAlg
import Pacti.Driver.OpsEq
import Pacti.Driver.OpsCompound
import Pacti.Driver.OpsSession
import Pacti.Driver.OpsSyntax
import Pacti.Driver.OpsSerial
import Pacti.Driver.OpsDict
open Lean Wire

/-- every op family registers one handler here -/
def handlers : List (String → Json → Option (Except String Json)) :=
  [handlePoly, OpsSym.handleSym, OpsElim.handleElim, handlePlots, OpsAlg.handleAlg, handleEq, handleCompound, OpsSession.handleSession, handleSyntax, handleSerial, handleDict]

def handle (j : Json) : Except String Json := do
  let op ← (← j.getObjVal? "op").getStr?
  match handlers.findSome? (fun h => h op j) with
  | some r => r
  | none => throw s!"unknown op {op}"

partial def loop (h : IO.FS.Stream) (out : IO.FS.Stream) : IO Unit := do
  let line ← h.getLine
  if line.isEmpty then return ()
  let resp : Json :=
    match Json.parse line with
    | .error e => Json.mkObj [("fatal", Json.str e)]
    | .ok j =>
      let id := (j.getObjVal? "id").toOption.getD Json.null
      match handle j with
      | .ok r => r.setObjVal! "id" id
      | .error e => Json.mkObj [("id", id), ("fatal", Json.str e)]
  out.putStrLn resp.compress
  out.flush   -- one answer per request line, immediately: lets a client keep one driver process open
  loop h out

def main : IO Unit := do
  let i ← IO.getStdin
  let o ← IO.getStdout
  loop i o
  o.flush
