import Pacti.Driver.Wire
import Pacti.Model.Simplex
open Lean Wire

def theOracle : Oracle := checkedOracle Simplex.solve

def jLPRes : LPRes → Json
  | .optimal m x => Json.mkObj [("status", "optimal"), ("m", jRat m), ("x", jLin x)]
  | .infeasible => Json.mkObj [("status", "infeasible")]
  | .unbounded => Json.mkObj [("status", "unbounded")]
  | .stuck => Json.mkObj [("status", "stuck")]

def handle (j : Json) : Except String Json := do
  let op ← (← j.getObjVal? "op").getStr?
  match op with
  | "lp" =>
    let obj ← getLin (← j.getObjVal? "obj")
    let cs ← getTL (← j.getObjVal? "cs")
    pure (jLPRes (theOracle.lp obj cs))
  | _ => throw s!"unknown op {op}"

partial def loop (h : IO.FS.Stream) (out : IO.FS.Stream) : IO Unit := do
  let line ← h.getLine
  if line.isEmpty then return ()
  let resp : Json :=
    match Json.parse line with
    | .error e => Json.mkObj [("fatal", Json.str e)]
    | .ok j =>
      let id := (j.getObjVal? "id").toOption.getD Json.null
      match handle j with
      | .ok r => r.setObjVal! "id" id
      | .error e => Json.mkObj [("id", id), ("fatal", Json.str e)]
  out.putStrLn resp.compress
  loop h out

def main : IO Unit := do
  let i ← IO.getStdin
  let o ← IO.getStdout
  loop i o
  o.flush
