from __future__ import annotations

import argparse
import importlib
import os
import sys

from .framework import run_check


def main() -> int:
    ap = argparse.ArgumentParser()
    ap.add_argument("pid")
    ap.add_argument("--tier", default=os.environ.get("VERIF_TIER", "quick"), choices=["quick", "thorough"])
    ap.add_argument("--replay", default=None)
    a = ap.parse_args()
    try:
        mod = importlib.import_module(f"harness.props.{a.pid.lower()}")
    except ModuleNotFoundError as e:
        print(f"INFRA: no check for {a.pid}: {e}")
        return 2
    try:
        return run_check(mod.CHECK, a.tier, a.replay)
    except SystemExit as e:
        print(str(e))
        return 2
    except Exception as e:  # noqa
        import traceback

        traceback.print_exc()
        print("INFRA: harness crashed: " + repr(e))
        return 2


if __name__ == "__main__":
    sys.exit(main())
