"""Generic runner for one property check (DESIGN.md 3.6, 3.8).

A property module provides a subclass of `Check`.  The runner
  1. regenerates Gen/*.lean from the source, builds the driver and the property's proof module,
  2. audits the proofs (forbidden constructs, `#print axioms`),
  3. runs corpus + generated cases on the implementation (in-process, worker pool) and on the model
     (Lean driver, line protocol) and compares,
  4. judges disagreeing cases and a sample of agreeing ones with the property's exact judge,
  5. if a proof or the correspondence broke: searches all explored cases for a failing input,
  6. writes evidence, prints VIOLATION / KNOWN-FINDING lines, returns the exit code.
Exit codes: 0 held; 1 violation; 2 infrastructure.
"""
from __future__ import annotations

import json
import multiprocessing as mp
import os
import random
import sys
import time
import traceback
from typing import Any, Dict, List, Optional, Tuple

from . import common as C


class Check:
    pid = "C00"
    title = ""
    lean_modules: List[str] = []  # proof modules this property needs, e.g. ["Pacti.Props.C11"]
    theorems: List[str] = []  # property theorems audited with #print axioms
    gen_sources: List[str] = []  # repo files the translator reads for this property
    level = "proof"
    level_text = ""      # MANIFEST: what assurance this check gives
    technique = "Lean 4 theorems on an executable model + differential correspondence with the implementation; exact certified judge as failing-input search"
    trusted_base: List[str] = []
    assumptions: List[str] = []
    quick_n = 200
    thorough_n = 5000
    judge_sample = 40
    # which branches must be hit at least once (generator health); name -> min count
    min_branches: Dict[str, int] = {}

    # ---- to be provided ---------------------------------------------------------------------
    def corpus(self) -> List[dict]:
        p = os.path.join(C.VERIF, "corpus", self.pid)
        out = []
        if os.path.isdir(p):
            for f in sorted(os.listdir(p)):
                if f.endswith(".json"):
                    d = json.load(open(os.path.join(p, f)))
                    out.extend(d if isinstance(d, list) else [d])
        return out

    def generate(self, rng: random.Random, n: int, tier: str) -> List[dict]:
        raise NotImplementedError

    def run_impl(self, case: dict) -> dict:
        """run the real code; must return a JSON-able dict; exceptions -> {"err": kind}"""
        raise NotImplementedError

    def model_request(self, case: dict, impl: dict) -> Optional[dict]:
        """the driver request for this case (None = no model run for this case)"""
        raise NotImplementedError

    def compare(self, case: dict, impl: dict, model: dict) -> Optional[str]:
        """None if implementation and model agree, else a description"""
        raise NotImplementedError

    def judge(self, case: dict, impl: dict) -> Optional[dict]:
        """decide the property for the implementation's own result; None = holds, else
        {"signature":…, "what":…, "witness":…}"""
        return None

    def branch(self, case: dict, impl: dict, model: Optional[dict]) -> List[str]:
        return []

    def nontrivial(self, case: dict, impl: dict) -> bool:
        return True

    def extra(self, tier: str, rng: random.Random) -> Tuple[List[dict], dict]:
        """additional exhaustive / structural sub-checks: returns (violations, coverage-extras)"""
        return [], {}


_CHECK: Optional[Check] = None


def _init_worker(check: Check):
    global _CHECK
    _CHECK = check
    C.setup_pacti()


def _impl_worker(case: dict) -> dict:
    try:
        return _CHECK.run_impl(case)  # type: ignore
    except BaseException as e:  # noqa
        return {"err": C.classify_exc(e), "msg": str(e)[:300], "harness_trace": traceback.format_exc()[-1500:]}


def _judge_worker(args) -> Optional[dict]:
    case, impl = args
    try:
        return _CHECK.judge(case, impl)  # type: ignore
    except BaseException as e:  # noqa
        return {"signature": "judge-crash", "what": "judge crashed: " + repr(e), "witness": traceback.format_exc()[-1500:], "infra": True}


def pmap(check: Check, fn, items: List[Any], nproc: int = 16) -> List[Any]:
    if not items:
        return []
    if len(items) < 8 or nproc <= 1:
        _init_worker(check)
        return [fn(x) for x in items]
    ctx = mp.get_context("fork")
    with ctx.Pool(min(nproc, len(items)), initializer=_init_worker, initargs=(check,)) as pool:
        return pool.map(fn, items, chunksize=max(1, len(items) // (nproc * 8)))


def regen() -> Tuple[bool, str]:
    tr = os.path.join(C.VERIF, "tools", "py2lean.py")
    if not os.path.exists(tr):
        return True, ""
    rc, out = C.sh([sys.executable, tr], cwd=C.VERIF, timeout=300)
    return rc == 0, out


def run_check(check: Check, tier: str, replay: Optional[str] = None) -> int:
    t0 = time.time()
    seed = C.seed_from_env()
    rng = random.Random((hash(check.pid) & 0xFFFF) * 1000003 + seed)
    rng = random.Random(f"{check.pid}-{seed}")
    pid = check.pid
    notes: List[str] = []
    C.setup_pacti()

    # 1. regenerate + build ---------------------------------------------------------------------
    tr_ok, tr_out = regen()
    drv_ok, drv_out = C.lake_build(["pdriver"])
    proofs_ok, proofs_out = (True, "")
    if check.lean_modules:
        proofs_ok, proofs_out = C.lake_build(check.lean_modules)
    broken: List[str] = []
    if not tr_ok:
        broken.append("translator tools/py2lean.py failed on the current source: " + tr_out[-800:])
    # pieces whose source shape the translator no longer recognises keep their previous definition; if this check uses such a
    # piece its tie to the source is the behavioural one: a probe of the real function at the points that pin the definition down,
    # plus this run's correspondence.  A failing probe is a broken tie.
    tie_by_probe: Dict[str, str] = {}
    if tr_ok:
        kept = C.gen_status_kept()
        if kept:
            from . import gen_probes

            used = set(C.gen_pieces_used(check.lean_modules + list(getattr(check, "gen_deps", []))))
            for piece, why in sorted(kept.items()):
                if piece not in used:
                    continue
                msg = gen_probes.run_probe(piece)
                if msg is None:
                    tie_by_probe[piece] = why
                    print(f"NOTE: generated piece {piece} was not regenerated (source shape not recognised); its previous definition is kept and "
                          f"tied to the current source by a behavioural probe and this run's correspondence")
                else:
                    broken.append(f"generated piece {piece} could not be regenerated ({why[:200]}) and the current code no longer behaves as its kept definition says: {msg}")
    if not drv_ok:
        broken.append("model does not build (lake build pdriver): " + _first_error(drv_out))
    if not proofs_ok:
        broken.append("proof module does not check (lake build %s): %s" % (" ".join(check.lean_modules), _first_error(proofs_out)))

    # 2. audit -----------------------------------------------------------------------------------
    obligations = 0
    discharged = 0
    axioms: Dict[str, List[str]] = {}
    grep_hits = C.grep_audit()
    if grep_hits:
        print("INFRA: forbidden construct in Lean sources: %s" % grep_hits[:5])
        return 2
    if proofs_ok and check.lean_modules and check.theorems:
        axioms = C.axioms_of(check.lean_modules[-1], check.theorems)
        if "__error__" in axioms:
            broken.append("axiom audit failed: " + axioms["__error__"][0][-500:])
        obligations = len(check.theorems)
        for t in check.theorems:
            ax = axioms.get(t)
            if ax is None:
                broken.append(f"theorem {t} not found by #print axioms")
            elif not set(ax) <= C.ALLOWED_AXIOMS:
                print(f"INFRA: theorem {t} depends on axioms {ax}")
                return 2
            else:
                discharged += 1
    else:
        obligations = len(check.theorems)
    rechecked: List[str] = []
    if tier == "thorough" and proofs_ok and check.lean_modules:
        ok, out, rechecked = C.leanchecker(check.lean_modules)
        if not ok:
            broken.append("leanchecker rejects a compiled module: " + out[-800:])

    # 3. cases -----------------------------------------------------------------------------------
    n = check.quick_n if tier == "quick" else check.thorough_n
    if replay:
        rp = json.load(open(replay if os.path.isabs(replay) else os.path.join(C.VERIF, replay)))
        cases = [rp["case"]] if "case" in rp else []
        ncorpus = len(cases)
    else:
        corpus_cases = check.corpus()
        ncorpus = len(corpus_cases)
        cases = corpus_cases + check.generate(rng, n, tier)
    impls = pmap(check, _impl_worker, cases)
    for im in impls:
        if "harness_trace" in im and im.get("err", "").startswith("py:") and "harness/" in im["harness_trace"].split("\n")[-3:][0:1].__repr__():
            pass
    models: List[Optional[dict]] = [None] * len(cases)
    if drv_ok:
        reqs, idx = [], []
        for i, (c, im) in enumerate(zip(cases, impls)):
            r = check.model_request(c, im)
            if r is not None:
                reqs.append(r)
                idx.append(i)
        try:
            resps = C.run_driver(reqs, nproc=16)
        except C.DriverError as e:
            print("INFRA: " + str(e)[:2000])
            return 2
        for i, r in zip(idx, resps):
            models[i] = r

    # 4. compare -----------------------------------------------------------------------------------
    mismatches: List[int] = []
    tie_idx: List[int] = []
    stuck = 0
    tie_divergent = 0
    branches: Dict[str, int] = {}
    agree = 0
    for i, (c, im, mo) in enumerate(zip(cases, impls, models)):
        for b in check.branch(c, im, mo):
            branches[b] = branches.get(b, 0) + 1
        if mo is None:
            continue
        if "fatal" in mo:
            print("INFRA: driver rejected request: %s" % mo["fatal"])
            print(json.dumps(check.model_request(c, im))[:1500])
            return 2
        if mo.get("err") == "oracle-stuck" or mo.get("stuck"):
            stuck += 1
            continue
        d = check.compare(c, im, mo)
        if d is None:
            agree += 1
        elif d.startswith("STUCK:"):
            stuck += 1
        elif d.startswith("TIE:"):
            tie_divergent += 1
            tie_idx.append(i)
        else:
            mismatches.append(i)
            if len(mismatches) <= 3:
                notes.append(f"correspondence: case {i}: {d}")

    # 4b. float cancellation: a disagreement that disappears when every float that is within 1e-12 of a small rational
    # (1/12 written as 0.08333333333333333) is handed to the MODEL as that rational is an artefact of exact arithmetic on
    # rounded inputs (a coefficient that cancels to exactly 0.0 in floats keeps a 1e-17 residue exactly): tie-divergent, judged.
    if mismatches and drv_ok:
        rq, ridx = [], []
        for i in mismatches:
            try:
                c2 = rationalise(cases[i])
                r = check.model_request(c2, impls[i])
            except Exception:
                r = None
            if r is not None:
                rq.append(r)
                ridx.append((i, c2))
        try:
            rr = C.run_driver(rq, nproc=16) if rq else []
        except C.DriverError:
            rr = []
        still = []
        resolved = set()
        for (i, c2), mo2 in zip(ridx, rr):
            if "fatal" in mo2:
                continue
            try:
                d2 = check.compare(c2, impls[i], mo2)
            except Exception:
                d2 = "error"
            if d2 is None or (isinstance(d2, str) and d2.startswith("TIE:")):
                resolved.add(i)
        if resolved:
            mismatches = [i for i in mismatches if i not in resolved]
            tie_idx.extend(sorted(resolved))
            tie_divergent += len(resolved)
            notes[:] = [n_ for n_ in notes if not any(n_.startswith(f"correspondence: case {i}:") for i in resolved)]
            notes.append(f"{len(resolved)} disagreement(s) vanish when near-rational floats are given to the model as rationals (float cancellation): tie-divergent")

    # 5. judge -------------------------------------------------------------------------------------
    to_judge = set(mismatches) | set(tie_idx)
    if broken or mismatches or os.environ.get("VERIF_JUDGE_ALL"):
        to_judge = set(range(len(cases)))  # failing-input search over everything explored
    else:
        k = check.judge_sample if tier == "quick" else check.judge_sample * 10
        pool = list(range(len(cases)))
        rng.shuffle(pool)
        to_judge |= set(pool[:k]) | set(tie_idx) | set(range(min(ncorpus, len(cases))))
        # the bounded-exhaustive streams of the thorough tier are judged completely
        to_judge |= {i for i, c in enumerate(cases) if isinstance(c, dict) and c.get("tag") == "grid"}
    jl = sorted(to_judge)
    verdicts = pmap(check, _judge_worker, [(cases[i], impls[i]) for i in jl])
    violations: List[Tuple[int, dict]] = [(i, v) for i, v in zip(jl, verdicts) if v is not None]
    for i, v in violations:
        if v.get("infra"):
            print("INFRA: " + v["what"] + "\n" + str(v.get("witness")))
            return 2

    ex_viol, ex_cov = ([], {})
    if not replay:
        ex_viol, ex_cov = check.extra(tier, rng)
    for v in ex_viol:
        violations.append((-1, v))

    # 6. report ------------------------------------------------------------------------------------
    findings = [f for f in C.load_findings() if f.get("property") == pid and f.get("kind") == "known"]
    known_hit: Dict[str, int] = {}
    new_viol: List[Tuple[int, dict]] = []
    for i, v in violations:
        sig = v.get("signature", "")
        fk = next((f for f in findings if f.get("signature") == sig), None)
        if fk is not None:
            known_hit[sig] = known_hit.get(sig, 0) + 1
        else:
            new_viol.append((i, v))
    for f in findings:
        # a known finding is always announced (the defect is still in the tree), with the count seen in this run
        print(f"KNOWN-FINDING: property={pid} {f.get('signature')}: {f.get('what')} (seen {known_hit.get(f.get('signature'), 0)}x in this run)")

    exit_code = 0
    printed = False
    if new_viol:
        i, v = new_viol[0]
        payload = {"property": pid, "kind": "failing-input", "signature": v.get("signature"), "what": v.get("what"),
                   "witness": v.get("witness"), "case": cases[i] if i >= 0 else v.get("case"),
                   "impl": impls[i] if i >= 0 else None, "model": models[i] if i >= 0 else None,
                   "seed": seed, "tier": tier, "broken": broken, "replay_cmd": f"./check {pid} --replay <this file>"}
        path = C.write_replay(pid, payload)
        print(f"VIOLATION property={pid} replay={path}")
        print(f"  {v.get('signature')}: {v.get('what')}")
        # further, distinct findings of the same run: one replay each (still a single VIOLATION line)
        by_sig: Dict[str, List[Tuple[int, dict]]] = {}
        for i2, v2 in new_viol:
            by_sig.setdefault(str(v2.get("signature")), []).append((i2, v2))
        print(f"  ({len(by_sig[str(v.get('signature'))])} failing cases with this signature)")
        for sig, lst in by_sig.items():
            if sig == str(v.get("signature")):
                continue
            i2, v2 = lst[0]
            p2 = C.write_replay(pid, {"property": pid, "kind": "failing-input", "signature": sig, "what": v2.get("what"),
                                      "witness": v2.get("witness"), "case": cases[i2] if i2 >= 0 else v2.get("case"),
                                      "impl": impls[i2] if i2 >= 0 else None, "model": models[i2] if i2 >= 0 else None,
                                      "seed": seed, "tier": tier, "broken": broken, "replay_cmd": f"./check {pid} --replay <this file>"})
            print(f"  also: {sig}: {v2.get('what')} ({len(lst)} failing cases) replay={p2}")
        printed = True
        exit_code = 1
    elif broken or mismatches:
        what = broken[:] + notes
        i = mismatches[0] if mismatches else None
        payload = {"property": pid, "kind": "no-failing-input-found",
                   "no_longer_checks": (broken if broken else [f"correspondence op={check.pid}, first disagreeing case"]),
                   "notes": notes, "case": cases[i] if i is not None else None,
                   "impl": impls[i] if i is not None else None, "model": models[i] if i is not None else None,
                   "seed": seed, "tier": tier, "searched_cases": len(jl)}
        path = C.write_replay(pid, payload)
        print(f"VIOLATION property={pid} replay={path} no-failing-input-found")
        for w in what[:4]:
            print("  " + w[:600])
        exit_code = 1

    # generator health
    if not replay and exit_code == 0:
        for b, mn in check.min_branches.items():
            need = mn if tier == "quick" else mn
            if branches.get(b, 0) < need:
                print(f"INFRA: generator reached branch {b} only {branches.get(b, 0)} times (< {need})")
                exit_code = 2
        if len(cases) and tie_divergent > max(3, 0.05 * len(cases)):
            print(f"INFRA: {tie_divergent} tie-divergent cases of {len(cases)} (> 5%)")
            exit_code = 2
        if len(cases) and stuck > 0.02 * len(cases) + 2:
            print(f"INFRA: oracle stuck on {stuck} of {len(cases)} cases")
            exit_code = 2

    distinct = len({json.dumps(c, sort_keys=True) for c, im in zip(cases, impls) if check.nontrivial(c, im)})
    samples = []
    for i in range(min(3, len(cases))):
        samples.append({"case": cases[i], "impl": _trim(impls[i]), "model": _trim(models[i])})
    coverage = {
        "obligations": obligations,
        "discharged": discharged if proofs_ok else 0,
        "checker_cmd": "cd lean && lake build pdriver " + " ".join(check.lean_modules) + " && lake env lean <#print axioms …>" + ("; lake env leanchecker " + " ".join(rechecked) if rechecked else ""),
        "leanchecker_modules": rechecked,
        "generated_pieces_tied_by_probe": tie_by_probe,
        "trusted_base": check.trusted_base,
        "theorems": {t: axioms.get(t) for t in check.theorems},
        "evaluations": len(cases),
        "distinct_nontrivial": distinct,
        "rule": check.__doc__ or "",
        "samples": samples,
        "correspondence": {"cases": len(cases), "model_runs": sum(1 for m in models if m is not None), "agree": agree,
                           "mismatch": len(mismatches), "tie_divergent": tie_divergent, "oracle_stuck": stuck},
        "branches": branches,
        "judge_runs": len(jl),
        "judge_violations": len(violations),
        "known_findings_matched": known_hit,
        "broken": broken,
    }
    coverage.update(ex_cov)
    C.write_evidence(pid, tier, seed, check.level, coverage, time.time() - t0, len(new_viol) + (1 if (exit_code == 1 and not new_viol) else 0),
                     check.assumptions)
    print(f"[{pid}] tier={tier} seed={seed} cases={len(cases)} agree={agree} mismatch={len(mismatches)} tie_div={tie_divergent} "
          f"stuck={stuck} judged={len(jl)} violations={len(violations)} known={sum(known_hit.values())} "
          f"proofs={'ok' if proofs_ok else 'BROKEN'} theorems={discharged}/{obligations} wall={time.time()-t0:.1f}s exit={exit_code}")
    return exit_code


def rationalise(x: Any) -> Any:
    """floats within 1e-12 (relative) of a rational with denominator <= 10000 become that rational"""
    from fractions import Fraction

    if isinstance(x, bool):
        return x
    if isinstance(x, float):
        if x != x or x in (float("inf"), float("-inf")):
            return x
        f = Fraction(x).limit_denominator(10000)
        if abs(float(f) - x) <= 1e-12 * max(1.0, abs(x)):
            return f
        return x
    if isinstance(x, dict):
        return {k: rationalise(v) for k, v in x.items()}
    if isinstance(x, list):
        return [rationalise(v) for v in x]
    return x


def _trim(x: Any, n: int = 1200) -> Any:
    s = json.dumps(x, default=str)
    if len(s) <= n:
        return x
    return s[:n] + "…"


def _first_error(out: str) -> str:
    lines = out.splitlines()
    for i, l in enumerate(lines):
        if "error:" in l:
            return "\n".join(lines[i:i + 6])[:900]
    return out[-600:]
