"""C01: pairs of well-formed polyhedral contracts (independent, cascade in either call order, shared inputs, feedback
accepted and refused, multi-variable wirings, overlapping guarantees, a 6% stream of infeasible operands) x all
vars_to_keep subsets of the outputs (sampled) x simplify flag x tactics_order in every singleton, the default and
random permutations/subsets.  Non-trivial = the contracts are connected (some variable is eliminated)."""
from __future__ import annotations

import random
from typing import Optional

from .. import common as C
from .. import contracts as K
from .. import gen as G
from ..framework import Check


def rand_order(rng):
    r = rng.random()
    if r < 0.4:
        return [rng.randint(1, 5)]
    if r < 0.65:
        return [1, 2, 3, 4, 5]
    return rng.sample([1, 2, 3, 4, 5], rng.randint(1, 5))


class C01(Check):
    pid = "C01"
    title = "Composition returns a sound abstraction of the exact composition"
    level_text = ("Lean theorems compose_sound_poly_any_sound_table (composition of polyhedral contracts is sound for every wiring, kept set, flag and every tactic order, "
                  "for any tactic table sound on that order) and compose_sound_poly (the real table, EVERY tactic order: all six tactics are proved sound, C04), obtained by instantiating the generic "
                  "algebra theorem (C05, interface code regenerated from the source) with the proved specs of the polyhedral primitives (C04 loop soundness, C07 simplify, "
                  "C03 refines); whole-operation correspondence with PolyhedralIoContract.compose_tactics (result contract at 1e-9, interface order, error kind); the exact "
                  "certified judge re-checks the implementation's own result on a sample of every run.")
    lean_modules = ["Pacti.Props.C01"]
    theorems = ["Pacti.C01.compose_sound_poly_any_sound_table", "Pacti.C01.compose_sound_poly"]
    quick_n = 400
    thorough_n = 15000
    judge_sample = 120
    trusted_base = [
        "Lean 4.33 kernel; axioms ⊆ {propext, Classical.choice, Quot.sound}",
        "Model/Algebra.lean + generated Gen/Iface.lean, Model/Elim.lean, Model/Poly.lean tied to the code by this correspondence run",
        "HiGHS / sympy.solve are oracles (certificate-checked exact simplex; exact Gauss-Jordan)",
        "all six tactics are modelled and proved sound (C04.driver_tactics_sound); what sympy.solve returns for a singular system is not modelled (the model abstains there: oracle-stuck, counted)",
    ]
    assumptions = ["floats denote exact rationals; numeric reading of the property (box 1000, 1e-4 relative, 1e-7 slack on negative hypotheses)"]
    min_branches = {"ok": 150, "IncompatibleArgsError": 20, "connected": 150, "w:feedback": 10, "w:cascade-rev": 10}

    def generate(self, rng, n, tier):
        out = []
        for _ in range(n):
            c1, c2, w = K.gen_pair(rng)
            outs = c1["outs"] + [v for v in c2["outs"] if v not in c1["outs"]]
            keep = [v for v in outs if rng.random() < 0.3]
            if rng.random() < 0.04:
                keep.append(rng.choice(c1["ins"] or ["zz"]))
            out.append({"op": "compose", "c1": c1, "c2": c2, "keep": keep, "simplify": rng.random() < 0.6, "order": rand_order(rng), "w": w})
        # twins: two consecutive compositions whose operands PRINT alike (the producer's coefficient differs beyond the fourth
        # significant digit).  Consecutive cases run in the same worker process: anything carried over from the first call (a memo
        # keyed on the printed form, a mutated default) shows in the second, whose composite assumption must use ITS coefficient.
        for _ in range(max(10, n // 30)):
            base = round(rng.uniform(1.1, 2.9), 3)
            kk = float(rng.choice([100, 300, 500]))
            for cc in (base + 0.0001, base + 0.0004):
                prod = {"ins": ["x"], "outs": ["u"], "a": [], "g": [{"c": {"u": 1.0, "x": -cc}, "k": 0.0}]}
                cons = {"ins": ["u"], "outs": ["o"], "a": [{"c": {"u": 1.0}, "k": kk}], "g": [{"c": {"o": 1.0, "u": -1.0}, "k": 0.0}]}
                out.append({"op": "compose", "c1": prod, "c2": cons, "keep": [], "simplify": True, "order": [1, 2, 3, 4, 5], "w": "twin"})
        return out

    def run_impl(self, case):
        return K.run_op(case)

    def model_request(self, case, impl):
        if impl.get("stage") == "operands":
            return None
        return K.model_req(case, impl)

    def compare(self, case, impl, model):
        return K.compare_contract_result(impl, model, K.case_vm(case))

    def judge(self, case, impl):
        if "err" in impl:
            if impl["err"] not in ("IncompatibleArgsError", "ValueError"):
                return {"signature": "compose:undocumented-exception:" + impl["err"], "what": str(impl)[:300], "witness": case}
            return None
        c = impl["ok"]
        bad = K.judge_sound(c["a"], [case["c1"], case["c2"]], case["c1"]["a"] + case["c2"]["a"] + c["g"])
        if bad:
            used = sorted(set(k for lst in impl.get("tactics", []) for k in lst if k > 0))
            return {"signature": f"compose:unsound:tactics={used}", "what": f"composition is not a sound abstraction: {bad['goal']} fails where the result's assumptions hold and both operands honour their contracts",
                    "witness": bad}
        return None

    def branch(self, case, impl, model):
        b = [impl.get("err", "ok"), "w:" + case["w"]]
        c1, c2 = case["c1"], case["c2"]
        if (set(c1["outs"]) & set(c2["ins"])) or (set(c2["outs"]) & set(c1["ins"])):
            b.append("connected")
        for lst in impl.get("tactics", []):
            for k in set(lst):
                b.append(f"tactic{k}")
        return b

    def nontrivial(self, case, impl):
        c1, c2 = case["c1"], case["c2"]
        return bool((set(c1["outs"]) & set(c2["ins"])) or (set(c2["outs"]) & set(c1["ins"])))


CHECK = C01()
