"""C06: same symbolic cases as C05 plus constructor, rename, copy and refines cases; every returned contract is checked
for well-formedness and its interface compared (as sets) with the interface PRESCRIBED IN THE PROPERTY TEXT, written
here as an executable specification independent of the Lean model; every meaningless request must raise
IncompatibleArgsError.  Topologies: every assignment of roles to <= 2 variables exhaustively in quick (<= 3 in
thorough, and <= 5 with all keep / additional subsets in the thorough `extra` enumeration), random up to 6.
Non-trivial = at least one variable has a role in both contracts or the case is a rejection."""
from __future__ import annotations

import itertools
import random
from typing import List, Optional

from .. import common as C
from ..framework import Check
from . import c05 as A


def spec_wf(c: dict) -> Optional[str]:
    ins, outs = c["ins"], c["outs"]
    if len(set(ins)) != len(ins) or len(set(outs)) != len(outs):
        return "duplicate interface variable"
    if set(ins) & set(outs):
        return "variable both input and output"
    for t in c["a"]:
        if not set(t["v"]) <= set(ins):
            return f"assumption {t['n']} mentions a non-input"
    for t in c["g"]:
        if not set(t["v"]) <= set(ins) | set(outs):
            return f"guarantee {t['n']} mentions a variable outside the interface"
    return None


def prescribed(case: dict):
    """(must_reject, ins, outs) from the property text"""
    op = case["op"]
    c1, c2 = case["c1"], case["c2"]
    i1, o1, i2, o2 = set(c1["ins"]), set(c1["outs"]), set(c2["ins"]), set(c2["outs"])
    if op == "compose":
        keep = set(case["keep"])
        a1v = set(v for t in c1["a"] for v in t["v"])
        a2v = set(v for t in c2["a"] for v in t["v"])
        rej = bool(o1 & o2) or not keep <= (o1 | o2)
        feedback = bool(i1 & o2) and bool(i2 & o1)
        rej = rej or (feedback and (bool(o2 & a1v) or bool(o1 & a2v)))
        ins = (i1 | i2) - (o1 | o2)
        outs = ((o1 | o2) - (i1 | i2)) | keep
        return rej, ins, outs
    if op == "quotient":
        addl = set(case["addl"])
        rej = bool((o1 - o2) & i2) or not addl <= (i1 | o2)
        ins = (i1 - i2) | (o2 - o1) | addl
        outs = (o1 - o2) | (i2 - i1)
        return rej, ins, outs
    if op == "merge":
        return False, i1 | i2, o1 | o2
    if op == "ctor":
        return spec_wf(c1) is not None, i1, o1
    if op == "rename":
        s, t = case["src"], case["dst"]
        if s == t or (s not in i1 and s not in o1):
            return False, i1, o1
        if s in i1:
            return t in o1, (i1 - {s}) | {t}, o1
        return t in i1, i1, (o1 - {s}) | {t}
    if op == "copy":
        return False, i1, o1
    if op == "refines":
        return (i1 != i2 or o1 != o2), None, None
    raise ValueError(op)


class C06(Check):
    pid = "C06"
    title = "Results are well formed with the prescribed interface; bad interfaces rejected"
    level_text = ("Lean theorems mkContract_ok_wf / mkContract_rejects / compose_iface / compose_rejects / quotient_iface / quotient_rejects / merge_iface / "
                  "refines_rejects / rename_iface_in/out / rename_rejects / rename_absent / copy_iface, proved against the interface and decision definitions "
                  "REGENERATED from iocontract.py and lists.py on every run (unbounded in the number of variables); behavioural correspondence of the whole operations on "
                  "symbolic term lists; failing-input search against the interface prescribed in the property text, exhaustively over role assignments.")
    lean_modules = ["Pacti.Props.C06"]
    theorems = ["Pacti.C06.mkContract_ok_wf", "Pacti.C06.mkContract_rejects", "Pacti.C06.compose_iface", "Pacti.C06.compose_rejects",
                "Pacti.C06.quotient_iface", "Pacti.C06.quotient_rejects", "Pacti.C06.merge_iface", "Pacti.C06.refines_rejects",
                "Pacti.C06.copy_iface", "Pacti.C06.rename_rejects", "Pacti.C06.rename_iface_in", "Pacti.C06.rename_iface_out",
                "Pacti.C06.rename_absent", "Pacti.C06.init_rejects_iff"]
    quick_n = 4000
    thorough_n = 100000
    judge_sample = 4000
    trusted_base = A.C05.trusted_base
    assumptions = ["simplify returns a selection of its operand (SimpSelects; proved for the polyhedral simplify in C07)"]
    min_branches = {"reject": 300, "ok:compose": 100, "ok:quotient": 100, "ok:merge": 100, "ok:rename": 100, "ok:ctor": 5, "refines": 50}

    def generate(self, rng, n, tier):
        out = []
        maxn = 2 if tier == "quick" else 3
        for k in range(1, maxn + 1):
            for roles in itertools.product([a + b for a in A.ROLES for b in A.ROLES], repeat=k):
                for op in ("compose", "quotient", "merge"):
                    c = A.gen_case(rng, list(roles), op)
                    c["script"] = {}
                    out.append(c)
        while len(out) < n:
            k = rng.randint(2, 6)
            roles = [rng.choice(A.ROLES) + rng.choice(A.ROLES) for _ in range(k)]
            r = rng.random()
            if r < 0.45:
                c = A.gen_case(rng, roles, malformed=rng.random() < 0.15)
                # scripts that keep terms inside the interface (identity / filter / drop): WF is then demanded
                c["script"] = {s: rng.choice(["id", "filter"]) for s in A.SITES[c["op"]] if s not in ("simpA", "ctor", "qRef")}
            elif r < 0.8:
                c = A.gen_case(rng, roles, "merge")
                c["op"] = "rename" if rng.random() < 0.8 else "copy"
                c["script"] = {}
                allv = list(range(1, k + 2))   # k+1 is fresh
                c["src"] = rng.choice(allv)
                c["dst"] = rng.choice(allv)
            else:
                c = A.gen_case(rng, roles, "merge")
                c["op"] = "refines"
                c["script"] = {"user": rng.choice(["yes", "no"])}
                m = rng.random()
                if m < 0.5:
                    c["c2"]["ins"], c["c2"]["outs"] = list(c["c1"]["ins"]), list(c["c1"]["outs"])
                    if m < 0.25:
                        rng.shuffle(c["c2"]["ins"])
                        rng.shuffle(c["c2"]["outs"])
                    c["c2"]["a"] = [{"n": "b0", "v": c["c2"]["ins"][:1]}]
                    c["c2"]["g"] = [{"n": "h0", "v": (c["c2"]["ins"] + c["c2"]["outs"])[:2]}]
            out.append(c)
        return out

    def run_impl(self, case):
        from .. import sym_termlist as S
        from pacti.iocontract import Var

        op = case["op"]
        S.SESSION = S.Session(op if op in ("compose", "quotient") else "other", case["script"])
        if op in ("compose", "quotient", "merge", "ctor"):
            _, _, r = A.run_sym(case, S.ScriptedTL)
            return {"ok": S.un_sym_contract(r)}
        c1 = S.mk_sym_contract(S.ScriptedTL, case["c1"])
        if op in ("rename", "copy"):
            # the contract the method is called on must come out of the call as it went in (its interface lists are what a
            # careless in-place rename would edit: the receiver would then be ill formed, its constraints keeping the old name)
            before = S.un_sym_contract(c1)
            try:
                r = c1.rename_variable(Var(str(case["src"])), Var(str(case["dst"]))) if op == "rename" else c1.copy()
            finally:
                after = S.un_sym_contract(c1)
            try:
                again = S.un_sym_contract(c1.copy())   # and must still be usable
                usable = again == before
            except Exception as e:  # noqa: BLE001
                usable = f"{type(e).__name__}: {e}"
            return {"ok": S.un_sym_contract(r), "recv_same": before == after, "recv_usable": usable}
        c2 = S.mk_sym_contract(S.ScriptedTL, case["c2"])
        return {"ok": bool(c1.refines(c2))}

    def model_request(self, case, impl):
        op = case["op"]
        req = {"op": "sym_" + ("ctor" if op == "copy" else op), "c1": case["c1"], "c2": case["c2"], "keep": case.get("keep", []),
               "addl": case.get("addl", []), "simplify": True if op == "copy" else case["simplify"], "order": case["order"], "script": case["script"]}
        if op == "rename":
            req.update(src=case["src"], dst=case["dst"])
        return req

    def compare(self, case, impl, model):
        if "err" in impl or "err" in model:
            return None if impl.get("err") == model.get("err") else f"impl {impl.get('err', 'ok')} vs model {model.get('err', 'ok')}"
        return None if impl["ok"] == model["ok"] else f"impl {impl['ok']} vs model {model['ok']}"

    def judge(self, case, impl):
        op = case["op"]
        # operands must themselves be well formed for the prescriptions to apply (except for ctor)
        if op != "ctor" and (spec_wf(case["c1"]) or (op not in ("rename", "copy") and spec_wf(case["c2"]))):
            return None
        rej, ins, outs = prescribed(case)
        if rej:
            if impl.get("err") != "IncompatibleArgsError":
                return {"signature": f"iface:{op}-not-rejected", "what": f"meaningless {op} request was not refused with IncompatibleArgsError: {str(impl)[:200]}", "witness": case}
            return None
        if "err" in impl:
            if impl["err"] in ("IncompatibleArgsError",) and op in ("merge", "copy", "refines", "rename"):
                # merge of well-formed operands may still be ill formed (an input of one is an output of the other): allowed rejection
                if op == "merge" or op == "rename":
                    i1, o1, i2, o2 = set(case["c1"]["ins"]), set(case["c1"]["outs"]), set(case["c2"]["ins"]), set(case["c2"]["outs"])
                    if op == "merge" and ((i1 | i2) & (o1 | o2)):
                        return None
                    if op == "rename":
                        return {"signature": "iface:rename-rejected", "what": "legal renaming refused", "witness": case}
                return {"signature": f"iface:{op}-rejected", "what": f"legal {op} refused: {impl}", "witness": case}
            return None  # conflict variables / scripted failures: refusal is allowed
        if op == "refines":
            return None
        if impl.get("recv_same") is False or impl.get("recv_usable", True) is not True:
            return {"signature": f"iface:{op}-damages-receiver", "what": f"after {op} the contract it was called on is no longer the well-formed contract it was (same: {impl.get('recv_same')}, copy() afterwards: {impl.get('recv_usable')})", "witness": case}
        r = impl["ok"]
        bad = spec_wf(r)
        if bad:
            return {"signature": f"iface:{op}-ill-formed-result", "what": bad, "witness": {"case": case, "result": r}}
        if set(r["ins"]) != ins or set(r["outs"]) != outs:
            return {"signature": f"iface:{op}-wrong-interface", "what": f"interface {r['ins']}/{r['outs']} but the algebra prescribes {sorted(ins)}/{sorted(outs)}",
                    "witness": case}
        return None

    def branch(self, case, impl, model):
        try:
            rej = prescribed(case)[0]
        except Exception:
            rej = False
        b = []
        if rej:
            b.append("reject")
        elif "ok" in impl:
            b.append("ok:" + case["op"])
        if case["op"] == "refines":
            b.append("refines")
        return b

    def nontrivial(self, case, impl):
        return True

    def extra(self, tier, rng):
        """exhaustive role assignments x all keep/additional subsets, directly on the implementation against the prescribed interface"""
        from .. import sym_termlist as S

        maxn = 3 if tier == "quick" else 4
        viol, count = [], 0
        for k in range(1, maxn + 1):
            for roles in itertools.product([a + b for a in A.ROLES for b in A.ROLES], repeat=k):
                base = A.gen_case(rng, list(roles), "merge")
                allv = list(range(1, k + 1))
                subsets = [list(s) for r in range(0, k + 1) for s in itertools.combinations(allv, r)]
                if len(subsets) > 8:
                    subsets = subsets[:4] + rng.sample(subsets[4:], 4)
                for op in ("compose", "quotient", "merge"):
                    for sub in (subsets if op != "merge" else [[]]):
                        case = dict(base, op=op, keep=sub, addl=sub, script={}, simplify=True, order=[])
                        count += 1
                        try:
                            S.SESSION = S.Session(op, {})
                            _, _, r = A.run_sym(case, S.ScriptedTL)
                            impl = {"ok": S.un_sym_contract(r)}
                        except Exception as e:
                            impl = {"err": C.classify_exc(e)}
                        v = self.judge(case, impl)
                        if v is not None and len(viol) < 3:
                            v["case"] = case
                            viol.append(v)
        return viol, {"exhaustive_topologies": {"max_vars": maxn, "cases": count}, "exhaustive": False}


CHECK = C06()
