"""C17: compound (disjunctive) contracts with 1-3 alternatives per side over <= 4 variables.  Alternatives are slabs
lo <= d.x <= hi along a random direction d (consecutive slabs disjoint by a margin >= 1e-3, touching = sharing exactly a
boundary, or overlapping), times shared constraints on the other variables, plus infeasible alternatives, alternatives
with no rows and unstructured random alternatives.  Streams: (from) PolyhedralIoContractCompound.from_strings / direct
NestedPolyhedra + constructor; (merge) two such contracts merged; (nested) the NestedPolyhedra constructor with and
without force_empty_intersection; (intersect) NestedTermList.intersect; (contains) contains_behavior on boundary /
2^-20 inside / 2^-20 outside dyadic points, with missing and extra variables and order-dependent cases; (le) `<=` on
widened, permuted, shrunk, unrelated unions, a left alternative covered only by the union of two right ones, empty
sides, tolerance-band cases.  A separate malformed stream breaks the interface.  Non-trivial = >= 2 alternatives in
play."""
from __future__ import annotations

import random
from fractions import Fraction
from typing import Dict, List, Optional, Tuple

from .. import common as C
from .. import gen as G
from .. import judge as J
from ..framework import Check

VS = ["a", "b", "c", "d"]
DY = [-2.0, -1.0, -0.5, 0.5, 1.0, 2.0]
FRONTIER_CAP = 4000


# ------------------------------------------------------------------------------------------------
# building blocks of the generator


def _neg(d: Dict[str, float]) -> Dict[str, float]:
    return {v: -c for v, c in d.items()}


def direction(rng: random.Random, vs: List[str], dyadic: bool = False) -> Dict[str, float]:
    k = 1 if (len(vs) == 1 or rng.random() < 0.6) else 2
    chosen = rng.sample(vs, k)
    return {v: float(rng.choice(DY if dyadic else G.SMALL)) for v in chosen}


def slab(d: Dict[str, float], lo: Optional[float], hi: Optional[float]) -> List[dict]:
    out = []
    if hi is not None:
        out.append({"c": dict(d), "k": float(hi)})
    if lo is not None:
        out.append({"c": _neg(d), "k": float(-lo)})
    return out


def _f(n: int, den: int) -> float:
    """thresholds are integers over `den` (1000, or 1024 for dyadic data): two thresholds are equal or >= 1/den apart,
    and equal ones are the same float"""
    return float(Fraction(n, den))


def chain(rng: random.Random, d: Dict[str, float], n: int, weights, den: int, start: Optional[int] = None,
          open_ends: bool = True) -> Tuple[List[List[dict]], str]:
    """n slabs along d; relation of consecutive slabs drawn with `weights` over (disjoint, touching, overlapping)"""
    cur = rng.randint(-4, 1) * den if start is None else start
    alts, rels = [], []
    for i in range(n):
        w = rng.choice([den // 2, den, 2 * den])
        lo, hi = cur, cur + w
        olo = open_ends and i == 0 and rng.random() < 0.25
        ohi = open_ends and i == n - 1 and rng.random() < 0.25
        alts.append(slab(d, None if olo else _f(lo, den), None if ohi else _f(hi, den)))
        if i < n - 1:
            rel = rng.choices(["disjoint", "touching", "overlapping"], weights=weights)[0]
            rels.append(rel)
            if rel == "disjoint":
                cur = hi + rng.choice([1, den // 2, den])
            elif rel == "touching":
                cur = hi
            else:
                cur = hi - rng.choice([1, den // 4, w // 2])
    tag = "overlapping" if "overlapping" in rels else ("touching" if "touching" in rels else "disjoint")
    return alts, tag


def extras(rng: random.Random, vs: List[str], d: Dict[str, float], dyadic: bool = False) -> List[dict]:
    """shared constraints on the variables the direction does not use (keeps the slab relations as generated)"""
    other = [v for v in vs if v not in d]
    if not other or rng.random() < 0.35:
        return []
    pt = {v: float(rng.randint(-2, 2)) for v in other}
    return G.feasible_tl(rng, other, rng.randint(1, 2), point=pt, coeffs=DY if dyadic else None)


def infeasible_alt(rng: random.Random, vs: List[str], den: int, dyadic: bool = False) -> List[dict]:
    d = direction(rng, vs, dyadic)
    k = rng.randint(-2, 2) * den
    return slab(d, _f(k + rng.choice([1, den]), den), _f(k, den))


def nested(rng: random.Random, vs: List[str], n: int, weights, dyadic: bool = False,
           d: Optional[Dict[str, float]] = None, start: Optional[int] = None, specials: bool = True) -> Tuple[List[List[dict]], str]:
    """a list of n alternatives over vs and a tag describing how the feasible ones relate"""
    if not vs:
        return ([[]] if rng.random() < 0.5 else []), "novars"
    if specials and rng.random() < 0.1:
        # unstructured
        alts = []
        for _ in range(n):
            alts.append(G.feasible_tl(rng, vs, rng.randint(1, 3), coeffs=DY if dyadic else None) if rng.random() < 0.7
                        else G.rtl(rng, vs, rng.randint(1, 3), coeffs=DY if dyadic else None))
        return alts, "random"
    den = 1024 if dyadic else 1000
    d = d or direction(rng, vs, dyadic)
    alts, tag = chain(rng, d, n, weights, den, start=start)
    ex = extras(rng, vs, d, dyadic)
    alts = [a + [dict(c=dict(t["c"]), k=t["k"]) for t in ex] for a in alts]
    if rng.random() < 0.3:
        rng.shuffle(alts)
    if specials and rng.random() < 0.15:
        alts.insert(rng.randint(0, len(alts)), infeasible_alt(rng, vs, den, dyadic))
        if len(alts) > 3:
            alts.pop(rng.randint(0, len(alts) - 1))
        tag += "+empty"
    if specials and rng.random() < 0.04:
        alts[rng.randint(0, len(alts) - 1)] = []
        tag += "+norows"
    return alts, tag


def contract(rng: random.Random, ins: List[str], outs: List[str], d_a=None, d_g=None, start=None) -> dict:
    valid = rng.random() < 0.7
    a, ta = nested(rng, ins, rng.randint(1, 3), [1, 0, 0] if valid else [2, 3, 2], d=d_a, start=start)
    g, tg = nested(rng, ins + outs, rng.randint(1, 3), [1, 1, 1], d=d_g)
    return {"a": a, "g": g, "ins": list(ins), "outs": list(outs), "tag_a": ta, "tag_g": tg}


def malform(rng: random.Random, c: dict) -> dict:
    c = dict(c)
    m = rng.random()
    allv = c["ins"] + c["outs"]
    if m < 0.25 and c["ins"]:
        c["ins"] = c["ins"] + [c["ins"][0]]
    elif m < 0.45 and c["outs"]:
        c["outs"] = c["outs"] + [c["outs"][-1]]
    elif m < 0.65 and c["ins"]:
        c["outs"] = c["outs"] + [c["ins"][0]]
    elif m < 0.85 and c["outs"]:
        # an assumption that talks about an output
        c["a"] = [alt + [{"c": {c["outs"][0]: 1.0}, "k": 3.0}] for alt in c["a"]] or [[{"c": {c["outs"][0]: 1.0}, "k": 3.0}]]
    else:
        c["g"] = [alt + [{"c": {"zz": 1.0}, "k": 3.0}] for alt in c["g"]] or [[{"c": {"zz": 1.0}, "k": 3.0}]]
    c["malformed"] = True
    return c


def split_vars(rng: random.Random) -> Tuple[List[str], List[str]]:
    vs = VS[: rng.randint(1, 4)]
    k = rng.randint(1, len(vs))
    return vs[:k], vs[k:]


# ------------------------------------------------------------------------------------------------
# strings accepted by the parser: unsigned decimal / exponent numbers, sign as a separate symbol, `*` always


def _num(x: float) -> str:
    return repr(abs(float(x)))


def render(t: dict) -> str:
    parts = []
    for i, (v, c) in enumerate(t["c"].items()):
        s = _num(c) + "*" + v
        if i == 0:
            parts.append(("-" if c < 0 else "") + s)
        else:
            parts.append((" - " if c < 0 else " + ") + s)
    k = float(t["k"])
    return "".join(parts) + " <= " + ("-" if k < 0 else "") + _num(k)


def stringable(c: dict) -> bool:
    return all(t["c"] for side in (c["a"], c["g"]) for alt in side for t in alt)


# ------------------------------------------------------------------------------------------------
# implementation side


def _mk_nested(alts: List[List[dict]], force: bool):
    from pacti.contracts.polyhedral_iocontract import NestedPolyhedra

    return NestedPolyhedra([G.mk_tl(a) for a in alts], force_empty_intersection=force)


def _un_nested(n) -> List[List[dict]]:
    return [G.un_tl(tl) for tl in n.nested_termlist]


def _build(c: dict, via: str):
    from pacti.contracts.polyhedral_iocontract import PolyhedralIoContractCompound
    from pacti.iocontract import Var

    if via == "strings":
        return PolyhedralIoContractCompound.from_strings(
            assumptions=[[render(t) for t in alt] for alt in c["a"]], guarantees=[[render(t) for t in alt] for alt in c["g"]],
            input_vars=list(c["ins"]), output_vars=list(c["outs"]))
    cls = PolyhedralIoContractCompound
    if via == "generic":
        from pacti.iocontract.compundiocontract import IoContractCompound as cls  # the base class, no polyhedral wrapper
    return cls(assumptions=_mk_nested(c["a"], True), guarantees=_mk_nested(c["g"], False),
               input_vars=[Var(x) for x in c["ins"]], output_vars=[Var(x) for x in c["outs"]])


def _un_cc(c) -> dict:
    return {"a": _un_nested(c.a), "g": _un_nested(c.g), "ins": [str(x) for x in c.inputvars], "outs": [str(x) for x in c.outputvars]}


# ------------------------------------------------------------------------------------------------
# exact judge helpers (certified LP through the driver, batched: one driver call per step)


def _names(*tls: List[dict]) -> List[str]:
    return G.names_of(*tls)


def feas_batch(problems: List[List[dict]], box: Optional[int] = None) -> List[Tuple[Optional[bool], Optional[Dict[str, Fraction]]]]:
    if not problems:
        return []
    names = sorted({v for p in problems for t in p for v in t["c"]} | {"a"})
    vm = C.VarMap(names)
    probs = []
    for p in problems:
        cs = list(p)
        if box is not None:
            cs = cs + G.box_tl(names, -box, box)
        probs.append(({}, cs))
    out = []
    for r in J.lp_batch(probs, vm):
        if r["status"] == "optimal":
            pt = {n: Fraction(0) for n in names}
            for x, c in r["x"]:
                pt[vm.n(int(x))] = Fraction(c)
            out.append((True, pt))
        elif r["status"] == "infeasible":
            out.append((False, None))
        elif r["status"] == "unbounded":
            out.append((True, None))
        else:
            out.append((None, None))
    return out


def _slack(t: dict) -> Fraction:
    return J.TOL * (1 + abs(C.q(t["k"])))


def relax(tl: List[dict]) -> List[dict]:
    return [{"c": t["c"], "k": C.q(t["k"]) + _slack(t)} for t in tl]


def holds_pt(tl: List[dict], pt: Dict[str, Fraction], tol: bool = False) -> bool:
    return all(sum(C.q(c) * pt.get(v, Fraction(0)) for v, c in t["c"].items()) <= C.q(t["k"]) + (_slack(t) if tol else 0) for t in tl)


def uncovered_many(queries: List[Tuple[List[dict], List[List[dict]]]]) -> List[Optional[Dict[str, Fraction]]]:
    """for each (P, [Q1..Qm]): a point of P (inside the box) that violates, for every Qi, some row of Qi by more than
    1e-4*(1+|k|); None if there is none (P is inside the union up to the numeric reading).
    All queries advance in lock-step so that each step is one batched driver call."""
    res: List[Optional[Dict[str, Fraction]]] = [None] * len(queries)
    fr0 = feas_batch([P for P, _ in queries], box=J.BOX)
    frontier: List[List[Tuple[List[dict], Optional[Dict[str, Fraction]]]]] = []
    for (P, Qs), (f, pt) in zip(queries, fr0):
        if f is None:
            raise RuntimeError("judge LP stuck")
        frontier.append([(list(P), pt)] if f else [])
    depth = max((len(Qs) for _, Qs in queries), default=0)
    for step in range(depth):
        children: List[Tuple[int, List[dict]]] = []
        for qi, (P, Qs) in enumerate(queries):
            if step >= len(Qs):
                continue
            Q = Qs[step]
            for piece, _ in frontier[qi]:
                for j, t in enumerate(Q):
                    children.append((qi, piece + Q[:j] + [J.neg_term(t, _slack(t) * Fraction(101, 100))]))
            frontier[qi] = []
        if len(children) > FRONTIER_CAP:
            raise RuntimeError("judge frontier too large")
        fr = feas_batch([c for _, c in children], box=J.BOX)
        for (qi, piece), (f, pt) in zip(children, fr):
            if f is None:
                raise RuntimeError("judge LP stuck")
            if f:
                frontier[qi].append((piece, pt))
    for qi, (P, Qs) in enumerate(queries):
        if frontier[qi]:
            pt = frontier[qi][0][1]
            # independent re-evaluation of the witness with Fractions
            assert pt is not None and holds_pt(P, pt) and all(not holds_pt(Q, pt, tol=True) for Q in Qs), "judge witness does not re-evaluate"
            res[qi] = pt
    return res


def iface_ok(c: dict) -> bool:
    ins, outs = c["ins"], c["outs"]
    if len(set(ins)) != len(ins) or len(set(outs)) != len(outs) or set(ins) & set(outs):
        return False
    av = {v for alt in c["a"] for t in alt for v in t["c"]}
    gv = {v for alt in c["g"] for t in alt for v in t["c"]}
    return av <= set(ins) and gv <= set(ins) | set(outs)


def same_alts(x: List[List[dict]], y: List[List[dict]]) -> bool:
    return len(x) == len(y) and all(len(p) == len(q) and all(G.mk_key(s) == G.mk_key(t) for s, t in zip(p, q)) for p, q in zip(x, y))


def tl_union(a: List[dict], b: List[dict]) -> List[dict]:
    out = list(a)
    for t in b:
        if not any(G.mk_key(t) == G.mk_key(u) for u in a):
            out.append(t)
    return out


def share_status(alts: List[List[dict]]) -> Tuple[Optional[Tuple[int, int, dict]], bool]:
    """(a pair i<j sharing a behaviour exactly inside the box, with the point | None,
        True if no pair shares a behaviour even after relaxing every row by the tolerance)"""
    pairs = [(i, j) for i in range(len(alts)) for j in range(len(alts)) if j > i]
    ex = feas_batch([alts[i] + alts[j] for i, j in pairs], box=J.BOX)
    rx = feas_batch([relax(alts[i] + alts[j]) for i, j in pairs])
    shared = None
    for (i, j), (f, pt) in zip(pairs, ex):
        if f:
            shared = (i, j, pt or {})
            break
    return shared, not any(f is not False for f, _ in rx)


def judge_disjoint(alts: List[List[dict]], accepted: bool, what: str) -> Optional[dict]:
    shared, surely_disjoint = share_status(alts)
    if shared is not None and accepted:
        i, j, pt = shared
        return {"signature": "overlap:accepted", "what": f"{what}: alternatives {i} and {j} share a behaviour but were accepted with force_empty_intersection",
                "witness": {"i": i, "j": j, "point": J.pt_str(pt)}}
    if surely_disjoint and not accepted:
        return {"signature": "overlap:disjoint-rejected", "what": f"{what}: rejected although no two alternatives share a behaviour (even with every row relaxed by the tolerance)",
                "witness": {"alts": alts}}
    return None


def judge_intersection(n1: List[List[dict]], n2: List[List[dict]], res: List[List[dict]], what: str) -> Optional[dict]:
    """union(res) == union(n1) ∩ union(n2), no infeasible alternative kept"""
    fe = feas_batch([relax(r) for r in res])
    for k, (f, _) in enumerate(fe):
        if f is False:
            return {"signature": "intersect:empty-alternative-kept", "what": f"{what}: alternative {k} of the result is unsatisfiable", "witness": {"alt": res[k]}}
    cells = [tl_union(s, o) for s in n1 for o in n2]
    queries = [(c, res) for c in cells] + [(r, n1) for r in res] + [(r, n2) for r in res]
    un = uncovered_many(queries)
    for k, pt in enumerate(un[: len(cells)]):
        if pt is not None:
            return {"signature": "intersect:behaviour-lost", "what": f"{what}: a behaviour common to an alternative of each operand is in no alternative of the result",
                    "witness": {"cell": k, "point": J.pt_str(pt)}}
    for k, pt in enumerate(un[len(cells):]):
        if pt is not None:
            return {"signature": "intersect:behaviour-added", "what": f"{what}: an alternative of the result contains a behaviour outside one operand's union",
                    "witness": {"alt": k % max(1, len(res)), "operand": 1 + k // max(1, len(res)), "point": J.pt_str(pt)}}
    return None


def judge_from(c: dict, impl_ok: Optional[dict], impl_err: Optional[str], what: str) -> Optional[dict]:
    if impl_err is not None and impl_err not in C.DOCUMENTED:
        return {"signature": "undocumented-exception:" + impl_err, "what": what, "witness": c}
    if not iface_ok(c):
        return None  # interface validation is not this property's business (only: no undocumented exception)
    if impl_err is not None and impl_err != "ValueError":
        return {"signature": "overlap:wrong-error-kind", "what": f"{what}: {impl_err}", "witness": c}
    v = judge_disjoint(c["a"], impl_err is None, what + " assumptions")
    if v:
        return v
    if impl_ok is not None:
        if not same_alts(impl_ok["a"], c["a"]) or not same_alts(impl_ok["g"], c["g"]):
            return {"signature": "constructor:alternatives-changed", "what": what + ": stored alternatives differ from the ones given", "witness": {"given": c, "stored": impl_ok}}
    return None


# ------------------------------------------------------------------------------------------------


class C17(Check):
    pid = "C17"
    title = "Compound (disjunctive) contracts behave as unions of polyhedra"
    level_text = ('Lean theorems nested_contains(+_false,_error,_error_first) / intersect_sem / intersect_no_empty / intersect_alternatives / '
                  'intersect_forced_disjoint / le_sound / le_no_pairwise / disjoint_accept / disjoint_check(+_only_if,_if,_improper_repaired) / '
                  'compound_wf / merge_compound_sem / merge_compound_no_empty for the executable model of NestedTermList.__init__ / contains_behavior / '
                  'intersect / __le__ and IoContractCompound.__init__ / merge (all sizes, every certified LP oracle); tied to the code by comparing '
                  'alternative lists in order (1e-9 numbers), error kinds and stages, Booleans (tolerance band accepts either); judge independent of the '
                  'model: exact union semantics by certified LP (cell feasibility, polytope-in-union by successive complement splitting) and Fraction evaluation.')
    lean_modules = ["Pacti.Props.C17"]
    theorems = ["Pacti.C17.nested_contains", "Pacti.C17.nested_contains_false", "Pacti.C17.nested_contains_error", "Pacti.C17.nested_contains_error_first",
                "Pacti.C17.intersect_sem", "Pacti.C17.intersect_no_empty", "Pacti.C17.intersect_alternatives", "Pacti.C17.intersect_forced_disjoint",
                "Pacti.C17.le_sound", "Pacti.C17.le_no_pairwise", "Pacti.C17.disjoint_accept", "Pacti.C17.disjoint_check_only_if",
                "Pacti.C17.disjoint_check_if", "Pacti.C17.disjoint_check", "Pacti.C17.disjoint_check_improper_repaired",
                "Pacti.C17.compound_wf", "Pacti.C17.merge_compound_sem", "Pacti.C17.merge_compound_no_empty", "Pacti.C17.driver_oracle_certified"]
    quick_n = 900
    thorough_n = 30000
    judge_sample = 300
    trusted_base = [
        "Lean 4.33 kernel; axioms ⊆ {propext, Classical.choice, Quot.sound}",
        "hand-written model Model/Compound.lean (mkNested, containsB, intersect, le, mkCompound, fromLists, mergeCompound) on top of Model/Poly.lean, tied to compundiocontract.py / polyhedral_iocontract.py by this correspondence run",
        "Gen/Lists.lean (list_union = `|` on term lists) and Gen/Consts.lean regenerated by tools/py2lean.py",
        "HiGHS is an oracle: model LP answers come from an unverified exact simplex through the proved certificate checker (Pacti.C17.driver_oracle_certified)",
        "harness: generators, string rendering for from_strings, comparison, the judge's splitting algorithm (its witnesses are re-evaluated with Fractions)",
    ]
    assumptions = ["floats denote exact rationals", "terms mention at least one variable (Proper) where emptiness must mean unsatisfiable",
                   "disjoint_check: the LP engine decides the emptiness problems (no status 1/4)",
                   "generated gaps are 0 or >= 1e-3 so that HiGHS' feasibility tolerance does not blur must-answers",
                   "`gray` verdicts of <= (optimum inside the code's 1e-6 band) accept either implementation answer"]
    min_branches = {"from:ok": 40, "from:ValueError": 25, "touching-refused": 5, "merge:ok": 60, "merge:dropped-cell": 40, "merge:err": 30,
                    "contains:True": 25, "contains:False": 15, "contains:ValueError": 6, "contains:order": 3, "le:True": 35, "le:False": 40,
                    "le:union-only": 8, "intersect:ok": 20, "intersect:ValueError": 4, "intersect:dropped-cell": 15, "nested:ok": 10,
                    "nested:ValueError": 6, "via:strings": 80, "via:direct": 60, "via:generic": 25, "has-empty-alt": 30}

    # ---- generation ---------------------------------------------------------------------------
    def gen_from(self, rng):
        ins, outs = split_vars(rng)
        c = contract(rng, ins, outs)
        if rng.random() < 0.1:
            c = malform(rng, c)
        via = "strings" if (rng.random() < 0.5 and stringable(c)) else rng.choice(["direct", "direct", "generic"])
        return {"kind": "from", "c": c, "via": via}

    def gen_merge(self, rng):
        ins, outs = split_vars(rng)
        m = rng.random()
        d_a = direction(rng, ins) if ins else None
        d_g = direction(rng, ins + outs)
        c = contract(rng, ins, outs, d_a=d_a, d_g=d_g)
        if m < 0.7:
            ins2, outs2 = ins, outs
        elif m < 0.85:
            # a different but compatible interface
            vs = ins + outs
            extra = [v for v in VS if v not in vs][:1]
            ins2, outs2 = ins, outs + extra
        else:
            # clash: an output of one is an input of the other (rejected by the merged constructor)
            ins2, outs2 = (ins + outs[:1], outs[1:]) if outs else (ins, outs)
        same_dir = rng.random() < 0.7
        d = contract(rng, ins2, outs2, d_a=d_a if (same_dir and d_a and set(d_a) <= set(ins2)) else None,
                     d_g=d_g if (rng.random() < 0.6 and set(d_g) <= set(ins2 + outs2)) else None,
                     start=rng.randint(-4, 1) * 1000 + rng.choice([0, 500, 250, 1]))
        if rng.random() < 0.06:
            d = malform(rng, d)
        via = "strings" if (rng.random() < 0.5 and stringable(c) and stringable(d)) else rng.choice(["direct", "direct", "generic"])
        return {"kind": "merge", "c": c, "d": d, "via": via}

    def gen_nested(self, rng):
        vs = VS[: rng.randint(1, 4)]
        alts, tag = nested(rng, vs, rng.randint(1, 3), [2, 2, 1])
        if rng.random() < 0.05:
            alts = alts + [[{"c": {}, "k": rng.choice([-1.0, 1.0])}]]   # a row without variables
        return {"kind": "nested", "alts": alts, "force": rng.random() < 0.8, "tag": tag}

    def gen_intersect(self, rng):
        vs = VS[: rng.randint(1, 4)]
        d = direction(rng, vs)
        n1, t1 = nested(rng, vs, rng.randint(1, 3), [2, 1, 1], d=d)
        n2, t2 = nested(rng, vs, rng.randint(1, 3), [2, 1, 1], d=d if rng.random() < 0.7 else None,
                        start=rng.randint(-4, 1) * 1000 + rng.choice([0, 500, 250, 1]))
        return {"kind": "intersect", "n1": n1, "n2": n2, "force": rng.random() < 0.5, "tag": t1 + "/" + t2}

    def gen_twin_intersect(self, rng):
        """two CONSECUTIVE intersections (consecutive cases run in the same worker process) whose products print alike — they differ
        beyond the fourth significant digit — and are of opposite emptiness: `s(1+4e-4)x <= y <= sx, x >= 1` is empty,
        `s(1-4e-5)x <= y <= sx, x >= 1` is a wedge that is 0.016·s wide at x = 400.  An answer carried over from the first product to
        the second (a memo keyed on the printed form) drops a non-empty alternative or keeps an empty one."""
        x, y = rng.sample(VS[:4], 2)
        s_ = float(rng.choice([1, 2, 0.5]))
        lo_empty = {"c": {x: s_ * 1.0004, y: -1.0}, "k": 0.0}
        lo_wedge = {"c": {x: s_ * 0.99996, y: -1.0}, "k": 0.0}
        upper = [{"c": {y: 1.0, x: -s_}, "k": 0.0}, {"c": {x: -1.0}, "k": -1.0}]
        other = [{"c": {x: 1.0}, "k": -5.0}]          # a second alternative, far away, so that the result is never without alternatives
        pair = [lo_empty, lo_wedge] if rng.random() < 0.5 else [lo_wedge, lo_empty]
        return [{"kind": "intersect", "n1": [[dict(c=dict(t["c"]), k=t["k"])], [dict(c=dict(o["c"]), k=o["k"]) for o in other]],
                 "n2": [[dict(c=dict(u["c"]), k=u["k"]) for u in upper], [dict(c=dict(o["c"]), k=o["k"]) for o in other]],
                 "force": False, "tag": "twin/twin"} for t in pair]

    def gen_contains(self, rng):
        vs = VS[: rng.randint(1, 4)]
        if rng.random() < 0.12 and len(vs) >= 2:
            # order dependence: one alternative constrains a variable the behaviour does not assign
            x, y = vs[0], vs[1]
            k = float(rng.randint(-2, 2))
            wide = [{"c": {x: 1.0}, "k": k + 1.0}, {"c": {y: 1.0}, "k": 3.0}]
            narrow = [{"c": {x: 1.0}, "k": k}]
            alts = [wide, narrow] if rng.random() < 0.5 else [narrow, wide]
            beh = {x: k - rng.choice([0.0, 1.0, -0.5])}
            return {"kind": "contains", "alts": alts, "beh": beh, "tag": "order"}
        alts, tag = nested(rng, vs, rng.randint(1, 3), [1, 1, 1], dyadic=True)
        names = sorted(set(vs) | set(_names(*alts)))
        beh = {v: float(rng.randint(-4, 4)) for v in names}
        cand = [t for a in alts for t in a if t["c"]]
        if cand:
            t = rng.choice(cand)
            x = rng.choice(list(t["c"]))
            rest = sum(c * beh[v] for v, c in t["c"].items() if v != x)
            beh[x] = (t["k"] - rest) / t["c"][x] + rng.choice([0.0, 0.0, 2.0 ** -20, -(2.0 ** -20), 1.0, -1.0])
        m = rng.random()
        if m < 0.1 and beh:
            beh.pop(rng.choice(sorted(beh)))
        elif m < 0.18:
            beh["zz"] = 1.0
        return {"kind": "contains", "alts": alts, "beh": beh, "tag": tag}

    def gen_le(self, rng):
        vs = VS[: rng.randint(1, 4)]
        m = rng.random()
        if m < 0.3:
            lhs, tag = nested(rng, vs, rng.randint(1, 3), [1, 1, 1])
            rhs = [[dict(c=dict(t["c"]), k=t["k"] + rng.choice([0.0, 0.0, 0.5, 1.0])) for t in a] for a in lhs]
            if rng.random() < 0.5:
                rng.shuffle(rhs)
            if rng.random() < 0.3:
                rhs.insert(rng.randint(0, len(rhs)), nested(rng, vs, 1, [1, 1, 1], specials=False)[0][0])
                rhs = rhs[:3]
            return {"kind": "le", "lhs": lhs, "rhs": rhs, "tag": "widened"}
        if m < 0.45:
            d = direction(rng, vs)
            ex = extras(rng, vs, d)
            lo = float(rng.randint(-3, 1))
            w1, w2 = rng.choice([0.5, 1.0, 2.0]), rng.choice([0.5, 1.0, 2.0])
            mid, hi = lo + w1, lo + w1 + w2
            ov = rng.choice([0.0, 0.0, 0.25, 1e-3])
            lhs = [slab(d, lo, hi) + ex]
            rhs = [slab(d, lo - rng.choice([0.0, 1.0]), mid) + ex, slab(d, mid - ov, hi + rng.choice([0.0, 1.0])) + ex]
            if rng.random() < 0.3:
                rng.shuffle(rhs)
            if rng.random() < 0.2:
                rhs.append(slab(d, lo - 1.0, hi + 1.0) + ex)   # now one alternative does cover it
                return {"kind": "le", "lhs": lhs, "rhs": rhs, "tag": "union+cover"}
            return {"kind": "le", "lhs": lhs, "rhs": rhs, "tag": "union-only"}
        if m < 0.6:
            lhs, _ = nested(rng, vs, rng.randint(1, 3), [1, 1, 1], specials=False)
            rhs = [[dict(c=dict(t["c"]), k=t["k"]) for t in a] for a in lhs]
            a = rng.choice(rhs)
            if a:
                t = rng.choice(a)
                t["k"] = t["k"] - rng.choice([1e-3, 0.25, 1.0, 5e-7])   # 5e-7: inside the code's tolerance band
            return {"kind": "le", "lhs": lhs, "rhs": rhs, "tag": "shrunk"}
        if m < 0.7:
            lhs, _ = nested(rng, vs, rng.randint(1, 2), [1, 1, 1])
            rhs, _ = nested(rng, vs, rng.randint(1, 2), [1, 1, 1])
            k = rng.random()
            if k < 0.3:
                lhs = []
            elif k < 0.6:
                rhs = []
            elif k < 0.8:
                rhs = rhs + [[]]
            else:
                lhs = lhs + [infeasible_alt(rng, vs, 1000)]
            return {"kind": "le", "lhs": lhs, "rhs": rhs, "tag": "degenerate"}
        d = direction(rng, vs) if rng.random() < 0.6 else None
        lhs, _ = nested(rng, vs, rng.randint(1, 3), [1, 1, 1], d=d)
        rhs, _ = nested(rng, vs, rng.randint(1, 3), [1, 1, 1], d=d, start=rng.randint(-4, 1) * 1000 + rng.choice([0, 500, 1]))
        return {"kind": "le", "lhs": lhs, "rhs": rhs, "tag": "unrelated"}

    def generate(self, rng, n, tier):
        out = []
        gens = [(0.2, self.gen_from), (0.5, self.gen_merge), (0.56, self.gen_nested), (0.66, self.gen_intersect), (0.8, self.gen_contains), (1.01, self.gen_le)]
        for _ in range(n):
            r = rng.random()
            for p, g in gens:
                if r < p:
                    out.append(g(rng))
                    break
            if rng.random() < 0.03:
                out += self.gen_twin_intersect(rng)
        return out

    # ---- implementation -----------------------------------------------------------------------
    def run_impl(self, case):
        from pacti.iocontract import Var

        k = case["kind"]
        if k == "from":
            return {"ok": _un_cc(_build(case["c"], case["via"]))}
        if k == "merge":
            try:
                c = _build(case["c"], case["via"])
            except Exception as e:  # noqa
                return {"err": C.classify_exc(e), "stage": "c", "msg": str(e)[:200]}
            try:
                d = _build(case["d"], case["via"])
            except Exception as e:  # noqa
                return {"err": C.classify_exc(e), "stage": "d", "msg": str(e)[:200]}
            try:
                r = c.merge(d)
            except Exception as e:  # noqa
                return {"err": C.classify_exc(e), "stage": "merge", "msg": str(e)[:200]}
            return {"ok": _un_cc(r), "c": _un_cc(c), "d": _un_cc(d)}
        if k == "nested":
            return {"ok": _un_nested(_mk_nested(case["alts"], case["force"]))}
        if k == "intersect":
            n1, n2 = _mk_nested(case["n1"], False), _mk_nested(case["n2"], False)
            r = n1.intersect(n2, force_empty_intersection=case["force"])
            if not same_alts(_un_nested(n1), case["n1"]) or not same_alts(_un_nested(n2), case["n2"]):
                return {"err": "py:OperandMutated"}
            return {"ok": _un_nested(r)}
        if k == "contains":
            n = _mk_nested(case["alts"], False)
            return {"ok": bool(n.contains_behavior({Var(v): x for v, x in case["beh"].items()}))}
        if k == "le":
            return {"ok": bool(_mk_nested(case["lhs"], False) <= _mk_nested(case["rhs"], False))}
        raise RuntimeError("unknown kind")

    # ---- model --------------------------------------------------------------------------------
    @staticmethod
    def w_nested(alts, vm):
        return [G.w_tl(a, vm) for a in alts]

    @classmethod
    def w_cc(cls, c, vm):
        return {"a": cls.w_nested(c["a"], vm), "g": cls.w_nested(c["g"], vm), "ins": vm.vars(c["ins"]), "outs": vm.vars(c["outs"])}

    @staticmethod
    def vm_of(case) -> C.VarMap:
        names = set()
        for key in ("c", "d"):
            if key in case:
                c = case[key]
                names |= set(_names(*c["a"], *c["g"])) | set(c["ins"]) | set(c["outs"])
        for key in ("alts", "n1", "n2", "lhs", "rhs"):
            if key in case:
                names |= set(_names(*case[key]))
        names |= set(case.get("beh", {}))
        return C.VarMap(names)

    def model_request(self, case, impl):
        vm = self.vm_of(case)
        k = case["kind"]
        if k == "from":
            return {"op": "c17_from", "c": self.w_cc(case["c"], vm)}
        if k == "merge":
            return {"op": "c17_merge", "c": self.w_cc(case["c"], vm), "d": self.w_cc(case["d"], vm)}
        if k == "nested":
            return {"op": "c17_nested", "alts": self.w_nested(case["alts"], vm), "force": bool(case["force"])}
        if k == "intersect":
            return {"op": "c17_intersect", "n1": self.w_nested(case["n1"], vm), "n2": self.w_nested(case["n2"], vm), "force": bool(case["force"])}
        if k == "contains":
            return {"op": "c17_contains", "alts": self.w_nested(case["alts"], vm), "beh": [[vm.i(v), C.qs(x)] for v, x in case["beh"].items()]}
        return {"op": "c17_le", "lhs": self.w_nested(case["lhs"], vm), "rhs": self.w_nested(case["rhs"], vm)}

    # ---- comparison ---------------------------------------------------------------------------
    @staticmethod
    def nested_close(impl_n, model_n, vm) -> bool:
        if len(impl_n) != len(model_n):
            return False
        return all(C.tls_close(G.w_tl(a, vm), b) for a, b in zip(impl_n, model_n))

    def cc_diff(self, im, mo, vm) -> Optional[str]:
        if vm.vars(im["ins"]) != [int(x) for x in mo["ins"]] or vm.vars(im["outs"]) != [int(x) for x in mo["outs"]]:
            return f"interface: impl {im['ins']}/{im['outs']} vs model {mo['ins']}/{mo['outs']}"
        if not self.nested_close(im["a"], mo["a"], vm):
            return f"assumption alternatives differ: impl {im['a']} vs model {mo['a']}"
        if not self.nested_close(im["g"], mo["g"], vm):
            return f"guarantee alternatives differ: impl {im['g']} vs model {mo['g']}"
        return None

    def compare(self, case, impl, model):
        vm = self.vm_of(case)
        k = case["kind"]
        if "err" in impl or "err" in model:
            if impl.get("err") == model.get("err") and impl.get("stage") == model.get("stage"):
                return None
            return f"impl {impl.get('err', 'ok')}@{impl.get('stage')} vs model {model.get('err', 'ok')}@{model.get('stage')}"
        if k == "from":
            return self.cc_diff(impl["ok"], model["ok"], vm)
        if k == "merge":
            return self.cc_diff(impl["ok"], model["ok"], vm) or self.cc_diff(impl["c"], model["c"], vm) or self.cc_diff(impl["d"], model["d"], vm)
        if k in ("nested", "intersect"):
            return None if self.nested_close(impl["ok"], model["ok"], vm) else f"alternatives differ: impl {impl['ok']} vs model {model['ok']}"
        if k == "contains":
            return None if impl["ok"] == model["ok"] else f"impl {impl['ok']} vs model {model['ok']}"
        exp = {"yes": [True], "no": [False], "gray": [True, False]}[model["ok"]]
        return None if impl["ok"] in exp else f"impl {impl['ok']} vs model verdict {model['ok']}"

    # ---- judge (independent of the model) -------------------------------------------------------
    def judge(self, case, impl):
        k = case["kind"]
        err = impl.get("err")
        if err is not None and err not in C.DOCUMENTED:
            return {"signature": "undocumented-exception:" + err, "what": str(impl)[:300], "witness": case}
        if k == "from":
            return judge_from(case["c"], impl.get("ok"), err, "constructor")
        if k == "merge":
            st = impl.get("stage")
            c, d = case["c"], case["d"]
            if st == "c":
                return judge_from(c, None, err, "left operand")
            v = judge_from(c, impl.get("c") if err is None else {"a": c["a"], "g": c["g"]}, None, "left operand")
            if v:
                return v
            if st == "d":
                return judge_from(d, None, err, "right operand")
            v = judge_from(d, impl.get("d") if err is None else {"a": d["a"], "g": d["g"]}, None, "right operand")
            if v:
                return v
            if not (iface_ok(c) and iface_ok(d)):
                return None
            ins = c["ins"] + [x for x in d["ins"] if x not in c["ins"]]
            outs = c["outs"] + [x for x in d["outs"] if x not in c["outs"]]
            clash = bool(set(ins) & set(outs))
            cells = [tl_union(s, o) for s in c["a"] for o in d["a"]]
            fe = feas_batch(cells, box=J.BOX)
            fr = feas_batch([relax(x) for x in cells])
            kept_exact = [x for x, (f, _) in zip(cells, fe) if f]
            kept_relaxed = [x for x, (f, _) in zip(cells, fr) if f is not False]
            if err is not None:
                if err != "ValueError":
                    return {"signature": "merge:wrong-error-kind", "what": err, "witness": case}
                if clash:
                    return None
                _, surely = share_status(kept_relaxed)
                if surely:
                    return {"signature": "merge:rejected", "what": "merge raised ValueError although the interface is fine and the non-empty assumption cells are pairwise disjoint",
                            "witness": {"cells": kept_relaxed, "msg": impl.get("msg")}}
                return None
            r = impl["ok"]
            if clash:
                return None  # interface validation: not this property's business
            if r["ins"] != ins or r["outs"] != outs:
                return {"signature": "merge:interface", "what": f"merged interface {r['ins']}/{r['outs']} is not the union {ins}/{outs}", "witness": case}
            shared, _ = share_status(kept_exact)
            if shared is not None:
                return {"signature": "overlap:accepted", "what": "merge returned assumptions whose alternatives share a behaviour", "witness": {"point": J.pt_str(shared[2])}}
            return judge_intersection(c["a"], d["a"], r["a"], "merged assumptions") or judge_intersection(c["g"], d["g"], r["g"], "merged guarantees")
        if k == "nested":
            if any(not t["c"] for a in case["alts"] for t in a):
                return None  # rows without variables: outside `Proper`, only the correspondence speaks
            if not case["force"]:
                if err is not None:
                    return {"signature": "nested:unforced-rejected", "what": str(impl)[:200], "witness": case}
                return None if same_alts(impl["ok"], case["alts"]) else {"signature": "constructor:alternatives-changed", "what": "NestedPolyhedra changed its alternatives", "witness": case}
            if err is not None and err != "ValueError":
                return {"signature": "overlap:wrong-error-kind", "what": err, "witness": case}
            v = judge_disjoint(case["alts"], err is None, "NestedPolyhedra")
            if v is None and err is None and not same_alts(impl["ok"], case["alts"]):
                return {"signature": "constructor:alternatives-changed", "what": "NestedPolyhedra changed its alternatives", "witness": case}
            return v
        if k == "intersect":
            n1, n2 = case["n1"], case["n2"]
            cells = [tl_union(s, o) for s in n1 for o in n2]
            if err is not None:
                if err != "ValueError" or not case["force"]:
                    return {"signature": "intersect:unexpected-error", "what": str(impl)[:200], "witness": case}
                fr = feas_batch([relax(x) for x in cells])
                _, surely = share_status([x for x, (f, _) in zip(cells, fr) if f is not False])
                if surely:
                    return {"signature": "overlap:disjoint-rejected", "what": "intersect(force) raised although the non-empty cells are pairwise disjoint", "witness": case}
                return None
            if case["force"]:
                fe = feas_batch(cells, box=J.BOX)
                shared, _ = share_status([x for x, (f, _) in zip(cells, fe) if f])
                if shared is not None:
                    return {"signature": "overlap:accepted", "what": "intersect(force) returned alternatives that share a behaviour", "witness": {"point": J.pt_str(shared[2])}}
            return judge_intersection(n1, n2, impl["ok"], "intersect")
        if k == "contains":
            beh = {v: C.q(x) for v, x in case["beh"].items()}
            assigned = [all(v in beh for t in a for v in t["c"]) for a in case["alts"]]
            inside = [asg and holds_pt(a, beh) for a, asg in zip(case["alts"], assigned)]
            if all(assigned):
                truth = any(inside)
                if impl.get("ok") is not truth:
                    return {"signature": "contains:wrong-answer", "what": f"contains_behavior returned {impl.get('err', impl.get('ok'))}, but exactly {sum(inside)} alternative(s) hold at the point",
                            "witness": case}
                return None
            # some alternative has an unassigned variable: ValueError, or True when an assigned alternative really contains it
            if err == "ValueError":
                return None
            if impl.get("ok") is True and any(inside):
                return None
            return {"signature": "contains:unassigned", "what": f"unassigned variable in an alternative, got {impl}", "witness": case}
        if k == "le":
            if err is not None:
                return {"signature": "le:unexpected-error", "what": str(impl)[:200], "witness": case}
            if impl["ok"] is True:
                un = uncovered_many([(l, case["rhs"]) for l in case["lhs"]])
                for i, pt in enumerate(un):
                    if pt is not None:
                        return {"signature": "le:true-but-not-contained", "what": f"`<=` answered True but a behaviour of left alternative {i} is in no right alternative",
                                "witness": {"left": i, "point": J.pt_str(pt)}}
            return None
        return None

    # ---- statistics -----------------------------------------------------------------------------
    def branch(self, case, impl, model):
        k = case["kind"]
        res = impl.get("err", "ok" if not isinstance(impl.get("ok"), bool) else str(impl.get("ok")))
        b = [f"{k}:{res}"]
        if k in ("from", "merge"):
            b.append("via:" + case["via"])
        if k == "from" and case["c"].get("tag_a") == "touching" and impl.get("err") == "ValueError" and not case["c"].get("malformed"):
            b.append("touching-refused")
        if k == "nested" and case.get("tag") == "touching" and case["force"] and impl.get("err") == "ValueError":
            b.append("touching-refused")
        if k == "merge":
            if "err" in impl:
                b.append("merge:err")
                b.append("merge:err@" + str(impl.get("stage")))
            else:
                na = len(impl["c"]["a"]) * len(impl["d"]["a"])
                ng = len(impl["c"]["g"]) * len(impl["d"]["g"])
                if len(impl["ok"]["a"]) < na or len(impl["ok"]["g"]) < ng:
                    b.append("merge:dropped-cell")
                if len(impl["ok"]["a"]) >= 2:
                    b.append("merge:multi-assumption")
        if k == "intersect" and "ok" in impl and len(impl["ok"]) < len(case["n1"]) * len(case["n2"]):
            b.append("intersect:dropped-cell")
        if k == "contains" and case.get("tag") == "order":
            b.append("contains:order")
        if k == "le":
            if case.get("tag") == "union-only":
                b.append("le:union-only")
            if model and model.get("ok") == "gray":
                b.append("le:gray")
        tags = " ".join(str(case.get(x, "")) for x in ("tag",)) + " ".join(str(case.get(c, {}).get(t, "")) for c in ("c", "d") for t in ("tag_a", "tag_g"))
        if "+empty" in tags or case.get("tag") == "degenerate":
            b.append("has-empty-alt")
        return b

    def nontrivial(self, case, impl):
        k = case["kind"]
        if k == "from":
            return len(case["c"]["a"]) + len(case["c"]["g"]) >= 2
        if k == "merge":
            return True
        if k == "le":
            return len(case["lhs"]) + len(case["rhs"]) >= 2
        if k == "intersect":
            return len(case["n1"]) + len(case["n2"]) >= 2
        return len(case["alts"]) >= 1


CHECK = C17()
