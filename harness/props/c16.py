"""C16: polyhedral contracts x (source, target) in all classes - target fresh, target an existing input, target an existing
output, source absent, source = target - with coefficient sums that cancel to zero (x - y renamed y -> x), and sequences of
mappings through rename_variables including swaps through a temporary name, chains and repeated sources.  Compared
structurally (interface order, terms at 1e-9) with the model.  Non-trivial = the source occurs in the contract."""
from __future__ import annotations

import random

from .. import common as C
from .. import contracts as K
from .. import gen as G
from .. import judge as J
from ..framework import Check


def subst_term(t, s, d):
    c = dict(t["c"])
    if s in c and s != d:
        x = c.pop(s)
        c[d] = c.get(d, 0.0) + x
        if c[d] == 0:
            c.pop(d)
    return {"c": c, "k": t["k"]}


class C16(Check):
    pid = "C16"
    title = "Renaming variables is faithful substitution"
    level_text = ("Lean theorems term_rename_sem, contract_rename_sem (renamed assumptions / guarantees hold at v iff the originals hold at v with the old name reading "
                  "the new one), rename_absent_sem, rename_self_sem (source equal to target changes nothing), rename_iface_in/out, rename_rejects, rename_fresh_back_iface/sem, renameAll_is_fold for the models of "
                  "PolyhedralTerm.rename_variable, IoContract.rename_variable (generated interface code, constructor re-simplification) and rename_variables; structural "
                  "correspondence; exact certified judge of the two equivalences against an independent substitution.")
    lean_modules = ["Pacti.Props.C16"]
    theorems = ["Pacti.C16.term_rename_sem", "Pacti.C16.contract_rename_sem", "Pacti.C16.rename_absent_sem", "Pacti.C16.rename_self_sem", "Pacti.C16.rename_iface_in",
                "Pacti.C16.rename_iface_out", "Pacti.C16.rename_rejects", "Pacti.C16.rename_fresh_back_iface", "Pacti.C16.rename_fresh_back_sem",
                "Pacti.C16.renameAll_is_fold"]
    quick_n = 1200
    thorough_n = 40000
    judge_sample = 300
    trusted_base = [
        "Lean 4.33 kernel; axioms ⊆ {propext, Classical.choice, Quot.sound}",
        "Model/PolyAlg.lean (renameTerm, rename, renameAll), Model/Algebra.lean tied to the code by this correspondence run",
        "HiGHS is an oracle for the constructor's simplification",
    ]
    assumptions = ["floats denote exact rationals"]
    min_branches = {"ok": 500, "IncompatibleArgsError": 60, "fresh": 100, "to-input": 80, "to-output": 80, "absent": 80, "same": 30, "seq": 150, "cancel": 20, "cancel-all": 30}

    def generate(self, rng, n, tier):
        out = []
        for _ in range(n):
            vs_in, vs_out = ["i", "j", "k"], ["o", "p"]
            pt = {v: float(rng.randint(-2, 2)) for v in vs_in + vs_out + ["t", "u"]}
            ins = rng.sample(vs_in, rng.randint(1, 3))
            outs = rng.sample(vs_out, rng.randint(1, 2))
            c = {"ins": ins, "outs": outs, "a": K.bound_terms(rng, ins, pt, rng.randint(0, 2)), "g": K.rel_terms(rng, ins + outs, outs, pt, rng.randint(1, 3))}
            if rng.random() < 0.15 and len(ins) >= 2:
                c["g"].append({"c": {ins[0]: 1.0, ins[1]: -1.0, outs[0]: 1.0}, "k": float(rng.randint(0, 3))})   # x - y: cancels when y -> x
            allv = ins + outs
            if rng.random() < 0.08 and (len(ins) >= 2 or len(outs) >= 2):
                # total cancellation: x - y <= k with x renamed to y leaves the variable-free row 0 <= k, which carries the whole
                # meaning when k < 0 (assumptions: kept; guarantees: the constructor reports the unsatisfiable contract)
                side, pair = ("a", ins) if (len(ins) >= 2 and (len(outs) < 2 or rng.random() < 0.6)) else ("g", outs)
                x, y = rng.sample(pair, 2)
                f = float(rng.choice([1, 2, -1]))
                c[side].append({"c": {x: f, y: -f}, "k": float(rng.choice([-2, -1, -0.5, 0, 1]))})
                if rng.random() < 0.5:
                    out.append({"op": "rename", "c1": c, "src": x, "dst": y, "cls": "cancel-all"})
                else:
                    out.append({"op": "rename_all", "c1": c, "maps": [[x, y]] + ([[rng.choice(allv), "t"]] if rng.random() < 0.5 else []), "cls": "cancel-all"})
                continue
            cls = rng.choice(["fresh", "to-input", "to-output", "absent", "same", "seq", "seq"])
            if cls == "seq":
                k = rng.random()
                if k < 0.35 and len(allv) >= 2:
                    a, b = rng.sample(allv, 2)
                    maps = [[a, "t"], [b, a], ["t", b]]            # swap through a temporary
                elif k < 0.6:
                    a = rng.choice(allv)
                    maps = [[a, "t"], ["t", "u"], ["u", a]]        # chain and back
                else:
                    maps = [[rng.choice(allv + ["zz"]), rng.choice(allv + ["t", "u"])] for _ in range(rng.randint(1, 3))]
                out.append({"op": "rename_all", "c1": c, "maps": maps, "cls": cls})
                continue
            s = rng.choice(allv)
            if cls == "fresh":
                d = "t"
            elif cls == "to-input":
                d = rng.choice(ins)
            elif cls == "to-output":
                d = rng.choice(outs)
            elif cls == "absent":
                s, d = "zz", rng.choice(allv + ["t"])
            else:
                d = s
            out.append({"op": "rename", "c1": c, "src": s, "dst": d, "cls": cls})
        return out

    def run_impl(self, case):
        from pacti.iocontract import Var

        c = G.mk_contract(case["c1"], simplify=False)
        if case["op"] == "rename":
            r = c.rename_variable(Var(case["src"]), Var(case["dst"]))
        else:
            r = c.rename_variables([tuple(m) for m in case["maps"]])
        return {"ok": G.un_contract(r)}

    def _vm(self, case):
        extra = [case.get("src"), case.get("dst")] if case["op"] == "rename" else [x for m in case["maps"] for x in m]
        return C.VarMap(K.all_names(case["c1"]) + [e for e in extra if e])

    def model_request(self, case, impl):
        vm = self._vm(case)
        req = {"op": case["op"], "c1": K.w_contract(case["c1"], vm)}
        if case["op"] == "rename":
            req.update(src=vm.i(case["src"]), dst=vm.i(case["dst"]))
        else:
            req["maps"] = [[vm.i(a), vm.i(b)] for a, b in case["maps"]]
        return req

    def compare(self, case, impl, model):
        return K.compare_contract_result(impl, model, self._vm(case))

    def judge(self, case, impl):
        c = case["c1"]
        maps = [[case["src"], case["dst"]]] if case["op"] == "rename" else case["maps"]
        # independent specification: substitute sequentially; interface by the prescribed rule
        ins, outs, a, g = list(c["ins"]), list(c["outs"]), list(c["a"]), list(c["g"])
        reject = False
        states = [(a, g)]      # (assumptions, guarantees) of the operand and after every substitution performed before a rejection
        for s, d in maps:
            if s == d or (s not in ins and s not in outs):
                continue
            if (s in ins and d in outs) or (s in outs and d in ins):
                reject = True
                break
            side = ins if s in ins else outs
            if d in side:
                side.remove(s)
            else:
                side[side.index(s)] = d
            a = [subst_term(t, s, d) for t in a]
            g = [subst_term(t, s, d) for t in g]
            states.append((a, g))

        def unsat_prefix():
            # every intermediate contract is rebuilt (and its guarantees simplified): ValueError is the documented outcome as soon
            # as one of them has jointly unsatisfiable assumptions and guarantees
            # (flagged only when satisfiable with a margin: a float LP may call a razor-thin system infeasible)
            def tight(t):
                return {"c": t["c"], "k": t["k"] - 1e-6 * (1 + abs(t["k"]))}
            return any(J.feasible([tight(t) for t in list(aa) + list(gg)])[0] is not True for aa, gg in states)

        if reject:
            if impl.get("err") == "ValueError" and unsat_prefix():
                return None   # an earlier mapping of the sequence already produced an unsatisfiable contract
            if impl.get("err") != "IncompatibleArgsError":
                return {"signature": "rename:both-input-and-output-not-rejected", "what": str(impl)[:200], "witness": case}
            return None
        if "err" in impl:
            if impl["err"] == "ValueError":
                if unsat_prefix():
                    return None   # re-simplification of an unsatisfiable contract
                return {"signature": "rename:ValueError-on-satisfiable", "what": "ValueError although every intermediate contract is satisfiable", "witness": case}
            return {"signature": "rename:legal-renaming-failed:" + impl["err"], "what": str(impl)[:200], "witness": case}
        r = impl["ok"]
        if r["ins"] != ins or r["outs"] != outs:
            return {"signature": "rename:wrong-interface", "what": f"interface {r['ins']}/{r['outs']}, expected {ins}/{outs}", "witness": case}
        bad = K.judge_equiv([], r["a"], a)
        if bad:
            return {"signature": "rename:assumptions-not-substituted", "what": str(bad)[:300], "witness": bad}
        bad = K.judge_equiv(r["a"], r["g"], g)
        if bad:
            return {"signature": "rename:guarantees-not-substituted", "what": str(bad)[:300], "witness": bad}
        return None

    def branch(self, case, impl, model):
        b = [impl.get("err", "ok"), case["cls"]]
        if case["op"] == "rename" and any(len(t["c"]) >= 3 and case["src"] in t["c"] and case["dst"] in t["c"] for t in case["c1"]["g"]):
            b.append("cancel")
        return b

    def nontrivial(self, case, impl):
        return case["cls"] not in ("absent", "same")


CHECK = C16()
