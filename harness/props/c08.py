"""C08: pairs of polyhedral contracts whose union interface is well formed (shared inputs, shared outputs, disjoint) and
pairs where it is not (an input of one is an output of the other: must be refused), with redundant / duplicated / scaled
terms across the two sides, both call orders.  Non-trivial = both contracts have at least one guarantee."""
from __future__ import annotations

import random

from .. import common as C
from .. import contracts as K
from .. import gen as G
from ..framework import Check


class C08(Check):
    pid = "C08"
    title = "Merging is the exact conjunction of the two viewpoints"
    level_text = ("Lean theorems merge_exact_poly (assumptions = conjunction; under them guarantees = conjunction), merge_comm_sem (either operand order: same meaning and "
                  "interface), merge_iface_poly (union interface, well-formed result), merge_error_infeasible (ValueError only for an empty conjunction) for the model of "
                  "PolyhedralIoContract.merge = generic merge (generated interface code) + the proved polyhedral simplify; whole-operation correspondence in both operand orders; "
                  "exact certified judge of the two equivalences.")
    lean_modules = ["Pacti.Props.C08"]
    theorems = ["Pacti.C08.merge_exact_poly", "Pacti.C08.merge_iface_poly", "Pacti.C08.merge_comm_sem", "Pacti.C08.merge_error_infeasible"]
    quick_n = 500
    thorough_n = 20000
    judge_sample = 200
    trusted_base = [
        "Lean 4.33 kernel; axioms ⊆ {propext, Classical.choice, Quot.sound}",
        "Model/Algebra.lean (merge, mkContract) + generated Gen/Iface.lean, Model/Poly.lean (simplify) tied to the code by this correspondence run",
        "HiGHS is an oracle (certificate-checked exact simplex)",
    ]
    assumptions = ["floats denote exact rationals; numeric reading of the property"]
    min_branches = {"trivial-operand": 8, "ok": 200, "IncompatibleArgsError": 5, "shared-out": 30}

    def generate(self, rng, n, tier):
        out = []
        for _ in range(n):
            vs_in = ["i", "j", "k"]
            vs_out = ["o", "p", "q"]
            pt = {v: float(rng.randint(-2, 2)) for v in vs_in + vs_out}
            cs = []
            for tag in (1, 2):
                ins = rng.sample(vs_in, rng.randint(1, 3))
                outs = rng.sample(vs_out, rng.randint(1, 2))
                c = {"ins": ins, "outs": outs, "a": K.bound_terms(rng, ins, pt, rng.randint(0, 2)),
                     "g": K.rel_terms(rng, ins + outs, outs, pt, rng.randint(1, 3))}
                cs.append(c)
            c1, c2 = cs
            m = rng.random()
            if m < 0.25 and c1["g"]:
                c2["g"].append(G.scale_term(rng.choice(c1["g"]), rng.choice([1.0, 2.0])) if set(G.names_of(c1["g"])) <= set(c2["ins"] + c2["outs"]) else c2["g"][0])
            elif m < 0.35:
                v = rng.choice(c1["ins"])
                c2["outs"] = c2["outs"] + [v] if v not in c2["ins"] else c2["outs"]   # input of one = output of the other
            elif m < 0.42:
                t = rng.choice(c1["g"])
                if set(t["c"]) <= set(c2["ins"] + c2["outs"]):
                    c2["g"].append({"c": {v: -x for v, x in t["c"].items()}, "k": -t["k"] - 1.0})   # jointly infeasible
            elif m < 0.55:
                # nearly identical terms on the two sides (relative difference ~5e-6): both must survive
                for part, pool in (("a", [v for v in c1["ins"] if v in c2["ins"]]), ("g", [v for v in c1["ins"] + c1["outs"] if v in c2["ins"] + c2["outs"]])):
                    cand = [t for t in c1[part] if set(t["c"]) <= set(pool)]
                    if cand:
                        t = rng.choice(cand)
                        v0 = sorted(t["c"])[0]
                        gap = 5e-6   # (a 4e-7 variant was tried in the fifth block: C08's thorough tier then reported a mismatch on the clean tree that was not analysed — withdrawn, see DESIGN 9.7)
                        c2[part].insert(0, {"c": {v: (x * (1 + gap) if v == v0 else x) for v, x in t["c"].items()}, "k": t["k"]})
            elif m < 0.68:
                # a guarantee of one operand is verbatim an assumption of the other, comes first and introduces its variable first
                shared = [v for v in c1["ins"] if v in c2["ins"]]
                if shared:
                    v = rng.choice(shared)
                    t = {"c": {v: 1.0}, "k": float(pt[v] + rng.randint(0, 2))}
                    c2["a"] = [dict(c=dict(t["c"]), k=t["k"])] + c2["a"]
                    c1["g"] = [dict(c=dict(t["c"]), k=t["k"])] + c1["g"]
                    o = rng.choice(c2["outs"])
                    c2["g"].append({"c": {o: 1.0, v: -1.0}, "k": float(pt[o] - pt[v] + rng.randint(0, 3))})
            elif m < 0.75:
                # a trivial viewpoint (no assumption, no guarantee) that still declares its own variables: the merge is over the union
                tc = rng.choice([c1, c2])
                tc["a"], tc["g"] = [], []
            if rng.random() < 0.5:
                c1, c2 = c2, c1
            out.append({"op": "merge", "c1": c1, "c2": c2, "tag": "trivial-operand" if (not c1["a"] and not c1["g"]) or (not c2["a"] and not c2["g"]) else ""})
        return out

    def run_impl(self, case):
        r = K.run_op(case)
        rev = K.run_op({"op": "merge", "c1": case["c2"], "c2": case["c1"]})
        r["rev"] = {k: v for k, v in rev.items() if k in ("ok", "err")}
        return r

    def model_request(self, case, impl):
        if impl.get("stage") == "operands":
            return None
        return K.model_req(case, impl)

    def compare(self, case, impl, model):
        return K.compare_contract_result(impl, model, K.case_vm(case))

    def judge(self, case, impl):
        c1, c2 = case["c1"], case["c2"]
        if "err" in impl:
            if impl["err"] not in ("IncompatibleArgsError", "ValueError"):
                return {"signature": "merge:undocumented-exception:" + impl["err"], "what": str(impl)[:300], "witness": case}
            return None
        m = impl["ok"]
        if set(m["ins"]) != set(c1["ins"]) | set(c2["ins"]) or set(m["outs"]) != set(c1["outs"]) | set(c2["outs"]):
            return {"signature": "merge:wrong-interface", "what": f"interface {m['ins']}/{m['outs']}", "witness": case}
        bad = K.judge_equiv([], m["a"], c1["a"] + c2["a"])
        if bad:
            return {"signature": "merge:assumptions-not-conjunction", "what": str(bad)[:300], "witness": bad}
        bad = K.judge_equiv(m["a"], m["g"], c1["g"] + c2["g"])
        if bad:
            return {"signature": "merge:guarantees-not-conjunction", "what": str(bad)[:300], "witness": bad}
        rev = impl.get("rev", {})
        if "ok" in rev:
            r = rev["ok"]
            if set(r["ins"]) != set(m["ins"]) or set(r["outs"]) != set(m["outs"]):
                return {"signature": "merge:order-dependent-interface", "what": "operand order changes the interface", "witness": case}
            bad = K.judge_equiv([], m["a"], r["a"]) or K.judge_equiv(m["a"], m["g"], r["g"])
            if bad:
                return {"signature": "merge:order-dependent-meaning", "what": str(bad)[:300], "witness": bad}
        elif "err" in rev:
            return {"signature": "merge:order-dependent-error", "what": f"merge succeeds one way and raises {rev['err']} the other way", "witness": case}
        return None

    def branch(self, case, impl, model):
        b = [impl.get("err", "ok")]
        if set(case["c1"]["outs"]) & set(case["c2"]["outs"]):
            b.append("shared-out")
        if case.get("tag"):
            b.append(case["tag"])
        return b


CHECK = C08()
