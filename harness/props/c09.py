"""C09: expression trees of the documented constraint grammar, rendered to strings and parsed by the real parser.

Streams: (a) bounded-exhaustive small shapes over {x, y} with coefficients {1, 2, 1/2, -1}: two-item left sides
(variables and absolute values) against four right sides, `<=` and `>=`; (b) random trees to depth 3 over
{w, x, y, z}: nested parentheses with multipliers, constant arithmetic (including chains `a*b*c`, `a/b*c`,
`a+b*c+d` and divisions by zero), repeated variables (cancellation to zero), repeated absolute terms (same term
list twice, in one side, across sides, inside and outside a group, permuted `|x+y|`/`|y+x|`), groups `[±][k](…)`,
chains of up to 4 sides, equalities, constant-only sides; (c) a whitelist stream: every number form
(`2`, `2.0`, `2.`, `2e0`, `2E0`, `2.0e+0`, `.5`, `0.5`, `5e-1`, `(4/2)`, `(2*1)`) x every connector (`k x`, `kx`,
`k*x`, `k * x`) in every position (variable, parenthesis, absolute value, group, constant); (d) a malformed stream:
token deletions / insertions / swaps of valid strings that a *liberal* recogniser (a superset of the grammar)
rejects.  Every tree is rendered in 3 spellings (spacing, optional `*`, number forms, `+` in first position,
`=`/`==`), every string is parsed twice.  Non-trivial = the string has at least 5 tokens.
"""
from __future__ import annotations

import itertools
import re
import json
import random
from fractions import Fraction as F
from typing import Any, Dict, List, Optional, Tuple

from .. import common as C
from .. import gen as G
from .. import judge as J
from ..framework import Check

VARS4 = ["w", "x", "y", "z"]
MAX_ABS = 4  # at most 2^4 sign cells / 16 expanded terms per pair of sides
MAX_TOKENS = 60  # pyparsing backtracks: parse time grows quickly with length and nesting (0.2 s at 100 tokens)

# ------------------------------------------------------------------------------------------------
# trees (JSON-able; variables by name)


def num(v) -> dict:
    return {"n": C.qs(F(v))}


def aop(op: str, a: dict, b: dict) -> dict:
    return {"op": op, "a": a, "b": b}


def t_var(x):
    return {"t": "var", "x": x}


def t_kvar(k, x):
    return {"t": "kvar", "k": k, "x": x}


def t_kparen(k, ts):
    return {"t": "kparen", "k": k, "ts": ts}


def t_paren(ts):
    return {"t": "paren", "ts": ts}


def t_const(k):
    return {"t": "const", "k": k}


def sg(neg: bool, tm: dict) -> dict:
    return {"neg": bool(neg), "tm": tm}


def i_abs(neg, k, body):
    return {"t": "abs", "neg": bool(neg), "k": k, "body": body}


def i_tm(neg, tm):
    return {"t": "tm", "neg": bool(neg), "tm": tm}


def s_group(neg, k, items):
    return {"t": "group", "neg": bool(neg), "k": k, "items": items}


class ZeroDiv(Exception):
    pass


def arith_val(a: dict) -> F:
    """ordinary arithmetic (the meaning of the written constant)"""
    if "n" in a:
        return F(a["n"])
    x, y = arith_val(a["a"]), arith_val(a["b"])
    if a["op"] == "+":
        return x + y
    if a["op"] == "-":
        return x - y
    if a["op"] == "*":
        return x * y
    if y == 0:
        raise ZeroDiv()
    return x / y


def arith_has_chain(a: dict) -> bool:
    if "n" in a:
        return False
    lvl = lambda n: 0 if "n" in n else (1 if n["op"] in "+-" else 2)  # noqa: E731
    return lvl(a["a"]) == lvl(a) or arith_has_chain(a["a"]) or arith_has_chain(a["b"])


# ---- linear meaning of trees (Fractions), used by the judge only --------------------------------

Lin = Tuple[Dict[str, F], F]


def l_add(a: Lin, b: Lin, s: F = F(1)) -> Lin:
    c = dict(a[0])
    for v, x in b[0].items():
        c[v] = c.get(v, F(0)) + s * x
    return ({v: x for v, x in c.items() if x != 0}, a[1] + s * b[1])


def l_scale(a: Lin, k: F) -> Lin:
    return ({v: k * x for v, x in a[0].items() if k * x != 0}, k * a[1])


def tm_lin(tm: dict) -> Lin:
    t = tm["t"]
    if t == "var":
        return ({tm["x"]: F(1)}, F(0))
    if t == "kvar":
        return l_scale(({tm["x"]: F(1)}, F(0)), arith_val(tm["k"]))
    if t == "kparen":
        return l_scale(tms_lin(tm["ts"]), arith_val(tm["k"]))
    if t == "paren":
        return tms_lin(tm["ts"])
    return ({}, arith_val(tm["k"]))


def tms_lin(ts: List[dict]) -> Lin:
    acc: Lin = ({}, F(0))
    for e in ts:
        acc = l_add(acc, tm_lin(e["tm"]), F(-1) if e["neg"] else F(1))
    return acc


class PW:
    """piecewise-linear value: a linear part plus a list of (coefficient, argument of |.|)"""

    def __init__(self):
        self.lin: Lin = ({}, F(0))
        self.abs: List[Tuple[F, Lin]] = []

    def add(self, o: "PW", s: F = F(1)):
        self.lin = l_add(self.lin, o.lin, s)
        self.abs += [(s * c, e) for c, e in o.abs]
        return self


def kv(k: Optional[dict]) -> F:
    return F(1) if k is None else arith_val(k)


def item_pw(it: dict) -> PW:
    p = PW()
    s = F(-1) if it["neg"] else F(1)
    if it["t"] == "abs":
        p.abs.append((s * kv(it["k"]), tms_lin(it["body"])))
    else:
        p.lin = l_scale(tm_lin(it["tm"]), s)
    return p


def sitem_pw(it: dict) -> PW:
    if it["t"] != "group":
        return item_pw(it)
    inner = PW()
    for x in it["items"]:
        inner.add(item_pw(x))
    p = PW()
    p.add(inner, (F(-1) if it["neg"] else F(1)) * kv(it["k"]))
    return p


def side_pw(side: List[dict]) -> PW:
    p = PW()
    for it in side:
        p.add(sitem_pw(it))
    return p


def atoms_of(expr: dict) -> List[PW]:
    """the written relation as a conjunction of `pw <= 0`"""
    if expr["t"] == "eq":
        l, r = PW(), PW()
        l.lin, r.lin = tms_lin(expr["l"]), tms_lin(expr["r"])
        return [PW().add(l).add(r, F(-1)), PW().add(r).add(l, F(-1))]
    sides = [side_pw(s) for s in expr["sides"]]
    out = []
    for a, b in zip(sides, sides[1:]):
        out.append(PW().add(a).add(b, F(-1)) if expr["t"] == "leq" else PW().add(b).add(a, F(-1)))
    return out


def canon_abs(e: Lin) -> Tuple[Tuple, Lin]:
    """|e| = |-e|: canonical representative (first non-zero coefficient positive)"""
    items = sorted(e[0].items())
    lead = items[0][1] if items else e[1]
    if lead < 0:
        e = l_scale(e, F(-1))
        items = sorted(e[0].items())
    return (tuple(items), e[1]), e


# ------------------------------------------------------------------------------------------------
# rendering: tree -> tokens -> string, in spellings the real parser accepts (whitelist, established by probing)


def dec_str(v: F) -> str:
    """exact decimal expansion of a non-negative dyadic rational"""
    assert v >= 0
    n, d = v.numerator, v.denominator
    if d == 1:
        return str(n)
    k = 0
    while d % 2 == 0:
        d //= 2
        k += 1
    assert d == 1, "dyadic numbers only"
    s = str(n * 5 ** k).rjust(k + 1, "0")
    return s[:-k] + "." + s[-k:]


NUM_FORMS_INT = ["n", "n.0", "n.", "ne0", "nE0", "n.0e+0", "(2n/2)", "(n*1)"]
NUM_FORMS_FRAC = ["d", ".d", "d0", "de0", "sci", "(p/q)", "(d*1)"]
CONNS = ["", " ", "*", " * "]


def num_tokens(v: F, form: str) -> List[str]:
    """tokens of the literal `v >= 0` in the given form"""
    if v.denominator == 1:
        n = str(v.numerator)
        return {
            "n": [n], "n.0": [n + ".0"], "n.": [n + "."], "ne0": [n + "e0"], "nE0": [n + "E0"], "n.0e+0": [n + ".0e+0"],
            "(2n/2)": ["(", str(2 * v.numerator), "/", "2", ")"], "(n*1)": ["(", n, "*", "1", ")"],
        }[form]
    d = dec_str(v)
    if form == ".d":
        return [d[1:]] if d.startswith("0.") else [d]
    if form == "sci":
        digits = d.replace(".", "").lstrip("0") or "0"
        return [digits + "e-" + str(len(d.split(".")[1]))]
    return {
        "d": [d], "d0": [d + "0"], "de0": [d + "e0"],
        "(p/q)": ["(", str(v.numerator), "/", str(v.denominator), ")"], "(d*1)": ["(", d, "*", "1", ")"],
    }[form]


class Style:
    """spelling choices; `fixed` pins a number form / connector (whitelist stream)"""

    def __init__(self, rng: random.Random, plain: bool = False, fixed_form: Optional[str] = None, fixed_conn: Optional[str] = None):
        self.rng, self.plain, self.fixed_form, self.fixed_conn = rng, plain, fixed_form, fixed_conn

    def literal(self, v: F, allow_paren: bool) -> List[str]:
        forms = NUM_FORMS_INT if v.denominator == 1 else NUM_FORMS_FRAC
        if self.fixed_form in forms and (allow_paren or not self.fixed_form.startswith("(")):
            return num_tokens(v, self.fixed_form)
        if self.plain:
            return num_tokens(v, forms[0])
        ok = [f for f in forms if allow_paren or not f.startswith("(")]
        w = [6 if f in ("n", "d") else 1 for f in ok]
        return num_tokens(v, self.rng.choices(ok, w)[0])

    def conn(self) -> List[str]:
        c = self.fixed_conn if self.fixed_conn is not None else ("*" if self.plain else self.rng.choice(CONNS))
        return ["*"] if "*" in c else []

    def tight(self) -> bool:
        """no space between a multiplier and what it multiplies"""
        if self.fixed_conn is not None:
            return " " not in self.fixed_conn
        return (not self.plain) and self.rng.random() < 0.5

    def plus_first(self) -> bool:
        return (not self.plain) and self.rng.random() < 0.1

    def eq_tok(self) -> str:
        return "=" if self.plain else self.rng.choice(["=", "=="])


GLUE = "\u0001"  # marks "no space here" between two tokens


def r_arith(a: dict, st: Style, parent: int = 0, right: bool = False) -> List[str]:
    """infix with the fewest parentheses: a left operand of the same level is a chain, a right one is parenthesised"""
    if "n" in a:
        return st.literal(F(a["n"]), allow_paren=False)
    lvl = 1 if a["op"] in "+-" else 2
    toks = r_arith(a["a"], st, lvl, False) + [a["op"]] + r_arith(a["b"], st, lvl, True)
    if lvl < parent or (lvl == parent and right):
        return ["("] + toks + [")"]
    return toks


def r_number(k: dict, st: Style) -> List[str]:
    """a multiplier or a constant: a literal in any form, or parenthesised arithmetic"""
    if "n" in k:
        return st.literal(F(k["n"]), allow_paren=True)
    return ["("] + r_arith(k, st) + [")"]


def r_mult(k: dict, st: Style, rest: List[str]) -> List[str]:
    head = r_number(k, st) + st.conn()
    return head + ([GLUE] if st.tight() else []) + rest


def r_sign(neg: bool, first: bool, st: Style) -> List[str]:
    if neg:
        return ["-"]
    if first:
        return ["+"] if st.plus_first() else []
    return ["+"]


def r_tm(tm: dict, st: Style) -> List[str]:
    t = tm["t"]
    if t == "var":
        return [tm["x"]]
    if t == "kvar":
        return r_mult(tm["k"], st, [tm["x"]])
    if t == "kparen":
        return r_mult(tm["k"], st, ["("] + r_tms(tm["ts"], st) + [")"])
    if t == "paren":
        return ["("] + r_tms(tm["ts"], st) + [")"]
    return r_number(tm["k"], st)


def r_tms(ts: List[dict], st: Style) -> List[str]:
    out: List[str] = []
    for i, e in enumerate(ts):
        out += r_sign(e["neg"], i == 0, st) + r_tm(e["tm"], st)
    return out


def r_item(it: dict, first: bool, st: Style) -> List[str]:
    s = r_sign(it["neg"], first, st)
    if it["t"] == "abs":
        bars = ["|"] + r_tms(it["body"], st) + ["|"]
        return s + (bars if it["k"] is None else r_mult(it["k"], st, bars))
    return s + r_tm(it["tm"], st)


def r_sitem(it: dict, first: bool, st: Style) -> List[str]:
    if it["t"] != "group":
        return r_item(it, first, st)
    body: List[str] = []
    for i, x in enumerate(it["items"]):
        body += r_item(x, i == 0, st)
    par = ["("] + body + [")"]
    return r_sign(it["neg"], first, st) + (par if it["k"] is None else r_mult(it["k"], st, par))


def r_side(side: List[dict], st: Style) -> List[str]:
    out: List[str] = []
    for i, it in enumerate(side):
        out += r_sitem(it, i == 0, st)
    return out


def r_expr(e: dict, st: Style) -> List[str]:
    if e["t"] == "eq":
        return r_tms(e["l"], st) + [st.eq_tok()] + r_tms(e["r"], st)
    op = "<=" if e["t"] == "leq" else ">="
    out: List[str] = []
    for i, s in enumerate(e["sides"]):
        out += ([op] if i else []) + r_side(s, st)
    return out


def join(toks: List[str], rng: Optional[random.Random]) -> str:
    """arbitrary spacing (none / one / two blanks) between tokens; GLUE forces none"""
    out = ""
    prev_glue = True
    for t in toks:
        if t == GLUE:
            prev_glue = True
            continue
        if out and not prev_glue:
            out += " " if rng is None else rng.choice(["", " ", " ", "  "])
        out += t
        prev_glue = False
    if rng is not None and rng.random() < 0.1:
        out = " " + out + " "
    return out


def plain_tokens(e: dict) -> List[str]:
    return [t for t in r_expr(e, Style(random.Random(0), plain=True)) if t != GLUE]


def spellings(e: dict, rng: random.Random, k: int = 3, **fixed) -> List[str]:
    out = [join(r_expr(e, Style(rng, plain=True)), None)] if not fixed else []
    tries = 0
    while len(out) < k and tries < 12:
        tries += 1
        s = join(r_expr(e, Style(rng, **fixed)), rng)
        if s not in out or tries > 8:
            out.append(s)
    return out


# ------------------------------------------------------------------------------------------------
# a liberal recogniser (accepts a superset of the grammar): what it rejects is certainly malformed

REL = {"<=", ">=", "=", "=="}


def _is_num(t: str) -> bool:
    return t[0].isdigit() or (t[0] == "." and len(t) > 1)


def _is_var(t: str) -> bool:
    return t[0].isalpha()


def liberal_accepts(toks: List[str]) -> bool:
    pos = 0

    def peek():
        return toks[pos] if pos < len(toks) else None

    def atom(in_bar: bool) -> bool:
        nonlocal pos
        t = peek()
        if t is None:
            return False
        if _is_num(t) or _is_var(t):
            pos += 1
            return True
        if t == "(":
            pos += 1
            if not summ(False) or peek() != ")":
                return False
            pos += 1
            return True
        if t == "|":
            pos += 1
            if not summ(True) or peek() != "|":
                return False
            pos += 1
            return True
        return False

    def prod(in_bar: bool) -> bool:
        nonlocal pos
        if not atom(in_bar):
            return False
        while True:
            t = peek()
            if t in ("*", "/"):
                pos += 1
                if not atom(in_bar):
                    return False
            elif t is not None and (_is_num(t) or _is_var(t) or t == "(" or (t == "|" and not in_bar)):
                if not atom(in_bar):
                    return False
            else:
                return True

    def summ(in_bar: bool) -> bool:
        nonlocal pos
        if peek() in ("+", "-"):
            pos += 1
        if not prod(in_bar):
            return False
        while peek() in ("+", "-"):
            pos += 1
            if not prod(in_bar):
                return False
        return True

    if any(not (t in REL or t in "+-*/()|" or _is_num(t) or _is_var(t)) for t in toks) or not toks:
        return False
    if not summ(False):
        return False
    rels = []
    while peek() in REL:
        rels.append("=" if toks[pos] in ("=", "==") else toks[pos])
        pos += 1
        if not summ(False):
            return False
    if pos != len(toks) or not rels:
        return False
    return len(set(rels)) == 1 and (rels[0] != "=" or len(rels) == 1)


JUNK = ["+", "-", "*", "/", "(", ")", "|", "<=", ">=", "=", "==", "x", "2", "<", ">", "#", "!", "<>", "=<", "=>", "&"]


def mutate(toks: List[str], rng: random.Random) -> Optional[List[str]]:
    t = list(toks)
    m = rng.random()
    if m < 0.4 and len(t) > 1:
        del t[rng.randrange(len(t))]
    elif m < 0.8:
        t.insert(rng.randint(0, len(t)), rng.choice(JUNK))
    elif m < 0.9 and len(t) > 1:
        i = rng.randrange(len(t) - 1)
        t[i], t[i + 1] = t[i + 1], t[i]
    else:
        i = rng.randrange(len(t))
        t.insert(i, t[i])
    return None if liberal_accepts(t) else t


# ------------------------------------------------------------------------------------------------
# generators

POOL = [F(1), F(2), F(1, 2), F(3), F(4), F(3, 2), F(1, 4), F(5), F(8)]
POW2 = [F(1), F(2), F(4), F(1, 2)]


def g_leaf(rng) -> dict:
    return num(rng.choice([1, 2, 3, 4, F(1, 2)]))


def g_arith(rng: random.Random, zero_ok: bool = False, zero_div: bool = False) -> dict:
    """parenthesised constant arithmetic that cannot be read as `terms` (it contains `*` or `/` after a number), with
    dyadic values; chains on purpose"""
    a, b, c, d = g_leaf(rng), g_leaf(rng), g_leaf(rng), g_leaf(rng)
    p, q = num(rng.choice(POW2)), num(rng.choice(POW2))
    if zero_div:
        return rng.choice([aop("/", a, num(0)), aop("/", a, aop("-", b, b)), aop("/", aop("*", a, b), num(0)),
                           aop("+", c, aop("/", a, aop("-", b, b)))])
    for _ in range(20):
        t = rng.choice([
            aop("*", a, b), aop("/", a, p), aop("+", a, aop("*", b, c)), aop("-", a, aop("*", b, c)),
            aop("+", aop("*", a, b), c), aop("-", aop("*", a, b), c), aop("*", aop("+", a, b), c), aop("*", aop("-", a, b), c),
            aop("/", aop("+", a, b), p), aop("/", aop("-", a, b), p), aop("/", a, aop("+", p, p)), aop("/", a, aop("-", num(F(p["n"]) * 2), p)),
            # chains
            aop("*", aop("*", a, b), c), aop("/", aop("/", a, p), q), aop("*", aop("/", a, p), c), aop("/", aop("*", a, b), p),
            aop("+", aop("+", a, aop("*", b, c)), d), aop("-", aop("-", a, aop("/", b, p)), c),
            aop("+", aop("+", aop("*", a, b), aop("*", c, d)), p), aop("+", a, aop("*", aop("*", b, c), d)),
        ])
        v = arith_val(t)
        if v != 0 or zero_ok:
            return t
    return aop("*", a, b)


def g_num(rng: random.Random, p_arith: float = 0.2, zero_div: float = 0.0) -> dict:
    if zero_div and rng.random() < zero_div:
        return g_arith(rng, zero_div=True)
    if rng.random() < p_arith:
        return g_arith(rng)
    return num(rng.choice(POOL[:5] if rng.random() < 0.8 else POOL))


def g_tm(rng: random.Random, vs: List[str], depth: int, zd: float = 0.0) -> dict:
    r = rng.random()
    if depth <= 0 or r < 0.55:
        r2 = rng.random()
        if r2 < 0.45:
            return t_var(rng.choice(vs))
        if r2 < 0.85:
            return t_kvar(g_num(rng, zero_div=zd), rng.choice(vs))
        return t_const(g_num(rng, zero_div=zd) if rng.random() < 0.8 else aop(rng.choice("+-"), g_leaf(rng), g_leaf(rng)))
    if r < 0.8:
        return t_kparen(g_num(rng, zero_div=zd), g_tms(rng, vs, depth - 1, zd))
    return t_paren(g_tms(rng, vs, depth - 1, zd))


def g_tms(rng: random.Random, vs: List[str], depth: int, zd: float = 0.0, n: Optional[int] = None) -> List[dict]:
    n = n or rng.choice([1, 1, 2, 2, 3])
    out = [sg(rng.random() < 0.3, g_tm(rng, vs, depth, zd)) for _ in range(n)]
    if len(out) >= 2 and rng.random() < 0.25:  # a repeated variable on purpose (often cancelling)
        x = rng.choice(vs)
        out[0] = sg(False, rng.choice([t_var(x), t_kvar(num(2), x)]))
        out[-1] = sg(rng.random() < 0.6, rng.choice([t_var(x), t_kvar(num(2), x), t_kvar(num(1), x)]))
    return out


def g_abs_body(rng: random.Random, vs: List[str], depth: int, pool: List[List[dict]]) -> List[dict]:
    """argument of an absolute value; reuses an earlier argument (or a permutation of it) on purpose"""
    if pool and rng.random() < 0.5:
        b = [dict(e) for e in rng.choice(pool)]
        if len(b) > 1 and rng.random() < 0.4 and not b[1]["neg"] and not b[0]["neg"]:
            b[0], b[1] = b[1], b[0]
        return b
    b = g_tms(rng, vs, depth)
    # zero multipliers are kept out of absolute values (the sign of a float zero is visible in the printed term
    # list the implementation compares, and has no counterpart in exact arithmetic)
    pool.append(b)
    return b


def g_item(rng, vs, depth, want_abs: bool, abs_neg: bool, pool, budget: List[int], zd: float) -> dict:
    if want_abs and budget[0] > 0:
        budget[0] -= 1
        k = None if rng.random() < 0.5 else g_num(rng, p_arith=0.1)
        return i_abs(abs_neg, k, g_abs_body(rng, vs, min(depth, 1), pool))
    return i_tm(rng.random() < 0.3, g_tm(rng, vs, depth, zd))


def g_side(rng, vs, depth, p_abs: float, abs_neg: bool, pool, budget, zd: float, const_only: bool = False) -> List[dict]:
    if const_only:
        return [i_tm(rng.random() < 0.2, t_const(g_num(rng, p_arith=0.3, zero_div=zd)))]
    out = []
    for _ in range(rng.choice([1, 1, 2, 2, 3])):
        if rng.random() < 0.2:
            neg = rng.random() < 0.25
            items = [g_item(rng, vs, max(depth - 1, 0), rng.random() < p_abs, abs_neg != neg, pool, budget, zd)
                     for _ in range(rng.choice([1, 2, 2, 3]))]
            out.append(s_group(neg, None if rng.random() < 0.4 else g_num(rng, p_arith=0.15, zero_div=zd), items))
        else:
            out.append(g_item(rng, vs, depth, rng.random() < p_abs, abs_neg, pool, budget, zd))
    return out


def g_expr(rng: random.Random) -> dict:
    vs = VARS4[: rng.choice([1, 2, 2, 3, 4])] if rng.random() < 0.7 else rng.sample(VARS4, rng.randint(1, 4))
    depth = rng.choice([1, 1, 2, 2, 3])
    zd = 0.04 if rng.random() < 0.5 else 0.0
    r = rng.random()
    if r < 0.15:
        return {"t": "eq", "l": g_tms(rng, vs, depth, zd), "r": g_tms(rng, vs, depth, zd)}
    op = "leq" if rng.random() < 0.55 else "geq"
    n = rng.choice([2, 2, 2, 3, 3, 4])
    pool: List[List[dict]] = []
    budget = [rng.choice([1, 2, 2, 3, MAX_ABS])]
    convex = rng.random() < 0.7
    sides = []
    # `<=`: absolute values are convex on the small end (first side, positive) or negated on the large end
    small = 0 if op == "leq" else n - 1
    large = n - 1 if op == "leq" else 0
    for i in range(n):
        if convex:
            if i == small:
                p_abs, neg = 0.6, False
            elif i == large and n == 2:
                p_abs, neg = 0.3, True
            else:
                p_abs, neg = 0.0, False
        else:
            p_abs, neg = 0.35, rng.random() < 0.3
        sides.append(g_side(rng, vs, depth, p_abs, neg, pool, budget, zd, const_only=rng.random() < 0.15))
    return {"t": op, "sides": sides}


def exhaustive_small() -> List[dict]:
    """left side: two items from {c*v, c*|v|} (c in {1, 2, 1/2, -1}, v in {x, y}); right side in {1, x, |x|, 2y + 1};
    `<=` and `>=`"""
    def coef_item(c, v, absolute):
        neg, k = (True, None) if c == -1 else (False, None if c == 1 else num(c))
        if absolute:
            return i_abs(neg, k, [sg(False, t_var(v))])
        return i_tm(neg, t_var(v) if k is None else t_kvar(k, v))

    items = [coef_item(c, v, a) for a in (False, True) for v in ("x", "y") for c in (1, 2, F(1, 2), -1)]
    rights = [
        [i_tm(False, t_const(num(1)))],
        [i_tm(False, t_var("x"))],
        [i_abs(False, None, [sg(False, t_var("x"))])],
        [i_tm(False, t_kvar(num(2), "y")), i_tm(False, t_const(num(1)))],
    ]
    out = []
    for a, b in itertools.product(items, items):
        for r in rights:
            for op in ("leq", "geq"):
                out.append({"t": op, "sides": [[a, b], r]})
    return out


def whitelist_cases(rng: random.Random) -> List[dict]:
    """every number form x connector in every position it may stand in"""
    out = []
    x, y = t_var("x"), t_var("y")
    for v in (F(2), F(1, 2), F(3, 2)):
        forms = NUM_FORMS_INT if v.denominator == 1 else NUM_FORMS_FRAC
        k = num(v)
        shapes = [
            {"t": "leq", "sides": [[i_tm(False, t_kvar(k, "x")), i_tm(True, t_kvar(k, "y"))], [i_tm(False, t_const(k))]]},
            {"t": "geq", "sides": [[i_tm(False, y), i_tm(True, t_kparen(k, [sg(False, x), sg(True, t_const(k))]))], [i_tm(True, t_const(k))]]},
            {"t": "leq", "sides": [[i_abs(False, k, [sg(True, x), sg(False, t_const(k))]), i_abs(False, k, [sg(False, y)])], [i_tm(False, t_const(k))]]},
            {"t": "leq", "sides": [[i_tm(False, y), s_group(False, k, [i_abs(False, None, [sg(False, x)]), i_tm(True, t_kvar(k, "y"))])], [i_tm(False, t_const(num(3)))]]},
            {"t": "geq", "sides": [[i_tm(False, t_const(k))], [s_group(True, k, [i_abs(True, k, [sg(False, x)]), i_tm(False, t_const(k))])]]},
            {"t": "eq", "l": [sg(False, t_kvar(k, "x")), sg(False, t_const(k))], "r": [sg(True, t_kparen(k, [sg(False, y)]))]},
        ]
        for f in forms:
            for c in CONNS:
                for e in shapes:
                    out.append({"kind": "whitelist", "expr": e, "strings": spellings(e, rng, 3, fixed_form=f, fixed_conn=c),
                                "tags": ["whitelist", "form:" + f, "conn:" + repr(c)]})
    return out


def count_abs(e: dict) -> int:
    if e["t"] == "eq":
        return 0
    n = 0
    for s in e["sides"]:
        for it in s:
            n += sum(1 for x in it["items"] if x["t"] == "abs") if it["t"] == "group" else (1 if it["t"] == "abs" else 0)
    return n


def tags_of(e: dict) -> List[str]:
    tg = [e["t"]]
    if e["t"] != "eq":
        tg.append("sides:%d" % len(e["sides"]))
        if len(e["sides"]) >= 3:
            tg.append("chain3+")
        if count_abs(e):
            tg.append("abs")
        if any(it["t"] == "group" for s in e["sides"] for it in s):
            tg.append("group")
        if any(all(it["t"] == "tm" and it["tm"]["t"] == "const" for it in s) for s in e["sides"]):
            tg.append("const-only-side")
        keys = []
        for s in e["sides"]:
            for it in s:
                for x in (it["items"] if it["t"] == "group" else [it]):
                    if x["t"] == "abs":
                        try:
                            keys.append(canon_abs(tms_lin(x["body"]))[0])
                        except ZeroDiv:
                            pass
        if len(keys) != len(set(keys)):
            tg.append("abs-repeated")
    js = json.dumps(e)
    if '"op"' in js:
        tg.append("arith")
        if _any_chain(e):
            tg.append("arith-chain")
    if '"kparen"' in js or '"paren"' in js:
        tg.append("nested")
    return tg


def _any_chain(o: Any) -> bool:
    if isinstance(o, dict):
        if "op" in o and arith_has_chain(o):
            return True
        return any(_any_chain(v) for v in o.values())
    if isinstance(o, list):
        return any(_any_chain(v) for v in o)
    return False


def names_in(o: Any, acc: set) -> set:
    if isinstance(o, dict):
        if "x" in o and isinstance(o["x"], str):
            acc.add(o["x"])
        for v in o.values():
            names_in(v, acc)
    elif isinstance(o, list):
        for v in o:
            names_in(v, acc)
    return acc


def to_wire(o: Any, vm: C.VarMap) -> Any:
    if isinstance(o, dict):
        return {k: (vm.i(v) if k == "x" and isinstance(v, str) else to_wire(v, vm)) for k, v in o.items()}
    if isinstance(o, list):
        return [to_wire(v, vm) for v in o]
    return o


# ------------------------------------------------------------------------------------------------


_DRV = None


def lp_stream(problems: List[Tuple[dict, List[dict]]], vm: C.VarMap) -> List[dict]:
    """the same certified `lp` op as `judge.lp_batch`, through one driver process kept open per worker (starting the
    driver costs more than a whole case); requests go out in chunks so neither pipe can fill up"""
    global _DRV
    import subprocess

    reqs = [{"id": i, "op": "lp", "obj": [[vm.i(v), C.qs(c)] for v, c in obj.items() if c != 0], "cs": G.w_tl(cs, vm)}
            for i, (obj, cs) in enumerate(problems)]
    out: List[dict] = []
    for attempt in (0, 1):
        try:
            if _DRV is None or _DRV.poll() is not None:
                _DRV = subprocess.Popen([C.DRIVER], stdin=subprocess.PIPE, stdout=subprocess.PIPE, text=True)
            out = []
            for i in range(0, len(reqs), 40):
                chunk = reqs[i:i + 40]
                _DRV.stdin.write("".join(json.dumps(r, separators=(",", ":")) + "\n" for r in chunk))
                _DRV.stdin.flush()
                for _ in chunk:
                    line = _DRV.stdout.readline()
                    if not line:
                        raise OSError("driver closed the pipe")
                    out.append(json.loads(line))
            break
        except (OSError, ValueError):
            try:
                _DRV.kill()
            except Exception:  # noqa
                pass
            _DRV = None
            if attempt:
                return J.lp_batch(problems, vm)
    if [o.get("id") for o in out] != list(range(len(reqs))):
        return J.lp_batch(problems, vm)
    return out


def parse_once(s: str) -> dict:
    from pacti.terms.polyhedra.serializer import polyhedral_termlist_from_string

    try:
        r = polyhedral_termlist_from_string(s)
    except BaseException as e:  # noqa
        return {"err": C.classify_exc(e), "msg": str(e)[:160]}
    return {"ok": [G.un_term(t) for t in r]}


def same_result(a: dict, b: dict) -> bool:
    if "err" in a or "err" in b:
        return a.get("err") == b.get("err")
    return [G.mk_key(t) for t in a["ok"]] == [G.mk_key(t) for t in b["ok"]]


_IDENT = re.compile(r"[A-Za-z][A-Za-z0-9_]*")


class C09(Check):
    __doc__ = __doc__
    pid = "C09"
    title = "Parsing a constraint string preserves its arithmetic meaning"
    level_text = ('Lean theorems translate_sound (Props/C09Full: every expression tree, all depths and sizes; checks only against a source whose '
                  '_combine_optional_floats(None, None) returns 2.0 and whose arithmetic parse actions fold whole chains — both facts are read off the '
                  'source by the translator), translate_sound_fixed / translate_sound_of_fix, translate_unsound_pinned and translate_unsound_arith_pinned '
                  '(the pinned code is unsound on |x|+|x| <= 2 and on (2*3*4)x <= 1), translate_rejects_nonconvex / translate_convex_only_if, '
                  'translate_error_kinds, about the executable model of the parse actions and the serializer; fromChars_sound / fromChars_error_kinds_now '
                  '(Props/C09Parse) about the model of the whole function from the characters on (Model/Parse.lean: lexical level + pyparsing\'s ordered choice, '
                  'then the parse actions): for EVERY string, a returned term list means what the tree built from all its tokens denotes, and a rejection is one of '
                  'the documented errors; tied to the parser by rendering each tree in 3 whitelisted spellings and comparing the ordered term list / error kind both '
                  'for the tree and for each string read by the model parser (malformed strings included); judge: sign-cell enumeration + certified exact LP decides '
                  'equivalence of the parsed terms and the written relation over all real points, independently of the model.')
    lean_modules = ["Pacti.Props.C09", "Pacti.Props.C09Full", "Pacti.Props.C09Parse"]
    gen_sources = ["src/pacti/terms/polyhedra/syntax/data.py", "src/pacti/terms/polyhedra/syntax/grammar.py"]
    theorems = ["Pacti.C09.translate_sound", "Pacti.C09.translate_sound_fixed", "Pacti.C09.translate_sound_of_fix",
                "Pacti.C09.translate_unsound_pinned", "Pacti.C09.translate_unsound_arith_pinned", "Pacti.C09.translate_unsound_arith_only",
                "Pacti.C09.translate_unsound_of_pinned", "Pacti.C09.translate_rejects_nonconvex", "Pacti.C09.translate_convex_only_if",
                "Pacti.C09.translate_error_kinds", "Pacti.C09.fromChars_sound", "Pacti.C09.fromChars_error_kinds", "Pacti.C09.fromChars_error_kinds_now"]
    quick_n = 1000
    thorough_n = 30000
    judge_sample = 10 ** 9  # the judge is exact and cheap here: every case is judged, in every tier
    trusted_base = [
        "Lean 4.33 kernel; axioms ⊆ {propext, Classical.choice, Quot.sound}",
        "hand-written model Model/Syntax.lean (parse actions of grammar.py, data.py, serializer conversion) tied to the parser by this correspondence run",
        "Gen/Consts.lean (combineNoneNone, arithFold) regenerated from data.py / grammar.py by tools/py2lean.py",
        "pyparsing's tokenisation and first-match alternation are modelled by hand (Model/Parse.lean: token classes, ordered choice without re-entry, parse actions firing inside abandoned alternatives) and tied to pyparsing by this run only: every generated string (3 spellings per tree from a whitelist established by probing, plus the malformed stream) is read by both; no theorem says that the tree built is the reading a person expects",
        "the printed-term-list equality of same_term_list is modelled as equality of (constant, factors sorted by variable); the sign of a float zero has no counterpart (zero multipliers are kept out of absolute values by the generator)",
        "harness: renderer, generators, the liberal recogniser that certifies malformed strings, the judge's own piecewise-linear reading of a tree",
    ]
    assumptions = ["floats denote the exact rationals they are; generated numbers are dyadic so float arithmetic is exact",
                   "at most 4 absolute values per expression (16 sign cells)",
                   "a convexity error is accepted whenever some written absolute value has a non-positive multiplier after moving a pair of sides to one side (the implementation decides per printed term list)",
                   "ZeroDivisionError from constant arithmetic dividing by zero is accepted here (its documentation status is C14's subject)"]
    min_branches = {"ok": 1500, "ConvexError": 300, "zero-div-tree": 5, "abs": 1500, "abs-repeated": 300, "chain3+": 150,
                    "eq": 60, "geq": 500, "leq": 500, "group": 100, "const-only-side": 80, "arith": 150, "arith-chain": 40, "nested": 150,
                    "malformed:SyntaxError": 150, "whitelist": 300, "expanded>=4": 100, "cells>=4": 100}

    # ---- generation ------------------------------------------------------------------------------
    def generate(self, rng, n, tier):
        out = []
        for e in exhaustive_small():
            out.append({"kind": "valid", "expr": e, "strings": spellings(e, rng), "tags": tags_of(e) + ["exhaustive"]})
        out += whitelist_cases(rng)
        valid_tokens = []
        for _ in range(n):
            for _try in range(50):
                e = g_expr(rng)
                if count_abs(e) <= MAX_ABS and len(plain_tokens(e)) <= MAX_TOKENS:
                    break
            out.append({"kind": "valid", "expr": e, "strings": spellings(e, rng), "tags": tags_of(e) + ["random"]})
            try:  # malformed strings are derived from trees that do not divide by zero (the parse actions run, and
                atoms_of(e)  # raise, before a later syntax error is noticed)
                valid_tokens.append(plain_tokens(e))
            except ZeroDiv:
                pass
        for _ in range(max(200, n // 4)):
            base = rng.choice(valid_tokens)
            for _try in range(20):
                m = mutate(base, rng)
                if m is not None:
                    out.append({"kind": "malformed", "strings": [" ".join(m)], "tags": ["malformed"], "from": " ".join(base)})
                    break
        rng.shuffle(out)  # long random strings parse 10x slower than the small shapes: spread them over the workers
        return out

    # ---- implementation and model -----------------------------------------------------------------
    def run_impl(self, case):
        res, again = [], []
        for s in case["strings"]:
            a, b = parse_once(s), parse_once(s)
            res.append(a)
            again.append(same_result(a, b))
        return {"res": res, "reparse_equal": again}

    @staticmethod
    def _vm(case) -> C.VarMap:
        """one variable table per case: the names of the tree and every identifier-shaped word of the strings (an
        unused extra such as the `e5` of `1e5` only shifts indices)"""
        names = set()
        if case["kind"] != "malformed":
            names |= names_in(case["expr"], set())
        for s in case["strings"]:
            names |= set(_IDENT.findall(s))
        return C.VarMap(names)

    def model_request(self, case, impl):
        # the strings themselves go through the model of the lexical level and of pyparsing's ordered choice
        # (Model/Parse.lean); for a valid case the tree the harness meant goes through the parse actions as before
        vm = self._vm(case)
        req = {"op": "parse_strs", "strings": case["strings"], "names": [vm.n(i) for i in range(len(vm.names))]}
        if case["kind"] != "malformed":
            req["expr"] = to_wire(case["expr"], vm)
        return req

    @staticmethod
    def _same(r: dict, m: dict, vm: C.VarMap) -> Optional[str]:
        """implementation result of one string vs a model result"""
        if "err" in m:
            if r.get("err") != m["err"]:
                return f"implementation {r.get('err', 'parsed')}, model {m['err']}"
            return None
        if "err" in r:
            return f"implementation {r['err']}, model parsed {len(m['ok'])} terms"
        try:
            w = G.w_tl(r["ok"], vm)
        except KeyError as e:
            return f"implementation mentions an unknown variable {e}"
        if not C.tls_close(w, m["ok"]):
            return f"term lists differ: implementation {[C.wire_to_str(t, vm) for t in w]}, model {[C.wire_to_str(t, vm) for t in m['ok']]}"
        return None

    def compare(self, case, impl, model):
        vm = self._vm(case)
        if "res" not in impl:
            return "implementation run failed: " + str(impl)[:300]
        # (a) every string, read by the model parser, against the implementation
        for s, r, m in zip(case["strings"], impl["res"], model.get("parsed", [])):
            d = self._same(r, m, vm)
            if d is not None:
                return f"string {s!r} (model parser): " + d
        if case["kind"] == "malformed":
            return None
        # (b) the tree the harness meant, through the parse actions, against the implementation (as before)
        for s, r in zip(case["strings"], impl.get("res", [])):
            if "err" in model:
                if r.get("err") != model["err"]:
                    return f"string {s!r}: implementation {r.get('err', 'parsed')}, model {model['err']}"
            elif "err" in r:
                return f"string {s!r}: implementation {r['err']}, model parsed {len(model['ok'])} terms"
            else:
                try:
                    w = G.w_tl(r["ok"], vm)
                except KeyError as e:
                    return f"string {s!r}: implementation mentions an unknown variable {e}"
                if not C.tls_close(w, model["ok"]):
                    return f"string {s!r}: term lists differ: implementation {[C.wire_to_str(t, vm) for t in w]}, model {[C.wire_to_str(t, vm) for t in model['ok']]}"
        if "res" not in impl:
            return "implementation run failed: " + str(impl)[:300]
        return None

    # ---- judge (independent of the model) -----------------------------------------------------------
    def judge(self, case, impl):
        if "res" not in impl:
            return {"signature": "parse:harness", "what": "the implementation run crashed outside the parser: " + str(impl)[:300], "witness": None, "infra": True}
        for s, ok in zip(case["strings"], impl["reparse_equal"]):
            if not ok:
                return {"signature": "parse:reparse-differs", "what": f"parsing {s!r} twice gave two different results", "witness": s}
        if case["kind"] == "malformed":
            for s, r in zip(case["strings"], impl["res"]):
                if r.get("err") != "SyntaxError":
                    return {"signature": "parse:malformed-not-rejected", "what": f"malformed string {s!r} (from {case.get('from')!r}) gave {r.get('err') or 'a term list'} instead of the syntax error",
                            "witness": s}
            return None
        e = case["expr"]
        try:
            atoms = atoms_of(e)
            zero_div = False
        except ZeroDiv:
            atoms, zero_div = [], True
        parsed = [r for r in impl["res"] if "ok" in r]
        for s, r in zip(case["strings"], impl["res"]):
            if "ok" in r:
                if zero_div:
                    return {"signature": "parse:division-by-zero-accepted", "what": f"{s!r} divides by zero in its constant arithmetic and was translated", "witness": s}
                v = self._equiv(atoms, r["ok"])
                if v is not None:
                    v["what"] = f"{s!r} is parsed as {[_tstr(t) for t in r['ok']]}: " + v["what"]
                    v["witness"] = {"string": s, "point": v["witness"]}
                    return v
            elif r["err"] in ("py:ZeroDivisionError", "ValueError"):
                # a division by zero in the constant arithmetic: ZeroDivisionError (pinned) or the documented ValueError;
                # whether the class is a documented one is C14's subject
                if not zero_div:
                    return {"signature": "parse:spurious-" + r["err"].replace("py:", ""), "what": f"{s!r} raised {r['err']} without dividing by zero", "witness": s}
            elif r["err"] == "ConvexError":
                if zero_div:
                    continue
                if all(c > 0 for a in atoms for c, _ in a.abs):
                    return {"signature": "parse:spurious-ConvexError", "what": f"{s!r} was rejected as non-convex although every absolute value has a positive multiplier after moving to one side",
                            "witness": s}
            elif r["err"] == "SyntaxError":
                if parsed:
                    return {"signature": "parse:spelling-rejected", "what": f"{s!r} is rejected with a syntax error although an equivalent spelling of the same tree ({case['strings']}) parses",
                            "witness": s}
            else:
                return {"signature": "parse:undocumented-exception:" + r["err"], "what": f"{s!r} raised {r['err']}: {r.get('msg')}", "witness": s}
        return None

    def _equiv(self, atoms: List[PW], terms: List[dict]) -> Optional[dict]:
        """is `AND terms` equivalent to `AND (atom <= 0)` at every real point?  Sign cells of the absolute-value arguments;
        on a cell both are linear; certified exact LP (driver) looks for a point where they differ."""
        reps: Dict[Tuple, Lin] = {}
        flat: List[Tuple[Lin, Dict[Tuple, F]]] = []
        for a in atoms:
            lin, cs = a.lin, {}
            for c, e in a.abs:
                if not e[0]:  # |constant|
                    lin = l_add(lin, ({}, abs(e[1])), c)
                    continue
                k, rep = canon_abs(e)
                reps.setdefault(k, rep)
                cs[k] = cs.get(k, F(0)) + c
            flat.append((lin, {k: c for k, c in cs.items() if c != 0}))
        keys = sorted(k for k in reps if any(k in cs for _, cs in flat))
        if len(keys) > 6:
            return {"signature": "judge:too-many-cells", "what": "more than 6 distinct absolute values", "witness": None, "infra": True}
        names = sorted(set(v for l, _ in flat for v in l[0]) | set(v for k in keys for v in reps[k][0]) | set(G.names_of(terms)))
        if not names:
            names = ["x"]
        tq = [({v: C.q(c) for v, c in t["c"].items()}, C.q(t["k"])) for t in terms]
        problems: List[Tuple[dict, List[dict]]] = []
        meta = []
        for signs in itertools.product((1, -1), repeat=len(keys)):
            cell = []
            for k, sgn in zip(keys, signs):  # sgn * e >= 0   <=>   -sgn*e.lin <= sgn*e.const
                e = reps[k]
                cell.append({"c": {v: -sgn * c for v, c in e[0].items()}, "k": sgn * e[1]})
            lins = []
            for lin, cs in flat:
                L = lin
                for k, sgn in zip(keys, signs):
                    if k in cs:
                        L = l_add(L, reps[k], cs[k] * sgn)
                lins.append(L)
            written = [{"c": dict(L[0]), "k": -L[1]} for L in lins]
            implt = [{"c": dict(c), "k": k} for c, k in tq]
            for t in implt:  # written relation and cell  |=  implementation term ?
                problems.append((t["c"], written + cell))
                meta.append(("impl-term-not-implied", t, signs))
            for wt in written:  # implementation terms and cell  |=  written atom ?
                problems.append((wt["c"], implt + cell))
                meta.append(("written-not-implied", wt, signs))
        vm = C.VarMap(names)
        answers = lp_stream(problems, vm)
        for (kind, goal, signs), (obj, cs), r in zip(meta, problems, answers):
            k = C.q(goal["k"])
            bad = False
            if r["status"] == "unbounded":
                bad = True
            elif r["status"] == "optimal" and F(r["m"]) > k + J.TOL * (1 + abs(k)):
                bad = True
            elif r["status"] not in ("optimal", "infeasible", "unbounded"):
                return {"signature": "judge:lp-" + r["status"], "what": "exact LP gave " + r["status"], "witness": None, "infra": True}
            if not bad:
                continue
            pt = None
            if r["status"] == "optimal":
                pt = {n: F(0) for n in names}
                for x, c in r["x"]:
                    pt[vm.n(int(x))] = F(c)
            else:
                for box in (10 ** 3, 10 ** 6, 10 ** 9):
                    st, m, p = J.exact_max(obj, cs + G.box_tl(names, -box, box))
                    if st == "optimal" and m > k + J.TOL * (1 + abs(k)):
                        pt = {n: p.get(n, F(0)) for n in names}
                        break
            if pt is None:
                return {"signature": "judge:no-witness", "what": "unbounded direction without a witness", "witness": None, "infra": True}
            # re-evaluate at the point with plain Fractions: written relation vs implementation terms
            wr = all(_pw_val(a, pt) <= 0 for a in atoms)
            im = all(sum(c[v] * pt.get(v, F(0)) for v in c) <= kk + J.TOL * (1 + abs(kk)) for c, kk in tq)
            wr_tol = all(_pw_val(a, pt) <= J.TOL for a in atoms)
            if kind == "impl-term-not-implied" and wr and not im:
                return {"signature": "parse:meaning-changed:too-strong", "what": "the written relation holds at the witness point, the parsed inequalities do not", "witness": J.pt_str(pt)}
            if kind == "written-not-implied" and im and not wr_tol:
                return {"signature": "parse:meaning-changed:too-weak", "what": "the parsed inequalities hold at the witness point, the written relation does not", "witness": J.pt_str(pt)}
            return {"signature": "judge:witness-not-confirmed", "what": f"LP witness {J.pt_str(pt)} not confirmed by direct evaluation ({kind})", "witness": None, "infra": True}
        return None

    # ---- bookkeeping ---------------------------------------------------------------------------------
    def branch(self, case, impl, model):
        b = list(case.get("tags", []))
        kinds = set()
        for r in impl.get("res", []):
            kinds.add("ok" if "ok" in r else r["err"])
            if "ok" in r and len(r["ok"]) >= 4:
                kinds.add("expanded>=4")
        if case["kind"] == "malformed":
            b += ["malformed:" + k for k in kinds]
        else:
            b += sorted(kinds)
            try:
                ks = {canon_abs(e)[0] for a in atoms_of(case["expr"]) for _, e in a.abs if e[0]}
                if len(ks) >= 2:
                    b.append("cells>=4")
            except ZeroDiv:
                b.append("zero-div-tree")
        return b

    def nontrivial(self, case, impl):
        return len(case["strings"][0].split()) >= 5 or len(case["strings"][0]) >= 9


def _pw_val(a: PW, pt: Dict[str, F]) -> F:
    ev = lambda l: sum(c * pt.get(v, F(0)) for v, c in l[0].items()) + l[1]  # noqa: E731
    return ev(a.lin) + sum(c * abs(ev(e)) for c, e in a.abs)


def _tstr(t: dict) -> str:
    lhs = " + ".join(f"{c}*{v}" for v, c in t["c"].items()) or "0"
    return f"{lhs} <= {t['k']}"


CHECK = C09()
