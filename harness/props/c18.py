"""C18: constraint lists over 2-4 variables (two plot variables + up to two fixed ones) with small-integer coefficients,
integer values and axis limits in [-5,5], either variable order inside the terms (the y-first column swap of
termlist_to_polytope).  Classes: convex polygons with 3-8 corners built from integer hulls (kept whole by the limits or
cut by them), random rows, degenerate vertices (three or more lines through a corner, duplicated and scaled rows), a
constraint identical to a boundary row (the `|` union does not duplicate it), degenerate slices (segment, single
point -> the 4-LP fallback), empty slices (contradictory rows, polygon outside the limits, reversed limits, a constant
row violated), constant rows that are satisfied (dropped), missing values, extra values, x or y given a value.

What is demanded (and nothing more): the *set* of returned points, snapped to rationals within 1e-7, equals the set
of corners of the slice polygon (segment -> its 2 endpoints, point -> 1 point; repetitions in the returned tuple are
not a violation, a missing or an extra point is); the listing, repetitions removed, is in counter-clockwise angular
order about the centroid *read cyclically* (a rotation of the sorted sequence is accepted: the float sign of a zero
`dy` moves the point at angle pi to the front, and the polygon is closed anyway); ValueError iff the slice is empty or
a constrained variable has no value.  For x or y given a value the property text is silent: the model (the code's
own documented ValueError) is compared, the judge abstains.  x_var == y_var is outside the quantifier ("two plot
variables") and is not generated (the code raises IndexError there; recorded as an `example` in Props/C18.lean).
Non-trivial = the glue succeeded (a system reached the engine)."""
from __future__ import annotations

import functools
import math
import random
from fractions import Fraction
from typing import Dict, List, Optional, Tuple

from .. import common as C
from .. import gen as G
from .. import judge as J
from ..framework import Check

SNAP_DEN = 10**6
SNAP_TOL = Fraction(1, 10**7)
NAMES_XY = [("x", "y"), ("y", "x"), ("p", "q"), ("u", "a"), ("b", "a"), ("m", "z")]
EXTRA = ["c", "k", "w", "e"]
POLY = {3: "triangle", 4: "quadrilateral", 5: "pentagon", 6: "hexagon", 7: "heptagon", 8: "octagon"}


# ---------------------------------------------------------------------------------------------------
# exact planar helpers (Python side; independent of the Lean model)


def _hull(points: List[Tuple[int, int]]) -> List[Tuple[int, int]]:
    """strict convex hull, counter-clockwise (Andrew's monotone chain)"""
    pts = sorted(set(points))
    if len(pts) <= 2:
        return pts

    def cr(o, a, b):
        return (a[0] - o[0]) * (b[1] - o[1]) - (a[1] - o[1]) * (b[0] - o[0])

    lo: List[Tuple[int, int]] = []
    for p in pts:
        while len(lo) >= 2 and cr(lo[-2], lo[-1], p) <= 0:
            lo.pop()
        lo.append(p)
    up: List[Tuple[int, int]] = []
    for p in reversed(pts):
        while len(up) >= 2 and cr(up[-2], up[-1], p) <= 0:
            up.pop()
        up.append(p)
    return lo[:-1] + up[:-1]


def _edge_rows(h: List[Tuple[int, int]]) -> List[Tuple[int, int, int]]:
    """outward half-planes a*x + b*y <= c of a CCW polygon, primitive integer normals"""
    rows = []
    for i, p in enumerate(h):
        q = h[(i + 1) % len(h)]
        a, b = q[1] - p[1], -(q[0] - p[0])
        g = math.gcd(abs(a), abs(b))
        a, b = a // g, b // g
        rows.append((a, b, a * p[0] + b * p[1]))
    return rows


def _ang_class(d) -> int:
    if d[1] < 0:
        return 0
    if d[1] > 0:
        return 2
    return 3 if d[0] < 0 else 1


def _ang_cmp(d, e) -> int:
    kd, ke = _ang_class(d), _ang_class(e)
    if kd != ke:
        return -1 if kd < ke else 1
    cr = d[0] * e[1] - d[1] * e[0]
    return -1 if cr > 0 else (1 if cr < 0 else 0)


def exact_corners(rows: List[Tuple[Fraction, Fraction, Fraction]]) -> List[Tuple[Fraction, Fraction]]:
    out = []
    for i in range(len(rows)):
        a1, b1, c1 = rows[i]
        for j in range(i + 1, len(rows)):
            a2, b2, c2 = rows[j]
            det = a1 * b2 - a2 * b1
            if det == 0:
                continue
            p = ((c1 * b2 - c2 * b1) / det, (a1 * c2 - a2 * c1) / det)
            if p in out:
                continue
            if all(a * p[0] + b * p[1] <= c for a, b, c in rows):
                out.append(p)
    return out


def slice_of(case: dict):
    """('arg', None) | ('missing', None) | ('violated-row', None) | ('rows', rows) — plain Fraction arithmetic"""
    x, y, vals = case["x"], case["y"], case["vals"]
    if x in vals or y in vals:
        return "arg", None
    for t in case["terms"]:
        for v in t["c"]:
            if v not in (x, y) and v not in vals and t["c"][v] != 0:
                return "missing", None
    rows = []
    for t in case["terms"]:
        a = C.q(t["c"].get(x, 0))
        b = C.q(t["c"].get(y, 0))
        k = C.q(t["k"]) - sum(C.q(c) * C.q(vals[v]) for v, c in t["c"].items() if v not in (x, y))
        if a == 0 and b == 0:
            if k < 0:
                return "violated-row", None
            continue
        rows.append((a, b, k))
    xl, yl = case["xl"], case["yl"]
    rows += [(Fraction(1), Fraction(0), C.q(xl[1])), (Fraction(-1), Fraction(0), -C.q(xl[0])),
             (Fraction(0), Fraction(1), C.q(yl[1])), (Fraction(0), Fraction(-1), -C.q(yl[0]))]
    return "rows", rows


def snap(v: float) -> Fraction:
    f = Fraction(v)
    s = f.limit_denominator(SNAP_DEN)
    return s if abs(s - f) <= SNAP_TOL else f


def snapped_points(impl: dict) -> List[Tuple[Fraction, Fraction]]:
    out: List[Tuple[Fraction, Fraction]] = []
    for px, py in impl["ok"]:
        p = (snap(px), snap(py))
        if p not in out:
            out.append(p)
    return out


# ---------------------------------------------------------------------------------------------------


class C18(Check):
    pid = "C18"
    title = "Plot vertices are exactly the corners of the plotted slice"
    level_text = ('Lean theorems glue_sem / glue_errors (the system handed to the engine is exactly the slice of the constraint list at the given '
                  'values within the limits, column swap included; the glue raises exactly the documented ValueErrors), mem_corners_iff / '
                  'corner_is_extreme (what a corner is), corners_ne_nil_of_feasible / slice_empty_iff_no_corner (no corner iff empty slice), checkVertices_sound_complete (an accepted answer lists exactly the corners, none missing, '
                  'none extra, in cyclic angular order) for the executable model Plots.plotSystem of constraints_to_vertices; the geometric engine '
                  '(Chebyshev LP, Qhull, 4-LP fallback, atan2 sort) is an oracle whose every answer is run through the proved checker on the '
                  "MODEL's system; judge: independent exact Fraction enumeration of the slice corners.")
    lean_modules = ["Pacti.Props.C18"]
    theorems = ["Pacti.C18.glue_sem", "Pacti.C18.glue_sem_point", "Pacti.C18.glue_errors", "Pacti.C18.violated_row_unsat",
                "Pacti.C18.dropped_row_valid", "Pacti.C18.mem_corners_iff", "Pacti.C18.corners_nodup", "Pacti.C18.corner_is_extreme",
                "Pacti.C18.checkVertices_sound_complete", "Pacti.C18.checkVerticesWhy_none_iff",
                "Pacti.C18.accepted_answer_is_slice_corners", "Pacti.C18.corners_ne_nil_of_feasible",
                "Pacti.C18.slice_empty_iff_no_corner", "Pacti.C18.angLe_total", "Pacti.C18.angLe_trans", "Pacti.C18.sortedFrom_sorted"]
    quick_n = 1500
    thorough_n = 40000
    judge_sample = 150
    trusted_base = [
        "Lean 4.33 kernel; axioms ⊆ {propext, Classical.choice, Quot.sound}",
        "hand-written model Model/Plots.lean (plotSystem: argument checks, boundary rows, list_union, substitution with the constant-row rule, "
        "termlist_to_polytope column order and swap) tied to pacti.utils.plots.constraints_to_vertices by this correspondence run",
        "Gen/Lists.lean regenerated from utils/lists.py by tools/py2lean.py",
        "Qhull / HiGHS / atan2 are oracles: every answer is checked by Plots.checkVertices on the model's system",
        "the identification of the exact (class, cross product) order with the float atan2 order is validated by this run, not proved",
        "snapping: a returned float denotes the nearest fraction with denominator ≤ 10^6 when that is within 1e-7",
    ]
    assumptions = ["floats denote exact rationals", "coefficient dicts have distinct keys (Python dict)", "x_var ≠ y_var",
                   "angular order is read cyclically"]
    min_branches = {"triangle": 40, "quadrilateral": 150, "pentagon": 60, "hexagon": 60, "heptagon": 25, "octagon": 25,
                    "yfirst": 250, "xfirst": 250, "segment": 60, "point": 40, "empty": 60, "degenerate-vertex": 60,
                    "boundary-dup": 30, "dropped-constant-row": 40, "extra-value": 60,
                    "err:x-valued": 15, "err:y-valued": 15, "err:missing": 25, "err:violated-row": 25}

    # ---- generator ---------------------------------------------------------------------------------
    def _poly_rows(self, rng: random.Random, k: int) -> Tuple[List[Tuple[int, int, int]], List[Tuple[int, int]]]:
        """rows of a convex polygon with integer vertices inside [-5,5]^2, aiming at k corners"""
        best = None
        for _ in range(40):
            r = rng.choice([2, 2, 3, 3, 4, 5])
            sx, sy = rng.randint(-(5 - r), 5 - r), rng.randint(-(5 - r), 5 - r)
            disk = [(i, j) for i in range(-r, r + 1) for j in range(-r, r + 1) if i * i + j * j <= r * r + 1 and abs(i) <= r and abs(j) <= r]
            n = min(len(disk), max(3, k + rng.randint(0, 2 * k)))
            pts = [(i + sx, j + sy) for i, j in rng.sample(disk, n)]
            h = _hull(pts)
            if len(h) >= 3 and (best is None or abs(len(h) - k) < abs(len(best) - k)):
                best = h
            if best is not None and len(best) == k:
                break
        if best is None:
            best = [(0, 0), (2, 0), (0, 2)]
        return _edge_rows(best), best

    def _embed(self, rng: random.Random, rows: List[Tuple[int, int, int]], x: str, y: str, extras: List[str], vals: Dict[str, int]) -> List[dict]:
        """rows over (x, y) -> terms over x, y and the fixed variables whose slice at `vals` is the given rows"""
        out = []
        for a, b, c in rows:
            cs: Dict[str, float] = {}
            items: List[Tuple[str, int]] = []
            if a:
                items.append((x, a))
            if b:
                items.append((y, b))
            k = c
            for z in extras:
                if rng.random() < 0.5:
                    e = rng.choice([-3, -2, -1, 1, 2, 3])
                    items.append((z, e))
                    k += e * vals[z]
            rng.shuffle(items)                       # dict order: decides the column order in termlist_to_polytope
            for v, cf in items:
                cs[v] = float(cf)
            out.append({"c": cs, "k": float(k)})
        return out

    def _one(self, rng: random.Random) -> dict:
        x, y = rng.choice(NAMES_XY)
        nextra = rng.choice([0, 1, 1, 2, 2])
        extras = rng.sample(EXTRA, nextra)
        vals: Dict[str, int] = {z: rng.randint(-5, 5) for z in extras}
        xl, yl = [-5, 5], [-5, 5]
        kind = "polygon"
        m = rng.random()
        tags: List[str] = []
        rows: List[Tuple[int, int, int]] = []
        if m < 0.42:                                                   # polygons, limits outside or cutting
            k = rng.choice([3, 4, 5, 5, 6, 6, 7, 7, 8, 8, 8])
            rows, h = self._poly_rows(rng, k)
            if rng.random() < 0.35:
                xs, ys = [p[0] for p in h], [p[1] for p in h]
                xl = sorted([rng.randint(min(xs) - 1, max(xs)), rng.randint(min(xs), max(xs) + 1)])
                yl = sorted([rng.randint(min(ys) - 1, max(ys)), rng.randint(min(ys), max(ys) + 1)])
                xl = [max(-5, xl[0]), min(5, xl[1])]
                yl = [max(-5, yl[0]), min(5, yl[1])]
                kind = "polygon-cut"
        elif m < 0.54:                                                 # random rows
            kind = "random"
            for _ in range(rng.randint(0, 5)):
                a, b = rng.randint(-3, 3), rng.randint(-3, 3)
                if a or b:
                    rows.append((a, b, rng.randint(-5, 8)))
            xl = sorted([rng.randint(-5, 5), rng.randint(-5, 5)])
            yl = sorted([rng.randint(-5, 5), rng.randint(-5, 5)])
        elif m < 0.65:                                                 # degenerate vertices / redundant rows
            kind = "degenerate-vertex"
            rows, h = self._poly_rows(rng, rng.choice([3, 4, 5, 6]))
            base = list(rows)
            for _ in range(rng.randint(1, 2)):
                i = rng.randrange(len(base))
                r1, r2 = base[i], base[(i + 1) % len(base)]           # both tight at vertex h[i+1]
                w1, w2 = rng.choice([1, 1, 2]), rng.choice([1, 1, 2])
                rows.insert(rng.randint(0, len(rows)), (w1 * r1[0] + w2 * r2[0], w1 * r1[1] + w2 * r2[1], w1 * r1[2] + w2 * r2[2]))
            if rng.random() < 0.4:
                r = rng.choice(base)
                f = rng.choice([1, 2])
                rows.append((f * r[0], f * r[1], f * r[2]))            # duplicated / scaled row
            tags.append("degenerate-vertex")
        elif m < 0.74:                                                 # segments
            kind = "segment"
            s = rng.random()
            if s < 0.3:
                t = rng.randint(-5, 5)
                if rng.random() < 0.5:
                    xl = [t, t]
                else:
                    yl = [t, t]
                if rng.random() < 0.6:
                    rows = [(rng.randint(-2, 2), rng.randint(-2, 2), rng.randint(0, 6))]
                    rows = [r for r in rows if r[0] or r[1]]
            elif s < 0.7:
                a, b = rng.choice([(1, 0), (0, 1), (1, 1), (1, -1), (1, 2), (2, -1), (3, 1)])
                c = rng.randint(-3, 3)
                rows = [(a, b, c), (-a, -b, -c)]
                if rng.random() < 0.5:
                    rows.append((rng.randint(-2, 2), rng.randint(-2, 2), rng.randint(0, 6)))
                    rows = [r for r in rows if r[0] or r[1]]
                rng.shuffle(rows)
            else:
                rows, h = self._poly_rows(rng, rng.choice([3, 4, 5, 6]))   # a limit that touches an edge or a vertex
                xs, ys = [p[0] for p in h], [p[1] for p in h]
                c = rng.randrange(4)
                if c == 0:
                    yl = [max(ys), 5]
                elif c == 1:
                    yl = [-5, min(ys)]
                elif c == 2:
                    xl = [max(xs), 5]
                else:
                    xl = [-5, min(xs)]
        elif m < 0.80:                                                 # single points
            kind = "point"
            s = rng.random()
            if s < 0.3:
                xl = [rng.randint(-5, 5)] * 2
                yl = [rng.randint(-5, 5)] * 2
            elif s < 0.55:
                sx, sy = rng.choice([-1, 1]), rng.choice([-1, 1])
                rows = [(sx, sy, -10)]                                  # touches one corner of the box
                if rng.random() < 0.5:
                    rows = [(sx * rng.choice([1, 2]), sy, 0)]
                    xl = sorted([0, sx * 5])
                    yl = sorted([0, sy * 5])
            else:
                px, py = rng.randint(-4, 4), rng.randint(-4, 4)
                (a, b), (a2, b2) = rng.sample([(1, 0), (0, 1), (1, 1), (1, -1), (2, 1), (1, -2)], 2)
                rows = [(a, b, a * px + b * py), (-a, -b, -(a * px + b * py)), (a2, b2, a2 * px + b2 * py), (-a2, -b2, -(a2 * px + b2 * py))]
                rng.shuffle(rows)
        elif m < 0.88:                                                 # empty slices
            kind = "empty"
            s = rng.random()
            if s < 0.35:
                a, b = rng.choice([(1, 0), (0, 1), (1, 1), (1, -1), (2, 1)])
                c = rng.randint(-3, 3)
                rows = [(a, b, c), (-a, -b, -c - rng.randint(1, 3))]
                rng.shuffle(rows)
            elif s < 0.7:
                rows, h = self._poly_rows(rng, rng.choice([3, 4, 5]))
                xs = [p[0] for p in h]
                if max(xs) < 5 and rng.random() < 0.5:
                    xl = [max(xs) + 1, 5]
                elif min(xs) > -5:
                    xl = [-5, min(xs) - 1]
                else:
                    rows.append((1, 1, -11))
            elif s < 0.85:
                xl = [rng.randint(1, 5), rng.randint(-5, 0)]            # reversed limits
            else:
                rows = [(rng.choice([-1, 1]), rng.choice([-1, 1]), -11)]
        else:                                                          # argument errors
            rows, _ = self._poly_rows(rng, rng.choice([3, 4, 5]))
            s = rng.random()
            if s < 0.22:
                kind = "err:x-valued"
            elif s < 0.44:
                kind = "err:y-valued"
            elif s < 0.72:
                kind = "err:missing"
            else:
                kind = "err:violated-row"

        terms = self._embed(rng, rows, x, y, extras, vals)

        if kind == "err:x-valued":
            vals[x] = rng.randint(-5, 5)
        elif kind == "err:y-valued":
            vals[y] = rng.randint(-5, 5)
        elif kind == "err:missing":
            z = rng.choice([n for n in EXTRA if n not in extras])
            t = rng.choice(terms) if terms and rng.random() < 0.7 else None
            if t is not None:
                t["c"][z] = float(rng.choice([-2, -1, 1, 2]))
            else:
                terms.append({"c": {z: 1.0}, "k": 3.0})
        elif kind == "err:violated-row":
            if not extras:
                z = "w"
                extras, vals = [z], {z: rng.randint(-5, 5)}
            z = rng.choice(extras)
            e = rng.choice([-2, -1, 1, 2])
            terms.insert(rng.randint(0, len(terms)), {"c": {z: float(e)}, "k": float(e * vals[z] - rng.randint(1, 3))})
        # decorations on the non-error classes
        if not kind.startswith("err") and extras and rng.random() < 0.2:
            z = rng.choice(extras)
            e = rng.choice([-2, -1, 1, 2])
            terms.insert(rng.randint(0, len(terms)), {"c": {z: float(e)}, "k": float(e * vals[z] + rng.randint(0, 2))})
            tags.append("dropped-constant-row")
        if not kind.startswith("err") and rng.random() < 0.12:
            b = rng.choice([{"c": {x: 1.0}, "k": float(xl[1])}, {"c": {x: -1.0}, "k": float(-xl[0])},
                            {"c": {y: 1.0}, "k": float(yl[1])}, {"c": {y: -1.0}, "k": float(-yl[0])}])
            terms.insert(rng.randint(0, len(terms)), b)
            tags.append("boundary-dup")
        if rng.random() < 0.12:
            z = rng.choice([n for n in EXTRA if n not in extras] or ["zz"])
            if z not in vals and all(z not in t["c"] for t in terms):
                vals[z] = rng.randint(-5, 5)
                tags.append("extra-value")
        if rng.random() < 0.3:
            items = list(vals.items())
            rng.shuffle(items)
            vals = dict(items)
        return {"terms": terms, "x": x, "y": y, "vals": vals, "xl": xl, "yl": yl, "kind": kind, "tags": tags}

    def generate(self, rng, n, tier):
        return [self._one(rng) for _ in range(n)]

    # ---- implementation / model ----------------------------------------------------------------------
    def run_impl(self, case):
        from pacti.iocontract import Var
        from pacti.utils.plots import constraints_to_vertices

        tl = G.mk_tl(case["terms"])
        xs, ys = constraints_to_vertices(tl, Var(case["x"]), Var(case["y"]), {Var(k): v for k, v in case["vals"].items()},
                                         tuple(case["xl"]), tuple(case["yl"]))
        if len(xs) != len(ys):
            return {"err": "py:ShapeMismatch"}
        return {"ok": [[float(a), float(b)] for a, b in zip(xs, ys)]}

    def _vm(self, case) -> C.VarMap:
        return C.VarMap(G.names_of(case["terms"]) + [case["x"], case["y"]] + list(case["vals"].keys()))

    def model_request(self, case, impl):
        vm = self._vm(case)
        req = {"op": "plot_check", "terms": G.w_tl(case["terms"], vm), "x": vm.i(case["x"]), "y": vm.i(case["y"]),
               "vals": [[vm.i(k), C.qs(v)] for k, v in case["vals"].items()],
               "xl": [C.qs(case["xl"][0]), C.qs(case["xl"][1])], "yl": [C.qs(case["yl"][0]), C.qs(case["yl"][1])], "pts": None}
        if "ok" in impl:
            try:
                req["pts"] = [[C.qs(p[0]), C.qs(p[1])] for p in snapped_points(impl)]
            except (ValueError, OverflowError):
                req["pts"] = None       # non-finite output: compare() reports it
        return req

    def compare(self, case, impl, model):
        if "err" in model:
            if impl.get("err") == model["err"]:
                return None
            return f"model glue raises {model['err']}, implementation {impl.get('err', 'returned points')}"
        ncorn = len(model["corners"])
        if ncorn == 0:
            if impl.get("err") == "ValueError":
                return None
            return f"the slice has no corner (empty): ValueError expected, implementation {impl.get('err', 'returned ' + str(impl.get('ok')))}"
        if "err" in impl:
            return f"the slice has {ncorn} corner(s) {model['corners']}, implementation raised {impl['err']}: {impl.get('msg', '')}"
        chk = model.get("check")
        if chk is None:
            return "implementation output is not a list of finite points: " + str(impl["ok"])[:200]
        if chk["ok"]:
            return None
        return f"check_vertices fails ({chk['why']}): corners {chk['corners']}, implementation points {impl['ok']}"

    # ---- judge: independent exact enumeration -----------------------------------------------------------
    def judge(self, case, impl):
        if "err" in impl and impl["err"] not in ("ValueError",):
            return {"signature": "plot:undocumented-exception:" + impl["err"], "what": str(impl.get("msg")), "witness": case}
        st, rows = slice_of(case)
        if st == "arg":
            return None                     # property text silent (x or y given a value): correspondence only
        if st == "missing":
            if impl.get("err") == "ValueError":
                return None
            return {"signature": "plot:no-ValueError-on-missing-value", "what": "a constrained variable has no value but points were returned",
                    "witness": case}
        corners = exact_corners(rows) if st == "rows" else []
        if st == "rows" and not corners:
            feas, pt = J.feasible([{"c": {"x": a, "y": b}, "k": k} for a, b, k in rows])
            if feas:
                return {"signature": "judge-crash", "what": "judge inconsistent: feasible slice without a corner", "witness": J.pt_str(pt), "infra": True}
        if not corners:
            if impl.get("err") == "ValueError":
                return None
            return {"signature": "plot:no-ValueError-on-empty-slice", "what": "the slice is empty but points were returned: " + str(impl.get("ok")),
                    "witness": case}
        if "err" in impl:
            return {"signature": "plot:ValueError-on-nonempty-slice",
                    "what": f"ValueError although the slice has the corners {[(str(a), str(b)) for a, b in corners]}", "witness": case}
        # match every returned point to a corner within 1e-7 (absolute, coordinates are within [-5,5])
        seq: List[Tuple[Fraction, Fraction]] = []
        for px, py in impl["ok"]:
            if not (math.isfinite(px) and math.isfinite(py)):
                return {"signature": "plot:extra-point", "what": f"non-finite point ({px}, {py})", "witness": case}
            fx, fy = Fraction(px), Fraction(py)
            hit = [c for c in corners if abs(c[0] - fx) <= SNAP_TOL and abs(c[1] - fy) <= SNAP_TOL]
            if not hit:
                viol = [(str(a), str(b), str(k)) for a, b, k in rows if a * fx + b * fy > k + Fraction(1, 10**4)]
                return {"signature": "plot:extra-point",
                        "what": f"returned point ({px}, {py}) is not a corner of the slice; corners: {[(str(a), str(b)) for a, b in corners]}"
                                + (f"; it violates the rows {viol}" if viol else ""),
                        "witness": {"point": [px, py]}}
            if hit[0] not in seq:
                seq.append(hit[0])
        miss = [c for c in corners if c not in seq]
        if miss:
            return {"signature": "plot:missing-corner", "what": f"corner(s) {[(str(a), str(b)) for a, b in miss]} of the slice are not returned; returned: {impl['ok']}",
                    "witness": {"missing": [(str(a), str(b)) for a, b in miss]}}
        if len(seq) >= 3:
            cx = sum(p[0] for p in seq) / len(seq)
            cy = sum(p[1] for p in seq) / len(seq)
            srt = sorted(seq, key=functools.cmp_to_key(lambda p, q: _ang_cmp((p[0] - cx, p[1] - cy), (q[0] - cx, q[1] - cy))))
            i = srt.index(seq[0])
            if srt[i:] + srt[:i] != seq:
                return {"signature": "plot:not-in-angular-order", "what": f"the corners are returned in the order {[(str(a), str(b)) for a, b in seq]}, "
                        f"which is not a rotation of the angular order about the centroid {[(str(a), str(b)) for a, b in srt]}", "witness": case}
        return None

    # ---- coverage ------------------------------------------------------------------------------------
    def branch(self, case, impl, model):
        b = list(case.get("tags", []))
        if case["kind"].startswith("err:"):
            b.append(case["kind"])
        b.append("kind:" + case["kind"])
        if model is None:
            return b
        if "err" in model:
            b.append("glue-error")
            return b
        n = len(model["corners"])
        b.append("yfirst" if model.get("swapped") else "xfirst")
        if n >= 3:
            b.append(POLY.get(n, "corners:%d" % n))
        else:
            b.append(["empty", "point", "segment"][n])
        if "ok" in impl and len(impl["ok"]) > len(snapped_points(impl)):
            b.append("repeated-points")
        return b

    def nontrivial(self, case, impl):
        return slice_of(case)[0] == "rows"


CHECK = C18()
